(** C17 -- external commands run only when expected, with the documented arguments and output handling.
    Statements only; proofs live in Proofs/C17Shapes.v and Proofs/C17Proofs.v (on Model/BashSem.v, the interpreter
    of the emitted bash skeleton, tied to real bash by T2; the specification is Spec/Invocations.v). *)
From CG Require Import Base.Prelude Model.Dfa Model.Glob Model.BashSem Model.C17Witness Spec.Invocations Spec.InvocationsSub.
From CG Require Import Proofs.GlobFacts Proofs.SubwordFacts Proofs.C12Proofs Proofs.C12Chain Proofs.C17Proofs Proofs.C17Shapes Proofs.C17Total Proofs.C17Pick Proofs.C17Sub.

(** For ALL tables, environments and command lines: every invocation the script makes passes ("","") while a
    complete word is matched at top level, (typed prefix, "") at the cursor, and inside a word w a split of w --
    (rest of w, part of w already matched) -- and it names a command function that exists. *)
Theorem C17_invocation_shapes :
  forall tabs e ws p v start r,
    run_from v start tabs e ws p = Ok r ->
    Forall (fun inv => shape ws p inv /\ nthN (a_commands tabs) (fst (fst inv)) <> None) (r_log r).
Proof. exact run_from_shapes. Qed.
Check C17_invocation_shapes :
  forall tabs e ws p v start r,
    run_from v start tabs e ws p = Ok r ->
    Forall (fun inv => shape ws p inv /\ nthN (a_commands tabs) (fst (fst inv)) <> None) (r_log r).
Print Assumptions C17_invocation_shapes.

(** /repo HEAD ([Repaired]: candidates = text before the first tab via printf, quoted operands, no last-word escape,
    arrays reset per level): for EVERY environment and EVERY command line over tables without within-word
    expressions, return code, COMPREPLY and the whole invocation log are what the specification prescribes -- exactly
    the expected commands, in the expected places, with the expected arguments; candidates are the text before the
    first tab of each line; a word is accepted by a command iff it equals a candidate.  No known-class hypothesis is
    left (the prefix must be printable ASCII: printf %q). *)
Theorem C17_repaired_toplevel_spec :
  forall start tabs e ws p r esc,
    spec_subword_free tabs -> e_ignore_case e = false -> printable_str p = true ->
    spec_run start tabs e ws p = Ok (r, esc) ->
    run_from Repaired start tabs e ws p = Ok r.
Proof. exact run_from_spec_repaired. Qed.
Check C17_repaired_toplevel_spec :
  forall start tabs e ws p r esc,
    spec_subword_free tabs -> e_ignore_case e = false -> printable_str p = true ->
    spec_run start tabs e ws p = Ok (r, esc) ->
    run_from Repaired start tabs e ws p = Ok r.
Print Assumptions C17_repaired_toplevel_spec.

(** ... and its candidates are the specification's, for every output text *)
Theorem C17_repaired_candidates :
  forall output, command_lines Repaired output = spec_candidates output.
Proof. exact filter_lines_repaired_spec. Qed.
Check C17_repaired_candidates :
  forall output, command_lines Repaired output = spec_candidates output.
Print Assumptions C17_repaired_candidates.

(** /repo HEAD, WITH within-word expressions: for all tables whose within-word literal arrays are non-empty texts in
    decreasing length (dfa.rs; checked on Rust's tables), every environment and every command line (printable prefix),
    return code, COMPREPLY and the whole invocation log are what Spec/InvocationsSub.v prescribes.  Inside a word that
    specification is declarative: at a point with [rest] to read, the LONGEST expected literal -- resp. candidate of an
    expected command, run with ([rest], matched part), candidates = text before the first tab -- that is a non-empty
    prefix of [rest] is consumed; when completing, the walk stops where [rest] is a proper prefix of an expected piece;
    a complete word matches iff it is consumed ending in an accepting state; completion runs every command expected at
    the point reached with ([rest], matched part) and offers matched part ++ candidate for the candidates extending
    [rest].  (The script's ordered first-hit loops over the length-sorted literal array and the `sort`ed candidates are
    shown equal to that choice: Proofs/C17Pick.v.) *)
Theorem C17_repaired_subword_spec :
  forall start tabs e ws p r,
    wf_subwords tabs -> e_ignore_case e = false -> printable_str p = true ->
    spec_run_sw start tabs e ws p = Ok r ->
    run_from Repaired start tabs e ws p = Ok r.
Proof. exact run_from_repaired_spec_sw. Qed.
Check C17_repaired_subword_spec :
  forall start tabs e ws p r,
    wf_subwords tabs -> e_ignore_case e = false -> printable_str p = true ->
    spec_run_sw start tabs e ws p = Ok r ->
    run_from Repaired start tabs e ws p = Ok r.
Print Assumptions C17_repaired_subword_spec.

(** the building block: inside a word the interpreter IS the specification, round by round *)
Theorem C17_repaired_within_word :
  forall c tabs e T acc word fuel state ci log,
    wf_sub T ->
    sw_loop fuel Repaired c tabs e T acc word state ci log = spec_sw_loop fuel c tabs e T acc word state ci log.
Proof. intros c tabs e T acc word fuel state ci log H. now apply sw_loop_spec. Qed.
Check C17_repaired_within_word :
  forall c tabs e T acc word fuel state ci log,
    wf_sub T ->
    sw_loop fuel Repaired c tabs e T acc word state ci log = spec_sw_loop fuel c tabs e T acc word state ci log.
Print Assumptions C17_repaired_within_word.

(** /repo HEAD always terminates: for ALL tables whose within-word literals are non-empty (the parser guarantees it),
    every environment and every command line, the interpreter neither runs out of fuel (every round of the within-word
    loop consumes at least one character: an empty candidate is never consumed) nor panics, and a result is a return
    code 0 or 1.  ([Err] remains possible: it flags a query outside the modelled domain -- an extended glob in
    COMP_WORDBREAKS stripping, a non-printable prefix given to printf %q, a command id without function.) *)
Theorem C17_repaired_total :
  forall tabs e start ws p,
    wf_subword_literals tabs ->
    run_from Repaired start tabs e ws p <> OutOfFuel
    /\ (forall site, run_from Repaired start tabs e ws p <> Panic site)
    /\ (forall r, run_from Repaired start tabs e ws p = Ok r -> r_rc r = 0 \/ r_rc r = 1).
Proof.
  intros tabs e start ws p H.
  destruct (run_from_repaired_total tabs e H start ws p) as [F R].
  destruct (run_from Repaired start tabs e ws p); cbn in F; repeat split; try discriminate; try contradiction; exact R.
Qed.
Check C17_repaired_total :
  forall tabs e start ws p,
    wf_subword_literals tabs ->
    run_from Repaired start tabs e ws p <> OutOfFuel
    /\ (forall site, run_from Repaired start tabs e ws p <> Panic site)
    /\ (forall r, run_from Repaired start tabs e ws p = Ok r -> r_rc r = 0 \/ r_rc r = 1).
Print Assumptions C17_repaired_total.

(** The templates before the repair ([Pinned], [Fixed]): the same equality only on the clean top-level domain -- no within-word expressions, every command prints lines without blanks that
    are not option words of echo, glob-free complete words, printable prefix, and the situation of the last-word
    escape does not arise -- return code, COMPREPLY and the whole invocation log are what the specification
    prescribes: exactly the expected commands, in the expected places, with the expected arguments; candidates are
    the lines; a word is accepted by a command iff it equals a candidate. *)
Theorem C17_toplevel_spec :
  forall v start tabs e ws p r,
    spec_subword_free tabs -> clean_env e -> e_ignore_case e = false ->
    Forall (fun w => plain w = true) ws -> printable_str p = true ->
    spec_run start tabs e ws p = Ok (r, false) ->
    run_from v start tabs e ws p = Ok r.
Proof. exact run_from_spec. Qed.
Check C17_toplevel_spec :
  forall v start tabs e ws p r,
    spec_subword_free tabs -> clean_env e -> e_ignore_case e = false ->
    Forall (fun w => plain w = true) ws -> printable_str p = true ->
    spec_run start tabs e ws p = Ok (r, false) ->
    run_from v start tabs e ws p = Ok r.
Print Assumptions C17_toplevel_spec.

(** `cmd | while read -r f1 _; do echo "$f1"; done` read back with readarray is the identity on clean lines, and so
    is "the text before the first tab". *)
Theorem C17_clean_candidates :
  forall ls, Forall clean_line ls -> filter_lines (unlines ls) = ls /\ spec_candidates (unlines ls) = ls.
Proof. intros ls H. split; [now apply filter_lines_clean|now apply spec_candidates_clean]. Qed.
Check C17_clean_candidates :
  forall ls, Forall clean_line ls -> filter_lines (unlines ls) = ls /\ spec_candidates (unlines ls) = ls.
Print Assumptions C17_clean_candidates.

(** *** Refutations of the templates before the repair, outside that domain; each is followed by what [Repaired] does (w1: cmd ({{{c1}}} x | {{{c2}}} y);  w2: cmd p:({{{c1}}})... next;) *)
Definition lf : string := String (ch 10) EmptyString.
Definition env1 (o1 o2 : string) : env := mkenv default_wordbreaks [(0, o1); (1, o2)] false.
Definition env2 (o : string) : env := mkenv default_wordbreaks [(0, o)] false.

(** `read -r f1 _` cuts at the first space: the candidate "my file" is offered as "my". *)
Theorem C17_refuted_space :
  let e := env1 ("my file" ++ lf ++ "plain" ++ lf) ("cb" ++ lf) in
  run_from Pinned 0 w1 e [] "" = Ok (mkresult 0 ["my"; "plain"; "cb"] [(0, "", ""); (1, "", "")])
  /\ spec_run 0 w1 e [] "" = Ok (mkresult 0 ["my file"; "plain"; "cb"] [(0, "", ""); (1, "", "")], false).
Proof. vm_compute. split; reflexivity. Qed.
Check C17_refuted_space :
  let e := env1 ("my file" ++ lf ++ "plain" ++ lf) ("cb" ++ lf) in
  run_from Pinned 0 w1 e [] "" = Ok (mkresult 0 ["my"; "plain"; "cb"] [(0, "", ""); (1, "", "")])
  /\ spec_run 0 w1 e [] "" = Ok (mkresult 0 ["my file"; "plain"; "cb"] [(0, "", ""); (1, "", "")], false).
Print Assumptions C17_refuted_space.

(** `echo "$f1"` swallows -n and -e (and -n glues: here "a" survives, an empty candidate appears). *)
Theorem C17_refuted_echo_option :
  let e := env1 ("-n" ++ lf ++ "a" ++ lf ++ "-e" ++ lf ++ "b" ++ lf) ("cb" ++ lf) in
  run_from Pinned 0 w1 e [] "" = Ok (mkresult 0 ["a"; ""; "b"; "cb"] [(0, "", ""); (1, "", "")])
  /\ spec_run 0 w1 e [] "" = Ok (mkresult 0 ["-n"; "a"; "-e"; "b"; "cb"] [(0, "", ""); (1, "", "")], false).
Proof. vm_compute. split; reflexivity. Qed.
Check C17_refuted_echo_option :
  let e := env1 ("-n" ++ lf ++ "a" ++ lf ++ "-e" ++ lf ++ "b" ++ lf) ("cb" ++ lf) in
  run_from Pinned 0 w1 e [] "" = Ok (mkresult 0 ["a"; ""; "b"; "cb"] [(0, "", ""); (1, "", "")])
  /\ spec_run 0 w1 e [] "" = Ok (mkresult 0 ["-n"; "a"; "-e"; "b"; "cb"] [(0, "", ""); (1, "", "")], false).
Print Assumptions C17_refuted_echo_option.

(** The `word_index + 1 == cword` escape: an unmatched last word does not make the script return 1 -- it
    completes from the state before that word; and because the escape sits inside the loop over the commands, the
    fully typed candidate "ca" of the second command asked is never recognised (bash asks command 1 before 0). *)
Theorem C17_refuted_last_word :
  let e := env1 ("ca" ++ lf) ("cb" ++ lf) in
  run_from Pinned 0 w1 e ["zz"] "" = Ok (mkresult 0 ["ca"; "cb"] [(1, "", ""); (0, "", ""); (1, "", "")])
  /\ spec_run 0 w1 e ["zz"] "" = Ok (mkresult 1 [] [(1, "", ""); (0, "", "")], true)
  /\ run_from Pinned 0 w1 e ["ca"] "" = Ok (mkresult 0 ["ca"; "cb"] [(1, "", ""); (0, "", ""); (1, "", "")])
  /\ spec_run 0 w1 e ["ca"] "" = Ok (mkresult 0 ["x "] [(1, "", ""); (0, "", "")], true).
Proof. vm_compute. repeat split; reflexivity. Qed.
Check C17_refuted_last_word :
  let e := env1 ("ca" ++ lf) ("cb" ++ lf) in
  run_from Pinned 0 w1 e ["zz"] "" = Ok (mkresult 0 ["ca"; "cb"] [(1, "", ""); (0, "", ""); (1, "", "")])
  /\ spec_run 0 w1 e ["zz"] "" = Ok (mkresult 1 [] [(1, "", ""); (0, "", "")], true)
  /\ run_from Pinned 0 w1 e ["ca"] "" = Ok (mkresult 0 ["ca"; "cb"] [(1, "", ""); (0, "", ""); (1, "", "")])
  /\ spec_run 0 w1 e ["ca"] "" = Ok (mkresult 0 ["x "] [(1, "", ""); (0, "", "")], true).
Print Assumptions C17_refuted_last_word.

(** The typed word is a glob pattern for the candidates: "*" is accepted as the candidate of command 1. *)
Theorem C17_refuted_glob_word :
  let e := env1 ("ca" ++ lf) ("cb" ++ lf) in
  run_from Pinned 0 w1 e ["*"; "y"] "" = Ok (mkresult 0 [] [(1, "", "")])
  /\ spec_run 0 w1 e ["*"; "y"] "" = Ok (mkresult 1 [] [(1, "", ""); (0, "", "")], false).
Proof. vm_compute. split; reflexivity. Qed.
Check C17_refuted_glob_word :
  let e := env1 ("ca" ++ lf) ("cb" ++ lf) in
  run_from Pinned 0 w1 e ["*"; "y"] "" = Ok (mkresult 0 [] [(1, "", "")])
  /\ spec_run 0 w1 e ["*"; "y"] "" = Ok (mkresult 1 [] [(1, "", ""); (0, "", "")], false).
Print Assumptions C17_refuted_glob_word.

(** An empty candidate line inside a word is consumed without progress: on the within-word cycle of w2 the loop
    revisits a configuration, i.e. the real script does not terminate (observed: real bash hangs). *)
Theorem C17_refuted_empty_candidate :
  run_from Pinned 0 w2 (env2 ("x" ++ lf ++ lf ++ "xy" ++ lf)) ["p:q"] "" = OutOfFuel
  /\ run_from Fixed 0 w2 (env2 ("x" ++ lf ++ lf ++ "xy" ++ lf)) ["p:q"] "" = OutOfFuel.
Proof. vm_compute. split; reflexivity. Qed.
Check C17_refuted_empty_candidate :
  run_from Pinned 0 w2 (env2 ("x" ++ lf ++ lf ++ "xy" ++ lf)) ["p:q"] "" = OutOfFuel
  /\ run_from Fixed 0 w2 (env2 ("x" ++ lf ++ lf ++ "xy" ++ lf)) ["p:q"] "" = OutOfFuel.
Print Assumptions C17_refuted_empty_candidate.

(** Inside a word the pinned stop test refuses the fully typed candidate "x" because "xy" extends it; the repair
    of C12 accepts it.  The arguments are the documented ones: (rest "x", matched part "p:"). *)
Theorem C17_refuted_candidate_chain :
  let e := env2 ("x" ++ lf ++ "xy" ++ lf) in
  run_from Pinned 0 w2 e ["p:x"] "" = Ok (mkresult 1 [] [(0, "x", "p:")])
  /\ run_from Fixed 0 w2 e ["p:x"] "" = Ok (mkresult 0 ["next "] [(0, "x", "p:")]).
Proof. vm_compute. split; reflexivity. Qed.
Check C17_refuted_candidate_chain :
  let e := env2 ("x" ++ lf ++ "xy" ++ lf) in
  run_from Pinned 0 w2 e ["p:x"] "" = Ok (mkresult 1 [] [(0, "x", "p:")])
  /\ run_from Fixed 0 w2 e ["p:x"] "" = Ok (mkresult 0 ["next "] [(0, "x", "p:")]).
Print Assumptions C17_refuted_candidate_chain.

(** On the same witnesses /repo HEAD does what the specification says (inside the word of w2: the empty candidate is
    not consumed, the loop ends; the fully typed candidate "x" is accepted although "xy" extends it). *)
Theorem C17_repaired_witnesses :
  run_from Repaired 0 w1 (env1 ("my file" ++ lf ++ "plain" ++ lf) ("cb" ++ lf)) [] ""
  = Ok (mkresult 0 ["my file"; "plain"; "cb"] [(0, "", ""); (1, "", "")])
  /\ run_from Repaired 0 w1 (env1 ("-n" ++ lf ++ "a" ++ lf ++ "-e" ++ lf ++ "b" ++ lf) ("cb" ++ lf)) [] ""
     = Ok (mkresult 0 ["-n"; "a"; "-e"; "b"; "cb"] [(0, "", ""); (1, "", "")])
  /\ run_from Repaired 0 w1 (env1 ("ca" ++ lf) ("cb" ++ lf)) ["zz"] "" = Ok (mkresult 1 [] [(1, "", ""); (0, "", "")])
  /\ run_from Repaired 0 w1 (env1 ("ca" ++ lf) ("cb" ++ lf)) ["ca"] "" = Ok (mkresult 0 ["x "] [(1, "", ""); (0, "", "")])
  /\ run_from Repaired 0 w1 (env1 ("ca" ++ lf) ("cb" ++ lf)) ["*"; "y"] "" = Ok (mkresult 1 [] [(1, "", ""); (0, "", "")])
  /\ run_from Repaired 0 w2 (env2 ("x" ++ lf ++ lf ++ "xy" ++ lf)) ["p:q"] "" = Ok (mkresult 1 [] [(0, "q", "p:")])
  /\ run_from Repaired 0 w2 (env2 ("x" ++ lf ++ "xy" ++ lf)) ["p:x"] "" = Ok (mkresult 0 ["next "] [(0, "x", "p:")]).
Proof. vm_compute. repeat split; reflexivity. Qed.
Check C17_repaired_witnesses :
  run_from Repaired 0 w1 (env1 ("my file" ++ lf ++ "plain" ++ lf) ("cb" ++ lf)) [] ""
  = Ok (mkresult 0 ["my file"; "plain"; "cb"] [(0, "", ""); (1, "", "")])
  /\ run_from Repaired 0 w1 (env1 ("-n" ++ lf ++ "a" ++ lf ++ "-e" ++ lf ++ "b" ++ lf) ("cb" ++ lf)) [] ""
     = Ok (mkresult 0 ["-n"; "a"; "-e"; "b"; "cb"] [(0, "", ""); (1, "", "")])
  /\ run_from Repaired 0 w1 (env1 ("ca" ++ lf) ("cb" ++ lf)) ["zz"] "" = Ok (mkresult 1 [] [(1, "", ""); (0, "", "")])
  /\ run_from Repaired 0 w1 (env1 ("ca" ++ lf) ("cb" ++ lf)) ["ca"] "" = Ok (mkresult 0 ["x "] [(1, "", ""); (0, "", "")])
  /\ run_from Repaired 0 w1 (env1 ("ca" ++ lf) ("cb" ++ lf)) ["*"; "y"] "" = Ok (mkresult 1 [] [(1, "", ""); (0, "", "")])
  /\ run_from Repaired 0 w2 (env2 ("x" ++ lf ++ lf ++ "xy" ++ lf)) ["p:q"] "" = Ok (mkresult 1 [] [(0, "q", "p:")])
  /\ run_from Repaired 0 w2 (env2 ("x" ++ lf ++ "xy" ++ lf)) ["p:x"] "" = Ok (mkresult 0 ["next "] [(0, "x", "p:")]).
Print Assumptions C17_repaired_witnesses.

(** literal prefix + command tail (w2: cmd p:({{{c1}}})... next;): the specification computes the documented calls --
    (rest, matched part) = ("xy", "p:") then ("y", "p:x") while matching p:xy with candidates x, xy, y; ("x", "p:") twice
    (walk, then completion) for the word p:x under the cursor -- and the hypotheses of the theorem hold for w2. *)
Example ex_C17_subword_inhabited :
  let e := env2 ("x" ++ lf ++ "xy" ++ lf ++ "q" ++ String (ch 9) "descr" ++ lf) in
  wf_subwords w2
  /\ spec_run_sw 0 w2 e ["p:xy"] "" = Ok (mkresult 0 ["next "] [(0, "xy", "p:")])
  /\ spec_run_sw 0 w2 e ["p:xq"] "" = Ok (mkresult 0 ["next "] [(0, "xq", "p:"); (0, "q", "p:x")])
  /\ spec_run_sw 0 w2 e ["p:z"] "" = Ok (mkresult 1 [] [(0, "z", "p:")])
  /\ spec_run_sw 0 w2 e [] "p:x" = Ok (mkresult 0 ["x"; "xy"] [(0, "x", "p:"); (0, "x", "p:")])
  /\ spec_run_sw 0 w2 e [] "p:" = Ok (mkresult 0 ["x"; "xy"; "q"] [(0, "", "p:")]).
Proof.
  cbv zeta. split.
  - intros pool sid T H. cbn in H. destruct H as [H|[]]. injection H as _ _ <-. split.
    + intros id l Hin. cbn in Hin. destruct Hin as [Hin|[]]. injection Hin as _ <-. discriminate.
    + cbn. split; [intros id l' []|exact I].
  - vm_compute. repeat split; reflexivity.
Qed.
Print Assumptions ex_C17_subword_inhabited.

(** Non-vacuity of C17_toplevel_spec: w1 with clean outputs is in the domain, the escape does not arise for the
    line [cb] + prefix "", and both sides compute the same non-trivial result. *)
Example ex_C17_inhabited :
  let e := env1 ("ca" ++ lf) ("cb" ++ lf) in
  spec_subword_free w1 /\ clean_env e /\ e_ignore_case e = false
  /\ spec_run 0 w1 e ["cb"] "" = Ok (mkresult 0 ["y "] [(1, "", "")], false)
  /\ run_from Pinned 0 w1 e ["cb"] "" = Ok (mkresult 0 ["y "] [(1, "", "")])
  /\ spec_run 0 w1 e [] "c" = Ok (mkresult 0 ["ca"; "cb"] [(0, "c", ""); (1, "c", "")], false).
Proof.
  cbv zeta. repeat split.
  - intros level state. destruct level as [|[|level]]; reflexivity.
  - intros cid. unfold cmd_output, env1. cbn [e_outputs assocN].
    destruct (N.eqb cid 0) eqn:E0.
    + exists ["ca"]. split; [reflexivity|]. repeat constructor.
    + destruct (N.eqb cid 1) eqn:E1.
      * exists ["cb"]. split; [reflexivity|]. repeat constructor.
      * exists []. split; [reflexivity|constructor].
Qed.
Print Assumptions ex_C17_inhabited.
