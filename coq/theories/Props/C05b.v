(** C05 / C06 (parser part) -- facts about the parser model on ARBITRARY input bytes: it is total,
    and its image has a fixed shape.  Statements only; proofs live in Proofs/ParseTotal.v,
    Proofs/ParseShape.v, Proofs/ParseImage.v.  [parse = parse_with pinned] is what [Driver.compile]
    calls; every theorem also holds for any lexer configuration [c]. *)
From CG Require Import Base.Prelude Model.Ast Model.Lexer Model.Parser Spec.Printer Spec.Shape Spec.Image
  Proofs.TreeFacts Proofs.ParseTotal Proofs.ParseShape Proofs.ParseImage.
From CGgen Require Import Consts.

(** The parser never panics and never runs out of the fuel it gives itself: for every text the
    result is a grammar or a [ParseError] span (C06, parser stage). *)
Theorem parse_total :
  forall s, (exists g, parse s = Ok g) \/ (exists sp, parse s = Err sp).
Proof. intros. apply parse_with_total. Qed.
Check parse_total :
  forall s, (exists g, parse s = Ok g) \/ (exists sp, parse s = Err sp).
Print Assumptions parse_total.

Theorem parse_total_cfg :
  forall c s, (exists g, parse_with c s = Ok g) \/ (exists sp, parse_with c s = Err sp).
Proof. exact parse_with_total. Qed.
Check parse_total_cfg :
  forall c s, (exists g, parse_with c s = Ok g) \/ (exists sp, parse_with c s = Err sp).
Print Assumptions parse_total_cfg.

(** The shape of everything the parser produces ([Spec/Shape.v]): every [Sequence], [Alternative],
    [Fallback] has at least two children; every [Subword] is over a [Sequence] of at least two
    factors and contains no [Subword]; levels are 0; [compadd] is false; literals, nonterminal
    names, statement names and shell names are not empty. *)
Theorem parse_image_shape :
  forall s g, parse s = Ok g -> Forall (fun st => stmt_shape st = true) g.
Proof. intros s g H. apply Forall_forall. apply forallb_forall. exact (parse_shape pinned s g H). Qed.
Check parse_image_shape :
  forall s g, parse s = Ok g -> Forall (fun st => stmt_shape st = true) g.
Print Assumptions parse_image_shape.

(** ... in particular every [|] and [||] has an operand: the hypothesis of [C02_total_model] /
    [C03_wf_from_regex] holds for every parsed grammar. *)
Theorem parse_alts_nonempty :
  forall s g, parse s = Ok g -> grammar_alts_nonempty g = true.
Proof. intros s g H. exact (ParseShape.parse_alts_nonempty pinned s g H). Qed.
Check parse_alts_nonempty :
  forall s g, parse s = Ok g -> grammar_alts_nonempty g = true.
Print Assumptions parse_alts_nonempty.

(** The converse inclusion of the round trip ([Spec/Image.v]): every parsed grammar satisfies
    [stmt_img], which is [wf_stmt] without the condition that literals do not start with [#]; so
    the parser's image is exactly the printable grammars plus those with such a literal. *)
Theorem C05_image_partial :
  forall s g, parse s = Ok g -> forallb stmt_img g = true.
Proof. intros s g H. exact (parse_image pinned s g H). Qed.
Check C05_image_partial :
  forall s g, parse s = Ok g -> forallb stmt_img g = true.
Print Assumptions C05_image_partial.

Theorem C05_wf_is_image_modulo_hash :
  forall st, wf_stmt st = stmt_img st && stmt_nohash st.
Proof. exact wf_stmt_split. Qed.
Check C05_wf_is_image_modulo_hash :
  forall st, wf_stmt st = stmt_img st && stmt_nohash st.
Print Assumptions C05_wf_is_image_modulo_hash.

Theorem C05_image_printable :
  forall s g, parse s = Ok g -> forallb stmt_nohash g = true -> wf g.
Proof. intros s g H N. exact (parse_image_wf pinned s g H N). Qed.
Check C05_image_printable :
  forall s g, parse s = Ok g -> forallb stmt_nohash g = true -> wf g.
Print Assumptions C05_image_printable.

(** Non-vacuity: an accepted text, a rejected one, and the degenerate heads [<A@>] / [<@b>] that
    are plain definitions (the specialisation syntax needs a name and a shell). *)
Example ex_C05b_inhabited :
  match parse "cmd (a | b<C>)... [d];" with
  | Ok g => forallb stmt_shape g && forallb wf_stmt g | _ => false end = true
  /\ match parse "cmd (a | ;" with Err _ => true | _ => false end = true
  /\ match parse "c x; <A@> = y; <@b> = z;" with Ok g => forallb wf_stmt g | _ => false end = true
  /\ match parse "cmd <A>#x;" with
     | Ok g => forallb stmt_img g && negb (forallb stmt_nohash g) | _ => false end = true.
Proof. vm_compute. repeat split; reflexivity. Qed.
Print Assumptions ex_C05b_inhabited.
