(** C04 / C06, capstone -- the whole of [complgen --bash] as one Gallina function
    ([Model/Compiler.v]: [compile_bash] = [Driver.compile] ; [Tables.all_tables Bash] ;
    [EmitBash.script], with the hash-order dependent choices as validated oracles).
    Statements only; proofs in Proofs/CompilerTotal.v and the files it composes.

    The function is tied to the implementation end to end by lib/vf/checks/e2e.py (called from
    c04.py): run on the SOURCE TEXT with the oracles read off Rust's dumps, it returns byte for byte
    the script the real [complgen --bash] binary writes, and rejects exactly the grammars the
    binary rejects, at the same stage with the same error variant. *)
From CG Require Import Base.Prelude Model.Ast Model.Check Model.Dfa Model.Driver Model.Tables Model.EmitBash
  Model.Compiler Spec.Lang Spec.ScriptRead.
From CG Require Import Proofs.PipelineTotal Proofs.BashScript Proofs.BashCodec.
From CG Require Proofs.CompilerTotal Proofs.CompiledFacts Proofs.TreeFacts Proofs.CheckTree Props.C05b Props.C04.
From CGgen Require Import Consts.

(** Totality.  For EVERY oracle value, input text and table of built-ins, [compile_bash] returns a
    script, or a rejection of the grammar ([CDriver]: parse / check / regex / ambiguity error), or
    [CBadOracle] (a literal order or the shape grouping fails its validation) -- it never reaches
    a panic site of the modelled code (no [unwrap], index, intern-pool lookup or fallback-level
    index of parse.rs, check.rs, regex.rs, dfa.rs, tables.rs, bash.rs can fail) and no
    fuel-bounded loop runs out of fuel, provided the one fuel that is a parameter (subset
    construction) covers the regexes of the text. *)
Theorem compile_bash_total :
  forall o builtins text,
    fuel_covers (o_fuel o) builtins text Bash ->
    (exists s, compile_bash o builtins text = Ok s) \/ (exists e, compile_bash o builtins text = Err e).
Proof. exact CompilerTotal.compile_bash_total. Qed.
Check compile_bash_total :
  forall o builtins text,
    fuel_covers (o_fuel o) builtins text Bash ->
    (exists s, compile_bash o builtins text = Ok s) \/ (exists e, compile_bash o builtins text = Err e).
Print Assumptions compile_bash_total.

(** A grammar is rejected by [compile_bash] exactly when the pipeline rejects it, with the same
    error; the oracles for the tables and the emitter play no part in that. *)
Theorem compile_bash_rejects :
  forall o builtins text e,
    compile_bash o builtins text = Err (CDriver e) <->
    compile (pick_table (o_pops o)) (o_fuel o) builtins text Bash = Err e.
Proof.
  intros o builtins text e. unfold compile_bash.
  destruct (compile (pick_table (o_pops o)) (o_fuel o) builtins text Bash) as [[v c]|e'| |]; split; intro H;
    try discriminate; try (inversion H; reflexivity).
  unfold emit_bash in H. destruct (orders_ok _ _ _); [|discriminate].
  destruct (all_tables _ _ _ _) as [[nd a]| | |]; try discriminate.
  destruct (valid_grouping _ _); [|discriminate]. destruct (script _ _ _ _ _ _); discriminate.
Qed.
Check compile_bash_rejects :
  forall o builtins text e,
    compile_bash o builtins text = Err (CDriver e) <->
    compile (pick_table (o_pops o)) (o_fuel o) builtins text Bash = Err e.
Print Assumptions compile_bash_rejects.

(** A script returned by [compile_bash] is the script [EmitBash.script_of_dfa] prints for the
    automaton [Driver.compile] returns, with valid literal orders and a valid shape grouping. *)
Theorem compile_bash_is_script :
  forall o builtins text s,
    compile_bash o builtins text = Ok s ->
    exists v c,
      compile (pick_table (o_pops o)) (o_fuel o) builtins text Bash = Ok (v, c)
      /\ script_of_dfa (v_command v) (o_sig o) c (o_main_lits o) (o_sub_lits o) (o_groups o) = Ok (s, true).
Proof.
  intros o builtins text s. unfold compile_bash.
  destruct (compile (pick_table (o_pops o)) (o_fuel o) builtins text Bash) as [[v c]|e'| |]; try discriminate.
  intro H. exists v, c. split; [reflexivity|]. unfold emit_bash in H. unfold script_of_dfa.
  destruct (orders_ok c (o_main_lits o) (o_sub_lits o)) eqn:Ho; [|discriminate].
  destruct (all_tables Bash c (o_main_lits o) (o_sub_lits o)) as [[nd a]| | |]; try discriminate. cbn [obind fst snd].
  destruct (valid_grouping a (o_groups o)) eqn:Vg; [|discriminate].
  destruct (script (v_command v) (o_sig o) (d_start (c_main c)) nd a (o_groups o)) as [s'| | |]; try discriminate.
  inversion H; subst s'. cbn [obind]. unfold orders_ok in Ho. apply andb_prop in Ho. destruct Ho as [-> _]. reflexivity.
Qed.
Check compile_bash_is_script :
  forall o builtins text s,
    compile_bash o builtins text = Ok s ->
    exists v c,
      compile (pick_table (o_pops o)) (o_fuel o) builtins text Bash = Ok (v, c)
      /\ script_of_dfa (v_command v) (o_sig o) c (o_main_lits o) (o_sub_lits o) (o_groups o) = Ok (s, true).
Print Assumptions compile_bash_is_script.

(** What the script embeds (composition of C02's pipeline correctness with C04's codec round
    trip): the script [compile_bash] returns reads back, with the specification-side reader
    [ScriptRead.read_stmts], to exactly the statements [script_stmts] of the tables of an
    automaton [c] that accepts exactly the item sequences the validated grammar denotes.
    Hypotheses of the reader's theorem (C04_embed_bash): the command name is made of name
    characters, the signature has no newline, no line of a command body is a lone "}". *)
Theorem compile_bash_embeds :
  forall o builtins text s,
    compile_bash o builtins text = Ok s ->
    exists v c nd a,
      compile (pick_table (o_pops o)) (o_fuel o) builtins text Bash = Ok (v, c)
      /\ (forall w, accepts_items c w <-> denotes (v_expr v) w)
      /\ all_tables Bash c (o_main_lits o) (o_sub_lits o) = Ok (nd, a)
      /\ (name_ok (v_command v) -> no_nl (o_sig o) = true ->
          Forall (fun cm : string => body_ok (cmd_body cm)) (a_commands a) ->
          exists sts, script_stmts (v_command v) (d_start (c_main c)) nd a (o_groups o) = Ok sts
                      /\ read_stmts Bash (v_command v) s = sts).
Proof.
  intros o builtins text s H. unfold compile_bash in H.
  destruct (compile (pick_table (o_pops o)) (o_fuel o) builtins text Bash) as [[v c]|e'| |] eqn:Hc; try discriminate.
  unfold emit_bash in H.
  destruct (orders_ok c (o_main_lits o) (o_sub_lits o)); [|discriminate].
  destruct (all_tables Bash c (o_main_lits o) (o_sub_lits o)) as [[nd a]| | |] eqn:Ha; try discriminate.
  destruct (valid_grouping a (o_groups o)); [|discriminate].
  destruct (script (v_command v) (o_sig o) (d_start (c_main c)) nd a (o_groups o)) as [s'| | |] eqn:Hs; try discriminate.
  inversion H; subst s'. exists v, c, nd, a. split; [reflexivity|]. split; [|split; [exact Ha|]].
  - assert (H' := Hc). unfold compile in H'.
    destruct (Parser.parse text) as [g| | |] eqn:Hg; cbn in H'; try discriminate.
    destruct (from_grammar builtins g Bash) as [v'| | |] eqn:Hv; cbn in H'; try discriminate.
    destruct (compile_valid (pick_table (o_pops o)) (o_fuel o) v') as [c'| | |] eqn:Hcv; cbn in H'; try discriminate.
    inversion H'; subst v' c'.
    destruct (CheckTree.check_tree builtins g Bash v Hv) as [_ [_ [_ Halts]]].
    specialize (Halts (Props.C05b.parse_alts_nonempty text g Hg)).
    exact (proj1 (CompiledFacts.compiled_facts _ _ v c Halts Hcv)).
  - intros Hn Hsig Hb. exact (Props.C04.C04_embed_bash _ _ _ _ _ _ _ Hn Hsig Hb Hs).
Qed.
Check compile_bash_embeds :
  forall o builtins text s,
    compile_bash o builtins text = Ok s ->
    exists v c nd a,
      compile (pick_table (o_pops o)) (o_fuel o) builtins text Bash = Ok (v, c)
      /\ (forall w, accepts_items c w <-> denotes (v_expr v) w)
      /\ all_tables Bash c (o_main_lits o) (o_sub_lits o) = Ok (nd, a)
      /\ (name_ok (v_command v) -> no_nl (o_sig o) = true ->
          Forall (fun cm : string => body_ok (cmd_body cm)) (a_commands a) ->
          exists sts, script_stmts (v_command v) (d_start (c_main c)) nd a (o_groups o) = Ok sts
                      /\ read_stmts Bash (v_command v) s = sts).
Print Assumptions compile_bash_embeds.

(** The other three shells, as far as the emitter models go ([Model/EmitData.v]: the data sections of
    the fish, zsh and pwsh scripts): [compile_data sh] = [Driver.compile .. sh] ; [all_tables sh] ;
    the data blocks.  The same totality, for every shell and every oracle value.  Tied on the data
    sections byte for byte by lib/vf/checks/e2e.py [tie_data]. *)
Theorem compile_data_total :
  forall sh o builtins text,
    fuel_covers (o_fuel o) builtins text sh ->
    (exists bs, compile_data sh o builtins text = Ok bs) \/ (exists e, compile_data sh o builtins text = Err e).
Proof. exact CompilerTotal.compile_data_total. Qed.
Check compile_data_total :
  forall sh o builtins text,
    fuel_covers (o_fuel o) builtins text sh ->
    (exists bs, compile_data sh o builtins text = Ok bs) \/ (exists e, compile_data sh o builtins text = Err e).
Print Assumptions compile_data_total.

(** Non-vacuity: with the first pop order and the literal orders / grouping below, [compile_bash]
    returns a script for a grammar with a within-word automaton, says [CBadOracle] when the literal
    order of that automaton is missing, and rejects a cyclic grammar with the checker's error. *)
Definition ex_o_good : oracles :=
  mkoracles [] 4096 [("c", "")] [(0, [("--o=", ""); ("y", ""); ("x", "")])] [[0]] "sig".
Definition ex_o_good1 : oracles :=
  mkoracles [] 4096 [("c", "")] [(0, [("--o=", ""); ("y", ""); ("x", "")])] [[1]] "sig".
Definition ex_o_bad : oracles := mkoracles [] 4096 [("c", "")] [] [[0]] "sig".
Example ex_C04c_inhabited :
  is_ok (compile_bash ex_o_good builtins "cmd --o=(x|y) c;") = true
  /\ compile_bash ex_o_bad builtins "cmd --o=(x|y) c;" = Err CBadOracle
  /\ (exists e, compile_bash ex_o_good builtins "cmd <A>; <A> ::= <A>;" = Err (CDriver (DCheck e)))
  /\ is_ok (compile_data Zsh ex_o_good1 builtins "cmd --o=(x|y) c;") = true
  /\ is_ok (compile_data Fish ex_o_good1 builtins "cmd --o=(x|y) c;") = true
  /\ is_ok (compile_data Pwsh ex_o_good builtins "cmd --o=(x|y) c;") = true.
Proof.
  split; [vm_compute; reflexivity|]. split; [vm_compute; reflexivity|].
  split; [eexists; vm_compute; reflexivity|]. repeat split; vm_compute; reflexivity.
Qed.
Print Assumptions ex_C04c_inhabited.
