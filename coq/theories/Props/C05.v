(** C05 -- grammar text parses to the tree its syntax prescribes (print/parse round trip), with the
    parser halves of C13 (spans) and C14 (layout).  Statements only; proofs live in Proofs/. *)
From CG Require Import Base.Prelude Model.Ast Model.Lexer Model.Parser Spec.Printer Spec.Spans
  Proofs.GrammarRound Proofs.ExprPos Proofs.SpanSound.
From CGgen Require Import Consts.

(** For every printable grammar tree and every layout, the model of [Grammar::parse] with the span
    reset of [terminal] repaired returns the tree with *exactly* the printer's positions as spans.
    (Layouts are valid by construction, see Spec/Printer.v: there is no [lay_ok] side condition.) *)
Theorem C05_roundtrip :
  forall g lay, wf g -> parse_with repaired (text g lay) = Ok (located g lay).
Proof. intros. apply (roundtrip_cfg repaired); assumption. Qed.
Check C05_roundtrip :
  forall g lay, wf g -> parse_with repaired (text g lay) = Ok (located g lay).
Print Assumptions C05_roundtrip.

(** The same for parse.rs as it is now ([Parser.parse], whose reset switches are regenerated from
    the source): the tree, with exactly the spans the reset mechanism predicts. *)
Theorem C05_roundtrip_pinned :
  forall g lay, wf g -> parse (text g lay) = Ok (located_with pinned g lay).
Proof. intros. apply (roundtrip_cfg pinned); assumption. Qed.
Check C05_roundtrip_pinned :
  forall g lay, wf g -> parse (text g lay) = Ok (located_with pinned g lay).
Print Assumptions C05_roundtrip_pinned.

(** Hence, as parse.rs is now: same operators, same nesting, same literal and description text,
    same statement kinds and names -- the tree up to spans. *)
Theorem C05_roundtrip_trees :
  forall g lay, wf g -> exists g', parse (text g lay) = Ok g' /\ erase_grammar g' = erase_grammar g.
Proof.
  intros g lay W. exists (located_with pinned g lay). split.
  - apply (roundtrip_cfg pinned); assumption.
  - apply erase_located.
Qed.
Check C05_roundtrip_trees :
  forall g lay, wf g -> exists g', parse (text g lay) = Ok g' /\ erase_grammar g' = erase_grammar g.
Print Assumptions C05_roundtrip_trees.

(** Parser half of C14: whitespace, newlines, form feeds, comments, [=]/[::=], the final [;],
    plain or escaped dots and redundant parentheses never change the tree. *)
Theorem C05_layout_irrelevant :
  forall g l1 l2, wf g ->
    exists g1 g2, parse (text g l1) = Ok g1 /\ parse (text g l2) = Ok g2
                  /\ erase_grammar g1 = erase_grammar g2.
Proof.
  intros g l1 l2 W. exists (located_with pinned g l1), (located_with pinned g l2).
  repeat split; try (apply (roundtrip_cfg pinned); assumption).
  rewrite !erase_located. reflexivity.
Qed.
Check C05_layout_irrelevant :
  forall g l1 l2, wf g ->
    exists g1 g2, parse (text g l1) = Ok g1 /\ parse (text g l2) = Ok g2
                  /\ erase_grammar g1 = erase_grammar g2.
Print Assumptions C05_layout_irrelevant.

(** Parser half of C13: the printer's positions are the nom_locate positions of the text (line + 1
    and column 1 after each LF, column + 1 per other byte), so [C05_roundtrip] says every span is
    where the construct starts and ends in the input. *)
Theorem C13_printer_positions_true :
  forall e lay ctx p, snd (loc repaired lay ctx e p) = adv_str (txt lay ctx e) p.
Proof. exact loc_end_true. Qed.
Check C13_printer_positions_true :
  forall e lay ctx p, snd (loc repaired lay ctx e p) = adv_str (txt lay ctx e) p.
Print Assumptions C13_printer_positions_true.

(** Parser half of C13 for *every* input text, printed or not, accepted or not (lexer with the span
    reset repaired): each span of the tree, and the span of the syntax error, consists of true
    positions of the text ([Spec/Spans.v]: start = position after some prefix, end = position
    after a longer prefix). *)
Theorem C13_spans_sound_any_input :
  forall s g, parse_with repaired s = Ok g -> Forall (stmt_ok s) g.
Proof. exact parse_spans_sound. Qed.
Check C13_spans_sound_any_input :
  forall s g, parse_with repaired s = Ok g -> Forall (stmt_ok s) g.
Print Assumptions C13_spans_sound_any_input.

Theorem C13_error_span_sound_any_input :
  forall s sp, parse_with repaired s = Err sp ->
    exists pre rest, s = append pre rest /\ rest <> EmptyString
                     /\ sp = from_machine (mkin rest (adv_str pre pos0)).
Proof. exact parse_error_sound. Qed.
Check C13_error_span_sound_any_input :
  forall s sp, parse_with repaired s = Err sp ->
    exists pre rest, s = append pre rest /\ rest <> EmptyString
                     /\ sp = from_machine (mkin rest (adv_str pre pos0)).
Print Assumptions C13_error_span_sound_any_input.

(** ... and the lexer with both resets (parse.rs before the repair 10a4ba7) violates it: after the
    escaped dot, [<FOO>] is reported at 1:3 instead of 1:10. *)
Theorem C13_refuted_after_escape :
  parse_with (mkcfg true true) "cmd a\.b <FOO>;"
  = Ok [CallVariant "cmd" (mkspan 1 1 4)
          (Sequence [Terminal "a.b" None 0 (mkspan 1 5 2); NontermRef "FOO" 0 (mkspan 1 3 8)] (mkspan 1 5 8))]
  /\ parse_with repaired "cmd a\.b <FOO>;"
  = Ok [CallVariant "cmd" (mkspan 1 1 4)
          (Sequence [Terminal "a.b" None 0 (mkspan 1 5 9); NontermRef "FOO" 0 (mkspan 1 10 15)] (mkspan 1 5 15))].
Proof. split; vm_compute; reflexivity. Qed.
Check C13_refuted_after_escape :
  parse_with (mkcfg true true) "cmd a\.b <FOO>;"
  = Ok [CallVariant "cmd" (mkspan 1 1 4)
          (Sequence [Terminal "a.b" None 0 (mkspan 1 5 2); NontermRef "FOO" 0 (mkspan 1 3 8)] (mkspan 1 5 8))]
  /\ parse_with repaired "cmd a\.b <FOO>;"
  = Ok [CallVariant "cmd" (mkspan 1 1 4)
          (Sequence [Terminal "a.b" None 0 (mkspan 1 5 9); NontermRef "FOO" 0 (mkspan 1 10 15)] (mkspan 1 5 15))].
Print Assumptions C13_refuted_after_escape.

(** Non-vacuity: a printable grammar with every operator, an escape, a description with escaped
    quote and backslash, a sub-word, a command and a shell-specific definition; a layout with
    comments, newlines, a form feed and redundant parentheses; the text; and the round trip. *)
Definition ex_sp := mkspan 0 0 0.
Definition ex_g : grammar :=
  [ CallVariant "cmd" ex_sp
      (Sequence
         [ Alternative [Terminal "a.b" (Some "say ""hi"" \") 0 ex_sp; NontermRef "FILE" 0 ex_sp] ex_sp;
           Subword (Sequence [Terminal "--o=" None 0 ex_sp;
                              Fallback [Terminal "x" None 0 ex_sp; Command "ls }" false 0 ex_sp] ex_sp] ex_sp) 0 ex_sp;
           Many1 (Optional (DistDescr (Terminal "y.." None 0 ex_sp) "d" ex_sp) ex_sp) ex_sp;
           Subword (Sequence [Terminal "k" None 0 ex_sp; Terminal "v" None 0 ex_sp; Terminal "w" None 0 ex_sp] ex_sp) 0 ex_sp ] ex_sp);
    NontermDef "FILE" ex_sp (Some ("zsh", ex_sp)) (Command "_files" false 0 ex_sp) ].

Definition ex_gap (k : nat) : gap :=
  match k with
  | 0%nat => [BWs WSp]
  | 1%nat => [BCom " note"; BWs WTab]
  | 2%nat => [BWs WLf; BFf]
  | _ => []
  end.
Definition ex_lay : layout :=
  fun path => mknl ex_gap (fun k => (ex_gap k, ex_gap (S k))) (fun _ => ([BWs WSp], []))
                   (match path with [0%nat; 0%nat] => 1%nat | _ => 0%nat end)
                   (fun k => Nat.eqb k 1) (fun _ => [TSp]) false.

Example ex_C05_inhabited :
  wf ex_g
  /\ parse_with repaired (text ex_g ex_lay) = Ok (located ex_g ex_lay)
  /\ erase_grammar (located ex_g ex_lay) = erase_grammar ex_g
  /\ String.length (text ex_g ex_lay) = 171%nat.
Proof. vm_compute. repeat split; reflexivity. Qed.
Print Assumptions ex_C05_inhabited.

(** Nesting of one operator inside the same operator is part of the tree (the fallback LEVELS of
    `a || (b || (c || d))` differ from those of `a || b || c || d`): the printer writes the inner
    node in parentheses and the parser gives the nesting back -- for ||, | and juxtaposition. *)
Definition ex_t (s : string) : expr := Terminal s None 0 ex_sp.
Definition ex_nested : grammar :=
  [ CallVariant "cmd" ex_sp
      (Fallback [ ex_t "a";
                  Fallback [ex_t "b"; Fallback [ex_t "c"; ex_t "d"] ex_sp] ex_sp;
                  Alternative [Alternative [ex_t "e"; ex_t "f"] ex_sp; ex_t "g"] ex_sp;
                  Sequence [ex_t "h"; Sequence [ex_t "i"; ex_t "j"] ex_sp] ex_sp ] ex_sp) ].
Definition ex_flat : grammar :=
  [ CallVariant "cmd" ex_sp
      (Fallback [ ex_t "a"; ex_t "b"; ex_t "c"; ex_t "d";
                  Alternative [ex_t "e"; ex_t "f"; ex_t "g"] ex_sp;
                  Sequence [ex_t "h"; ex_t "i"; ex_t "j"] ex_sp ] ex_sp) ].
Example ex_C05_nested_same_operator :
  wf ex_nested
  /\ parse_with repaired (text ex_nested ex_lay) = Ok (located ex_nested ex_lay)
  /\ erase_grammar (located ex_nested ex_lay) = erase_grammar ex_nested
  /\ parse_with repaired (text ex_flat ex_lay) = Ok (located ex_flat ex_lay)
  /\ erase_grammar ex_nested <> erase_grammar ex_flat.
Proof. vm_compute. repeat split; try reflexivity. discriminate. Qed.
Print Assumptions ex_C05_nested_same_operator.
