(** C01 -- bash completions produced by the emitted script equal the grammar's meaning.

    What is proved here concerns the specification [Spec.Meaning] (the executable reading of the
    property text that judges real bash in lib/vf/checks/c01.py) and does not depend on a model of
    the emitted script:
    - the one-item derivative the specification is built on is sound and complete for the
      inductive denotation of expressions ([C01_linear_form_correct]);
    - reading a word follows exactly the items the text prescribes: literal first, catch-all last
      ([C01_step_rule]); residuals are sound ([C01_residuals_sound]);
    - the shape of every answer ([C01_answer_shape]): status 1 iff the words cannot be matched;
      every required candidate extends the typed word and comes from the lowest level that has a
      candidate; required is included in allowed; the only extra allowed text is the typed word;
    - matching does not depend on || levels ([C01_matching_ignores_levels]);
    - word-break stripping ([C01_strip_*]);
    - the decided restriction of the quantifier has a declarative reading ([C01_domain_sound]:
      [C01_domain e = true -> in_domain e]) that holds at every point the specification visits
      along an unambiguous line ([C01_domain_along_runs]).

    The three script mechanisms that [Spec.KnownC01] describes were repaired in /repo while this
    package was built (1567cbe, df274e8, and the greedy-shadow fix: the within-word matcher now
    tries the undefined nonterminal expected at a point before the literals); their predicates stay
    as classifiers (a repaired mechanism that comes back is a violation).  The third one,
    [KnownC01.greedy_shadow], was found while proving the statement for within-word items;
    [ex_C01_greedy_shadow_witness] is its regression example (the repaired script answers [z]).

    [C01_bash_meaning_literal] and [C01_bash_meaning_toplevel] (below) prove the statement about the
    script itself -- [BashSem.run_from Repaired] on [Tables.all_tables Bash (Driver.compile_valid v)]
    against [Meaning.complete] -- for all trees without within-word expressions, and
    [C01_bash_meaning_subword] for trees whose leaves are literals and within-word expressions made
    of literals (the within-word functions of the script interpreted directly), under two side
    conditions on the compiled automaton that have decidable sufficient forms
    ([C01_subword_side_conditions]); [C01_bash_meaning_mixed] covers all of these together: trees
    whose leaves are literals, commands, undefined nonterminals and within-word expressions made of
    literals.  [C01_bash_meaning] proves the general statement [C01_bash_meaning_statement]:
    commands and undefined nonterminals inside words included, over the whole decided domain (which
    was tightened for them: one source per piece text, one level per command at a within-word
    point, nothing after a nonterminal inside a word), outside [ambiguous_run];
    [C01_bash_meaning_wordbreaks] is the corollary for COMP_WORDBREAKS default and empty.
    For grammars that went through the checker and the regex stage the tail-only conjunct of the
    domain is a consequence ([C01_tail_only_compiled]); [C01_bash_meaning_compiled] states the
    theorem over [C01_domain_core]. *)
From CG Require Import Model.Dfa Model.Tables Model.Glob Model.BashSem Model.Driver.
From CG Require Import Base.Prelude Model.Ast Model.Check Spec.Rx Spec.Meaning Spec.KnownC01 Spec.Domain
     Proofs.RxFacts Proofs.MeaningFacts Proofs.MeaningLevels Proofs.DomainFacts.
From CG Require Import Proofs.TreeFacts Proofs.GlobFacts Proofs.StripFacts Proofs.BashMeaningLit Proofs.LangBridge Proofs.C01Layers.
From CG Require Import Spec.Invocations.
From CG Require Spec.DomainCore Proofs.WordTail Proofs.PhSpec Proofs.PhTree Proofs.CheckTree.
From CG Require Import Proofs.SubTreeFacts Proofs.BashMeaningSub Proofs.SubChecks Proofs.BashMeaningMix Proofs.SubBridge.

(** The full statement: the interpreter of the script of /repo HEAD on the tables of the model
    pipeline against the specification, for every validated tree in the decided domain -- literals,
    commands, undefined nonterminals, within-word expressions over the same kinds of pieces --
    outside [ambiguous_run].  Hypotheses besides the decided domain:
    - [sub_tree]: the shape check.rs leaves behind for bash (no description nodes, no zsh-only
      compadd commands, no within-word expression inside a within-word expression);
    - the literal orders handed to the emitter are valid ([NoDup om], [valid_literal_order],
      [sub_orders_ok]) and the compiled automaton never offers two within-word automata with the
      same language as alternatives with different targets ([subs_deterministic]; both have
      decidable sufficient forms, [C01_subword_side_conditions]);
    - completion-ignore-case is off, both sides see the same COMP_WORDBREAKS, none of whose
      characters is one of \ ? * [ ([breaks_ok]; bash's default qualifies), the typed word is
      printable and free of glob characters, the two environments describe the same commands.
    It is proved: [C01_bash_meaning] at the end of this file. *)
Definition C01_bash_meaning_statement : Prop :=
  forall pick fuel v c om os nd a (benv : BashSem.env) (en : Meaning.env) ws p,
    Proofs.SubBridge.sub_tree (v_expr v) = true -> Proofs.TreeFacts.alts_nonempty (v_expr v) = true ->
    compile_valid pick fuel v = Ok c ->
    all_tables Bash c om os = Ok (nd, a) -> NoDup om -> valid_literal_order (c_main c) om = true ->
    sub_orders_ok c os -> subs_deterministic c ->
    C01_domain (v_expr v) = true -> C01_env_ok (v_expr v) en = true ->
    BashSem.e_ignore_case benv = false -> BashSem.e_wordbreaks benv = Meaning.e_wordbreaks en ->
    breaks_ok (BashSem.e_wordbreaks benv) = true -> plain p = true -> printable_str p = true ->
    (forall cm cid, Tables.index_of cm (a_commands a) = Some cid ->
                    Spec.Invocations.spec_candidates (cmd_output benv cid) = candidates en cm) ->
    ambiguous_run en (start (v_expr v)) ws = false ->
    match complete (v_expr v) en ws p with
    | None => exists log, run_from Repaired (d_start (c_main c)) a benv ws p = Ok (mkresult 1 [] log)
    | Some (req, al) =>
        exists reply log, run_from Repaired (d_start (c_main c)) a benv ws p = Ok (mkresult 0 reply log)
                          /\ incl req reply /\ incl reply al
    end.

Theorem C01_linear_form_correct :
  forall (r : rx leaf) a w, denotes r (a :: w) <-> exists k, In (a, k) (lf r) /\ denotes k w.
Proof. exact (@lf_correct leaf). Qed.
Check C01_linear_form_correct :
  forall (r : rx leaf) a w, denotes r (a :: w) <-> exists k, In (a, k) (lf r) /\ denotes k w.
Print Assumptions C01_linear_form_correct.

Theorem C01_step_rule :
  forall en s w k, In k (step en s w) <-> exists a, In (a, k) (moves s) /\ chosen en (moves s) w a.
Proof. exact step_spec. Qed.
Check C01_step_rule :
  forall en s w k, In k (step en s w) <-> exists a, In (a, k) (moves s) /\ chosen en (moves s) w a.
Print Assumptions C01_step_rule.

Theorem C01_residuals_sound :
  forall en e ws, matched en e ws = true ->
    exists items k, Forall2 (reads en) items ws
                    /\ forall rest, denotes k rest -> denotes (tr e) (items ++ rest).
Proof. exact matched_sound. Qed.
Check C01_residuals_sound :
  forall en e ws, matched en e ws = true ->
    exists items k, Forall2 (reads en) items ws
                    /\ forall rest, denotes k rest -> denotes (tr e) (items ++ rest).
Print Assumptions C01_residuals_sound.

Theorem C01_answer_shape :
  forall e en ws p,
  match complete e en ws p with
  | None => matched en e ws = false
  | Some (req, al) =>
      matched en e ws = true
      /\ (forall c, In c req <->
                    exists l c0, c = strip (e_wordbreaks en) p c0
                                 /\ In (l, c0) (state_cands en (run en (start e) ws) p)
                                 /\ String.prefix p c0 = true
                                 /\ forall l' c', In (l', c') (state_cands en (run en (start e) ws) p) -> l <= l')
      /\ (forall c, In c al -> In c req \/ c = strip (e_wordbreaks en) p p)
      /\ incl req al
  end.
Proof. exact complete_spec. Qed.
Check C01_answer_shape :
  forall e en ws p,
  match complete e en ws p with
  | None => matched en e ws = false
  | Some (req, al) =>
      matched en e ws = true
      /\ (forall c, In c req <->
                    exists l c0, c = strip (e_wordbreaks en) p c0
                                 /\ In (l, c0) (state_cands en (run en (start e) ws) p)
                                 /\ String.prefix p c0 = true
                                 /\ forall l' c', In (l', c') (state_cands en (run en (start e) ws) p) -> l <= l')
      /\ (forall c, In c al -> In c req \/ c = strip (e_wordbreaks en) p p)
      /\ incl req al
  end.
Print Assumptions C01_answer_shape.

Theorem C01_matching_ignores_levels :
  forall en e ws,
    matched en (propagate (bar_of_barbar e) 0) ws = matched en (propagate e 0) ws.
Proof. exact matched_bar_of_barbar. Qed.
Check C01_matching_ignores_levels :
  forall en e ws,
    matched en (propagate (bar_of_barbar e) 0) ws = matched en (propagate e 0) ws.
Print Assumptions C01_matching_ignores_levels.

Theorem C01_strip_extends :
  forall wb p x, strip wb p (append p x) = append (strip wb p p) x.
Proof. exact strip_extends. Qed.
Check C01_strip_extends : forall wb p x, strip wb p (append p x) = append (strip wb p p) x.
Print Assumptions C01_strip_extends.

Theorem C01_strip_no_break_left : forall wb p, has_break wb (strip wb p p) = false.
Proof. exact strip_no_break_left. Qed.
Check C01_strip_no_break_left : forall wb p, has_break wb (strip wb p p) = false.
Print Assumptions C01_strip_no_break_left.

Theorem C01_strip_without_breaks :
  forall wb p c, has_break wb p = false -> strip wb p c = c.
Proof. exact strip_id. Qed.
Check C01_strip_without_breaks : forall wb p c, has_break wb p = false -> strip wb p c = c.
Print Assumptions C01_strip_without_breaks.

Theorem C01_domain_sound : forall e, C01_domain e = true -> in_domain e.
Proof. exact DomainFacts.C01_domain_sound. Qed.
Check C01_domain_sound : forall e, C01_domain e = true -> in_domain e.
Print Assumptions C01_domain_sound.

Theorem C01_domain_along_runs :
  forall e en ws,
    C01_domain e = true -> ambiguous_run en (start e) ws = false -> matched en e ws = true ->
    point_decl (moves (run en (start e) ws)).
Proof. exact DomainFacts.C01_domain_along_runs. Qed.
Check C01_domain_along_runs :
  forall e en ws,
    C01_domain e = true -> ambiguous_run en (start e) ws = false -> matched en e ws = true ->
    point_decl (moves (run en (start e) ws)).
Print Assumptions C01_domain_along_runs.

(** *** C01_bash_meaning, layer (a): grammars all of whose leaves are literals.
    The interpreter of the script of /repo HEAD ([BashSem.run_from Repaired], tied to real bash by
    T2) run on the tables the model pipeline computes ([Tables.all_tables Bash] of
    [Driver.compile_valid v], for every literal order the emitter may choose) returns exactly what
    [Spec.Meaning.complete] prescribes for the validated tree: status 1 and nothing when the words
    cannot be matched, otherwise status 0 and the required candidates as a set (required = allowed:
    no within-word items).  No hypothesis about the automaton is left: C02 (language), C03 (trim),
    C04 (tables), C17 (interpreter = table-level specification) are composed inside the proof.
    Side conditions: the typed word is printable and free of glob characters; no COMP_WORDBREAKS
    character is one of \ ? * [ (true of bash's default). *)
Theorem C01_bash_meaning_literal :
  forall pick fuel v c om os nd a (benv : BashSem.env) (en : Meaning.env) ws p,
    lit_tree (v_expr v) = true -> alts_nonempty (v_expr v) = true ->
    compile_valid pick fuel v = Ok c ->
    all_tables Bash c om os = Ok (nd, a) -> NoDup om -> valid_literal_order (c_main c) om = true ->
    C01_domain (v_expr v) = true ->
    BashSem.e_ignore_case benv = false -> BashSem.e_wordbreaks benv = Meaning.e_wordbreaks en ->
    breaks_ok (BashSem.e_wordbreaks benv) = true -> plain p = true -> printable_str p = true ->
    match complete (v_expr v) en ws p with
    | None => run_from Repaired (d_start (c_main c)) a benv ws p = Ok (mkresult 1 [] [])
    | Some (req, al) =>
        exists reply, run_from Repaired (d_start (c_main c)) a benv ws p = Ok (mkresult 0 reply [])
                      /\ (forall x, In x reply <-> In x req) /\ (forall x, In x al <-> In x req)
    end.
Proof. exact bash_meaning_literal. Qed.
Check C01_bash_meaning_literal :
  forall pick fuel v c om os nd a (benv : BashSem.env) (en : Meaning.env) ws p,
    lit_tree (v_expr v) = true -> alts_nonempty (v_expr v) = true ->
    compile_valid pick fuel v = Ok c ->
    all_tables Bash c om os = Ok (nd, a) -> NoDup om -> valid_literal_order (c_main c) om = true ->
    C01_domain (v_expr v) = true ->
    BashSem.e_ignore_case benv = false -> BashSem.e_wordbreaks benv = Meaning.e_wordbreaks en ->
    breaks_ok (BashSem.e_wordbreaks benv) = true -> plain p = true -> printable_str p = true ->
    match complete (v_expr v) en ws p with
    | None => run_from Repaired (d_start (c_main c)) a benv ws p = Ok (mkresult 1 [] [])
    | Some (req, al) =>
        exists reply, run_from Repaired (d_start (c_main c)) a benv ws p = Ok (mkresult 0 reply [])
                      /\ (forall x, In x reply <-> In x req) /\ (forall x, In x al <-> In x req)
    end.
Print Assumptions C01_bash_meaning_literal.

(** Its hypotheses are inhabited: [cmd (add || rm "d") [x=y];] goes through the whole model
    pipeline, and both sides compute the same answers (default COMP_WORDBREAKS: "x=" is stripped). *)
Definition exl_sp := mkspan 1 1 2.
Definition exl_e : expr :=
  Sequence [Fallback [Terminal "add" None 0 exl_sp; Terminal "rm" (Some "d") 1 exl_sp] exl_sp;
            Optional (Terminal "x=y" None 0 exl_sp) exl_sp] exl_sp.
Definition exl_v := mkvalid "cmd" exl_e [] [] [].
Definition exl_om := [("x=y", ""); ("add", ""); ("rm", "d")]%string.
Definition exl_benv := BashSem.mkenv bash_default_wordbreaks [] false.
Definition exl_en := Meaning.mkenv bash_default_wordbreaks [].

Example ex_C01_literal_layer_inhabited :
  match compile_valid (fun _ _ => O) 100 exl_v with
  | Ok c =>
      match all_tables Bash c exl_om [] with
      | Ok (nd, a) =>
          lit_tree exl_e = true /\ alts_nonempty exl_e = true /\ valid_literal_order (c_main c) exl_om = true
          /\ C01_domain exl_e = true /\ breaks_ok (BashSem.e_wordbreaks exl_benv) = true
          /\ run_from Repaired (d_start (c_main c)) a exl_benv ["add"] "x=" = Ok (mkresult 0 ["y "] [])
          /\ complete exl_e exl_en ["add"] "x=" = Some (["y "], ["y "])
          /\ run_from Repaired (d_start (c_main c)) a exl_benv [] "" = Ok (mkresult 0 ["add "] [])
          /\ complete exl_e exl_en [] "" = Some (["add "], ["add "])
          /\ run_from Repaired (d_start (c_main c)) a exl_benv ["zz"] "" = Ok (mkresult 1 [] [])
          /\ complete exl_e exl_en ["zz"] "" = None
      | _ => False
      end
  | _ => False
  end.
Proof. vm_compute. repeat split; reflexivity. Qed.
Print Assumptions ex_C01_literal_layer_inhabited.

(** *** C01_bash_meaning, layer (b): leaves = literals, external commands, undefined nonterminals
    (no within-word expressions).  Same statement as layer (a), for command lines on which no
    two different commands accept the same word ([ambiguous_run = false]); [Henv] says that the
    two environments describe the same commands (command number [cid] of the script prints the
    candidates the specification attributes to that command text).  The invocation log is left
    existential (it is C17's subject). *)
Theorem C01_bash_meaning_toplevel :
  forall pick fuel v c om os nd a (benv : BashSem.env) (en : Meaning.env) ws p,
    toplevel_tree (v_expr v) = true -> alts_nonempty (v_expr v) = true ->
    compile_valid pick fuel v = Ok c ->
    all_tables Bash c om os = Ok (nd, a) -> NoDup om -> valid_literal_order (c_main c) om = true ->
    C01_domain (v_expr v) = true ->
    BashSem.e_ignore_case benv = false -> BashSem.e_wordbreaks benv = Meaning.e_wordbreaks en ->
    breaks_ok (BashSem.e_wordbreaks benv) = true -> plain p = true -> printable_str p = true ->
    (forall cm cid, Tables.index_of cm (a_commands a) = Some cid ->
                    spec_candidates (cmd_output benv cid) = candidates en cm) ->
    ambiguous_run en (start (v_expr v)) ws = false ->
    match complete (v_expr v) en ws p with
    | None => exists log, run_from Repaired (d_start (c_main c)) a benv ws p = Ok (mkresult 1 [] log)
    | Some (req, al) =>
        exists reply log, run_from Repaired (d_start (c_main c)) a benv ws p = Ok (mkresult 0 reply log)
                          /\ (forall x, In x reply <-> In x req) /\ (forall x, In x al <-> In x req)
    end.
Proof. exact bash_meaning_toplevel. Qed.
Check C01_bash_meaning_toplevel :
  forall pick fuel v c om os nd a (benv : BashSem.env) (en : Meaning.env) ws p,
    toplevel_tree (v_expr v) = true -> alts_nonempty (v_expr v) = true ->
    compile_valid pick fuel v = Ok c ->
    all_tables Bash c om os = Ok (nd, a) -> NoDup om -> valid_literal_order (c_main c) om = true ->
    C01_domain (v_expr v) = true ->
    BashSem.e_ignore_case benv = false -> BashSem.e_wordbreaks benv = Meaning.e_wordbreaks en ->
    breaks_ok (BashSem.e_wordbreaks benv) = true -> plain p = true -> printable_str p = true ->
    (forall cm cid, Tables.index_of cm (a_commands a) = Some cid ->
                    spec_candidates (cmd_output benv cid) = candidates en cm) ->
    ambiguous_run en (start (v_expr v)) ws = false ->
    match complete (v_expr v) en ws p with
    | None => exists log, run_from Repaired (d_start (c_main c)) a benv ws p = Ok (mkresult 1 [] log)
    | Some (req, al) =>
        exists reply log, run_from Repaired (d_start (c_main c)) a benv ws p = Ok (mkresult 0 reply log)
                          /\ (forall x, In x reply <-> In x req) /\ (forall x, In x al <-> In x req)
    end.
Print Assumptions C01_bash_meaning_toplevel.

(** Inhabited: [cmd (add || {{{probe}}}) <U> end;] through the whole model pipeline; the probe prints
    "P1" and "aQ<TAB>descr". *)
Definition ext_e : expr :=
  Sequence [Fallback [Terminal "add" None 0 exl_sp; Command "probe" false 1 exl_sp] exl_sp;
            NontermRef "U" 0 exl_sp; Terminal "end" None 0 exl_sp] exl_sp.
Definition ext_v := mkvalid "cmd" ext_e [] [] [].
Definition ext_om := [("end", ""); ("add", "")]%string.
Definition ext_nl := String (ch 10) EmptyString.
Definition ext_out := ("P1" ++ ext_nl ++ "aQ" ++ String (ch 9) "descr" ++ ext_nl)%string.
Definition ext_benv := BashSem.mkenv bash_default_wordbreaks [(0, ext_out)] false.
Definition ext_en := Meaning.mkenv bash_default_wordbreaks [("probe", ["P1"; ("aQ" ++ String (ch 9) "descr")%string])]%string.

Example ex_C01_toplevel_layer_inhabited :
  match compile_valid (fun _ _ => O) 100 ext_v with
  | Ok c =>
      match all_tables Bash c ext_om [] with
      | Ok (nd, a) =>
          toplevel_tree ext_e = true /\ alts_nonempty ext_e = true /\ valid_literal_order (c_main c) ext_om = true
          /\ C01_domain ext_e = true /\ a_commands a = ["probe"]%string
          /\ spec_candidates (cmd_output ext_benv 0) = candidates ext_en "probe"
          /\ ambiguous_run ext_en (start ext_e) ["P1"; "x"]%string = false
          /\ run_from Repaired (d_start (c_main c)) a ext_benv [] "P" = Ok (mkresult 0 ["P1"] [(0, "P", "")])
          /\ complete ext_e ext_en [] "P" = Some (["P1"], ["P1"])
          /\ run_from Repaired (d_start (c_main c)) a ext_benv ["P1"; "x"] "" = Ok (mkresult 0 ["end "] [(0, "", "")])
          /\ complete ext_e ext_en ["P1"; "x"] "" = Some (["end "], ["end "])
          /\ run_from Repaired (d_start (c_main c)) a ext_benv ["zz"] "" = Ok (mkresult 1 [] [(0, "", "")])
          /\ complete ext_e ext_en ["zz"] "" = None
      | _ => False
      end
  | _ => False
  end.
Proof. vm_compute. repeat split; reflexivity. Qed.
Print Assumptions ex_C01_toplevel_layer_inhabited.

(** Layer (c): literals and within-word expressions made of literals. *)
Theorem C01_bash_meaning_subword :
  forall pick fuel v c om os nd a (benv : BashSem.env) (en : Meaning.env) ws p,
    subw_tree (v_expr v) = true -> alts_nonempty (v_expr v) = true ->
    compile_valid pick fuel v = Ok c ->
    all_tables Bash c om os = Ok (nd, a) -> NoDup om -> valid_literal_order (c_main c) om = true ->
    sub_orders_ok c os -> subs_deterministic c ->
    C01_domain (v_expr v) = true ->
    BashSem.e_ignore_case benv = false -> BashSem.e_wordbreaks benv = Meaning.e_wordbreaks en ->
    breaks_ok (BashSem.e_wordbreaks benv) = true -> plain p = true -> printable_str p = true ->
    ambiguous_run en (start (v_expr v)) ws = false ->
    match complete (v_expr v) en ws p with
    | None => run_from Repaired (d_start (c_main c)) a benv ws p = Ok (mkresult 1 [] [])
    | Some (req, al) =>
        exists reply, run_from Repaired (d_start (c_main c)) a benv ws p = Ok (mkresult 0 reply [])
                      /\ (forall x, In x reply <-> In x req) /\ incl req al
    end.
Proof. exact bash_meaning_subword. Qed.
Check C01_bash_meaning_subword :
  forall pick fuel v c om os nd a (benv : BashSem.env) (en : Meaning.env) ws p,
    subw_tree (v_expr v) = true -> alts_nonempty (v_expr v) = true ->
    compile_valid pick fuel v = Ok c ->
    all_tables Bash c om os = Ok (nd, a) -> NoDup om -> valid_literal_order (c_main c) om = true ->
    sub_orders_ok c os -> subs_deterministic c ->
    C01_domain (v_expr v) = true ->
    BashSem.e_ignore_case benv = false -> BashSem.e_wordbreaks benv = Meaning.e_wordbreaks en ->
    breaks_ok (BashSem.e_wordbreaks benv) = true -> plain p = true -> printable_str p = true ->
    ambiguous_run en (start (v_expr v)) ws = false ->
    match complete (v_expr v) en ws p with
    | None => run_from Repaired (d_start (c_main c)) a benv ws p = Ok (mkresult 1 [] [])
    | Some (req, al) =>
        exists reply, run_from Repaired (d_start (c_main c)) a benv ws p = Ok (mkresult 0 reply [])
                      /\ (forall x, In x reply <-> In x req) /\ incl req al
    end.
Print Assumptions C01_bash_meaning_subword.

(** The two side conditions have decidable sufficient forms: the orders are checked one by one; an
    input pool that names at most one within-word automaton per level is deterministic, and so is
    an automaton in which the within-word transitions that leave one state under one level name one
    within-word automaton. *)
Theorem C01_subword_side_conditions :
  forall c os,
    (sub_orders_okb c os = true -> sub_orders_ok c os)
    /\ (NoDup (d_inputs (c_main c)) -> subs_single c = true -> subs_deterministic c)
    /\ (NoDup (d_inputs (c_main c)) -> subs_local c = true -> subs_deterministic c).
Proof. intros c os. split; [apply sub_orders_okb_sound | split; [apply subs_single_sound | apply subs_local_sound]]. Qed.
Check C01_subword_side_conditions :
  forall c os,
    (sub_orders_okb c os = true -> sub_orders_ok c os)
    /\ (NoDup (d_inputs (c_main c)) -> subs_single c = true -> subs_deterministic c)
    /\ (NoDup (d_inputs (c_main c)) -> subs_local c = true -> subs_deterministic c).
Print Assumptions C01_subword_side_conditions.

(** Inhabited: [cmd (add || --k=(x|yz)) end;] through the whole model pipeline. *)
Definition exs_e : expr :=
  Sequence [Fallback [Terminal "add" None 0 exl_sp;
                      Subword (Sequence [Terminal "--k=" None 1 exl_sp;
                                         Alternative [Terminal "x" None 1 exl_sp; Terminal "yz" None 1 exl_sp] exl_sp] exl_sp)
                              1 exl_sp] exl_sp;
            Terminal "end" None 0 exl_sp] exl_sp.
Definition exs_v := mkvalid "cmd" exs_e [] [] [].
Definition exs_om := [("end", ""); ("add", "")]%string.
Definition exs_os := [(0, [("--k=", ""); ("yz", ""); ("x", "")])]%string.
Definition exs_benv := BashSem.mkenv bash_default_wordbreaks [] false.
Definition exs_en := Meaning.mkenv bash_default_wordbreaks [].

Example ex_C01_subword_layer_inhabited :
  match compile_valid (fun _ _ => O) 100 exs_v with
  | Ok c =>
      match all_tables Bash c exs_om exs_os with
      | Ok (nd, a) =>
          subw_tree exs_e = true /\ alts_nonempty exs_e = true /\ valid_literal_order (c_main c) exs_om = true
          /\ nodup_pairs exs_om = true /\ sub_orders_okb c exs_os = true /\ subs_single c = true
          /\ C01_domain exs_e = true
          /\ ambiguous_run exs_en (start exs_e) ["--k=yz"; "end"]%string = false
          /\ run_from Repaired (d_start (c_main c)) a exs_benv [] "--" = Ok (mkresult 0 ["--k="] [])
          /\ complete exs_e exs_en [] "--" = Some (["--k="], ["--k="])
          /\ run_from Repaired (d_start (c_main c)) a exs_benv [] "--k=" = Ok (mkresult 0 ["yz"; "x"] [])
          /\ complete exs_e exs_en [] "--k=" = Some (["x"; "yz"], ["x"; "yz"; ""])
          /\ run_from Repaired (d_start (c_main c)) a exs_benv ["--k=yz"] "" = Ok (mkresult 0 ["end "] [])
          /\ complete exs_e exs_en ["--k=yz"] "" = Some (["end "], ["end "])
          /\ run_from Repaired (d_start (c_main c)) a exs_benv ["--k="] "" = Ok (mkresult 1 [] [])
          /\ complete exs_e exs_en ["--k="] "" = None
      | _ => False
      end
  | _ => False
  end.
Proof. vm_compute. repeat split; reflexivity. Qed.
Print Assumptions ex_C01_subword_layer_inhabited.

(** Layers (b) and (c) together: literals, commands, undefined nonterminals, within-word expressions
    made of literals -- everything but commands and undefined nonterminals inside words. *)
Theorem C01_bash_meaning_mixed :
  forall pick fuel v c om os nd a (benv : BashSem.env) (en : Meaning.env) ws p,
    mix_tree (v_expr v) = true -> alts_nonempty (v_expr v) = true ->
    compile_valid pick fuel v = Ok c ->
    all_tables Bash c om os = Ok (nd, a) -> NoDup om -> valid_literal_order (c_main c) om = true ->
    sub_orders_ok c os -> subs_deterministic c ->
    C01_domain (v_expr v) = true ->
    BashSem.e_ignore_case benv = false -> BashSem.e_wordbreaks benv = Meaning.e_wordbreaks en ->
    breaks_ok (BashSem.e_wordbreaks benv) = true -> plain p = true -> printable_str p = true ->
    (forall cm cid, Tables.index_of cm (a_commands a) = Some cid ->
                    spec_candidates (cmd_output benv cid) = candidates en cm) ->
    ambiguous_run en (start (v_expr v)) ws = false ->
    match complete (v_expr v) en ws p with
    | None => exists log, run_from Repaired (d_start (c_main c)) a benv ws p = Ok (mkresult 1 [] log)
    | Some (req, al) =>
        exists reply log, run_from Repaired (d_start (c_main c)) a benv ws p = Ok (mkresult 0 reply log)
                          /\ (forall x, In x reply <-> In x req) /\ incl req al
    end.
Proof. exact bash_meaning_mixed. Qed.
Check C01_bash_meaning_mixed :
  forall pick fuel v c om os nd a (benv : BashSem.env) (en : Meaning.env) ws p,
    mix_tree (v_expr v) = true -> alts_nonempty (v_expr v) = true ->
    compile_valid pick fuel v = Ok c ->
    all_tables Bash c om os = Ok (nd, a) -> NoDup om -> valid_literal_order (c_main c) om = true ->
    sub_orders_ok c os -> subs_deterministic c ->
    C01_domain (v_expr v) = true ->
    BashSem.e_ignore_case benv = false -> BashSem.e_wordbreaks benv = Meaning.e_wordbreaks en ->
    breaks_ok (BashSem.e_wordbreaks benv) = true -> plain p = true -> printable_str p = true ->
    (forall cm cid, Tables.index_of cm (a_commands a) = Some cid ->
                    spec_candidates (cmd_output benv cid) = candidates en cm) ->
    ambiguous_run en (start (v_expr v)) ws = false ->
    match complete (v_expr v) en ws p with
    | None => exists log, run_from Repaired (d_start (c_main c)) a benv ws p = Ok (mkresult 1 [] log)
    | Some (req, al) =>
        exists reply log, run_from Repaired (d_start (c_main c)) a benv ws p = Ok (mkresult 0 reply log)
                          /\ (forall x, In x reply <-> In x req) /\ incl req al
    end.
Print Assumptions C01_bash_meaning_mixed.

(** Inhabited: [cmd (add || --k=(x|yz) || {{{probe}}}) <U> end;] through the whole model pipeline. *)
Definition exm_e : expr :=
  Sequence [Fallback [Terminal "add" None 0 exl_sp;
                      Subword (Sequence [Terminal "--k=" None 1 exl_sp;
                                         Alternative [Terminal "x" None 1 exl_sp; Terminal "yz" None 1 exl_sp] exl_sp] exl_sp)
                              1 exl_sp;
                      Command "probe" false 2 exl_sp] exl_sp;
            NontermRef "U" 0 exl_sp;
            Terminal "end" None 0 exl_sp] exl_sp.
Definition exm_v := mkvalid "cmd" exm_e [] [] [].

Example ex_C01_mixed_layer_inhabited :
  match compile_valid (fun _ _ => O) 100 exm_v with
  | Ok c =>
      match all_tables Bash c ext_om exs_os with
      | Ok (nd, a) =>
          mix_tree exm_e = true /\ alts_nonempty exm_e = true /\ valid_literal_order (c_main c) ext_om = true
          /\ nodup_pairs ext_om = true /\ sub_orders_okb c exs_os = true /\ subs_single c = true
          /\ C01_domain exm_e = true /\ a_commands a = ["probe"]%string
          /\ spec_candidates (cmd_output ext_benv 0) = candidates ext_en "probe"
          /\ ambiguous_run ext_en (start exm_e) ["--k=yz"; "w"]%string = false
          /\ run_from Repaired (d_start (c_main c)) a ext_benv [] "--" = Ok (mkresult 0 ["--k="] [])
          /\ complete exm_e ext_en [] "--" = Some (["--k="], ["--k="])
          /\ run_from Repaired (d_start (c_main c)) a ext_benv [] "P" = Ok (mkresult 0 ["P1"] [(0, "P", "")])
          /\ complete exm_e ext_en [] "P" = Some (["P1"], ["P1"])
          /\ run_from Repaired (d_start (c_main c)) a ext_benv ["--k=yz"; "w"] "" = Ok (mkresult 0 ["end "] [])
          /\ complete exm_e ext_en ["--k=yz"; "w"] "" = Some (["end "], ["end "])
          /\ run_from Repaired (d_start (c_main c)) a ext_benv ["--k="] "" = Ok (mkresult 1 [] [(0, "", "")])
          /\ complete exm_e ext_en ["--k="] "" = None
      | _ => False
      end
  | _ => False
  end.
Proof. vm_compute. repeat split; reflexivity. Qed.
Print Assumptions ex_C01_mixed_layer_inhabited.

(** Regression example of the third mechanism (repaired): [cmd --x=(abc|<U>) z;] is in the decided
    domain, the line [--x=abcd] is not ambiguous, the specification expects [z] after it (the
    nonterminal matches any text).  Before the repair the within-word matcher consumed [abc], was
    stuck on [d] and the script returned status 1; [KnownC01.greedy_shadow] still flags exactly
    that line (it describes the old, greedy reading).  The interpreter of the repaired script tries
    the nonterminal first and answers [z], as the specification does. *)
Definition exg_e : expr :=
  Sequence [Subword (Sequence [Terminal "--x=" None 0 exl_sp;
                               Alternative [Terminal "abc" None 0 exl_sp; NontermRef "U" 0 exl_sp] exl_sp] exl_sp) 0 exl_sp;
            Terminal "z" None 0 exl_sp] exl_sp.
Definition exg_v := mkvalid "cmd" exg_e [] [] [].
Definition exg_om := [("z", "")]%string.
Definition exg_os := [(0, [("--x=", ""); ("abc", "")])]%string.

Example ex_C01_greedy_shadow_witness :
  match compile_valid (fun _ _ => O) 100 exg_v with
  | Ok c =>
      match all_tables Bash c exg_om exg_os with
      | Ok (nd, a) =>
          valid_literal_order (c_main c) exg_om = true /\ sub_orders_okb c exg_os = true
          /\ C01_domain exg_e = true /\ C01_env_ok exg_e exs_en = true
          /\ ambiguous_run exs_en (start exg_e) ["--x=abcd"]%string = false
          /\ greedy_shadow exg_e exs_en ["--x=abcd"]%string = true
          /\ complete exg_e exs_en ["--x=abcd"] "" = Some (["z "], ["z "])
          /\ run_from Repaired (d_start (c_main c)) a exs_benv ["--x=abcd"] "" = Ok (mkresult 0 ["z "] [])
          /\ greedy_shadow exg_e exs_en ["--x=abc"]%string = false
          /\ run_from Repaired (d_start (c_main c)) a exs_benv ["--x=abc"] "" = Ok (mkresult 0 ["z "] [])
          /\ greedy_shadow exg_e exs_en ["--x=q"]%string = false
          /\ run_from Repaired (d_start (c_main c)) a exs_benv ["--x=q"] "" = Ok (mkresult 0 ["z "] [])
      | _ => False
      end
  | _ => False
  end.
Proof. vm_compute. repeat split; reflexivity. Qed.
Print Assumptions ex_C01_greedy_shadow_witness.

(** Non-vacuity: a grammar with two || levels, a within-word expression and a command is inside
    the domain, and the specification computes the answers one expects from the README. *)
Definition ex_sp := mkspan 1 1 2.
Definition ex_e : expr :=
  Sequence [ Fallback [ Alternative [ Terminal "add" None 0 ex_sp;
                                      Subword (Sequence [Terminal "--k=" None 0 ex_sp;
                                                         Alternative [Terminal "x" None 0 ex_sp;
                                                                      Terminal "y" None 0 ex_sp] ex_sp] ex_sp)
                                              0 ex_sp ] ex_sp;
                        Command "probe" false 1 ex_sp ] ex_sp;
             NontermRef "U" 0 ex_sp;
             Terminal "end" None 0 ex_sp ] ex_sp.
Definition ex_en : env := mkenv " =:" [("probe", ["P1"; "aQ" ++ String tab "descr"])]%string.

Example ex_C01_inhabited :
  C01_domain ex_e = true /\ C01_env_ok ex_e ex_en = true
  /\ complete ex_e ex_en [] "" = Some (["add "; "--k="], ["add "; "--k="])
  /\ complete ex_e ex_en [] "a" = Some (["add "], ["add "])
  /\ complete ex_e ex_en [] "P" = Some (["P1"], ["P1"])
  /\ complete ex_e ex_en [] "--k=" = Some (["x"; "y"], ["x"; "y"; ""])
  /\ complete ex_e ex_en ["--k=y"; "whatever"] "" = Some (["end "], ["end "])
  /\ complete ex_e ex_en ["--k="] "" = None
  /\ complete ex_e ex_en ["aQ"; "w"; "end"; "more"] "" = None
  /\ ambiguous_run ex_en (start ex_e) ["--k=y"; "whatever"] = false
  /\ piece_boundary ex_e ex_en ["--k="] = true.
Proof. vm_compute. repeat split; reflexivity. Qed.
Print Assumptions ex_C01_inhabited.

(** * C01_bash_meaning: the statement is a theorem. *)
Theorem C01_bash_meaning : C01_bash_meaning_statement.
Proof.
  intros pick fuel v c om os nd a benv en ws p Htree Hne Hc Hall Hord Hvalid Hsords Hdet Hdom Henvok Hic Hwb Hbok Hplain Hprint Henv Hamb.
  pose proof (bash_meaning_all pick fuel v c om os nd a benv en ws p Htree Hne Hc Hall Hord Hvalid Hsords Hdet Hdom Henvok Hic Hwb Hbok
                Hplain Hprint Henv Hamb) as H.
  destruct (complete (v_expr v) en ws p) as [[req al] |]; [| exact H].
  destruct H as [reply [log [Hr [Hiff Hincl]]]]. exists reply, log. split; [exact Hr | split].
  - intros x Hx. apply Hiff. exact Hx.
  - intros x Hx. apply Hincl. apply Hiff. exact Hx.
Qed.
Check C01_bash_meaning : C01_bash_meaning_statement.
Print Assumptions C01_bash_meaning.

(** The two configurations of the quantifier: COMP_WORDBREAKS as bash sets it, and empty. *)
Theorem C01_bash_meaning_wordbreaks :
  forall wb, wb = bash_default_wordbreaks \/ wb = EmptyString ->
  forall pick fuel v c om os nd a outs ens ws p,
    let benv := BashSem.mkenv wb outs false in
    let en := Meaning.mkenv wb ens in
    sub_tree (v_expr v) = true -> alts_nonempty (v_expr v) = true ->
    compile_valid pick fuel v = Ok c ->
    all_tables Bash c om os = Ok (nd, a) -> NoDup om -> valid_literal_order (c_main c) om = true ->
    sub_orders_ok c os -> subs_deterministic c ->
    C01_domain (v_expr v) = true -> C01_env_ok (v_expr v) en = true ->
    plain p = true -> printable_str p = true ->
    (forall cm cid, Tables.index_of cm (a_commands a) = Some cid ->
                    Spec.Invocations.spec_candidates (cmd_output benv cid) = candidates en cm) ->
    ambiguous_run en (start (v_expr v)) ws = false ->
    match complete (v_expr v) en ws p with
    | None => exists log, run_from Repaired (d_start (c_main c)) a benv ws p = Ok (mkresult 1 [] log)
    | Some (req, al) =>
        exists reply log, run_from Repaired (d_start (c_main c)) a benv ws p = Ok (mkresult 0 reply log)
                          /\ incl req reply /\ incl reply al
    end.
Proof.
  intros wb Hwb pick fuel v c om os nd a outs ens ws p benv en Htree Hne Hc Hall Hord Hvalid Hsords Hdet Hdom Henvok Hplain Hprint Henv Hamb.
  apply (C01_bash_meaning pick fuel v c om os nd a benv en ws p); try assumption; try reflexivity.
  unfold benv. cbn [BashSem.e_wordbreaks]. destruct Hwb as [-> | ->]; reflexivity.
Qed.
Check C01_bash_meaning_wordbreaks :
  forall wb, wb = bash_default_wordbreaks \/ wb = EmptyString ->
  forall pick fuel v c om os nd a outs ens ws p,
    let benv := BashSem.mkenv wb outs false in
    let en := Meaning.mkenv wb ens in
    sub_tree (v_expr v) = true -> alts_nonempty (v_expr v) = true ->
    compile_valid pick fuel v = Ok c ->
    all_tables Bash c om os = Ok (nd, a) -> NoDup om -> valid_literal_order (c_main c) om = true ->
    sub_orders_ok c os -> subs_deterministic c ->
    C01_domain (v_expr v) = true -> C01_env_ok (v_expr v) en = true ->
    plain p = true -> printable_str p = true ->
    (forall cm cid, Tables.index_of cm (a_commands a) = Some cid ->
                    Spec.Invocations.spec_candidates (cmd_output benv cid) = candidates en cm) ->
    ambiguous_run en (start (v_expr v)) ws = false ->
    match complete (v_expr v) en ws p with
    | None => exists log, run_from Repaired (d_start (c_main c)) a benv ws p = Ok (mkresult 1 [] log)
    | Some (req, al) =>
        exists reply log, run_from Repaired (d_start (c_main c)) a benv ws p = Ok (mkresult 0 reply log)
                          /\ incl req reply /\ incl reply al
    end.
Print Assumptions C01_bash_meaning_wordbreaks.

(** "Nothing follows an undefined nonterminal inside a word" need not be asked of a compiled grammar:
    [Regex.from_valid_expr] (the first stage of [compile_valid]) accepts a validated tree only if
    every placeholder of every word is last (checkproofs' [C08_placeholder] /
    [PhPool.from_valid_expr_placeholder], since the repair of finding N2 an equivalence), which makes
    the residual after [WAny] the empty sentence at every point [Domain.explore] visits
    (Proofs/WordTail.v).  For such grammars the decided domain is [C01_domain_core]: [C01_domain]
    without that conjunct; the diagnostic [C01_tail_only] holds as well.  ([grammar_ops_nonempty]:
    no operator without operands, true of everything the parser returns.) *)
Theorem C01_tail_only_compiled :
  forall builtins g sh v pick fuel c,
    from_grammar builtins g sh = Ok v -> Proofs.PhSpec.grammar_ops_nonempty g = true ->
    compile_valid pick fuel v = Ok c ->
    (Spec.DomainCore.C01_domain_core (v_expr v) = true <-> C01_domain (v_expr v) = true) /\
    (Spec.DomainCore.C01_domain_core (v_expr v) = true -> C01_tail_only (v_expr v) = true).
Proof. exact Proofs.WordTail.compiled_domain. Qed.
Check C01_tail_only_compiled :
  forall builtins g sh v pick fuel c,
    from_grammar builtins g sh = Ok v -> Proofs.PhSpec.grammar_ops_nonempty g = true ->
    compile_valid pick fuel v = Ok c ->
    (Spec.DomainCore.C01_domain_core (v_expr v) = true <-> C01_domain (v_expr v) = true) /\
    (Spec.DomainCore.C01_domain_core (v_expr v) = true -> C01_tail_only (v_expr v) = true).
Print Assumptions C01_tail_only_compiled.

(** [C01_bash_meaning] for grammars that went through the checker: the domain without the tail-only
    conjunct, [alts_nonempty] discharged from the checker's output. *)
Theorem C01_bash_meaning_compiled :
  forall builtins g sh pick fuel v c om os nd a (benv : BashSem.env) (en : Meaning.env) ws p,
    from_grammar builtins g sh = Ok v -> Proofs.PhSpec.grammar_ops_nonempty g = true ->
    sub_tree (v_expr v) = true ->
    compile_valid pick fuel v = Ok c ->
    all_tables Bash c om os = Ok (nd, a) -> NoDup om -> valid_literal_order (c_main c) om = true ->
    sub_orders_ok c os -> subs_deterministic c ->
    Spec.DomainCore.C01_domain_core (v_expr v) = true -> C01_env_ok (v_expr v) en = true ->
    BashSem.e_ignore_case benv = false -> BashSem.e_wordbreaks benv = Meaning.e_wordbreaks en ->
    breaks_ok (BashSem.e_wordbreaks benv) = true -> plain p = true -> printable_str p = true ->
    (forall cm cid, Tables.index_of cm (a_commands a) = Some cid ->
                    Spec.Invocations.spec_candidates (cmd_output benv cid) = candidates en cm) ->
    ambiguous_run en (start (v_expr v)) ws = false ->
    match complete (v_expr v) en ws p with
    | None => exists log, run_from Repaired (d_start (c_main c)) a benv ws p = Ok (mkresult 1 [] log)
    | Some (req, al) =>
        exists reply log, run_from Repaired (d_start (c_main c)) a benv ws p = Ok (mkresult 0 reply log)
                          /\ incl req reply /\ incl reply al
    end.
Proof.
  intros builtins g sh pick fuel v c om os nd a benv en ws p Hv Hg Htree Hc Hall Hord Hvalid Hsords Hdet Hdom.
  destruct (Proofs.CheckTree.check_tree builtins g sh v Hv) as (_ & _ & _ & Halts).
  specialize (Halts (Proofs.PhTree.grammar_ops_alts g Hg)).
  apply (C01_bash_meaning pick fuel v c om os nd a benv en ws p Htree Halts Hc Hall Hord Hvalid Hsords Hdet).
  exact (proj1 (proj1 (Proofs.WordTail.compiled_domain builtins g sh v pick fuel c Hv Hg Hc)) Hdom).
Qed.
Check C01_bash_meaning_compiled :
  forall builtins g sh pick fuel v c om os nd a (benv : BashSem.env) (en : Meaning.env) ws p,
    from_grammar builtins g sh = Ok v -> Proofs.PhSpec.grammar_ops_nonempty g = true ->
    sub_tree (v_expr v) = true ->
    compile_valid pick fuel v = Ok c ->
    all_tables Bash c om os = Ok (nd, a) -> NoDup om -> valid_literal_order (c_main c) om = true ->
    sub_orders_ok c os -> subs_deterministic c ->
    Spec.DomainCore.C01_domain_core (v_expr v) = true -> C01_env_ok (v_expr v) en = true ->
    BashSem.e_ignore_case benv = false -> BashSem.e_wordbreaks benv = Meaning.e_wordbreaks en ->
    breaks_ok (BashSem.e_wordbreaks benv) = true -> plain p = true -> printable_str p = true ->
    (forall cm cid, Tables.index_of cm (a_commands a) = Some cid ->
                    Spec.Invocations.spec_candidates (cmd_output benv cid) = candidates en cm) ->
    ambiguous_run en (start (v_expr v)) ws = false ->
    match complete (v_expr v) en ws p with
    | None => exists log, run_from Repaired (d_start (c_main c)) a benv ws p = Ok (mkresult 1 [] log)
    | Some (req, al) =>
        exists reply log, run_from Repaired (d_start (c_main c)) a benv ws p = Ok (mkresult 0 reply log)
                          /\ incl req reply /\ incl reply al
    end.
Print Assumptions C01_bash_meaning_compiled.

(** Inhabited: [cmd --x=<U> {{{probe}}}=(v|w) end;] -- an undefined nonterminal and a command inside
    words -- through the whole model pipeline. *)
Definition exa_e : expr :=
  Sequence [Subword (Sequence [Terminal "--x=" None 0 exl_sp; NontermRef "U" 0 exl_sp] exl_sp) 0 exl_sp;
            Subword (Sequence [Command "probe" false 0 exl_sp; Terminal "=" None 0 exl_sp;
                               Alternative [Terminal "v" None 0 exl_sp; Terminal "w" None 0 exl_sp] exl_sp] exl_sp) 0 exl_sp;
            Terminal "end" None 0 exl_sp] exl_sp.
Definition exa_v := mkvalid "cmd" exa_e [] [] [].
Definition exa_om := [("end", "")]%string.
Definition exa_os := [(0, [("--x=", "")]); (1, [("w", ""); ("v", ""); ("=", "")])]%string.

Example ex_C01_bash_meaning_inhabited :
  match compile_valid (fun _ _ => O) 100 exa_v with
  | Ok c =>
      match all_tables Bash c exa_om exa_os with
      | Ok (nd, a) =>
          sub_tree exa_e = true /\ alts_nonempty exa_e = true /\ valid_literal_order (c_main c) exa_om = true
          /\ nodup_pairs exa_om = true /\ sub_orders_okb c exa_os = true /\ subs_local c = true
          /\ C01_domain exa_e = true /\ C01_env_ok exa_e ext_en = true /\ a_commands a = ["probe"]%string
          /\ ambiguous_run ext_en (start exa_e) ["--x=abc"; "P1=w"]%string = false
          /\ greedy_shadow exa_e ext_en ["--x=abc"; "P1=w"]%string = false
          /\ complete exa_e ext_en ["--x=abc"] "P" = Some (["P1"], ["P1"])
          /\ (exists log, run_from Repaired (d_start (c_main c)) a ext_benv ["--x=abc"] "P" = Ok (mkresult 0 ["P1"] log))
          /\ complete exa_e ext_en ["--x=abc"; "P1=w"] "e" = Some (["end "], ["end "])
          /\ (exists log, run_from Repaired (d_start (c_main c)) a ext_benv ["--x=abc"; "P1=w"] "e" = Ok (mkresult 0 ["end "] log))
          /\ complete exa_e ext_en ["--x=q"] "aQ=" = Some (["v"; "w"], ["v"; "w"; ""])
          /\ (exists log, run_from Repaired (d_start (c_main c)) a ext_benv ["--x=q"] "aQ=" = Ok (mkresult 0 ["w"; "v"] log))
          /\ complete exa_e ext_en ["--x=q"; "P1="] "" = None
          /\ (exists log, run_from Repaired (d_start (c_main c)) a ext_benv ["--x=q"; "P1="] "" = Ok (mkresult 1 [] log))
      | _ => False
      end
  | _ => False
  end.
Proof. vm_compute. repeat split; try reflexivity; eexists; reflexivity. Qed.
Print Assumptions ex_C01_bash_meaning_inhabited.
