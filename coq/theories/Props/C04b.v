(** C04, end to end for bash -- "the data embedded in the emitted bash script describes the same
    automaton as the grammar does".  Statements only; proofs in Proofs/EmbedEndToEnd.v, composing
    C05b (parser), C02 ([C02_driver]: the compiled automaton accepts exactly what the validated
    grammar denotes), C03/C02 ([CompiledFacts], [SubCompiled]: the compiled automata are
    well-formed), the table theorems of C04 and [C04_embed_bash] (the script reads back as its
    statement list).

    Hypotheses of [C04_end_to_end_bash], and which of them are genuine:
    - [compile pick fuel builtins text Bash = Ok (v, c)], [all_tables Bash c om os = Ok (nd, a)],
      [script (v_command v) sig (d_start (c_main c)) nd a groups = Ok s]: the three stages succeeded
      (totality of the first: C06_pipeline_total);
    - [name_ok (v_command v)]: the command name consists of characters that can occur in a bash
      function name -- genuine (the grammar may name its command arbitrarily; C07 leaf);
    - [no_nl sig]: the signature comment is one line -- true of the emitter's own constant;
    - [body_ok (cmd_body cmd)] for the external commands: no line of a command body is a lone "}" --
      genuine (C07 leaf);
    - [NoDup om], [NoDup] of every within-word literal order: the orders list each (text,
      description) once -- what [get_all_literals] produces; validated by the check on every run;
    - [valid_grouping a groups] (only for the per-automaton clause [carries_each_sub]): the shape
      groups read from the script partition the within-word automata into isomorphic classes --
      validated by the check on every run;
    - inside [describes]: the completeness direction of the match tables asks [keys_unique] at the
      state (no two transitions with the same table key: outside C09's known class; see
      C04_refuted_same_text_two_levels).
    Discharged here: [alts_nonempty] (parser, C05b), [dfa_wf] of the main and of every within-word
    automaton (C02/C03), the link between the registration statement and the grammar's command. *)
From CG Require Import Base.Prelude Model.Ast Model.Dfa Model.Check Model.Driver Model.Tables Model.EmitBash.
From CG Require Import Spec.Lang Spec.ScriptRead.
From CG Require Import Proofs.TablesSound Proofs.BashCodec Proofs.BashScript Proofs.TreeFacts Proofs.EmbedEndToEnd.
Open Scope N_scope.
Open Scope list_scope.

(** The three parts: (i) the script reads back as the statement list [script_stmts], which carries
    the tables of [a] (main tables, start state, registration of [v_command v]; within-word rows,
    levels, groups and, under a valid grouping, every within-word automaton's own wrapper);
    (ii) [tables_describe]: those tables are exactly the labelled transition relation and the
    per-level candidates of [c], main and within-word, accepting sets included; (iii) [c] accepts
    exactly what the grammar denotes. *)
Theorem C04_end_to_end_bash :
  forall pick fuel builtins text v c om os nd a groups sig s,
    compile pick fuel builtins text Bash = Ok (v, c) ->
    name_ok (v_command v) -> no_nl sig = true ->
    Forall (fun cmd => body_ok (cmd_body cmd)) (a_commands a) ->
    NoDup om -> (forall pi o, assocN pi os = Some o -> NoDup o) ->
    all_tables Bash c om os = Ok (nd, a) ->
    script (v_command v) sig (d_start (c_main c)) nd a groups = Ok s ->
    (exists sts,
       script_stmts (v_command v) (d_start (c_main c)) nd a groups = Ok sts /\
       read_stmts Bash (v_command v) s = sts /\
       carries_main (v_command v) (d_start (c_main c)) a sts /\
       carries_subs (v_command v) nd a groups sts /\
       (valid_grouping a groups = true -> n_subwords nd = true -> carries_each_sub (v_command v) a sts)) /\
    tables_describe c om os a /\
    (forall w, accepts_items c w <-> denotes (v_expr v) w).
Proof. exact embed_end_to_end. Qed.
Check C04_end_to_end_bash :
  forall pick fuel builtins text v c om os nd a groups sig s,
    compile pick fuel builtins text Bash = Ok (v, c) ->
    name_ok (v_command v) -> no_nl sig = true ->
    Forall (fun cmd => body_ok (cmd_body cmd)) (a_commands a) ->
    NoDup om -> (forall pi o, assocN pi os = Some o -> NoDup o) ->
    all_tables Bash c om os = Ok (nd, a) ->
    script (v_command v) sig (d_start (c_main c)) nd a groups = Ok s ->
    (exists sts,
       script_stmts (v_command v) (d_start (c_main c)) nd a groups = Ok sts /\
       read_stmts Bash (v_command v) s = sts /\
       carries_main (v_command v) (d_start (c_main c)) a sts /\
       carries_subs (v_command v) nd a groups sts /\
       (valid_grouping a groups = true -> n_subwords nd = true -> carries_each_sub (v_command v) a sts)) /\
    tables_describe c om os a /\
    (forall w, accepts_items c w <-> denotes (v_expr v) w).
Print Assumptions C04_end_to_end_bash.

(** (ii) alone, from the validated tree: the C04 table theorems with their well-formedness
    hypotheses discharged for everything [compile_valid] returns. *)
Theorem C04_tables_describe_compiled :
  forall pick fuel v c om os nd a,
    alts_nonempty (v_expr v) = true ->
    compile_valid pick fuel v = Ok c ->
    NoDup om -> (forall pi o, assocN pi os = Some o -> NoDup o) ->
    all_tables Bash c om os = Ok (nd, a) ->
    tables_describe c om os a.
Proof. exact tables_describe_compiled. Qed.
Check C04_tables_describe_compiled :
  forall pick fuel v c om os nd a,
    alts_nonempty (v_expr v) = true ->
    compile_valid pick fuel v = Ok c ->
    NoDup om -> (forall pi o, assocN pi os = Some o -> NoDup o) ->
    all_tables Bash c om os = Ok (nd, a) ->
    tables_describe c om os a.
Print Assumptions C04_tables_describe_compiled.

(** what the statement list carries, whatever the tables are *)
Theorem C04_script_stmts_carry :
  forall command start nd a groups sts,
    script_stmts command start nd a groups = Ok sts ->
    carries_main command start a sts /\ carries_subs command nd a groups sts.
Proof. exact script_stmts_carry. Qed.
Check C04_script_stmts_carry :
  forall command start nd a groups sts,
    script_stmts command start nd a groups = Ok sts ->
    carries_main command start a sts /\ carries_subs command nd a groups sts.
Print Assumptions C04_script_stmts_carry.

(** a valid grouping prints, for every within-word automaton, tables equal to its own *)
Theorem C04_valid_grouping_carries :
  forall c om os nd a command groups sts,
    all_tables Bash c om os = Ok (nd, a) ->
    valid_grouping a groups = true -> n_subwords nd = true ->
    carries_subs command nd a groups sts -> carries_each_sub command a sts.
Proof. exact valid_grouping_carries. Qed.
Check C04_valid_grouping_carries :
  forall c om os nd a command groups sts,
    all_tables Bash c om os = Ok (nd, a) ->
    valid_grouping a groups = true -> n_subwords nd = true ->
    carries_subs command nd a groups sts -> carries_each_sub command a sts.
Print Assumptions C04_valid_grouping_carries.

(** Non-vacuity: a grammar with a description, a composite word and an option goes through the
    whole pipeline; every hypothesis of [C04_end_to_end_bash] holds for it (valid literal orders and
    a valid grouping included). *)
From CG Require Import Model.Subset.
From CGgen Require Import Consts.
Definition ex_text : string := "cmd (a ""d"" | --k=(x|y)) [b];".
Definition ex_om : list (string * string) := [("b", ""); ("a", "d")].
Definition ex_os : list (N * list (string * string)) := [(0, [("--k=", ""); ("y", ""); ("x", "")])].

Example ex_C04b_inhabited :
  exists v c nd a s,
    compile pick_first 50 builtins ex_text Bash = Ok (v, c) /\
    name_ok (v_command v) /\
    all_tables Bash c ex_om ex_os = Ok (nd, a) /\
    Forall (fun cmd => body_ok (cmd_body cmd)) (a_commands a) /\
    NoDup ex_om /\ (forall pi o, assocN pi ex_os = Some o -> NoDup o) /\
    script (v_command v) "# sig" (d_start (c_main c)) nd a [[0]] = Ok s /\
    valid_orders c ex_om ex_os = true /\ valid_grouping a [[0]] = true /\ n_subwords nd = true.
Proof.
  do 5 eexists.
  split; [vm_compute; reflexivity|].
  split; [split; [discriminate|reflexivity]|].
  split; [vm_compute; reflexivity|].
  split; [constructor|].
  split; [repeat constructor; simpl; intuition discriminate|].
  split.
  { intros pi o H. simpl in H. destruct (N.eqb pi 0); [|discriminate]. inversion H; subst.
    repeat constructor; simpl; intuition discriminate. }
  split; [vm_compute; reflexivity|].
  split; [vm_compute; reflexivity|]. split; vm_compute; reflexivity.
Qed.
Print Assumptions ex_C04b_inhabited.
