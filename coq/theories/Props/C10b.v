(** C10 (continued) -- the order in which the subset construction pops its work-list is a per-process
    accident of a hash set (src/dfa.rs dfa_from_regex: `unmarked_states`); the model takes it as the
    oracle [pick].  What is proved here: whatever two processes pick, the two raw automata have the
    same input table, accept the same input-id words, and the states they reach on one word stand for
    the same set of regex positions -- i.e. they are the same automaton up to the numbering of states,
    the numbering that [renumber_states] then fixes in transition order.  Together with
    [C03_order_independent] (Props/C03.v: the partition Hopcroft ends with does not depend on its own
    work-list order) this is the proved part of "work-list orders do not leak into the output"; that
    the canonical renumbering turns "same up to numbering" into byte equality is checked per run
    (lib/vf/checks/c10.py, fresh processes), not proved.
    Statements only; the facts come from Proofs/SubsetConstr.v through Props/C02.v. *)
From CG Require Import Base.Prelude Model.Ast Model.Dfa Model.Regex Model.Subset.
From CG Require Import Proofs.SubsetStmt Proofs.SubsetConstr.

Theorem C10_pop_order_same_automaton :
  forall pick1 pick2 fuel1 fuel2 submap r d1 states1 d2 states2 labels,
    dfa_from_regex pick1 fuel1 submap r = Ok (d1, states1) ->
    dfa_from_regex pick2 fuel2 submap r = Ok (d2, states2) ->
    omap (from_input submap) (r_inputs r) = Ok labels ->
    d_inputs d1 = d_inputs d2 /\
    (forall ids, accepts d1 ids = true <-> accepts d2 ids = true) /\
    (forall ids s1 s2,
        run d1 (d_start d1) ids = Some s1 -> run d2 (d_start d2) ids = Some s2 ->
        exists S, In (S, s1) states1 /\ In (S, s2) states2).
Proof.
  intros pick1 pick2 fuel1 fuel2 submap r d1 states1 d2 states2 labels H1 H2 HL.
  pose proof (subset_run pick1 fuel1 submap r d1 states1 labels H1 HL) as P1.
  pose proof (subset_run pick2 fuel2 submap r d2 states2 labels H2 HL) as P2.
  cbv zeta in P1, P2.
  destruct P1 as [I1 [_ [_ [_ [_ [R1 [A1 _]]]]]]].
  destruct P2 as [I2 [_ [_ [_ [_ [R2 [A2 _]]]]]]].
  split; [rewrite I1, I2; reflexivity|]. split.
  - intro ids. rewrite (A1 ids), (A2 ids). tauto.
  - intros ids s1 s2 E1 E2. specialize (R1 ids). specialize (R2 ids). rewrite E1 in R1. rewrite E2 in R2.
    eexists. split; [exact R1 | exact R2].
Qed.
Check C10_pop_order_same_automaton :
  forall pick1 pick2 fuel1 fuel2 submap r d1 states1 d2 states2 labels,
    dfa_from_regex pick1 fuel1 submap r = Ok (d1, states1) ->
    dfa_from_regex pick2 fuel2 submap r = Ok (d2, states2) ->
    omap (from_input submap) (r_inputs r) = Ok labels ->
    d_inputs d1 = d_inputs d2 /\
    (forall ids, accepts d1 ids = true <-> accepts d2 ids = true) /\
    (forall ids s1 s2,
        run d1 (d_start d1) ids = Some s1 -> run d2 (d_start d2) ids = Some s2 ->
        exists S, In (S, s1) states1 /\ In (S, s2) states2).
Print Assumptions C10_pop_order_same_automaton.

(** The correspondence of states is one-to-one in both directions: a state of either automaton stands
    for one position set, and a position set has one state. *)
Theorem C10_pop_order_states_bijective :
  forall pick fuel submap r d states labels,
    dfa_from_regex pick fuel submap r = Ok (d, states) ->
    omap (from_input submap) (r_inputs r) = Ok labels ->
    NoDup (map fst states) /\ NoDup (map snd states).
Proof.
  intros pick fuel submap r d states labels H HL.
  pose proof (subset_run pick fuel submap r d states labels H HL) as P. cbv zeta in P.
  destruct P as [_ [_ [_ [N1 [N2 _]]]]]. split; assumption.
Qed.
Check C10_pop_order_states_bijective :
  forall pick fuel submap r d states labels,
    dfa_from_regex pick fuel submap r = Ok (d, states) ->
    omap (from_input submap) (r_inputs r) = Ok labels ->
    NoDup (map fst states) /\ NoDup (map snd states).
Print Assumptions C10_pop_order_states_bijective.

(** Non-vacuity: [(a b e | c d f)] compiled under two pop orders.  Both succeed, the two automata
    differ (the states reached after [a b] and after [c d] swap their numbers), and the theorem's
    conclusion is what relates them. *)
Definition ex10_sp := mkspan 1 1 2.
Definition ex10_lit (s : string) : expr := Terminal s None 0 ex10_sp.
Definition ex10_e : expr :=
  Alternative [Sequence [ex10_lit "a"; ex10_lit "b"; ex10_lit "e"] ex10_sp;
               Sequence [ex10_lit "c"; ex10_lit "d"; ex10_lit "f"] ex10_sp] ex10_sp.

Example ex_C10b_inhabited :
  exists r pl d1 states1 d2 states2 labels,
    from_expr ex10_e [] = Ok (r, pl) /\
    dfa_from_regex pick_first 50 [] r = Ok (d1, states1) /\
    dfa_from_regex pick_last 50 [] r = Ok (d2, states2) /\
    omap (from_input []) (r_inputs r) = Ok labels /\
    d1 <> d2 /\ List.length states1 = 6%nat /\ List.length states2 = 6%nat.
Proof.
  do 7 eexists.
  split; [vm_compute; reflexivity|].
  split; [vm_compute; reflexivity|].
  split; [vm_compute; reflexivity|].
  split; [vm_compute; reflexivity|].
  split; [discriminate|]. split; vm_compute; reflexivity.
Qed.
Print Assumptions ex_C10b_inhabited.
