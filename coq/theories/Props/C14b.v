(** C14, end to end -- layout and statement order do not change the automata.
    Statements only; proofs in Proofs/PipelineSpans.v and Proofs/PipelineLayout.v.

    [Driver.compile_valid] is the pipeline after the checker: regex, every within-word automaton
    compiled / minimised / checked / interned, subset construction, minimisation, ambiguity checks.
    [ms_valid f v] maps [f] over every span of a validated grammar.  Automata carry no spans, but
    the intern pool of within-word regexes compares regexes INCLUDING spans: a non-injective [f]
    merges pool entries and shifts regex ids (the example below does).  The theorem is therefore
    about the resulting [cdfa] (and the spans of [UnboundedMatchable], mapped by [f]); it holds for
    every [f], every work-list order [pick] and every fuel. *)
From CG Require Import Base.Prelude Model.Ast Model.Lexer Model.Parser Model.Check Model.Regex.
From CG Require Import Model.Dfa Model.Subset Model.Driver Spec.Printer.
From CG Require Import Proofs.TreeFacts Proofs.CheckSpans Proofs.PipelineSpans Proofs.PipelineLayout.
From Coq Require Import Permutation.
From CGgen Require Import Consts.

Theorem C14_compile_valid_spans :
  forall (f : span -> span) pick fuel v,
    flat_subwords (v_expr v) = true ->
    compile_valid pick fuel (ms_valid f v) = dmap f (compile_valid pick fuel v).
Proof. exact compile_valid_spans. Qed.
Check C14_compile_valid_spans :
  forall (f : span -> span) pick fuel v,
    flat_subwords (v_expr v) = true ->
    compile_valid pick fuel (ms_valid f v) = dmap f (compile_valid pick fuel v).
Print Assumptions C14_compile_valid_spans.

(** Two grammars equal up to spans ([same_shape]): the pipeline after the parser succeeds or fails
    alike and yields the same command and the same automata ([layout_rel]). *)
Theorem C14_same_shape_pipeline :
  forall pick fuel builtins g1 g2 sh,
    same_shape g1 g2 ->
    layout_rel (after_parse pick fuel builtins g1 sh) (after_parse pick fuel builtins g2 sh).
Proof. exact same_shape_pipeline. Qed.
Check C14_same_shape_pipeline :
  forall pick fuel builtins g1 g2 sh,
    same_shape g1 g2 ->
    layout_rel (after_parse pick fuel builtins g1 sh) (after_parse pick fuel builtins g2 sh).
Print Assumptions C14_same_shape_pipeline.

(** Two layouts (whitespace, newlines, comments, [=] / [::=], final [;], redundant parentheses) of
    one printable grammar, through the WHOLE pipeline [Driver.compile] (parser included). *)
Theorem C14_layout_pipeline :
  forall pick fuel builtins g l1 l2 sh,
    wf g ->
    layout_rel (compile pick fuel builtins (text g l1) sh) (compile pick fuel builtins (text g l2) sh).
Proof. exact layout_pipeline. Qed.
Check C14_layout_pipeline :
  forall pick fuel builtins g l1 l2 sh,
    wf g ->
    layout_rel (compile pick fuel builtins (text g l1) sh) (compile pick fuel builtins (text g l2) sh).
Print Assumptions C14_layout_pipeline.

(** Permuting the statements (call variants kept in their relative order): same verdict of the
    checker, same command, same result of the rest of the pipeline. *)
Theorem C14_definition_order_pipeline :
  forall pick fuel builtins sh g g',
    Permutation g g' -> call_variants g = call_variants g' ->
    forall v, from_grammar builtins g sh = Ok v ->
      exists v', from_grammar builtins g' sh = Ok v' /\ v_command v' = v_command v
                 /\ compile_valid pick fuel v' = compile_valid pick fuel v.
Proof. exact definition_order_pipeline. Qed.
Check C14_definition_order_pipeline :
  forall pick fuel builtins sh g g',
    Permutation g g' -> call_variants g = call_variants g' ->
    forall v, from_grammar builtins g sh = Ok v ->
      exists v', from_grammar builtins g' sh = Ok v' /\ v_command v' = v_command v
                 /\ compile_valid pick fuel v' = compile_valid pick fuel v.
Print Assumptions C14_definition_order_pipeline.

(** Non-vacuity: a text with the same word [--o=<F>] at two places and its re-layout over several
    lines with comments compile to the same automata; erasing the spans merges the two pool
    entries of the word (2 regexes become 1) and the automata are still the same. *)
Definition ex_t1 : string := "cmd (--o=<F> a | b --o=<F>) [c]...; <F> ::= {{{ echo hi }}};".
Definition ex_t2 : string :=
  "cmd (--o=<F>   a
   | b     --o=<F> ) # comment
  [c]... ;
<F> = {{{ echo hi }}}".
Definition pool_len (v : valid_grammar) : option nat :=
  match from_expr (v_expr v) [] with Ok (_, pl) => Some (List.length pl) | _ => None end.
Example ex_C14b_inhabited :
  match compile pick_first 4096 builtins ex_t1 Bash, compile pick_first 4096 builtins ex_t2 Bash with
  | Ok (v1, c1), Ok (v2, c2) =>
      c1 = c2 /\ v_expr v1 <> v_expr v2
      /\ pool_len v1 = Some 2%nat /\ pool_len (ms_valid erase v1) = Some 1%nat
      /\ compile_valid pick_first 4096 (ms_valid erase v1) = Ok c1
  | _, _ => False
  end.
Proof. vm_compute. repeat split; try reflexivity. intro H. discriminate H. Qed.
Print Assumptions ex_C14b_inhabited.
