(** C04 for the other three shells -- "every emitted script (bash/fish/zsh/pwsh) embeds exactly the
    compiled automaton": the round trip through the specification-side reader, which C04.v states for
    bash ([C04_embed_bash]), for the WHOLE zsh, PowerShell and fish scripts.  Statements only; proofs in
    Proofs/ScriptGen.v (shell-generic line reading), Proofs/{Zsh,Pwsh,Fish}Codec.v (data statements) and
    Proofs/{Zsh,Pwsh,Fish}Script.v (the skeleton, cut into the templates regenerated from the emitters).

    Shape of each theorem (as for bash): if the model of the emitter ([Model/Emit<Sh>.script], tied byte
    for byte to the Rust emitter by lib/vf/checks/c04.py) produces the text [s] from the tables, then
    [ScriptRead.read_stmts sh command s] is exactly the statement list [<sh>script_stmts] of those tables:
    registration, the functions of external commands with their bodies verbatim, for every within-word
    automaton its wrapper with its literal list (descriptions, description ids) and either its own
    tables or the call of the shape function that holds them, the completion function with its literal
    list, transitions per kind, within-word transitions, start state, candidate tables per level -- every
    state and literal id written with the shell's index base ([Z.st] = ARRAY_START of gen/Consts.v), every
    string constant read by C07's reader of that shell -- and nothing else but the fixed statements of
    the skeleton. *)
From CG Require Import Base.Prelude Model.Ast Model.Dfa Model.Tpl Model.Quote Model.Tables Model.EmitBash Model.EmitData
     Model.EmitZsh Model.EmitPwsh Model.EmitFish Spec.ShellDQ Spec.ScriptRead Proofs.BashCodec Proofs.BashScript Proofs.ScriptGen
     Proofs.ZshCodec Proofs.ZshScript Proofs.PwshCodec Proofs.PwshScript Proofs.FishCodec Proofs.FishScript.
Open Scope N_scope.
Open Scope list_scope.

(** zsh.  Hypotheses: the command name is made of name characters, the signature line has no newline,
    no line of a command body is a lone closing brace.  No hypothesis on literals or descriptions: every
    string reads back (C07_zsh_total). *)
Theorem C04_embed_zsh :
  forall (command sig : string) (start : N) (nd : needs) (a : alltables) (groups : list (list N)) (s : string),
    name_ok command -> no_nl sig = true ->
    Forall (fun c : string => body_okG Zsh c) (a_commands a) ->
    EmitZsh.script command sig start nd a groups = Ok s ->
    exists sts : list stmt,
      zscript_stmts command start nd a groups = Ok sts /\ read_stmts Zsh command s = sts.
Proof. exact zsh_script_read. Qed.
Check C04_embed_zsh :
  forall (command sig : string) (start : N) (nd : needs) (a : alltables) (groups : list (list N)) (s : string),
    name_ok command -> no_nl sig = true ->
    Forall (fun c : string => body_okG Zsh c) (a_commands a) ->
    EmitZsh.script command sig start nd a groups = Ok s ->
    exists sts : list stmt,
      zscript_stmts command start nd a groups = Ok sts /\ read_stmts Zsh command s = sts.
Print Assumptions C04_embed_zsh.

(** the hypotheses are inhabited and the statement computes: an automaton with a described literal, a
    within-word automaton, an external command and a star transition *)
Definition exd_sub0 : dfa :=
  mkdfa 0 [(0, [(0, 1)]); (1, [(1, 2); (2, 2)])] [2] [ILit "--k=" None 0; ILit "x" (Some "(dx)") 0; ILit "y" None 1].
Definition exd_cdfa0 : cdfa :=
  mkcdfa (mkdfa 0 [(0, [(0, 1); (1, 1); (2, 2)]); (2, [(3, 1)])] [1]
                [ILit "a$" (Some "([1]=2)") 0; ISub 0 0; ICmd "echo c" 1; IStar]) [exd_sub0].
Definition exd_om0 : list (string * string) := [("a$", "([1]=2)")].
Definition exd_os0 : list (N * list (string * string)) := [(0, [("--k=", ""); ("y", ""); ("x", "(dx)")])].

Example ex_C04_embed_zsh :
  match EmitZsh.script_of_dfa "cmd" "cmd completion script v0" exd_cdfa0 exd_om0 exd_os0 [[1]] with
  | Ok (s, valid) =>
      valid = true
      /\ match all_tables Zsh exd_cdfa0 exd_om0 exd_os0 with
         | Ok (nd, a) => zscript_stmts "cmd" 0 nd a [[1]] = Ok (read_stmts Zsh "cmd" s)
                         /\ forallb (fun c => forallb (fun l => negb (String.eqb l "}")) (split_nl c)) (a_commands a) = true
         | _ => False
         end
  | _ => False
  end.
Proof. vm_compute. repeat split. Qed.
Print Assumptions ex_C04_embed_zsh.

(** PowerShell.  Hypotheses: the command name is made of name characters and has no single quote (it is
    written between single quotes in the registration line), the signature line has no newline, no
    line of a command body is a lone closing brace, and -- the known finding of C07 for this shell -- no
    literal text or description contains a smart double quote (U+201C/D/E), which pwsh.rs does not
    escape ([alltables_smart_free]; C07_pwsh_exact, C07_refuted_pwsh_smart_quote). *)
Theorem C04_embed_pwsh :
  forall (command sig : string) (start : N) (nd : needs) (a : alltables) (groups : list (list N)) (s : string),
    pname_ok command -> no_nl sig = true ->
    Forall (fun c : string => body_okG Pwsh (P.cmd_body c)) (a_commands a) ->
    alltables_smart_free a ->
    EmitPwsh.script command sig start nd a groups = Ok s ->
    exists sts : list stmt,
      pscript_stmts command start nd a groups = Ok sts /\ read_stmts Pwsh command s = sts.
Proof. exact pwsh_script_read. Qed.
Check C04_embed_pwsh :
  forall (command sig : string) (start : N) (nd : needs) (a : alltables) (groups : list (list N)) (s : string),
    pname_ok command -> no_nl sig = true ->
    Forall (fun c : string => body_okG Pwsh (P.cmd_body c)) (a_commands a) ->
    alltables_smart_free a ->
    EmitPwsh.script command sig start nd a groups = Ok s ->
    exists sts : list stmt,
      pscript_stmts command start nd a groups = Ok sts /\ read_stmts Pwsh command s = sts.
Print Assumptions C04_embed_pwsh.

Example ex_C04_embed_pwsh :
  match EmitPwsh.script_of_dfa "cmd" "cmd completion script v0" exd_cdfa0 exd_om0 exd_os0 [[0]] with
  | Ok (s, valid) =>
      valid = true
      /\ match all_tables Pwsh exd_cdfa0 exd_om0 exd_os0 with
         | Ok (nd, a) => pscript_stmts "cmd" 0 nd a [[0]] = Ok (read_stmts Pwsh "cmd" s)
                         /\ forallb (fun c => forallb (fun l => negb (String.eqb l "}")) (split_nl (P.cmd_body c))) (a_commands a) = true
                         /\ forallb (fun l : N * string * string => smart_free (snd (fst l)) && smart_free (snd l)) (t_literals (a_main a)) = true
         | _ => False
         end
  | _ => False
  end.
Proof. vm_compute. repeat split. Qed.
Print Assumptions ex_C04_embed_pwsh.

(** fish.  Hypotheses: the command name is made of name characters and has no closing parenthesis (the
    registration line writes "(_<cmd>)"), the signature line has no newline, no line of a command body
    is a lone [end].  No hypothesis on literals or descriptions (C07_fish_total).  All data statements
    of the fish script are [set] lists; states and literal ids are one-based ([F.st]). *)
Theorem C04_embed_fish :
  forall (command sig : string) (start : N) (nd : needs) (a : alltables) (groups : list (list N)) (s : string),
    fname_ok command -> no_nl sig = true ->
    Forall (fun c : string => body_okG Fish c) (a_commands a) ->
    EmitFish.script command sig start nd a groups = Ok s ->
    exists sts : list stmt,
      fscript_stmts command start nd a groups = Ok sts /\ read_stmts Fish command s = sts.
Proof. exact fish_script_read. Qed.
Check C04_embed_fish :
  forall (command sig : string) (start : N) (nd : needs) (a : alltables) (groups : list (list N)) (s : string),
    fname_ok command -> no_nl sig = true ->
    Forall (fun c : string => body_okG Fish c) (a_commands a) ->
    EmitFish.script command sig start nd a groups = Ok s ->
    exists sts : list stmt,
      fscript_stmts command start nd a groups = Ok sts /\ read_stmts Fish command s = sts.
Print Assumptions C04_embed_fish.

Example ex_C04_embed_fish :
  match EmitFish.script_of_dfa "cmd" "cmd completion script v0" exd_cdfa0 exd_om0 exd_os0 [[1]] with
  | Ok (s, valid) =>
      valid = true
      /\ match all_tables Fish exd_cdfa0 exd_om0 exd_os0 with
         | Ok (nd, a) => fscript_stmts "cmd" 0 nd a [[1]] = Ok (read_stmts Fish "cmd" s)
                         /\ forallb (fun c => forallb (fun l => negb (String.eqb l "end")) (split_nl c)) (a_commands a) = true
         | _ => False
         end
  | _ => False
  end.
Proof. vm_compute. repeat split. Qed.
Print Assumptions ex_C04_embed_fish.

(** PowerShell: the two extra hypotheses of [C04_embed_pwsh] hold for an ordinary grammar (command
    name [cmd], ASCII texts) -- [alltables_smart_free] has a decidable form -- ... *)
Example ex_C04_embed_pwsh_hypotheses :
  pname_ok "cmd"
  /\ match all_tables Pwsh exd_cdfa0 exd_om0 exd_os0 with
     | Ok (nd, a) => alltables_smart_free a
     | _ => False
     end.
Proof.
  split; [split; [split; [discriminate | reflexivity] | reflexivity]|].
  vm_compute all_tables. apply alltables_smart_freeb_sound. vm_compute. reflexivity.
Qed.
Print Assumptions ex_C04_embed_pwsh_hypotheses.

(** ... and each of them is necessary.  (1) A command name with a single quote (it satisfies [name_ok]):
    the registration line reads [-CommandName 'a'b' -ScriptBlock {], the quoted name ends at the second
    quote, and the reader -- like PowerShell -- finds no well-formed registration: the statement list of
    the tables has the registration of [a'b], the script has none. *)
Definition registrations (l : list stmt) : list (list string) :=
  flat_map (fun st => match st with SRegister r => [r] | _ => [] end) l.
Definition descriptions_of (l : list stmt) : list (N * string) :=
  flat_map (fun st => match st with SStr "descriptions" k d => [(k, d)] | _ => [] end) l.

Theorem C04_refuted_pwsh_quote_in_name :
  name_ok "a'b" /\ no_squote "a'b" = false
  /\ match EmitPwsh.script_of_dfa "a'b" "sig" exd_cdfa0 exd_om0 exd_os0 [[0]], all_tables Pwsh exd_cdfa0 exd_om0 exd_os0 with
     | Ok (s, _), Ok (nd, a) =>
         match pscript_stmts "a'b" 0 nd a [[0]] with
         | Ok sts => registrations sts = [["a'b"]] /\ registrations (read_stmts Pwsh "a'b" s) = []
         | _ => False
         end
     | _, _ => False
     end.
Proof. vm_compute. repeat split; discriminate. Qed.
Check C04_refuted_pwsh_quote_in_name :
  name_ok "a'b" /\ no_squote "a'b" = false
  /\ match EmitPwsh.script_of_dfa "a'b" "sig" exd_cdfa0 exd_om0 exd_os0 [[0]], all_tables Pwsh exd_cdfa0 exd_om0 exd_os0 with
     | Ok (s, _), Ok (nd, a) =>
         match pscript_stmts "a'b" 0 nd a [[0]] with
         | Ok sts => registrations sts = [["a'b"]] /\ registrations (read_stmts Pwsh "a'b" s) = []
         | _ => False
         end
     | _, _ => False
     end.
Print Assumptions C04_refuted_pwsh_quote_in_name.

(** (2) A description with a smart double quote (the known finding of C07, here on the whole script):
    the constant ends at the smart quote, the line is no well-formed entry of the table of
    descriptions, and the description is lost: the statement list of the tables has it, the script as
    read has not. *)
Definition exs_descr : string := append "a" (append (String (ascii_of_nat 226) (String (ascii_of_nat 128) (String (ascii_of_nat 157) EmptyString))) "b").
Definition exs_cdfa : cdfa := mkcdfa (mkdfa 0 [(0, [(0, 1)])] [1] [ILit "x" (Some exs_descr) 0]) [].
Definition exs_om : list (string * string) := [("x", exs_descr)].

Theorem C04_refuted_pwsh_smart_quote_script :
  smart_free exs_descr = false
  /\ match EmitPwsh.script_of_dfa "cmd" "sig" exs_cdfa exs_om [] [], all_tables Pwsh exs_cdfa exs_om [] with
     | Ok (s, valid), Ok (nd, a) =>
         valid = true
         /\ match pscript_stmts "cmd" 0 nd a [] with
            | Ok sts => descriptions_of sts = [(0, exs_descr)] /\ descriptions_of (read_stmts Pwsh "cmd" s) = []
            | _ => False
            end
     | _, _ => False
     end.
Proof. vm_compute. repeat split. Qed.
Check C04_refuted_pwsh_smart_quote_script :
  smart_free exs_descr = false
  /\ match EmitPwsh.script_of_dfa "cmd" "sig" exs_cdfa exs_om [] [], all_tables Pwsh exs_cdfa exs_om [] with
     | Ok (s, valid), Ok (nd, a) =>
         valid = true
         /\ match pscript_stmts "cmd" 0 nd a [] with
            | Ok sts => descriptions_of sts = [(0, exs_descr)] /\ descriptions_of (read_stmts Pwsh "cmd" s) = []
            | _ => False
            end
     | _, _ => False
     end.
Print Assumptions C04_refuted_pwsh_smart_quote_script.
