(** C09 -- a typed word never has two readings; [||] is transparent to matching.

    Proved:
    - [C09_dec_correct_partial]: the decision procedure [Ambig.find] that the check runs on
      Rust's minimised automaton is sound -- when it finds nothing, no state has two outgoing
      items that read a common word and differ in target ([Ambig.unambiguous]);
      [C09_dec_witness]: a word it exhibits is genuinely read by both items;
      [C09_dec_complete]: on a transition table without duplicate keys, [find] answers [None] on
      every unambiguous automaton unless a product search ran out of fuel ([gave_up]);
      [C09_dec_correct]: hence [find c = None <-> unambiguous c] whenever no search gave up.
    - [C09_unambiguous]: outside the known mechanisms (= [Ambig.find] finds nothing) the
      automaton is unambiguous.
    - [C09_fallback_transparent_spec]: at the level of the specification [Spec.Meaning] and of the
      model of the level-assignment pass ([Check.propagate]), replacing every [||] by [|] changes
      neither which command lines are matched nor (up to levels and descriptions) which items may
      follow them.
    - [C09_fallback_transparent_check]: the same for the whole model of check.rs on *source*
      grammars: if [Check.from_grammar] accepts a grammar and its [|] variant, the two validated
      trees are matched by the same command lines (every tree-rewriting pass -- descriptions,
      specialisation, resolution of definitions in the computed order, collapsing of within-word
      expressions, level assignment -- commutes with forgetting levels, descriptions and the
      [||]/[|] distinction).
    - [C09_candidates_monotone_partial]: a candidate that no candidate of a lower level undercuts
      is offered ([lowest] never drops a candidate for another reason than an earlier level
      having one).

    Only stated ([..._statement]): the same two consequences for the *compiled* automaton and the
    emitted script; they need the models of regex/dfa/bash (other work packages) and are decided
    on every run by execution instead (lib/vf/checks/c09.py: Rust's automaton for the [||] grammar
    against the one for its [|] variant in real bash). *)
From CG Require Import Base.Prelude Model.Ast Model.Check Model.Dfa Spec.Rx Spec.Meaning Spec.TokAut Spec.Ambig
     Proofs.MeaningFacts Proofs.MeaningLevels Proofs.CheckBar Proofs.AmbigFacts Proofs.AmbigComplete.
From CG Require Spec.TwoReadings Proofs.TwoReadingsFacts.

Definition known_C09 (c : cdfa) : bool :=
  match Ambig.find c with Some _ => true | None => false end.

(** [Ambig.find d = None <-> unambiguous d] without side conditions: not provable as it stands
    (the product search has a fuel bound); see [C09_dec_correct] for the conditional form. *)
Definition C09_dec_correct_statement : Prop :=
  forall c, Ambig.find c = None <-> unambiguous c.

Theorem C09_dec_complete :
  forall c, wf_trans (c_main c) -> unambiguous c -> Ambig.find c = None \/ gave_up c.
Proof. exact find_complete. Qed.
Check C09_dec_complete :
  forall c, wf_trans (c_main c) -> unambiguous c -> Ambig.find c = None \/ gave_up c.
Print Assumptions C09_dec_complete.

Theorem C09_dec_correct :
  forall c, wf_trans (c_main c) -> ~ gave_up c -> (Ambig.find c = None <-> unambiguous c).
Proof. exact find_correct. Qed.
Check C09_dec_correct :
  forall c, wf_trans (c_main c) -> ~ gave_up c -> (Ambig.find c = None <-> unambiguous c).
Print Assumptions C09_dec_correct.

Theorem C09_dec_correct_partial : forall c, Ambig.find c = None -> unambiguous c.
Proof. exact find_none_unambiguous. Qed.
Check C09_dec_correct_partial : forall c, Ambig.find c = None -> unambiguous c.
Print Assumptions C09_dec_correct_partial.

Theorem C09_dec_witness :
  forall c s i j w,
    Ambig.find c = Some (mkwit s i j (Some w)) ->
    exists tos t u ii ij,
      In (s, tos) (d_trans (c_main c)) /\ In (i, t) tos /\ In (j, u) tos /\ t <> u
      /\ nthN (d_inputs (c_main c)) i = Some ii /\ nthN (d_inputs (c_main c)) j = Some ij
      /\ matches_item c ii w /\ matches_item c ij w.
Proof. exact find_some_genuine. Qed.
Check C09_dec_witness :
  forall c s i j w,
    Ambig.find c = Some (mkwit s i j (Some w)) ->
    exists tos t u ii ij,
      In (s, tos) (d_trans (c_main c)) /\ In (i, t) tos /\ In (j, u) tos /\ t <> u
      /\ nthN (d_inputs (c_main c)) i = Some ii /\ nthN (d_inputs (c_main c)) j = Some ij
      /\ matches_item c ii w /\ matches_item c ij w.
Print Assumptions C09_dec_witness.

Theorem C09_unambiguous : forall c, known_C09 c = false -> unambiguous c.
Proof.
  intros c H. apply find_none_unambiguous. unfold known_C09 in H.
  destruct (Ambig.find c); [discriminate | reflexivity].
Qed.
Check C09_unambiguous : forall c, known_C09 c = false -> unambiguous c.
Print Assumptions C09_unambiguous.

Theorem C09_fallback_transparent_spec :
  forall en e ws,
    matched en (propagate (bar_of_barbar e) 0) ws = matched en (propagate e 0) ws
    /\ forall a0,
        (exists a, In a (map fst (moves (run en (start (propagate (bar_of_barbar e) 0)) ws))) /\ erase_l a = a0)
        <-> (exists a, In a (map fst (moves (run en (start (propagate e 0)) ws))) /\ erase_l a = a0).
Proof.
  intros en e ws. split; [apply matched_bar_of_barbar | intro a0; apply expected_bar_of_barbar].
Qed.
Check C09_fallback_transparent_spec :
  forall en e ws,
    matched en (propagate (bar_of_barbar e) 0) ws = matched en (propagate e 0) ws
    /\ forall a0,
        (exists a, In a (map fst (moves (run en (start (propagate (bar_of_barbar e) 0)) ws))) /\ erase_l a = a0)
        <-> (exists a, In a (map fst (moves (run en (start (propagate e 0)) ws))) /\ erase_l a = a0).
Print Assumptions C09_fallback_transparent_spec.

Theorem C09_fallback_transparent_check :
  forall builtins g sh v v' en ws,
    from_grammar builtins g sh = Ok v ->
    from_grammar builtins (bar_grammar g) sh = Ok v' ->
    matched en (v_expr v') ws = matched en (v_expr v) ws.
Proof. exact from_grammar_bar_matched. Qed.
Check C09_fallback_transparent_check :
  forall builtins g sh v v' en ws,
    from_grammar builtins g sh = Ok v ->
    from_grammar builtins (bar_grammar g) sh = Ok v' ->
    matched en (v_expr v') ws = matched en (v_expr v) ws.
Print Assumptions C09_fallback_transparent_check.

Theorem C09_candidates_monotone_partial :
  forall cs l c, In (l, c) cs -> (forall l' c', In (l', c') cs -> l <= l') -> In c (lowest cs).
Proof. exact lowest_offers. Qed.
Check C09_candidates_monotone_partial :
  forall cs l c, In (l, c) cs -> (forall l' c', In (l', c') cs -> l <= l') -> In c (lowest cs).
Print Assumptions C09_candidates_monotone_partial.

(** The statements about the compiled automaton, over an abstract compilation function
    [compile : validated tree -> automaton] and an abstract run of the automaton on words
    ([None] = not matched, [Some items] = the items expected next): decided by execution. *)
Definition C09_fallback_transparent_statement
           (compile : expr -> option cdfa)
           (walk : cdfa -> env -> list string -> option (list inp)) : Prop :=
  forall en e d d' ws,
    compile (propagate e 0) = Some d -> compile (propagate (bar_of_barbar e) 0) = Some d' ->
    known_C09 d = false -> known_C09 d' = false ->
    (walk d en ws = None <-> walk d' en ws = None).

Definition C09_candidates_monotone_statement
           (offered : expr -> env -> list string -> string -> list string)
           (earlier_level_has_candidate : expr -> env -> list string -> string -> string -> Prop) : Prop :=
  forall en e ws p c,
    In c (offered (propagate (bar_of_barbar e) 0) en ws p) ->
    ~ earlier_level_has_candidate (propagate e 0) en ws p c ->
    In c (offered (propagate e 0) en ws p).

(** Non-vacuity: the two mechanisms of the property text on hand-built automata, and an
    unambiguous one.  [ex_two_levels] is the automaton of [cmd (a x || a y);]. *)
Definition ex_two_levels : cdfa :=
  mkcdfa (mkdfa 0 [(0, [(0, 1); (2, 2)]); (1, [(1, 3)]); (2, [(3, 3)])] [3]
                [ILit "a" None 0; ILit "x" None 0; ILit "a" None 1; ILit "y" None 1]) [].

Definition ex_sub (v1 v2 : string) : dfa :=
  mkdfa 0 [(0, [(0, 1)]); (1, [(1, 2); (2, 2)])] [2]
        [ILit "--o=" None 0; ILit v1 None 0; ILit v2 None 0].

Definition ex_permuted : cdfa :=
  mkcdfa (mkdfa 0 [(0, [(0, 1); (1, 2)]); (1, [(2, 3)]); (2, [(3, 3)])] [3]
                [ISub 0 0; ISub 1 0; ILit "x" None 0; ILit "y" None 0])
         [ex_sub "a" "b"; ex_sub "b" "a"].

Definition ex_clean : cdfa :=
  mkcdfa (mkdfa 0 [(0, [(0, 1); (1, 2)]); (1, [(2, 3)]); (2, [(3, 3)])] [3]
                [ISub 0 0; ISub 1 0; ILit "x" None 0; ILit "y" None 0])
         [ex_sub "a" "b"; ex_sub "c" "d"].

(** The two mechanisms of the property text are refutations of [unambiguous] on the automata the
    pinned code produces for the README-style grammars (the check finds the same on Rust's own
    automata on every run and lists them as known findings). *)
Theorem C09_refuted_two_levels : ~ unambiguous ex_two_levels.
Proof.
  intro U.
  assert (E : 1 = 2).
  { apply (U 0 0 2 (ILit "a" None 0) (ILit "a" None 1) "a"%string 1 2); reflexivity. }
  discriminate.
Qed.
Check C09_refuted_two_levels : ~ unambiguous ex_two_levels.
Print Assumptions C09_refuted_two_levels.

Theorem C09_refuted_permuted_subwords : ~ unambiguous ex_permuted.
Proof.
  intro U.
  assert (E : 1 = 2).
  { apply (U 0 0 1 (ISub 0 0) (ISub 1 0) "--o=a"%string 1 2); try reflexivity.
    - exists (ex_sub "a" "b"). split; [reflexivity |]. apply sub_accepts_spec. vm_compute. reflexivity.
    - exists (ex_sub "b" "a"). split; [reflexivity |]. apply sub_accepts_spec. vm_compute. reflexivity. }
  discriminate.
Qed.
Check C09_refuted_permuted_subwords : ~ unambiguous ex_permuted.
Print Assumptions C09_refuted_permuted_subwords.

Example ex_C09_inhabited :
  Ambig.find ex_two_levels = Some (mkwit 0 0 2 (Some "a"))
  /\ Ambig.find ex_permuted = Some (mkwit 0 0 1 (Some "--o=a"))
  /\ known_C09 ex_clean = false.
Proof. vm_compute. repeat split; reflexivity. Qed.
Print Assumptions ex_C09_inhabited.

(** The per-line classifier of lib/vf/checks/c09.py, Part 2 ([Spec.TwoReadings.two_readings]: the
    command line meets a point where a typed word has two readings) contains the lines on which
    C01's judgement is withheld ([Meaning.ambiguous_run]). *)
Theorem C09_two_readings_covers_ambiguous_run :
  forall en ws s, Meaning.ambiguous_run en s ws = true ->
                  TwoReadings.two_readings en s ws = true.
Proof. exact TwoReadingsFacts.ambiguous_run_two_readings. Qed.
Check C09_two_readings_covers_ambiguous_run :
  forall en ws s, Meaning.ambiguous_run en s ws = true ->
                  TwoReadings.two_readings en s ws = true.
Print Assumptions C09_two_readings_covers_ambiguous_run.
