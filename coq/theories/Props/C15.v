(** C15 -- warnings are complete, precise and harmless (checker part).
    Statements only; proofs in Proofs/CheckWarnings.v.

    On every grammar the model of [ValidGrammar::from_grammar] accepts, the "unused" maps hold
    exactly the names the specification (Spec/Warnings.v, written from the property text) asks
    for, each once, each with the span of the name of one of its definitions in the source
    grammar; and the accepted command and expression are computed without the bookkeeping. *)
From CG Require Import Base.Prelude Model.Ast Model.Check Spec.Choice Spec.Mistakes Spec.Warnings.
From CG Require Import Proofs.CheckLemmas Proofs.CheckWarnings Proofs.CheckOrder Proofs.CheckUndefined.
From CGgen Require Import Consts.

Theorem C15_unused_plain :
  forall builtins g sh v,
    from_grammar builtins g sh = Ok v ->
    map fst (v_unused v) = unused_plain g /\ NoDup (map fst (v_unused v)) /\
    forall n sp, In (n, sp) (v_unused v) -> exists rhs, In (NontermDef n sp None rhs) g.
Proof. exact unused_plain_exact. Qed.
Check C15_unused_plain :
  forall builtins g sh v,
    from_grammar builtins g sh = Ok v ->
    map fst (v_unused v) = unused_plain g /\ NoDup (map fst (v_unused v)) /\
    forall n sp, In (n, sp) (v_unused v) -> exists rhs, In (NontermDef n sp None rhs) g.
Print Assumptions C15_unused_plain.

Theorem C15_unused_for_shell :
  forall builtins g sh v,
    from_grammar builtins g sh = Ok v ->
    map fst (v_unused_specs v) = unused_for_shell g sh /\ NoDup (map fst (v_unused_specs v)) /\
    forall n sp, In (n, sp) (v_unused_specs v) ->
                 exists shn shsp rhs, In (NontermDef n sp (Some (shn, shsp)) rhs) g /\
                                      is_shell shn sh = true.
Proof. exact unused_for_shell_exact. Qed.
Check C15_unused_for_shell :
  forall builtins g sh v,
    from_grammar builtins g sh = Ok v ->
    map fst (v_unused_specs v) = unused_for_shell g sh /\ NoDup (map fst (v_unused_specs v)) /\
    forall n sp, In (n, sp) (v_unused_specs v) ->
                 exists shn shsp rhs, In (NontermDef n sp (Some (shn, shsp)) rhs) g /\
                                      is_shell shn sh = true.
Print Assumptions C15_unused_for_shell.

(** The "undefined" map holds, each once, exactly the names that the call variants use,
    directly or through chosen plain definitions, and that stand for "any word" for the target
    shell ([Warnings.undefined]; the exemption of [<_>] is applied by main.rs when printing). *)
Theorem C15_undefined :
  forall builtins g sh v,
    from_grammar builtins g sh = Ok v ->
    (forall y, In y (map fst (v_undefined v)) <-> In y (undefined builtins g sh))
    /\ NoDup (map fst (v_undefined v)).
Proof. exact undefined_exact. Qed.
Check C15_undefined :
  forall builtins g sh v,
    from_grammar builtins g sh = Ok v ->
    (forall y, In y (map fst (v_undefined v)) <-> In y (undefined builtins g sh))
    /\ NoDup (map fst (v_undefined v)).
Print Assumptions C15_undefined.

(** The verdict, the command and the validated expression are the result of
    [from_grammar_core], which is [from_grammar] with the three warning maps deleted. *)
Theorem C15_harmless :
  forall builtins g sh,
    outcome_map (fun v => (v_command v, v_expr v)) (from_grammar builtins g sh)
    = from_grammar_core builtins g sh.
Proof. exact warnings_harmless. Qed.
Check C15_harmless :
  forall builtins g sh,
    outcome_map (fun v => (v_command v, v_expr v)) (from_grammar builtins g sh)
    = from_grammar_core builtins g sh.
Print Assumptions C15_harmless.

(** Deleting every definition whose name no statement refers to (exactly the definitions the
    two "unused" warnings are about, plus definitions for other shells) changes neither the
    verdict nor the command nor the validated expression: the definitions warned about are
    dead, the warning is only a warning. *)
Theorem C15_unused_removable :
  forall builtins g sh v,
    from_grammar builtins g sh = Ok v ->
    exists v', from_grammar builtins (remove_unused g) sh = Ok v'
               /\ v_command v' = v_command v /\ v_expr v' = v_expr v.
Proof. exact remove_unused_harmless. Qed.
Check C15_unused_removable :
  forall builtins g sh v,
    from_grammar builtins g sh = Ok v ->
    exists v', from_grammar builtins (remove_unused g) sh = Ok v'
               /\ v_command v' = v_command v /\ v_expr v' = v_expr v.
Print Assumptions C15_unused_removable.

(** Non-vacuity: an accepted grammar with one unused plain definition, one unused definition
    for the target shell, a used definition reached only through another one, and an unused
    definition for another shell (not reported). *)
Definition ex_sp (n : N) := mkspan n 1 2.
Definition ex_g : grammar :=
  [ CallVariant "cmd" (ex_sp 1) (Sequence [NontermRef "A" 0 (ex_sp 1); NontermRef "S" 0 (ex_sp 1)] (ex_sp 1));
    NontermDef "A" (ex_sp 2) None (DistDescr (NontermRef "B" 0 (ex_sp 2)) "d" (ex_sp 2));
    NontermDef "B" (ex_sp 3) None (Terminal "y" None 0 (ex_sp 3));
    NontermDef "U" (ex_sp 4) None (NontermRef "B" 0 (ex_sp 4));
    NontermDef "S" (ex_sp 5) (Some ("bash", ex_sp 5)) (Command "s" false 0 (ex_sp 5));
    NontermDef "T" (ex_sp 6) (Some ("bash", ex_sp 6)) (Command "t" false 0 (ex_sp 6));
    NontermDef "T" (ex_sp 7) (Some ("fish", ex_sp 7)) (Command "t" false 0 (ex_sp 7)) ].

Example ex_C15_inhabited :
  (exists v, from_grammar builtins ex_g Bash = Ok v
             /\ v_unused v = [("U", ex_sp 4)] /\ v_unused_specs v = [("T", ex_sp 6)])
  /\ undefined builtins (ex_g ++ [CallVariant "cmd" (ex_sp 8) (Optional (NontermRef "X" 0 (ex_sp 8)) (ex_sp 8))])%list Bash = ["X"]
  /\ unused_plain ex_g = ["U"] /\ unused_for_shell ex_g Bash = ["T"]
  /\ unused_for_shell ex_g Zsh = []
  /\ List.length (remove_unused ex_g) = 4%nat.
Proof. vm_compute. split; [eexists; split; [reflexivity|split; reflexivity]|repeat split; reflexivity]. Qed.
Print Assumptions ex_C15_inhabited.
