(** C15 end to end -- warnings are complete, precise and harmless, from the SOURCE TEXT.
    Statements only; proofs in Proofs/PipelineWarnings.v (on top of Props/C15.v, C13.v/C13b.v, C14b.v).

    For EVERY text that [Driver.compile] accepts: the messages main.rs prints as warnings
    ([Diag.warning_messages], the three loops of [aot]) are the rendering of the three sets of
    Spec/Warnings.v computed on the parsed grammar: [renders label names located msgs] says there
    is exactly one message with that label per name of the set (the names of [located] are the
    set, each once; the spans of the messages are the spans of [located], in the sorted order),
    and every located name sits at a span where that name occurs in the source -- which
    [stmt_ok text] (C13b) places in the text.  And the automata do not depend on what the "unused"
    warnings are about. *)
From CG Require Import Base.Prelude Model.Ast Model.Lexer Model.Parser Model.Check Model.Regex.
From CG Require Import Model.Dfa Model.Driver Model.Diag Spec.Printer Spec.Spans Spec.Choice Spec.Mistakes Spec.Warnings.
From CG Require Import Proofs.CheckProvenance Proofs.CheckOrder Proofs.SpanSound Proofs.DiagPipeline.
From CG Require Import Proofs.PipelineLayout Proofs.PipelineWarnings.
From CGgen Require Import Consts.
Local Open Scope list_scope.

Theorem C15b_warning_messages :
  forall pick fuel builtins text sh v c,
    compile pick fuel builtins text sh = Ok (v, c) ->
    exists g mu mn ms,
      parse text = Ok g /\ Forall (stmt_ok text) g
      /\ warning_messages v = mu ++ mn ++ ms
      /\ renders "Undefined" (undefined_reported builtins g sh) (reported_undefined v) mu
      /\ renders "Unused" (unused_plain g) (v_unused v) mn
      /\ renders "Unused specialization" (unused_for_shell g sh) (v_unused_specs v) ms
      /\ (forall n sp, In (n, sp) (reported_undefined v) -> In (n, sp) (grammar_refs g))
      /\ (forall n sp, In (n, sp) (v_unused v) -> exists rhs, In (NontermDef n sp None rhs) g)
      /\ (forall n sp, In (n, sp) (v_unused_specs v) ->
                       exists shn shsp rhs, In (NontermDef n sp (Some (shn, shsp)) rhs) g /\ is_shell shn sh = true).
Proof.
  intros pick fuel builtins text sh v c H.
  destruct (compile_ok_inv builtins pick fuel text sh v c H) as (g & P & Hv & _).
  destruct (warning_messages_spec builtins g sh v Hv) as (mu & mn & ms & A).
  exists g, mu, mn, ms. split; [exact P|]. split; [|exact A].
  rewrite parse_repaired in P. apply parse_spans_sound; auto.
Qed.
Check C15b_warning_messages :
  forall pick fuel builtins text sh v c,
    compile pick fuel builtins text sh = Ok (v, c) ->
    exists g mu mn ms,
      parse text = Ok g /\ Forall (stmt_ok text) g
      /\ warning_messages v = mu ++ mn ++ ms
      /\ renders "Undefined" (undefined_reported builtins g sh) (reported_undefined v) mu
      /\ renders "Unused" (unused_plain g) (v_unused v) mn
      /\ renders "Unused specialization" (unused_for_shell g sh) (v_unused_specs v) ms
      /\ (forall n sp, In (n, sp) (reported_undefined v) -> In (n, sp) (grammar_refs g))
      /\ (forall n sp, In (n, sp) (v_unused v) -> exists rhs, In (NontermDef n sp None rhs) g)
      /\ (forall n sp, In (n, sp) (v_unused_specs v) ->
                       exists shn shsp rhs, In (NontermDef n sp (Some (shn, shsp)) rhs) g /\ is_shell shn sh = true).
Print Assumptions C15b_warning_messages.

(** Harmless: deleting from the parsed grammar every definition no statement refers to leaves the
    command, the validated expression and the automata unchanged ... *)
Theorem C15b_unused_removed_same_automata :
  forall pick fuel builtins text g sh v c,
    parse text = Ok g -> compile pick fuel builtins text sh = Ok (v, c) ->
    exists v', after_parse pick fuel builtins (remove_unused g) sh = Ok (v', c)
               /\ v_command v' = v_command v /\ v_expr v' = v_expr v.
Proof. intros. eapply unused_removed_same_cdfa; eauto. Qed.
Check C15b_unused_removed_same_automata :
  forall pick fuel builtins text g sh v c,
    parse text = Ok g -> compile pick fuel builtins text sh = Ok (v, c) ->
    exists v', after_parse pick fuel builtins (remove_unused g) sh = Ok (v', c)
               /\ v_command v' = v_command v /\ v_expr v' = v_expr v.
Print Assumptions C15b_unused_removed_same_automata.

(** ... and, text to text, for a printable grammar and any two layouts. *)
Theorem C15b_unused_removed_text :
  forall pick fuel builtins g l l' sh v c,
    wf g -> compile pick fuel builtins (text g l) sh = Ok (v, c) ->
    exists v', compile pick fuel builtins (text (remove_unused g) l') sh = Ok (v', c)
               /\ v_command v' = v_command v.
Proof. intros. eapply unused_removed_same_cdfa_text; eauto. Qed.
Check C15b_unused_removed_text :
  forall pick fuel builtins g l l' sh v c,
    wf g -> compile pick fuel builtins (text g l) sh = Ok (v, c) ->
    exists v', compile pick fuel builtins (text (remove_unused g) l') sh = Ok (v', c)
               /\ v_command v' = v_command v.
Print Assumptions C15b_unused_removed_text.

(** Non-vacuity: a text with an undefined name (used only through a definition), [<_>], an unused
    plain definition and an unused definition for the target shell: three warnings, in this
    order, at 2:13, 3:1 and 4:1; without the unused definitions the automata are the same. *)
Definition ex_text : string :=
"cmd <A> <_>;
<A> ::= x | <FOO>;
<U> ::= <A>;
<S@bash> ::= {{{ echo s }}};
<S@fish> ::= {{{ echo t }}};
".
Example ex_C15b_inhabited :
  match compile Subset.pick_first 4096 builtins ex_text Bash with
  | Ok (v, c) =>
      map (fun m => (m_label m, sline (m_span m), scol (m_span m))) (warning_messages v)
      = [("Undefined", 2, 13); ("Unused", 3, 1); ("Unused specialization", 4, 1)]
      /\ match parse ex_text with
         | Ok g => List.length (remove_unused g) = 2%nat
                   /\ match after_parse Subset.pick_first 4096 builtins (remove_unused g) Bash with
                      | Ok (_, c') => c' = c
                      | _ => False
                      end
         | _ => False
         end
  | _ => False
  end.
Proof. vm_compute. repeat split; reflexivity. Qed.
Print Assumptions ex_C15b_inhabited.
