(** C02 -- the compiled automaton recognises exactly the grammar's language, labels included.
    Statements only; proofs live in Proofs/{Glushkov,SubsetConstr,LangRe,LangNfa,LangDen,LangJudge,
    FromExpr,C02Lang}.v.

    Specification: [Spec.Lang.denotes] (what a validated tree denotes over items carrying text,
    description and || level; a composite word is the set of its within-word item sequences) and
    [Spec.Lang.accepts_items] (what an automaton with its within-word automata accepts). *)
From CG Require Import Base.Prelude Model.Ast Model.Dfa Model.Check Model.Regex Model.Subset Spec.Lang.
From CG Require Import Proofs.RxLang Proofs.Glushkov Proofs.SubsetStmt Proofs.SubsetConstr.
From CG Require Import Proofs.LangJudge Proofs.C02Lang.
From CG Require Import Model.Minimize Spec.DfaEquiv Spec.MinimizeSpec.
From CG Require Import Proofs.Useful Proofs.RegexFuel Proofs.SubsetFuel Proofs.TreeFacts Proofs.CheckTree.
From CG Require Import Proofs.WfTrim Proofs.C02Total Proofs.RegexNoPanic Proofs.C02Final Proofs.DistributeLits.

(** (a) L-glushkov for the model's tables: for the tree [t] of an expression (n-ary [Cat] with the
    skip-nullable loop, [Or], [Many1 x = Cat [x; Star x]] sharing [x]) and its end marker [e], a
    position word is in the language iff its head is in [firstpos], consecutive pairs are in
    [followpos], and the end marker follows its last position (empty word: the end marker is in
    [firstpos]). *)
Theorem C02_glushkov :
  forall t e, shape t -> ~ In e (positions t) ->
  forall w, Lrx t w <-> glushkov_word (with_end t e) e w.
Proof. exact glushkov_root. Qed.
Check C02_glushkov :
  forall t e, shape t -> ~ In e (positions t) ->
  forall w, Lrx t w <-> glushkov_word (with_end t e) e w.
Print Assumptions C02_glushkov.

(** (b) L-subset: for EVERY pop order [pick], the model of [dfa_from_regex] returns a deterministic
    automaton whose state after an input-id word is the set of positions that may come next;
    accepting = contains the end marker; every state is reachable. *)
Theorem C02_subset :
  forall pick fuel submap r d states labels,
    dfa_from_regex pick fuel submap r = Ok (d, states) ->
    omap (from_input submap) (r_inputs r) = Ok labels ->
    let reach := reach_from labels (regex_follow r) (intern_all labels) (regex_first r) in
    d_inputs d = intern_all labels /\
    NoDup (map fst (d_trans d)) /\
    Forall (fun row => NoDup (map fst (snd row))) (d_trans d) /\
    NoDup (map fst states) /\ NoDup (map snd states) /\
    (forall ids, match run d (d_start d) ids with
                 | Some s => In (reach ids, s) states
                 | None => reach ids = []
                 end) /\
    (forall ids, accepts d ids = true <-> In (r_end r) (reach ids)) /\
    (forall S s, In (S, s) states -> exists ids, run d (d_start d) ids = Some s) /\
    (forall s, In s (map fst (d_trans d)) <-> In s (map snd states)).
Proof. exact subset_run. Qed.
Check C02_subset :
  forall pick fuel submap r d states labels,
    dfa_from_regex pick fuel submap r = Ok (d, states) ->
    omap (from_input submap) (r_inputs r) = Ok labels ->
    let reach := reach_from labels (regex_follow r) (intern_all labels) (regex_first r) in
    d_inputs d = intern_all labels /\
    NoDup (map fst (d_trans d)) /\
    Forall (fun row => NoDup (map fst (snd row))) (d_trans d) /\
    NoDup (map fst states) /\ NoDup (map snd states) /\
    (forall ids, match run d (d_start d) ids with
                 | Some s => In (reach ids, s) states
                 | None => reach ids = []
                 end) /\
    (forall ids, accepts d ids = true <-> In (r_end r) (reach ids)) /\
    (forall S s, In (S, s) states -> exists ids, run d (d_start d) ids = Some s) /\
    (forall s, In s (map fst (d_trans d)) <-> In s (map snd states)).
Print Assumptions C02_subset.

(** ... hence its language over input ids is the image of the table language of the regex. *)
Theorem C02_subset_language :
  forall pick fuel submap r d states labels,
    dfa_from_regex pick fuel submap r = Ok (d, states) ->
    omap (from_input submap) (r_inputs r) = Ok labels ->
    forall ids,
      accepts d ids = true <->
      exists ps,
        Forall2 (fun p i => exists x, nthN labels p = Some x /\ nthN (d_inputs d) i = Some x) ps ids /\
        glushkov_word (r_tree r) (r_end r) ps.
Proof. exact subset_language. Qed.
Check C02_subset_language :
  forall pick fuel submap r d states labels,
    dfa_from_regex pick fuel submap r = Ok (d, states) ->
    omap (from_input submap) (r_inputs r) = Ok labels ->
    forall ids,
      accepts d ids = true <->
      exists ps,
        Forall2 (fun p i => exists x, nthN labels p = Some x /\ nthN (d_inputs d) i = Some x) ps ids /\
        glushkov_word (r_tree r) (r_end r) ps.
Print Assumptions C02_subset_language.

(** The judge run on the implementation's automata is sound: [Equal] means the automaton and its
    within-word automata accept exactly the item words the validated tree denotes ... *)
Theorem C02_judge_sound :
  forall fuel cd e, equiv_dfa_expr fuel cd e = Equal ->
  forall w, accepts_items cd w <-> denotes e w.
Proof. exact judge_sound. Qed.
Check C02_judge_sound :
  forall fuel cd e, equiv_dfa_expr fuel cd e = Equal ->
  forall w, accepts_items cd w <-> denotes e w.
Print Assumptions C02_judge_sound.

(** ... and a returned word really distinguishes (each letter read as the item it stands for). *)
Theorem C02_judge_differ :
  forall fuel cd e v, equiv_dfa_expr fuel cd e = Differ v ->
  let w := map (sem (sources cd e)) v in
  ~ (accepts_items cd w <-> denotes e w).
Proof. exact judge_differ. Qed.
Check C02_judge_differ :
  forall fuel cd e v, equiv_dfa_expr fuel cd e = Differ v ->
  let w := map (sem (sources cd e)) v in
  ~ (accepts_items cd w <-> denotes e w).
Print Assumptions C02_judge_differ.

(** The same for a within-word automaton against a within-word expression. *)
Theorem C02_wjudge_sound :
  forall fuel d c, equiv_wdfa_expr fuel d c = Equal -> forall v, waccepts d v <-> wdenotes c v.
Proof. exact wjudge_sound. Qed.
Check C02_wjudge_sound :
  forall fuel d c, equiv_wdfa_expr fuel d c = Equal -> forall v, waccepts d v <-> wdenotes c v.
Print Assumptions C02_wjudge_sound.

Theorem C02_wjudge_differ :
  forall fuel d c v, equiv_wdfa_expr fuel d c = Differ v -> ~ (waccepts d v <-> wdenotes c v).
Proof. exact wjudge_differ. Qed.
Check C02_wjudge_differ :
  forall fuel d c v, equiv_wdfa_expr fuel d c = Differ v -> ~ (waccepts d v <-> wdenotes c v).
Print Assumptions C02_wjudge_differ.

(** (c) The model pipeline, inside a word: for every pop order and oracle, the raw automaton of a
    within-word expression accepts exactly what the expression denotes. *)
Theorem C02_subwords :
  forall pick fuel submap c pl r pl1 d states,
    from_expr c pl = Ok (r, pl1) ->
    dfa_from_regex pick fuel submap r = Ok (d, states) ->
    forall v, waccepts d v <-> wdenotes c v.
Proof. exact C02_subwords_model. Qed.
Check C02_subwords :
  forall pick fuel submap c pl r pl1 d states,
    from_expr c pl = Ok (r, pl1) ->
    dfa_from_regex pick fuel submap r = Ok (d, states) ->
    forall v, waccepts d v <-> wdenotes c v.
Print Assumptions C02_subwords.

(** (c) The model pipeline, on the command line: for every pop order [pick] and every oracle
    [submap] whose within-word automata accept the table languages of their within-word regexes
    ([subs_ok]: that is [C02_subwords] followed by minimisation, C03), the raw automaton compiled
    from a validated tree accepts exactly the item words the tree denotes. *)
Theorem C02_language :
  forall pick fuel submap e r pl d states subs,
    from_expr e [] = Ok (r, pl) ->
    dfa_from_regex pick fuel submap r = Ok (d, states) ->
    subs_ok submap pl (mkcdfa d subs) ->
    forall w, accepts_items (mkcdfa d subs) w <-> denotes e w.
Proof. exact C02_language_model. Qed.
Check C02_language :
  forall pick fuel submap e r pl d states subs,
    from_expr e [] = Ok (r, pl) ->
    dfa_from_regex pick fuel submap r = Ok (d, states) ->
    subs_ok submap pl (mkcdfa d subs) ->
    forall w, accepts_items (mkcdfa d subs) w <-> denotes e w.
Print Assumptions C02_language.

(** From the checker's output, through the ambiguity check. *)
Theorem C02_language_from_grammar :
  forall builtins g sh v pick fuel submap r pl d states subs,
    from_grammar builtins g sh = Ok v ->
    from_valid_expr (v_expr v) = Ok (r, pl) ->
    dfa_from_regex pick fuel submap r = Ok (d, states) ->
    subs_ok submap pl (mkcdfa d subs) ->
    forall w, accepts_items (mkcdfa d subs) w <-> denotes (v_expr v) w.
Proof. exact C02_language_checked. Qed.
Check C02_language_from_grammar :
  forall builtins g sh v pick fuel submap r pl d states subs,
    from_grammar builtins g sh = Ok v ->
    from_valid_expr (v_expr v) = Ok (r, pl) ->
    dfa_from_regex pick fuel submap r = Ok (d, states) ->
    subs_ok submap pl (mkcdfa d subs) ->
    forall w, accepts_items (mkcdfa d subs) w <-> denotes (v_expr v) w.
Print Assumptions C02_language_from_grammar.

(** Any automaton with the same inputs and the same accepted input-id words (the minimised one,
    once C03 is proved for the model of [minimize]) denotes the same. *)
Theorem C02_minimised_transfer :
  forall pick fuel submap e r pl d states subs d',
    from_expr e [] = Ok (r, pl) ->
    dfa_from_regex pick fuel submap r = Ok (d, states) ->
    subs_ok submap pl (mkcdfa d subs) ->
    d_inputs d' = d_inputs d -> (forall ids, accepts d' ids = accepts d ids) ->
    forall w, accepts_items (mkcdfa d' subs) w <-> denotes e w.
Proof. exact C02_language_transfer. Qed.
Check C02_minimised_transfer :
  forall pick fuel submap e r pl d states subs d',
    from_expr e [] = Ok (r, pl) ->
    dfa_from_regex pick fuel submap r = Ok (d, states) ->
    subs_ok submap pl (mkcdfa d subs) ->
    d_inputs d' = d_inputs d -> (forall ids, accepts d' ids = accepts d ids) ->
    forall w, accepts_items (mkcdfa d' subs) w <-> denotes e w.
Print Assumptions C02_minimised_transfer.

(** How the hypothesis [subs_ok] of [C02_language] is discharged: it holds when the within-word
    automata are the raw automata the model builds for the within-word regexes the oracle names,
    and it survives replacing each of them by an automaton with the same within-word language. *)
Theorem C02_subs_ok_raw :
  forall submap pl cd,
    (forall rid k, assocN rid submap = Some k ->
       exists rr pick fuel sm states,
         nthN pl rid = Some rr /\ dfa_from_regex pick fuel sm rr = Ok (sub_dfa cd k, states)) ->
    subs_ok submap pl cd.
Proof. exact subs_ok_raw. Qed.
Check C02_subs_ok_raw :
  forall submap pl cd,
    (forall rid k, assocN rid submap = Some k ->
       exists rr pick fuel sm states,
         nthN pl rid = Some rr /\ dfa_from_regex pick fuel sm rr = Ok (sub_dfa cd k, states)) ->
    subs_ok submap pl cd.
Print Assumptions C02_subs_ok_raw.

Theorem C02_subs_ok_equiv :
  forall submap pl d subs subs',
    subs_ok submap pl (mkcdfa d subs) ->
    (forall k v, waccepts (sub_dfa (mkcdfa d subs') k) v <-> waccepts (sub_dfa (mkcdfa d subs) k) v) ->
    forall d', subs_ok submap pl (mkcdfa d' subs').
Proof. exact subs_ok_equiv. Qed.
Check C02_subs_ok_equiv :
  forall submap pl d subs subs',
    subs_ok submap pl (mkcdfa d subs) ->
    (forall k v, waccepts (sub_dfa (mkcdfa d subs') k) v <-> waccepts (sub_dfa (mkcdfa d subs) k) v) ->
    forall d', subs_ok submap pl (mkcdfa d' subs').
Print Assumptions C02_subs_ok_equiv.

(** *** The link to C03, totality, and the minimised automata *)

(** What the checker guarantees about the tree it returns: no distributive description is left,
    composite words are flat, every leaf carries the index of the innermost || branch it sits in,
    and (when the source has no empty | or ||, which the parser guarantees) neither has the tree. *)
Theorem C02_check_tree :
  forall builtins g sh v, from_grammar builtins g sh = Ok v ->
    dd_free (v_expr v) = true /\
    flat_subwords (v_expr v) = true /\
    levels_ok 0 (v_expr v) = true /\
    (grammar_alts_nonempty g = true -> alts_nonempty (v_expr v) = true).
Proof. exact check_tree. Qed.
Check C02_check_tree :
  forall builtins g sh v, from_grammar builtins g sh = Ok v ->
    dd_free (v_expr v) = true /\
    flat_subwords (v_expr v) = true /\
    levels_ok 0 (v_expr v) = true /\
    (grammar_alts_nonempty g = true -> alts_nonempty (v_expr v) = true).
Print Assumptions C02_check_tree.

(** Descriptions through the checker's distribution pass: literals keep their order and texts, a
    literal keeps the description written on it, and a literal without one receives nothing, or a
    description written behind an enclosing expression: none is invented, none is moved off its
    literal. *)
Theorem C02_distribute_lits :
  forall e, Forall2 (lit_ok None (dd_descrs e)) (lits e) (lits (distribute_descriptions e)).
Proof. exact distribute_descriptions_lits. Qed.
Check C02_distribute_lits :
  forall e, Forall2 (lit_ok None (dd_descrs e)) (lits e) (lits (distribute_descriptions e)).
Print Assumptions C02_distribute_lits.

(** Every position is useful: from each one a chain of followpos edges leads to the end marker. *)
Theorem C02_useful_positions :
  forall t e, shape t -> ors_nonempty t = true -> ~ In e (positions t) ->
    firstpos (with_end t e) <> [] /\
    forall p, In p (positions t) ->
      exists r, chain (followpos (with_end t e)) p r /\
                In (last r p, e) (followpos (with_end t e)).
Proof. exact useful_positions. Qed.
Check C02_useful_positions :
  forall t e, shape t -> ors_nonempty t = true -> ~ In e (positions t) ->
    firstpos (with_end t e) <> [] /\
    forall p, In p (positions t) ->
      exists r, chain (followpos (with_end t e)) p r /\
                In (last r p, e) (followpos (with_end t e)).
Print Assumptions C02_useful_positions.

(** The hypotheses of the C03 theorems hold for every raw automaton the model compiles (main or
    within-word; [pl0] is the pool so far): for every pop order. *)
Theorem C03_wf_from_regex :
  forall pick fuel submap e pl0 r pl d states,
    alts_nonempty e = true -> Forall regex_good pl0 ->
    from_expr e pl0 = Ok (r, pl) ->
    dfa_from_regex pick fuel submap r = Ok (d, states) ->
    wf d /\ trim d.
Proof. exact wf_trim_from_regex. Qed.
Check C03_wf_from_regex :
  forall pick fuel submap e pl0 r pl d states,
    alts_nonempty e = true -> Forall regex_good pl0 ->
    from_expr e pl0 = Ok (r, pl) ->
    dfa_from_regex pick fuel submap r = Ok (d, states) ->
    wf d /\ trim d.
Print Assumptions C03_wf_from_regex.

(** C02 after minimisation, including the nested automata: when every within-word automaton is
    the minimised raw automaton of the pool regex the oracle names ([subs_minimised]), the
    minimised main automaton accepts exactly the item words the tree denotes. *)
Theorem C02_minimised :
  forall pick fuel submap e r pl d states subs m,
    alts_nonempty e = true ->
    from_expr e [] = Ok (r, pl) ->
    dfa_from_regex pick fuel submap r = Ok (d, states) ->
    subs_minimised submap pl subs ->
    minimize d = Ok m ->
    forall w, accepts_items (mkcdfa m subs) w <-> denotes e w.
Proof. exact C02_minimised_model. Qed.
Check C02_minimised :
  forall pick fuel submap e r pl d states subs m,
    alts_nonempty e = true ->
    from_expr e [] = Ok (r, pl) ->
    dfa_from_regex pick fuel submap r = Ok (d, states) ->
    subs_minimised submap pl subs ->
    minimize d = Ok m ->
    forall w, accepts_items (mkcdfa m subs) w <-> denotes e w.
Print Assumptions C02_minimised.

(** Fuel adequacy: the ambiguity walks never run out of [regex_fuel]; the subset construction
    never runs out of any fuel above [2^(n+1)] when the tables mention positions up to [n] only. *)
Theorem C02_fuel_check_ambiguities : forall r pl, check_ambiguities r pl <> OutOfFuel.
Proof. exact check_ambiguities_fuel. Qed.
Check C02_fuel_check_ambiguities : forall r pl, check_ambiguities r pl <> OutOfFuel.
Print Assumptions C02_fuel_check_ambiguities.

Theorem C02_fuel_subset :
  forall pick fuel submap r n,
    tables_bounded r (N.of_nat n) -> (pow2 (S n) < fuel)%nat ->
    dfa_from_regex pick fuel submap r <> OutOfFuel.
Proof. exact dfa_from_regex_fuel. Qed.
Check C02_fuel_subset :
  forall pick fuel submap r n,
    tables_bounded r (N.of_nat n) -> (pow2 (S n) < fuel)%nat ->
    dfa_from_regex pick fuel submap r <> OutOfFuel.
Print Assumptions C02_fuel_subset.

Theorem C02_check_ambiguities_result :
  forall e r pl, flat_subwords e = true -> from_expr e [] = Ok (r, pl) ->
    check_ambiguities r pl = Ok tt \/
    exists a b, check_ambiguities r pl = Err (UnboundedMatchable a b).
Proof. exact check_ambiguities_result. Qed.
Check C02_check_ambiguities_result :
  forall e r pl, flat_subwords e = true -> from_expr e [] = Ok (r, pl) ->
    check_ambiguities r pl = Ok tt \/
    exists a b, check_ambiguities r pl = Err (UnboundedMatchable a b).
Print Assumptions C02_check_ambiguities_result.

(** Totality, from the checker's output: the regex is built (no panic), the ambiguity check
    returns [Ok] or the [UnboundedMatchable] diagnostic (no panic, no fuel exhaustion), and for every pop order, every oracle defined on the within-word regexes
    that occur and every fuel above [2^(positions+1)] the raw automaton exists, satisfies C03's
    hypotheses, its minimisation exists and is the trim minimal automaton of the same language,
    and with minimised within-word automata it accepts exactly what the tree denotes. *)
Theorem C02_total :
  forall builtins g sh v,
    from_grammar builtins g sh = Ok v -> grammar_alts_nonempty g = true ->
    exists r pl,
      from_expr (v_expr v) [] = Ok (r, pl) /\
      (check_ambiguities r pl = Ok tt \/
       exists a b, check_ambiguities r pl = Err (UnboundedMatchable a b)) /\
      forall pick fuel submap,
        (forall rid l sp, In (RSub rid l sp) (r_inputs r) -> assocN rid submap <> None) ->
        (pow2 (S (List.length (r_inputs r))) < fuel)%nat ->
        exists d states m,
          dfa_from_regex pick fuel submap r = Ok (d, states) /\
          wf d /\ trim d /\
          minimize d = Ok m /\
          (forall ids, accepts m ids = accepts d ids) /\
          trim m /\ pairwise_distinguishable m /\ minimal_size m /\
          forall subs, subs_minimised submap pl subs ->
            forall w, accepts_items (mkcdfa m subs) w <-> denotes (v_expr v) w.
Proof. exact C02_total_full. Qed.
Check C02_total :
  forall builtins g sh v,
    from_grammar builtins g sh = Ok v -> grammar_alts_nonempty g = true ->
    exists r pl,
      from_expr (v_expr v) [] = Ok (r, pl) /\
      (check_ambiguities r pl = Ok tt \/
       exists a b, check_ambiguities r pl = Err (UnboundedMatchable a b)) /\
      forall pick fuel submap,
        (forall rid l sp, In (RSub rid l sp) (r_inputs r) -> assocN rid submap <> None) ->
        (pow2 (S (List.length (r_inputs r))) < fuel)%nat ->
        exists d states m,
          dfa_from_regex pick fuel submap r = Ok (d, states) /\
          wf d /\ trim d /\
          minimize d = Ok m /\
          (forall ids, accepts m ids = accepts d ids) /\
          trim m /\ pairwise_distinguishable m /\ minimal_size m /\
          forall subs, subs_minimised submap pl subs ->
            forall w, accepts_items (mkcdfa m subs) w <-> denotes (v_expr v) w.
Print Assumptions C02_total.

(** Non-vacuity: [--o=(x|y) [b "d" || c]...] -- a composite word, a description, a || level, an
    option and a repetition.  The model compiles it (two pop orders), the within-word automaton
    the model builds satisfies [subs_ok], and the judge says [Equal] on the result. *)
Definition ex_sp := mkspan 1 1 2.
Definition ex_word : expr :=
  Sequence [Terminal "--o=" None 0 ex_sp;
            Alternative [Terminal "x" None 0 ex_sp; Terminal "y" None 0 ex_sp] ex_sp] ex_sp.
Definition ex_e : expr :=
  Sequence [Subword ex_word 0 ex_sp;
            Optional (Many1 (Fallback [Terminal "b" (Some "d") 0 ex_sp; Terminal "c" None 1 ex_sp] ex_sp)
                            ex_sp) ex_sp] ex_sp.

Example ex_C02_inhabited :
  exists r pl rr dsub sstates d states,
    from_expr ex_e [] = Ok (r, pl) /\
    nthN pl 0 = Some rr /\
    dfa_from_regex pick_last 50 [] rr = Ok (dsub, sstates) /\
    dfa_from_regex pick_first 50 [(0, 0)] r = Ok (d, states) /\
    List.length states = 2%nat /\ List.length sstates = 3%nat /\
    subs_ok [(0, 0)] pl (mkcdfa d [dsub]) /\
    equiv_dfa_expr (pow2 10) (mkcdfa d [dsub]) ex_e = Equal /\
    equiv_wdfa_expr (pow2 10) dsub ex_word = Equal.
Proof.
  do 7 eexists.
  split; [vm_compute; reflexivity|].
  split; [vm_compute; reflexivity|].
  split; [vm_compute; reflexivity|].
  split; [vm_compute; reflexivity|].
  split; [reflexivity|]. split; [reflexivity|].
  split.
  - intros rid k H v. simpl in H.
    destruct (N.eqb rid 0) eqn:E; [|discriminate]. inversion H; subst k.
    apply N.eqb_eq in E. subst rid.
    match goal with
    | |- waccepts ?d v <-> pool_wlang ?pl 0 v =>
        let rr := eval vm_compute in (nthN pl 0) in
        match rr with
        | Some ?x =>
            transitivity (regex_wlang x v);
            [ eapply (waccepts_regex_wlang pick_last 50%nat [] x d); vm_compute; reflexivity
            | unfold pool_wlang; split;
              [ intros Hx; eexists; split; [vm_compute; reflexivity|exact Hx]
              | intros [y [Hy Hx]]; vm_compute in Hy; inversion Hy; subst; exact Hx ] ]
        end
    end.
  - split; vm_compute; reflexivity.
Qed.
Print Assumptions ex_C02_inhabited.
