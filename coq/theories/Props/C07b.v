(** C07 on whole scripts -- "grammar text reaches the shell verbatim and inert": in the WHOLE emitted
    zsh and fish scripts, the literal list of the completion function and every description constant
    read back -- by the shell's own double-quote rules (Spec/ShellDQ.v, through the statement reader of
    Spec/ScriptRead.v) -- to exactly the texts of the tables, for ALL texts (no admissibility
    hypothesis: C07_zsh_total, C07_fish_total).  That the tables carry the grammar's texts is C04
    ([C04_literal_list]).  Statements only; proofs in Proofs/ZshScript.v and Proofs/FishScript.v
    (corollaries of C04_embed_zsh / C04_embed_fish). *)
From CG Require Import Base.Prelude Model.Ast Model.Dfa Model.Tpl Model.Quote Model.Tables Model.EmitBash Model.EmitData
     Model.EmitZsh Model.EmitFish Spec.ShellDQ Spec.ScriptRead Proofs.BashScript Proofs.ScriptGen
     Proofs.ZshScript Proofs.FishScript.
Open Scope N_scope.
Open Scope list_scope.

Theorem C07_zsh_script_constants :
  forall (command sig : string) (start : N) (nd : needs) (a : alltables) (groups : list (list N)) (s : string),
    name_ok command -> no_nl sig = true ->
    Forall (fun c : string => body_okG Zsh c) (a_commands a) ->
    EmitZsh.script command sig start nd a groups = Ok s ->
    In (SLits "literals" (map (fun l : N * string * string => snd (fst l)) (t_literals (a_main a)))) (read_stmts Zsh command s)
    /\ forall (k : N) (d : string), In (k, d) (number_from 0 (descr_set (t_literals (a_main a)))) ->
                                    In (SStr "descriptions" k d) (read_stmts Zsh command s).
Proof. exact zsh_script_constants. Qed.
Check C07_zsh_script_constants :
  forall (command sig : string) (start : N) (nd : needs) (a : alltables) (groups : list (list N)) (s : string),
    name_ok command -> no_nl sig = true ->
    Forall (fun c : string => body_okG Zsh c) (a_commands a) ->
    EmitZsh.script command sig start nd a groups = Ok s ->
    In (SLits "literals" (map (fun l : N * string * string => snd (fst l)) (t_literals (a_main a)))) (read_stmts Zsh command s)
    /\ forall (k : N) (d : string), In (k, d) (number_from 0 (descr_set (t_literals (a_main a)))) ->
                                    In (SStr "descriptions" k d) (read_stmts Zsh command s).
Print Assumptions C07_zsh_script_constants.

Theorem C07_fish_script_constants :
  forall (command sig : string) (start : N) (nd : needs) (a : alltables) (groups : list (list N)) (s : string),
    fname_ok command -> no_nl sig = true ->
    Forall (fun c : string => body_okG Fish c) (a_commands a) ->
    EmitFish.script command sig start nd a groups = Ok s ->
    In (SSet "literals" None (map (fun l : N * string * string => IStr (snd (fst l))) (t_literals (a_main a)))) (read_stmts Fish command s)
    /\ forall (k : N) (d : string), In (k, d) (number_from 0 (descr_set (t_literals (a_main a)))) ->
                                    In (SSet "descrs" (Some (k + 1)) [IStr d]) (read_stmts Fish command s).
Proof. exact fish_script_constants. Qed.
Check C07_fish_script_constants :
  forall (command sig : string) (start : N) (nd : needs) (a : alltables) (groups : list (list N)) (s : string),
    fname_ok command -> no_nl sig = true ->
    Forall (fun c : string => body_okG Fish c) (a_commands a) ->
    EmitFish.script command sig start nd a groups = Ok s ->
    In (SSet "literals" None (map (fun l : N * string * string => IStr (snd (fst l))) (t_literals (a_main a)))) (read_stmts Fish command s)
    /\ forall (k : N) (d : string), In (k, d) (number_from 0 (descr_set (t_literals (a_main a)))) ->
                                    In (SSet "descrs" (Some (k + 1)) [IStr d]) (read_stmts Fish command s).
Print Assumptions C07_fish_script_constants.

(** the hypotheses are inhabited and the statements compute: a grammar whose literal and descriptions
    contain double quotes, backslashes, dollars and backticks *)
Definition exq_lit : string := "a""b\c$d`e".
Definition exq_d1 : string := "say ""hi"" \ $HOME `id`".
Definition exq_d2 : string := "$(rm -rf /) \"" ``".
Definition exq_cdfa : cdfa :=
  mkcdfa (mkdfa 0 [(0, [(0, 1); (1, 1)])] [1] [ILit exq_lit (Some exq_d1) 0; ILit "plain" (Some exq_d2) 0]) [].
Definition exq_om : list (string * string) := [(exq_lit, exq_d1); ("plain", exq_d2)].

Example ex_C07_zsh_script_constants :
  match EmitZsh.script_of_dfa "cmd" "cmd completion script v0" exq_cdfa exq_om [] [] with
  | Ok (s, valid) =>
      valid = true
      /\ flat_map (fun st => match st with SLits "literals" l => [l] | _ => [] end) (read_stmts Zsh "cmd" s) = [[exq_lit; "plain"]]
      /\ flat_map (fun st => match st with SStr "descriptions" k d => [(k, d)] | _ => [] end) (read_stmts Zsh "cmd" s)
         = [(0, exq_d1); (1, exq_d2)]
  | _ => False
  end.
Proof. vm_compute. repeat split. Qed.
Print Assumptions ex_C07_zsh_script_constants.

Example ex_C07_fish_script_constants :
  match EmitFish.script_of_dfa "cmd" "cmd completion script v0" exq_cdfa exq_om [] [] with
  | Ok (s, valid) =>
      valid = true
      /\ flat_map (fun st => match st with SSet "literals" None l => [l] | _ => [] end) (read_stmts Fish "cmd" s)
         = [[IStr exq_lit; IStr "plain"]]
      /\ flat_map (fun st => match st with SSet "descrs" (Some k) l => [(k, l)] | _ => [] end) (read_stmts Fish "cmd" s)
         = [(1, [IStr exq_d1]); (2, [IStr exq_d2])]
  | _ => False
  end.
Proof. vm_compute. repeat split. Qed.
Print Assumptions ex_C07_fish_script_constants.
