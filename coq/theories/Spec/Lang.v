(** Specification for C02: the language an expression tree denotes, over labelled items, and an
    executable judge of an automaton against it.

    Written from the property text: "the automaton accepts exactly the word sequences denoted by
    the grammar once nonterminals are replaced by their definitions, where each expected item
    carries its literal text, the description the grammar attaches to it, and the index of the
    [||] branch it sits in" -- for the main automaton and for the automata used inside words.

    The tree is the validated one (definitions substituted, every leaf labelled with text,
    description and level).  Nothing here depends on positions, first/follow sets or the subset
    construction: [denotes] is an inductive definition, and the judge [equiv_dfa_expr] explores
    the product of the automaton with the partial-derivative automaton of the expression. *)
From CG Require Import Base.Prelude Model.Ast Model.Dfa.

(** *** Items *)

(** What is expected at one place inside a word, or as a whole word when it is not a composite. *)
Inductive witem :=
| WLit (text : string) (descr : option string) (level : N)
| WCmd (cmd : string) (level : N)
| WCompadd (cmd : string) (level : N)
| WStar.                                   (* an undefined nonterminal: any word *)

Definition witem_eqb (a b : witem) : bool :=
  match a, b with
  | WLit t d l, WLit t' d' l' => String.eqb t t' && option_eqb String.eqb d d' && N.eqb l l'
  | WCmd c l, WCmd c' l' => String.eqb c c' && N.eqb l l'
  | WCompadd c l, WCompadd c' l' => String.eqb c c' && N.eqb l l'
  | WStar, WStar => true
  | _, _ => false
  end.

(** An item of the command line: a plain item, or a composite word given by the set of
    within-word item sequences it may consist of, with its level. *)
Inductive item :=
| ILeaf (a : witem)
| IWord (L : list witem -> Prop) (level : N).

Definition item_equiv (x y : item) : Prop :=
  match x, y with
  | ILeaf a, ILeaf b => a = b
  | IWord L l, IWord L' l' => l = l' /\ forall v, L v <-> L' v
  | _, _ => False
  end.

(** *** What an expression denotes *)

Section Den.
  Variable A : Type.
  (** what a leaf (literal, nonterminal, command, composite word) denotes *)
  Variable leaf : expr -> list A -> Prop.

  Definition is_leaf (e : expr) : bool :=
    match e with
    | Terminal _ _ _ _ | NontermRef _ _ _ | Command _ _ _ _ | Subword _ _ _ => true
    | _ => false
    end.

  Inductive den : expr -> list A -> Prop :=
  | D_leaf e w : is_leaf e = true -> leaf e w -> den e w
  | D_seq_nil sp : den (Sequence [] sp) []
  | D_seq_cons c cs sp u v :
      den c u -> den (Sequence cs sp) v -> den (Sequence (c :: cs) sp) (u ++ v)
  | D_alt c cs sp u : In c cs -> den c u -> den (Alternative cs sp) u
  | D_fb c cs sp u : In c cs -> den c u -> den (Fallback cs sp) u
  | D_opt_none c sp : den (Optional c sp) []
  | D_opt_some c sp u : den c u -> den (Optional c sp) u
  | D_many_one c sp u : den c u -> den (Many1 c sp) u
  | D_many_more c sp u v : den c u -> den (Many1 c sp) v -> den (Many1 c sp) (u ++ v).
End Den.

Definition cmd_witem (c : string) (compadd : bool) (l : N) : witem :=
  if compadd then WCompadd c l else WCmd c l.

(** inside a word *)
Definition wleaf (e : expr) (w : list witem) : Prop :=
  match e with
  | Terminal t d l _ => w = [WLit t d l]
  | NontermRef _ _ _ => w = [WStar]
  | Command c z l _ => w = [cmd_witem c z l]
  | _ => False
  end.

Definition wdenotes : expr -> list witem -> Prop := den witem wleaf.

(** on the command line *)
Definition tleaf (e : expr) (w : list item) : Prop :=
  exists it, w = [it] /\
    match e with
    | Terminal t d l _ => item_equiv it (ILeaf (WLit t d l))
    | NontermRef _ _ _ => item_equiv it (ILeaf WStar)
    | Command c z l _ => item_equiv it (ILeaf (cmd_witem c z l))
    | Subword c l _ => item_equiv it (IWord (wdenotes c) l)
    | _ => False
    end.

Definition denotes : expr -> list item -> Prop := den item tleaf.

(** The labels themselves: every leaf of a validated tree carries the index of the innermost
    [||] branch it sits in (0 outside any [||]); a composite word sits where its pieces sit. *)
Fixpoint levels_ok (lvl : N) (e : expr) : bool :=
  match e with
  | Terminal _ _ l _ | NontermRef _ l _ | Command _ _ l _ => N.eqb l lvl
  | Subword c l _ => N.eqb l lvl && levels_ok lvl c
  | Sequence cs _ | Alternative cs _ => forallb (levels_ok lvl) cs
  | Fallback cs _ =>
      (fix go (i : N) (l : list expr) : bool :=
         match l with
         | [] => true
         | c :: r => levels_ok i c && go (N.succ i) r
         end) 0 cs
  | Optional c _ | Many1 c _ | DistDescr c _ _ => levels_ok lvl c
  end.

(** *** What an automaton accepts, in items *)

Definition wlab (x : inp) : option witem :=
  match x with
  | ILit t d l => Some (WLit t d l)
  | ICmd c l => Some (WCmd c l)
  | ICompadd c l => Some (WCompadd c l)
  | IStar => Some WStar
  | ISub _ _ => None
  end.

(** a within-word automaton: words over [witem] *)
Definition waccepts (d : dfa) (v : list witem) : Prop :=
  exists ids, accepts d ids = true /\
    Forall2 (fun i a => exists x, nthN (d_inputs d) i = Some x /\ wlab x = Some a) ids v.

Definition dead_dfa : dfa := mkdfa 0 [] [] [].

Definition sub_dfa (cd : cdfa) (k : N) : dfa := nth (N.to_nat k) (c_subs cd) dead_dfa.

Definition item_of_inp (cd : cdfa) (x : inp) : item :=
  match x with
  | ISub k l => IWord (waccepts (sub_dfa cd k)) l
  | ILit t d l => ILeaf (WLit t d l)
  | ICmd c l => ILeaf (WCmd c l)
  | ICompadd c l => ILeaf (WCompadd c l)
  | IStar => ILeaf WStar
  end.

(** the main automaton with its within-word automata: words over [item] *)
Definition accepts_items (cd : cdfa) (w : list item) : Prop :=
  exists ids, accepts (c_main cd) ids = true /\
    Forall2 (fun i it => exists x, nthN (d_inputs (c_main cd)) i = Some x /\
                                   item_equiv (item_of_inp cd x) it) ids w.

(** *** Regular expressions over concrete letters and their partial derivatives *)

Section Re.
  Variable B : Type.
  Variable eqB : B -> B -> bool.

  Inductive re :=
  | Emp | Eps | Sym (b : B) | Cat (r s : re) | Alt (r s : re) | Plus (r : re).

  Inductive Lre : re -> list B -> Prop :=
  | L_eps : Lre Eps []
  | L_sym b : Lre (Sym b) [b]
  | L_cat r s u v : Lre r u -> Lre s v -> Lre (Cat r s) (u ++ v)
  | L_altl r s u : Lre r u -> Lre (Alt r s) u
  | L_altr r s u : Lre s u -> Lre (Alt r s) u
  | L_plus1 r u : Lre r u -> Lre (Plus r) u
  | L_plusS r u v : Lre r u -> Lre (Plus r) v -> Lre (Plus r) (u ++ v).

  Fixpoint re_eqb (x y : re) : bool :=
    match x, y with
    | Emp, Emp | Eps, Eps => true
    | Sym a, Sym b => eqB a b
    | Cat r s, Cat r' s' | Alt r s, Alt r' s' => re_eqb r r' && re_eqb s s'
    | Plus r, Plus r' => re_eqb r r'
    | _, _ => false
    end.

  Fixpoint nul (r : re) : bool :=
    match r with
    | Emp => false
    | Eps => true
    | Sym _ => false
    | Cat r s => nul r && nul s
    | Alt r s => nul r || nul s
    | Plus r => nul r
    end.

  Definition mkcat (r s : re) : re := match r with Eps => s | _ => Cat r s end.

  (** Antimirov's partial derivatives *)
  Fixpoint pd (a : B) (r : re) : list re :=
    match r with
    | Emp | Eps => []
    | Sym b => if eqB a b then [Eps] else []
    | Alt r s => pd a r ++ pd a s
    | Cat r s => map (fun r' => mkcat r' s) (pd a r) ++ (if nul r then pd a s else [])
    | Plus r => map (fun r' => mkcat r' (Alt Eps (Plus r))) (pd a r)
    end.

  Fixpoint syms (r : re) : list B :=
    match r with
    | Emp | Eps => []
    | Sym b => [b]
    | Cat r s | Alt r s => syms r ++ syms s
    | Plus r => syms r
    end.
End Re.
Arguments Emp {B}.
Arguments Eps {B}.
Arguments Sym {B} b.
Arguments Cat {B} r s.
Arguments Alt {B} r s.
Arguments Plus {B} r.
Arguments Lre {B} r w.

(** *** From expressions to regular expressions, given what leaves become ([None] = give up) *)
Section Tr.
  Variable B : Type.
  Variable trl : expr -> option (re B).

  Fixpoint tr (e : expr) : option (re B) :=
    let seq := fix seq (l : list expr) : option (re B) :=
                 match l with
                 | [] => Some Eps
                 | c :: r => match tr c, seq r with
                             | Some x, Some y => Some (Cat x y)
                             | _, _ => None
                             end
                 end in
    let alt := fix alt (l : list expr) : option (re B) :=
                 match l with
                 | [] => Some Emp
                 | c :: r => match tr c, alt r with
                             | Some x, Some y => Some (Alt x y)
                             | _, _ => None
                             end
                 end in
    match e with
    | Terminal _ _ _ _ | NontermRef _ _ _ | Command _ _ _ _ | Subword _ _ _ => trl e
    | Sequence cs _ => seq cs
    | Alternative cs _ | Fallback cs _ => alt cs
    | Optional c _ => option_map (fun x => Alt Eps x) (tr c)
    | Many1 c _ => option_map Plus (tr c)
    | DistDescr _ _ _ => Some Emp
    end.
End Tr.

(** *** Nondeterministic automata over concrete letters, determinised on the fly *)

Record nfa (B : Type) := mknfa {
  ns : Type;
  n_init : list ns;
  n_delta : ns -> B -> list ns;
  n_fin : ns -> bool;
  n_eqb : ns -> ns -> bool
}.
Arguments ns {B} n.
Arguments n_init {B} n.
Arguments n_delta {B} n s b.
Arguments n_fin {B} n s.
Arguments n_eqb {B} n x y.

Section Nfa.
  Variable B : Type.
  Variable a : nfa B.

  Fixpoint nfa_acc (s : ns a) (w : list B) : Prop :=
    match w with
    | [] => n_fin a s = true
    | b :: r => exists s', In s' (n_delta a s b) /\ nfa_acc s' r
    end.

  Definition nfa_lang (w : list B) : Prop := exists s, In s (n_init a) /\ nfa_acc s w.

  Definition mem_st (s : ns a) (l : list (ns a)) : bool := existsb (n_eqb a s) l.

  Fixpoint dedup (l : list (ns a)) : list (ns a) :=
    match l with
    | [] => []
    | x :: r => if mem_st x r then dedup r else x :: dedup r
    end.

  Definition dstep (q : list (ns a)) (b : B) : list (ns a) :=
    dedup (flat_map (fun s => n_delta a s b) q).

  Definition dfin (q : list (ns a)) : bool := existsb (n_fin a) q.

  Definition incl_b (p q : list (ns a)) : bool := forallb (fun s => mem_st s q) p.

  Definition set_eqb (p q : list (ns a)) : bool := incl_b p q && incl_b q p.
End Nfa.
Arguments nfa_acc {B} a s w.
Arguments nfa_lang {B} a w.
Arguments dstep {B} a q b.
Arguments dfin {B} a q.
Arguments set_eqb {B} a p q.
Arguments dedup {B} a l.

Inductive result (B : Type) :=
| Equal
| Differ (w : list B)
| NoFuel.
Arguments Equal {B}.
Arguments Differ {B} w.
Arguments NoFuel {B}.

(** Breadth-first exploration of the pairs of state sets reachable on the given letters; the
    first pair met that disagrees on acceptance gives a (shortest) distinguishing word. *)
Section Explore.
  Variable B : Type.
  Variables x y : nfa B.
  Variable letters : list B.

  Definition pair_seen (p : list (ns x)) (q : list (ns y))
             (done : list (list (ns x) * list (ns y))) : bool :=
    existsb (fun d => set_eqb x p (fst d) && set_eqb y q (snd d)) done.

  Fixpoint explore (fuel : nat)
           (queue : list (list (ns x) * list (ns y) * list B))
           (done : list (list (ns x) * list (ns y))) : result B :=
    match fuel with
    | O => NoFuel
    | S f =>
        match queue with
        | [] => Equal
        | (p, q, w) :: rest =>
            if pair_seen p q done then explore f rest done
            else if negb (Bool.eqb (dfin x p) (dfin y q)) then Differ (rev w)
            else explore f
                   (rest ++ map (fun b => (dstep x p b, dstep y q b, b :: w)) letters)
                   ((p, q) :: done)
        end
    end.

  Definition equiv_nfa (fuel : nat) : result B :=
    explore fuel [(dedup x (n_init x), dedup y (n_init y), [])] [].
End Explore.
Arguments equiv_nfa {B} x y letters fuel.

(** *** The two kinds of automata that are compared *)

(** An automaton of [Model/Dfa.v], read over letters: [labs] gives the letter of every input id
    ([None]: the transition cannot be taken). *)
Definition ids_with {B} (eqB : B -> B -> bool) (labs : list (option B)) (b : B) : list N :=
  (fix go (l : list (option B)) (i : N) : list N :=
     match l with
     | [] => []
     | Some c :: r => if eqB c b then i :: go r (N.succ i) else go r (N.succ i)
     | None :: r => go r (N.succ i)
     end) labs 0.

Definition dfa_nfa {B} (eqB : B -> B -> bool) (d : dfa) (labs : list (option B)) : nfa B :=
  mknfa B N [d_start d]
        (fun s b => flat_map (fun i => match step d s i with Some t => [t] | None => [] end)
                             (ids_with eqB labs b))
        (is_accepting d) N.eqb.

Definition re_nfa {B} (eqB : B -> B -> bool) (r : re B) : nfa B :=
  mknfa B (re B) [r] (fun s b => pd B eqB b s) (nul B) (re_eqb B eqB).

Definition lab_letters {B} (labs : list (option B)) : list B :=
  flat_map (fun o => match o with Some b => [b] | None => [] end) labs.

(** *** Inside a word *)

Definition wtrl (e : expr) : option (re witem) :=
  match e with
  | Terminal t d l _ => Some (Sym (WLit t d l))
  | NontermRef _ _ _ => Some (Sym WStar)
  | Command c z l _ => Some (Sym (cmd_witem c z l))
  | _ => Some Emp
  end.

Definition wtr (e : expr) : option (re witem) := tr witem wtrl e.

(** a within-word language is given by an automaton or by an expression *)
Inductive src :=
| SD (d : dfa)
| SE (c : expr).

Definition src_lang (s : src) : list witem -> Prop :=
  match s with SD d => waccepts d | SE c => wdenotes c end.

Definition src_nfa (s : src) : option (nfa witem * list witem) :=
  match s with
  | SD d => let labs := map wlab (d_inputs d) in
            Some (dfa_nfa witem_eqb d labs, lab_letters labs)
  | SE c => match wtr c with
            | Some r => Some (re_nfa witem_eqb r, syms witem r)
            | None => None
            end
  end.

Definition equiv_src (fuel : nat) (s t : src) : result witem :=
  match src_nfa s, src_nfa t with
  | Some (x, lx), Some (y, ly) => equiv_nfa x y (lx ++ ly) fuel
  | _, _ => NoFuel
  end.

(** The judge for a within-word automaton. *)
Definition equiv_wdfa_expr (fuel : nat) (d : dfa) (c : expr) : result witem :=
  equiv_src fuel (SD d) (SE c).

(** *** On the command line *)

(** Letters: a composite word is named by the index, in a list of within-word languages, of the
    first one that is equal to it. *)
Inductive tl :=
| TLeaf (a : witem)
| TSub (cls : N) (level : N).

Definition tl_eqb (a b : tl) : bool :=
  match a, b with
  | TLeaf x, TLeaf y => witem_eqb x y
  | TSub c l, TSub c' l' => N.eqb c c' && N.eqb l l'
  | _, _ => false
  end.

Fixpoint class_from (fuel : nat) (srcs : list src) (i : N) (s : src) : option N :=
  match srcs with
  | [] => None
  | t :: rest =>
      match equiv_src fuel t s with
      | Equal => Some i
      | Differ _ => class_from fuel rest (N.succ i) s
      | NoFuel => None
      end
  end.

Definition class_of (fuel : nat) (srcs : list src) (s : src) : option N :=
  class_from fuel srcs 0 s.

(** the composite words of an expression (not looking inside them) *)
Fixpoint sub_exprs (e : expr) : list expr :=
  match e with
  | Subword c _ _ => [c]
  | Terminal _ _ _ _ | NontermRef _ _ _ | Command _ _ _ _ => []
  | Sequence cs _ | Alternative cs _ | Fallback cs _ => flat_map sub_exprs cs
  | Optional c _ | Many1 c _ | DistDescr c _ _ => sub_exprs c
  end.

Definition sources (cd : cdfa) (e : expr) : list src :=
  map SD (c_subs cd) ++ [SD dead_dfa] ++ map SE (sub_exprs e).

Section Top.
  Variable fuel : nat.
  Variable cd : cdfa.
  Variable srcs : list src.

  Definition top_lab (x : inp) : option tl :=
    match x with
    | ISub k l => option_map (fun j => TSub j l) (class_of fuel srcs (SD (sub_dfa cd k)))
    | ILit t d l => Some (TLeaf (WLit t d l))
    | ICmd c l => Some (TLeaf (WCmd c l))
    | ICompadd c l => Some (TLeaf (WCompadd c l))
    | IStar => Some (TLeaf WStar)
    end.

  Definition ttrl (e : expr) : option (re tl) :=
    match e with
    | Terminal t d l _ => Some (Sym (TLeaf (WLit t d l)))
    | NontermRef _ _ _ => Some (Sym (TLeaf WStar))
    | Command c z l _ => Some (Sym (TLeaf (cmd_witem c z l)))
    | Subword c l _ => option_map (fun j => Sym (TSub j l)) (class_of fuel srcs (SE c))
    | _ => Some Emp
    end.
End Top.

Fixpoint all_some {A} (l : list (option A)) : bool :=
  match l with
  | [] => true
  | Some _ :: r => all_some r
  | None :: _ => false
  end.

(** The judge: [Equal] means the automaton (with its within-word automata) accepts exactly what
    the expression denotes; [Differ w] gives a distinguishing word. *)
Definition equiv_dfa_expr (fuel : nat) (cd : cdfa) (e : expr) : result tl :=
  let srcs := sources cd e in
  let labs := map (top_lab fuel cd srcs) (d_inputs (c_main cd)) in
  if all_some labs then
    match tr tl (ttrl fuel srcs) e with
    | Some r => equiv_nfa (dfa_nfa tl_eqb (c_main cd) labs) (re_nfa tl_eqb r)
                          (lab_letters labs ++ syms tl r) fuel
    | None => NoFuel
    end
  else NoFuel.
