(** C09, second half: the candidates of a grammar that are withheld because a strictly earlier level has a candidate
    extending the typed word -- the exception in "every candidate the | grammar offers is also offered by the ||
    grammar whenever no candidate of an earlier branch extends the typed prefix".  Written with Spec/Meaning.v's own
    per-level candidate functions, on its two tiers: [state_cands] (items expected as whole words, levels of the [||]
    branches) and [wcands] (continuations inside one within-word expression, levels of its pieces).
    Executable: extracted for lib/vf/checks/c09.py; the theorems are in Props/C09c.v. *)
From CG Require Import Base.Prelude Model.Ast Spec.Rx Spec.Meaning.

Definition proper_wcands (en : env) (x : rx wleaf) (p : string) : list (N * string) :=
  filter (fun c => negb (String.eqb (snd c) p)) (wcands en x p).

Definition has_lower (l : N) (cs : list (N * string)) : bool := existsb (fun c => N.ltb (fst c) l) cs.

(** the candidates of the expected item [a] that are NOT offered because a strictly earlier level has a
    candidate extending the typed word *)
Definition undercut_item (en : env) (s : state) (p : string) (a : leaf) : list string :=
  let top := state_cands en s p in
  match a with
  | LSub x l =>
    let pw := proper_wcands en x p in
    map snd (filter (fun c => has_lower (fst c) pw || has_lower l top) pw)
  | _ => map snd (filter (fun c => has_lower (fst c) top) (item_cands en a p))
  end.

Definition undercut (e : expr) (en : env) (ws : list string) (p : string) : list string :=
  let s := run en (start e) ws in
  map (strip (e_wordbreaks en) p) (flat_map (undercut_item en s p) (map fst (moves s))).

