(** What C17 prescribes, as an executable function of the emitted tables (top level of the command line; words
    are matched against literals, commands and <any word>; within-word expressions are outside this
    specification: [spec_domain]).

    Written from the property text:
    - the candidates of a command are the text before the first tab of every line of its output;
    - while walking, a literal equal to the word wins; else every command expected at the point is run with
      ("", "") -- in the order bash enumerates them, an oracle ([assoc_of]) -- until one has the word among its
      candidates; else <any word>; else the command line is not matched: return code 1, nothing offered;
    - at the cursor, per fallback level: the expected literals (with a trailing space) and, for every command
      expected there, one run with (typed prefix, ""); what extends the typed prefix is offered; the first level
      that offers anything wins; bash's own word-break stripping ([strip_reply]) is applied;
    - no command is run anywhere else.
    The third component of [spec_walk]'s result says whether the situation of the script's `word_index + 1 ==
    cword` escape arose (the last complete word was refused by a command that has candidates): there the script is
    known to deviate ([C17_refuted_last_word]). *)
From CG Require Import Base.Prelude Model.Dfa Model.Glob Model.BashSem.

Definition spec_candidates (output : string) : list string := map until_tab (complete_lines output).

Definition spec_call (tabs : alltables) (e : env) (cid : N) (a1 a2 : string) (log : list invocation)
  : M (list string * list invocation) :=
  match nthN (a_commands tabs) cid with
  | None => Err ("no command function with id " ++ dec cid)%string
  | Some _ => Ok (spec_candidates (cmd_output e cid), (cid, a1, a2) :: log)
  end.

Definition spec_subword_free (tabs : alltables) : Prop :=
  a_subtrans tabs = [] /\ forall level state, level_row (a_csub tabs) level state = [].

Fixpoint spec_cmd_loop (tabs : alltables) (e : env) (cmds : list (N * N)) (word : string) (last : bool)
         (log : list invocation) : M (option N * list invocation * bool) :=
  match cmds with
  | [] => Ok (None, log, false)
  | (cid, to) :: r =>
    do (cands, log1) <- spec_call tabs e cid EmptyString EmptyString log;
    if existsb (String.eqb word) cands then Ok (Some to, log1, false)
    else
      do (res, log2, esc) <- spec_cmd_loop tabs e r word last log1;
      Ok (res, log2, esc || (last && match cands with [] => false | _ => true end))
  end.

Fixpoint spec_walk (tabs : alltables) (e : env) (state : N) (words : list string) (log : list invocation)
  : M (option N * list invocation * bool) :=
  match words with
  | [] => Ok (Some state, log, false)
  | word :: rest =>
    let T := a_main tabs in
    let last := match rest with [] => true | _ => false end in
    match (match assocN state (t_mlit T) with
           | Some st => top_lit_loop (indexed_from 0 (literal_texts T)) st word
           | None => None
           end) with
    | Some to => spec_walk tabs e to rest log
    | None =>
      do (r, log1, esc) <- match t_mcmd T with
                           | Some ct =>
                             match assocN state ct with
                             | Some row => spec_cmd_loop tabs e (assoc_of row) word last log
                             | None => Ok (None, log, false)
                             end
                           | None => Ok (None, log, false)
                           end;
      match r with
      | Some to => do (r2, log2, esc2) <- spec_walk tabs e to rest log1; Ok (r2, log2, esc || esc2)
      | None =>
        match (match t_mstar T with Some stars => assocN state stars | None => None end) with
        | Some to => do (r2, log2, esc2) <- spec_walk tabs e to rest log1; Ok (r2, log2, esc || esc2)
        | None => Ok (None, log1, esc)
        end
      end
    end
  end.

Fixpoint spec_cmds_level (tabs : alltables) (e : env) (cids : list N) (prefix : string)
         (matches : list string) (log : list invocation) : M (list string * list invocation) :=
  match cids with
  | [] => Ok (matches, log)
  | cid :: r =>
    do (cands, log1) <- spec_call tabs e cid prefix EmptyString log;
    spec_cmds_level tabs e r prefix (matches ++ filter (String.prefix prefix) cands) log1
  end.

Fixpoint spec_levels (n : nat) (level : nat) (tabs : alltables) (e : env) (state : N) (prefix : string)
         (log : list invocation) : M (list string * list invocation) :=
  match n with
  | O => Ok ([], log)
  | S n' =>
    let T := a_main tabs in
    let lits := map (fun id => (literal_at T id ++ " ")%string) (level_row (t_clit T) level state) in
    do (matches, log1) <- match t_ccmd T with
                          | Some cc => spec_cmds_level tabs e (level_row cc level state) prefix
                                                       (filter (String.prefix prefix) lits) log
                          | None => Ok (filter (String.prefix prefix) lits, log)
                          end;
    match matches with
    | [] => spec_levels n' (S level) tabs e state prefix log1
    | _ => do reply <- strip_reply e prefix matches; Ok (reply, log1)
    end
  end.

(** (result, did the escape situation arise) *)
Definition spec_run (start : N) (tabs : alltables) (e : env) (words : list string) (prefix : string)
  : M (result * bool) :=
  do (st, log, esc) <- spec_walk tabs e start words [];
  match st with
  | None => Ok (mkresult 1 [] (rev log), esc)
  | Some state =>
    do (reply, log1) <- spec_levels (S (N.to_nat (t_maxlevel (a_main tabs)))) 0 tabs e state prefix log;
    Ok (mkresult 0 reply (rev log1), esc)
  end.
