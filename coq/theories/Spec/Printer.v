(** Reference printer of grammar trees in .usage syntax, written from the text of property C05
    and the documented syntax (precedence: [||] loosest, then [|], then space-separated sequence,
    then within-word juxtaposition, then postfix [...]; [[ ]] and [( )] group).

    - [txt lay ctx e] is the text of [e] printed in a context of precedence [ctx], with the minimum
      of parentheses, under the *layout* [lay]: an oracle that chooses, at every token boundary
      where the syntax admits blanks, any sequence of blanks / newlines / form feeds / [# comments];
      for every literal, which dots are written [\.] rather than [.]; for every command, the
      white space inside the braces; [=] or [::=]; whether the last statement ends in [;]; and how
      many redundant parentheses surround an item that is not glued to a neighbour.
      Layouts are valid by construction: the printer repairs the three choices the syntax cannot
      take (a comment directly after a token that ends a word would be swallowed by that word; a
      separator between two items cannot be empty; a comment body cannot contain a line feed).
    - [loc c lay ctx e p] is the same tree with every span set to where the printer put the
      construct, when printing starts at position [p]: positions advance per byte exactly as
      nom_locate computes them (line + 1 and column 1 after LF, column + 1 otherwise).  The
      parameter [c] only says what a backslash escape inside a literal does to the position: with
      [repaired] nothing special (these are the true positions, see [Proofs]: the end position is
      [adv_str text p]); with [pinned] it predicts the known defect (property C13).
    - [wf] characterises the printable trees, i.e. the trees the syntax can denote. *)
From CG Require Import Base.Prelude Model.Ast Model.Lexer Model.Parser.

(** *** Layout *)

Inductive wsc := WSp | WTab | WCr | WLf.

Definition wsc_char (w : wsc) : ascii :=
  match w with
  | WSp => ascii_of_N 32 | WTab => ascii_of_N 9 | WCr => ascii_of_N 13 | WLf => ascii_of_N 10
  end.

Inductive blank := BWs (w : wsc) | BFf | BCom (body : string).

Definition gap := list blank.

Definition FF : ascii := ascii_of_N 12.
Definition HASH : ascii := ascii_of_N 35.

Fixpoint no_lf (s : string) : string :=
  match s with
  | EmptyString => EmptyString
  | String c r => if Ascii.eqb c LF then no_lf r else String c (no_lf r)
  end.

Definition blank_text (b : blank) : string :=
  match b with
  | BWs w => String (wsc_char w) EmptyString
  | BFf => String FF EmptyString
  | BCom body => String HASH (append (no_lf body) (String LF EmptyString))
  end.

Fixpoint gap_text (g : gap) : string :=
  match g with
  | [] => EmptyString
  | b :: r => append (blank_text b) (gap_text r)
  end.

(** after a token that may end a word, a comment cannot come first *)
Definition post_gap (g : gap) : gap :=
  match g with
  | BCom _ :: _ => BWs WSp :: g
  | _ => g
  end.

(** between two items at least one blank is needed *)
Definition gap1 (g : gap) : gap :=
  match g with
  | [] => [BWs WSp]
  | _ => post_gap g
  end.

(** white space inside [{{{ }}}] (what [str::trim] removes, ASCII part) *)
Inductive tws := TSp | TTab | TLf | TVt | TFf | TCr.

Definition tws_char (w : tws) : ascii :=
  match w with
  | TSp => ascii_of_N 32 | TTab => ascii_of_N 9 | TLf => ascii_of_N 10
  | TVt => ascii_of_N 11 | TFf => ascii_of_N 12 | TCr => ascii_of_N 13
  end.

Fixpoint tws_text (l : list tws) : string :=
  match l with
  | [] => EmptyString
  | w :: r => String (tws_char w) (tws_text r)
  end.

Record nodelay := mknl {
  nl_gap : nat -> gap;             (* the fixed gap sites of a node, numbered as in [txt] *)
  nl_sep : nat -> gap * gap;       (* before / after the k-th separator of an n-ary node *)
  nl_wrapgap : nat -> gap * gap;   (* inside the j-th pair of redundant parentheses *)
  nl_wrap : nat;                   (* number of redundant parentheses around an item *)
  nl_esc : nat -> bool;            (* literal: write the k-th character, if a dot, as [\.] *)
  nl_ws : nat -> list tws;         (* command: white space after [{{{] (0) and before [}}}] (1) *)
  nl_flag : bool                   (* definition: [::=] rather than [=]; grammar: final [;] *)
}.

(** A layout assigns choices to every node, addressed by its path from the root. *)
Definition layout := list nat -> nodelay.

Definition sub (l : layout) (k : nat) : layout := fun p => l (k :: p).

(** *** Spelling of literals *)

Inductive piece := PReg (c : ascii) | PEsc (c : ascii) | PDot.

Definition piece_text (x : piece) : string :=
  match x with
  | PReg c => String c EmptyString
  | PEsc c => String BACKSLASH (String c EmptyString)
  | PDot => String DOT EmptyString
  end.

Definition piece_char (x : piece) : ascii :=
  match x with PReg c | PEsc c => c | PDot => DOT end.

Fixpoint pieces_text (l : list piece) : string :=
  match l with
  | [] => EmptyString
  | x :: r => append (piece_text x) (pieces_text r)
  end.

Definition is_empty (s : string) : bool :=
  match s with EmptyString => true | _ => false end.

(** [run] = number of plain dots written immediately before; a third one in a row would read as
    the [...] operator, and so would a final plain dot when [...] follows ([guard]). *)
Fixpoint spell_from (pref : nat -> bool) (guard : bool) (k run : nat) (t : string) : list piece :=
  match t with
  | EmptyString => []
  | String ch r =>
      if is_dot ch then
        if pref k || Nat.leb 2 run || (guard && is_empty r)
        then PEsc ch :: spell_from pref guard (S k) 0 r
        else PDot :: spell_from pref guard (S k) (S run) r
      else if is_regular ch then PReg ch :: spell_from pref guard (S k) 0 r
      else PEsc ch :: spell_from pref guard (S k) 0 r
  end.

Definition spell (pref : nat -> bool) (guard : bool) (t : string) : list piece :=
  spell_from pref guard 0 0 t.

(** position after a spelled literal *)
Definition piece_adv (c : cfg) (x : piece) (p : pos) : pos :=
  match x with
  | PReg ch => adv_char ch p
  | PDot => adv_char DOT p
  | PEsc ch =>
      let p1 := adv_char BACKSLASH p in
      let p1 := if reset_after_backslash c then pos0 else p1 in
      let p2 := adv_char ch p1 in
      if reset_after_escaped c then pos0 else p2
  end.

Fixpoint pieces_adv (c : cfg) (l : list piece) (p : pos) : pos :=
  match l with
  | [] => p
  | x :: r => pieces_adv c r (piece_adv c x p)
  end.

(** *** Descriptions *)

Fixpoint descr_body (d : string) : string :=
  match d with
  | EmptyString => EmptyString
  | String c r =>
      if Ascii.eqb c DQUOTE || Ascii.eqb c BACKSLASH
      then String BACKSLASH (String c (descr_body r))
      else String c (descr_body r)
  end.

Definition descr_text (d : string) : string :=
  String DQUOTE (append (descr_body d) (String DQUOTE EmptyString)).

(** *** Expressions *)

Definition prec (e : expr) : nat :=
  match e with
  | Fallback _ _ => 0
  | Alternative _ _ => 1
  | Sequence _ _ => 2
  | DistDescr _ _ _ => 3
  | Subword _ _ _ => 4
  | Many1 _ _ => 5
  | _ => 6
  end.

Definition ends_in_rbrace (s : string) : bool :=
  match srev s with String c _ => Ascii.eqb c (ascii_of_N 125) | EmptyString => false end.

(** white space before [}}}]: needed when the command ends in a brace *)
Definition cmd_ws1 (cmd : string) (w : list tws) : list tws :=
  match w with
  | [] => if ends_in_rbrace cmd then [TSp] else []
  | _ => w
  end.

Definition paren_text (g1 g2 : gap) (body : string) : string :=
  String LPAREN (append (gap_text g1) (append body (append (gap_text (post_gap g2)) (String RPAREN EmptyString)))).

Fixpoint wrap_text (L : nodelay) (j : nat) (body : string) : string :=
  match j with
  | O => body
  | S j' => paren_text (fst (nl_wrapgap L j')) (snd (nl_wrapgap L j')) (wrap_text L j' body)
  end.

Definition wraps (L : nodelay) (ctx : nat) : nat := if Nat.leb ctx 3 then nl_wrap L else 0.

Definition LBRACE3 : string := "{{{".
Definition RBRACE3 : string := "}}}".
Definition DOTS3 : string := "...".

(** Children of an n-ary node: [f k x] prints the k-th child, [sep k] what precedes it (k >= 1). *)
Section Lists.
  Variable f : nat -> expr -> string.
  Variable sep : nat -> string.
  Fixpoint txt_list (k : nat) (l : list expr) : string :=
    match l with
    | [] => EmptyString
    | x :: r => append (match k with O => EmptyString | _ => sep k end) (append (f k x) (txt_list (S k) r))
    end.

  Variable g : nat -> expr -> pos -> expr * pos.
  Variable sepadv : nat -> pos -> pos.
  Fixpoint loc_list (k : nat) (l : list expr) (q : pos) : list expr * pos :=
    match l with
    | [] => ([], q)
    | x :: r =>
        let q0 := match k with O => q | _ => sepadv k q end in
        let '(x', q1) := g k x q0 in
        let '(rs, q2) := loc_list (S k) r q1 in
        (x' :: rs, q2)
    end.
End Lists.

(** Factors of a word.  A factor that starts with a literal must be parenthesised when the factor
    before it was printed as a bare literal without description (the two would lex as one): it is
    printed in context 8 (> every precedence).  [prev] = the previous factor was such a literal. *)
Definition starts_lit (e : expr) : bool :=
  match e with
  | Terminal _ _ _ _ => true
  | Many1 (Terminal _ _ _ _) _ => true
  | _ => false
  end.

Definition is_plain_lit (e : expr) : bool :=
  match e with Terminal _ None _ _ => true | _ => false end.

Definition factor_ctx (prev : bool) (x : expr) : nat := if prev && starts_lit x then 8%nat else 5%nat.
Definition factor_open (cx : nat) (x : expr) : bool := is_plain_lit x && Nat.eqb cx 5.

Section SubLists.
  Variable f : nat -> nat -> expr -> string.
  Fixpoint txt_sub (k : nat) (prev : bool) (l : list expr) : string :=
    match l with
    | [] => EmptyString
    | x :: r =>
        let cx := factor_ctx prev x in
        append (f k cx x) (txt_sub (S k) (factor_open cx x) r)
    end.

  Variable g : nat -> nat -> expr -> pos -> expr * pos.
  Fixpoint loc_sub (k : nat) (prev : bool) (l : list expr) (q : pos) : list expr * pos :=
    match l with
    | [] => ([], q)
    | x :: r =>
        let cx := factor_ctx prev x in
        let '(x', q1) := g k cx x q in
        let '(rs, q2) := loc_sub (S k) (factor_open cx x) r q1 in
        (x' :: rs, q2)
    end.
End SubLists.

(** was the last factor printed as a bare literal without description? *)
Fixpoint sub_last_open (prev : bool) (l : list expr) : bool :=
  match l with
  | [] => prev
  | x :: r => sub_last_open (factor_open (factor_ctx prev x) x) r
  end.

(** does the printed form end in a literal that a following description would attach to? *)
Definition open_end (e : expr) : bool :=
  match e with
  | Terminal _ None _ _ => true
  | Subword (Sequence fs _) _ _ => sub_last_open false fs
  | _ => false
  end.

Definition no_sep (k : nat) : string := EmptyString.
Definition seq_sep (L : nodelay) (k : nat) : string := gap_text (gap1 (fst (nl_sep L k))).
Definition alt_sep (L : nodelay) (k : nat) : string :=
  append (gap_text (post_gap (fst (nl_sep L k)))) (String BAR (gap_text (snd (nl_sep L k)))).
Definition fb_sep (L : nodelay) (k : nat) : string :=
  append (gap_text (post_gap (fst (nl_sep L k)))) (String BAR (String BAR (gap_text (snd (nl_sep L k))))).

Fixpoint txt (lay : layout) (ctx : nat) (e : expr) {struct e} : string :=
  let L := lay [] in
  let body :=
    match e with
    | Terminal t d _ _ =>
        append (pieces_text (spell (nl_esc L) (Nat.leb 6 ctx) t))
               (match d with
                | Some d => append (gap_text (post_gap (nl_gap L 0))) (descr_text d)
                | None => EmptyString
                end)
    | NontermRef n _ _ => String LT (append n (String GT EmptyString))
    | Command c _ _ _ =>
        append LBRACE3 (append (tws_text (nl_ws L 0)) (append c (append (tws_text (cmd_ws1 c (nl_ws L 1))) RBRACE3)))
    | Optional c _ =>
        String LBRACK (append (gap_text (nl_gap L 0))
                         (append (txt (sub lay 0) 0 c)
                            (append (gap_text (post_gap (nl_gap L 1))) (String RBRACK EmptyString))))
    | Many1 c _ =>
        append (txt (sub lay 0) 6 c) (append (gap_text (post_gap (nl_gap L 0))) DOTS3)
    | DistDescr c d _ =>
        append (txt (sub lay 0) (if open_end c then 7 else 4) c)
               (append (gap_text (post_gap (nl_gap L 0))) (descr_text d))
    | Subword r _ _ =>
        match r with
        | Sequence fs _ => txt_sub (fun k cx f => txt (sub (sub lay 0) k) cx f) 0 false fs
        | _ => txt (sub lay 0) 5 r
        end
    | Sequence cs _ => txt_list (fun k x => txt (sub lay k) 3 x) (seq_sep L) 0 cs
    | Alternative cs _ => txt_list (fun k x => txt (sub lay k) 2 x) (alt_sep L) 0 cs
    | Fallback cs _ => txt_list (fun k x => txt (sub lay k) 1 x) (fb_sep L) 0 cs
    end in
  let body := if Nat.ltb (prec e) ctx then paren_text (nl_gap L 2) (nl_gap L 3) body else body in
  wrap_text L (wraps L ctx) body.

(** *** Located trees *)

Definition pspan (p q : pos) : span := mkspan (pline p) (pcol p) (pcol q).

Definition paren_open (g1 : gap) (p : pos) : pos :=
  adv_str (gap_text g1) (adv_char LPAREN p).

Definition paren_close (g2 : gap) (p : pos) : pos :=
  adv_char RPAREN (adv_str (gap_text (post_gap g2)) p).

Fixpoint wrap_open (L : nodelay) (j : nat) (p : pos) : pos :=
  match j with
  | O => p
  | S j' => wrap_open L j' (paren_open (fst (nl_wrapgap L j')) p)
  end.

Fixpoint wrap_close (L : nodelay) (j : nat) (p : pos) : pos :=
  match j with
  | O => p
  | S j' => paren_close (snd (nl_wrapgap L j')) (wrap_close L j' p)
  end.

(** [loc c lay ctx e p] = (the located tree, the position after the text). *)
Fixpoint loc (c : cfg) (lay : layout) (ctx : nat) (e : expr) (p : pos) {struct e} : expr * pos :=
  let L := lay [] in
  let p0 := wrap_open L (wraps L ctx) p in
  let par := Nat.ltb (prec e) ctx in
  let pb := if par then paren_open (nl_gap L 2) p0 else p0 in
  let '(e', pe) :=
    match e with
    | Terminal t d l _ =>
        let p1 := pieces_adv c (spell (nl_esc L) (Nat.leb 6 ctx) t) pb in
        match d with
        | Some dd =>
            let p2 := adv_str (descr_text dd) (adv_str (gap_text (post_gap (nl_gap L 0))) p1) in
            (Terminal t d l (pspan pb p2), p2)
        | None => (Terminal t d l (pspan pb p1), p1)
        end
    | NontermRef n l _ =>
        let p1 := adv_char GT (adv_str n (adv_char LT pb)) in
        (NontermRef n l (pspan pb p1), p1)
    | Command cm z l _ =>
        let p1 := adv_str RBRACE3 (adv_str (tws_text (cmd_ws1 cm (nl_ws L 1)))
                    (adv_str cm (adv_str (tws_text (nl_ws L 0)) (adv_str LBRACE3 pb)))) in
        (Command cm z l (pspan pb p1), p1)
    | Optional ch _ =>
        let p1 := adv_str (gap_text (nl_gap L 0)) (adv_char LBRACK pb) in
        let '(ch', p2) := loc c (sub lay 0) 0 ch p1 in
        let p3 := adv_char RBRACK (adv_str (gap_text (post_gap (nl_gap L 1))) p2) in
        (Optional ch' (pspan pb p3), p3)
    | Many1 ch _ =>
        let '(ch', p1) := loc c (sub lay 0) 6 ch pb in
        let p2 := adv_str DOTS3 (adv_str (gap_text (post_gap (nl_gap L 0))) p1) in
        (Many1 ch' (pspan pb p2), p2)
    | DistDescr ch d _ =>
        let '(ch', p1) := loc c (sub lay 0) (if open_end ch then 7 else 4) ch pb in
        let p2 := adv_str (descr_text d) (adv_str (gap_text (post_gap (nl_gap L 0))) p1) in
        (DistDescr ch' d (pspan pb p2), p2)
    | Subword r l _ =>
        match r with
        | Sequence fs _ =>
            let '(fs', p1) :=
              loc_sub (fun k cx f q => loc c (sub (sub lay 0) k) cx f q) 0 false fs pb in
            (Subword (Sequence fs' (pspan pb p1)) l (pspan pb p1), p1)
        | _ =>
            let '(r', p1) := loc c (sub lay 0) 5 r pb in
            (Subword r' l (pspan pb p1), p1)
        end
    | Sequence cs _ =>
        let '(cs', p1) :=
          loc_list (fun k x q => loc c (sub lay k) 3 x q) (fun k q => adv_str (seq_sep L k) q) 0 cs pb in
        (Sequence cs' (pspan pb p1), p1)
    | Alternative cs _ =>
        let '(cs', p1) :=
          loc_list (fun k x q => loc c (sub lay k) 2 x q) (fun k q => adv_str (alt_sep L k) q) 0 cs pb in
        (Alternative cs' (pspan pb p1), p1)
    | Fallback cs _ =>
        let '(cs', p1) :=
          loc_list (fun k x q => loc c (sub lay k) 1 x q) (fun k q => adv_str (fb_sep L k) q) 0 cs pb in
        (Fallback cs' (pspan pb p1), p1)
    end in
  let pc := if par then paren_close (nl_gap L 3) pe else pe in
  (e', wrap_close L (wraps L ctx) pc).

(** *** Statements and grammars *)

Definition EQ1 : string := "=".
Definition EQ3 : string := "::=".

Definition def_head_text (name : string) (sh : option (string * span)) : string :=
  String LT (append name
              (append (match sh with Some (s, _) => String AT s | None => EmptyString end)
                      (String GT EmptyString))).

(** [last] = this is the last statement and the layout drops its [;] *)
Definition stmt_txt (lay : layout) (nosemi : bool) (s : statement) : string :=
  let L := lay [] in
  let tail g := if nosemi then gap_text (post_gap g)
                else append (gap_text (post_gap g)) (String SEMI (gap_text (nl_gap L 3))) in
  match s with
  | CallVariant name _ e =>
      append (pieces_text (spell (nl_esc L) false name))
             (append (gap_text (gap1 (nl_gap L 0)))
                     (append (txt (sub lay 0) 0 e) (tail (nl_gap L 2))))
  | NontermDef name _ sh rhs =>
      append (def_head_text name sh)
             (append (gap_text (nl_gap L 0))
                (append (if nl_flag L then EQ3 else EQ1)
                   (append (gap_text (nl_gap L 1))
                      (append (txt (sub lay 0) 0 rhs) (tail (nl_gap L 2))))))
  end.

Definition stmt_loc (c : cfg) (lay : layout) (nosemi : bool) (s : statement) (p : pos) : statement * pos :=
  let L := lay [] in
  let tail g q := if nosemi then adv_str (gap_text (post_gap g)) q
                  else adv_str (gap_text (nl_gap L 3)) (adv_char SEMI (adv_str (gap_text (post_gap g)) q)) in
  match s with
  | CallVariant name _ e =>
      let p1 := pieces_adv c (spell (nl_esc L) false name) p in
      let p2 := adv_str (gap_text (gap1 (nl_gap L 0))) p1 in
      let '(e', p3) := loc c (sub lay 0) 0 e p2 in
      (CallVariant name (pspan p p1) e', tail (nl_gap L 2) p3)
  | NontermDef name _ sh rhs =>
      let p1 := adv_str name (adv_char LT p) in
      let '(sh', p2) := match sh with
                        | Some (s, _) =>
                            let q := adv_char AT p1 in
                            let q' := adv_str s q in
                            (Some (s, pspan q q'), q')
                        | None => (None, p1)
                        end in
      let p3 := adv_char GT p2 in
      let p4 := adv_str (gap_text (nl_gap L 1))
                  (adv_str (if nl_flag L then EQ3 else EQ1) (adv_str (gap_text (nl_gap L 0)) p3)) in
      let '(rhs', p5) := loc c (sub lay 0) 0 rhs p4 in
      (NontermDef name (pspan p p3) sh' rhs', tail (nl_gap L 2) p5)
  end.

Fixpoint stmts_txt (lay : layout) (final_semi : bool) (k : nat) (g : grammar) : string :=
  match g with
  | [] => EmptyString
  | s :: r =>
      let nosemi := negb final_semi && match r with [] => true | _ => false end in
      append (stmt_txt (sub lay k) nosemi s) (stmts_txt lay final_semi (S k) r)
  end.

Fixpoint stmts_loc (c : cfg) (lay : layout) (final_semi : bool) (k : nat) (g : grammar) (p : pos) : grammar :=
  match g with
  | [] => []
  | s :: r =>
      let nosemi := negb final_semi && match r with [] => true | _ => false end in
      let '(s', p1) := stmt_loc c (sub lay k) nosemi s p in
      s' :: stmts_loc c lay final_semi (S k) r p1
  end.

(** The text of a grammar under a layout, and the same grammar with the spans the text gives it. *)
Definition text (g : grammar) (lay : layout) : string :=
  append (gap_text (nl_gap (lay []) 0)) (stmts_txt lay (nl_flag (lay [])) 0 g).

Definition located_with (c : cfg) (g : grammar) (lay : layout) : grammar :=
  stmts_loc c lay (nl_flag (lay [])) 0 g (adv_str (gap_text (nl_gap (lay []) 0)) pos0).

Definition located (g : grammar) (lay : layout) : grammar := located_with repaired g lay.

(** *** Erasing spans *)

Definition nospan : span := mkspan 0 0 0.

Fixpoint erase (e : expr) : expr :=
  match e with
  | Terminal t d l _ => Terminal t d l nospan
  | NontermRef n l _ => NontermRef n l nospan
  | Command c z l _ => Command c z l nospan
  | Sequence cs _ => Sequence (map erase cs) nospan
  | Alternative cs _ => Alternative (map erase cs) nospan
  | Optional c _ => Optional (erase c) nospan
  | Many1 c _ => Many1 (erase c) nospan
  | DistDescr c d _ => DistDescr (erase c) d nospan
  | Fallback cs _ => Fallback (map erase cs) nospan
  | Subword r l _ => Subword (erase r) l nospan
  end.

Definition erase_stmt (s : statement) : statement :=
  match s with
  | CallVariant n _ e => CallVariant n nospan (erase e)
  | NontermDef n _ sh rhs =>
      NontermDef n nospan (match sh with Some (s, _) => Some (s, nospan) | None => None end) (erase rhs)
  end.

Definition erase_grammar (g : grammar) : grammar := map erase_stmt g.

(** *** Printable trees *)

Definition lit_char_ok (ch : ascii) : bool := is_regular ch || is_escapable ch.

Fixpoint all_chars (p : ascii -> bool) (s : string) : bool :=
  match s with
  | EmptyString => true
  | String c r => p c && all_chars p r
  end.

(** a literal: not empty, permitted characters only, not starting with [#] (a comment) *)
Definition wf_lit (t : string) : bool :=
  match t with
  | EmptyString => false
  | String c _ => negb (Ascii.eqb c HASH) && all_chars lit_char_ok t
  end.

Definition wf_nt (n : string) : bool :=
  negb (is_empty n) && all_chars (fun c => negb (Ascii.eqb c GT)) n.

Fixpoint has_sub (t s : string) : bool :=
  if starts_with t s then true
  else match s with EmptyString => false | String _ r => has_sub t r end.

(** a command: no [}}}] inside, and nothing [str::trim] would remove at either end *)
Definition wf_cmd (c : string) : bool :=
  negb (has_sub RBRACE3 c) && String.eqb (trim_start c) c && String.eqb (trim_end c) c.

(** [w] = inside a word (where the parser flattens every [Subword] away) *)
Fixpoint wfb (w : bool) (e : expr) {struct e} : bool :=
  match e with
  | Terminal t _ l _ => wf_lit t && N.eqb l 0
  | NontermRef n l _ => wf_nt n && N.eqb l 0
  | Command c z l _ => wf_cmd c && negb z && N.eqb l 0
  | Sequence cs _ => Nat.leb 2 (List.length cs) && forallb (wfb w) cs
  | Alternative cs _ => Nat.leb 2 (List.length cs) && forallb (wfb w) cs
  | Fallback cs _ => Nat.leb 2 (List.length cs) && forallb (wfb w) cs
  | Optional c _ => wfb w c
  | Many1 c _ => wfb w c
  | DistDescr c _ _ => wfb w c
  | Subword r l _ =>
      negb w && N.eqb l 0 &&
      match r with
      | Sequence fs _ => Nat.leb 2 (List.length fs) && forallb (wfb true) fs
      | _ => false
      end
  end.

(** would the head [<name>] of a plain definition read as a specialisation [<n@shell>]?
    (it does when a non-empty part without [@] is followed by [@] and a non-empty rest) *)
Definition spec_like (name : string) : bool :=
  let (a, b) := span_while (fun c => negb (Ascii.eqb c AT)) name in
  negb (is_empty a) && match b with String _ sh => negb (is_empty sh) | EmptyString => false end.

Definition wf_stmt (s : statement) : bool :=
  match s with
  | CallVariant name _ e => wf_lit name && wfb false e
  | NontermDef name _ None rhs =>
      wf_nt name && negb (spec_like name) && wfb false rhs
  | NontermDef name _ (Some (sh, _)) rhs =>
      wf_nt name && all_chars (fun c => negb (Ascii.eqb c AT)) name && wf_nt sh && wfb false rhs
  end.

Definition wf (g : grammar) : Prop := forallb wf_stmt g = true.
