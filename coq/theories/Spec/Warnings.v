(** C15, specification side: which names deserve a warning, written from the property text.

    - undefined: every nonterminal that the call variants use, directly or through (chosen)
      definitions, but nothing defines for the target shell (no [<X@sh>], no plain [<X>], not a
      built-in), except [<_>];
    - unused plain definition: a plain definition whose name no statement refers to;
    - unused definition for the target shell: a [<X@sh>] definition whose name no statement
      refers to. *)
From CG Require Import Base.Prelude Model.Ast Spec.Choice Spec.Mistakes.

(** names referred to by any statement (call variants and right-hand sides of all definitions) *)
Definition referred (g : grammar) : list string :=
  flat_map (fun s => match s with
                     | CallVariant _ _ e => all_refs e
                     | NontermDef _ _ _ rhs => all_refs rhs
                     end) g.

Definition unused_plain (g : grammar) : list string :=
  filter (fun n => negb (mem_str n (referred g))) (plain_names g).

Definition unused_for_shell (g : grammar) (sh : shell) : list string :=
  filter (fun n => negb (mem_str n (referred g))) (shell_names g sh).

(** names reachable from the call variants through the chosen plain definitions *)
Fixpoint reach_refs (g : grammar) (sh : shell) (fuel : nat) (e : expr) : list string :=
  match fuel with
  | O => all_refs e
  | S k =>
      flat_map (fun n => n :: match plain_chosen g sh n with
                              | Some rhs => reach_refs g sh k rhs
                              | None => []
                              end) (all_refs e)
  end.

Definition used_names (g : grammar) (sh : shell) : list string :=
  flat_map (reach_refs g sh (fuel_of g)) (call_exprs g).

Definition undefined (builtins : shell -> list (string * string)) (g : grammar) (sh : shell)
  : list string :=
  filter (fun n => match Choice.spec builtins g sh n with ChAny => true | _ => false end)
         (used_names g sh).

Definition undefined_reported (builtins : shell -> list (string * string)) (g : grammar)
           (sh : shell) : list string :=
  filter (fun n => negb (String.eqb n "_")) (undefined builtins g sh).
