(** Which command lines go through a point where a typed word has two readings (C09's mechanisms),
    decided on the validated tree.  Used by lib/vf/checks/c09.py to attribute a difference between
    the `||` script and the `|` script to a known class of C09 only on the lines that actually meet
    the ambiguity (a grammar that merely contains one somewhere else explains nothing).

    At a point (a set of residuals) the expected items are the first components of [moves].  Two
    items are different readings when they differ as leaves (text, description, level, or the
    within-word expression): those are the inputs the automaton keeps apart.
    - a complete word [w] before the cursor meets the ambiguity when two different items read it
      (literal by text, command by its candidates, within-word expression by [waccepts]), or when
      the item that reads it is a within-word expression with two readings of a piece inside
      ([inner_clash]: the same piece text with two labels, decided by [Domain.explore]);
    - the word under the cursor meets it when the point it is typed at has two items that can read a
      common word at all: two literals with the same text, a literal a within-word expression
      accepts, two within-word expressions that [Domain.wdisjoint] cannot separate, or an item with
      an inner clash. *)
From CG Require Import Base.Prelude Model.Ast Spec.Rx Spec.Meaning Spec.Domain Spec.DomainCore.

Definition reads_word (en : env) (a : leaf) (w : string) : bool :=
  match a with
  | LLit t _ _ => String.eqb t w
  | LAny => false
  | LCmd _ _ | LSub _ _ => mid_accepts en a w
  end.

Definition inner_clash (a : leaf) : bool :=
  match a with
  | LSub x _ => negb (explore wleaf_eqb wsame_item wpoint_core explore_fuel [[x]] [])
  | _ => false
  end.

Definition readers (en : env) (s : state) (w : string) : list leaf :=
  dedup_leaf (map fst (filter (fun ak => reads_word en (fst ak) w) (moves s))).

Definition two_step (en : env) (s : state) (w : string) : bool :=
  match readers en s w with
  | _ :: _ :: _ => true
  | l => existsb inner_clash l
  end.

(** two different items of one point that may read a common word *)
Definition may_clash (en : env) (a b : leaf) : bool :=
  negb (leaf_eqb a b) &&
  match a, b with
  | LLit t _ _, LLit t' _ _ => String.eqb t t'
  | LLit t _ _, LSub x _ | LSub x _, LLit t _ _ => waccepts en x t
  | LSub x _, LSub x' _ => negb (wdisjoint x x')
  | LCmd c _, LCmd c' _ => existsb (fun o => mem_str o (candidates en c')) (candidates en c)
  | LCmd c _, LSub x _ | LSub x _, LCmd c _ => existsb (waccepts en x) (candidates en c)
  | LCmd c _, LLit t _ _ | LLit t _ _, LCmd c _ => mem_str t (candidates en c)
  | LAny, _ | _, LAny => false
  end.

Definition two_point (en : env) (s : state) : bool :=
  let items := dedup_leaf (map fst (moves s)) in
  existsb inner_clash items || negb (all_pairs (fun a b => negb (may_clash en a b)) items).

Fixpoint two_readings (en : env) (s : state) (ws : list string) : bool :=
  match ws with
  | [] => two_point en s
  | w :: r => two_step en s w || two_readings en (step en s w) r
  end.
