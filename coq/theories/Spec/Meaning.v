(** C01, specification side: what a grammar prescribes at a cursor position.

    Written from the text of property C01 and from the README (what [a b], [|], [||], [[]],
    [...], within-word juxtaposition, [<UNDEFINED>], [{{{ }}}] mean), NOT from the compilation
    pipeline: there is no automaton here, only the validated expression tree (definitions
    substituted, every leaf labelled with its description and the index of the enclosing [||]
    branch -- the output of [Model.Check.from_grammar]) and residuals of that expression by
    whole shell words.

    Reading of the property, clause by clause:
    - "the literals, within-word continuations and external-command outputs that may legally come
      next": the leaves of the linear forms ([Rx.lf]) of the residuals reached by the complete words;
    - "a word equal to an expected literal is read as that literal": if some expected literal
      equals the word, only literal leaves are followed ([step], first case);
    - a command leaf accepts a word iff the word is among the command's candidates (text before
      the first tab of each output line); a within-word leaf accepts it iff the word is a
      concatenation of piece texts along an accepting path of the within-word expression
      ([waccepts]);
    - "an undefined <NONTERMINAL> or <_> matches any single word and offers nothing": [LAny]
      leaves are followed when nothing else accepts the word (catch-all last) and contribute no
      candidate;
    - "nothing when the preceding words cannot be matched": [complete] = [None] (exit status 1);
    - "taken from the first || level that has any": [lowest];  inside a word the same rule is
      applied to the levels of the pieces ([wproper]) -- two tiers, as the README describes for
      [--option=(primary || secondary)];
    - "extend the typed prefix": [String.prefix p candidate], where the candidate of a literal
      is its text followed by one space (what is offered is what has to extend the typed word);
    - "bash's own stripping of the typed prefix up to its last word-break character": [strip].

    Two deliberate slacks (DESIGN 6, C01) keep the oracle from demanding more than the text says:
    the answer is a pair (required, allowed); a within-word candidate identical to what is
    already typed is allowed but not required and does not select a level.  Where two different
    non-literal items accept the same word the text imposes no order: [ambiguous_run] tells, and
    the judgement is then withheld (that region belongs to C09). *)
From CG Require Import Base.Prelude Model.Ast Spec.Rx.

(** *** Leaves *)

(** Pieces of a word. *)
Inductive wleaf :=
| WLit (t : string) (d : option string) (lvl : N)
| WCmd (c : string) (lvl : N)
| WAny.

(** Items expected as whole words. *)
Inductive leaf :=
| LLit (t : string) (d : option string) (lvl : N)
| LCmd (c : string) (lvl : N)
| LAny
| LSub (w : rx wleaf) (lvl : N).

Definition wleaf_eqb (a b : wleaf) : bool :=
  match a, b with
  | WLit t d l, WLit t' d' l' => String.eqb t t' && option_eqb String.eqb d d' && N.eqb l l'
  | WCmd c l, WCmd c' l' => String.eqb c c' && N.eqb l l'
  | WAny, WAny => true
  | _, _ => false
  end.

Definition leaf_eqb (a b : leaf) : bool :=
  match a, b with
  | LLit t d l, LLit t' d' l' => String.eqb t t' && option_eqb String.eqb d d' && N.eqb l l'
  | LCmd c l, LCmd c' l' => String.eqb c c' && N.eqb l l'
  | LAny, LAny => true
  | LSub w l, LSub w' l' => rx_eqb wleaf_eqb w w' && N.eqb l l'
  | _, _ => false
  end.

(** *** From the validated tree to an expression over leaves.
    [Sequence] is concatenation, [Alternative] and [Fallback] are both choice ("|| behaves
    exactly like | when matching"), [[e]] is [e] or nothing, [e...] is one or more. *)
Fixpoint trw (e : expr) : rx wleaf :=
  match e with
  | Terminal t d l _ => Leaf (WLit t d l)
  | NontermRef _ _ _ => Leaf WAny
  | Command c _ l _ => Leaf (WCmd c l)
  | Sequence cs _ =>
      (fix go (l : list expr) : rx wleaf :=
         match l with [] => Eps | c :: r => cat (trw c) (go r) end) cs
  | Alternative cs _ | Fallback cs _ =>
      (fix go (l : list expr) : rx wleaf :=
         match l with [] => Zero | c :: r => alt (trw c) (go r) end) cs
  | Optional c _ => Alt (trw c) Eps
  | Many1 c _ => Plus (trw c)
  | DistDescr c _ _ => trw c
  | Subword c _ _ => trw c
  end.

Fixpoint tr (e : expr) : rx leaf :=
  match e with
  | Terminal t d l _ => Leaf (LLit t d l)
  | NontermRef _ _ _ => Leaf LAny
  | Command c _ l _ => Leaf (LCmd c l)
  | Sequence cs _ =>
      (fix go (l : list expr) : rx leaf :=
         match l with [] => Eps | c :: r => cat (tr c) (go r) end) cs
  | Alternative cs _ | Fallback cs _ =>
      (fix go (l : list expr) : rx leaf :=
         match l with [] => Zero | c :: r => alt (tr c) (go r) end) cs
  | Optional c _ => Alt (tr c) Eps
  | Many1 c _ => Plus (tr c)
  | DistDescr c _ _ => tr c
  | Subword c l _ => Leaf (LSub (trw c) l)
  end.

(** *** Environment: COMP_WORDBREAKS and the fixed output (lines) of every command text. *)
Record env := mkenv { e_wordbreaks : string; e_outputs : list (string * list string) }.

Definition tab : ascii := Ascii.ascii_of_nat 9.

Fixpoint cut_tab (s : string) : string :=
  match s with
  | EmptyString => EmptyString
  | String a r => if Ascii.eqb a tab then EmptyString else String a (cut_tab r)
  end.

(** Candidates of a command: the text before the first tab of each output line. *)
Definition candidates (en : env) (c : string) : list string :=
  match assoc c (e_outputs en) with
  | Some lines => map cut_tab lines
  | None => []
  end.

(** *** Strings *)
Fixpoint sdrop (n : nat) (s : string) : string :=
  match n, s with
  | O, _ => s
  | S k, String _ r => sdrop k r
  | S _, EmptyString => EmptyString
  end.

Definition nonempty (s : string) : bool := match s with EmptyString => false | _ => true end.

(** Number of characters of [p] up to and including its last character that occurs in [wb]. *)
Fixpoint last_break (wb p : string) : nat :=
  match p with
  | EmptyString => O
  | String a r =>
      match last_break wb r with
      | S k => S (S k)
      | O => if contains_char a wb then 1%nat else O
      end
  end.

(** What bash shows of a candidate [c] that extends the typed word [p]. *)
Definition strip (wb p c : string) : string := sdrop (last_break wb p) c.

(** *** Inside a word *)

(** The ways a piece can consume a non-empty beginning of [r]: (consumed text, what is left). *)
Definition wconsume (en : env) (l : wleaf) (r : string) : list (string * string) :=
  match l with
  | WLit t _ _ =>
      if nonempty t && String.prefix t r then [(t, sdrop (String.length t) r)] else []
  | WCmd c _ =>
      flat_map (fun o => if nonempty o && String.prefix o r
                         then [(o, sdrop (String.length o) r)] else [])
               (candidates en c)
  | WAny => if nonempty r then [(r, EmptyString)] else []
  end.

(** Every way of splitting a typed text into complete pieces followed by a rest: the residual
    after the pieces, the text consumed so far, the rest.  Every piece consumes at least one
    character, so [String.length] of the text is enough fuel. *)
Fixpoint wsplits (en : env) (fuel : nat) (e : rx wleaf) (done rest : string)
  : list (rx wleaf * string * string) :=
  (e, done, rest) ::
  match fuel with
  | O => []
  | S f =>
      flat_map (fun ak =>
                  flat_map (fun cr => wsplits en f (snd ak) (append done (fst cr)) (snd cr))
                           (wconsume en (fst ak) rest))
               (lf e)
  end.

Definition wsplits_of (en : env) (e : rx wleaf) (w : string) : list (rx wleaf * string * string) :=
  wsplits en (String.length w) e EmptyString w.

(** The word belongs to the within-word language. *)
Definition waccepts (en : env) (e : rx wleaf) (w : string) : bool :=
  existsb (fun s => match s with (e', _, rest) => negb (nonempty rest) && nullable e' end)
          (wsplits_of en e w).

(** Within-word continuations of the typed text [p], each with the level of the piece that
    would come next. *)
Definition wcands (en : env) (e : rx wleaf) (p : string) : list (N * string) :=
  flat_map (fun s =>
              match s with
              | (e', done, rest) =>
                  flat_map (fun ak =>
                              match fst ak with
                              | WLit t _ l =>
                                  if String.prefix rest t then [(l, append done t)] else []
                              | WCmd c l =>
                                  map (fun o => (l, append done o))
                                      (filter (String.prefix rest) (candidates en c))
                              | WAny => []
                              end) (lf e')
              end) (wsplits_of en e p).

(** The candidates of the lowest level that has any. *)
Definition lowest (cs : list (N * string)) : list string :=
  match cs with
  | [] => []
  | c0 :: r =>
      let m := fold_left (fun m c => N.min m (fst c)) r (fst c0) in
      map snd (filter (fun c => N.eqb (fst c) m) cs)
  end.

(** Continuations that add something to what is typed, from the lowest piece level that has one. *)
Definition wproper (en : env) (e : rx wleaf) (p : string) : list string :=
  lowest (filter (fun c => negb (String.eqb (snd c) p)) (wcands en e p)).

(** Some continuation is exactly what is typed already (a piece or value typed in full). *)
Definition widentical (en : env) (e : rx wleaf) (p : string) : bool :=
  existsb (fun c => String.eqb (snd c) p) (wcands en e p).

(** *** Whole words *)
Definition state := list (rx leaf).

Definition moves (s : state) : list (leaf * rx leaf) := flat_map lf s.

Definition lit_next (w : string) (mv : list (leaf * rx leaf)) : state :=
  flat_map (fun ak => match fst ak with
                      | LLit t _ _ => if String.eqb t w then [snd ak] else []
                      | _ => []
                      end) mv.

(** Does a non-literal, non-catch-all item accept the complete word [w]? *)
Definition mid_accepts (en : env) (a : leaf) (w : string) : bool :=
  match a with
  | LSub x _ => waccepts en x w
  | LCmd c _ => mem_str w (candidates en c)
  | LLit _ _ _ | LAny => false
  end.

Definition mid_next (en : env) (w : string) (mv : list (leaf * rx leaf)) : state :=
  flat_map (fun ak => if mid_accepts en (fst ak) w then [snd ak] else []) mv.

Definition any_next (mv : list (leaf * rx leaf)) : state :=
  flat_map (fun ak => match fst ak with LAny => [snd ak] | _ => [] end) mv.

Definition dedup_state (s : state) : state := dedup_rx leaf_eqb s.

(** Reading one complete word; the empty state means that the word cannot be read. *)
Definition step (en : env) (s : state) (w : string) : state :=
  let mv := moves s in
  match lit_next w mv with
  | (_ :: _) as l => dedup_state l
  | [] =>
      match mid_next en w mv with
      | (_ :: _) as l => dedup_state l
      | [] => dedup_state (any_next mv)
      end
  end.

Definition run (en : env) (s : state) (ws : list string) : state := fold_left (step en) ws s.

Definition start (e : expr) : state := [tr e].

(** The words can be matched by the grammar (as the beginning of a command line). *)
Definition matched (en : env) (e : expr) (ws : list string) : bool :=
  match run en (start e) ws with [] => false | _ :: _ => true end.

(** Candidates an expected item contributes for the typed word [p] (before level selection). *)
Definition item_cands (en : env) (a : leaf) (p : string) : list (N * string) :=
  match a with
  | LLit t _ l => if String.prefix p (append t " ") then [(l, append t " ")] else []
  | LCmd c l => map (fun o => (l, o)) (filter (String.prefix p) (candidates en c))
  | LAny => []
  | LSub x l => map (fun o => (l, o)) (wproper en x p)
  end.

Definition state_cands (en : env) (s : state) (p : string) : list (N * string) :=
  flat_map (fun ak => item_cands en (fst ak) p) (moves s).

Definition state_identical (en : env) (s : state) (p : string) : bool :=
  existsb (fun ak => match fst ak with LSub x _ => widentical en x p | _ => false end) (moves s).

(** The answer at a cursor position: [None] = the words before the cursor cannot be matched
    (exit status 1, nothing offered); [Some (required, allowed)] = exit status 0 and
    required <= COMPREPLY <= allowed as sets. *)
Definition complete (e : expr) (en : env) (ws : list string) (p : string)
  : option (list string * list string) :=
  match run en (start e) ws with
  | [] => None
  | s =>
      let req := lowest (state_cands en s p) in
      let opt := if state_identical en s p then [p] else [] in
      let wb := e_wordbreaks en in
      Some (map (strip wb p) req, map (strip wb p) (req ++ opt))
  end.

(** *** Where the text imposes no order: two different non-literal items accept the same word
    (for instance a command that prints a word a within-word expression accepts as well). *)
Fixpoint dedup_leaf (l : list leaf) : list leaf :=
  match l with
  | [] => []
  | a :: r => let d := dedup_leaf r in if existsb (leaf_eqb a) d then d else a :: d
  end.

Definition ambiguous_step (en : env) (s : state) (w : string) : bool :=
  let mv := moves s in
  match lit_next w mv with
  | _ :: _ => false
  | [] =>
      match dedup_leaf (map fst (filter (fun ak => mid_accepts en (fst ak) w) mv)) with
      | _ :: _ :: _ => true
      | _ => false
      end
  end.

Fixpoint ambiguous_run (en : env) (s : state) (ws : list string) : bool :=
  match ws with
  | [] => false
  | w :: r => ambiguous_step en s w || ambiguous_run en (step en s w) r
  end.
