(** How each target shell reads a double-quoted string -- an independent transcription of the
    shells' *documented* rules (nothing here is derived from the emitters).  Below, DQ stands for
    the double-quote character (written that way because Coq lexes string literals in comments).

    bash  (Reference Manual 3.1.2.3): between DQs every character is literal except [$], [`], [\]
          (and [!] when history expansion is enabled, i.e. never in a sourced script).  A backslash
          keeps its special meaning only before [$], [`], DQ, [\] or newline: the backslash is
          removed; backslash-newline disappears altogether.  Before any other character the
          backslash is kept.  An unescaped [$] or [`] starts an expansion / command substitution.
    zsh   (zshmisc, Quoting): the same rule (backslash quotes backslash, [`], DQ, [$]; parameter
          and command substitution occur).
    fish  (language, Quotes): between DQs the only backslash escapes are backslash-DQ, [\$],
          double backslash and backslash-newline (deleted); [$] starts variable expansion /
          command substitution.
    pwsh  (about_Quoting_Rules, about_Special_Characters, language spec 2.3.5.2): the escape
          character is the backtick: [`0 `a `b `e `f `n `r `t `v] are control characters,
          [`u{..}] a code point, backtick + any other character is that character; two DQs inside
          the string are one DQ; [$] starts a variable or sub-expression; the
          double-quote-character class also contains U+201C, U+201D, U+201E (UTF-8 E2 80 9C/9D/9E).

    [read sh text] reads ONE double-quoted constant at the start of [text] and returns the value the
    shell would get together with the rest of the text; [None] when the text does not start with a
    DQ, the string is not closed, or reading it would expand/substitute something. *)
From CG Require Import Base.Prelude Model.Ast.

Definition ch (n : nat) : ascii := ascii_of_nat n.
Definition c_dq : ascii := """"%char.
Definition c_bs : ascii := "\"%char.
Definition c_dollar : ascii := "$"%char.
Definition c_bt : ascii := "`"%char.
Definition c_nl : ascii := ch 10.

Inductive action :=
| Emit1 (c : ascii)      (* one byte, standing for [c] *)
| Emit2 (c : ascii)      (* an escape pair (two bytes), standing for [c] *)
| Skip2                  (* two bytes standing for nothing (line continuation) *)
| Close1                 (* the closing quote (one byte) *)
| Close3                 (* a closing quote written in three bytes *)
| Expands                (* an expansion or substitution starts here *)
| Unsupported.           (* an escape this reader does not transcribe *)

Definition is_one_of (c : ascii) (l : list ascii) : bool := existsb (Ascii.eqb c) l.

(** bash, zsh, fish: backslash family.  [esc]: characters before which a backslash is removed;
    [exp]: characters that start an expansion when not escaped. *)
Definition classify_bs (esc exp : list ascii) (c : ascii) (n1 : option ascii) : action :=
  if Ascii.eqb c c_dq then Close1
  else if Ascii.eqb c c_bs then
    match n1 with
    | Some d => if Ascii.eqb d c_nl then Skip2 else if is_one_of d esc then Emit2 d else Emit1 c
    | None => Emit1 c
    end
  else if is_one_of c exp then Expands
  else Emit1 c.

Definition pwsh_escape (d : ascii) : action :=
  if Ascii.eqb d "0" then Emit2 (ch 0)
  else if Ascii.eqb d "a" then Emit2 (ch 7)
  else if Ascii.eqb d "b" then Emit2 (ch 8)
  else if Ascii.eqb d "e" then Emit2 (ch 27)
  else if Ascii.eqb d "f" then Emit2 (ch 12)
  else if Ascii.eqb d "n" then Emit2 (ch 10)
  else if Ascii.eqb d "r" then Emit2 (ch 13)
  else if Ascii.eqb d "t" then Emit2 (ch 9)
  else if Ascii.eqb d "v" then Emit2 (ch 11)
  else if Ascii.eqb d "u" then Unsupported
  else Emit2 d.

Definition is_smart_quote_tail (n1 n2 : option ascii) : bool :=
  match n1, n2 with
  | Some a, Some b => Ascii.eqb a (ch 128) && is_one_of b [ch 156; ch 157; ch 158]
  | _, _ => false
  end.

Definition classify_pwsh (c : ascii) (n1 n2 : option ascii) : action :=
  if Ascii.eqb c (ch 226) then (if is_smart_quote_tail n1 n2 then Close3 else Emit1 c)
  else if Ascii.eqb c c_dq then
    match n1 with
    | Some d => if Ascii.eqb d c_dq then Emit2 c_dq else Close1
    | None => Close1
    end
  else if Ascii.eqb c c_bt then
    match n1 with
    | Some d => pwsh_escape d
    | None => Emit1 c
    end
  else if Ascii.eqb c c_dollar then Expands
  else Emit1 c.

(** What the shell does with byte [c] given the next two bytes. *)
Definition classify (sh : shell) (c : ascii) (n1 n2 : option ascii) : action :=
  match sh with
  | Bash | Zsh => classify_bs [c_dollar; c_bt; c_dq; c_bs] [c_dollar; c_bt] c n1
  | Fish => classify_bs [c_dq; c_dollar; c_bs] [c_dollar] c n1
  | Pwsh => classify_pwsh c n1 n2
  end.

Definition shd (s : string) : option ascii :=
  match s with String c _ => Some c | EmptyString => None end.
Definition stl (s : string) : string :=
  match s with String _ t => t | EmptyString => EmptyString end.

Definition emit (c : ascii) (r : option (string * string)) : option (string * string) :=
  match r with Some (u, rest) => Some (String c u, rest) | None => None end.

(** The inside of the string, after the opening quote. *)
Fixpoint read_body (sh : shell) (s : string) : option (string * string) :=
  match s with
  | EmptyString => None
  | String c t =>
      match classify sh c (shd t) (shd (stl t)) with
      | Emit1 x => emit x (read_body sh t)
      | Emit2 x => match t with String _ t' => emit x (read_body sh t') | EmptyString => None end
      | Skip2 => match t with String _ t' => read_body sh t' | EmptyString => None end
      | Close1 => Some (EmptyString, t)
      | Close3 => match t with String _ (String _ t'') => Some (EmptyString, t'') | _ => None end
      | Expands => None
      | Unsupported => None
      end
  end.

Definition read (sh : shell) (text : string) : option (string * string) :=
  match text with
  | String c t => if Ascii.eqb c c_dq then read_body sh t else None
  | EmptyString => None
  end.

(** What may follow a constant for it to be self-delimiting: in PowerShell a second double quote
    right after the closing one would read as an escaped quote. *)
Definition safe (sh : shell) (rest : string) : bool :=
  match sh with
  | Pwsh => match shd rest with Some d => negb (Ascii.eqb d c_dq) | None => true end
  | _ => true
  end.

(** [strip p s] = the rest of [s] after the prefix [p]. *)
Fixpoint strip (p s : string) : option string :=
  match p with
  | EmptyString => Some s
  | String a p' =>
      match s with
      | String b s' => if Ascii.eqb a b then strip p' s' else None
      | EmptyString => None
      end
  end.

(** Successive constants separated by [sep], as many as can be read: (values, rest). *)
Fixpoint read_list (fuel : nat) (sh : shell) (sep : string) (text : string) : list string * string :=
  match fuel with
  | O => ([], text)
  | S k =>
      match read sh text with
      | None => ([], text)
      | Some (v, rest) =>
          match strip sep rest with
          | Some r =>
              match read sh r with
              | Some _ => let '(vs, rest') := read_list k sh sep r in (v :: vs, rest')
              | None => ([v], rest)
              end
          | None => ([v], rest)
          end
      end
  end.

(** *** The classes of strings for which a shell's emitter is known not to round-trip
    (known findings; see Props/C07.v for the witnesses).  [hazard sh c o]: byte [c] followed in the
    ORIGINAL string by [o] ([None] = end of the string). *)
Definition hazard (sh : shell) (c : ascii) (o : option ascii) : bool :=
  match sh with
  | Pwsh =>
      (* U+2000..U+203F start with E2 80; U+201C/D/E are double quotes for PowerShell and are not
         escaped by pwsh.rs (the class is the whole E2 80 prefix: one byte of lookahead) *)
      Ascii.eqb c (ch 226) && match o with Some d => Ascii.eqb d (ch 128) | None => false end
  | Bash | Fish | Zsh => false
  end.

Fixpoint admissibleb (sh : shell) (s : string) : bool :=
  match s with
  | EmptyString => true
  | String c t => negb (hazard sh c (shd t)) && admissibleb sh t
  end.

Definition admissible (sh : shell) (s : string) : Prop := admissibleb sh s = true.

(** pwsh, exactly: the strings that contain no smart double quote (U+201C, U+201D, U+201E); the
    pairwise class above is coarser (any E2 80).  [outside_known_class] is what the checks use to
    attribute a failure to a known finding. *)
Fixpoint smart_free (s : string) : bool :=
  match s with
  | EmptyString => true
  | String c t => negb (Ascii.eqb c (ch 226) && is_smart_quote_tail (shd t) (shd (stl t))) && smart_free t
  end.

Definition outside_known_class (sh : shell) (s : string) : bool :=
  match sh with
  | Pwsh => smart_free s
  | _ => admissibleb sh s
  end.
