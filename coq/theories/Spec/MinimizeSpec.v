(** Hypotheses of the C03 theorems about the model: what [dfa_from_regex] guarantees about the
    raw automata it hands to [minimize] (DESIGN Appendix E): states are numbered from 1 (0 is
    reserved for the dead state), the transition table is a map of maps, every input id indexes
    the input pool, every state has a (possibly empty) transition entry, the accepting set is a
    bitmap (increasing).  [wfb] is the executable version; the C03 check evaluates it, together
    with [DfaEquiv.trim_dec], on every raw automaton Rust produces, so the hypotheses of the
    theorems are validated on every run. *)
From CG Require Import Base.Prelude Model.Dfa Spec.DfaEquiv.

Fixpoint sortedN (l : list N) : Prop :=
  match l with
  | [] => True
  | x :: r => (forall y, In y r -> x < y) /\ sortedN r
  end.

Fixpoint sortedNb (l : list N) : bool :=
  match l with
  | [] => true
  | x :: r => forallb (fun y => N.ltb x y) r && sortedNb r
  end.

Record wf (d : dfa) : Prop := mkwf {
  wf_keys : NoDup (map fst (d_trans d));
  wf_rows : forall f row, In (f, row) (d_trans d) -> NoDup (map fst row);
  wf_inputs : forall f row i t, In (f, row) (d_trans d) -> In (i, t) row -> i < lenN (d_inputs d);
  wf_nozero : ~ In 0 (states d);
  wf_closed : forall s, In s (states d) -> In s (map fst (d_trans d));
  wf_acc : sortedN (d_accepting d)
}.

Definition wfb (d : dfa) : bool :=
  nodupb (map fst (d_trans d))
  && forallb (fun p => nodupb (map fst (snd p))) (d_trans d)
  && forallb (fun p => forallb (fun it => N.ltb (fst it) (lenN (d_inputs d))) (snd p)) (d_trans d)
  && negb (memN 0 (states d))
  && forallb (fun s => memN s (map fst (d_trans d))) (states d)
  && sortedNb (d_accepting d).

(** The completed transition function: a missing transition leads to the dead state 0. *)
Definition delta (d : dfa) (x a : N) : N :=
  match step d x a with Some t => t | None => 0 end.
