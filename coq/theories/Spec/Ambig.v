(** C09, specification side: "at no point of an accepted grammar can one typed word be read as
    two different expected items that lead to different continuations", decided on the compiled
    automaton ([Model.Dfa.cdfa]: main automaton + within-word automata).

    A literal item is read by the word equal to its text; a within-word item by the words of
    its within-word automaton (concatenations of the texts of its literal pieces along accepting
    paths; an undefined nonterminal or a command inside a word stands for any non-empty text).
    Command items and the catch-all at the level of whole words are not part of the notion: what
    a command accepts is only known at completion time, and the catch-all is by definition what
    is used when nothing else reads the word (C01).

    [find] looks, at every state, at every pair of outgoing transitions with different targets:
    literal/literal by equality of the texts, literal/within-word by running the within-word
    automaton on the text, within-word/within-word by the product of the character-level
    expansions ([Spec.TokAut]). *)
From CG Require Import Base.Prelude Model.Dfa Spec.TokAut.

Definition tok_of_inp (i : inp) : option tok :=
  match i with
  | ILit t _ _ => Some (TLit t)
  | ICmd _ _ | ICompadd _ _ | IStar => Some TWild
  | ISub _ _ => None
  end.

(** The token automaton of a within-word automaton. *)
Definition dnext (d : dfa) (q : N) : list (tok * N) :=
  match assocN q (d_trans d) with
  | None => []
  | Some tos =>
      flat_map (fun it => match nthN (d_inputs d) (fst it) with
                          | Some i => match tok_of_inp i with
                                      | Some t => [(t, snd it)]
                                      | None => []
                                      end
                          | None => []
                          end) tos
  end.

Definition dfinal (d : dfa) (q : N) : bool := is_accepting d q.

Definition sub_accepts (d : dfa) (w : string) : bool :=
  taccepts N (dnext d) (dfinal d) (d_start d) w.

Definition subs_disjoint (d d' : dfa) : bool :=
  disjoint N N (dnext d) (dnext d') (dfinal d) (dfinal d') N.eqb N.eqb (d_start d) (d_start d').

Definition subs_common (d d' : dfa) : option string :=
  common_word N N (dnext d) (dnext d') (dfinal d) (dfinal d') N.eqb N.eqb (d_start d) (d_start d').

(** Two transitions of state [w_state] on the inputs [w_in1], [w_in2] with different targets
    and a word both inputs read ([None]: the search gave up, no word is exhibited). *)
Record witness := mkwit { w_state : N; w_in1 : N; w_in2 : N; w_word : option string }.

Definition check_pair (c : cdfa) (s : N) (x y : N * N) : option witness :=
  if N.eqb (snd x) (snd y) then None else
  let ins := d_inputs (c_main c) in
  match nthN ins (fst x), nthN ins (fst y) with
  | Some (ILit a _ _), Some (ILit b _ _) =>
      if String.eqb a b then Some (mkwit s (fst x) (fst y) (Some a)) else None
  | Some (ILit a _ _), Some (ISub k _) | Some (ISub k _), Some (ILit a _ _) =>
      match nthN (c_subs c) k with
      | Some d => if sub_accepts d a then Some (mkwit s (fst x) (fst y) (Some a)) else None
      | None => None
      end
  | Some (ISub k _), Some (ISub k' _) =>
      match nthN (c_subs c) k, nthN (c_subs c) k' with
      | Some d, Some d' =>
          if subs_disjoint d d' then None
          else Some (mkwit s (fst x) (fst y) (subs_common d d'))
      | _, _ => None
      end
  | _, _ => None
  end.

Fixpoint first_some {A B} (f : A -> option B) (l : list A) : option B :=
  match l with
  | [] => None
  | x :: r => match f x with Some b => Some b | None => first_some f r end
  end.

Definition find_at (c : cdfa) (row : N * list (N * N)) : option witness :=
  first_some (fun x => first_some (check_pair c (fst row) x) (snd row)) (snd row).

Definition find (c : cdfa) : option witness := first_some (find_at c) (d_trans (c_main c)).

(** *** The notion decided *)

(** The words an item reads, as far as they are fixed by the grammar. *)
Definition matches_item (c : cdfa) (i : inp) (w : string) : Prop :=
  match i with
  | ILit t _ _ => t = w
  | ISub k _ => exists d, nthN (c_subs c) k = Some d
                          /\ tacc N (dnext d) (dfinal d) (d_start d) w
  | ICmd _ _ | ICompadd _ _ | IStar => False
  end.

(** No state has two outgoing items that read a common word and differ in target. *)
Definition unambiguous (c : cdfa) : Prop :=
  forall s i j ii ij w t u,
    step (c_main c) s i = Some t -> step (c_main c) s j = Some u ->
    nthN (d_inputs (c_main c)) i = Some ii -> nthN (d_inputs (c_main c)) j = Some ij ->
    matches_item c ii w -> matches_item c ij w -> t = u.
