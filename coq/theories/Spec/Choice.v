(** C11, specification side: which definition [<X>] stands for when compiling for shell [sh].
    Written from the property text, without looking at the passes of check.rs:
    the [<X@sh>] definition if there is one, otherwise the plain [<X>] definition if there is
    one, otherwise the built-in completion if X is PATH or DIRECTORY, otherwise "any word".
    Definitions for other shells are never consulted. *)
From CG Require Import Base.Prelude Model.Ast.

Inductive choice :=
| ChCommand (cmd : string)      (* an external command with this text *)
| ChPlain (rhs : expr)          (* the right-hand side of the plain definition *)
| ChAny.                        (* any single word *)

Definition is_shell (name : string) (sh : shell) : bool :=
  match shell_of_string name with
  | Some s => shell_eqb s sh
  | None => false
  end.

Fixpoint shell_definition (g : grammar) (sh : shell) (x : string) : option expr :=
  match g with
  | [] => None
  | NontermDef n _ (Some (shn, _)) rhs :: r =>
      if String.eqb n x && is_shell shn sh then Some rhs else shell_definition r sh x
  | _ :: r => shell_definition r sh x
  end.

Fixpoint plain_definition (g : grammar) (x : string) : option expr :=
  match g with
  | [] => None
  | NontermDef n _ None rhs :: r =>
      if String.eqb n x then Some rhs else plain_definition r x
  | _ :: r => plain_definition r x
  end.

Definition spec (builtins : shell -> list (string * string)) (g : grammar) (sh : shell)
           (x : string) : choice :=
  match shell_definition g sh x with
  | Some (Command cmd _ _ _) => ChCommand cmd
  | Some other => ChPlain other   (* rejected grammars: a shell definition must be a command *)
  | None =>
      match plain_definition g x with
      | Some rhs => ChPlain rhs
      | None =>
          match assoc x (builtins sh) with
          | Some cmd => ChCommand cmd
          | None => ChAny
          end
      end
  end.
