(** The shape of every tree the parser can produce, for arbitrary input (executable predicate):
    every [Sequence]/[Alternative]/[Fallback] has at least two children, every [Subword] sits over
    a [Sequence] of at least two factors and contains no [Subword], levels are 0, [compadd] is
    false, literals, nonterminal names and statement names are not empty. *)
From CG Require Import Base.Prelude Model.Ast.

Definition nonempty (s : string) : bool := match s with EmptyString => false | _ => true end.

(** [w] = inside a word *)
Fixpoint shapeb (w : bool) (e : expr) {struct e} : bool :=
  match e with
  | Terminal t _ l _ => nonempty t && N.eqb l 0
  | NontermRef n l _ => nonempty n && N.eqb l 0
  | Command _ z l _ => negb z && N.eqb l 0
  | Sequence cs _ | Alternative cs _ | Fallback cs _ => Nat.leb 2 (List.length cs) && forallb (shapeb w) cs
  | Optional c _ | Many1 c _ | DistDescr c _ _ => shapeb w c
  | Subword r l _ =>
      negb w && N.eqb l 0 &&
      match r with
      | Sequence fs _ => Nat.leb 2 (List.length fs) && forallb (shapeb true) fs
      | _ => false
      end
  end.

Definition stmt_shape (st : statement) : bool :=
  match st with
  | CallVariant name _ e => nonempty name && shapeb false e
  | NontermDef name _ sh rhs =>
      nonempty name && match sh with Some (s, _) => nonempty s | None => true end && shapeb false rhs
  end.
