(** The shape of every tree the parser can produce, for arbitrary input (executable predicates).
    [gshapeb lit nt cmd w e]: every [Sequence]/[Alternative]/[Fallback] has at least two children,
    every [Subword] sits over a [Sequence] of at least two factors and contains no [Subword]
    ([w] = inside a word), levels are 0, [compadd] is false, and literals / nonterminal names /
    commands satisfy [lit] / [nt] / [cmd].  [shapeb] only asks literals and names to be non-empty. *)
From CG Require Import Base.Prelude Model.Ast.

Definition nonempty (s : string) : bool := match s with EmptyString => false | _ => true end.

Section Generic.
  Variables lit nt cmd : string -> bool.

  Fixpoint gshapeb (w : bool) (e : expr) {struct e} : bool :=
    match e with
    | Terminal t _ l _ => lit t && N.eqb l 0
    | NontermRef n l _ => nt n && N.eqb l 0
    | Command c z l _ => cmd c && negb z && N.eqb l 0
    | Sequence cs _ | Alternative cs _ | Fallback cs _ => Nat.leb 2 (List.length cs) && forallb (gshapeb w) cs
    | Optional c _ | Many1 c _ | DistDescr c _ _ => gshapeb w c
    | Subword r l _ =>
        negb w && N.eqb l 0 &&
        match r with
        | Sequence fs _ => Nat.leb 2 (List.length fs) && forallb (gshapeb true) fs
        | _ => false
        end
    end.
End Generic.

Definition shapeb : bool -> expr -> bool := gshapeb nonempty nonempty (fun _ => true).

Definition stmt_shape (st : statement) : bool :=
  match st with
  | CallVariant name _ e => nonempty name && shapeb false e
  | NontermDef name _ sh rhs =>
      nonempty name && match sh with Some (s, _) => nonempty s | None => true end && shapeb false rhs
  end.
