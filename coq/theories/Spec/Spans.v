(** What it means for a span to be "where the construct really is" (property C13, parser half),
    for an arbitrary input text: a span is sound when its line and start column are the nom_locate
    position reached after some prefix of the text, and its end column the position reached after a
    longer prefix (positions advance per byte: line + 1 and column 1 after LF, column + 1 otherwise). *)
From CG Require Import Base.Prelude Model.Ast Model.Lexer.

(** [i'] is [i] after consuming some text [w], with the position advanced over [w] *)
Definition adv (i i' : input) : Prop :=
  exists w, rest i = append w (rest i') /\ at_ i' = adv_str w (at_ i).

(** ... some non-empty text *)
Definition adv1 (i i' : input) : Prop :=
  exists w, w <> EmptyString /\ rest i = append w (rest i') /\ at_ i' = adv_str w (at_ i).

(** [i] is a true position of the text [s] *)
Definition at_pre (s : string) (i : input) : Prop :=
  exists pre, s = append pre (rest i) /\ at_ i = adv_str pre pos0.

(** a span whose start and end are true positions of [s], the end after the start (every
    construct has at least one byte) *)
Definition span_ok (s : string) (sp : span) : Prop :=
  exists i i', at_pre s i /\ adv1 i i' /\ sp = from_range i i'.

Fixpoint spans_ok (s : string) (e : expr) : Prop :=
  match e with
  | Terminal _ _ _ sp | NontermRef _ _ sp | Command _ _ _ sp => span_ok s sp
  | Sequence cs sp | Alternative cs sp | Fallback cs sp =>
      span_ok s sp /\ (fix all (l : list expr) : Prop :=
                         match l with [] => True | x :: r => spans_ok s x /\ all r end) cs
  | Optional c sp | Many1 c sp | DistDescr c _ sp | Subword c _ sp => span_ok s sp /\ spans_ok s c
  end.

Definition stmt_ok (s : string) (st : statement) : Prop :=
  match st with
  | CallVariant _ nsp e => span_ok s nsp /\ spans_ok s e
  | NontermDef _ nsp sh rhs =>
      span_ok s nsp /\ match sh with Some (_, ssp) => span_ok s ssp | None => True end /\ spans_ok s rhs
  end.

(** [sp] starts at the position of a byte of [text] (C13: "the line and column at which the
    construct really starts"): line and start column are the nom_locate position reached after
    some prefix [pre], and something follows. *)
Definition pos_ok (text : string) (sp : span) : Prop :=
  exists pre rest, text = append pre rest /\ rest <> EmptyString
    /\ sline sp = pline (adv_str pre pos0) /\ scol sp = pcol (adv_str pre pos0) /\ 1 <= secol sp.
