(** Reader of the DATA STATEMENTS of an emitted completion script (DESIGN Appendix C), for the four
    target shells.  It is written from the shells' syntax for the statements concerned (array and
    associative-array literals, [set] lists, hashtable literals), uses [ShellDQ.read] for every
    string constant, and knows nothing about the emitters: the script is scanned line by line; a
    line that is not one of the data statements (the fixed skeleton) is skipped.

    The result is the list of statements in script order; numbers are reported as written (the
    index base of the shell is applied by the consumer: lib/vf/checks/c04.py for the direct
    judgement, [Proofs/BashCodec.v] for bash).  Function bodies of external commands
    ([_<cmd>_cmd_N]) are returned verbatim. *)
From Coq Require Import DecimalString DecimalN.
From CG Require Import Base.Prelude Model.Ast Spec.ShellDQ.
Open Scope N_scope.
Open Scope list_scope.

Definition parser (A : Type) := string -> option (A * string).

Definition pbind {A B} (p : parser A) (f : A -> parser B) : parser B :=
  fun s => match p s with Some (a, r) => f a r | None => None end.
Definition pret {A} (a : A) : parser A := fun s => Some (a, s).
Notation "'let*' x ':=' p 'in' q" := (pbind p (fun x => q)) (at level 200, x pattern, p at level 100, q at level 200).

Definition lit (p : string) : parser unit :=
  fun s => match strip p s with Some r => Some (tt, r) | None => None end.

Fixpoint take_while (f : ascii -> bool) (s : string) : string * string :=
  match s with
  | String c t => if f c then let (a, r) := take_while f t in (String c a, r) else (EmptyString, s)
  | EmptyString => (EmptyString, EmptyString)
  end.

Definition is_digit (c : ascii) : bool :=
  let n := nat_of_ascii c in Nat.leb 48 n && Nat.leb n 57.

(** a non-empty run of decimal digits *)
Definition nat10 : parser N :=
  fun s => let (ds, r) := take_while is_digit s in
           match ds with
           | EmptyString => None
           | _ => match NilZero.uint_of_string ds with
                  | Some u => Some (N.of_uint u, r)
                  | None => None
                  end
           end.

Definition nl_char : ascii := ascii_of_nat 10.
Definition nl : string := String nl_char EmptyString.

(** everything up to (not including) the next newline; the newline is consumed *)
Fixpoint line (s : string) : string * string :=
  match s with
  | String c t => if Ascii.eqb c nl_char then (EmptyString, t) else let (a, r) := line t in (String c a, r)
  | EmptyString => (EmptyString, EmptyString)
  end.

Definition is_name_char (c : ascii) : bool :=
  negb (Ascii.eqb c " " || Ascii.eqb c nl_char || Ascii.eqb c "(" || Ascii.eqb c "[" || Ascii.eqb c "=" || Ascii.eqb c """" || Ascii.eqb c "$").

Definition name : parser string :=
  fun s => let (a, r) := take_while is_name_char s in
           match a with EmptyString => None | _ => Some (a, r) end.

Fixpoint sep_by_go {A} (fuel : nat) (p : parser A) (sep : string) (s : string) : list A * string :=
  match fuel with
  | O => ([], s)
  | S k =>
      match strip sep s with
      | Some r =>
          match p r with
          | Some (a, r') => let (l, r'') := sep_by_go k p sep r' in (a :: l, r'')
          | None => ([], s)
          end
      | None => ([], s)
      end
  end.

(** zero or more [p] separated by [sep] *)
Definition sep_by {A} (p : parser A) (sep : string) : parser (list A) :=
  fun s => match p s with
           | Some (a, r) => let (l, r') := sep_by_go (String.length r) p sep r in Some (a :: l, r')
           | None => Some ([], s)
           end.

Definition dq (sh : shell) : parser string := ShellDQ.read sh.

(** a quoted cell holding numbers separated by single spaces: "1 2 3" or "" *)
Definition num_cell : parser (list N) :=
  let* _ := lit """" in let* l := sep_by nat10 " " in let* _ := lit """" in pret l.

(** ** statements *)
Inductive item := INum (n : N) | IStr (s : string).

Inductive stmt :=
| SFunc (name : string)
| SEnd
| SBody (text : string)
| SLits (var : string) (l : list string)
| SStr (var : string) (k : N) (s : string)
| SDecl (var : string)
| SRow (var : string) (s : N) (l : list (N * N))
| SAssoc (var : string) (l : list (N * list N))
| SScalar (var : string) (n : N)
| SSet (var : string) (idx : option N) (l : list item)
| SCall (name : string)
| SRegister (l : list string).

Definition eol : parser unit := lit nl.

(** [k]=v *)
Definition br_pair : parser (N * N) :=
  let* _ := lit "[" in let* k := nat10 in let* _ := lit "]=" in let* v := nat10 in pret (k, v).

(** [s]="l l l" *)
Definition br_cell : parser (N * list N) :=
  let* _ := lit "[" in let* k := nat10 in let* _ := lit "]=" in let* l := num_cell in pret (k, l).

Definition alt {A} (p q : parser A) : parser A :=
  fun s => match p s with Some x => Some x | None => q s end.

(** the element assignment X[k]="..." holds a transition row "([k]=v ...)" or a string; the tables of
    descriptions hold strings whatever they look like (a description may well be "([1]=2)") *)
Definition is_descr_var (v : string) : bool :=
  String.eqb v "descriptions" || String.eqb v "subword_descriptions".

(** bash and zsh share the array syntax; they differ in the declaration keyword *)
Section BashZsh.
Variable sh : shell.
Variable kw_arr kw_assoc kw_scalar : string.     (* "local -a " / "declare -a " ... *)

Definition bz_stmt : parser stmt :=
  alt (let* _ := lit "    " in let* _ := lit kw_arr in let* v := name in let* _ := lit "=(" in
       let* l := sep_by (dq sh) " " in let* _ := lit ")" in let* _ := eol in pret (SLits v l))
 (alt (let* _ := lit "    " in let* _ := lit kw_assoc in let* v := name in
       alt (let* _ := eol in pret (SDecl v))
      (alt (let* _ := lit "=()" in let* _ := eol in pret (SAssoc v []))
      (alt (let* _ := lit "=(" in let* l := sep_by br_cell " " in let* _ := lit ")" in let* _ := eol in pret (SAssoc v l))
           (let* _ := lit "=(" in let* l := sep_by br_pair " " in let* _ := lit ")" in let* _ := eol in
            pret (SAssoc v (map (fun p => (fst p, [snd p])) l))))))
 (alt (let* _ := lit "    " in let* _ := lit kw_scalar in let* v := name in let* _ := lit "=" in
       let* n := nat10 in let* _ := eol in pret (SScalar v n))
 (alt (let* _ := lit "    " in let* v := name in let* _ := lit "[" in let* s := nat10 in let* _ := lit "]=" in
       if is_descr_var v then (let* d := dq sh in let* _ := eol in pret (SStr v s d))
       else
       alt (let* _ := lit """(" in let* l := sep_by br_pair " " in let* _ := lit ")""" in let* _ := eol in pret (SRow v s l))
           (let* d := dq sh in let* _ := eol in pret (SStr v s d)))
 (alt (let* _ := lit "    _" in let* v := name in let* _ := lit " """ in
       fun s => let (_, r) := line s in Some (SCall (String "_" v), r))
 (alt (let* _ := lit "_" in let* v := name in let* _ := lit " () {" in let* _ := eol in pret (SFunc (String "_" v)))
 (alt (let* _ := lit "}" in let* _ := eol in pret SEnd)
 (alt (let* _ := lit "complete -o nospace -F " in let* f := name in let* _ := lit " " in let* c := name in
       let* _ := eol in pret (SRegister [f; c]))
 (alt (let* _ := lit "    compdef " in let* f := name in let* _ := lit " " in let* c := name in
       let* _ := eol in pret (SRegister [f; c]))
      (let* _ := lit "#compdef " in let* c := name in let* _ := eol in pret (SRegister [c])))))))))).
End BashZsh.

Definition bash_stmt : parser stmt := bz_stmt Bash "local -a " "local -A " "local ".
Definition zsh_stmt : parser stmt := bz_stmt Zsh "declare -a " "declare -A " "declare ".

(** pwsh: k=v;k=v  and  s=@(l,l); s=@(l) *)
Definition eq_pair : parser (N * N) :=
  let* k := nat10 in let* _ := lit "=" in let* v := nat10 in pret (k, v).
Definition eq_cell : parser (N * list N) :=
  let* k := nat10 in let* _ := lit "=@(" in let* l := sep_by nat10 "," in let* _ := lit ")" in pret (k, l).

Definition pwsh_stmt : parser stmt :=
  alt (let* _ := lit "    $" in let* v := name in let* _ := lit " = @(" in
       let* l := sep_by (dq Pwsh) ", " in let* _ := lit ")" in let* _ := eol in pret (SLits v l))
 (alt (let* _ := lit "    $" in let* v := name in let* _ := lit "[" in let* s := nat10 in let* _ := lit "] = @{" in
       let* l := sep_by eq_pair ";" in let* _ := lit "}" in let* _ := eol in pret (SRow v s l))
 (alt (let* _ := lit "    $" in let* v := name in let* _ := lit " = @{" in
       alt (let* _ := eol in pret (SDecl v))
      (alt (let* _ := lit "}" in let* _ := eol in pret (SAssoc v []))
      (alt (let* l := sep_by eq_cell "; " in let* _ := lit "}" in let* _ := eol in
            match l with [] => (fun _ => None) | _ => pret (SAssoc v l) end)
           (let* l := sep_by eq_pair ";" in let* _ := lit "}" in let* _ := eol in
            pret (SAssoc v (map (fun p => (fst p, [snd p])) l))))))
 (alt (let* _ := lit "        " in let* k := nat10 in let* _ := lit " = " in let* d := dq Pwsh in let* _ := lit ";" in
       let* _ := eol in pret (SStr "descriptions" k d))
 (alt (let* _ := lit "    $" in let* v := name in let* _ := lit " = " in let* n := nat10 in let* _ := eol in pret (SScalar v n))
 (alt (let* _ := lit "    _" in let* v := name in let* _ := lit " $args" in
       fun s => let (_, r) := line s in Some (SCall (String "_" v), r))
 (alt (let* _ := lit "function " in let* v := name in let* _ := lit " {" in let* _ := eol in pret (SFunc v))
 (alt (let* _ := lit "}" in let* _ := eol in pret SEnd)
      (let* _ := lit "Register-ArgumentCompleter -Native -CommandName '" in
       fun s => let (a, r) := take_while (fun c => negb (Ascii.eqb c "'")) s in
                match strip "' -ScriptBlock {" r with
                | Some r' => match eol r' with Some (_, r'') => Some (SRegister [a], r'') | None => None end
                | None => None
                end)))))))).

(** fish: set [--global] VAR[idx] item item ...   (items: bare numbers or double-quoted strings) *)
Definition fish_item : parser item :=
  alt (let* n := nat10 in pret (INum n)) (let* s := dq Fish in pret (IStr s)).

Definition fish_stmt : parser stmt :=
  alt (let* _ := lit "    set " in
       let* _ := alt (lit "--global ") (pret tt) in
       let* v := name in
       let* idx := alt (let* _ := lit "[" in let* k := nat10 in let* _ := lit "]" in pret (Some k)) (pret None) in
       alt (let* _ := eol in pret (SSet v idx []))
      (alt (let* _ := lit " " in let* _ := eol in pret (SSet v idx []))
           (let* _ := lit " " in let* l := sep_by fish_item " " in let* _ := eol in
            match l with [] => (fun _ => None) | _ => pret (SSet v idx l) end)))
 (alt (let* _ := lit "    _" in let* v := name in let* _ := lit " ""$argv" in
       fun s => let (_, r) := line s in Some (SCall (String "_" v), r))
 (alt (let* _ := lit "function " in let* v := name in let* _ := eol in pret (SFunc v))
 (alt (let* _ := lit "end" in let* _ := eol in pret SEnd)
      (let* _ := lit "complete --command " in let* c := name in let* _ := lit " --no-files --arguments ""(" in
       let* f := (fun s => let (a, r) := take_while (fun c => negb (Ascii.eqb c ")")) s in Some (a, r)) in
       let* _ := lit ")""" in let* _ := eol in pret (SRegister [f; c]))))).

Definition stmt_of (sh : shell) : parser stmt :=
  match sh with Bash => bash_stmt | Zsh => zsh_stmt | Pwsh => pwsh_stmt | Fish => fish_stmt end.

(** the terminator of a function body, at the start of a line *)
Definition body_end (sh : shell) : string :=
  match sh with Fish => "end" | _ => "}" end.

(** is [n] the name of an external-command function of the command [cmd], i.e. [_<cmd>_cmd_<digits>]?
    (the command name is the grammar's; the consumer knows it) *)
Definition is_cmd_fn (cmd n : string) : bool :=
  match strip (append "_" (append cmd "_cmd_")) n with
  | Some r => let (ds, r') := take_while is_digit r in
              match ds, r' with
              | String _ _, EmptyString => true
              | _, _ => false
              end
  | None => false
  end.

(** the body of a function: the text between the four-space indent after the header and the line
    that consists of the terminator alone *)
Fixpoint body_lines (fuel : nat) (term : string) (s : string) : option (list string * string) :=
  match fuel with
  | O => None
  | S k =>
      let (l, r) := line s in
      if String.eqb l term then Some ([], r)
      else match s with
           | EmptyString => None
           | _ => match body_lines k term r with
                  | Some (b, r') => Some (l :: b, r')
                  | None => None
                  end
           end
  end.

Fixpoint join_lines (l : list string) : string :=
  match l with
  | [] => EmptyString
  | [x] => x
  | x :: r => append x (append nl (join_lines r))
  end.

Definition read_body (sh : shell) (s : string) : option (string * string) :=
  match strip "    " s with
  | Some r =>
      match body_lines (S (String.length r)) (body_end sh) r with
      | Some (ls, r') => Some (join_lines ls, r')
      | None => None
      end
  | None => None
  end.

(** the scanner: at a line start, read a statement or skip the line *)
Fixpoint scan (fuel : nat) (sh : shell) (cmd : string) (s : string) : list stmt :=
  match fuel with
  | O => []
  | S k =>
      match s with
      | EmptyString => []
      | _ =>
          match stmt_of sh s with
          | Some (SFunc n, r) =>
              if is_cmd_fn cmd n then
                match read_body sh r with
                | Some (b, r') => SFunc n :: SBody b :: SEnd :: scan k sh cmd r'
                | None => SFunc n :: scan k sh cmd r
                end
              else SFunc n :: scan k sh cmd r
          | Some (st, r) => st :: scan k sh cmd r
          | None => let (_, r) := line s in scan k sh cmd r
          end
      end
  end.

Definition read_stmts (sh : shell) (cmd : string) (text : string) : list stmt :=
  scan (S (String.length text)) sh cmd text.
