(** Automata whose transitions are labelled by *tokens* -- a literal text or a wildcard that
    stands for any non-empty text (an undefined nonterminal or an external command inside a
    word) -- read at the level of characters, and a search for a word two such automata have in
    common (product construction over characters: every literal is expanded into a path of
    characters).  Used for within-word expressions ([Spec.Domain], states = residuals) and for
    within-word automata ([Spec.Ambig], states = automaton states).

    [disjoint] answers [true] only after *checking* that the set of configuration pairs the
    search visited is closed under joint character steps, contains the start pair and no pair
    of accepting configurations: the proof of its soundness ([Proofs/TokAutFacts.v]) does not
    have to reason about the search. *)
From CG Require Import Base.Prelude.

Inductive tok := TLit (t : string) | TWild.

Definition lab_ok (l : option ascii) (a : ascii) : bool :=
  match l with None => true | Some b => Ascii.eqb a b end.

Section Aut.
  Variable Q : Type.
  Variable next : Q -> list (tok * Q).
  Variable final : Q -> bool.

  (** A configuration: the characters of the current literal still to be read and the state
      that follows it, or "inside a wildcard, at least one character read". *)
  Inductive cfg := CTok (rest : string) (q : Q) | CWild (q : Q).

  Definition start_moves (q : Q) : list (option ascii * cfg) :=
    flat_map (fun tq => match fst tq with
                        | TLit (String a r) => [(Some a, CTok r (snd tq))]
                        | TLit EmptyString => []
                        | TWild => [(None, CWild (snd tq))]
                        end) (next q).

  (** One character: the label [None] stands for "any character". *)
  Definition cstep (c : cfg) : list (option ascii * cfg) :=
    match c with
    | CTok (String a r) q => [(Some a, CTok r q)]
    | CTok EmptyString q => start_moves q
    | CWild q => (None, CWild q) :: start_moves q
    end.

  Definition cfinal (c : cfg) : bool :=
    match c with
    | CTok EmptyString q => final q
    | CTok (String _ _) _ => false
    | CWild q => final q
    end.

  Definition cstep_on (a : ascii) (c : cfg) : list cfg :=
    map snd (filter (fun lc => lab_ok (fst lc) a) (cstep c)).

  Fixpoint accepts_from (cs : list cfg) (w : string) : bool :=
    match w with
    | EmptyString => existsb cfinal cs
    | String a r => accepts_from (flat_map (cstep_on a) cs) r
    end.

  (** The word belongs to the language of state [q]. *)
  Definition taccepts (q : Q) (w : string) : bool := accepts_from [CTok EmptyString q] w.

  (** Declaratively: the token-level language of a state is the set of concatenations of token
      texts along accepting paths; a wildcard stands for any non-empty text. *)
  Inductive tacc : Q -> string -> Prop :=
  | tacc_nil q : final q = true -> tacc q EmptyString
  | tacc_lit q t q' w :
      In (TLit t, q') (next q) -> t <> EmptyString -> tacc q' w -> tacc q (append t w)
  | tacc_wild q q' u w :
      In (TWild, q') (next q) -> u <> EmptyString -> tacc q' w -> tacc q (append u w).

  Variable eqQ : Q -> Q -> bool.

  Definition cfg_eqb (c d : cfg) : bool :=
    match c, d with
    | CTok r q, CTok r' q' => String.eqb r r' && eqQ q q'
    | CWild q, CWild q' => eqQ q q'
    | _, _ => false
    end.
End Aut.

Arguments CTok {Q} rest q.
Arguments CWild {Q} q.

Section Product.
  Variables Q1 Q2 : Type.
  Variable next1 : Q1 -> list (tok * Q1).
  Variable next2 : Q2 -> list (tok * Q2).
  Variable final1 : Q1 -> bool.
  Variable final2 : Q2 -> bool.
  Variable eq1 : Q1 -> Q1 -> bool.
  Variable eq2 : Q2 -> Q2 -> bool.

  Definition ppair : Type := cfg Q1 * cfg Q2.

  (** The character two labels have in common, if any ([None] = any character). *)
  Definition joint (l1 l2 : option ascii) : option (option ascii) :=
    match l1, l2 with
    | None, l | l, None => Some l
    | Some a, Some b => if Ascii.eqb a b then Some (Some a) else None
    end.

  Definition psucc (p : ppair) : list (option ascii * ppair) :=
    flat_map (fun lc1 =>
                flat_map (fun lc2 =>
                            match joint (fst lc1) (fst lc2) with
                            | Some l => [(l, (snd lc1, snd lc2))]
                            | None => []
                            end) (cstep Q2 next2 (snd p)))
             (cstep Q1 next1 (fst p)).

  Definition pfinal (p : ppair) : bool := cfinal Q1 final1 (fst p) && cfinal Q2 final2 (snd p).

  Definition ppair_eqb (p q : ppair) : bool :=
    cfg_eqb Q1 eq1 (fst p) (fst q) && cfg_eqb Q2 eq2 (snd p) (snd q).

  Definition pmem (p : ppair) (l : list ppair) : bool := existsb (ppair_eqb p) l.

  Inductive presult := PFound (w : string) | PEmpty (visited : list ppair) | PUnknown.

  Definition witness_char (l : option ascii) : ascii :=
    match l with Some a => a | None => "_"%char end.

  Fixpoint string_of_rev (l : list ascii) (acc : string) : string :=
    match l with [] => acc | a :: r => string_of_rev r (String a acc) end.

  (** Breadth-first search over pairs of configurations; the word read so far is kept reversed. *)
  Fixpoint search (fuel : nat) (todo : list (ppair * list ascii)) (visited : list ppair) : presult :=
    match fuel with
    | O => PUnknown
    | S f =>
        match todo with
        | [] => PEmpty visited
        | (p, w) :: rest =>
            if pmem p visited then search f rest visited
            else if pfinal p then PFound (string_of_rev w EmptyString)
            else search f (rest ++ map (fun lp => (snd lp, witness_char (fst lp) :: w)) (psucc p))
                        (p :: visited)
        end
    end.

  Definition closed_ok (r : list ppair) (p0 : ppair) : bool :=
    pmem p0 r
    && forallb (fun p => negb (pfinal p) && forallb (fun lp => pmem (snd lp) r) (psucc p)) r.

  Definition search_fuel : nat := pow2 16.

  Definition start_pair (q1 : Q1) (q2 : Q2) : ppair := (CTok EmptyString q1, CTok EmptyString q2).

  (** [true]: no word is in both languages (checked); [false]: a common word was found or the
      search gave up. *)
  Definition disjoint (q1 : Q1) (q2 : Q2) : bool :=
    match search search_fuel [(start_pair q1 q2, [])] [] with
    | PEmpty r => closed_ok r (start_pair q1 q2)
    | _ => false
    end.

  (** A word both languages contain (re-checked by running both automata on it). *)
  Definition common_word (q1 : Q1) (q2 : Q2) : option string :=
    match search search_fuel [(start_pair q1 q2, [])] [] with
    | PFound w => if taccepts Q1 next1 final1 q1 w && taccepts Q2 next2 final2 q2 w
                  then Some w else None
    | _ => None
    end.
End Product.
