(** C08, specification side: the mistake classes of the property as decidable predicates on the
    *source* grammar (the parser's output) and the target shell, written from the property text.

    "Chosen definition" follows C11: when compiling for [sh], [<X>] stands for [<X@sh>] if
    present, else the plain definition, else a built-in, else any word. *)
From CG Require Import Base.Prelude Model.Ast Spec.Choice.

Inductive mclass :=
| MNoCallVariant | MVaryingNames | MSlashInName
| MDuplicatePlain | MDuplicateForShell
| MUnknownShell | MNonCommandForShell
| MCycle | MSubwordSpaces | MPlaceholderNotLast.

Definition mclass_eqb (a b : mclass) : bool :=
  match a, b with
  | MNoCallVariant, MNoCallVariant | MVaryingNames, MVaryingNames | MSlashInName, MSlashInName
  | MDuplicatePlain, MDuplicatePlain | MDuplicateForShell, MDuplicateForShell
  | MUnknownShell, MUnknownShell | MNonCommandForShell, MNonCommandForShell
  | MCycle, MCycle | MSubwordSpaces, MSubwordSpaces | MPlaceholderNotLast, MPlaceholderNotLast => true
  | _, _ => false
  end.

(** *** Statement-level classes *)
Definition call_names (g : grammar) : list string :=
  flat_map (fun s => match s with CallVariant n _ _ => [n] | _ => [] end) g.

Definition no_call_variant (g : grammar) : bool :=
  match call_names g with [] => true | _ => false end.

Definition varying_names (g : grammar) : bool :=
  match call_names g with
  | [] => false
  | n :: r => existsb (fun m => negb (String.eqb n m)) r
  end.

Definition slash_in_name (g : grammar) : bool :=
  existsb (contains_char "/"%char) (call_names g).

Definition plain_names (g : grammar) : list string :=
  flat_map (fun s => match s with NontermDef n _ None _ => [n] | _ => [] end) g.

Definition shell_names (g : grammar) (sh : shell) : list string :=
  flat_map (fun s => match s with
                     | NontermDef n _ (Some (shn, _)) _ => if is_shell shn sh then [n] else []
                     | _ => []
                     end) g.

Fixpoint has_dup (l : list string) : bool :=
  match l with
  | [] => false
  | x :: r => mem_str x r || has_dup r
  end.

Definition duplicate_plain (g : grammar) : bool := has_dup (plain_names g).
Definition duplicate_for_shell (g : grammar) (sh : shell) : bool := has_dup (shell_names g sh).

Definition unknown_shell (g : grammar) : bool :=
  existsb (fun s => match s with
                    | NontermDef _ _ (Some (shn, _)) _ =>
                        match shell_of_string shn with None => true | Some _ => false end
                    | _ => false
                    end) g.

Definition is_command (e : expr) : bool :=
  match e with Command _ _ _ _ => true | _ => false end.

(** "a shell-specific definition that is not an external command" (for any shell). *)
Definition non_command_for_shell (g : grammar) : bool :=
  existsb (fun s => match s with
                    | NontermDef _ _ (Some _) rhs => negb (is_command rhs)
                    | _ => false
                    end) g.

(** *** Dependency cycles among the plain definitions that are actually chosen *)

(** every reference, also below a description *)
Fixpoint all_refs (e : expr) : list string :=
  match e with
  | Terminal _ _ _ _ | Command _ _ _ _ => []
  | NontermRef n _ _ => [n]
  | Subword c _ _ | Optional c _ | Many1 c _ | DistDescr c _ _ => all_refs c
  | Sequence cs _ | Alternative cs _ | Fallback cs _ => flat_map all_refs cs
  end.

(** [<x>] stands for its plain definition when compiling for [sh] *)
Definition plain_chosen (g : grammar) (sh : shell) (x : string) : option expr :=
  match shell_definition g sh x with
  | Some _ => None
  | None => plain_definition g x
  end.

Definition depends (g : grammar) (sh : shell) (x y : string) : bool :=
  match plain_definition g x with
  | Some rhs => mem_str y (all_refs rhs) &&
                match plain_chosen g sh y with Some _ => true | None => false end
  | None => false
  end.

(** reachability in at most [n] further steps *)
Fixpoint reaches (g : grammar) (sh : shell) (n : nat) (x y : string) : bool :=
  depends g sh x y ||
  match n with
  | O => false
  | S k => existsb (fun z => depends g sh x z && reaches g sh k z y) (plain_names g)
  end.

Definition cyclic (g : grammar) (sh : shell) : bool :=
  existsb (fun x => reaches g sh (List.length (plain_names g)) x x) (plain_names g).

(** *** Inside a word *)

(** Expansion of the chosen plain definitions, on fuel (cycles are a different mistake). *)
Fixpoint expand (g : grammar) (sh : shell) (fuel : nat) (e : expr) : expr :=
  match fuel with
  | O => e
  | S k =>
      (fix go (e : expr) : expr :=
         match e with
         | Terminal _ _ _ _ | Command _ _ _ _ => e
         | NontermRef n _ _ =>
             match plain_chosen g sh n with
             | Some rhs => expand g sh k rhs
             | None => e
             end
         | Subword c l sp => Subword (go c) l sp
         | Optional c sp => Optional (go c) sp
         | Many1 c sp => Many1 (go c) sp
         | DistDescr c d sp => DistDescr (go c) d sp
         | Sequence cs sp => Sequence (map go cs) sp
         | Alternative cs sp => Alternative (map go cs) sp
         | Fallback cs sp => Fallback (map go cs) sp
         end) e
  end.

Fixpoint head_leaf (e : expr) : expr :=
  match e with
  | Sequence (c :: _) _ => head_leaf c
  | Subword c _ _ | DistDescr c _ _ => head_leaf c
  | _ => e
  end.

Fixpoint tail_leaf (e : expr) : expr :=
  match e with
  | Sequence cs _ =>
      (fix last_of (l : list expr) : expr :=
         match l with
         | [] => e
         | [c] => tail_leaf c
         | _ :: r => last_of r
         end) cs
  | Subword c _ _ | DistDescr c _ _ => tail_leaf c
  | _ => e
  end.

Definition is_literal (e : expr) : bool :=
  match e with Terminal _ _ _ _ => true | _ => false end.

Fixpoint adjacent_literals (cs : list expr) : bool :=
  match cs with
  | a :: ((b :: _) as r) =>
      (is_literal (tail_leaf a) && is_literal (head_leaf b)) || adjacent_literals r
  | _ => false
  end.

(** [spaced e juxt]: inside a word, does [e] contain a *space-separated* sequence with two
    adjacent literals?  [juxt] says that [e] itself is the juxtaposition at the root of a word
    (whose factors are not separated by spaces). *)
Fixpoint spaced (e : expr) (juxt : bool) : bool :=
  match e with
  | Terminal _ _ _ _ | NontermRef _ _ _ | Command _ _ _ _ => false
  | Sequence cs _ =>
      existsb (fun c => spaced c false) cs || (negb juxt && adjacent_literals cs)
  | Alternative cs _ | Fallback cs _ => existsb (fun c => spaced c false) cs
  | Optional c _ | Many1 c _ | DistDescr c _ _ => spaced c false
  | Subword c _ _ => spaced c true
  end.

(** every within-word expression of [e] *)
Fixpoint words_of (e : expr) : list expr :=
  match e with
  | Terminal _ _ _ _ | NontermRef _ _ _ | Command _ _ _ _ => []
  | Subword c _ _ => [c]
  | Optional c _ | Many1 c _ | DistDescr c _ _ => words_of c
  | Sequence cs _ | Alternative cs _ | Fallback cs _ => flat_map words_of cs
  end.

Definition call_exprs (g : grammar) : list expr :=
  flat_map (fun s => match s with CallVariant _ _ e => [e] | _ => [] end) g.

Definition fuel_of (g : grammar) : nat := S (List.length (plain_names g)).

Definition subword_spaces (g : grammar) (sh : shell) : bool :=
  existsb (fun e => existsb (fun w => spaced w true) (words_of (expand g sh (fuel_of g) e)))
          (call_exprs g).

(** a placeholder: a reference that stands for "any word" *)
Definition is_placeholder (builtins : shell -> list (string * string)) (g : grammar) (sh : shell)
           (e : expr) : bool :=
  match e with
  | NontermRef n _ _ => match Choice.spec builtins g sh n with ChAny => true | _ => false end
  | _ => false
  end.

Section Placeholders.
  Variable isph : expr -> bool.

  Fixpoint contains_ph (e : expr) : bool :=
    match e with
    | Terminal _ _ _ _ | Command _ _ _ _ => false
    | NontermRef _ _ _ => isph e
    | Subword c _ _ | Optional c _ | Many1 c _ | DistDescr c _ _ => contains_ph c
    | Sequence cs _ | Alternative cs _ | Fallback cs _ => existsb contains_ph cs
    end.

  (** every placeholder of [e] can only be the last thing its word matches *)
  Fixpoint ph_last (e : expr) : bool :=
    match e with
    | Terminal _ _ _ _ | Command _ _ _ _ | NontermRef _ _ _ => true
    | Sequence cs _ =>
        (fix go (l : list expr) : bool :=
           match l with
           | [] => true
           | [c] => ph_last c
           | c :: r => negb (contains_ph c) && go r
           end) cs
    | Alternative cs _ | Fallback cs _ => forallb ph_last cs
    | Optional c _ | DistDescr c _ _ | Subword c _ _ => ph_last c
    | Many1 c _ => negb (contains_ph c)
    end.
End Placeholders.

Definition placeholder_not_last (builtins : shell -> list (string * string)) (g : grammar)
           (sh : shell) : bool :=
  existsb (fun e => existsb (fun w => negb (ph_last (is_placeholder builtins g sh) w))
                            (words_of (expand g sh (fuel_of g) e)))
          (call_exprs g).

(** *** All classes present in a grammar *)
Definition present (builtins : shell -> list (string * string)) (g : grammar) (sh : shell)
  : list mclass :=
  (if no_call_variant g then [MNoCallVariant] else []) ++
  (if varying_names g then [MVaryingNames] else []) ++
  (if slash_in_name g then [MSlashInName] else []) ++
  (if duplicate_plain g then [MDuplicatePlain] else []) ++
  (if duplicate_for_shell g sh then [MDuplicateForShell] else []) ++
  (if unknown_shell g then [MUnknownShell] else []) ++
  (if non_command_for_shell g then [MNonCommandForShell] else []) ++
  (if cyclic g sh then [MCycle] else []) ++
  (if cyclic g sh then [] else
     (if subword_spaces g sh then [MSubwordSpaces] else []) ++
     (if placeholder_not_last builtins g sh then [MPlaceholderNotLast] else [])).

(** The converse's side conditions: shell-specific definitions only for names whose plain
    definition, if any, is an external command. *)
Definition specs_have_command_plain (g : grammar) : bool :=
  forallb (fun s => match s with
                    | NontermDef n _ (Some _) _ =>
                        match plain_definition g n with
                        | Some rhs => is_command rhs
                        | None => true
                        end
                    | _ => true
                    end) g.
