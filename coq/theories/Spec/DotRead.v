(** A reader for the subset of the Graphviz DOT language that complgen's two dumps use,
    transcribed from the language definition (https://graphviz.org/doc/info/lang.html):

<<
      graph     : [ strict ] (graph | digraph) [ ID ] '{' stmt_list '}'
      stmt_list : [ stmt [ ';' ] stmt_list ]
      stmt      : node_stmt | edge_stmt | attr_stmt | ID '=' ID | subgraph
      attr_stmt : (graph | node | edge) attr_list
      attr_list : '[' [ a_list ] ']' [ attr_list ]
      a_list    : ID '=' ID [ (';' | ',') ] [ a_list ]
      edge_stmt : node_id edgeRHS [ attr_list ]          (subgraphs as end points: not supported)
      edgeRHS   : '->' node_id [ edgeRHS ]               ('--' is an error in a digraph)
      node_stmt : node_id [ attr_list ]
      node_id   : ID                                     (ports: not supported)
      subgraph  : subgraph [ ID ] '{' stmt_list '}'      (anonymous '{...}': not supported)
>>
    An ID is an identifier (letters, bytes 128-255, underscores and digits, not starting with a
    digit), a numeral (optional minus, then .digits or digits[.[digits]]) or a double-quoted string; HTML strings are not supported.
    Keywords (node edge graph digraph subgraph strict) are case-independent and are not IDs unless
    quoted.  The language definition says: in quoted strings in DOT, the only escaped character
    is double-quote (DQ); that is, the dyad backslash-DQ is converted to DQ; all other characters
    are left unchanged; in particular, backslash-backslash remains backslash-backslash.  (So a
    backslash pair is consumed as a pair: in backslash-backslash-DQ the quote closes the string.)
    A backslash immediately before a newline joins the two physical lines.
    Comments: C-style block comments and // to the end of the line.  Anything outside this subset (ports, HTML
    strings, '+' concatenation, '#' preprocessor lines, '--') makes the reader fail: the reader is
    stricter than Graphviz, never more liberal.

    Meaning of a file (same document, "Subgraphs and clusters" and the paragraphs on defaults):
    a node is created when its name first appears and then takes the default node attributes in
    scope at that moment; a later mention only sets the attributes written at that mention;
    [node [..]] / [edge [..]] change the defaults for what is created afterwards in the same
    (sub)graph; a subgraph inherits the defaults of its parent at the time of its definition and
    changes made inside it end with it; a node mentioned inside a subgraph belongs to it (and to
    its parents); [ID = ID] and [graph [..]] set attributes of the enclosing (sub)graph.

    Escape sequences such as \n, \l, \\ inside a label are *not* part of the string syntax: they
    are interpreted when the label is rendered ("escString").  [render_label] models that level. *)
From CG Require Import Base.Prelude.

(** ** Characters *)
Definition ch (n : nat) : ascii := ascii_of_nat n.
Definition c_dq : ascii := """"%char.
Definition c_bs : ascii := "\"%char.
Definition c_nl : ascii := ch 10.
Definition c_cr : ascii := ch 13.
Definition c_tab : ascii := ch 9.

Definition in_range (lo hi : nat) (c : ascii) : bool :=
  let n := nat_of_ascii c in (Nat.leb lo n && Nat.leb n hi)%bool.

Definition is_digit (c : ascii) : bool := in_range 48 57 c.
Definition is_idstart (c : ascii) : bool :=
  in_range 97 122 c || in_range 65 90 c || Ascii.eqb c "_"%char || Nat.leb 128 (nat_of_ascii c).
Definition is_idchar (c : ascii) : bool := is_idstart c || is_digit c.
Definition is_space (c : ascii) : bool :=
  Ascii.eqb c " "%char || Ascii.eqb c c_tab || Ascii.eqb c c_nl || Ascii.eqb c c_cr.

Definition snoc (s : string) (c : ascii) : string := s ++ String c "".

(** ** Tokens *)
Inductive tok :=
| TId (s : string)      (* identifier, keyword or numeral, as written *)
| TQ (s : string)       (* double-quoted string, decoded *)
| TLB | TRB | TLS | TRS | TSemi | TComma | TEq | TArrow.

(** ** Lexer: a character-driven state machine (structural recursion on the text) *)
Inductive lstate :=
| L0                       (* between tokens *)
| LIdent (acc : string)
| LNum (acc : string)
| LMinus                   (* after '-' *)
| LQ (acc : string)        (* inside a quoted string *)
| LQB (acc : string)       (* inside a quoted string, after a backslash *)
| LSlash                   (* after '/' *)
| LLine                    (* // comment *)
| LBlock | LBlockStar.     (* block comment; after a star inside it *)

Fixpoint count_if (p : ascii -> bool) (s : string) : nat :=
  match s with
  | EmptyString => 0%nat
  | String c r => ((if p c then 1 else 0) + count_if p r)%nat
  end.

(** optional minus, then .digits or digits[.[digits]]: for a string made of an optional leading '-' followed by
    digits and dots: at least one digit, at most one dot. *)
Definition valid_numeral (s : string) : bool :=
  let body := match s with String c r => if Ascii.eqb c "-"%char then r else s | _ => s end in
  Nat.leb 1 (count_if is_digit body) && Nat.leb (count_if (Ascii.eqb "."%char) body) 1.

Definition step0 (c : ascii) : option (lstate * list tok) :=
  if is_space c then Some (L0, [])
  else if Ascii.eqb c "{"%char then Some (L0, [TLB])
  else if Ascii.eqb c "}"%char then Some (L0, [TRB])
  else if Ascii.eqb c "["%char then Some (L0, [TLS])
  else if Ascii.eqb c "]"%char then Some (L0, [TRS])
  else if Ascii.eqb c ";"%char then Some (L0, [TSemi])
  else if Ascii.eqb c ","%char then Some (L0, [TComma])
  else if Ascii.eqb c "="%char then Some (L0, [TEq])
  else if Ascii.eqb c c_dq then Some (LQ "", [])
  else if Ascii.eqb c "-"%char then Some (LMinus, [])
  else if Ascii.eqb c "/"%char then Some (LSlash, [])
  else if is_idstart c then Some (LIdent (String c ""), [])
  else if is_digit c || Ascii.eqb c "."%char then Some (LNum (String c ""), [])
  else None.

Definition emit_then (t : tok) (c : ascii) : option (lstate * list tok) :=
  match step0 c with
  | Some (st, ts) => Some (st, t :: ts)
  | None => None
  end.

Definition lstep (st : lstate) (c : ascii) : option (lstate * list tok) :=
  match st with
  | L0 => step0 c
  | LIdent acc => if is_idchar c then Some (LIdent (snoc acc c), []) else emit_then (TId acc) c
  | LNum acc =>
      if is_digit c || Ascii.eqb c "."%char then Some (LNum (snoc acc c), [])
      else if is_idstart c then None              (* "badly delimited number" *)
      else if valid_numeral acc then emit_then (TId acc) c else None
  | LMinus =>
      if Ascii.eqb c ">"%char then Some (L0, [TArrow])
      else if is_digit c || Ascii.eqb c "."%char then Some (LNum (String "-"%char (String c "")), [])
      else None
  | LQ acc =>
      if Ascii.eqb c c_dq then Some (L0, [TQ acc])
      else if Ascii.eqb c c_bs then Some (LQB acc, [])
      else Some (LQ (snoc acc c), [])
  | LQB acc =>
      if Ascii.eqb c c_dq then Some (LQ (snoc acc c_dq), [])
      else if Ascii.eqb c c_bs then Some (LQ (snoc (snoc acc c_bs) c_bs), [])
      else if Ascii.eqb c c_nl then Some (LQ acc, [])
      else Some (LQ (snoc (snoc acc c_bs) c), [])
  | LSlash =>
      if Ascii.eqb c "/"%char then Some (LLine, [])
      else if Ascii.eqb c "*"%char then Some (LBlock, [])
      else None
  | LLine => if Ascii.eqb c c_nl then Some (L0, []) else Some (LLine, [])
  | LBlock => if Ascii.eqb c "*"%char then Some (LBlockStar, []) else Some (LBlock, [])
  | LBlockStar =>
      if Ascii.eqb c "/"%char then Some (L0, [])
      else if Ascii.eqb c "*"%char then Some (LBlockStar, [])
      else Some (LBlock, [])
  end.

Definition lfinish (st : lstate) : option (list tok) :=
  match st with
  | L0 | LLine => Some []
  | LIdent acc => Some [TId acc]
  | LNum acc => if valid_numeral acc then Some [TId acc] else None
  | _ => None
  end.

Fixpoint lex_from (st : lstate) (s : string) : option (list tok) :=
  match s with
  | EmptyString => lfinish st
  | String c r =>
      match lstep st c with
      | Some (st', ts) =>
          match lex_from st' r with Some more => Some (ts ++ more) | None => None end
      | None => None
      end
  end.

Definition lex (s : string) : option (list tok) := lex_from L0 s.

(** The quoted-string rule alone, for the codec leaf: reads a string that starts just after the
    opening quote; returns the decoded content and the text after the closing quote. *)
Fixpoint read_quoted_from (st : lstate) (s : string) : option (string * string) :=
  match s with
  | EmptyString => None
  | String c r =>
      match st, lstep st c with
      | LQ _, Some (L0, [TQ v]) => Some (v, r)
      | _, Some (st', _) => read_quoted_from st' r
      | _, None => None
      end
  end.

(** [read_quoted text]: [text] starts with the opening quote. *)
Definition read_quoted (s : string) : option (string * string) :=
  match s with
  | String c r => if Ascii.eqb c c_dq then read_quoted_from (LQ "") r else None
  | EmptyString => None
  end.

(** ** Abstract syntax *)
Definition attrs := list (string * string).

Inductive akind := KGraph | KNode | KEdge.

Inductive stmt :=
| SAttr (k : akind) (a : attrs)
| SNode (id : string) (a : attrs)
| SEdge (ids : list string) (a : attrs)       (* at least two end points *)
| SAssign (k v : string)
| SSub (name : option string) (body : list stmt).

Record ast := mkast { a_strict : bool; a_directed : bool; a_name : option string; a_body : list stmt }.

(** ** Parser *)
Definition lower_char (c : ascii) : ascii :=
  if in_range 65 90 c then ascii_of_nat (nat_of_ascii c + 32) else c.
Fixpoint lower (s : string) : string :=
  match s with EmptyString => EmptyString | String c r => String (lower_char c) (lower r) end.

Inductive keyword := KwNode | KwEdge | KwGraph | KwDigraph | KwSubgraph | KwStrict.

Definition keyword_of (s : string) : option keyword :=
  let l := lower s in
  if String.eqb l "node" then Some KwNode
  else if String.eqb l "edge" then Some KwEdge
  else if String.eqb l "graph" then Some KwGraph
  else if String.eqb l "digraph" then Some KwDigraph
  else if String.eqb l "subgraph" then Some KwSubgraph
  else if String.eqb l "strict" then Some KwStrict
  else None.

(** The ID a token stands for, if any. *)
Definition tok_id (t : tok) : option string :=
  match t with
  | TQ s => Some s
  | TId s => match keyword_of s with Some _ => None | None => Some s end
  | _ => None
  end.

Definition tok_kw (t : tok) : option keyword :=
  match t with TId s => keyword_of s | _ => None end.

(** a_list after an opening bracket, up to and including the closing bracket; a directly
    following attr_list is read into the same list.  Structural on the tokens. *)
Fixpoint p_alist (ts : list tok) (acc : attrs) : option (attrs * list tok) :=
  match ts with
  | TRS :: TLS :: r => p_alist r acc
  | TRS :: r => Some (acc, r)
  | k :: TEq :: v :: r =>
      match tok_id k, tok_id v with
      | Some k', Some v' =>
          match r with
          | TSemi :: r2 => p_alist r2 (acc ++ [(k', v')])
          | TComma :: r2 => p_alist r2 (acc ++ [(k', v')])
          | _ => p_alist r (acc ++ [(k', v')])
          end
      | _, _ => None
      end
  | _ => None
  end.

(** [ attr_list ] *)
Definition p_opt_alist (ts : list tok) : option (attrs * list tok) :=
  match ts with
  | TLS :: r => p_alist r []
  | _ => Some ([], ts)
  end.

(** edgeRHS after the first end point: ('->' ID)* ; structural. *)
Fixpoint p_edge_rhs (ts : list tok) (acc : list string) : option (list string * list tok) :=
  match ts with
  | TArrow :: t :: r =>
      match tok_id t with
      | Some i => p_edge_rhs r (acc ++ [i])
      | None => None
      end
  | _ => Some (acc, ts)
  end.

(** One statement; [body] parses a stmt_list up to and including the closing brace. *)
Definition p_stmt (body : list tok -> option (list stmt * list tok)) (ts : list tok)
  : option (stmt * list tok) :=
  match ts with
  | [] => None
  | t :: r =>
      match tok_kw t with
      | Some KwNode | Some KwEdge | Some KwGraph =>
          let k := match tok_kw t with Some KwNode => KNode | Some KwEdge => KEdge | _ => KGraph end in
          match r with
          | TLS :: r1 =>
              match p_alist r1 [] with
              | Some (a, r2) => Some (SAttr k a, r2)
              | None => None
              end
          | _ => None
          end
      | Some KwSubgraph =>
          match r with
          | TLB :: r1 =>
              match body r1 with Some (ss, r2) => Some (SSub None ss, r2) | None => None end
          | n :: TLB :: r1 =>
              match tok_id n with
              | Some name =>
                  match body r1 with Some (ss, r2) => Some (SSub (Some name) ss, r2) | None => None end
              | None => None
              end
          | _ => None
          end
      | Some _ => None
      | None =>
          match tok_id t with
          | None => None
          | Some i =>
              match r with
              | TEq :: v :: r1 =>
                  match tok_id v with Some v' => Some (SAssign i v', r1) | None => None end
              | TArrow :: _ =>
                  match p_edge_rhs r [i] with
                  | Some (ids, r1) =>
                      match p_opt_alist r1 with
                      | Some (a, r2) => Some (SEdge ids a, r2)
                      | None => None
                      end
                  | None => None
                  end
              | _ =>
                  match p_opt_alist r with
                  | Some (a, r1) => Some (SNode i a, r1)
                  | None => None
                  end
              end
          end
      end
  end.

Definition skip_semi (ts : list tok) : list tok :=
  match ts with TSemi :: r => r | _ => ts end.

(** stmt_list '}' *)
Fixpoint p_stmts (fuel : nat) (ts : list tok) : option (list stmt * list tok) :=
  match fuel with
  | O => None
  | S f =>
      match ts with
      | TRB :: r => Some ([], r)
      | _ =>
          match p_stmt (p_stmts f) ts with
          | Some (s, r) =>
              match p_stmts f (skip_semi r) with
              | Some (ss, r') => Some (s :: ss, r')
              | None => None
              end
          | None => None
          end
      end
  end.

Definition p_graph (ts : list tok) : option ast :=
  let '(strict, ts1) :=
    match ts with
    | t :: r => match tok_kw t with Some KwStrict => (true, r) | _ => (false, ts) end
    | [] => (false, ts)
    end in
  match ts1 with
  | t :: r =>
      match tok_kw t with
      | Some KwGraph | Some KwDigraph =>
          let directed := match tok_kw t with Some KwDigraph => true | _ => false end in
          let '(name, r1) :=
            match r with
            | n :: r' => match tok_id n with Some i => (Some i, r') | None => (None, r) end
            | [] => (None, r)
            end in
          match r1 with
          | TLB :: r2 =>
              match p_stmts (S (List.length r2)) r2 with
              | Some (ss, []) => Some (mkast strict directed name ss)
              | _ => None
              end
          | _ => None
          end
      | _ => None
      end
  | [] => None
  end.

(** ** Meaning: the graph a file denotes *)
Record gnode := mkgnode { gn_id : string; gn_attrs : attrs }.
Record gedge := mkgedge { ge_src : string; ge_dst : string; ge_attrs : attrs }.
Inductive cluster :=
| Cluster (name : option string) (gattrs : attrs) (members : list string) (subs : list cluster).

Record graph := mkgraph {
  g_strict : bool;
  g_directed : bool;
  g_name : option string;
  g_attrs : attrs;
  g_nodes : list gnode;       (* in order of creation *)
  g_edges : list gedge;       (* in order of appearance *)
  g_subs : list cluster
}.

(** set an attribute: in place when present, appended otherwise *)
Fixpoint set_attr (k v : string) (a : attrs) : attrs :=
  match a with
  | [] => [(k, v)]
  | (k', v') :: r => if String.eqb k k' then (k, v) :: r else (k', v') :: set_attr k v r
  end.

Definition set_attrs (new : attrs) (a : attrs) : attrs :=
  fold_left (fun acc kv => set_attr (fst kv) (snd kv) acc) new a.

Definition add_member (i : string) (l : list string) : list string :=
  if mem_str i l then l else l ++ [i].

Definition add_members (new : list string) (l : list string) : list string :=
  fold_left (fun acc i => add_member i acc) new l.

Fixpoint has_node (i : string) (ns : list gnode) : bool :=
  match ns with [] => false | n :: r => String.eqb i (gn_id n) || has_node i r end.

Fixpoint update_node (i : string) (a : attrs) (ns : list gnode) : list gnode :=
  match ns with
  | [] => []
  | n :: r => if String.eqb i (gn_id n) then mkgnode (gn_id n) (set_attrs a (gn_attrs n)) :: r
              else n :: update_node i a r
  end.

(** what is being built: the objects of the whole graph ... *)
Record objs := mkobjs { o_nodes : list gnode; o_edges : list gedge }.
(** ... and the (sub)graph the statements are read in *)
Record scope := mkscope {
  s_ndef : attrs; s_edef : attrs; s_gattrs : attrs; s_members : list string; s_subs : list cluster
}.

(** a mention of node [i] in the current scope *)
Definition touch (i : string) (st : objs * scope) : objs * scope :=
  let '(o, sc) := st in
  let o' := if has_node i (o_nodes o) then o
            else mkobjs (o_nodes o ++ [mkgnode i (s_ndef sc)]) (o_edges o) in
  (o', mkscope (s_ndef sc) (s_edef sc) (s_gattrs sc) (add_member i (s_members sc)) (s_subs sc)).

Fixpoint edges_of (ids : list string) (a : attrs) : list gedge :=
  match ids with
  | x :: ((y :: _) as r) => mkgedge x y a :: edges_of r a
  | _ => []
  end.

Fixpoint run_stmt (s : stmt) (st : objs * scope) : objs * scope :=
  match s with
  | SAttr KNode a =>
      let '(o, sc) := st in
      (o, mkscope (set_attrs a (s_ndef sc)) (s_edef sc) (s_gattrs sc) (s_members sc) (s_subs sc))
  | SAttr KEdge a =>
      let '(o, sc) := st in
      (o, mkscope (s_ndef sc) (set_attrs a (s_edef sc)) (s_gattrs sc) (s_members sc) (s_subs sc))
  | SAttr KGraph a =>
      let '(o, sc) := st in
      (o, mkscope (s_ndef sc) (s_edef sc) (set_attrs a (s_gattrs sc)) (s_members sc) (s_subs sc))
  | SAssign k v =>
      let '(o, sc) := st in
      (o, mkscope (s_ndef sc) (s_edef sc) (set_attr k v (s_gattrs sc)) (s_members sc) (s_subs sc))
  | SNode i a =>
      let '(o, sc) := touch i st in
      (mkobjs (update_node i a (o_nodes o)) (o_edges o), sc)
  | SEdge ids a =>
      let '(o, sc) := fold_left (fun acc i => touch i acc) ids st in
      (mkobjs (o_nodes o) (o_edges o ++ edges_of ids (set_attrs a (s_edef sc))), sc)
  | SSub name body =>
      let '(o, sc) := st in
      let inner0 := mkscope (s_ndef sc) (s_edef sc) [] [] [] in
      let '(o', inner) :=
        (fix go (l : list stmt) (st : objs * scope) : objs * scope :=
           match l with [] => st | x :: r => go r (run_stmt x st) end) body (o, inner0) in
      (o', mkscope (s_ndef sc) (s_edef sc) (s_gattrs sc)
                   (add_members (s_members inner) (s_members sc))
                   (s_subs sc ++ [Cluster name (s_gattrs inner) (s_members inner) (s_subs inner)]))
  end.

Definition run_stmts (l : list stmt) (st : objs * scope) : objs * scope :=
  fold_left (fun acc s => run_stmt s acc) l st.

Definition graph_of_ast (a : ast) : graph :=
  let '(o, sc) := run_stmts (a_body a) (mkobjs [] [], mkscope [] [] [] [] []) in
  mkgraph (a_strict a) (a_directed a) (a_name a) (s_gattrs sc) (o_nodes o) (o_edges o) (s_subs sc).

Definition read (s : string) : option graph :=
  match lex s with
  | Some ts => match p_graph ts with Some a => Some (graph_of_ast a) | None => None end
  | None => None
  end.

(** ** Label rendering (escString): what a reader of the drawing sees.
    [\\] is a backslash; [\n], [\l], [\r] end a line (centred, left, right justified: all shown
    as a line feed here); [\N], [\G], [\E], [\T], [\H], [\L] are replaced by object names (shown
    as nothing here); a backslash before any other character is dropped; a final lone backslash
    is kept. *)
Fixpoint render_label (s : string) : string :=
  match s with
  | EmptyString => EmptyString
  | String c r =>
      if Ascii.eqb c c_bs then
        match r with
        | EmptyString => String c EmptyString
        | String d r' =>
            if Ascii.eqb d "n"%char || Ascii.eqb d "l"%char || Ascii.eqb d "r"%char
            then String c_nl (render_label r')
            else if Ascii.eqb d "N"%char || Ascii.eqb d "G"%char || Ascii.eqb d "E"%char
                    || Ascii.eqb d "T"%char || Ascii.eqb d "H"%char || Ascii.eqb d "L"%char
            then render_label r'
            else String d (render_label r')
        end
      else String c (render_label r)
  end.
