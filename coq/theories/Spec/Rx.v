(** Regular expressions over an arbitrary type of leaves, their linear forms (Antimirov partial
    derivatives by a leaf) and a boolean equality.  Used by [Spec.Meaning] twice: over the items
    a grammar expects as whole shell words, and over the pieces a within-word expression is
    made of.  Executable definitions only; the lemmas are in [Proofs/RxFacts.v]. *)
From CG Require Import Base.Prelude.

Inductive rx (A : Type) : Type :=
| Zero                       (* no sentence at all *)
| Eps                        (* the empty sentence *)
| Leaf (a : A)
| Cat (r s : rx A)
| Alt (r s : rx A)
| Plus (r : rx A).           (* one or more *)
Arguments Zero {A}.
Arguments Eps {A}.
Arguments Leaf {A} a.
Arguments Cat {A} r s.
Arguments Alt {A} r s.
Arguments Plus {A} r.

Section Rx.
  Context {A : Type}.

  Fixpoint nullable (r : rx A) : bool :=
    match r with
    | Zero => false
    | Eps => true
    | Leaf _ => false
    | Cat r s => nullable r && nullable s
    | Alt r s => nullable r || nullable s
    | Plus r => nullable r
    end.

  (** Concatenation that does not pile up [Eps]/[Zero] (keeps residuals small and comparable). *)
  Definition cat (r s : rx A) : rx A :=
    match r, s with
    | Zero, _ => Zero
    | _, Zero => Zero
    | Eps, _ => s
    | _, Eps => r
    | _, _ => Cat r s
    end.

  Definition alt (r s : rx A) : rx A :=
    match r, s with
    | Zero, _ => s
    | _, Zero => r
    | _, _ => Alt r s
    end.

  (** Zero or more. *)
  Definition star (r : rx A) : rx A := Alt (Plus r) Eps.

  (** Linear form: every way of reading one leaf first, with what remains to be read after it. *)
  Fixpoint lf (r : rx A) : list (A * rx A) :=
    match r with
    | Zero | Eps => []
    | Leaf a => [(a, Eps)]
    | Alt r s => lf r ++ lf s
    | Cat r s => map (fun ak => (fst ak, cat (snd ak) s)) (lf r) ++ (if nullable r then lf s else [])
    | Plus r => map (fun ak => (fst ak, cat (snd ak) (star r))) (lf r)
    end.

  (** All leaves, left to right. *)
  Fixpoint leaves (r : rx A) : list A :=
    match r with
    | Zero | Eps => []
    | Leaf a => [a]
    | Cat r s | Alt r s => leaves r ++ leaves s
    | Plus r => leaves r
    end.

  Variable eqA : A -> A -> bool.

  Fixpoint rx_eqb (r s : rx A) : bool :=
    match r, s with
    | Zero, Zero => true
    | Eps, Eps => true
    | Leaf a, Leaf b => eqA a b
    | Cat r1 r2, Cat s1 s2 => rx_eqb r1 s1 && rx_eqb r2 s2
    | Alt r1 r2, Alt s1 s2 => rx_eqb r1 s1 && rx_eqb r2 s2
    | Plus r1, Plus s1 => rx_eqb r1 s1
    | _, _ => false
    end.

  Definition mem_rx (r : rx A) (l : list (rx A)) : bool := existsb (rx_eqb r) l.

  (** Duplicate-free version of a list of residuals (first occurrences kept). *)
  Fixpoint dedup_rx (l : list (rx A)) : list (rx A) :=
    match l with
    | [] => []
    | r :: rest => let d := dedup_rx rest in if mem_rx r d then d else r :: d
    end.
End Rx.
