(** C17 including within-word expressions, as an executable function of the emitted tables.

    Inside a word (the property: "inside a word only the part after what the word has already matched, and that
    matched part as second argument"), at a point of the within-word automaton with [rest] still to read:
    - the pieces expected there are the literals that have a transition from the point, then the commands expected
      there (in bash's enumeration order, an oracle);
    - a command at the point is run with ([rest], part already matched); its candidates are the text before the
      first tab of every line of its output ([spec_candidates]);
    - among the expected literals -- resp. the candidates of one command -- the LONGEST one that is a non-empty
      prefix of [rest] is consumed; when completing, the walk instead stops in front of the pieces as soon as [rest]
      is a proper prefix of one of them (that piece is being typed);
    - <any word> ends the word; a complete word matches iff it is consumed entirely ending in an accepting state;
    - completion at the point reached: per fallback level, the expected literals and, for every expected command,
      one run with ([rest], matched part); a candidate extending [rest] is offered with the matched part in front.
    At top level this extends Spec/Invocations.v: literal > within-word expression > command > <any word>. *)
From CG Require Import Base.Prelude Model.Dfa Model.Glob Model.BashSem Spec.Invocations.

Definition nonempty (s : string) : bool := match s with EmptyString => false | _ => true end.
Definition proper_prefix (r t : string) : bool := String.prefix r t && negb (String.eqb r t).

(** the longest item whose non-empty text is a prefix of [r] (the first one among equally long ones) *)
Fixpoint longest_prefix (items : list (string * N)) (r : string) (best : option (string * N)) : option (string * N) :=
  match items with
  | [] => best
  | (t, to) :: rest =>
    let best' :=
      if nonempty t && String.prefix t r then
        match best with
        | Some (b, _) => if Nat.ltb (String.length b) (String.length t) then Some (t, to) else best
        | None => Some (t, to)
        end
      else best in
    longest_prefix rest r best'
  end.

Definition spec_pick (complete : bool) (items : list (string * N)) (r : string) : step :=
  if complete && existsb (fun it => proper_prefix r (fst it)) items then SBreak
  else match longest_prefix items r None with
       | Some (t, to) => SCont to (String.length t)
       | None => SNone
       end.

(** the same choice among the candidates of one command (they all lead to [to]) *)
Definition spec_pick_cands (complete : bool) (cands : list string) (to : N) (r : string) : step :=
  if complete && existsb (proper_prefix r) cands then SBreak
  else match fold_right Nat.max 0%nat
                        (map (fun c => if nonempty c && String.prefix c r then String.length c else 0%nat) cands) with
       | O => SNone
       | L => SCont to L
       end.

(** the literals expected at a within-word point: those with a transition from it, with their targets *)
Definition expected_literals (T : tables) (st : list (N * N)) : list (string * N) :=
  flat_map (fun il => match assocN (fst il) st with Some to => [(snd il, to)] | None => [] end)
           (indexed_from 0 (literal_texts T)).

Fixpoint spec_sw_cmds (complete : bool) (tabs : alltables) (e : env) (cmds : list (N * N))
         (rest matched : string) (log : list invocation) : M (step * list invocation) :=
  match cmds with
  | [] => Ok (SNone, log)
  | (cid, to) :: r =>
    do (cands, log1) <- spec_call tabs e cid rest matched log;
    match spec_pick_cands complete cands to rest with
    | SNone => spec_sw_cmds complete tabs e r rest matched log1
    | s => Ok (s, log1)
    end
  end.

(** the walk inside a word: (matched, point reached, characters consumed, log) *)
Fixpoint spec_sw_loop (fuel : nat) (complete : bool) (tabs : alltables) (e : env) (T : tables) (acc : list N)
         (word : string) (state : N) (ci : nat) (log : list invocation)
  : M (bool * N * nat * list invocation) :=
  match fuel with
  | O => OutOfFuel
  | S fuel' =>
    if Nat.leb (String.length word) ci then Ok (complete || memN state acc, state, ci, log)
    else if negb complete && match t_mstar T with Some stars => has_key state stars | None => false end
    then Ok (true, state, ci, log)          (* a point that expects an undefined nonterminal accepts whatever is left *)
    else
      let rest := sdrop ci word in
      match (match assocN state (t_mlit T) with
             | Some st => spec_pick complete (expected_literals T st) rest
             | None => SNone
             end) with
      | SCont st adv => spec_sw_loop fuel' complete tabs e T acc word st (ci + adv) log
      | SBreak => Ok (false, state, ci, log)
      | SNone =>
        do (s2, log2) <- match t_mcmd T with
                         | Some ct =>
                           match assocN state ct with
                           | Some row => spec_sw_cmds complete tabs e (assoc_of row) rest (stake ci word) log
                           | None => Ok (SNone, log)
                           end
                         | None => Ok (SNone, log)
                         end;
        match s2 with
        | SCont st adv => spec_sw_loop fuel' complete tabs e T acc word st (ci + adv) log2
        | SBreak => Ok (false, state, ci, log2)
        | SNone =>
          match t_mstar T with
          | Some stars => if has_key state stars then Ok (true, state, ci, log2) else Ok (false, state, ci, log2)
          | None => Ok (false, state, ci, log2)
          end
        end
      end
  end.

(** completion at the point reached *)
Fixpoint spec_sw_cmds_level (tabs : alltables) (e : env) (cids : list N) (rest matched : string)
         (offered : list string) (log : list invocation) : M (list string * list invocation) :=
  match cids with
  | [] => Ok (offered, log)
  | cid :: r =>
    do (cands, log1) <- spec_call tabs e cid rest matched log;
    spec_sw_cmds_level tabs e r rest matched
                       (offered ++ map (append matched) (filter (String.prefix rest) cands)) log1
  end.

Fixpoint spec_sw_levels (n : nat) (level : nat) (tabs : alltables) (e : env) (T : tables) (state : N)
         (matched rest : string) (log : list invocation) : M (list string * list invocation) :=
  match n with
  | O => Ok ([], log)
  | S n' =>
    let lits := map (fun id => (matched ++ literal_at T id)%string) (level_row (t_clit T) level state) in
    let offered0 := filter (String.prefix (matched ++ rest)) lits in
    do (offered, log1) <- match t_ccmd T with
                          | Some cc => spec_sw_cmds_level tabs e (level_row cc level state) rest matched offered0 log
                          | None => Ok (offered0, log)
                          end;
    match offered with
    | [] => spec_sw_levels n' (S level) tabs e T state matched rest log1
    | _ => Ok (offered, log1)
    end
  end.

Definition spec_subword_matches (tabs : alltables) (e : env) (T : tables) (acc : list N) (word : string)
           (log : list invocation) : M (bool * list invocation) :=
  do (m, _, _, log1) <- spec_sw_loop (sw_fuel T word) false tabs e T acc word 0 0 log;
  Ok (m, log1).

Definition spec_subword_complete (tabs : alltables) (e : env) (T : tables) (word : string)
           (log : list invocation) : M (list string * list invocation) :=
  do (_, state, ci, log1) <- spec_sw_loop (sw_fuel T word) true tabs e T [] word 0 0 log;
  spec_sw_levels (S (N.to_nat (t_maxlevel T))) 0 tabs e T state (stake ci word) (sdrop ci word) log1.

(** *** top level with within-word expressions *)
Fixpoint spec_sub_loop (tabs : alltables) (e : env) (row : list (N * N)) (word : string)
         (log : list invocation) : M (option N * list invocation) :=
  match row with
  | [] => Ok (None, log)
  | (sid, to) :: r =>
    match subword_tables (a_subwords tabs) sid with
    | None => Err "no within-word function with this id"
    | Some T =>
      do (m, log1) <- spec_subword_matches tabs e T (sub_accepting tabs sid) word log;
      if m then Ok (Some to, log1) else spec_sub_loop tabs e r word log1
    end
  end.

Fixpoint spec_cmd_loop_sw (tabs : alltables) (e : env) (cmds : list (N * N)) (word : string)
         (log : list invocation) : M (option N * list invocation) :=
  match cmds with
  | [] => Ok (None, log)
  | (cid, to) :: r =>
    do (cands, log1) <- spec_call tabs e cid EmptyString EmptyString log;
    if existsb (String.eqb word) cands then Ok (Some to, log1)
    else spec_cmd_loop_sw tabs e r word log1
  end.

Fixpoint spec_walk_sw (tabs : alltables) (e : env) (state : N) (words : list string) (log : list invocation)
  : M (option N * list invocation) :=
  match words with
  | [] => Ok (Some state, log)
  | word :: rest =>
    let T := a_main tabs in
    match (match assocN state (t_mlit T) with
           | Some st => top_lit_loop (indexed_from 0 (literal_texts T)) st word
           | None => None
           end) with
    | Some to => spec_walk_sw tabs e to rest log
    | None =>
      do (s1, log1) <- match assocN state (a_subtrans tabs) with
                       | Some row =>
                         do srow <- sub_row (a_subwords tabs) row;
                         spec_sub_loop tabs e (assoc_of srow) word log
                       | None => Ok (None, log)
                       end;
      match s1 with
      | Some to => spec_walk_sw tabs e to rest log1
      | None =>
        do (s2, log2) <- match t_mcmd T with
                         | Some ct =>
                           match assocN state ct with
                           | Some row => spec_cmd_loop_sw tabs e (assoc_of row) word log1
                           | None => Ok (None, log1)
                           end
                         | None => Ok (None, log1)
                         end;
        match s2 with
        | Some to => spec_walk_sw tabs e to rest log2
        | None =>
          match (match t_mstar T with Some stars => assocN state stars | None => None end) with
          | Some to => spec_walk_sw tabs e to rest log2
          | None => Ok (None, log2)
          end
        end
      end
    end
  end.

Fixpoint spec_subs_level (tabs : alltables) (e : env) (sids : list N) (prefix : string)
         (offered : list string) (log : list invocation) : M (list string * list invocation) :=
  match sids with
  | [] => Ok (offered, log)
  | sid :: r =>
    match subword_tables (a_subwords tabs) sid with
    | None => Err "no within-word function with this id"
    | Some T =>
      do (add, log1) <- spec_subword_complete tabs e T prefix log;
      spec_subs_level tabs e r prefix (offered ++ add) log1
    end
  end.

Fixpoint spec_levels_sw (n : nat) (level : nat) (tabs : alltables) (e : env) (state : N) (prefix : string)
         (log : list invocation) : M (list string * list invocation) :=
  match n with
  | O => Ok ([], log)
  | S n' =>
    let T := a_main tabs in
    let lits := map (fun id => (literal_at T id ++ " ")%string) (level_row (t_clit T) level state) in
    do (offered1, log1) <- spec_subs_level tabs e (level_row (a_csub tabs) level state) prefix
                                           (filter (String.prefix prefix) lits) log;
    do (offered2, log2) <- match t_ccmd T with
                           | Some cc => spec_cmds_level tabs e (level_row cc level state) prefix offered1 log1
                           | None => Ok (offered1, log1)
                           end;
    match offered2 with
    | [] => spec_levels_sw n' (S level) tabs e state prefix log2
    | _ => do reply <- strip_reply e prefix offered2; Ok (reply, log2)
    end
  end.

Definition spec_run_sw (start : N) (tabs : alltables) (e : env) (words : list string) (prefix : string) : M result :=
  do (st, log) <- spec_walk_sw tabs e start words [];
  match st with
  | None => Ok (mkresult 1 [] (rev log))
  | Some state =>
    do (reply, log1) <- spec_levels_sw (S (N.to_nat (t_maxlevel (a_main tabs)))) 0 tabs e state prefix log;
    Ok (mkresult 0 reply (rev log1))
  end.
