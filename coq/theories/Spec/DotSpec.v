(** What property C16 prescribes for the two Graphviz files, written from the property text.

    --dfa: "a syntactically valid Graphviz digraph with one node per automaton state (numbered as in
    the emitted script), the start and accepting states marked, one labelled edge per transition and
    one cluster per within-word automaton".  Conventions fixed here (the property leaves them open,
    they are the tool's documented look):
      - the node of state [s] of the main automaton is [_N] with label [N], N = s + base, where
        [base] is the first array index of the target shell (0 bash/pwsh, 1 fish/zsh: the numbers
        the emitted script uses); the node of state [s] of the within-word automaton numbered [K]
        in the script is [_K_N] with label [K_N];
      - marks: start state octagon (doubleoctagon when it also accepts), other accepting states
        doublecircle, all others circle;
      - the label of an edge *renders* ([DotRead.render_label]) to the display text of the item:
        [lit (level)], [lit "description" (level)] with the description in Rust string-literal
        notation, [*] for a nonterminal, [{{{ cmd }}}] and [{{{ cmd }}}compadd] for commands;
      - a transition on a within-word automaton K is drawn as a dashed edge from the source state
        to the start state of cluster K and dashed edges from every accepting state of cluster K
        to the target state;
      - cluster K is [cluster_K] with label [subword K] and contains exactly the nodes of that
        automaton; K = base + rank of the automaton in order of first use by a transition.

    --regex: "a valid digraph in which every expected item of the grammar appears as a labelled
    node": for every position [p] of the regex there is a node whose label renders to
    [p: "literal"] (followed by a line break and ["description"] when there is one), [p: <NAME>],
    [p: command] or [p: Subword R]; the same inside [cluster_R] for every within-word regex R. *)
From Coq Require Import DecimalString Permutation.
From CG Require Import Base.Prelude Model.Dfa Spec.DotRead.

Local Infix "+++" := append (right associativity, at level 60).

Definition decimal (n : N) : string := NilEmpty.string_of_uint (N.to_uint n).

Definition sdq : string := String """"%char "".
Definition sbs : string := String "\"%char "".

(** ** Display text of an item *)

(** one character of a Rust string literal (ASCII; bytes >= 128 are written as they are) *)
Definition rust_char (c : ascii) : string :=
  let n := N_of_ascii c in
  if n =? 34 then sbs +++ sdq
  else if n =? 92 then sbs +++ sbs
  else if n =? 10 then sbs +++ "n"
  else if n =? 13 then sbs +++ "r"
  else if n =? 9 then sbs +++ "t"
  else if n =? 0 then sbs +++ "0"
  else if (n <? 32) || (n =? 127) then
    let hd := fun k : N => if k <? 10 then ascii_of_N (48 + k) else ascii_of_N (87 + k) in
    sbs +++ "u{" +++ (if n <? 16 then String (hd n) "" else String (hd (n / 16)) (String (hd (n mod 16)) "")) +++ "}"
  else String c "".

Fixpoint rust_literal_body (s : string) : string :=
  match s with EmptyString => EmptyString | String c r => rust_char c +++ rust_literal_body r end.

Definition rust_literal (s : string) : string := sdq +++ rust_literal_body s +++ sdq.

(** None for a within-word automaton (drawn as a cluster, not as a label) *)
Definition display (i : inp) : option string :=
  match i with
  | ILit t None l => Some (t +++ " (" +++ decimal l +++ ")")
  | ILit t (Some d) l => Some (t +++ " " +++ rust_literal d +++ " (" +++ decimal l +++ ")")
  | IStar => Some "*"
  | ICmd c _ => Some ("{{{ " +++ c +++ " }}}")
  | ICompadd c _ => Some ("{{{ " +++ c +++ " }}}compadd")
  | ISub _ _ => None
  end.

(** ** What is looked at in a graph *)
Definition nview := (string * option string * option string)%type.           (* id, shape, rendered label *)
Definition eview := (string * string * option string * option string)%type.  (* from, to, rendered label, style *)
Definition cview := (option string * option string * list string * nat)%type.  (* name, label, members, #nested *)

Record gview := mkgview {
  gv_directed : bool;
  gv_name : option string;
  gv_nodes : list nview;
  gv_edges : list eview;
  gv_clusters : list cview
}.

Definition rendered (a : attrs) : option string := option_map render_label (assoc "label" a).

Definition node_view (n : gnode) : nview := (gn_id n, assoc "shape" (gn_attrs n), rendered (gn_attrs n)).
Definition edge_view (e : gedge) : eview :=
  (ge_src e, ge_dst e, rendered (ge_attrs e), assoc "style" (ge_attrs e)).
Definition cluster_view (c : cluster) : cview :=
  match c with Cluster name ga members subs => (name, rendered ga, members, List.length subs) end.

Definition view (g : graph) : gview :=
  mkgview (g_directed g) (g_name g) (map node_view (g_nodes g)) (map edge_view (g_edges g))
          (map cluster_view (g_subs g)).

Definition cview_equiv (a b : cview) : Prop :=
  let '(n1, l1, m1, k1) := a in
  let '(n2, l2, m2, k2) := b in
  n1 = n2 /\ l1 = l2 /\ Permutation m1 m2 /\ k1 = k2.

Definition gview_equiv (a b : gview) : Prop :=
  gv_directed a = gv_directed b /\ gv_name a = gv_name b
  /\ Permutation (gv_nodes a) (gv_nodes b)
  /\ Permutation (gv_edges a) (gv_edges b)
  /\ Forall2 cview_equiv (gv_clusters a) (gv_clusters b).

(** ** The graph prescribed for an automaton *)
Fixpoint dedup_go (seen : list N) (l : list N) : list N :=
  match l with
  | [] => []
  | x :: r => if memN x seen then dedup_go seen r else x :: dedup_go (x :: seen) r
  end.
(** distinct elements in order of first occurrence *)
Definition dedup (l : list N) : list N := dedup_go [] l.

Definition states (d : dfa) : list N := dedup (d_start d :: trans_states d ++ d_accepting d).

Definition shape_of (d : dfa) (s : N) : string :=
  if s =? d_start d then (if is_accepting d s then "doubleoctagon" else "octagon")
  else if is_accepting d s then "doublecircle" else "circle".

Definition state_name (prefix : string) (base s : N) : string := "_" +++ prefix +++ decimal (s + base).

Definition state_nodes (prefix : string) (base : N) (d : dfa) : list nview :=
  map (fun s => (state_name prefix base s, Some (shape_of d s), Some (prefix +++ decimal (s + base))))
      (states d).

Definition transitions (d : dfa) : list (N * N * N) :=
  flat_map (fun row => map (fun p => (fst row, fst p, snd p)) (snd row)) (d_trans d).

(** within-word automata (pool indices) in order of first use *)
Definition sub_order (d : dfa) : list N :=
  dedup (flat_map (fun t : N * N * N =>
                     match nthN (d_inputs d) (snd (fst t)) with
                     | Some (ISub k _) => [k]
                     | _ => []
                     end) (transitions d)).

Fixpoint number_from (n : N) (l : list N) : list (N * N) :=
  match l with [] => [] | x :: r => (x, n) :: number_from (n + 1) r end.

(** pool index -> number in the script *)
Definition sub_ids (base : N) (d : dfa) : list (N * N) := number_from base (sub_order d).

Definition sub_prefix (id : N) : string := decimal id +++ "_".

Definition dashed : option string := Some "dashed".

Definition transition_edges (base : N) (subs : list dfa) (ids : list (N * N)) (prefix : string)
           (d : dfa) (t : N * N * N) : list eview :=
  let '(from, i, to) := t in
  match nthN (d_inputs d) i with
  | None => []
  | Some (ISub k _) =>
      match nthN subs k, assocN k ids with
      | Some sd, Some id =>
          (state_name prefix base from, state_name (sub_prefix id) base (d_start sd), None, dashed)
          :: map (fun a => (state_name (sub_prefix id) base a, state_name prefix base to, None, dashed))
                 (d_accepting sd)
      | _, _ => []
      end
  | Some x => [(state_name prefix base from, state_name prefix base to, display x, None)]
  end.

Definition dfa_edges (base : N) (subs : list dfa) (ids : list (N * N)) (prefix : string) (d : dfa)
  : list eview :=
  flat_map (transition_edges base subs ids prefix d) (transitions d).

Definition graph_of_dfa (base : N) (c : cdfa) : gview :=
  let d := c_main c in
  let ids := sub_ids base d in
  let used := flat_map (fun p : N * N => match nthN (c_subs c) (fst p) with
                                          | Some sd => [(snd p, sd)]
                                          | None => []
                                          end) ids in
  mkgview true (Some "dfa")
    (state_nodes "" base d ++ flat_map (fun p : N * dfa => state_nodes (sub_prefix (fst p)) base (snd p)) used)
    (flat_map (fun p : N * dfa => dfa_edges base [] [] (sub_prefix (fst p)) (snd p)) used
     ++ dfa_edges base (c_subs c) ids "" d)
    (map (fun p : N * dfa =>
            (Some ("cluster_" +++ decimal (fst p)), Some ("subword " +++ decimal (fst p)),
             map (fun s => state_name (sub_prefix (fst p)) base s) (states (snd p)), 0%nat)) used).

(** ** Executable comparison (what the check runs on the graph read from Rust's file) *)
Definition nview_eqb (a b : nview) : bool :=
  let '(i1, s1, l1) := a in let '(i2, s2, l2) := b in
  String.eqb i1 i2 && option_eqb String.eqb s1 s2 && option_eqb String.eqb l1 l2.
Definition eview_eqb (a b : eview) : bool :=
  let '(f1, t1, l1, s1) := a in let '(f2, t2, l2, s2) := b in
  String.eqb f1 f2 && String.eqb t1 t2 && option_eqb String.eqb l1 l2 && option_eqb String.eqb s1 s2.

Definition count_by {A} (eqb : A -> A -> bool) (x : A) (l : list A) : nat :=
  List.length (filter (eqb x) l).

(** elements of [l1] whose multiplicity differs in [l2] *)
Definition multiset_diff {A} (eqb : A -> A -> bool) (l1 l2 : list A) : list A :=
  filter (fun x => negb (Nat.eqb (count_by eqb x l1) (count_by eqb x l2))) l1.

Definition cview_eqb (a b : cview) : bool :=
  let '(n1, l1, m1, k1) := a in let '(n2, l2, m2, k2) := b in
  option_eqb String.eqb n1 n2 && option_eqb String.eqb l1 l2 && Nat.eqb k1 k2
  && match multiset_diff String.eqb m1 m2, multiset_diff String.eqb m2 m1 with [], [] => true | _, _ => false end.

Fixpoint forall2b {A} (f : A -> A -> bool) (l1 l2 : list A) : bool :=
  match l1, l2 with
  | [], [] => true
  | x :: r1, y :: r2 => f x y && forall2b f r1 r2
  | _, _ => false
  end.

(** what differs between what was read and what is prescribed *)
Record gdiff := mkgdiff {
  df_header : bool;                 (* digraph + name agree *)
  df_nodes_extra : list nview;      (* read but not prescribed (or too often) *)
  df_nodes_missing : list nview;
  df_edges_extra : list eview;
  df_edges_missing : list eview;
  df_clusters : bool
}.

Definition compare (got want : gview) : gdiff :=
  mkgdiff (Bool.eqb (gv_directed got) (gv_directed want) && option_eqb String.eqb (gv_name got) (gv_name want))
          (multiset_diff nview_eqb (gv_nodes got) (gv_nodes want))
          (multiset_diff nview_eqb (gv_nodes want) (gv_nodes got))
          (multiset_diff eview_eqb (gv_edges got) (gv_edges want))
          (multiset_diff eview_eqb (gv_edges want) (gv_edges got))
          (forall2b cview_eqb (gv_clusters got) (gv_clusters want)).

Definition gdiff_ok (d : gdiff) : bool :=
  df_header d && df_clusters d
  && match df_nodes_extra d, df_nodes_missing d, df_edges_extra d, df_edges_missing d with
     | [], [], [], [] => true
     | _, _, _, _ => false
     end.

(** ** The --regex file: expected labelled nodes.
    The regex is given by its inputs in position order; a within-word input names its regex. *)
Inductive ritem :=
| XLit (text : string) (descr : option string)
| XNonterm (name : string)
| XCmd (cmd : string)
| XSub (rid : N).

Definition lf : string := String (ascii_of_nat 10) "".

Definition item_label (p : N) (i : ritem) : string :=
  match i with
  | XLit t None => decimal p +++ ": " +++ sdq +++ t +++ sdq
  | XLit t (Some d) => decimal p +++ ": " +++ sdq +++ t +++ sdq +++ lf +++ sdq +++ d +++ sdq
  | XNonterm n => decimal p +++ ": <" +++ n +++ ">"
  | XCmd c => decimal p +++ ": " +++ c
  | XSub r => decimal p +++ ": Subword " +++ decimal r
  end.

Fixpoint labels_from (p : N) (l : list ritem) : list string :=
  match l with [] => [] | i :: r => item_label p i :: labels_from (p + 1) r end.

Definition sub_rids (l : list ritem) : list N :=
  dedup (flat_map (fun i => match i with XSub r => [r] | _ => [] end) l).

(** (cluster the node must belong to, label) *)
Definition expected_labels (pool : list (N * list ritem)) (main : list ritem) : list (option string * string) :=
  map (fun l => (None, l)) (labels_from 0 main)
  ++ flat_map (fun r => match assocN r pool with
                        | Some items => map (fun l => (Some ("cluster_" +++ decimal r), l)) (labels_from 0 items)
                        | None => []
                        end) (sub_rids main).

(** is node [i] a member of a top-level subgraph named [name]?  (Two subgraph statements with the
    same name denote the same subgraph: any of them counts.) *)
Definition in_cluster (name : string) (i : string) (cs : list cluster) : bool :=
  existsb (fun c => match c with
                    | Cluster (Some n) _ m _ => String.eqb n name && mem_str i m
                    | _ => false
                    end) cs.

Definition labels_node (g : graph) (want : option string * string) : bool :=
  let '(cl, l) := want in
  existsb (fun n =>
             option_eqb String.eqb (rendered (gn_attrs n)) (Some l)
             && match cl with
                | None => true
                | Some c => in_cluster c (gn_id n) (g_subs g)
                end) (g_nodes g).

(** every expected item appears as a labelled node *)
Definition regex_ok (g : graph) (pool : list (N * list ritem)) (main : list ritem) : Prop :=
  g_directed g = true /\ forall w, In w (expected_labels pool main) -> labels_node g w = true.

Definition regex_missing (g : graph) (pool : list (N * list ritem)) (main : list ritem)
  : list (option string * string) :=
  filter (fun w => negb (labels_node g w)) (expected_labels pool main).
