(** The domain of C01 for grammars that went through the regex stage.

    [Spec.Domain.C01_domain] contains, for every point inside a within-word expression, the
    condition that nothing follows an undefined nonterminal ([eps_only] after [WAny]).  For a tree
    that [Regex.from_valid_expr] accepts this is a consequence (check.rs / regex.rs reject the other
    trees as UnboundedMatchable; Proofs/WordTail.v derives it from checkproofs' characterisation of
    that check), so that for compiled grammars the domain is [C01_domain_core]: the same conditions
    without that conjunct. *)
From CG Require Import Base.Prelude Model.Ast Spec.Rx Spec.Meaning Spec.Domain.

Definition wpoint_core (mv : list (wleaf * rx wleaf)) : bool :=
  all_pairs (fun a b => match a, b with
                        | WLit t d l, WLit t' d' l' =>
                            negb (String.eqb t t') || (option_eqb String.eqb d d' && N.eqb l l')
                        | WCmd c l, WCmd c' l' => negb (String.eqb c c') || N.eqb l l'
                        | _, _ => true
                        end) (map fst mv).

Definition word_core (x : rx wleaf) : bool :=
  forallb nonempty (wlit_texts x)
  && all_pairs prefix_free2 (wlit_texts x)
  && explore wleaf_eqb wsame_item wpoint_core explore_fuel [[x]] [].

Definition C01_domain_core (e : expr) : bool :=
  forallb word_core (subwords_of (tr e))
  && explore leaf_eqb same_item point_ok explore_fuel [start e] [].
