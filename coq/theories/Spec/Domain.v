(** The restriction of C01's quantifier, decided on the validated tree:
    "grammars whose literals are uniquely tokenisable inside a word (prefix-free per word
    expression) and that never expect, at one point, the same literal text with two different
    labels or two within-word expressions accepting a common word".

    "At one point" = at a set of residuals reachable from the grammar by reading items
    ([explore]); label = (description, || level).  The same conditions are imposed on the
    points inside every within-word expression.  [C01_env_ok] is the part that depends on what
    the commands print: inside a word the candidates of its commands count as pieces, so the
    prefix-freeness is required of literals and candidates together, and no candidate is empty. *)
From CG Require Import Base.Prelude Model.Ast Spec.Rx Spec.Meaning Spec.TokAut.

Section Explore.
  Context {A : Type}.
  Variable eqA : A -> A -> bool.
  Variable same_item : A -> A -> bool.            (* items read by the same word class *)
  Variable ok : list (A * rx A) -> bool.          (* the condition at one point *)

  Definition sub_state (s t : list (rx A)) : bool := forallb (fun r => mem_rx eqA r t) s.
  Definition state_eqb (s t : list (rx A)) : bool := sub_state s t && sub_state t s.

  Fixpoint dedup_items (l : list A) : list A :=
    match l with
    | [] => []
    | a :: r => let d := dedup_items r in if existsb (same_item a) d then d else a :: d
    end.

  Definition succs (s : list (rx A)) : list (list (rx A)) :=
    let mv := flat_map lf s in
    map (fun a => dedup_rx eqA (map snd (filter (fun ak => same_item a (fst ak)) mv)))
        (dedup_items (map fst mv)).

  Fixpoint explore (fuel : nat) (todo seen : list (list (rx A))) : bool :=
    match fuel with
    | O => false
    | S f =>
        match todo with
        | [] => true
        | s :: rest =>
            if existsb (state_eqb s) seen then explore f rest seen
            else ok (flat_map lf s) && explore f (rest ++ succs s) (s :: seen)
        end
    end.
End Explore.

Definition explore_fuel : nat := pow2 12.

(** All unordered pairs of a list satisfy [p]. *)
Fixpoint all_pairs {A} (p : A -> A -> bool) (l : list A) : bool :=
  match l with
  | [] => true
  | a :: r => forallb (p a) r && all_pairs p r
  end.

(** *** Inside a word *)
Definition wsame_item (a b : wleaf) : bool :=
  match a, b with
  | WLit t _ _, WLit t' _ _ => String.eqb t t'
  | _, _ => wleaf_eqb a b
  end.

(** What follows an undefined nonterminal inside a word: nothing (the nonterminal takes the rest of
    the word; check.rs rejects anything else as UnboundedMatchable). *)
Definition eps_only (k : rx wleaf) : bool :=
  nullable k && match lf k with [] => true | _ :: _ => false end.

Definition wpoint_ok (mv : list (wleaf * rx wleaf)) : bool :=
  all_pairs (fun a b => match a, b with
                        | WLit t d l, WLit t' d' l' =>
                            negb (String.eqb t t') || (option_eqb String.eqb d d' && N.eqb l l')
                        | WCmd c l, WCmd c' l' => negb (String.eqb c c') || N.eqb l l'
                        | _, _ => true
                        end) (map fst mv)
  && forallb (fun ak => match fst ak with WAny => eps_only (snd ak) | _ => true end) mv.

Definition prefix_free2 (s t : string) : bool :=
  String.eqb s t || negb (String.prefix s t || String.prefix t s).

Definition wlit_texts (x : rx wleaf) : list string :=
  flat_map (fun a => match a with WLit t _ _ => [t] | _ => [] end) (leaves x).

Definition word_ok (x : rx wleaf) : bool :=
  forallb nonempty (wlit_texts x)
  && all_pairs prefix_free2 (wlit_texts x)
  && explore wleaf_eqb wsame_item wpoint_ok explore_fuel [[x]] [].

(** *** Whole words *)
Definition wnext (x : rx wleaf) : list (tok * rx wleaf) :=
  map (fun ak => (match fst ak with WLit t _ _ => TLit t | WCmd _ _ | WAny => TWild end, snd ak))
      (lf x).

Definition wdisjoint (x y : rx wleaf) : bool :=
  disjoint (rx wleaf) (rx wleaf) wnext wnext nullable nullable
           (rx_eqb wleaf_eqb) (rx_eqb wleaf_eqb) x y.

Definition same_item (a b : leaf) : bool :=
  match a, b with
  | LLit t _ _, LLit t' _ _ => String.eqb t t'
  | _, _ => leaf_eqb a b
  end.

Definition point_ok (mv : list (leaf * rx leaf)) : bool :=
  all_pairs (fun a b => match a, b with
                        | LLit t d l, LLit t' d' l' =>
                            negb (String.eqb t t') || (option_eqb String.eqb d d' && N.eqb l l')
                        | LSub x l, LSub x' l' =>
                            leaf_eqb a b || wdisjoint x x'
                        | _, _ => true
                        end) (map fst mv).

Definition subwords_of (r : rx leaf) : list (rx wleaf) :=
  flat_map (fun a => match a with LSub x _ => [x] | _ => [] end) (leaves r).

Definition C01_domain (e : expr) : bool :=
  forallb word_ok (subwords_of (tr e))
  && explore leaf_eqb same_item point_ok explore_fuel [start e] [].

(** Diagnostic only (not part of the domain's definition, which contains it): inside every
    within-word expression nothing follows an undefined nonterminal.  check.rs rejects the other
    grammars as UnboundedMatchable; the C01 check counts accepted grammars for which this is false. *)
Definition wtail_point (mv : list (wleaf * rx wleaf)) : bool :=
  forallb (fun ak => match fst ak with WAny => eps_only (snd ak) | _ => true end) mv.

Definition C01_tail_only (e : expr) : bool :=
  forallb (fun x => explore wleaf_eqb wsame_item wtail_point explore_fuel [[x]] []) (subwords_of (tr e)).

(** *** The part that depends on the commands' output *)
Definition wtokens (en : env) (x : rx wleaf) : list string :=
  flat_map (fun a => match a with
                     | WLit t _ _ => [t]
                     | WCmd c _ => candidates en c
                     | WAny => []
                     end) (leaves x).

(** where a text that can be a piece of a word comes from: a literal, or the output of a command *)
Inductive wsrc := SLit | SCmd (c : string).

Definition wsrc_eqb (a b : wsrc) : bool :=
  match a, b with
  | SLit, SLit => true
  | SCmd c, SCmd c' => String.eqb c c'
  | _, _ => false
  end.

Definition wtokens_src (en : env) (x : rx wleaf) : list (wsrc * string) :=
  flat_map (fun a => match a with
                     | WLit t _ _ => [(SLit, t)]
                     | WCmd c _ => map (fun o => (SCmd c, o)) (candidates en c)
                     | WAny => []
                     end) (leaves x).

(** two pieces: the same text from the same source, or texts neither of which begins the other *)
Definition tok_free2 (p q : wsrc * string) : bool :=
  if String.eqb (snd p) (snd q) then wsrc_eqb (fst p) (fst q)
  else negb (String.prefix (snd p) (snd q) || String.prefix (snd q) (snd p)).

Definition C01_env_ok (e : expr) (en : env) : bool :=
  forallb (fun x => let ts := wtokens_src en x in
                    forallb (fun p => nonempty (snd p)) ts && all_pairs tok_free2 ts)
          (subwords_of (tr e))
  && forallb (fun a => match a with
                       | LCmd c _ => forallb nonempty (candidates en c)
                       | _ => true
                       end) (leaves (tr e)).
