(** Known deviations of the emitted bash script from [Spec.Meaning], each as a decidable
    predicate on (validated grammar, environment, words before the cursor): the classifier of
    the C01 check and the [~ Known_C01] hypothesis of the C01 theorem.  These are *mechanisms*
    of the script read off src/bash.rs, not part of the specification.

    - [piece_boundary]: the within-word matcher of the script reports a match whenever the word
      is exhausted, whatever within-word state it is in (accepting states are not embedded in
      the script).  A word that consists of complete pieces along a path of an expected
      within-word expression but stops before the expression is complete ([--k=] for
      [--k=(x|y)]) is therefore read as that expression.
    - [last_word_escape] (repaired in /repo by commit 1567cbe; the predicate stays as the
      classifier that recognises the mechanism should it come back): when the last complete word is accepted by no expected literal and no
      expected within-word expression and the first command tried at that point does not list
      it, the script leaves its matching loop ([break 3] under [word_index + 1 == cword]) and
      completes from the state *before* that word: further commands and the catch-all are not
      tried and no failure is reported. *)
From CG Require Import Base.Prelude Model.Ast Spec.Rx Spec.Meaning.

(** The word is used up by complete pieces along some path of the within-word expression. *)
Definition wexhausts (en : env) (e : rx wleaf) (w : string) : bool :=
  existsb (fun s => match s with (_, _, rest) => negb (nonempty rest) end) (wsplits_of en e w).

Definition sloppy_step (en : env) (s : state) (w : string) : bool :=
  let mv := moves s in
  match lit_next w mv with
  | _ :: _ => false
  | [] =>
      existsb (fun ak => match fst ak with
                         | LSub x _ => wexhausts en x w && negb (waccepts en x w)
                         | _ => false
                         end) mv
  end.

Fixpoint piece_boundary_from (en : env) (s : state) (ws : list string) : bool :=
  match ws with
  | [] => false
  | w :: r => sloppy_step en s w || piece_boundary_from en (step en s w) r
  end.

Definition piece_boundary (e : expr) (en : env) (ws : list string) : bool :=
  piece_boundary_from en (start e) ws.

(** At the point [s] the script may escape on the last word [w]. *)
Definition escape_step (en : env) (s : state) (w : string) : bool :=
  let mv := moves s in
  match lit_next w mv with
  | _ :: _ => false
  | [] =>
      negb (existsb (fun ak => match fst ak with
                               | LSub x _ => wexhausts en x w
                               | _ => false
                               end) mv)
      && existsb (fun ak => match fst ak with
                            | LCmd c _ => match candidates en c with
                                          | [] => false
                                          | cs => negb (mem_str w cs)
                                          end
                            | _ => false
                            end) mv
  end.

Fixpoint last_word_escape_from (en : env) (s : state) (ws : list string) : bool :=
  match ws with
  | [] => false
  | [w] => escape_step en s w
  | w :: r => last_word_escape_from en (step en s w) r
  end.

Definition last_word_escape (e : expr) (en : env) (ws : list string) : bool :=
  last_word_escape_from en (start e) ws.
