(** Known deviations of the emitted bash script from [Spec.Meaning], each as a decidable
    predicate on (validated grammar, environment, words before the cursor): the classifier of
    the C01 check and the [~ Known_C01] hypothesis of the C01 theorem.  These are *mechanisms*
    of the script read off src/bash.rs, not part of the specification.

    - [piece_boundary]: the within-word matcher of the script reports a match whenever the word
      is exhausted, whatever within-word state it is in (accepting states are not embedded in
      the script).  A word that consists of complete pieces along a path of an expected
      within-word expression but stops before the expression is complete ([--k=] for
      [--k=(x|y)]) is therefore read as that expression.
    - [last_word_escape] (repaired in /repo by commit 1567cbe; the predicate stays as the
      classifier that recognises the mechanism should it come back): when the last complete word is accepted by no expected literal and no
      expected within-word expression and the first command tried at that point does not list
      it, the script leaves its matching loop ([break 3] under [word_index + 1 == cword]) and
      completes from the state *before* that word: further commands and the catch-all are not
      tried and no failure is reported. *)
From CG Require Import Base.Prelude Model.Ast Spec.Rx Spec.Meaning.

(** The word is used up by complete pieces along some path of the within-word expression. *)
Definition wexhausts (en : env) (e : rx wleaf) (w : string) : bool :=
  existsb (fun s => match s with (_, _, rest) => negb (nonempty rest) end) (wsplits_of en e w).

Definition sloppy_step (en : env) (s : state) (w : string) : bool :=
  let mv := moves s in
  match lit_next w mv with
  | _ :: _ => false
  | [] =>
      existsb (fun ak => match fst ak with
                         | LSub x _ => wexhausts en x w && negb (waccepts en x w)
                         | _ => false
                         end) mv
  end.

Fixpoint piece_boundary_from (en : env) (s : state) (ws : list string) : bool :=
  match ws with
  | [] => false
  | w :: r => sloppy_step en s w || piece_boundary_from en (step en s w) r
  end.

Definition piece_boundary (e : expr) (en : env) (ws : list string) : bool :=
  piece_boundary_from en (start e) ws.

(** At the point [s] the script may escape on the last word [w]. *)
Definition escape_step (en : env) (s : state) (w : string) : bool :=
  let mv := moves s in
  match lit_next w mv with
  | _ :: _ => false
  | [] =>
      negb (existsb (fun ak => match fst ak with
                               | LSub x _ => wexhausts en x w
                               | _ => false
                               end) mv)
      && existsb (fun ak => match fst ak with
                            | LCmd c _ => match candidates en c with
                                          | [] => false
                                          | cs => negb (mem_str w cs)
                                          end
                            | _ => false
                            end) mv
  end.

Fixpoint last_word_escape_from (en : env) (s : state) (ws : list string) : bool :=
  match ws with
  | [] => false
  | [w] => escape_step en s w
  | w :: r => last_word_escape_from en (step en s w) r
  end.

Definition last_word_escape (e : expr) (en : env) (ws : list string) : bool :=
  last_word_escape_from en (start e) ws.

(** - [greedy_shadow]: the within-word matcher of the script is greedy and never backtracks: at a
      point inside a word it consumes the first expected literal that begins what is left of the
      word, and tries the commands and the undefined nonterminal expected at that point only
      when no literal does.  A word that starts with an expected literal but goes on, and that
      only the nonterminal (or a command) expected next to that literal could accept
      ([--x=abcd] for [--x=(abc|<U>)]), is therefore rejected.  [gaccepts] is that greedy
      reading on sets of residuals; the predicate says that some word before the cursor is
      handed to a within-word expression that accepts it while the greedy reading does not. *)
Definition first_lit (mv : list (wleaf * rx wleaf)) (rest : string) : option string :=
  match filter (fun ak => match fst ak with
                          | WLit t _ _ => nonempty t && String.prefix t rest
                          | _ => false
                          end) mv with
  | (WLit t _ _, _) :: _ => Some t
  | _ => None
  end.

Definition after_lit (t : string) (mv : list (wleaf * rx wleaf)) : list (rx wleaf) :=
  flat_map (fun ak => match fst ak with
                      | WLit t' _ _ => if String.eqb t' t then [snd ak] else []
                      | _ => []
                      end) mv.

(** the first command item one of whose candidates begins what is left: (command, candidate) *)
Definition first_cmd (en : env) (mv : list (wleaf * rx wleaf)) (rest : string) : option (string * string) :=
  match flat_map (fun ak => match fst ak with
                            | WCmd c _ => map (fun o => (c, o))
                                              (filter (fun o => nonempty o && String.prefix o rest) (candidates en c))
                            | _ => []
                            end) mv with
  | co :: _ => Some co
  | [] => None
  end.

Definition after_cmd (c : string) (mv : list (wleaf * rx wleaf)) : list (rx wleaf) :=
  flat_map (fun ak => match fst ak with
                      | WCmd c' _ => if String.eqb c' c then [snd ak] else []
                      | _ => []
                      end) mv.

Fixpoint gacc (en : env) (fuel : nat) (S : list (rx wleaf)) (rest : string) : bool :=
  match rest with
  | EmptyString => existsb nullable S
  | _ =>
      match fuel with
      | O => false
      | Datatypes.S f =>
          let mv := flat_map lf S in
          match first_lit mv rest with
          | Some t => gacc en f (after_lit t mv) (sdrop (String.length t) rest)
          | None =>
              match first_cmd en mv rest with
              | Some (c, o) => gacc en f (after_cmd c mv) (sdrop (String.length o) rest)
              | None => existsb (fun ak => match fst ak with WAny => true | _ => false end) mv
              end
          end
      end
  end.

Definition gaccepts (en : env) (x : rx wleaf) (w : string) : bool := gacc en (String.length w) [x] w.

Definition shadow_step (en : env) (s : state) (w : string) : bool :=
  let mv := moves s in
  match lit_next w mv with
  | _ :: _ => false
  | [] =>
      existsb (fun ak => match fst ak with
                         | LSub x _ => waccepts en x w && negb (gaccepts en x w)
                         | _ => false
                         end) mv
  end.

Fixpoint greedy_shadow_from (en : env) (s : state) (ws : list string) : bool :=
  match ws with
  | [] => false
  | w :: r => shadow_step en s w || greedy_shadow_from en (step en s w) r
  end.

Definition greedy_shadow (e : expr) (en : env) (ws : list string) : bool :=
  greedy_shadow_from en (start e) ws.
