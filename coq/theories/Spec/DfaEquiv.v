(** Specification side of C03, written from the property text:

      "minimising ... never changes the set of accepted word sequences, and the result has no
       unreachable state, no state from which acceptance is impossible, and no two states that
       accept the same continuations, so its size equals that of the unique minimal automaton
       of the language."

    Propositions: [lang_eq], [reachable], [coreachable], [trim], [pairwise_distinguishable],
    [minimal_size].  Executable deciders (the verified validator, Proofs/DfaEquivProofs.v):
    [equiv_dec] (product exploration with an implicit sink, returns a distinguishing word),
    [trim_dec], [distinct_dec] (Moore refinement), [validate].

    An automaton is a partial DFA over input *ids* ([Dfa.step]); a missing transition leads to an
    implicit non-accepting sink, written [None] below. *)
From CG Require Import Base.Prelude Model.Dfa.

(** *** states and alphabet *)
Definition states (d : dfa) : list N :=
  nodup N.eq_dec (d_start d :: trans_states d ++ d_accepting d).

Definition alphabet (d : dfa) : list N :=
  nodup N.eq_dec (flat_map (fun p => map fst (snd p)) (d_trans d)).

(** *** the propositions of the property *)
Definition lang_eq (d1 d2 : dfa) : Prop := forall w, accepts d1 w = accepts d2 w.

Definition reachable (d : dfa) (s : N) : Prop := exists w, run d (d_start d) w = Some s.
Definition coreachable (d : dfa) (s : N) : Prop := exists w, accepts_from d s w = true.

(** no unreachable state, no state from which acceptance is impossible *)
Definition all_reachable (d : dfa) : Prop := forall s, In s (states d) -> reachable d s.
Definition all_coreachable (d : dfa) : Prop := forall s, In s (states d) -> coreachable d s.
Definition trim (d : dfa) : Prop := all_reachable d /\ all_coreachable d.

(** no two states that accept the same continuations *)
Definition pairwise_distinguishable (d : dfa) : Prop :=
  forall s t, In s (states d) -> In t (states d) -> s <> t ->
    exists w, accepts_from d s w <> accepts_from d t w.

(** its size is that of the minimal automaton of the language: no automaton of the same
    language, however it is presented, has fewer states *)
Definition minimal_size (m : dfa) : Prop :=
  forall d', lang_eq d' m -> (List.length (states m) <= List.length (states d'))%nat.

(** *** runs with the implicit sink *)
Definition ostep (d : dfa) (s : option N) (i : N) : option N :=
  match s with Some x => step d x i | None => None end.

Fixpoint orun (d : dfa) (s : option N) (w : list N) : option N :=
  match w with
  | [] => s
  | i :: r => orun d (ostep d s i) r
  end.

Definition oacc (d : dfa) (s : option N) : bool :=
  match s with Some x => is_accepting d x | None => false end.

Definition oaccepts_from (d : dfa) (s : option N) (w : list N) : bool := oacc d (orun d s w).

(** *** language equality: exploration of the reachable part of the product *)
Inductive eq_result := EqYes | EqNo (w : list N) | EqFuel.

Definition ostate_eqb (a b : option N) : bool := option_eqb N.eqb a b.

Definition pair_eqb (p q : option N * option N) : bool :=
  ostate_eqb (fst p) (fst q) && ostate_eqb (snd p) (snd q).

Definition pair_mem (p : option N * option N) (l : list (option N * option N)) : bool :=
  existsb (pair_eqb p) l.

(** [todo] items carry the reversed word that leads from the start pair to them *)
Fixpoint explore (fuel : nat) (d1 d2 : dfa) (sigma : list N)
         (visited : list (option N * option N))
         (todo : list (list N * (option N * option N))) : eq_result :=
  match fuel with
  | O => EqFuel
  | S f =>
      match todo with
      | [] => EqYes
      | (w, p) :: rest =>
          if pair_mem p visited then explore f d1 d2 sigma visited rest
          else if Bool.eqb (oacc d1 (fst p)) (oacc d2 (snd p)) then
            explore f d1 d2 sigma (p :: visited)
                    (map (fun i => (i :: w, (ostep d1 (fst p) i, ostep d2 (snd p) i))) sigma ++ rest)
          else EqNo (rev w)
      end
  end.

Definition equiv_fuel (d1 d2 : dfa) (sigma : list N) : nat :=
  ((S (List.length (states d1))) * (S (List.length (states d2))) * (S (List.length sigma)) + 2)%nat.

Definition equiv_dec (d1 d2 : dfa) : eq_result :=
  let sigma := nodup N.eq_dec (alphabet d1 ++ alphabet d2) in
  explore (equiv_fuel d1 d2 sigma) d1 d2 sigma [] [([], (Some (d_start d1), Some (d_start d2)))].

(** *** trim *)
(** the [step]-successors of [s]: an entry of the row that is shadowed by an earlier entry for the
    same input is not a transition of the automaton ([step] takes the first one) *)
Definition succs (d : dfa) (s : N) : list N :=
  match assocN s (d_trans d) with
  | Some row =>
      flat_map (fun it => match assocN (fst it) row with Some t => [t] | None => [] end) row
  | None => []
  end.

Fixpoint reach (fuel : nat) (d : dfa) (visited todo : list N) : list N :=
  match fuel with
  | O => visited
  | S f =>
      match todo with
      | [] => visited
      | s :: r =>
          if memN s visited then reach f d visited r
          else reach f d (s :: visited) (succs d s ++ r)
      end
  end.

Definition reach_fuel (d : dfa) : nat :=
  (List.length (states d) + List.length (trans_states d) + 2)%nat.

Definition reachable_set (d : dfa) : list N := reach (reach_fuel d) d [] [d_start d].

Definition co_step (d : dfa) (sts C : list N) : list N :=
  filter (fun s => memN s C || existsb (fun t => memN t C) (succs d s)) sts.

Fixpoint co_iter (fuel : nat) (d : dfa) (sts C : list N) : list N :=
  match fuel with
  | O => C
  | S f =>
      let C' := co_step d sts C in
      if Nat.eqb (List.length C') (List.length C) then C else co_iter f d sts C'
  end.

Definition coreachable_set (d : dfa) : list N :=
  let sts := states d in
  co_iter (S (List.length sts)) d sts (filter (is_accepting d) sts).

Definition trim_dec (d : dfa) : bool :=
  let R := reachable_set d in
  let C := coreachable_set d in
  forallb (fun s => memN s R && memN s C) (states d).

(** *** pairwise distinguishability: Moore refinement over states + sink *)
Definition dom (d : dfa) : list (option N) := None :: map Some (states d).

Fixpoint oassoc (s : option N) (tbl : list (option N * N)) : N :=
  match tbl with
  | [] => 0
  | (k, v) :: r => if ostate_eqb s k then v else oassoc s r
  end.

Definition sig (d : dfa) (sigma : list N) (tbl : list (option N * N)) (s : option N) : list N :=
  oassoc s tbl :: map (fun i => oassoc (ostep d s i) tbl) sigma.

Fixpoint listN_eqb (a b : list N) : bool :=
  match a, b with
  | [], [] => true
  | x :: r, y :: r' => N.eqb x y && listN_eqb r r'
  | _, _ => false
  end.

Fixpoint index_of (x : list N) (l : list (list N)) (i : N) : N :=
  match l with
  | [] => i
  | y :: r => if listN_eqb x y then i else index_of x r (i + 1)
  end.

Definition refine (d : dfa) (sigma : list N) (tbl : list (option N * N)) : list (option N * N) :=
  let sigs := map (sig d sigma tbl) (dom d) in
  map (fun s => (s, index_of (sig d sigma tbl s) sigs 0)) (dom d).

Definition table0 (d : dfa) : list (option N * N) :=
  map (fun s => (s, if oacc d s then 1 else 0)) (dom d).

Fixpoint nodupb (l : list N) : bool :=
  match l with
  | [] => true
  | x :: r => negb (memN x r) && nodupb r
  end.

(** classes of the real states (the sink is left out: a state equivalent to the sink is a state
    from which acceptance is impossible, which [trim] is about) *)
Definition classes (d : dfa) (tbl : list (option N * N)) : list N :=
  map (fun s => oassoc (Some s) tbl) (states d).

Definition nclasses (d : dfa) (tbl : list (option N * N)) : nat :=
  List.length (nodup N.eq_dec (map (fun s => oassoc s tbl) (dom d))).

Fixpoint moore (fuel : nat) (d : dfa) (sigma : list N) (tbl : list (option N * N)) : bool :=
  if nodupb (classes d tbl) then true
  else match fuel with
       | O => false
       | S f =>
           let tbl' := refine d sigma tbl in
           if Nat.eqb (nclasses d tbl') (nclasses d tbl) then false else moore f d sigma tbl'
       end.

Definition distinct_dec (d : dfa) : bool :=
  moore (S (List.length (states d))) d (alphabet d) (table0 d).

(** *** the validator *)
Definition validate (d m : dfa) : bool :=
  match equiv_dec d m with
  | EqYes => trim_dec m && distinct_dec m
  | _ => false
  end.
