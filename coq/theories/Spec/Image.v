(** The image of the parser, as an executable predicate: [stmt_img] is [Printer.wf_stmt] without
    the condition that a literal does not start with [#] ([stmt_nohash]).  A literal starting with
    [#] can be written only glued after another factor of a word ([<A>#x]) and is a literal only as
    long as no [...] follows on the next line, so the reference printer does not cover it. *)
From CG Require Import Base.Prelude Model.Ast Model.Lexer Model.Parser Spec.Printer Spec.Shape.

Definition lit_img (t : string) : bool := nonempty t && all_chars lit_char_ok t.

Definition imgb : bool -> expr -> bool := gshapeb lit_img wf_nt wf_cmd.

Definition stmt_img (st : statement) : bool :=
  match st with
  | CallVariant name _ e => lit_img name && imgb false e
  | NontermDef name _ None rhs => wf_nt name && negb (spec_like name) && imgb false rhs
  | NontermDef name _ (Some (sh, _)) rhs =>
      wf_nt name && all_chars (fun c => negb (Ascii.eqb c AT)) name && wf_nt sh && imgb false rhs
  end.

Definition no_hash (t : string) : bool :=
  match t with String c _ => negb (Ascii.eqb c HASH) | EmptyString => true end.

Fixpoint nohash (e : expr) : bool :=
  match e with
  | Terminal t _ _ _ => no_hash t
  | NontermRef _ _ _ | Command _ _ _ _ => true
  | Sequence cs _ | Alternative cs _ | Fallback cs _ => forallb nohash cs
  | Optional c _ | Many1 c _ | DistDescr c _ _ | Subword c _ _ => nohash c
  end.

Definition stmt_nohash (st : statement) : bool :=
  match st with
  | CallVariant name _ e => no_hash name && nohash e
  | NontermDef _ _ _ rhs => nohash rhs
  end.
