(** C04 end to end for bash: from a grammar text through [Driver.compile], [Tables.all_tables] and
    [EmitBash.script]: the emitted script reads back as the statement list [script_stmts]
    (registration naming the grammar's command), the tables carried by those statements describe
    exactly the transition relation and the per-level candidates of the compiled automaton (main
    and every within-word automaton, accepting sets included), and that automaton accepts exactly
    what the validated grammar denotes.  The well-formedness hypotheses of the C04 table theorems
    ([dfa_wf]) are discharged here from the compilation itself. *)
From CG Require Import Base.Prelude Model.Ast Model.Dfa Model.Check Model.Regex Model.Subset Model.Minimize.
From CG Require Import Model.Ambiguity Model.Parser Model.Driver Model.Tpl Model.Quote Model.Tables Model.EmitBash.
From CG Require Import Spec.Lang Spec.ShellDQ Spec.ScriptRead.
From CG Require Import Proofs.TablesSound Proofs.BashCodec Proofs.BashScript.
From CG Require Import Proofs.TreeFacts Proofs.CheckTree Proofs.DriverCorrect Proofs.CompiledFacts Proofs.SubCompiled.
From CG Require Import Proofs.ParseShape Proofs.SubTables.
Open Scope N_scope.
Open Scope list_scope.

(** *** What a table set says about the automaton it was computed from *)
Record describes (d : dfa) (cmds : list string) (start : N) (ord : list (string * string)) (t : tables)
  : Prop := {
  ds_literals : forall l text ds, In (l, text, ds) (t_literals t) <-> lit_at ord start l text ds;
  ds_mlit_sound : forall s l to, tbl_has (t_mlit t) s l to ->
      exists text dso lvl, trans_on d s (ILit text dso lvl) to /\ lit_at ord start l text (unwrap_descr dso);
  ds_mlit_complete : forall s text dso lvl to l,
      trans_on d s (ILit text dso lvl) to -> lit_at ord start l text (unwrap_descr dso) ->
      keys_unique d (lit_sel (all_literals ord start)) s -> tbl_has (t_mlit t) s l to;
  ds_mcmd_sound : forall m s c to, t_mcmd t = Some m -> tbl_has m s c to ->
      exists cmd lvl, trans_on d s (ICmd cmd lvl) to /\ index_of cmd cmds = Some c;
  ds_mcmd_complete : forall m s cmd lvl to c, t_mcmd t = Some m ->
      trans_on d s (ICmd cmd lvl) to -> index_of cmd cmds = Some c ->
      keys_unique d (cmd_sel cmds) s -> tbl_has m s c to;
  ds_mstar : forall l s to, t_mstar t = Some l -> (In (s, to) l <-> trans_on d s IStar to);
  ds_clit : forall k s l, mem3 (t_clit t) k s l <->
      exists text dso to, trans_on d s (ILit text dso k) to /\ lit_at ord start l text (unwrap_descr dso);
  ds_levels : List.length (t_clit t) = (N.to_nat (t_maxlevel t) + 1)%nat;
  ds_ccmd : forall m k s c, t_ccmd t = Some m ->
      (mem3 m k s c <-> exists cmd to, trans_on d s (ICmd cmd k) to /\ index_of cmd cmds = Some c)
}.

Lemma describes_of_tables : forall d cmds start nc ncp ns ord t,
  dfa_wf d -> NoDup ord -> get_lookup_tables d cmds start nc ncp ns ord = Ok t ->
  describes d cmds start ord t.
Proof.
  intros d cmds start nc ncp ns ord t W ND H. constructor.
  - eapply literals_exact; eauto.
  - eapply mlit_sound; eauto.
  - eapply mlit_complete; eauto.
  - eapply mcmd_sound; eauto.
  - eapply mcmd_complete; eauto.
  - eapply mstar_exact; eauto.
  - eapply clit_exact; eauto.
  - eapply clit_levels; eauto.
  - eapply ccmd_exact; eauto.
Qed.

(** *** Within-word automata named by the tables occur on a transition of the main automaton *)
Lemma get_subwords_origin : forall rt first pi id,
  In (pi, id) (get_subwords rt first) -> exists f l t, In (f, ISub pi l, t) rt.
Proof.
  intros rt first pi id. unfold get_subwords.
  set (F := fun (acc : list (N * N)) (fxt : N * inp * N) =>
              match fxt with
              | (_, ISub s _, _) => if existsb (fun p => N.eqb (fst p) s) acc then acc else acc ++ [(s, first + lenN acc)]
              | _ => acc
              end).
  assert (G : forall rt acc, In (pi, id) (fold_left F rt acc) ->
                In (pi, id) acc \/ exists f l t, In (f, ISub pi l, t) rt).
  { induction rt0 as [|[[f x] t] rt0 IH]; intros acc Hin; [left; exact Hin|].
    cbn [fold_left] in Hin. apply IH in Hin. destruct Hin as [Hin|[f' [l' [t' Hin]]]].
    - destruct x; cbn in Hin; try (left; exact Hin).
      destruct (existsb (fun p => N.eqb (fst p) sub) acc); [left; exact Hin|].
      apply in_app_iff in Hin. destruct Hin as [Hin|[E|[]]]; [left; exact Hin|].
      inversion E; subst. right. exists f, level, t. left. reflexivity.
    - right. exists f', l', t'. right. exact Hin. }
  intros H. destruct (G rt [] H) as [[]|H']. exact H'.
Qed.

Lemma subword_input : forall sh c om os nd a pi id t,
  all_tables sh c om os = Ok (nd, a) -> In (pi, id, t) (a_subwords a) ->
  exists l, In (ISub pi l) (d_inputs (c_main c)).
Proof.
  intros sh c om os nd a pi id t Hall Hin.
  apply (subwords_exact sh c om os nd a Hall) in Hin. destruct Hin as [rt [sd [Hrt [Hg _]]]].
  destruct (get_subwords_origin _ _ _ _ Hg) as [f [l [to Hf]]].
  apply (rtrans_in _ _ _ _ _ Hrt) in Hf. destruct Hf as [i [_ Hn]].
  exists l. unfold nthN in Hn. eapply nth_error_In; eauto.
Qed.

(** *** The statements of the script carry the tables *)
Definition carries_main (command : string) (start : N) (a : alltables) (sts : list stmt) : Prop :=
  In (SFunc (append "_" command)) sts /\
  In (SScalar "state" start) sts /\
  In (lits_stmt (a_main a)) sts /\
  incl (match_stmts (a_main a)) sts /\
  incl (completion_stmts (a_main a)) sts /\
  In (SRegister [append "_" command; command]) sts.

Definition carries_subs (command : string) (nd : needs) (a : alltables) (groups : list (list N))
           (sts : list stmt) : Prop :=
  n_subwords nd = true ->
  (exists rows, subtrans_rows a = Ok rows /\ incl (row_stmts "subword_transitions" rows) sts) /\
  incl (level_stmts "subword_transitions_level_" (a_csub a)) sts /\
  forall gid group, In (gid, group) (number_from 0 groups) ->
    exists l, group_stmts command a gid group = Ok l /\ incl l sts.

Lemma incl_app_mid : forall {A} (x l r : list A), incl x (l ++ x ++ r).
Proof. intros A x l r y Hy. apply in_app_iff. right. apply in_app_iff. left. exact Hy. Qed.

Lemma omap_ok_each : forall {E A B} (f : A -> outcome E B) l ys,
  omap f l = Ok ys -> forall x, In x l -> exists y, f x = Ok y /\ In y ys.
Proof.
  intros E A B f. induction l as [|a l IH]; intros ys H x Hx; [destruct Hx|]. simpl in H.
  destruct (f a) as [b| | |] eqn:Ea; simpl in H; try discriminate.
  destruct (omap f l) as [bs| | |] eqn:El; simpl in H; try discriminate. inversion H; subst.
  destruct Hx as [<-|Hx]; [exists b; split; [exact Ea|left; reflexivity]|].
  destruct (IH bs eq_refl x Hx) as [y [Hy Hin]]. exists y. split; [exact Hy|right; exact Hin].
Qed.

Ltac in_solve :=
  match goal with
  | H : In ?y ?l |- In ?y ?l => exact H
  | |- In _ (_ ++ _) => apply in_or_app; first [left; in_solve | right; in_solve]
  | |- In _ (_ :: _) => first [left; reflexivity | right; in_solve]
  end.

Opaque match_stmts completion_stmts lits_stmt level_stmts row_stmts cmd_fns_stmts sub_fn_stmts.
Lemma script_stmts_carry : forall command start nd a groups sts,
  script_stmts command start nd a groups = Ok sts ->
  carries_main command start a sts /\ carries_subs command nd a groups sts.
Proof.
  intros command start nd a groups sts H. unfold script_stmts in H.
  apply obind_ok in H. destruct H as [gs [Hgs H]].
  apply obind_ok in H. destruct H as [st [Hst H]]. injection H as Hs. subst sts.
  split.
  - unfold carries_main. split; [in_solve|]. split; [in_solve|]. split; [in_solve|].
    split; [intros y Hy; in_solve|]. split; [intros y Hy; in_solve|]. in_solve.
  - intros Hn. rewrite Hn in *.
    apply obind_ok in Hgs. destruct Hgs as [l [Hl Hgs]]. injection Hgs as Hg'. subst gs.
    apply obind_ok in Hst. destruct Hst as [rows [Hrows Hst]]. injection Hst as Hs'. subst st.
    split; [|split].
    + exists rows. split; [exact Hrows|]. intros y Hy.
      assert (Hy' : In y (SDecl "subword_transitions" :: row_stmts "subword_transitions" rows)) by (right; exact Hy).
      clear Hy. in_solve.
    + intros y Hy. in_solve.
    + intros gid group Hin. destruct (omap_ok_each _ _ _ Hl (gid, group) Hin) as [lg [Hlg Hing]].
      exists lg. split; [exact Hlg|]. intros y Hy.
      assert (Hy' : In y (List.concat l ++ sub_fn_stmts command)).
      { apply in_or_app. left. apply in_concat. exists lg. auto. }
      clear Hy. in_solve.
Qed.
Transparent match_stmts completion_stmts lits_stmt level_stmts row_stmts cmd_fns_stmts sub_fn_stmts.

(** what a group of within-word automata puts into the script: for every member its wrapper with
    its own accepting states and literal list, and the match / completion tables of the group's
    leader (the member's own when it is alone; identical to the member's by
    [isomorphic_sound_full] when the grouping is valid) *)
Opaque match_stmts completion_stmts lits_stmt acc_stmt.
Lemma group_stmts_members : forall command a gid group l,
  group_stmts command a gid group = Ok l ->
  exists leader lt, hd_error group = Some leader /\ tables_of_id a leader = Ok lt /\
    incl (match_stmts lt) l /\ incl (completion_stmts lt) l /\
    forall id, In id group ->
      exists t acc, tables_of_id a id = Ok t /\ accepting_of_id a id = Ok acc /\
        In (SFunc (fn_name command (append "_subword_" (sN id)))) l /\
        In (acc_stmt acc) l /\ In (lits_stmt t) l.
Proof.
  intros command a gid group l H. destruct group as [|x [|y r]]; cbn [group_stmts] in H; [discriminate| |].
  - apply obind_ok in H. destruct H as [t [Ht H]]. apply obind_ok in H. destruct H as [acc [Hacc H]].
    injection H as Hl. subst l. exists x, t. split; [reflexivity|]. split; [exact Ht|].
    unfold wrapper_stmts. split; [intros z Hz; in_solve|]. split; [intros z Hz; in_solve|].
    intros id [<-|[]]. exists t, acc. split; [exact Ht|]. split; [exact Hacc|].
    split; [in_solve|]. split; in_solve.
  - apply obind_ok in H. destruct H as [lt [Hlt H]]. apply obind_ok in H. destruct H as [ws [Hws H]].
    injection H as Hl. subst l. exists x, lt. split; [reflexivity|]. split; [exact Hlt|].
    unfold shape_fn_stmts. split; [intros z Hz; in_solve|]. split; [intros z Hz; in_solve|].
    intros id Hid. destruct (omap_ok_each _ _ _ Hws id Hid) as [w [Hw Hin]].
    apply obind_ok in Hw. destruct Hw as [t [Ht Hw]]. apply obind_ok in Hw. destruct Hw as [acc [Hacc Hw]].
    injection Hw as Hw'. subst w. exists t, acc. split; [exact Ht|]. split; [exact Hacc|].
    assert (Hsub : forall z, In z (shape_wrapper_stmts command id gid t acc) -> In z (List.concat ws)).
    { intros z Hz. apply in_concat. eexists. split; [exact Hin|exact Hz]. }
    unfold shape_wrapper_stmts in Hsub.
    assert (H1 : In (SFunc (fn_name command (append "_subword_" (sN id)))) (List.concat ws)) by (apply Hsub; in_solve).
    assert (H2 : In (acc_stmt acc) (List.concat ws)) by (apply Hsub; in_solve).
    assert (H3 : In (lits_stmt t) (List.concat ws)) by (apply Hsub; in_solve).
    clear Hsub. split; [in_solve|]. split; in_solve.
Qed.
Transparent match_stmts completion_stmts lits_stmt acc_stmt.

(** *** The tables describe the compiled automaton *)
Definition tables_describe (c : cdfa) (om : list (string * string)) (os : list (N * list (string * string)))
           (a : alltables) : Prop :=
  let start := array_start Bash in
  describes (c_main c) (a_commands a) start om (a_main a) /\
  (forall s pi to, (exists row, In (s, row) (a_subtrans a) /\ In (pi, to) row)
                   <-> exists lvl, trans_on (c_main c) s (ISub pi lvl) to) /\
  (forall k s id, mem3 (a_csub a) k s id <->
     exists rt pi to, rtrans (c_main c) = Ok rt /\ trans_on (c_main c) s (ISub pi k) to /\
                      assocN pi (get_subwords rt start) = Some id) /\
  (forall s pi lvl to, trans_on (c_main c) s (ISub pi lvl) to -> exists id t, In (pi, id, t) (a_subwords a)) /\
  (forall pi id t, In (pi, id, t) (a_subwords a) ->
     exists sd, nthN (c_subs c) pi = Some sd /\
       describes sd (a_commands a) start (match assocN pi os with Some o => o | None => [] end) t /\
       In (id, map (fun s => s + start) (d_accepting sd)) (a_subaccepting a)).

Theorem tables_describe_compiled : forall pick fuel v c om os nd a,
  alts_nonempty (v_expr v) = true ->
  compile_valid pick fuel v = Ok c ->
  NoDup om -> (forall pi o, assocN pi os = Some o -> NoDup o) ->
  all_tables Bash c om os = Ok (nd, a) ->
  tables_describe c om os a.
Proof.
  intros pick fuel v c om os nd a Ha Hc Hom Hos Hall.
  destruct (compiled_facts pick fuel v c Ha Hc) as [_ [W _]].
  destruct (all_tables_inv _ _ _ _ _ _ Hall) as [rt F].
  unfold tables_describe. cbv zeta. split; [|split; [|split; [|split]]].
  - eapply describes_of_tables; [exact W|exact Hom|exact (af_main _ _ _ _ _ _ _ F)].
  - intros s pi to. apply (subtrans_exact Bash c om os nd a W Hall).
  - intros k s id. apply (csub_exact Bash c om os nd a W Hall).
  - intros s pi lvl to Htr.
    pose proof (proj2 (trans_on_rt _ _ _ _ _ W (af_rt _ _ _ _ _ _ _ F)) Htr) as Hrt.
    pose proof (get_subwords_covers rt (array_start Bash) s pi lvl to Hrt) as Hcov.
    apply in_map_iff in Hcov. destruct Hcov as [[pi' id] [E Hin]]. simpl in E. subst pi'.
    destruct (omap_ok_each _ _ _ (af_subs _ _ _ _ _ _ _ F) (pi, id) Hin) as [[[p i] t] [Hy Hiny]].
    apply obind_ok in Hy. destruct Hy as [sd [_ Hy]]. apply obind_ok in Hy. destruct Hy as [t' [_ Hy]].
    inversion Hy; subst. exists i, t. exact Hiny.
  - intros pi id t Hin.
    destruct (subword_input _ _ _ _ _ _ _ _ _ Hall Hin) as [l Hl].
    destruct (sub_facts pick fuel v c pi l Ha Hc Hl) as [sd [Hsd Hok]].
    pose proof (proj1 (subwords_exact Bash c om os nd a Hall pi id t) Hin) as [rt' [sd' [Hrt' [Hg [Hsd' Hglt]]]]].
    assert (sd' = sd) by (unfold nthN in Hsd'; congruence). subst sd'.
    exists sd. split; [exact Hsd'|]. split.
    + eapply describes_of_tables; [apply (so_wf _ Hok)| |exact Hglt].
      destruct (assocN pi os) as [o|] eqn:Eo; [eapply Hos; eauto|constructor].
    + apply (subaccepting_exact Bash c om os nd a Hall). exists rt', pi, sd. auto.
Qed.

(** *** Shape groups: the tables printed once for a group are every member's own *)
Definition same_shape (x y : tables) : Prop :=
  match_stmts x = match_stmts y /\ completion_stmts x = completion_stmts y.

Lemma iso_same_shape : forall x y, isomorphic_to x y = true -> same_shape x y.
Proof.
  intros x y H. destruct (isomorphic_sound _ _ H) as [H1 [H2 [H3 [H4 [H5 [H6 [H7 H8]]]]]]].
  unfold same_shape, match_stmts, completion_stmts. rewrite H1, H2, H4, H5, H6, H7. auto.
Qed.

Lemma same_shape_trans : forall x y z, same_shape x y -> same_shape y z -> same_shape x z.
Proof. intros x y z [A B] [C D]. split; congruence. Qed.

Lemma adjacent_iso_cons : forall a x y r,
  adjacent_iso a (x :: y :: r) =
  match tables_of_id a x, tables_of_id a y with
  | Ok tx, Ok ty => isomorphic_to tx ty && adjacent_iso a (y :: r)
  | _, _ => false
  end.
Proof. reflexivity. Qed.

Lemma adjacent_iso_leader : forall a g leader lt,
  adjacent_iso a g = true -> hd_error g = Some leader -> tables_of_id a leader = Ok lt ->
  forall id t, In id g -> tables_of_id a id = Ok t -> same_shape lt t.
Proof.
  intros a. induction g as [|x g IH]; intros leader lt Hadj Hhd Hlt id t Hin Ht; [destruct Hin|].
  simpl in Hhd. inversion Hhd; subst leader.
  destruct Hin as [<-|Hin].
  - rewrite Hlt in Ht. inversion Ht; subst. split; reflexivity.
  - destruct g as [|y r]; [destruct Hin|]. rewrite adjacent_iso_cons in Hadj. rewrite Hlt in Hadj.
    destruct (tables_of_id a y) as [ty| | |] eqn:Ey; try discriminate.
    apply andb_prop in Hadj. destruct Hadj as [Hiso Hadj].
    eapply same_shape_trans; [apply iso_same_shape; exact Hiso|].
    apply (IH y ty Hadj eq_refl Ey id t Hin Ht).
Qed.

Lemma find_unique : forall {A} (key : A -> N) (l : list A) x,
  NoDup (map key l) -> In x l -> find (fun e => N.eqb (key e) (key x)) l = Some x.
Proof.
  intros A key. induction l as [|y l IH]; intros x ND Hin; [destruct Hin|]. simpl.
  simpl in ND. inversion ND as [|? ? Hnot ND']; subst.
  destruct Hin as [->|Hin]; [rewrite N.eqb_refl; reflexivity|].
  destruct (N.eqb (key y) (key x)) eqn:E; [|apply IH; auto].
  apply N.eqb_eq in E. exfalso. apply Hnot. rewrite E. apply in_map. exact Hin.
Qed.

Lemma subword_ids_NoDup : forall c om os nd a,
  all_tables Bash c om os = Ok (nd, a) -> NoDup (map (fun e : N * N * tables => snd (fst e)) (a_subwords a)).
Proof.
  intros c om os nd a Hall. destruct (all_tables_inv _ _ _ _ _ _ Hall) as [rt F].
  pose proof (subs_pairs c om os nd a Hall rt (af_rt _ _ _ _ _ _ _ F)) as E.
  rewrite <- (map_map fst snd). rewrite E. apply ids_NoDup.
Qed.

(** with a valid grouping, every within-word automaton named by the tables has its wrapper in the
    script: its own accepting states and literal list, and match / completion tables equal to
    its own *)
Definition carries_each_sub (command : string) (a : alltables) (sts : list stmt) : Prop :=
  forall pi id t, In (pi, id, t) (a_subwords a) ->
    exists acc lt,
      accepting_of_id a id = Ok acc /\
      In (SFunc (fn_name command (append "_subword_" (sN id)))) sts /\
      In (acc_stmt acc) sts /\ In (lits_stmt t) sts /\
      incl (match_stmts lt) sts /\ incl (completion_stmts lt) sts /\ same_shape lt t.

Lemma in_number_from : forall {A} (l : list A) n x, In x l -> exists i, In (i, x) (number_from n l).
Proof.
  intros A. induction l as [|y l IH]; intros n x Hin; [destruct Hin|]. simpl.
  destruct Hin as [->|Hin]; [exists n; left; reflexivity|].
  destruct (IH (n + 1) x Hin) as [i Hi]. exists i. right. exact Hi.
Qed.

Lemma valid_grouping_carries : forall c om os nd a command groups sts,
  all_tables Bash c om os = Ok (nd, a) ->
  valid_grouping a groups = true -> n_subwords nd = true ->
  carries_subs command nd a groups sts -> carries_each_sub command a sts.
Proof.
  intros c om os nd a command groups sts Hall Hv Hn Hc pi id t Hin.
  destruct (Hc Hn) as [_ [_ Hgroups]].
  unfold valid_grouping in Hv. apply andb_prop in Hv. destruct Hv as [Hv Hadj].
  apply andb_prop in Hv. destruct Hv as [Hv _]. apply andb_prop in Hv. destruct Hv as [_ Hcover].
  rewrite forallb_forall in Hcover.
  assert (Hmem : In id (List.concat groups)).
  { apply CG.Proofs.SubsetConstr.memN_In. apply Hcover. apply in_map_iff. exists (pi, id, t). auto. }
  apply in_concat in Hmem. destruct Hmem as [g [Hg Hidg]].
  destruct (in_number_from groups 0 g Hg) as [gid Hgid].
  destruct (Hgroups gid g Hgid) as [l [Hl Hincl]].
  destruct (group_stmts_members _ _ _ _ _ Hl) as [leader [lt [Hhd [Hlt [Hm [Hcm Hmem]]]]]].
  destruct (Hmem id Hidg) as [t' [acc [Ht' [Hacc [H1 [H2 H3]]]]]].
  assert (Et : tables_of_id a id = Ok t).
  { unfold tables_of_id.
    pose proof (find_unique (fun e : N * N * tables => snd (fst e)) (a_subwords a) (pi, id, t)
                  (subword_ids_NoDup _ _ _ _ _ Hall) Hin) as Hf. cbn [fst snd] in Hf.
    rewrite Hf. reflexivity. }
  rewrite Et in Ht'. inversion Ht'; subst t'.
  rewrite forallb_forall in Hadj. specialize (Hadj g Hg).
  assert (Hadj' : adjacent_iso a g = true) by (destruct g; [discriminate|exact Hadj]).
  exists acc, lt. split; [exact Hacc|].
  split; [apply Hincl; exact H1|]. split; [apply Hincl; exact H2|]. split; [apply Hincl; exact H3|].
  split; [intros z Hz; apply Hincl; apply Hm; exact Hz|].
  split; [intros z Hz; apply Hincl; apply Hcm; exact Hz|].
  eapply adjacent_iso_leader; eauto.
Qed.

(** *** End to end *)
Theorem embed_end_to_end :
  forall pick fuel builtins text v c om os nd a groups sig s,
    compile pick fuel builtins text Bash = Ok (v, c) ->
    name_ok (v_command v) -> no_nl sig = true ->
    Forall (fun cmd => body_ok (cmd_body cmd)) (a_commands a) ->
    NoDup om -> (forall pi o, assocN pi os = Some o -> NoDup o) ->
    all_tables Bash c om os = Ok (nd, a) ->
    script (v_command v) sig (d_start (c_main c)) nd a groups = Ok s ->
    (* (i) the script reads back as its statement list, which carries the tables *)
    (exists sts,
       script_stmts (v_command v) (d_start (c_main c)) nd a groups = Ok sts /\
       read_stmts Bash (v_command v) s = sts /\
       carries_main (v_command v) (d_start (c_main c)) a sts /\
       carries_subs (v_command v) nd a groups sts /\
       (valid_grouping a groups = true -> n_subwords nd = true -> carries_each_sub (v_command v) a sts)) /\
    (* (ii) the tables describe the compiled automaton *)
    tables_describe c om os a /\
    (* (iii) the compiled automaton accepts what the grammar denotes *)
    (forall w, accepts_items c w <-> denotes (v_expr v) w).
Proof.
  intros pick fuel builtins text v c om os nd a groups sig s Hcomp Hname Hsig Hbodies Hom Hos Hall Hscript.
  unfold compile in Hcomp.
  destruct (parse text) as [g| | |] eqn:Ep; simpl in Hcomp; try discriminate.
  destruct (from_grammar builtins g Bash) as [v'| | |] eqn:Ev; simpl in Hcomp; try discriminate.
  destruct (compile_valid pick fuel v') as [c'| | |] eqn:Ec; simpl in Hcomp; try discriminate.
  inversion Hcomp; subst v' c'.
  pose proof (parse_alts_nonempty pinned text g Ep) as Hga.
  destruct (check_tree builtins g Bash v Ev) as [_ [_ [_ Halts]]]. specialize (Halts Hga).
  split; [|split].
  - destruct (bash_script_read _ _ _ _ _ _ _ Hname Hsig Hbodies Hscript) as [sts [Hsts Hread]].
    destruct (script_stmts_carry _ _ _ _ _ _ Hsts) as [Hm Hsb].
    exists sts. split; [exact Hsts|]. split; [exact Hread|]. split; [exact Hm|]. split; [exact Hsb|].
    intros Hv Hn. eapply valid_grouping_carries; eauto.
  - eapply tables_describe_compiled; eauto.
  - eapply driver_correct; eauto.
Qed.
