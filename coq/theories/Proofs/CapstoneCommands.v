(** Source-level corollary of the capstone, C11: where the external commands of the emitted script
    come from.  Part A (checker): every [Command] leaf of the validated tree is a command written
    in a call variant or in a plain definition of the grammar, or the command [Spec.Choice.spec]
    chooses for a nonterminal the grammar refers to -- never a definition for another shell.
    Part B (regex / automata / tables): every command of [a_commands] is the text of a [Command]
    leaf of the validated tree.  Part C (script): the statements read back from the script contain,
    for every command of [a_commands], its function with the body verbatim. *)
From CG Require Import Base.Prelude Model.Ast Model.Check Spec.Choice.
From CG Require Import Proofs.CheckChoice Proofs.CheckLemmas Proofs.CheckSpans Proofs.CheckTotal Proofs.CheckProvenance.

(** *** Part A: the command texts of a tree *)
Fixpoint cmd_texts (e : expr) : list string :=
  match e with
  | Terminal _ _ _ _ | NontermRef _ _ _ => []
  | Command c _ _ _ => [c]
  | Subword c _ _ | Optional c _ | Many1 c _ | DistDescr c _ _ => cmd_texts c
  | Sequence cs _ | Alternative cs _ | Fallback cs _ => flat_map cmd_texts cs
  end.

Lemma distribute_cmds e : forall d, cmd_texts (fst (distribute e d)) = cmd_texts e.
Proof.
  assert (Hl : forall cs, Forall (fun e => forall d, cmd_texts (fst (distribute e d)) = cmd_texts e) cs ->
                          forall d, flat_map cmd_texts (fst (distribute_list cs d)) = flat_map cmd_texts cs).
  { induction 1 as [|x l Hx _ IH]; intro d; cbn; [reflexivity|].
    pose proof (Hx d) as H1. destruct (distribute x d) as [c' d1].
    pose proof (IH d1) as H3. destruct (distribute_list l d1) as [r' d2]. cbn in *.
    rewrite H1, H3. reflexivity. }
  induction e using expr_ind'; intro d0.
  - cbn. destruct d; [reflexivity|]. destruct d0; reflexivity.
  - reflexivity.
  - reflexivity.
  - rewrite distribute_seq. specialize (Hl cs H d0). destruct (distribute_list cs d0). exact Hl.
  - cbn [distribute fst cmd_texts]. rewrite flat_map_map.
    apply flat_map_ext_Forall; eapply Forall_impl; try exact H; intros a Ha; apply Ha.
  - cbn [distribute]. specialize (IHe d0). destruct (distribute e d0). exact IHe.
  - cbn [distribute]. specialize (IHe d0). destruct (distribute e d0). exact IHe.
  - cbn [distribute fst cmd_texts]. apply IHe.
  - rewrite distribute_fb. specialize (Hl cs H d0). destruct (distribute_list cs d0). exact Hl.
  - cbn [distribute]. specialize (IHe d0). destruct (distribute e d0). exact IHe.
Qed.

Lemma flatten_cmds e : cmd_texts (flatten e) = cmd_texts e.
Proof.
  induction e using expr_ind'; cbn [flatten cmd_texts]; try reflexivity; try assumption;
    rewrite flat_map_map; apply flat_map_ext_Forall; exact H.
Qed.

Lemma collapse_cmds e : cmd_texts (collapse e) = cmd_texts e.
Proof.
  induction e using expr_ind'; cbn [collapse cmd_texts]; try reflexivity; try assumption;
    try (rewrite flat_map_map; apply flat_map_ext_Forall; exact H).
  apply flatten_cmds.
Qed.

Lemma propagate_cmds e : forall lvl, cmd_texts (propagate e lvl) = cmd_texts e.
Proof.
  induction e using expr_ind'; intro lvl; try reflexivity; try (cbn [propagate cmd_texts]; apply IHe).
  - cbn [propagate cmd_texts]. rewrite flat_map_map. apply flat_map_ext_Forall.
    eapply Forall_impl; [|exact H]. intros a Ha. apply Ha.
  - cbn [propagate cmd_texts]. rewrite flat_map_map. apply flat_map_ext_Forall.
    eapply Forall_impl; [|exact H]. intros a Ha. apply Ha.
  - rewrite propagate_fb. cbn [cmd_texts]. generalize 0 as i.
    induction H as [|x l Hx _ IH]; intro i; cbn; [reflexivity|]. rewrite Hx, IH. reflexivity.
Qed.

(** [C]: a universe of command texts *)
Definition cmds_within (C : string -> Prop) (e : expr) : Prop := forall c, In c (cmd_texts e) -> C c.

Lemma cmds_within_list (C : string -> Prop) cs : (forall c, In c (flat_map cmd_texts cs) -> C c) <-> Forall (cmds_within C) cs.
Proof.
  unfold cmds_within. induction cs as [|x r IH]; cbn [flat_map]; split; intro H.
  - constructor.
  - intros c [].
  - constructor; [intros c Hc; apply H; apply in_or_app; auto|]. apply IH. intros c Hc. apply H. apply in_or_app; auto.
  - inversion H as [|? ? Hx Hr]; subst. intros c Hc. apply in_app_or in Hc. destruct Hc as [Hc|Hc]; [auto|].
    exact (proj2 IH Hr c Hc).
Qed.

Lemma map_cmds_within (C : string -> Prop) (h : expr -> expr) cs :
  Forall (fun c => cmds_within C c -> cmds_within C (h c)) cs ->
  Forall (cmds_within C) cs -> Forall (cmds_within C) (map h cs).
Proof.
  induction 1; intro Hf; [constructor|]. inversion Hf; subst. cbn. constructor; auto.
Qed.

(** [specialize]: new commands are what [specialize_ref] puts for a reference of the tree *)
Definition refs_ok (C : string -> Prop) sh us bi fs plain (refs : list (string * span)) : Prop :=
  forall n l sp c z l' sp', In (n, sp) refs ->
    specialize_ref sh us bi fs plain n l sp = Command c z l' sp' -> C c.

Lemma specialize_cmds (C : string -> Prop) sh us bi fs plain e :
  cmds_within C e -> refs_ok C sh us bi fs plain (ref_spans e) ->
  cmds_within C (specialize sh us bi fs plain e).
Proof.
  assert (Hl : forall cs,
             Forall (fun x => cmds_within C x -> refs_ok C sh us bi fs plain (ref_spans x) ->
                              cmds_within C (specialize sh us bi fs plain x)) cs ->
             (forall c, In c (flat_map cmd_texts cs) -> C c) ->
             refs_ok C sh us bi fs plain (flat_map ref_spans cs) ->
             forall c, In c (flat_map cmd_texts (map (specialize sh us bi fs plain) cs)) -> C c).
  { induction 1 as [|x r Hx _ IH]; intros Hw Hr c Hc; cbn [map flat_map] in *; [destruct Hc|].
    apply in_app_or in Hc. destruct Hc as [Hc|Hc].
    - apply (Hx (fun c0 H0 => Hw c0 (in_or_app _ _ _ (or_introl H0)))
                (fun n l sp c0 z l' sp' Hin => Hr n l sp c0 z l' sp' (in_or_app _ _ _ (or_introl Hin))) c Hc).
    - apply (IH (fun c0 H0 => Hw c0 (in_or_app _ _ _ (or_intror H0)))
                (fun n l sp c0 z l' sp' Hin => Hr n l sp c0 z l' sp' (in_or_app _ _ _ (or_intror Hin))) c Hc). }
  induction e using expr_ind'; intros Hw Hr; cbn [specialize]; try exact Hw;
    try (apply IHe; assumption); try (exact (Hl cs H Hw Hr)).
  (* NontermRef *)
  assert (Hs : specialize_ref sh us bi fs plain n l sp = NontermRef n l sp
               \/ exists c z, specialize_ref sh us bi fs plain n l sp = Command c z l sp).
  { unfold specialize_ref. destruct (assoc n us); [right; eauto|].
    destruct (assoc n fs) as [[c s]|]; [right; eauto|].
    destruct (mem_str n plain); [left; reflexivity|]. destruct (assoc n bi); [right; eauto|left; reflexivity]. }
  destruct Hs as [Hs|[c [z Hs]]]; rewrite Hs; intros c0 Hc0; cbn [cmd_texts] in Hc0; [destruct Hc0|].
  destruct Hc0 as [<-|[]]. eapply (Hr n l sp); [left; reflexivity|exact Hs].
Qed.

Definition table_cmds_within (C : string -> Prop) (t : list (string * expr)) : Prop :=
  forall n rhs, assoc n t = Some rhs -> cmds_within C rhs.

Lemma resolve_cmds (C : string -> Prop) t e : table_cmds_within C t -> cmds_within C e -> cmds_within C (resolve t e).
Proof.
  intro Ht. induction e using expr_ind'; intro Hw; cbn [resolve]; try exact Hw; try (apply IHe; exact Hw).
  - destruct (assoc n t) eqn:E; [eapply Ht; eauto|exact Hw].
  - unfold cmds_within in *. cbn [cmd_texts] in *. apply cmds_within_list. apply map_cmds_within; [exact H|].
    apply cmds_within_list. exact Hw.
  - unfold cmds_within in *. cbn [cmd_texts] in *. apply cmds_within_list. apply map_cmds_within; [exact H|].
    apply cmds_within_list. exact Hw.
  - unfold cmds_within in *. cbn [cmd_texts] in *. apply cmds_within_list. apply map_cmds_within; [exact H|].
    apply cmds_within_list. exact Hw.
Qed.

Lemma resolve_in_order_cmds (C : string -> Prop) ord : forall t,
  table_cmds_within C t -> table_cmds_within C (resolve_in_order ord t).
Proof.
  induction ord as [|n r IH]; intros t Ht; cbn [resolve_in_order]; [exact Ht|].
  destruct (assoc n t) as [rhs|] eqn:E; [|apply IH; exact Ht].
  apply IH. intros m rhs' Hm. rewrite assoc_update_def in Hm.
  destruct (String.eqb m n); [|eapply Ht; eauto].
  destruct (assoc m t); [|discriminate]. inversion Hm; subst.
  apply resolve_cmds; [exact Ht|eapply Ht; eauto].
Qed.

(** *** Part A, the theorem: where the commands of the validated tree come from *)
Definition plain_cmds (g : grammar) : list string :=
  flat_map (fun s => match s with
                     | CallVariant _ _ e => cmd_texts e
                     | NontermDef _ _ None rhs => cmd_texts rhs
                     | NontermDef _ _ (Some _) _ => []
                     end) g.

(** a command the script may run: written in a call variant or in a plain definition, or chosen
    by the specification [Spec.Choice.spec] for a nonterminal the grammar refers to (the
    [<X@shell>] definition for the TARGET shell, else the built-in for PATH / DIRECTORY) *)
Definition cmd_source (builtins : shell -> list (string * string)) (g : grammar) (sh : shell) (c : string) : Prop :=
  In c (plain_cmds g)
  \/ exists x, In x (map fst (grammar_refs g)) /\ Choice.spec builtins g sh x = ChCommand c.

Lemma stmt_plain_cmds g s :
  In s g -> match s with NontermDef _ _ (Some _) _ => False | _ => True end ->
  forall c, In c (cmd_texts (stmt_expr s)) -> In c (plain_cmds g).
Proof.
  intros Hs Hp c Hc. unfold plain_cmds. apply in_flat_map. exists s. split; [exact Hs|].
  destruct s as [n sp e|n sp [shn|] rhs]; cbn [stmt_expr] in Hc; try exact Hc.
  destruct Hp.
Qed.

Lemma expr0_cmds g c : In c (cmd_texts (expr0_of g)) -> In c (plain_cmds g).
Proof.
  assert (Hall : forall e, In e (map snd (call_variants g)) -> forall c, In c (cmd_texts e) -> In c (plain_cmds g)).
  { intros e He c0 Hc0. apply in_map_iff in He. destruct He as [[[n sp] e'] [Heq Hin]].
    cbn in Heq. subst e'. unfold call_variants in Hin. apply in_flat_map in Hin.
    destruct Hin as [s [Hs Hin]]. destruct s; [|destruct Hin]. destruct Hin as [Hin|[]].
    inversion Hin; subst. apply (stmt_plain_cmds g _ Hs); [exact I|exact Hc0]. }
  unfold expr0_of. destruct (map snd (call_variants g)) as [|e [|e' r]] eqn:E.
  - cbn. intros [].
  - apply Hall. left. reflexivity.
  - cbn [cmd_texts]. intro H. apply in_flat_map in H. destruct H as [x [Hx Hc]]. eapply Hall; eauto.
Qed.

Theorem from_grammar_cmds builtins g sh v :
  from_grammar builtins g sh = Ok v -> cmds_within (cmd_source builtins g sh) (v_expr v).
Proof.
  intro H. apply from_grammar_ok in H. rename H into A.
  rewrite (a_v _ _ _ _ A). cbn [v_expr]. unfold a_expr5.
  intros c Hc. rewrite propagate_cmds, collapse_cmds in Hc. revert c Hc.
  change (cmds_within (cmd_source builtins g sh) (resolve (a_table _ _ _ _ A) (a_expr2 _ _ _ _ A))).
  set (C := cmd_source builtins g sh).
  pose proof (a_collect _ _ _ _ A) as Hcol. pose proof (a_specs _ _ _ _ A) as Hsp.
  assert (Hnames : map d_name (a_defs1 _ _ _ _ A) = map d_name (a_defs0 _ _ _ _ A)).
  { unfold a_defs1, defs1_of. rewrite map_map. reflexivity. }
  (* what [specialize_ref] puts for a reference of the grammar is what the specification chooses *)
  assert (Hrefs : forall refs, incl refs (grammar_refs g) ->
                               refs_ok C sh (a_us _ _ _ _ A) (builtins sh) (a_fs _ _ _ _ A) (map d_name (a_defs1 _ _ _ _ A)) refs).
  { intros refs Hi n l sp c z l' sp' Hin E. right. exists n. split.
    - apply in_map_iff. exists (n, sp). split; [reflexivity|apply Hi; exact Hin].
    - rewrite <- (choice_correct builtins g sh _ _ _ n l sp Hsp Hcol). rewrite <- Hnames, E. reflexivity. }
  assert (Hspec : forall e, (forall c, In c (cmd_texts e) -> In c (plain_cmds g)) -> incl (ref_spans e) (grammar_refs g) ->
                            cmds_within C (a_spec _ _ _ _ A (distribute_descriptions e))).
  { intros e Hce Hre. unfold a_spec, spec_of. apply specialize_cmds.
    - intros c Hc. unfold distribute_descriptions in Hc. rewrite distribute_cmds in Hc. left. apply Hce. exact Hc.
    - apply Hrefs. unfold distribute_descriptions. destruct (distribute_spans e None) as [-> _]. exact Hre. }
  apply resolve_cmds.
  - apply resolve_in_order_cmds. intros n rhs Hn. apply assoc_In in Hn. unfold table0_of in Hn. apply in_map_iff in Hn.
    destruct Hn as [d2 [Heq Hin]]. inversion Heq; subst.
    destruct (defs2_in builtins g sh _ (a_us _ _ _ _ A) (a_fs _ _ _ _ A) Hcol d2 Hin) as [rhs0 [Hg Hr]]. rewrite Hr.
    apply Hspec.
    + intros c Hc. apply (stmt_plain_cmds g _ Hg); [exact I|exact Hc].
    + exact (proj1 (stmt_within g _ Hg)).
  - unfold a_expr2, a_expr1. apply Hspec; [apply expr0_cmds|exact (proj1 (expr0_within g))].
Qed.

(** *** Part B: from the tree to the regex inputs, the automata and the command table *)
From CG Require Import Model.Dfa Model.Subset Model.Driver Model.Tables Model.Regex.
From CG Require Import Proofs.TablesSound Proofs.FromExpr Proofs.SubCompiled Proofs.DriverCorrect Proofs.C02Total
  Proofs.CompilerTotal Proofs.TreeFacts.

Definition rcmd_ok (L : list string) (ri : rinput) : Prop :=
  match ri with RCmd c _ _ _ => In c L | _ => True end.

Definition pool_cmds_ok (L : list string) (pl : pool) : Prop :=
  Forall (fun rr => Forall (rcmd_ok L) (r_inputs rr)) pl.

Lemma Forall_snoc {A} (P : A -> Prop) l x : Forall P l -> P x -> Forall P (l ++ [x]).
Proof. intros H Hx. apply Forall_app. split; [exact H|constructor; [exact Hx|constructor]]. Qed.

Lemma finish_regex_inputs id t s : r_inputs (finish_regex id t s) = b_inputs s.
Proof. reflexivity. Qed.

Lemma pool_intern_cmds L r pl rid pl' :
  pool_intern r pl = (rid, pl') -> Forall (rcmd_ok L) (r_inputs r) -> pool_cmds_ok L pl -> pool_cmds_ok L pl'.
Proof.
  unfold pool_intern. destruct (pool_find r pl 0); intro H; inversion H; subst; intros Hr Hp; [exact Hp|].
  apply Forall_snoc; assumption.
Qed.

Lemma do_from_expr_cmds e : forall L s pl id t s' pl',
  incl (cmd_texts e) L ->
  do_from_expr e s pl = Ok (id, t, s', pl') ->
  Forall (rcmd_ok L) (b_inputs s) -> pool_cmds_ok L pl ->
  Forall (rcmd_ok L) (b_inputs s') /\ pool_cmds_ok L pl'.
Proof.
  assert (Hl : forall cs,
             Forall (fun e => forall L s pl id t s' pl', incl (cmd_texts e) L ->
                                do_from_expr e s pl = Ok (id, t, s', pl') ->
                                Forall (rcmd_ok L) (b_inputs s) -> pool_cmds_ok L pl ->
                                Forall (rcmd_ok L) (b_inputs s') /\ pool_cmds_ok L pl') cs ->
             forall L s pl ids ts s' pl', incl (flat_map cmd_texts cs) L ->
               do_children do_from_expr cs s pl = Ok (ids, ts, s', pl') ->
               Forall (rcmd_ok L) (b_inputs s) -> pool_cmds_ok L pl ->
               Forall (rcmd_ok L) (b_inputs s') /\ pool_cmds_ok L pl').
  { induction 1 as [|x r Hx _ IH]; intros L s pl ids ts s' pl' Hi H Hs Hp; cbn [do_children] in H.
    - inversion H; subst. auto.
    - destruct (do_from_expr x s pl) as [[[[id1 t1] s1] pl1]| | |] eqn:E1; cbn [obind] in H; try discriminate.
      destruct (do_children do_from_expr r s1 pl1) as [[[[ids2 ts2] s2] pl2]| | |] eqn:E2; cbn [obind] in H; try discriminate.
      inversion H; subst.
      cbn [flat_map] in Hi.
      destruct (Hx L s pl id1 t1 s1 pl1 (fun c Hc => Hi c (in_or_app _ _ _ (or_introl Hc))) E1 Hs Hp) as [Hs1 Hp1].
      exact (IH L s1 pl1 ids2 ts2 s' pl' (fun c Hc => Hi c (in_or_app _ _ _ (or_intror Hc))) E2 Hs1 Hp1). }
  induction e using expr_ind'; intros L s pl id t0 s' pl' Hi HD Hs Hp; cbn [do_from_expr] in HD.
  - (* Terminal *) inversion HD; subst. cbn [alloc push_input b_inputs]. split; [apply Forall_snoc; [exact Hs|exact I]|exact Hp].
  - (* NontermRef *) inversion HD; subst. cbn [alloc push_input b_inputs]. split; [apply Forall_snoc; [exact Hs|exact I]|exact Hp].
  - (* Command *) inversion HD; subst. cbn [alloc push_input b_inputs]. split; [|exact Hp].
    apply Forall_snoc; [exact Hs|]. cbn. apply Hi. left. reflexivity.
  - (* Sequence *)
    destruct (do_children do_from_expr cs s pl) as [[[[ids ts] s1] pl1]| | |] eqn:E; cbn [obind] in HD; try discriminate.
    inversion HD; subst. cbn [alloc b_inputs]. exact (Hl cs H L s pl ids ts s1 pl' Hi E Hs Hp).
  - (* Alternative *)
    destruct (do_children do_from_expr cs s pl) as [[[[ids ts] s1] pl1]| | |] eqn:E; cbn [obind] in HD; try discriminate.
    inversion HD; subst. cbn [alloc b_inputs]. exact (Hl cs H L s pl ids ts s1 pl' Hi E Hs Hp).
  - (* Optional *)
    destruct (do_from_expr e s pl) as [[[[cid ct] s1] pl1]| | |] eqn:E; cbn [obind] in HD; try discriminate.
    inversion HD; subst. cbn [alloc b_inputs]. exact (IHe L s pl cid ct s1 pl' Hi E Hs Hp).
  - (* Many1 *)
    destruct (do_from_expr e s pl) as [[[[cid ct] s1] pl1]| | |] eqn:E; cbn [obind] in HD; try discriminate.
    inversion HD; subst. cbn [alloc b_inputs]. exact (IHe L s pl cid ct s1 pl' Hi E Hs Hp).
  - (* DistDescr *) discriminate.
  - (* Fallback *)
    destruct (do_children do_from_expr cs s pl) as [[[[ids ts] s1] pl1]| | |] eqn:E; cbn [obind] in HD; try discriminate.
    inversion HD; subst. cbn [alloc b_inputs]. exact (Hl cs H L s pl ids ts s1 pl' Hi E Hs Hp).
  - (* Subword *)
    destruct (do_from_expr e empty_bst pl) as [[[[cid ct] cs] pl1]| | |] eqn:E; cbn [obind] in HD; try discriminate.
    destruct (pool_intern (finish_regex cid ct cs) pl1) as [rid pl2] eqn:Ei.
    inversion HD; subst. cbn [alloc push_input b_inputs].
    destruct (IHe L empty_bst pl cid ct cs pl1 Hi E (Forall_nil _) Hp) as [Hcs Hp1].
    split; [apply Forall_snoc; [exact Hs|exact I]|].
    eapply pool_intern_cmds; [exact Ei|rewrite finish_regex_inputs; exact Hcs|exact Hp1].
Qed.

Lemma from_expr_cmds e r pl :
  from_expr e [] = Ok (r, pl) ->
  Forall (rcmd_ok (cmd_texts e)) (r_inputs r) /\ pool_cmds_ok (cmd_texts e) pl.
Proof.
  unfold from_expr. intro H.
  destruct (do_from_expr e empty_bst []) as [[[[id t] s] pl1]| | |] eqn:E; cbn [obind] in H; try discriminate.
  inversion H; subst. rewrite finish_regex_inputs.
  exact (do_from_expr_cmds e (cmd_texts e) empty_bst [] id t s pl (fun c Hc => Hc) E (Forall_nil _) (Forall_nil _)).
Qed.

(** an input of an automaton built from a regex whose inputs are [rcmd_ok] names a command of [L] *)
Lemma dfa_inputs_cmds L pick fuel submap r d states x cm :
  dfa_from_regex pick fuel submap r = Ok (d, states) -> Forall (rcmd_ok L) (r_inputs r) ->
  In x (d_inputs d) -> names_cmd x cm -> In cm L.
Proof.
  intros Hd Hr Hin [lv Hx].
  destruct (dfa_from_regex_input_origin _ _ _ _ _ _ _ Hd Hin) as [ri [Hri Hfi]].
  rewrite Forall_forall in Hr. specialize (Hr ri Hri).
  destruct ri as [t0 d0 l0 sp|n0 l0 sp|c0 z0 l0 sp|rid l0 sp]; cbn [from_input] in Hfi.
  - inversion Hfi; subst. destruct Hx; discriminate.
  - inversion Hfi; subst. destruct Hx; discriminate.
  - cbn in Hr. inversion Hfi as [E]. destruct z0; subst x; destruct Hx as [Hx|Hx]; inversion Hx; subst; exact Hr.
  - destruct (assocN rid submap); inversion Hfi; subst. destruct Hx; discriminate.
Qed.

(** where the entries of [get_commands] come from *)
Lemma cmds_of_inputs_origin xs : forall acc c,
  In c (cmds_of_inputs acc xs) -> In c acc \/ exists x, In x xs /\ names_cmd x c.
Proof.
  unfold cmds_of_inputs. induction xs as [|x r IH]; intros acc c H; cbn [fold_left] in H; [auto|].
  destruct (IH _ _ H) as [H1|[y [Hy Hn]]]; [|right; exists y; split; [right; exact Hy|exact Hn]].
  destruct x as [t d lv|s lv|cm lv|cm lv|]; auto;
    (apply push_new_in in H1; destruct H1 as [->|H1]; [right; eexists; split; [left; reflexivity|exists lv; auto]|auto]).
Qed.

Lemma gc_fold_not_ok c rt0 : forall acc, (forall l, acc <> Ok l) -> forall l', fold_left (gc_step c) rt0 acc <> Ok l'.
Proof.
  induction rt0 as [|fxt r IH]; intros acc Hacc l'; cbn [fold_left]; [apply Hacc|].
  apply IH. intro l. unfold gc_step. destruct acc as [l0| | |]; cbn [obind]; try discriminate.
  exfalso. exact (Hacc l0 eq_refl).
Qed.

Lemma get_commands_origin c : forall rt0 l l',
  fold_left (gc_step c) rt0 (Ok l) = Ok l' ->
  forall cm, In cm l' ->
    In cm l
    \/ (exists f x to, In (f, x, to) rt0 /\ names_cmd x cm)
    \/ (exists f s lv to sd srt f' x' to',
          In (f, ISub s lv, to) rt0 /\ nthN (c_subs c) s = Some sd /\ rtrans sd = Ok srt
          /\ In (f', x', to') srt /\ names_cmd x' cm).
Proof.
  induction rt0 as [|[[f0 x0] t0] r IH]; intros l l' H cm Hcm; cbn [fold_left] in H.
  - inversion H; subst. auto.
  - destruct (gc_step c (Ok l) (f0, x0, t0)) as [l1| | |] eqn:E1;
      try (exfalso; eapply (gc_fold_not_ok c r); [|exact H]; intros l2 F; discriminate).
    destruct (IH l1 l' H cm Hcm) as [H1|[[f [x [to [Hin Hn]]]]|[f [s [lv [to [sd [srt [f' [x' [to' [Hin R]]]]]]]]]]]].
    + unfold gc_step in E1. cbn [obind] in E1. destruct x0 as [t d lv|s lv|cm0 lv|cm0 lv|].
      * inversion E1; subst. auto.
      * unfold lookup_sub in E1. destruct (nthN (c_subs c) s) as [sd|] eqn:Es; cbn [obind] in E1; try discriminate.
        destruct (rtrans sd) as [srt| | |] eqn:Er; cbn [obind] in E1; try discriminate. inversion E1; subst l1.
        apply cmds_of_inputs_origin in H1. destruct H1 as [H1|[y [Hy Hn]]]; [auto|].
        apply in_map_iff in Hy. destruct Hy as [[[f' x'] to'] [Ey Hy]]. cbn [fst snd] in Ey. subst y.
        right. right. exists f0, s, lv, t0, sd, srt, f', x', to'. split; [left; reflexivity|auto].
      * inversion E1; subst l1. apply push_new_in in H1. destruct H1 as [->|H1]; [|auto].
        right. left. exists f0, (ICmd cm0 lv), t0. split; [left; reflexivity|exists lv; auto].
      * inversion E1; subst l1. apply push_new_in in H1. destruct H1 as [->|H1]; [|auto].
        right. left. exists f0, (ICompadd cm0 lv), t0. split; [left; reflexivity|exists lv; auto].
      * inversion E1; subst. auto.
    + right. left. exists f, x, to. split; [right; exact Hin|exact Hn].
    + right. right. exists f, s, lv, to, sd, srt, f', x', to'. split; [right; exact Hin|exact R].
Qed.

(** Part B, the theorem: the command table of the compiled automata lists only commands of the tree *)
Theorem compiled_commands pick fuel v c cmds :
  alts_nonempty (v_expr v) = true -> compile_valid pick fuel v = Ok c ->
  get_commands c = Ok cmds -> forall cm, In cm cmds -> In cm (cmd_texts (v_expr v)).
Proof.
  intros Ha H Hg cm Hcm. set (L := cmd_texts (v_expr v)).
  unfold compile_valid in H.
  destruct (from_valid_expr (v_expr v)) as [[r pl] | | |] eqn:E; simpl in H; try discriminate.
  apply from_valid_expr_ok in E.
  destruct (compile_subs pick fuel (r_inputs r) pl [] []) as [[submap subs] | | |] eqn:Es; simpl in H; try discriminate.
  destruct (dfa_from_regex pick fuel submap r) as [[raw st] | | |] eqn:Ed; simpl in H; try discriminate.
  destruct (Minimize.minimize raw) as [m | | |] eqn:Em; simpl in H; try discriminate.
  destruct (Ambiguity.check_ambiguity_best_effort m) as [[] | | |]; simpl in H; try discriminate.
  inversion H; subst c. cbn [c_main c_subs] in *.
  destruct (from_expr_cmds _ _ _ E) as [Hr Hp]. fold L in Hr, Hp.
  assert (Hmain : forall x cm0, In x (d_inputs m) -> names_cmd x cm0 -> In cm0 L).
  { intros x cm0 Hx Hn. rewrite (minimize_inputs raw m Em) in Hx. eapply dfa_inputs_cmds; eauto. }
  unfold get_commands in Hg. cbn [c_main] in Hg.
  destruct (rtrans m) as [rt| | |] eqn:Hrt; cbn [obind] in Hg; try discriminate.
  change (fold_left (gc_step (mkcdfa m subs)) rt (Ok []) = Ok cmds) in Hg.
  destruct (get_commands_origin _ _ _ _ Hg cm Hcm) as [[]|[[f [x [to [Hin Hn]]]]|[f [s [lv [to [sd [srt [f' [x' [to' [Hin [Hsd [Hsrt [Hin' Hn]]]]]]]]]]]]]]].
  - eapply Hmain; [eapply rt_input; eauto|exact Hn].
  - (* a command of a within-word automaton *)
    cbn [c_subs] in Hsd.
    assert (Hi : In (ISub s lv) (d_inputs m)) by (eapply rt_input; eauto).
    rewrite (minimize_inputs raw m Em) in Hi.
    destruct (dfa_from_regex_input_origin _ _ _ _ _ _ _ Ed Hi) as [ri [Hri Hfi]].
    destruct ri as [t0 d0 l0 sp|n0 l0 sp|c0 z0 l0 sp|rid l0 sp]; cbn [from_input] in Hfi; try discriminate;
      try (destruct z0; discriminate).
    destruct (assocN rid submap) as [k0|] eqn:Ea; [|discriminate]. inversion Hfi; subst k0 l0.
    destruct (compile_subs_ok pick fuel pl _ _ _ _ _ (cache_ok_nil pick fuel pl) Es) as [Hc _].
    destruct (Hc rid s Ea) as [sd' [Hsd' [rr [raw' [st' [Hn' [Hd' Hmin']]]]]]].
    unfold nthN in Hsd. rewrite Hsd' in Hsd. inversion Hsd; subst sd'.
    assert (Hx' : In x' (d_inputs sd)) by (eapply rt_input; eauto).
    rewrite (minimize_inputs raw' sd Hmin') in Hx'.
    eapply (dfa_inputs_cmds L pick fuel [] rr raw' st' x' cm Hd'); [|exact Hx'|exact Hn].
    unfold pool_cmds_ok in Hp. rewrite Forall_forall in Hp. apply Hp. unfold nthN in Hn'. eapply nth_error_In. exact Hn'.
Qed.

(** *** Part C: the command functions among the statements of the script *)
From CG Require Import Spec.ScriptRead Model.EmitBash Proofs.BashCodec Proofs.BashScript.

Lemma Ok_inj {E A} (a b : A) : @Ok E A a = Ok b -> a = b.
Proof. intro H. inversion H. reflexivity. Qed.

Definition nobody (l : list stmt) : Prop := forall b, ~ In (SBody b) l.

Lemma nobody_app l1 l2 : nobody l1 -> nobody l2 -> nobody (l1 ++ l2).
Proof. intros H1 H2 b H. apply in_app_or in H. destruct H; [eapply H1|eapply H2]; eauto. Qed.

Lemma nobody_map {A} (f : A -> stmt) l : (forall x b, f x <> SBody b) -> nobody (map f l).
Proof. intros Hf b H. apply in_map_iff in H. destruct H as [x [E _]]. eapply Hf; eauto. Qed.

Lemma nobody_concat ls : (forall l, In l ls -> nobody l) -> nobody (List.concat ls).
Proof. intros H b Hb. apply in_concat in Hb. destruct Hb as [l [Hl Hb]]. eapply H; eauto. Qed.

Ltac nb_list := let b := fresh "b" in let H := fresh "H" in
  intros b H; cbn [In] in H; repeat (destruct H as [H|H]; [discriminate H|]); exact H.

Lemma nobody_row_stmts var m : nobody (row_stmts var m).
Proof. apply nobody_map. intros; discriminate. Qed.

Lemma nobody_level_stmts var ls : nobody (level_stmts var ls).
Proof. apply nobody_map. intros; discriminate. Qed.

Lemma nobody_match_stmts t : nobody (match_stmts t).
Proof.
  unfold match_stmts. intros b [H|H]; [discriminate|]. revert b H.
  apply nobody_app; [apply nobody_row_stmts|]. apply nobody_app.
  - destruct (t_mcmd t); [|intros b []]. intros b [H|H]; [discriminate|]. eapply nobody_row_stmts; eauto.
  - destruct (t_mstar t); [nb_list|intros b []].
Qed.

Lemma nobody_completion_stmts t : nobody (completion_stmts t).
Proof.
  unfold completion_stmts. apply nobody_app; [apply nobody_level_stmts|]. apply nobody_app.
  - destruct (t_ccmd t); [apply nobody_level_stmts|intros b []].
  - nb_list.
Qed.

Lemma nobody_wrapper command id t acc : nobody (wrapper_stmts command id t acc).
Proof.
  unfold wrapper_stmts. apply nobody_app; [unfold acc_stmt, lits_stmt; nb_list|].
  apply nobody_app; [apply nobody_match_stmts|]. apply nobody_app; [apply nobody_completion_stmts|nb_list].
Qed.

Lemma nobody_shape_fn command sid t : nobody (shape_fn_stmts command sid t).
Proof.
  unfold shape_fn_stmts. apply nobody_app; [nb_list|].
  apply nobody_app; [apply nobody_match_stmts|]. apply nobody_app; [apply nobody_completion_stmts|nb_list].
Qed.

Lemma nobody_shape_wrapper command id sid t acc : nobody (shape_wrapper_stmts command id sid t acc).
Proof. unfold shape_wrapper_stmts, acc_stmt, lits_stmt. nb_list. Qed.

Lemma nobody_group command a sid g l : group_stmts command a sid g = Ok l -> nobody l.
Proof.
  unfold group_stmts. destruct g as [|id r]; [discriminate|]. destruct r as [|id2 r2].
  - intro H. apply obind_ok in H. destruct H as [t [_ H]]. apply obind_ok in H. destruct H as [acc [_ H]].
    apply Ok_inj in H. subst l. apply nobody_wrapper.
  - intro H. apply obind_ok in H. destruct H as [lt [_ H]]. apply obind_ok in H. destruct H as [ws [Hws H]].
    apply Ok_inj in H. subst l. apply nobody_app; [apply nobody_shape_fn|]. apply nobody_concat.
    intros l0 Hl. apply (omap_ok_in _ _ _ Hws) in Hl. destruct Hl as [id' [_ Hf]].
    apply obind_ok in Hf. destruct Hf as [t [_ Hf]]. apply obind_ok in Hf. destruct Hf as [acc [_ Hf]].
    apply Ok_inj in Hf. subst l0. apply nobody_shape_wrapper.
Qed.

Lemma cmd_fns_bodies command ics b :
  In (SBody b) (cmd_fns_stmts command ics) <-> exists ic, In ic ics /\ b = cmd_body (snd ic).
Proof.
  unfold cmd_fns_stmts. rewrite in_flat_map. split.
  - intros [ic [Hic H]]. cbn [In] in H. destruct H as [H|[H|[H|[]]]]; try discriminate. inversion H. eauto.
  - intros [ic [Hic ->]]. exists ic. split; [exact Hic|]. cbn. auto.
Qed.

(** the bodies among the statements of the script are exactly the bodies of the command table *)
Theorem script_bodies command start nd a groups sts :
  script_stmts command start nd a groups = Ok sts ->
  forall b, In (SBody b) sts <-> exists cm, In cm (a_commands a) /\ b = cmd_body cm.
Proof.
  unfold script_stmts. intro H.
  apply obind_ok in H. destruct H as [gs [Hgs H]]. apply obind_ok in H. destruct H as [st [Hst H]].
  apply Ok_inj in H. subst sts.
  assert (Ngs : nobody gs).
  { destruct (n_subwords nd); [|apply Ok_inj in Hgs; subst gs; intros b []].
    apply obind_ok in Hgs. destruct Hgs as [l [Hl Hgs]]. apply Ok_inj in Hgs. subst gs.
    apply nobody_app; [|unfold sub_fn_stmts; nb_list]. apply nobody_concat. intros l0 Hl0.
    apply (omap_ok_in _ _ _ Hl) in Hl0. destruct Hl0 as [[i g] [_ Hf]]. cbn [fst snd] in Hf. eapply nobody_group; eauto. }
  assert (Nst : nobody st).
  { destruct (n_subwords nd); [|apply Ok_inj in Hst; subst st; intros b []].
    apply obind_ok in Hst. destruct Hst as [rows [_ Hst]]. apply Ok_inj in Hst. subst st.
    intros b [F|F]; [discriminate|]. eapply nobody_row_stmts; eauto. }
  assert (Nrest : nobody (gs ++ [SFunc (append "_" command); lits_stmt (a_main a)] ++ match_stmts (a_main a) ++ st
                         ++ [SScalar "state" start; SScalar "word_index" 1] ++ completion_stmts (a_main a)
                         ++ (if n_subwords nd then level_stmts "subword_transitions_level_" (a_csub a) else [])
                         ++ [SLits "candidates" []; SLits "matches" []; SScalar "max_fallback_level" (t_maxlevel (a_main a));
                             SEnd; SRegister [append "_" command; command]])).
  { apply nobody_app; [exact Ngs|]. apply nobody_app; [unfold lits_stmt; nb_list|].
    apply nobody_app; [apply nobody_match_stmts|]. apply nobody_app; [exact Nst|].
    apply nobody_app; [nb_list|]. apply nobody_app; [apply nobody_completion_stmts|].
    apply nobody_app; [destruct (n_subwords nd); [apply nobody_level_stmts|intros b []]|nb_list]. }
  intro b. rewrite in_app_iff. split.
  - intros [Hb|Hb]; [|exfalso; eapply Nrest; eauto].
    apply cmd_fns_bodies in Hb. destruct Hb as [[k cm] [Hic ->]]. exists cm. split; [|reflexivity].
    apply number_from_in in Hic. destruct Hic as [_ Hn]. eapply nth_error_In. exact Hn.
  - intros [cm [Hcm ->]]. left. apply cmd_fns_bodies. apply In_nth_error in Hcm. destruct Hcm as [n Hn].
    exists (N.of_nat n, cm). split; [|reflexivity]. apply number_from_in. split; [lia|].
    rewrite N.sub_0_r, Nat2N.id. exact Hn.
Qed.
