(** Source-level corollary of the capstone, C11: where the external commands of the emitted script
    come from.  Part A (checker): every [Command] leaf of the validated tree is a command written
    in a call variant or in a plain definition of the grammar, or the command [Spec.Choice.spec]
    chooses for a nonterminal the grammar refers to -- never a definition for another shell.
    Part B (regex / automata / tables): every command of [a_commands] is the text of a [Command]
    leaf of the validated tree.  Part C (script): the statements read back from the script contain,
    for every command of [a_commands], its function with the body verbatim. *)
From CG Require Import Base.Prelude Model.Ast Model.Check Spec.Choice.
From CG Require Import Proofs.CheckChoice Proofs.CheckLemmas Proofs.CheckSpans Proofs.CheckTotal Proofs.CheckProvenance.

(** *** Part A: the command texts of a tree *)
Fixpoint cmd_texts (e : expr) : list string :=
  match e with
  | Terminal _ _ _ _ | NontermRef _ _ _ => []
  | Command c _ _ _ => [c]
  | Subword c _ _ | Optional c _ | Many1 c _ | DistDescr c _ _ => cmd_texts c
  | Sequence cs _ | Alternative cs _ | Fallback cs _ => flat_map cmd_texts cs
  end.

Lemma distribute_cmds e : forall d, cmd_texts (fst (distribute e d)) = cmd_texts e.
Proof.
  assert (Hl : forall cs, Forall (fun e => forall d, cmd_texts (fst (distribute e d)) = cmd_texts e) cs ->
                          forall d, flat_map cmd_texts (fst (distribute_list cs d)) = flat_map cmd_texts cs).
  { induction 1 as [|x l Hx _ IH]; intro d; cbn; [reflexivity|].
    pose proof (Hx d) as H1. destruct (distribute x d) as [c' d1].
    pose proof (IH d1) as H3. destruct (distribute_list l d1) as [r' d2]. cbn in *.
    rewrite H1, H3. reflexivity. }
  induction e using expr_ind'; intro d0.
  - cbn. destruct d; [reflexivity|]. destruct d0; reflexivity.
  - reflexivity.
  - reflexivity.
  - rewrite distribute_seq. specialize (Hl cs H d0). destruct (distribute_list cs d0). exact Hl.
  - cbn [distribute fst cmd_texts]. rewrite flat_map_map.
    apply flat_map_ext_Forall; eapply Forall_impl; try exact H; intros a Ha; apply Ha.
  - cbn [distribute]. specialize (IHe d0). destruct (distribute e d0). exact IHe.
  - cbn [distribute]. specialize (IHe d0). destruct (distribute e d0). exact IHe.
  - cbn [distribute fst cmd_texts]. apply IHe.
  - rewrite distribute_fb. specialize (Hl cs H d0). destruct (distribute_list cs d0). exact Hl.
  - cbn [distribute]. specialize (IHe d0). destruct (distribute e d0). exact IHe.
Qed.

Lemma flatten_cmds e : cmd_texts (flatten e) = cmd_texts e.
Proof.
  induction e using expr_ind'; cbn [flatten cmd_texts]; try reflexivity; try assumption;
    rewrite flat_map_map; apply flat_map_ext_Forall; exact H.
Qed.

Lemma collapse_cmds e : cmd_texts (collapse e) = cmd_texts e.
Proof.
  induction e using expr_ind'; cbn [collapse cmd_texts]; try reflexivity; try assumption;
    try (rewrite flat_map_map; apply flat_map_ext_Forall; exact H).
  apply flatten_cmds.
Qed.

Lemma propagate_cmds e : forall lvl, cmd_texts (propagate e lvl) = cmd_texts e.
Proof.
  induction e using expr_ind'; intro lvl; try reflexivity; try (cbn [propagate cmd_texts]; apply IHe).
  - cbn [propagate cmd_texts]. rewrite flat_map_map. apply flat_map_ext_Forall.
    eapply Forall_impl; [|exact H]. intros a Ha. apply Ha.
  - cbn [propagate cmd_texts]. rewrite flat_map_map. apply flat_map_ext_Forall.
    eapply Forall_impl; [|exact H]. intros a Ha. apply Ha.
  - rewrite propagate_fb. cbn [cmd_texts]. generalize 0 as i.
    induction H as [|x l Hx _ IH]; intro i; cbn; [reflexivity|]. rewrite Hx, IH. reflexivity.
Qed.

(** [C]: a universe of command texts *)
Definition cmds_within (C : string -> Prop) (e : expr) : Prop := forall c, In c (cmd_texts e) -> C c.

Lemma cmds_within_list (C : string -> Prop) cs : (forall c, In c (flat_map cmd_texts cs) -> C c) <-> Forall (cmds_within C) cs.
Proof.
  unfold cmds_within. induction cs as [|x r IH]; cbn [flat_map]; split; intro H.
  - constructor.
  - intros c [].
  - constructor; [intros c Hc; apply H; apply in_or_app; auto|]. apply IH. intros c Hc. apply H. apply in_or_app; auto.
  - inversion H as [|? ? Hx Hr]; subst. intros c Hc. apply in_app_or in Hc. destruct Hc as [Hc|Hc]; [auto|].
    exact (proj2 IH Hr c Hc).
Qed.

Lemma map_cmds_within (C : string -> Prop) (h : expr -> expr) cs :
  Forall (fun c => cmds_within C c -> cmds_within C (h c)) cs ->
  Forall (cmds_within C) cs -> Forall (cmds_within C) (map h cs).
Proof.
  induction 1; intro Hf; [constructor|]. inversion Hf; subst. cbn. constructor; auto.
Qed.

(** [specialize]: new commands are what [specialize_ref] puts for a reference of the tree *)
Definition refs_ok (C : string -> Prop) sh us bi fs plain (refs : list (string * span)) : Prop :=
  forall n l sp c z l' sp', In (n, sp) refs ->
    specialize_ref sh us bi fs plain n l sp = Command c z l' sp' -> C c.

Lemma specialize_cmds (C : string -> Prop) sh us bi fs plain e :
  cmds_within C e -> refs_ok C sh us bi fs plain (ref_spans e) ->
  cmds_within C (specialize sh us bi fs plain e).
Proof.
  assert (Hl : forall cs,
             Forall (fun x => cmds_within C x -> refs_ok C sh us bi fs plain (ref_spans x) ->
                              cmds_within C (specialize sh us bi fs plain x)) cs ->
             (forall c, In c (flat_map cmd_texts cs) -> C c) ->
             refs_ok C sh us bi fs plain (flat_map ref_spans cs) ->
             forall c, In c (flat_map cmd_texts (map (specialize sh us bi fs plain) cs)) -> C c).
  { induction 1 as [|x r Hx _ IH]; intros Hw Hr c Hc; cbn [map flat_map] in *; [destruct Hc|].
    apply in_app_or in Hc. destruct Hc as [Hc|Hc].
    - apply (Hx (fun c0 H0 => Hw c0 (in_or_app _ _ _ (or_introl H0)))
                (fun n l sp c0 z l' sp' Hin => Hr n l sp c0 z l' sp' (in_or_app _ _ _ (or_introl Hin))) c Hc).
    - apply (IH (fun c0 H0 => Hw c0 (in_or_app _ _ _ (or_intror H0)))
                (fun n l sp c0 z l' sp' Hin => Hr n l sp c0 z l' sp' (in_or_app _ _ _ (or_intror Hin))) c Hc). }
  induction e using expr_ind'; intros Hw Hr; cbn [specialize]; try exact Hw;
    try (apply IHe; assumption); try (exact (Hl cs H Hw Hr)).
  (* NontermRef *)
  assert (Hs : specialize_ref sh us bi fs plain n l sp = NontermRef n l sp
               \/ exists c z, specialize_ref sh us bi fs plain n l sp = Command c z l sp).
  { unfold specialize_ref. destruct (assoc n us); [right; eauto|].
    destruct (assoc n fs) as [[c s]|]; [right; eauto|].
    destruct (mem_str n plain); [left; reflexivity|]. destruct (assoc n bi); [right; eauto|left; reflexivity]. }
  destruct Hs as [Hs|[c [z Hs]]]; rewrite Hs; intros c0 Hc0; cbn [cmd_texts] in Hc0; [destruct Hc0|].
  destruct Hc0 as [<-|[]]. eapply (Hr n l sp); [left; reflexivity|exact Hs].
Qed.

Definition table_cmds_within (C : string -> Prop) (t : list (string * expr)) : Prop :=
  forall n rhs, assoc n t = Some rhs -> cmds_within C rhs.

Lemma resolve_cmds (C : string -> Prop) t e : table_cmds_within C t -> cmds_within C e -> cmds_within C (resolve t e).
Proof.
  intro Ht. induction e using expr_ind'; intro Hw; cbn [resolve]; try exact Hw; try (apply IHe; exact Hw).
  - destruct (assoc n t) eqn:E; [eapply Ht; eauto|exact Hw].
  - unfold cmds_within in *. cbn [cmd_texts] in *. apply cmds_within_list. apply map_cmds_within; [exact H|].
    apply cmds_within_list. exact Hw.
  - unfold cmds_within in *. cbn [cmd_texts] in *. apply cmds_within_list. apply map_cmds_within; [exact H|].
    apply cmds_within_list. exact Hw.
  - unfold cmds_within in *. cbn [cmd_texts] in *. apply cmds_within_list. apply map_cmds_within; [exact H|].
    apply cmds_within_list. exact Hw.
Qed.

Lemma resolve_in_order_cmds (C : string -> Prop) ord : forall t,
  table_cmds_within C t -> table_cmds_within C (resolve_in_order ord t).
Proof.
  induction ord as [|n r IH]; intros t Ht; cbn [resolve_in_order]; [exact Ht|].
  destruct (assoc n t) as [rhs|] eqn:E; [|apply IH; exact Ht].
  apply IH. intros m rhs' Hm. rewrite assoc_update_def in Hm.
  destruct (String.eqb m n); [|eapply Ht; eauto].
  destruct (assoc m t); [|discriminate]. inversion Hm; subst.
  apply resolve_cmds; [exact Ht|eapply Ht; eauto].
Qed.

(** *** Part A, the theorem: where the commands of the validated tree come from *)
Definition plain_cmds (g : grammar) : list string :=
  flat_map (fun s => match s with
                     | CallVariant _ _ e => cmd_texts e
                     | NontermDef _ _ None rhs => cmd_texts rhs
                     | NontermDef _ _ (Some _) _ => []
                     end) g.

(** a command the script may run: written in a call variant or in a plain definition, or chosen
    by the specification [Spec.Choice.spec] for a nonterminal the grammar refers to (the
    [<X@shell>] definition for the TARGET shell, else the built-in for PATH / DIRECTORY) *)
Definition cmd_source (builtins : shell -> list (string * string)) (g : grammar) (sh : shell) (c : string) : Prop :=
  In c (plain_cmds g)
  \/ exists x, In x (map fst (grammar_refs g)) /\ Choice.spec builtins g sh x = ChCommand c.

Lemma stmt_plain_cmds g s :
  In s g -> match s with NontermDef _ _ (Some _) _ => False | _ => True end ->
  forall c, In c (cmd_texts (stmt_expr s)) -> In c (plain_cmds g).
Proof.
  intros Hs Hp c Hc. unfold plain_cmds. apply in_flat_map. exists s. split; [exact Hs|].
  destruct s as [n sp e|n sp [shn|] rhs]; cbn [stmt_expr] in Hc; try exact Hc.
  destruct Hp.
Qed.

Lemma expr0_cmds g c : In c (cmd_texts (expr0_of g)) -> In c (plain_cmds g).
Proof.
  assert (Hall : forall e, In e (map snd (call_variants g)) -> forall c, In c (cmd_texts e) -> In c (plain_cmds g)).
  { intros e He c0 Hc0. apply in_map_iff in He. destruct He as [[[n sp] e'] [Heq Hin]].
    cbn in Heq. subst e'. unfold call_variants in Hin. apply in_flat_map in Hin.
    destruct Hin as [s [Hs Hin]]. destruct s; [|destruct Hin]. destruct Hin as [Hin|[]].
    inversion Hin; subst. apply (stmt_plain_cmds g _ Hs); [exact I|exact Hc0]. }
  unfold expr0_of. destruct (map snd (call_variants g)) as [|e [|e' r]] eqn:E.
  - cbn. intros [].
  - apply Hall. left. reflexivity.
  - cbn [cmd_texts]. intro H. apply in_flat_map in H. destruct H as [x [Hx Hc]]. eapply Hall; eauto.
Qed.

Theorem from_grammar_cmds builtins g sh v :
  from_grammar builtins g sh = Ok v -> cmds_within (cmd_source builtins g sh) (v_expr v).
Proof.
  intro H. apply from_grammar_ok in H. rename H into A.
  rewrite (a_v _ _ _ _ A). cbn [v_expr]. unfold a_expr5.
  intros c Hc. rewrite propagate_cmds, collapse_cmds in Hc. revert c Hc.
  change (cmds_within (cmd_source builtins g sh) (resolve (a_table _ _ _ _ A) (a_expr2 _ _ _ _ A))).
  set (C := cmd_source builtins g sh).
  pose proof (a_collect _ _ _ _ A) as Hcol. pose proof (a_specs _ _ _ _ A) as Hsp.
  assert (Hnames : map d_name (a_defs1 _ _ _ _ A) = map d_name (a_defs0 _ _ _ _ A)).
  { unfold a_defs1, defs1_of. rewrite map_map. reflexivity. }
  (* what [specialize_ref] puts for a reference of the grammar is what the specification chooses *)
  assert (Hrefs : forall refs, incl refs (grammar_refs g) ->
                               refs_ok C sh (a_us _ _ _ _ A) (builtins sh) (a_fs _ _ _ _ A) (map d_name (a_defs1 _ _ _ _ A)) refs).
  { intros refs Hi n l sp c z l' sp' Hin E. right. exists n. split.
    - apply in_map_iff. exists (n, sp). split; [reflexivity|apply Hi; exact Hin].
    - rewrite <- (choice_correct builtins g sh _ _ _ n l sp Hsp Hcol). rewrite <- Hnames, E. reflexivity. }
  assert (Hspec : forall e, (forall c, In c (cmd_texts e) -> In c (plain_cmds g)) -> incl (ref_spans e) (grammar_refs g) ->
                            cmds_within C (a_spec _ _ _ _ A (distribute_descriptions e))).
  { intros e Hce Hre. unfold a_spec, spec_of. apply specialize_cmds.
    - intros c Hc. unfold distribute_descriptions in Hc. rewrite distribute_cmds in Hc. left. apply Hce. exact Hc.
    - apply Hrefs. unfold distribute_descriptions. destruct (distribute_spans e None) as [-> _]. exact Hre. }
  apply resolve_cmds.
  - apply resolve_in_order_cmds. intros n rhs Hn. apply assoc_In in Hn. unfold table0_of in Hn. apply in_map_iff in Hn.
    destruct Hn as [d2 [Heq Hin]]. inversion Heq; subst.
    destruct (defs2_in builtins g sh _ (a_us _ _ _ _ A) (a_fs _ _ _ _ A) Hcol d2 Hin) as [rhs0 [Hg Hr]]. rewrite Hr.
    apply Hspec.
    + intros c Hc. apply (stmt_plain_cmds g _ Hg); [exact I|exact Hc].
    + exact (proj1 (stmt_within g _ Hg)).
  - unfold a_expr2, a_expr1. apply Hspec; [apply expr0_cmds|exact (proj1 (expr0_within g))].
Qed.
