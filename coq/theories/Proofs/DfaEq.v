(** C10: equality of automata as used for interning ([DFAInternPool]: [IndexSet<DFA>] with
    [DFA::eq] comparing start, transitions, accepting states and the input pool IN ORDER).
    Input ids are indices into the input pool, so the pool must be compared as a sequence; the
    order-insensitive comparison that the pinned code used (IndexSet equality) identified
    different automata -- which ones depended on the per-process hash seed. *)
From CG Require Import Base.Prelude Model.Dfa Model.DfaEqb.

(** the pinned comparison: input pools compared as sets *)
Definition inputs_eq_unordered (l1 l2 : list inp) : bool :=
  Nat.eqb (List.length l1) (List.length l2)
  && forallb (fun i => existsb (inp_eqb i) l2) l1.

Definition dfa_eqb_unordered (a b : dfa) : bool :=
  N.eqb (d_start a) (d_start b)
  && list_eqb row_eqb (d_trans a) (d_trans b)
  && list_eqb N.eqb (d_accepting a) (d_accepting b)
  && inputs_eq_unordered (d_inputs a) (d_inputs b).

Lemma list_eqb_eq {A} (eqb : A -> A -> bool) :
  (forall x y, eqb x y = true <-> x = y) ->
  forall l1 l2, list_eqb eqb l1 l2 = true <-> l1 = l2.
Proof.
  intros H l1. induction l1 as [|x r IH]; intros [|y s]; cbn; try (split; [discriminate|discriminate]).
  - tauto.
  - rewrite andb_true_iff, H, IH. split.
    + intros [-> ->]. reflexivity.
    + intro E. inversion E. auto.
Qed.

Lemma option_eqb_eq {A} (eqb : A -> A -> bool) :
  (forall x y, eqb x y = true <-> x = y) ->
  forall a b, option_eqb eqb a b = true <-> a = b.
Proof.
  intros H [x|] [y|]; cbn; try (split; discriminate); [|tauto].
  rewrite H. split; [intros ->; reflexivity|intro E; inversion E; reflexivity].
Qed.

Lemma inp_eqb_eq a b : inp_eqb a b = true <-> a = b.
Proof.
  destruct a, b; cbn; try (split; discriminate); try tauto;
    rewrite ?andb_true_iff, ?String.eqb_eq, ?N.eqb_eq, ?(option_eqb_eq String.eqb String.eqb_eq);
    split; try (intros [[-> ->] ->]; reflexivity); try (intros [-> ->]; reflexivity);
    intro E; inversion E; auto.
Qed.

Lemma pairN_eqb_eq a b : pairN_eqb a b = true <-> a = b.
Proof.
  destruct a, b; unfold pairN_eqb; cbn. rewrite andb_true_iff, !N.eqb_eq.
  split; [intros [-> ->]; reflexivity|intro E; inversion E; auto].
Qed.

Lemma row_eqb_eq a b : row_eqb a b = true <-> a = b.
Proof.
  destruct a, b; unfold row_eqb; cbn.
  rewrite andb_true_iff, N.eqb_eq, (list_eqb_eq pairN_eqb pairN_eqb_eq).
  split; [intros [-> ->]; reflexivity|intro E; inversion E; auto].
Qed.

(** Interning with the repaired comparison identifies exactly the identical automata. *)
Theorem dfa_eqb_eq a b : dfa_eqb a b = true <-> a = b.
Proof.
  destruct a as [s1 t1 a1 i1], b as [s2 t2 a2 i2]; unfold dfa_eqb; cbn.
  rewrite !andb_true_iff, N.eqb_eq, (list_eqb_eq row_eqb row_eqb_eq),
    (list_eqb_eq N.eqb N.eqb_eq), (list_eqb_eq inp_eqb inp_eqb_eq).
  split.
  - intros [[[-> ->] ->] ->]. reflexivity.
  - intro E. inversion E. auto.
Qed.

Corollary dfa_eqb_same_language a b :
  dfa_eqb a b = true -> forall w, accepts a w = accepts b w.
Proof. intros H w. apply dfa_eqb_eq in H. subst. reflexivity. Qed.

(** The pinned comparison identified the within-word automata of [a[b]] and [b[a]]
    (the witness `cmd a[b] x | b[a] y;`), whose languages differ. *)
Definition wit_ab : dfa :=
  mkdfa 0 [(0, [(0, 1)]); (1, [(1, 2)])] [1; 2] [ILit "a" None 0; ILit "b" None 0].
Definition wit_ba : dfa :=
  mkdfa 0 [(0, [(0, 1)]); (1, [(1, 2)])] [1; 2] [ILit "b" None 0; ILit "a" None 0].

Definition texts (d : dfa) (w : list N) : list (option inp) := map (nthN (d_inputs d)) w.

Lemma unordered_comparison_refuted :
  dfa_eqb_unordered wit_ab wit_ba = true /\ dfa_eqb wit_ab wit_ba = false
  /\ accepts wit_ab [0] = true /\ texts wit_ab [0] = [Some (ILit "a" None 0)]
  /\ accepts wit_ba [0] = true /\ texts wit_ba [0] = [Some (ILit "b" None 0)].
Proof. vm_compute. repeat split; reflexivity. Qed.
