(** C15, the undefined set: on an accepted grammar the names of [v_undefined] are exactly the
    names of Spec/Warnings.v -- reachable from the call variants through chosen plain
    definitions and standing for "any word" -- each once. *)
From CG Require Import Base.Prelude Model.Ast Model.Check Spec.Choice Spec.Mistakes Spec.Warnings.
From CG Require Import Proofs.CheckChoice Proofs.CheckMistakes Proofs.CheckLemmas Proofs.CheckWarnings.
From CG Require Import Proofs.CheckCycle Proofs.CheckTotal Proofs.CheckFront Proofs.CheckCycleSpec.
From CG Require Import Proofs.CheckSpans Proofs.CheckProvenance Proofs.CheckResolve Proofs.CheckOrder.

(** *** Each name once *)
Lemma refs_map_nodup l : forall acc, NoDup (map fst acc) -> NoDup (map fst (refs_map l acc)).
Proof.
  induction l as [|[n sp] r IH]; intros acc H; cbn [refs_map]; [exact H|].
  apply IH. destruct (mem_str n (map fst acc)) eqn:E.
  - assert (Hm : map fst (map (fun p : string * span => if String.eqb (fst p) n then (n, sp) else p) acc)
                 = map fst acc).
    { rewrite map_map. apply map_ext. intros [k v]. cbn. destruct (String.eqb k n) eqn:Ek; [|reflexivity].
      apply String.eqb_eq in Ek. subst. reflexivity. }
    rewrite Hm. exact H.
  - rewrite map_app. cbn. apply NoDup_app_snoc; [exact H|]. apply mem_str_false_In. exact E.
Qed.

Lemma get_nonterm_refs_nodup e : NoDup (map fst (get_nonterm_refs e)).
Proof. apply refs_map_nodup. constructor. Qed.

(** *** The last passes keep the references and create no [DistDescr] *)
Lemma all_refs_ref_spans e : all_refs e = map fst (ref_spans e).
Proof.
  induction e using expr_ind'; cbn [all_refs ref_spans]; try reflexivity; try assumption;
    rewrite map_flat_map; apply flat_map_ext_Forall; exact H.
Qed.

Lemma flatten_dd_free e : dd_free e -> dd_free (flatten e).
Proof.
  induction e using expr_ind'; intro Hf; cbn [flatten]; try exact Hf; try (cbn in *; auto; fail).
  - rewrite dd_free_seq in *. apply dd_free_map; assumption.
  - rewrite dd_free_alt in *. apply dd_free_map; assumption.
  - rewrite dd_free_fb in *. apply dd_free_map; assumption.
Qed.

Lemma collapse_dd_free e : dd_free e -> dd_free (collapse e).
Proof.
  induction e using expr_ind'; intro Hf; cbn [collapse]; try exact Hf; try (cbn in *; auto; fail).
  - rewrite dd_free_seq in *. apply dd_free_map; assumption.
  - rewrite dd_free_alt in *. apply dd_free_map; assumption.
  - rewrite dd_free_fb in *. apply dd_free_map; assumption.
  - cbn. apply flatten_dd_free. exact Hf.
Qed.

Lemma propagate_dd_free e : forall lvl, dd_free e -> dd_free (propagate e lvl).
Proof.
  induction e using expr_ind'; intros lvl Hf; try exact I; try (cbn in *; auto; fail).
  - cbn [propagate]. rewrite dd_free_seq in *. apply dd_free_map; [|exact Hf].
    eapply Forall_impl; [|exact H]. intros a Ha Hd. apply Ha. exact Hd.
  - cbn [propagate]. rewrite dd_free_alt in *. apply dd_free_map; [|exact Hf].
    eapply Forall_impl; [|exact H]. intros a Ha Hd. apply Ha. exact Hd.
  - rewrite propagate_fb, dd_free_fb in *. generalize 0 as i.
    induction H as [|x l Hx _ IH]; intro i; cbn; [exact I|]. destruct Hf as [Hfx Hfl].
    split; [apply Hx; exact Hfx|apply IH; exact Hfl].
Qed.

Lemma final_refs e x :
  dd_free e ->
  In x (map fst (get_nonterm_refs (propagate (collapse e) 0))) <-> In x (all_refs e).
Proof.
  intro Hd. rewrite get_nonterm_refs_names.
  rewrite dd_free_refs by (apply propagate_dd_free; apply collapse_dd_free; exact Hd).
  rewrite !all_refs_ref_spans, propagate_spans, collapse_spans. reflexivity.
Qed.

(** *** Paths in a table *)
Section TablePaths.
  Variable t0 : list (string * expr).
  Let names := map fst t0.

  Inductive tpath : string -> list string -> string -> Prop :=
  | tp_here n rhs y : assoc n t0 = Some rhs -> In y (all_refs rhs) -> tpath n [] y
  | tp_step n rhs c l y : assoc n t0 = Some rhs -> In c (all_refs rhs) -> tpath c l y ->
                          tpath n (c :: l) y.

  Lemma sol_refs_path k : forall n r y,
    assoc n (sol t0 k) = Some r -> In y (all_refs r) -> exists l, tpath n l y.
  Proof.
    induction k as [|k IH]; intros n r y Hn Hy.
    - exists []. eapply tp_here; eauto.
    - rewrite assoc_sol_S in Hn. destruct (assoc n t0) as [rhs|] eqn:E; [|discriminate].
      cbn in Hn. inversion Hn; subst r. rewrite resolve_refs in Hy. apply in_flat_map in Hy.
      destruct Hy as [c [Hc Hy]]. destruct (assoc c (sol t0 k)) as [rc|] eqn:Ec.
      + destruct (IH _ _ _ Ec Hy) as [l Hl]. exists (c :: l). eapply tp_step; eauto.
      + destruct Hy as [Hy|[]]. subst c. exists []. eapply tp_here; eauto.
  Qed.

  Lemma path_sol_refs n l y :
    tpath n l y -> ~ In y names ->
    forall k, (List.length l <= k)%nat -> exists r, assoc n (sol t0 k) = Some r /\ In y (all_refs r).
  Proof.
    induction 1 as [n rhs y Hn Hy|n rhs c l y Hn Hc Hp IH]; intros Hun k Hk.
    - destruct k; [exists rhs; split; assumption|].
      rewrite assoc_sol_S, Hn. cbn. eexists. split; [reflexivity|].
      rewrite resolve_refs. apply in_flat_map. exists y. split; [exact Hy|].
      rewrite (assoc_sol_undefined t0 k y Hun). left. reflexivity.
    - destruct k; [cbn in Hk; lia|]. cbn in Hk.
      destruct (IH Hun k ltac:(lia)) as [rc [Hrc Hyc]].
      rewrite assoc_sol_S, Hn. cbn. eexists. split; [reflexivity|].
      rewrite resolve_refs. apply in_flat_map. exists c. split; [exact Hc|]. rewrite Hrc. exact Hyc.
  Qed.
End TablePaths.

(** *** Paths in the source grammar (the reachability of Spec/Warnings.v) *)
Section SpecPaths.
  Variable g : grammar.
  Variable sh : shell.

  Inductive rpath : expr -> list string -> string -> Prop :=
  | rp_here e y : In y (all_refs e) -> rpath e [] y
  | rp_step e n rhs l y : In n (all_refs e) -> plain_chosen g sh n = Some rhs -> rpath rhs l y ->
                          rpath e (n :: l) y.

  Lemma reach_refs_rpath k : forall e y,
    In y (reach_refs g sh k e) <-> exists l, (List.length l <= k)%nat /\ rpath e l y.
  Proof.
    induction k as [|k IH]; intros e y; cbn [reach_refs].
    - split.
      + intro H. exists []. split; [apply Nat.le_refl|apply rp_here; exact H].
      + intros [l [Hl Hp]]. destruct l; [|cbn in Hl; lia]. inversion Hp; subst. assumption.
    - rewrite in_flat_map. split.
      + intros [n [Hn [Hy|Hy]]].
        * subst y. exists []. split; [cbn; lia|apply rp_here; exact Hn].
        * destruct (plain_chosen g sh n) as [rhs|] eqn:E; [|destruct Hy].
          apply IH in Hy. destruct Hy as [l [Hl Hp]]. exists (n :: l). split; [cbn; lia|].
          eapply rp_step; eauto.
      + intros [l [Hl Hp]]. inversion Hp; subst.
        * exists y. split; [assumption|left; reflexivity].
        * exists n. split; [assumption|]. right. rewrite H0. apply IH. exists l0.
          split; [cbn in Hl; lia|assumption].
  Qed.

  (** along a path the chosen names form a chain of [depends] *)
  Fixpoint dep_chain (l : list string) : Prop :=
    match l with
    | a :: ((b :: _) as r) => depends g sh a b = true /\ dep_chain r
    | _ => True
    end.

  Lemma plain_chosen_plain n rhs : plain_chosen g sh n = Some rhs -> plain_definition g n = Some rhs.
  Proof. unfold plain_chosen. destruct (shell_definition g sh n); [discriminate|auto]. Qed.

  Lemma rpath_chain e l y :
    rpath e l y -> dep_chain l /\ forall n, In n l -> In n (plain_names g).
  Proof.
    induction 1 as [e y Hy|e n rhs l y Hn Hc Hp [IH1 IH2]]; [split; [exact I|intros n []]|].
    split.
    - destruct l as [|b r]; [exact I|]. split; [|exact IH1].
      inversion Hp; subst. unfold depends. rewrite (plain_chosen_plain _ _ Hc).
      apply andb_true_iff. split; [apply mem_str_In; assumption|]. rewrite H3. reflexivity.
    - intros m [Hm|Hm]; [|auto]. subst m. apply plain_names_pd.
      rewrite (plain_chosen_plain _ _ Hc). discriminate.
  Qed.

  Variable rank : string -> nat.
  Hypothesis Hrank : forall a b, depends g sh a b = true -> (rank b < rank a)%nat.

  Lemma dep_chain_decreasing l : dep_chain l ->
    forall a r, l = a :: r -> forall b, In b r -> (rank b < rank a)%nat.
  Proof.
    induction l as [|a' l IH]; intros Hc a r Heq b Hb; [discriminate|].
    inversion Heq; subst a' l. destruct r as [|b' r']; [destruct Hb|].
    destruct Hc as [Hd Hc]. pose proof (Hrank _ _ Hd) as Hlt.
    destruct Hb as [Hb|Hb]; [subst; exact Hlt|].
    specialize (IH Hc b' r' eq_refl b Hb). lia.
  Qed.

  Lemma dep_chain_nodup l : dep_chain l -> NoDup l.
  Proof.
    induction l as [|a l IH]; intro Hc; [constructor|].
    constructor.
    - intro Hin. pose proof (dep_chain_decreasing _ Hc a l eq_refl a Hin). lia.
    - apply IH. destruct l; [exact I|]. destruct Hc. assumption.
  Qed.

  Lemma rpath_short e l y : rpath e l y -> (List.length l <= List.length (plain_names g))%nat.
  Proof.
    intro H. apply rpath_chain in H. destruct H as [Hc Hin].
    apply NoDup_incl_length; [apply dep_chain_nodup; exact Hc|exact Hin].
  Qed.

  Lemma used_names_rpath y :
    In y (used_names g sh) <-> exists e l, In e (call_exprs g) /\ rpath e l y.
  Proof.
    unfold used_names. rewrite in_flat_map. split.
    - intros [e [He Hy]]. apply reach_refs_rpath in Hy. destruct Hy as [l [_ Hp]]. eauto.
    - intros [e [l [He Hp]]]. exists e. split; [exact He|]. apply reach_refs_rpath. exists l.
      split; [|exact Hp]. unfold fuel_of. pose proof (rpath_short _ _ _ Hp). lia.
  Qed.
End SpecPaths.

(** *** The two notions of path coincide on an accepted grammar *)
Section Undefined.
  Variable builtins : shell -> list (string * string).
  Variable g : grammar.
  Variable sh : shell.
  Variable defs0 : list defn.
  Variable us : list (string * user_spec).
  Variable fs : list (string * (string * span)).
  Hypothesis Hcollect : collect_plain_defs (all_defs g) [] = Ok defs0.
  Hypothesis Hspecs : get_specializations g sh = Ok (us, fs).

  Let defs1 := defs1_of defs0.
  Let spec := spec_of builtins sh us fs defs1.
  Let defs2 := defs2_of spec defs1.
  Let t0 := table0_of defs2.

  Definition kept (n : string) : bool := keeps us (builtins sh) fs (map d_name defs1) n.

  Lemma spec_refs e x : In x (all_refs (spec (distribute_descriptions e))) <-> In x (all_refs e) /\ kept x = true.
  Proof.
    unfold spec, spec_of. rewrite specialize_refs, filter_In, distribute_descriptions_all_refs.
    reflexivity.
  Qed.

  Lemma t0_names : map fst t0 = plain_names g.
  Proof.
    unfold t0, defs2. rewrite table0_keys. unfold defs1, defs1_of. rewrite map_map. cbn.
    rewrite (defs0_eq g defs0 Hcollect), plain_defs_of_names, plain_names_all_defs. reflexivity.
  Qed.

  Lemma t0_assoc x : assoc x t0 = option_map (fun rhs => spec (distribute_descriptions rhs)) (plain_definition g x).
  Proof. apply (table0_assoc builtins g sh defs0 us fs Hcollect). Qed.

  Lemma kept_plain_chosen c :
    In c (plain_names g) -> kept c = true -> exists rhs, plain_chosen g sh c = Some rhs.
  Proof.
    intros Hc Hk. apply (keeps_plain builtins g sh defs0 us fs Hcollect Hspecs c Hc) in Hk.
    unfold plain_chosen. rewrite Hk. apply plain_names_pd in Hc.
    destruct (plain_definition g c); [eauto|congruence].
  Qed.

  Lemma plain_chosen_kept c rhs : plain_chosen g sh c = Some rhs -> kept c = true /\ In c (plain_names g).
  Proof.
    intro H. assert (Hp : In c (plain_names g)).
    { apply plain_names_pd. rewrite (plain_chosen_plain g sh c rhs H). discriminate. }
    split; [|exact Hp]. apply (keeps_plain builtins g sh defs0 us fs Hcollect Hspecs c Hp).
    unfold plain_chosen in H. destruct (shell_definition g sh c); [discriminate|reflexivity].
  Qed.

  (** a name that stands for "any word" survives specialisation and has no definition *)
  Lemma any_kept y : Choice.spec builtins g sh y = ChAny <-> kept y = true /\ ~ In y (plain_names g).
  Proof.
    pose proof (specialize_ref_choose builtins g sh defs0 us fs Hcollect Hspecs y 0 (mkspan 0 0 0)) as Hc.
    pose proof (specialize_ref_refs sh us (builtins sh) fs (map d_name (defs1_of defs0)) y 0 (mkspan 0 0 0)) as Hr.
    rewrite Hc in Hr. change (keeps us (builtins sh) fs (map d_name (defs1_of defs0)) y) with (kept y) in Hr.
    unfold choose_ref in Hr.
    rewrite plain_names_pd. unfold Choice.spec.
    destruct (shell_definition g sh y) as [rhs|] eqn:Es.
    - assert (Hcmd : is_command rhs = true).
      { apply shell_definition_some_in in Es. destruct Es as (nsp & shn & shsp & Hin & _).
        unfold get_specializations in Hspecs.
        destruct (get_user_specs sh (all_defs g) []) as [us'| | |] eqn:Hus; cbn in Hspecs; try discriminate.
        eapply get_user_specs_commands; [exact Hus|]. apply in_all_defs. exact Hin. }
      destruct rhs; try discriminate. cbn in Hr. destruct (kept y); [discriminate|].
      split; [discriminate|intros [H _]; discriminate].
    - destruct (plain_definition g y) as [rhs|] eqn:Ep.
      + split; [discriminate|]. intros [_ H]. exfalso. apply H. discriminate.
      + destruct (assoc y (builtins sh)); cbn in Hr.
        * destruct (kept y); [discriminate|]. split; [discriminate|intros [H _]; discriminate].
        * destruct (kept y); [|discriminate]. split; [intros _; split; [reflexivity|tauto]|reflexivity].
  Qed.

  (** table paths are grammar paths *)
  Lemma tpath_rpath n l y :
    tpath t0 n l y -> forall rhs, plain_definition g n = Some rhs -> kept y = true -> rpath g sh rhs l y.
  Proof.
    induction 1 as [n r y Hn Hy|n r c l y Hn Hc Hp IH]; intros rhs Hd Hk.
    - rewrite t0_assoc, Hd in Hn. cbn in Hn. inversion Hn; subst r.
      apply spec_refs in Hy. apply rp_here. tauto.
    - rewrite t0_assoc, Hd in Hn. cbn in Hn. inversion Hn; subst r.
      apply spec_refs in Hc. destruct Hc as [Hc Hkc].
      assert (Hcp : In c (plain_names g)).
      { rewrite <- t0_names. inversion Hp; subst; eapply assoc_Some_in; eauto. }
      destruct (kept_plain_chosen c Hcp Hkc) as [rc Hrc].
      eapply rp_step; [exact Hc|exact Hrc|]. apply IH; [|exact Hk].
      apply (plain_chosen_plain g sh c rc Hrc).
  Qed.

  Lemma rpath_tpath rhs l y :
    rpath g sh rhs l y -> kept y = true -> forall n, plain_definition g n = Some rhs -> tpath t0 n l y.
  Proof.
    induction 1 as [e y Hy|e c rc l y Hc Hrc Hp IH]; intros Hk n Hd.
    - eapply tp_here; [rewrite t0_assoc, Hd; reflexivity|]. apply spec_refs. tauto.
    - destruct (plain_chosen_kept c rc Hrc) as [Hkc _].
      eapply tp_step; [rewrite t0_assoc, Hd; reflexivity| |].
      + apply spec_refs. tauto.
      + apply IH; [exact Hk|]. apply (plain_chosen_plain g sh c rc Hrc).
  Qed.

  Variable ord : list string.
  Hypothesis Hord : resolution_order defs2 = Ok ord.
  Let T := resolve_in_order ord t0.
  Let e2 := spec (distribute_descriptions (expr0_of g)).

  Lemma t0_dd : table_dd_free t0.
  Proof. apply table0_dd_free; [intro e; apply specialize_dd_free|apply defs1_dd_free]. Qed.

  Lemma T_sol : exists B, forall k, (B <= k)%nat -> forall n, assoc n T = assoc n (sol t0 k).
  Proof.
    pose proof Hord as Ho. apply resolution_order_ok in Ho. destruct Ho as ([rank Hr] & Ho & Hall).
    destruct (rank_bound rank (map fst t0)) as [B HB].
    exists B. intros k Hk n. unfold T.
    rewrite (resolve_in_order_sol t0 (graph_of defs2)
               (fun n rhs c Hn Hc Hin => graph_of_edges defs2 n rhs c Hn (t0_dd n rhs Hn) Hc Hin)
               rank Hr B HB ord Ho).
    - symmetry. apply (sol_stable_ge t0 (graph_of defs2)
               (fun n rhs c Hn Hc Hin => graph_of_edges defs2 n rhs c Hn (t0_dd n rhs Hn) Hc Hin)
               rank Hr B HB). exact Hk.
    - intros m Hm Hc. apply Hall. split; [|exact Hc]. unfold t0, table0_of in Hm.
      rewrite map_map in Hm. exact Hm.
  Qed.

  Lemma T_closed n r : assoc n T = Some r -> closed (map fst t0) r.
  Proof.
    intro H. pose proof (resolved_table_closed defs2 ord t0_dd Hord n r H) as Hc. cbn zeta in Hc.
    fold t0 in Hc. rewrite resolve_in_order_keys in Hc. exact Hc.
  Qed.

  Theorem undefined_names y :
    In y (all_refs (resolve T e2)) <-> In y (undefined builtins g sh).
  Proof.
    assert (Hacyc : exists rank : string -> nat,
               forall a b, depends g sh a b = true -> (rank b < rank a)%nat).
    { pose proof Hord as Ho. apply resolution_order_ok in Ho. destruct Ho as ([rank Hr] & _ & _).
      exists rank. intros a b Hd. apply Hr.
      apply (model_graph_depends builtins g sh defs0 us fs Hcollect Hspecs). exact Hd. }
    destruct Hacyc as [rank Hrank].
    unfold undefined. rewrite filter_In, (used_names_rpath g sh rank Hrank).
    assert (Hany : (match Choice.spec builtins g sh y with ChAny => true | _ => false end) = true
                   <-> Choice.spec builtins g sh y = ChAny).
    { destruct (Choice.spec builtins g sh y); split; intro; try reflexivity; discriminate. }
    rewrite Hany, any_kept. destruct T_sol as [B HB].
    rewrite resolve_refs, in_flat_map. split.
    - intros [n [Hn Hy]]. unfold e2 in Hn. apply spec_refs in Hn. destruct Hn as [Hn Hkn].
      assert (He0 : exists e, In e (call_exprs g) /\ In n (all_refs e)).
      { rewrite expr0_refs in Hn. apply in_flat_map in Hn. exact Hn. }
      destruct He0 as [e [He Hne]].
      destruct (assoc n T) as [r|] eqn:En.
      + (* n is defined: y comes out of its resolved entry *)
        pose proof (T_closed n r En y Hy) as Hun. rewrite t0_names in Hun.
        rewrite (HB B (Nat.le_refl _)) in En.
        destruct (sol_refs_path t0 B n r y En Hy) as [l Hl].
        assert (Hnp : In n (plain_names g)).
        { rewrite <- t0_names. inversion Hl; subst; eapply assoc_Some_in; eauto. }
        destruct (kept_plain_chosen n Hnp Hkn) as [rn Hrn].
        assert (Hky : kept y = true).
        { assert (G : forall n' l' y', tpath t0 n' l' y' -> kept y' = true).
          { induction 1 as [n' r' y' Hn' Hy'|]; [|assumption].
            rewrite t0_assoc in Hn'. destruct (plain_definition g n'); [|discriminate].
            cbn in Hn'. inversion Hn'; subst r'. apply spec_refs in Hy'. apply Hy'. }
          eapply G; eauto. }
        split; [|split; assumption].
        exists e, (n :: l). split; [exact He|].
        eapply rp_step; [exact Hne|exact Hrn|].
        eapply tpath_rpath; [exact Hl| |exact Hky]. apply (plain_chosen_plain g sh n rn Hrn).
      + (* n itself is undefined *)
        destruct Hy as [Hy|[]]. subst y. apply assoc_None_notin in En. unfold T in En.
        rewrite resolve_in_order_keys, t0_names in En.
        split; [|split; assumption]. exists e, []. split; [exact He|apply rp_here; exact Hne].
    - intros [[e [l [He Hp]]] [Hk Hun]].
      assert (Hroot : forall n, In n (all_refs e) -> In n (all_refs (expr0_of g))).
      { intros n Hn. rewrite expr0_refs. apply in_flat_map. exists e. split; assumption. }
      inversion Hp; subst.
      + exists y. split; [apply spec_refs; split; [apply Hroot; assumption|exact Hk]|].
        assert (En : assoc y T = None).
        { apply assoc_None_notin. unfold T. rewrite resolve_in_order_keys, t0_names. exact Hun. }
        rewrite En. left. reflexivity.
      + destruct (plain_chosen_kept n rhs H0) as [Hkn Hnp].
        exists n. split; [apply spec_refs; split; [apply Hroot; assumption|exact Hkn]|].
        pose proof (rpath_tpath rhs l0 y H1 Hk n (plain_chosen_plain g sh n rhs H0)) as Ht.
        rewrite <- t0_names in Hun.
        destruct (path_sol_refs t0 n l0 y Ht Hun (Nat.max B (List.length l0)) ltac:(lia)) as [r [Hr Hy]].
        rewrite (HB (Nat.max B (List.length l0)) ltac:(lia)), Hr. exact Hy.
  Qed.
End Undefined.

Theorem undefined_exact builtins g sh v :
  from_grammar builtins g sh = Ok v ->
  (forall y, In y (map fst (v_undefined v)) <-> In y (undefined builtins g sh))
  /\ NoDup (map fst (v_undefined v)).
Proof.
  intro H. apply from_grammar_ok in H. rename H into A.
  rewrite (a_v _ _ _ _ A). cbn [v_undefined]. split; [|apply get_nonterm_refs_nodup].
  intro y. unfold a_expr5. rewrite final_refs.
  - apply (undefined_names builtins g sh _ _ _ (a_collect _ _ _ _ A) (a_specs _ _ _ _ A) _
                           (a_order _ _ _ _ A)).
  - apply resolve_dd_free.
    + apply resolve_in_order_dd_free. apply table0_dd_free; [intro e; apply specialize_dd_free|apply defs1_dd_free].
    + apply specialize_dd_free. apply distribute_dd_free.
Qed.
