(** Bridge between the two denotations of a validated tree: [Spec.Lang.denotes] (package regex:
    words over [Lang.item], what the compiled automaton is proved to accept, C02) and
    [Proofs.RxFacts.denotes (Spec.Meaning.tr e)] (this package: words over [Meaning.leaf], what
    [Spec.Meaning] computes residuals of) -- for trees whose leaves are literals, commands and
    undefined nonterminals ([toplevel_tree]: no within-word expressions, no zsh compadd commands,
    no description nodes).  Also: the translation of a tree all of whose alternatives are non-empty
    contains no [Zero], so every residual [Spec.Meaning] reaches has a continuation. *)
From CG Require Import Base.Prelude Model.Ast Model.Dfa Spec.Lang Spec.Rx Spec.Meaning.
From CG Require Import Proofs.RxFacts Proofs.MeaningFacts Proofs.MeaningLevels Proofs.TreeFacts.

Fixpoint toplevel_tree (e : expr) : bool :=
  match e with
  | Terminal _ _ _ _ | NontermRef _ _ _ => true
  | Command _ z _ _ => negb z
  | Sequence cs _ | Alternative cs _ | Fallback cs _ => forallb toplevel_tree cs
  | Optional c _ | Many1 c _ => toplevel_tree c
  | DistDescr _ _ _ | Subword _ _ _ => false
  end.

(** The item a top-level leaf stands for, as an input of the automaton and as an item of [Lang]. *)
Definition inp_of_leaf (a : leaf) : inp :=
  match a with
  | LLit t d l => ILit t d l
  | LCmd c l => ICmd c l
  | LAny => IStar
  | LSub _ l => ISub 0 l
  end.

Definition item_of_leaf (a : leaf) : item :=
  match a with
  | LLit t d l => ILeaf (Lang.WLit t d l)
  | LCmd c l => ILeaf (Lang.WCmd c l)
  | LAny => ILeaf WStar
  | LSub _ l => IWord (fun _ => False) l
  end.

Definition plain_leaf (a : leaf) : bool := match a with LSub _ _ => false | _ => true end.

Lemma inp_of_leaf_inj a b : plain_leaf a = true -> plain_leaf b = true -> inp_of_leaf a = inp_of_leaf b -> a = b.
Proof. destruct a, b; cbn; intros Ha Hb H; try discriminate; inversion H; subst; reflexivity. Qed.

(** *** Leaves of denoted words *)
Lemma denotes_leaves {A} (r : rx A) w : denotes r w -> forall a, In a w -> In a (leaves r).
Proof.
  induction 1; intros a0 Hin; cbn [leaves] in *.
  - destruct Hin.
  - destruct Hin as [<- | []]. left; reflexivity.
  - apply in_app_or in Hin. apply in_or_app. destruct Hin; [left; apply IHdenotes1 | right; apply IHdenotes2]; assumption.
  - apply in_or_app. left. apply IHdenotes; assumption.
  - apply in_or_app. right. apply IHdenotes; assumption.
  - apply IHdenotes; assumption.
  - apply in_app_or in Hin. destruct Hin; [apply IHdenotes1 | apply IHdenotes2]; assumption.
Qed.

Lemma leaves_cat {A} (r s : rx A) a : In a (leaves (cat r s)) -> In a (leaves r) \/ In a (leaves s).
Proof.
  destruct r; destruct s; cbn [cat leaves]; intro H; try (destruct H; fail); auto;
    try (apply in_app_or in H; assumption); try (left; assumption); try (right; assumption).
Qed.

Lemma leaves_alt {A} (r s : rx A) a : In a (leaves (alt r s)) -> In a (leaves r) \/ In a (leaves s).
Proof.
  destruct r; destruct s; cbn [alt leaves]; intro H; try (destruct H; fail); auto;
    try (apply in_app_or in H; assumption); try (left; assumption); try (right; assumption).
Qed.

Lemma leaves_fold_cat (l : list (rx leaf)) a :
  In a (leaves (fold_right cat Eps l)) -> exists r, In r l /\ In a (leaves r).
Proof.
  induction l as [| r l IH]; cbn [fold_right]; intro H; [destruct H |].
  apply leaves_cat in H. destruct H as [H | H].
  - exists r. split; [left; reflexivity | assumption].
  - destruct (IH H) as [r' [Hin Ha]]. exists r'. split; [right; assumption | assumption].
Qed.

Lemma leaves_fold_alt (l : list (rx leaf)) a :
  In a (leaves (fold_right alt Zero l)) -> exists r, In r l /\ In a (leaves r).
Proof.
  induction l as [| r l IH]; cbn [fold_right]; intro H; [destruct H |].
  apply leaves_alt in H. destruct H as [H | H].
  - exists r. split; [left; reflexivity | assumption].
  - destruct (IH H) as [r' [Hin Ha]]. exists r'. split; [right; assumption | assumption].
Qed.

(** The leaves of the translation of a top-level tree are plain. *)
Lemma toplevel_leaves_plain e : toplevel_tree e = true -> forall a, In a (leaves (tr e)) -> plain_leaf a = true.
Proof.
  induction e using expr_ind'; intros Ht a Ha; cbn [toplevel_tree] in Ht; try discriminate.
  - cbn in Ha. destruct Ha as [<- | []]. reflexivity.
  - cbn in Ha. destruct Ha as [<- | []]. reflexivity.
  - cbn in Ha. destruct Ha as [<- | []]. reflexivity.
  - rewrite tr_seq in Ha. apply leaves_fold_cat in Ha. destruct Ha as [r [Hr Ha]].
    apply in_map_iff in Hr. destruct Hr as [c [<- Hc]].
    rewrite Forall_forall in H. rewrite forallb_forall in Ht. apply (H c Hc (Ht c Hc) a Ha).
  - rewrite tr_alt in Ha. apply leaves_fold_alt in Ha. destruct Ha as [r [Hr Ha]].
    apply in_map_iff in Hr. destruct Hr as [c [<- Hc]].
    rewrite Forall_forall in H. rewrite forallb_forall in Ht. apply (H c Hc (Ht c Hc) a Ha).
  - cbn [tr leaves] in Ha. rewrite app_nil_r in Ha. apply IHe; assumption.
  - cbn [tr leaves] in Ha. apply IHe; assumption.
  - rewrite tr_fb in Ha. apply leaves_fold_alt in Ha. destruct Ha as [r [Hr Ha]].
    apply in_map_iff in Hr. destruct Hr as [c [<- Hc]].
    rewrite Forall_forall in H. rewrite forallb_forall in Ht. apply (H c Hc (Ht c Hc) a Ha).
Qed.

(** *** Folded alternatives and sequences *)
Lemma denotes_fold_alt_in (l : list (rx leaf)) r w : In r l -> denotes r w -> denotes (fold_right alt Zero l) w.
Proof.
  induction l as [| x l IH]; intros Hin Hd; [destruct Hin |].
  cbn [fold_right]. apply alt_denotes. destruct Hin as [<- | Hin]; [apply D_alt_l; assumption | apply D_alt_r; apply IH; assumption].
Qed.

Lemma denotes_fold_alt_inv (l : list (rx leaf)) w : denotes (fold_right alt Zero l) w -> exists r, In r l /\ denotes r w.
Proof.
  induction l as [| x l IH]; cbn [fold_right]; intro H; [exfalso; eapply denotes_zero; eassumption |].
  apply alt_denotes in H. inversion H as [| | | r0 s0 u Hu | r0 s0 u Hu | |]; subst.
  - exists x. split; [left; reflexivity | assumption].
  - destruct (IH Hu) as [r [Hin Hr]]. exists r. split; [right; assumption | assumption].
Qed.

(** *** The bridge *)
Definition tleaf_of (e : expr) : option leaf :=
  match e with
  | Terminal t d l _ => Some (LLit t d l)
  | NontermRef _ _ _ => Some LAny
  | Command c false l _ => Some (LCmd c l)
  | _ => None
  end.

Lemma bridge_to e w :
  Lang.denotes e w -> toplevel_tree e = true ->
  exists ls, RxFacts.denotes (tr e) ls /\ w = map item_of_leaf ls.
Proof.
  unfold Lang.denotes. induction 1 as [e w Hl Hw | sp | c cs sp u v Hc IHc Hcs IHcs | c cs sp u Hin Hc IHc
                                       | c cs sp u Hin Hc IHc | c sp | c sp u Hc IHc | c sp u Hc IHc
                                       | c sp u v Hc IHc Hm IHm]; intro Ht.
  - destruct Hw as [it [-> Hit]].
    destruct e; cbn [is_leaf toplevel_tree] in *; try discriminate.
    + destruct it; cbn [item_equiv] in Hit; [| contradiction]. subst a.
      exists [LLit term descr level]. split; [constructor | reflexivity].
    + destruct it; cbn [item_equiv] in Hit; [| contradiction]. subst a.
      exists [LAny]. split; [constructor | reflexivity].
    + destruct compadd; [discriminate |]. destruct it; cbn [item_equiv cmd_witem] in Hit; [| contradiction]. subst a.
      exists [LCmd cmd level]. split; [constructor | reflexivity].
  - exists []. split; [rewrite tr_seq; constructor | reflexivity].
  - cbn [toplevel_tree forallb] in Ht. apply andb_true_iff in Ht. destruct Ht as [Ht1 Ht2].
    destruct (IHc Ht1) as [l1 [D1 ->]]. destruct (IHcs Ht2) as [l2 [D2 ->]].
    exists (l1 ++ l2). split; [| rewrite map_app; reflexivity].
    rewrite tr_seq in *. cbn [map fold_right]. apply cat_denotes. constructor; assumption.
  - cbn [toplevel_tree] in Ht. rewrite forallb_forall in Ht.
    destruct (IHc (Ht c Hin)) as [l1 [D1 ->]]. exists l1. split; [| reflexivity].
    rewrite tr_alt. eapply denotes_fold_alt_in; [apply in_map; exact Hin | assumption].
  - cbn [toplevel_tree] in Ht. rewrite forallb_forall in Ht.
    destruct (IHc (Ht c Hin)) as [l1 [D1 ->]]. exists l1. split; [| reflexivity].
    rewrite tr_fb. eapply denotes_fold_alt_in; [apply in_map; exact Hin | assumption].
  - exists []. split; [cbn [tr]; apply D_alt_r; constructor | reflexivity].
  - cbn [toplevel_tree] in Ht. destruct (IHc Ht) as [l1 [D1 ->]]. exists l1. split; [cbn [tr]; apply D_alt_l; assumption | reflexivity].
  - cbn [toplevel_tree] in Ht. destruct (IHc Ht) as [l1 [D1 ->]]. exists l1. split; [cbn [tr]; apply D_plus_one; assumption | reflexivity].
  - cbn [toplevel_tree] in Ht. destruct (IHc Ht) as [l1 [D1 ->]]. destruct (IHm Ht) as [l2 [D2 ->]].
    exists (l1 ++ l2). split; [| rewrite map_app; reflexivity].
    cbn [tr] in *. apply D_plus_more; assumption.
Qed.

Lemma bridge_from e : toplevel_tree e = true ->
  forall ls, RxFacts.denotes (tr e) ls -> Lang.denotes e (map item_of_leaf ls).
Proof.
  unfold Lang.denotes. induction e using expr_ind'; intros Ht ls Hd; cbn [toplevel_tree] in Ht; try discriminate.
  - cbn [tr] in Hd. inversion Hd; subst. apply Lang.D_leaf; [reflexivity |].
    eexists. split; [reflexivity | cbn; reflexivity].
  - cbn [tr] in Hd. inversion Hd; subst. apply Lang.D_leaf; [reflexivity |].
    eexists. split; [reflexivity | cbn; reflexivity].
  - cbn [tr] in Hd. inversion Hd; subst. destruct z; [discriminate |]. apply Lang.D_leaf; [reflexivity |].
    eexists. split; [reflexivity | cbn; reflexivity].
  - rewrite tr_seq in Hd. revert ls Hd. rewrite forallb_forall in Ht.
    induction H as [| c cs Hc Hcs IH]; intros ls Hd.
    + cbn in Hd. inversion Hd; subst. apply D_seq_nil.
    + cbn [map fold_right] in Hd. apply cat_denotes in Hd.
      inversion Hd as [| | r s u v Hu Hv | | | |]; subst. rewrite map_app.
      apply D_seq_cons.
      * apply Hc; [apply Ht; left; reflexivity | assumption].
      * apply IH; [intros x Hx; apply Ht; right; assumption | assumption].
  - rewrite tr_alt in Hd. apply denotes_fold_alt_inv in Hd. destruct Hd as [r [Hr Hd]].
    apply in_map_iff in Hr. destruct Hr as [c [<- Hc]].
    rewrite Forall_forall in H. rewrite forallb_forall in Ht.
    eapply D_alt; [exact Hc | apply H; [assumption | apply Ht; assumption | assumption]].
  - cbn [tr] in Hd. inversion Hd as [| | | r0 s0 u Hu | r0 s0 u Hu | |]; subst.
    + apply D_opt_some. apply IHe; assumption.
    + inversion Hu; subst. apply D_opt_none.
  - cbn [tr] in Hd. remember (Plus (tr e)) as p eqn:Ep. induction Hd; try discriminate.
    + inversion Ep; subst. apply D_many_one. apply IHe; assumption.
    + inversion Ep; subst. rewrite map_app. apply D_many_more; [apply IHe; assumption | apply IHHd2; reflexivity].
  - rewrite tr_fb in Hd. apply denotes_fold_alt_inv in Hd. destruct Hd as [r [Hr Hd]].
    apply in_map_iff in Hr. destruct Hr as [c [<- Hc]].
    rewrite Forall_forall in H. rewrite forallb_forall in Ht.
    eapply D_fb; [exact Hc | apply H; [assumption | apply Ht; assumption | assumption]].
Qed.

Theorem bridge e w : toplevel_tree e = true ->
  (Lang.denotes e w <-> exists ls, RxFacts.denotes (tr e) ls /\ w = map item_of_leaf ls).
Proof.
  intro Ht. split; [intro H; apply bridge_to; assumption |].
  intros [ls [Hd ->]]. apply bridge_from; assumption.
Qed.

(** *** No [Zero]: every residual has a continuation *)
Fixpoint zero_free {A} (r : rx A) : bool :=
  match r with
  | Zero => false
  | Eps | Leaf _ => true
  | Cat r s | Alt r s => zero_free r && zero_free s
  | Plus r => zero_free r
  end.

Lemma zero_free_inhabited {A} (r : rx A) : zero_free r = true -> exists w, denotes r w.
Proof.
  induction r; cbn [zero_free]; intro H; try discriminate.
  - exists []. constructor.
  - exists [a]. constructor.
  - apply andb_true_iff in H. destruct H as [H1 H2]. destruct (IHr1 H1) as [u Hu]. destruct (IHr2 H2) as [v Hv].
    exists (u ++ v). constructor; assumption.
  - apply andb_true_iff in H. destruct H as [H1 _]. destruct (IHr1 H1) as [u Hu]. exists u. apply D_alt_l. assumption.
  - destruct (IHr H) as [u Hu]. exists u. apply D_plus_one. assumption.
Qed.

Lemma zero_free_cat {A} (r s : rx A) : zero_free r = true -> zero_free s = true -> zero_free (cat r s) = true.
Proof. destruct r; destruct s; cbn; intros H1 H2; try discriminate; try reflexivity; try assumption; rewrite ?H1, ?H2; reflexivity. Qed.

Lemma zero_free_alt {A} (r s : rx A) : zero_free r = true -> zero_free s = true -> zero_free (alt r s) = true.
Proof. destruct r; destruct s; cbn; intros H1 H2; try discriminate; try reflexivity; try assumption; rewrite ?H1, ?H2; reflexivity. Qed.

Lemma zero_free_lf {A} (r : rx A) : zero_free r = true -> forall a k, In (a, k) (lf r) -> zero_free k = true.
Proof.
  induction r; cbn [zero_free lf]; intros H a0 k Hin; try discriminate.
  - destruct Hin.
  - destruct Hin as [E | []]. inversion E; subst. reflexivity.
  - apply andb_true_iff in H. destruct H as [H1 H2]. apply in_app_or in Hin. destruct Hin as [Hin | Hin].
    + apply in_map_iff in Hin. destruct Hin as [[a1 k1] [E Hin]]. cbn in E. inversion E; subst.
      apply zero_free_cat; [eapply IHr1; eassumption | assumption].
    + destruct (nullable r1); [| destruct Hin]. eapply IHr2; eassumption.
  - apply andb_true_iff in H. destruct H as [H1 H2]. apply in_app_or in Hin. destruct Hin; [eapply IHr1 | eapply IHr2]; eassumption.
  - apply in_map_iff in Hin. destruct Hin as [[a1 k1] [E Hin]]. cbn in E. inversion E; subst.
    apply zero_free_cat; [eapply IHr; eassumption |]. cbn. rewrite H. reflexivity.
Qed.

Lemma zero_free_fold_cat {A} (l : list (rx A)) : Forall (fun r => zero_free r = true) l -> zero_free (fold_right cat Eps l) = true.
Proof. induction 1; [reflexivity |]. cbn [fold_right]. apply zero_free_cat; assumption. Qed.

Lemma zero_free_fold_alt {A} (l : list (rx A)) :
  l <> [] -> Forall (fun r => zero_free r = true) l -> zero_free (fold_right alt Zero l) = true.
Proof.
  intros Hne H. induction H as [| r l Hr Hl IH]; [contradiction |].
  cbn [fold_right]. destruct l as [| r' l'].
  - cbn [fold_right]. destruct r; cbn in *; try discriminate; reflexivity || assumption.
  - apply zero_free_alt; [assumption | apply IH; discriminate].
Qed.

Lemma zero_free_tr e : toplevel_tree e = true -> alts_nonempty e = true -> zero_free (tr e) = true.
Proof.
  induction e using expr_ind'; intros Ht Ha; cbn [toplevel_tree alts_nonempty] in *; try discriminate; try reflexivity.
  - rewrite tr_seq. apply zero_free_fold_cat. rewrite Forall_forall in *. rewrite forallb_forall in Ht, Ha.
    intros r Hr. apply in_map_iff in Hr. destruct Hr as [c [<- Hc]]. apply H; [assumption | apply Ht; assumption | apply Ha; assumption].
  - rewrite tr_alt. destruct cs as [| c0 cs0]; [discriminate |]. apply zero_free_fold_alt; [discriminate |].
    rewrite Forall_forall in *. rewrite forallb_forall in Ht, Ha.
    intros r Hr. apply in_map_iff in Hr. destruct Hr as [c [<- Hc]]. apply H; [assumption | apply Ht; assumption | apply Ha; assumption].
  - cbn [tr zero_free]. rewrite IHe by assumption. reflexivity.
  - cbn [tr zero_free]. apply IHe; assumption.
  - rewrite tr_fb. destruct cs as [| c0 cs0]; [discriminate |]. apply zero_free_fold_alt; [discriminate |].
    rewrite Forall_forall in *. rewrite forallb_forall in Ht, Ha.
    intros r Hr. apply in_map_iff in Hr. destruct Hr as [c [<- Hc]]. apply H; [assumption | apply Ht; assumption | apply Ha; assumption].
Qed.
