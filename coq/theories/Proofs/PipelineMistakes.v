(** C08, end to end: the verdicts of the checker on the mistake classes of Spec/Mistakes.v, lifted
    from the tree to the SOURCE TEXT through [Driver.compile].

    For a printable grammar [g] and any layout [l], [compile (text g l)] behaves like the pipeline
    after the parser on [g] itself up to spans ([layout_rel]: parser round trip + the checker and
    the rest of the pipeline ignore spans), and the predicates of Spec/Mistakes.v do not read
    spans at all; so every theorem "class present (earlier ones absent) => from_grammar returns an
    error of the matching kind" becomes "=> compile returns [DCheck] of that kind". *)
From CG Require Import Base.Prelude Model.Ast Model.Lexer Model.Parser Model.Check Model.Regex.
From CG Require Import Model.Dfa Model.Driver Spec.Printer Spec.Choice Spec.Mistakes.
From CG Require Import Proofs.GrammarRound Proofs.TreeFacts.
From CG Require Import Proofs.CheckSpans Proofs.PipelineSpans Proofs.PipelineLayout.

Section Bridge.
  Variable pick : nat -> list (list N) -> nat.
  Variable fuel : nat.
  Variable builtins : shell -> list (string * string).

  (** the text of a printable grammar goes through the pipeline like the grammar itself *)
  Theorem text_bridge g l sh :
    wf g ->
    layout_rel (compile pick fuel builtins (text g l) sh) (after_parse pick fuel builtins g sh).
  Proof.
    intro W. pose proof (roundtrip_cfg pinned g l W) as P.
    rewrite (compile_after_parse pick fuel builtins _ _ sh P).
    apply same_shape_pipeline. unfold same_shape. rewrite <- !erase_grammar_ms, erase_located. reflexivity.
  Qed.

  (** a property of checker errors that does not depend on spans *)
  Definition span_blind (P : cerror -> Prop) : Prop :=
    forall e e', ms_err CheckSpans.erase e = ms_err CheckSpans.erase e' -> P e -> P e'.

  Theorem checker_error_lifts (P : cerror -> Prop) g l sh :
    span_blind P -> wf g ->
    (exists e, from_grammar builtins g sh = Err e /\ P e) ->
    exists e', compile pick fuel builtins (text g l) sh = Err (DCheck e') /\ P e'.
  Proof.
    intros HP W [e [He Pe]]. pose proof (text_bridge g l sh W) as B.
    unfold after_parse in B. rewrite He in B. cbn [lift obind] in B.
    destruct (compile pick fuel builtins (text g l) sh) as [[v c]|e2| |]; cbn [layout_rel] in B; try contradiction.
    destruct e2; cbn [ms_derr] in B; try discriminate.
    exists e0. split; [reflexivity|]. eapply HP; [|exact Pe]. inversion B. reflexivity.
  Qed.

  Theorem checker_ok_lifts g l sh v c :
    wf g -> from_grammar builtins g sh = Ok v -> compile_valid pick fuel v = Ok c ->
    exists v', compile pick fuel builtins (text g l) sh = Ok (v', c)
               /\ v_command v' = v_command v
               /\ ms CheckSpans.erase (v_expr v') = ms CheckSpans.erase (v_expr v).
  Proof.
    intros W Hv Hc. pose proof (text_bridge g l sh W) as B.
    unfold after_parse in B. rewrite Hv in B. cbn [lift obind] in B. rewrite Hc in B. cbn [obind] in B.
    destruct (compile pick fuel builtins (text g l) sh) as [[v' c']|e2| |]; cbn [layout_rel] in B; try contradiction.
    destruct B as (A1 & A2 & A3). subst c'. exists v'. auto.
  Qed.
End Bridge.

(** the kinds of checker errors are span-blind *)
Ltac blind :=
  intros e e' H Hp; destruct e, e'; cbn in H; try discriminate H; try discriminate Hp;
  try (destruct Hp as [? Hp]; try discriminate Hp; try (destruct Hp as [? Hp]; try discriminate Hp;
         try (destruct Hp as [? Hp]; try discriminate Hp)));
  try exact Hp; try reflexivity; try (repeat eexists; fail).

Lemma blind_missing : span_blind (fun e => e = MissingCallVariants).
Proof. blind. Qed.
Lemma blind_varying : span_blind (fun e => exists spans, e = VaryingCommandNames spans).
Proof. blind. Qed.
Lemma blind_invalid : span_blind (fun e => exists sp, e = InvalidCommandName sp).
Proof. blind. Qed.
Lemma blind_duplicate : span_blind (fun e => exists a b, e = DuplicateNonterminalDefinition a b).
Proof. blind. Qed.
Lemma blind_cycle : span_blind (fun e => exists spans, e = NonterminalDefinitionsCycle spans).
Proof. blind. Qed.
Lemma blind_spaces : span_blind (fun e => exists l r t, e = SubwordSpaces l r t).
Proof. blind. Qed.

Lemma blind_spec_errors (u n d : bool) :
  span_blind (fun e => match e with
                       | UnknownShell _ => u = true
                       | NonCommandSpecialization _ => n = true
                       | DuplicateNonterminalDefinition _ _ => d = true
                       | _ => False
                       end).
Proof. blind. Qed.

(** printable grammars have the shape the theorems about words need *)
From CG Require Import Proofs.CheckProvenance Proofs.CheckSpacesSpec Proofs.CheckCycleSpec Proofs.CheckFront.
From CG Require Import Proofs.CheckMistakes Proofs.PipelineTotal.

Lemma wfb_word_roots e : forall w, wfb w e = true -> word_roots_ok e = true.
Proof.
  induction e using expr_ind'; intros w Hw; cbn [wfb word_roots_ok] in *; try reflexivity;
    try (eapply IHe; exact Hw).
  - apply andb_true_iff in Hw. destruct Hw as [_ Hw]. rewrite forallb_forall in *. rewrite Forall_forall in H.
    intros c Hc. eapply H; [exact Hc|apply Hw; exact Hc].
  - apply andb_true_iff in Hw. destruct Hw as [_ Hw]. rewrite forallb_forall in *. rewrite Forall_forall in H.
    intros c Hc. eapply H; [exact Hc|apply Hw; exact Hc].
  - apply andb_true_iff in Hw. destruct Hw as [_ Hw]. rewrite forallb_forall in *. rewrite Forall_forall in H.
    intros c Hc. eapply H; [exact Hc|apply Hw; exact Hc].
  - apply andb_true_iff in Hw. destruct Hw as [_ Hw]. destruct e; try discriminate.
    cbn [andb]. apply (IHe true). cbn [wfb]. exact Hw.
Qed.

Lemma wf_word_roots g : wf g -> grammar_word_roots_ok g = true.
Proof.
  unfold wf, grammar_word_roots_ok. intro H. rewrite forallb_forall in *. intros s Hs. specialize (H s Hs).
  destruct s as [n sp e|n sp [[sh shsp]|] rhs]; cbn [wf_stmt stmt_expr] in *.
  - apply andb_true_iff in H. destruct H as [_ H]. eapply wfb_word_roots; exact H.
  - apply andb_true_iff in H. destruct H as [_ H]. eapply wfb_word_roots; exact H.
  - apply andb_true_iff in H. destruct H as [_ H]. eapply wfb_word_roots; exact H.
Qed.

Lemma compile_valid_err_kind pick fuel v e :
  compile_valid pick fuel v = Err e -> match e with DParse _ | DCheck _ => False | _ => True end.
Proof.
  unfold compile_valid.
  destruct (from_valid_expr (v_expr v)) as [[r pl]|e0| |]; cbn [lift obind]; try discriminate.
  2:{ intro H. inversion H. exact I. }
  destruct (compile_subs pick fuel (r_inputs r) pl [] []) as [[sm subs]|e1| |] eqn:Ec; cbn [obind]; try discriminate.
  2:{ intro H. inversion H; subst. apply compile_subs_err in Ec. destruct e; try destruct Ec; exact I. }
  destruct (Subset.dfa_from_regex pick fuel sm r) as [raw|e2| |]; cbn [lift obind]; try discriminate.
  2:{ intro H. inversion H. exact I. }
  destruct (Minimize.minimize (fst raw)) as [m|e3| |]; cbn [lift_noerr obind]; try discriminate.
  destruct (Ambiguity.check_ambiguity_best_effort m) as [[]|e4| |]; cbn [lift obind]; try discriminate.
  intro H. inversion H. exact I.
Qed.

Section Lifted.
  Variable pick : nat -> list (list N) -> nat.
  Variable fuel : nat.
  Variable builtins : shell -> list (string * string).

  Theorem lifted_cycle_converse g l sh spans :
    wf g ->
    compile pick fuel builtins (text g l) sh = Err (DCheck (NonterminalDefinitionsCycle spans)) ->
    exists spans', from_grammar builtins g sh = Err (NonterminalDefinitionsCycle spans').
  Proof.
    intros W H. pose proof (text_bridge pick fuel builtins g l sh W) as B. rewrite H in B.
    unfold after_parse in B.
    destruct (from_grammar builtins g sh) as [v|e| |]; cbn [lift obind] in B.
    - destruct (compile_valid pick fuel v) as [c|e| |] eqn:Ev; cbn [obind layout_rel] in B; try contradiction.
      apply compile_valid_err_kind in Ev. destruct e; try destruct Ev; discriminate.
    - cbn [layout_rel ms_derr] in B. destruct e; cbn in B; try discriminate. eexists; reflexivity.
    - contradiction.
    - contradiction.
  Qed.

  (** a grammar free of every class the checker decides before the walk of the words: the text
      compiles, or is rejected for one of the three remaining reasons *)
  Theorem lifted_clean_verdict g l sh :
    wf g -> fuel_covers fuel builtins (text g l) sh ->
    no_call_variant g = false -> varying_names g = false -> slash_in_name g = false ->
    duplicate_plain g = false ->
    unknown_shell g = false -> non_command_for_shell g = false -> duplicate_for_shell g sh = false ->
    specs_have_command_plain g = true -> cyclic g sh = false ->
    (exists vc, compile pick fuel builtins (text g l) sh = Ok vc) \/
    (exists a b t, compile pick fuel builtins (text g l) sh = Err (DCheck (SubwordSpaces a b t))) \/
    (exists a b, compile pick fuel builtins (text g l) sh = Err (DRegex (UnboundedMatchable a b))) \/
    (exists ae, compile pick fuel builtins (text g l) sh = Err (DAmb ae)).
  Proof.
    intros W Hfuel Hn Hv Hsl Hdp H1 H2 H3 Hsp Hcyc.
    destruct (compile_total pick fuel builtins (text g l) sh Hfuel) as [[vc Hc]|[e He]]; [left; eauto|].
    right.
    destruct (compile_error_kinds pick fuel builtins (text g l) sh e Hfuel He)
      as [[sp ->]|[[ce ->]|[(a & b & ->)|[ae ->]]]].
    - exfalso. pose proof (roundtrip_cfg pinned g l W) as P.
      rewrite (compile_after_parse pick fuel builtins _ _ sh P) in He. unfold after_parse in He.
      destruct (from_grammar builtins _ sh) as [v|e| |]; cbn [lift obind] in He; try discriminate.
      destruct (compile_valid pick fuel v) as [c|e| |] eqn:Ev; cbn [obind] in He; try discriminate.
      inversion He; subst. apply compile_valid_err_kind in Ev. exact Ev.
    - left. pose proof (text_bridge pick fuel builtins g l sh W) as B. rewrite He in B. unfold after_parse in B.
      destruct (clean_verdict builtins g sh Hn Hv Hsl Hdp H1 H2 H3 Hsp Hcyc) as [[v Hg]|(a & b & t & Hg)];
        rewrite Hg in B; cbn [lift obind] in B.
      + destruct (compile_valid pick fuel v) as [c|e| |] eqn:Ev; cbn [obind layout_rel] in B; try contradiction.
        apply compile_valid_err_kind in Ev. destruct e; try destruct Ev; discriminate.
      + cbn [layout_rel ms_derr] in B. destruct ce; cbn in B; try discriminate. do 3 eexists. exact He.
    - right. left. eauto.
    - right. right. eauto.
  Qed.
End Lifted.
