(** Correctness of the breadth-first search of [Spec.TokAut] whenever it terminates within its
    fuel: if it answers [PFound w], both automata accept [w]; if it answers [PEmpty r], the set
    [r] passes [closed_ok] (so [disjoint] answers [true]).  Consequently [disjoint] can only answer
    [false] for two reasons: a common word exists, or the fuel ran out ([PUnknown]); and
    [common_word] exhibits a word whenever the search found one. *)
From CG Require Import Base.Prelude Spec.TokAut Proofs.TokAutFacts.

Section Search.
  Variables Q1 Q2 : Type.
  Variable next1 : Q1 -> list (tok * Q1).
  Variable next2 : Q2 -> list (tok * Q2).
  Variable final1 : Q1 -> bool.
  Variable final2 : Q2 -> bool.
  Variable eq1 : Q1 -> Q1 -> bool.
  Variable eq2 : Q2 -> Q2 -> bool.
  Hypothesis eq1_sound : forall a b, eq1 a b = true -> a = b.
  Hypothesis eq2_sound : forall a b, eq2 a b = true -> a = b.
  Hypothesis eq1_refl : forall a, eq1 a a = true.
  Hypothesis eq2_refl : forall a, eq2 a a = true.

  Notation ppair := (ppair Q1 Q2).
  Notation pmem := (pmem Q1 Q2 eq1 eq2).
  Notation psucc := (psucc Q1 Q2 next1 next2).
  Notation pfinal := (pfinal Q1 Q2 final1 final2).
  Notation search := (search Q1 Q2 next1 next2 final1 final2 eq1 eq2).
  Notation cacc1 := (cacc Q1 next1 final1).
  Notation cacc2 := (cacc Q2 next2 final2).

  Lemma cfg_eqb_refl1 c : cfg_eqb Q1 eq1 c c = true.
  Proof. destruct c; cbn [cfg_eqb]; [rewrite String.eqb_refl, eq1_refl; reflexivity | apply eq1_refl]. Qed.
  Lemma cfg_eqb_refl2 c : cfg_eqb Q2 eq2 c c = true.
  Proof. destruct c; cbn [cfg_eqb]; [rewrite String.eqb_refl, eq2_refl; reflexivity | apply eq2_refl]. Qed.

  Lemma ppair_eqb_refl (p : ppair) : ppair_eqb Q1 Q2 eq1 eq2 p p = true.
  Proof. unfold ppair_eqb. rewrite cfg_eqb_refl1, cfg_eqb_refl2. reflexivity. Qed.

  Lemma In_pmem (p : ppair) l : In p l -> pmem p l = true.
  Proof.
    intro H. unfold TokAut.pmem. apply existsb_exists. exists p. split; [assumption | apply ppair_eqb_refl].
  Qed.

  Lemma pmem_iff (p : ppair) l : pmem p l = true <-> In p l.
  Proof. split; [apply (pmem_In Q1 Q2 eq1 eq2 eq1_sound eq2_sound) | apply In_pmem]. Qed.

  (** *** Words read so far *)
  Lemma string_of_rev_app l : forall acc, string_of_rev l acc = append (string_of_rev l EmptyString) acc.
  Proof.
    induction l as [| a l IH]; intro acc; [reflexivity |].
    cbn [string_of_rev]. rewrite IH, (IH (String a EmptyString)).
    clear. induction (string_of_rev l EmptyString) as [| b s IHs]; cbn; [reflexivity | rewrite IHs; reflexivity].
  Qed.

  Lemma string_of_rev_cons a l :
    string_of_rev (a :: l) EmptyString = append (string_of_rev l EmptyString) (String a EmptyString).
  Proof. cbn [string_of_rev]. apply string_of_rev_app. Qed.

  Lemma cacc_app_char1 c l c' a :
    In (l, c') (cstep Q1 next1 c) -> lab_ok l a = true -> forall v, cacc1 c' v -> cacc1 c (String a v).
  Proof. intros. econstructor; eassumption. Qed.

  Lemma joint_inv l1 l2 l : joint l1 l2 = Some l ->
                            lab_ok l1 (witness_char l) = true /\ lab_ok l2 (witness_char l) = true.
  Proof.
    destruct l1 as [a |], l2 as [b |]; cbn [joint]; intro H.
    - destruct (Ascii.eqb a b) eqn:E; [| discriminate]. inversion H; subst. apply Ascii.eqb_eq in E. subst.
      cbn. rewrite Ascii.eqb_refl. split; reflexivity.
    - inversion H; subst. cbn. rewrite Ascii.eqb_refl. split; reflexivity.
    - inversion H; subst. cbn. rewrite Ascii.eqb_refl. split; reflexivity.
    - inversion H; subst. split; reflexivity.
  Qed.

  Lemma psucc_inv (p : ppair) l p' :
    In (l, p') (psucc p) ->
    exists l1 l2, In (l1, fst p') (cstep Q1 next1 (fst p)) /\ In (l2, snd p') (cstep Q2 next2 (snd p))
                  /\ joint l1 l2 = Some l.
  Proof.
    unfold TokAut.psucc. intro H. apply in_flat_map in H. destruct H as [[l1 c1] [H1 H]].
    apply in_flat_map in H. destruct H as [[l2 c2] [H2 H]]. cbn [fst snd] in H.
    destruct (joint l1 l2) as [l0 |] eqn:J; [| destruct H]. destruct H as [E | []].
    inversion E; subst. exists l1, l2. cbn [fst snd]. repeat split; assumption.
  Qed.

  (** [p] is reached from [p0] by reading the word [w]. *)
  Definition reach (p0 : ppair) (w : string) (p : ppair) : Prop :=
    forall v, cacc1 (fst p) v -> cacc2 (snd p) v ->
              cacc1 (fst p0) (append w v) /\ cacc2 (snd p0) (append w v).

  Lemma reach_refl p0 : reach p0 EmptyString p0.
  Proof. intros v H1 H2. split; assumption. Qed.

  Lemma append_assoc' (a : string) : forall b c, append (append a b) c = append a (append b c).
  Proof. induction a as [| x a IH]; intros b c; cbn; [reflexivity | rewrite IH; reflexivity]. Qed.

  Lemma reach_step p0 w p l p' :
    reach p0 w p -> In (l, p') (psucc p) ->
    reach p0 (append w (String (witness_char l) EmptyString)) p'.
  Proof.
    intros R Hs v H1 H2. apply psucc_inv in Hs. destruct Hs as [l1 [l2 [S1 [S2 J]]]].
    apply joint_inv in J. destruct J as [J1 J2].
    rewrite append_assoc'. cbn [append]. apply R.
    - econstructor; eassumption.
    - econstructor; eassumption.
  Qed.

  Lemma reach_final p0 w p :
    reach p0 w p -> pfinal p = true -> cacc1 (fst p0) w /\ cacc2 (snd p0) w.
  Proof.
    intros R Hf. unfold TokAut.pfinal in Hf. apply andb_true_iff in Hf. destruct Hf as [F1 F2].
    specialize (R EmptyString (cacc_nil _ _ _ _ F1) (cacc_nil _ _ _ _ F2)).
    assert (E : append w EmptyString = w).
    { clear. induction w as [| a w IH]; cbn; [reflexivity | rewrite IH; reflexivity]. }
    rewrite E in R. assumption.
  Qed.

  (** *** The invariant of the search *)
  Definition pending (p : ppair) (todo : list (ppair * list ascii)) (visited : list ppair) : Prop :=
    In p visited \/ exists w, In (p, w) todo.

  Record inv (p0 : ppair) (todo : list (ppair * list ascii)) (visited : list ppair) : Prop := {
    inv_reach : forall p w, In (p, w) todo -> reach p0 (string_of_rev w EmptyString) p;
    inv_visited : forall p, In p visited ->
                            pfinal p = false /\ forall l p', In (l, p') (psucc p) -> pending p' todo visited;
    inv_start : pending p0 todo visited
  }.

  Lemma pending_skip p q w todo visited :
    In q visited -> pending p ((q, w) :: todo) visited -> pending p todo visited.
  Proof.
    intros Hq [H | [w' [E | H]]].
    - left; assumption.
    - inversion E; subst. left; assumption.
    - right. exists w'. assumption.
  Qed.

  Lemma pending_expand p q w todo new visited :
    pending p ((q, w) :: todo) visited -> pending p (todo ++ new) (q :: visited).
  Proof.
    intros [H | [w' [E | H]]].
    - left. right; assumption.
    - inversion E; subst. left. left; reflexivity.
    - right. exists w'. apply in_or_app. left; assumption.
  Qed.

  Theorem search_correct p0 : forall fuel todo visited,
      inv p0 todo visited ->
      match search fuel todo visited with
      | PFound _ _ w => cacc1 (fst p0) w /\ cacc2 (snd p0) w
      | PEmpty _ _ r => closed_ok Q1 Q2 next1 next2 final1 final2 eq1 eq2 r p0 = true
      | PUnknown _ _ => True
      end.
  Proof.
    induction fuel as [| f IH]; intros todo visited HI; cbn [TokAut.search]; [exact Logic.I |].
    destruct todo as [| [p w] rest].
    - (* nothing left: the visited set is closed *)
      unfold closed_ok. apply andb_true_iff. split.
      + destruct (inv_start _ _ _ HI) as [H | [w [] ]]. apply In_pmem. assumption.
      + apply forallb_forall. intros p Hp. destruct (inv_visited _ _ _ HI p Hp) as [Hf Hs].
        rewrite Hf. cbn [negb andb]. apply forallb_forall. intros [l p'] Hin. cbn [snd].
        destruct (Hs l p' Hin) as [H | [w [] ]]. apply In_pmem. assumption.
    - destruct (pmem p visited) eqn:Ev.
      + (* already visited *)
        apply pmem_iff in Ev. apply IH. constructor.
        * intros q v Hq. apply (inv_reach _ _ _ HI). right; assumption.
        * intros q Hq. destruct (inv_visited _ _ _ HI q Hq) as [Hf Hs]. split; [assumption |].
          intros l q' Hin. eapply pending_skip; [exact Ev | apply (Hs l q' Hin)].
        * eapply pending_skip; [exact Ev | apply (inv_start _ _ _ HI)].
      + destruct (pfinal p) eqn:Ef.
        * (* a common word *)
          apply (reach_final p0 _ p); [| assumption]. apply (inv_reach _ _ _ HI). left; reflexivity.
        * (* expand [p] *)
          apply IH. constructor.
          -- intros q v Hq. apply in_app_or in Hq. destruct Hq as [Hq | Hq].
             ++ apply (inv_reach _ _ _ HI). right; assumption.
             ++ apply in_map_iff in Hq. destruct Hq as [[l q'] [E Hin]]. cbn [fst snd] in E. inversion E; subst.
                rewrite string_of_rev_cons. eapply reach_step; [| eassumption].
                apply (inv_reach _ _ _ HI). left; reflexivity.
          -- intros q [<- | Hq].
             ++ split; [assumption |]. intros l q' Hin. right. exists (witness_char l :: w).
                apply in_or_app. right. apply in_map_iff. exists (l, q'). split; [reflexivity | assumption].
             ++ destruct (inv_visited _ _ _ HI q Hq) as [Hf Hs]. split; [assumption |].
                intros l q' Hin. apply (pending_expand _ _ w). apply (Hs l q' Hin).
          -- apply (pending_expand _ _ w). apply (inv_start _ _ _ HI).
  Qed.

  Lemma inv_init (p0 : ppair) : inv p0 [(p0, [])] [].
  Proof.
    constructor.
    - intros p w [E | []]. inversion E; subst. apply reach_refl.
    - intros p [].
    - right. exists []. left; reflexivity.
  Qed.

  (** [disjoint] answers [false] only if a common word exists or the search ran out of fuel. *)
  Theorem disjoint_false q1 q2 :
    disjoint Q1 Q2 next1 next2 final1 final2 eq1 eq2 q1 q2 = false ->
    (exists w, tacc Q1 next1 final1 q1 w /\ tacc Q2 next2 final2 q2 w)
    \/ search search_fuel [(start_pair Q1 Q2 q1 q2, [])] [] = PUnknown _ _.
  Proof.
    unfold disjoint. intro H.
    pose proof (search_correct (start_pair Q1 Q2 q1 q2) search_fuel _ _ (inv_init _)) as C.
    destruct (search search_fuel [(start_pair Q1 Q2 q1 q2, [])] []) as [w | r |].
    - left. exists w. cbn [start_pair fst snd] in C. destruct C as [C1 C2].
      split; apply cacc_tacc; assumption.
    - rewrite C in H. discriminate.
    - right; reflexivity.
  Qed.

  (** [common_word] exhibits a word whenever the search found one. *)
  Theorem common_word_found q1 q2 w :
    search search_fuel [(start_pair Q1 Q2 q1 q2, [])] [] = PFound _ _ w ->
    common_word Q1 Q2 next1 next2 final1 final2 eq1 eq2 q1 q2 = Some w.
  Proof.
    intro E. unfold common_word. rewrite E.
    pose proof (search_correct (start_pair Q1 Q2 q1 q2) search_fuel _ _ (inv_init _)) as C.
    rewrite E in C. cbn [start_pair fst snd] in C. destruct C as [C1 C2].
    apply cacc_tacc in C1. apply cacc_tacc in C2.
    apply taccepts_spec in C1. apply taccepts_spec in C2. rewrite C1, C2. reflexivity.
  Qed.
End Search.
