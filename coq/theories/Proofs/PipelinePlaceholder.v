(** C08, end to end, the placeholder class: for a printable grammar free of the classes the
    checker decides, [compile (text g l)] ends in [DRegex UnboundedMatchable] iff the grammar has a
    placeholder inside a word that something can follow ([placeholder_not_last]) -- unless the
    checker rejects the text for space-separated literals first. *)
From CG Require Import Base.Prelude Model.Ast Model.Lexer Model.Parser Model.Check Model.Regex.
From CG Require Import Model.Dfa Model.Driver Spec.Printer Spec.Choice Spec.Mistakes.
From CG Require Import Proofs.GrammarRound Proofs.TreeFacts.
From CG Require Import Proofs.CheckSpans Proofs.PipelineSpans Proofs.PipelineLayout Proofs.PipelineTotal.
From CG Require Import Proofs.CheckCycleSpec Proofs.PipelineMistakes.
From CG Require Import Proofs.PhExpr Proofs.PhSpec Proofs.PhTree.

(** printable grammars have two operands or more at every operator *)
Lemma wfb_ops e : forall w, wfb w e = true -> ops_nonempty e = true.
Proof.
  assert (Hl : forall cs w, Forall (fun e => forall w, wfb w e = true -> ops_nonempty e = true) cs ->
                 Nat.leb 2 (List.length cs) && forallb (wfb w) cs = true ->
                 match cs with [] => false | _ => forallb ops_nonempty cs end = true).
  { intros cs w HF H. apply andb_true_iff in H. destruct H as [Hlen Hall].
    destruct cs as [|c r]; [discriminate|]. rewrite forallb_forall in *. rewrite Forall_forall in HF.
    intros x Hx. apply (HF x Hx w). apply Hall. exact Hx. }
  induction e using expr_ind'; intros w Hw; cbn [wfb ops_nonempty] in *; try reflexivity;
    try (eapply Hl; eassumption); try (eapply IHe; eassumption).
  apply andb_true_iff in Hw. destruct Hw as [_ Hw]. destruct e; try discriminate.
  apply (IHe true). exact Hw.
Qed.

Lemma wf_ops g : wf g -> grammar_ops_nonempty g = true.
Proof.
  unfold wf, grammar_ops_nonempty. intro H. rewrite forallb_forall in *. intros s Hs. specialize (H s Hs).
  destruct s as [n sp e|n sp [[sh shsp]|] rhs]; cbn [wf_stmt] in *;
    apply andb_true_iff in H; destruct H as [_ H]; eapply wfb_ops; exact H.
Qed.

Lemma present_nil builtins g sh :
  present builtins g sh = [] ->
  no_call_variant g = false /\ varying_names g = false /\ slash_in_name g = false /\
  duplicate_plain g = false /\ duplicate_for_shell g sh = false /\ unknown_shell g = false /\
  non_command_for_shell g = false /\ cyclic g sh = false /\ subword_spaces g sh = false /\
  placeholder_not_last builtins g sh = false.
Proof.
  unfold present. intro H.
  destruct (no_call_variant g); [discriminate|]. destruct (varying_names g); [discriminate|].
  destruct (slash_in_name g); [discriminate|]. destruct (duplicate_plain g); [discriminate|].
  destruct (duplicate_for_shell g sh); [discriminate|]. destruct (unknown_shell g); [discriminate|].
  destruct (non_command_for_shell g); [discriminate|]. destruct (cyclic g sh); [discriminate|].
  destruct (subword_spaces g sh); [discriminate|]. destruct (placeholder_not_last builtins g sh); [discriminate|].
  repeat split; reflexivity.
Qed.

Section Lifted.
  Variable pick : nat -> list (list N) -> nat.
  Variable fuel : nat.
  Variable builtins : shell -> list (string * string).

  Lemma compile_valid_regex_err v a b :
    compile_valid pick fuel v = Err (DRegex (UnboundedMatchable a b)) <->
    from_valid_expr (v_expr v) = Err (UnboundedMatchable a b).
  Proof.
    unfold compile_valid. split.
    - destruct (from_valid_expr (v_expr v)) as [[r pl]|e0| |]; cbn [lift obind]; try discriminate.
      2:{ intro H. inversion H. reflexivity. }
      destruct (compile_subs pick fuel (r_inputs r) pl [] []) as [[sm subs]|e1| |] eqn:Ec; cbn [obind]; try discriminate.
      2:{ intro H. inversion H; subst. apply compile_subs_err in Ec. destruct Ec. }
      destruct (Subset.dfa_from_regex pick fuel sm r) as [raw|e2| |]; cbn [lift obind]; try discriminate.
      destruct (Minimize.minimize (fst raw)) as [m|e3| |]; cbn [lift_noerr obind]; try discriminate.
      destruct (Ambiguity.check_ambiguity_best_effort m) as [[]|e4| |]; cbn [lift obind]; discriminate.
    - intro H. rewrite H. reflexivity.
  Qed.

  Theorem lifted_placeholder g l sh :
    wf g ->
    no_call_variant g = false -> varying_names g = false -> slash_in_name g = false ->
    duplicate_plain g = false ->
    unknown_shell g = false -> non_command_for_shell g = false -> duplicate_for_shell g sh = false ->
    specs_have_command_plain g = true -> cyclic g sh = false ->
    (exists a b t, compile pick fuel builtins (text g l) sh = Err (DCheck (SubwordSpaces a b t))) \/
    (placeholder_not_last builtins g sh = true <->
     exists a b, compile pick fuel builtins (text g l) sh = Err (DRegex (UnboundedMatchable a b))).
  Proof.
    intros W Hn Hv Hsl Hdp H1 H2 H3 Hsp Hcyc.
    destruct (clean_verdict builtins g sh Hn Hv Hsl Hdp H1 H2 H3 Hsp Hcyc) as [[v Hg]|(a & b & t & Hg)].
    2:{ left. destruct (checker_error_lifts pick fuel builtins _ g l sh blind_spaces W) as [e [He (a' & b' & t' & ->)]];
          [eexists; split; [exact Hg|eauto]|eauto]. }
    right. destruct (placeholder_decided builtins g sh v Hg (wf_ops g W)) as [Hiff _]. rewrite Hiff.
    pose proof (text_bridge pick fuel builtins g l sh W) as B. unfold after_parse in B. rewrite Hg in B.
    cbn [lift obind] in B. split.
    - intros (a & b & Hf). apply compile_valid_regex_err in Hf. rewrite Hf in B. cbn [obind] in B.
      destruct (compile pick fuel builtins (text g l) sh) as [[v' c']|e2| |]; cbn [layout_rel] in B; try contradiction.
      destruct e2 as [| |[a' b']| |]; cbn [ms_derr] in B; try discriminate. eauto.
    - intros (a & b & Hc). rewrite Hc in B.
      destruct (compile_valid pick fuel v) as [c|e2| |] eqn:Ev; cbn [obind layout_rel] in B; try contradiction.
      destruct e2 as [| |[a' b']| |]; cbn [ms_derr] in B; try discriminate.
      exists a', b'. apply compile_valid_regex_err. exact Ev.
  Qed.

  (** a printable grammar with none of the classes of Spec/Mistakes.v compiles -- or is rejected
      for juxtaposed literals (converse finding N1) or for a description conflict (the class with
      no predicate in Spec/Mistakes.v) *)
  Theorem lifted_clean_compiles g l sh :
    wf g -> fuel_covers fuel builtins (text g l) sh ->
    present builtins g sh = [] -> specs_have_command_plain g = true ->
    (exists vc, compile pick fuel builtins (text g l) sh = Ok vc) \/
    (exists a b t, compile pick fuel builtins (text g l) sh = Err (DCheck (SubwordSpaces a b t))) \/
    (exists ae, compile pick fuel builtins (text g l) sh = Err (DAmb ae)).
  Proof.
    intros W Hfuel Hp Hsp.
    destruct (present_nil builtins g sh Hp) as (Hn & Hv & Hsl & Hdp & H3 & H1 & H2 & Hcyc & _ & Hpl).
    destruct (lifted_clean_verdict pick fuel builtins g l sh W Hfuel Hn Hv Hsl Hdp H1 H2 H3 Hsp Hcyc)
      as [Hok|[Hss|[Hre|Ham]]]; auto.
    destruct (lifted_placeholder g l sh W Hn Hv Hsl Hdp H1 H2 H3 Hsp Hcyc) as [Hss|Hiff]; auto.
    apply Hiff in Hre. congruence.
  Qed.
End Lifted.
