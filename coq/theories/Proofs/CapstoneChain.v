(** C12 through the capstone.  [Props.C12.C12_chain_any_repaired_variant] speaks about the table family
    [chain_alltables lits ipre next].  Whether the pipeline produces an instance of that family for a
    text is a DECIDABLE fact about that text (an equality of finite tables), not a lemma: a
    parametric proof would have to evaluate parser, checker, subset construction and Hopcroft's loop
    symbolically on [cmd <pre>(<v1>|...|<vn>) <next>;] for every n and all strings.  So the corollary is
    conditional on that equality -- discharged by kernel computation for a concrete text (the Example
    in Props/Capstone.v), by differential execution for Rust's tables on the exhaustive family (c12.py). *)
From CG Require Import Base.Prelude Spec.Meaning.
From CG Require Import Model.Ast Model.Check Model.Dfa Model.Driver Model.Tables Model.EmitBash Model.Compiler
  Model.Glob Model.BashSem Model.ChainTables.
From CG Require Import Proofs.GlobFacts Proofs.StripFacts Proofs.C12Chain.
From CG Require Props.C12.

Theorem compile_bash_chain o builtins text s v c nd a lits ipre pre next :
  compile_bash o builtins text = Ok s ->
  compile (pick_table (o_pops o)) (o_fuel o) builtins text Bash = Ok (v, c) ->
  all_tables Bash c (o_main_lits o) (o_sub_lits o) = Ok (nd, a) ->
  d_start (c_main c) = 0%N -> a = chain_alltables lits ipre next ->
  nthN lits ipre = Some pre ->
  forall var, var <> Pinned ->
  (var = Repaired \/ (forall l, In l lits -> plain l = true)) ->
  (forall l, In l lits -> printable_str l = true) ->
  (forall l, In l lits -> l <> EmptyString) ->
  sorted_len lits ->
  (forall e w,
      e_wordbreaks e = EmptyString \/ e_wordbreaks e = default_wordbreaks ->
      is_value lits pre w ->
      run_from var (d_start (c_main c)) a e [(pre ++ w)%string] EmptyString
      = Ok (mkresult 0 [(next ++ " ")%string] []))
  /\ (forall e p,
         e_ignore_case e = false -> e_wordbreaks e = EmptyString ->
         (var = Repaired \/ plain p = true) -> printable_str p = true ->
         (exists w, is_value lits pre w /\ String.prefix p w = true /\ p <> w) ->
         run_from var (d_start (c_main c)) a e [] (pre ++ p)
         = Ok (mkresult 0 (map (append pre) (filter (String.prefix p) (values lits ipre))) [])).
Proof.
  intros _ _ _ Hs Ha Hpre var Hvar Hdom Hpr Hne Hsl. rewrite Hs, Ha.
  exact (Props.C12.C12_chain_any_repaired_variant lits ipre pre next Hpre var Hvar Hdom Hpr Hne Hsl).
Qed.
