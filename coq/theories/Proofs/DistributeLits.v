(** Descriptions through [Check.distribute]: the literals of an expression keep their order and
    their texts, a literal that has its own description keeps it, and a literal that had none
    receives nothing, the pending description, or the description of a [DistDescr] node of the
    expression -- no description is invented and none is moved off the literal it was written on. *)
From CG Require Import Base.Prelude Model.Ast Model.Check Proofs.CheckTree.

(** the literal leaves, left to right: (text, description) *)
Fixpoint lits (e : expr) : list (string * option string) :=
  match e with
  | Terminal t d _ _ => [(t, d)]
  | NontermRef _ _ _ | Command _ _ _ _ => []
  | Sequence cs _ | Alternative cs _ | Fallback cs _ => flat_map lits cs
  | Optional c _ | Many1 c _ | DistDescr c _ _ | Subword c _ _ => lits c
  end.

(** the descriptions written behind a parenthesised / composite expression *)
Fixpoint dd_descrs (e : expr) : list string :=
  match e with
  | Terminal _ _ _ _ | NontermRef _ _ _ | Command _ _ _ _ => []
  | Sequence cs _ | Alternative cs _ | Fallback cs _ => flat_map dd_descrs cs
  | Optional c _ | Many1 c _ | Subword c _ _ => dd_descrs c
  | DistDescr c d _ => d :: dd_descrs c
  end.

(** [b] is what the literal [a] may become when the descriptions in [ds] (and the pending [d]) are
    distributed *)
Definition lit_ok (d : option string) (ds : list string) (a b : string * option string) : Prop :=
  fst b = fst a /\
  match snd a with
  | Some x => snd b = Some x
  | None => snd b = None \/ snd b = d \/ exists x, snd b = Some x /\ In x ds
  end.

Lemma Forall2_mono : forall {A B} (P Q : A -> B -> Prop) l m,
  (forall a b, P a b -> Q a b) -> Forall2 P l m -> Forall2 Q l m.
Proof. intros A B P Q l m H F. induction F; constructor; auto. Qed.

Lemma lit_ok_mono : forall d ds ds' a b, (forall x, In x ds -> In x ds') -> lit_ok d ds a b -> lit_ok d ds' a b.
Proof.
  intros d ds ds' a b H [H1 H2]. split; auto. destruct (snd a); auto.
  destruct H2 as [H2|[H2|[x [H2 H3]]]]; [left; exact H2|right; left; exact H2|].
  right. right. exists x. split; [exact H2|apply H; exact H3].
Qed.

(** the pending description after an expression is the one before it or nothing *)
Lemma distribute_pending : forall e d, snd (distribute e d) = d \/ snd (distribute e d) = None.
Proof.
  induction e using expr_ind'; intros d0; try (simpl; auto; fail).
  - simpl. destruct d; simpl; auto. destruct d0; simpl; auto.
  - rewrite distribute_Sequence.
    assert (G : forall d, snd (dist_list cs d) = d \/ snd (dist_list cs d) = None).
    { induction H as [|c cs Hc H IH]; intros d; simpl; auto.
      specialize (Hc d). destruct (distribute c d) as [c' d1]. simpl in Hc.
      specialize (IH d1). destruct (dist_list cs d1) as [r' d2]. simpl in *.
      destruct Hc as [-> | ->]; auto. destruct IH as [-> | ->]; auto. }
    specialize (G d0). destruct (dist_list cs d0). exact G.
  - simpl. specialize (IHe d0). destruct (distribute e d0). exact IHe.
  - simpl. specialize (IHe d0). destruct (distribute e d0). exact IHe.
  - rewrite distribute_Fallback.
    assert (G : forall d, snd (dist_list cs d) = d \/ snd (dist_list cs d) = None).
    { induction H as [|c cs Hc H IH]; intros d; simpl; auto.
      specialize (Hc d). destruct (distribute c d) as [c' d1]. simpl in Hc.
      specialize (IH d1). destruct (dist_list cs d1) as [r' d2]. simpl in *.
      destruct Hc as [-> | ->]; auto. destruct IH as [-> | ->]; auto. }
    specialize (G d0). destruct (dist_list cs d0). exact G.
  - simpl. specialize (IHe d0). destruct (distribute e d0). exact IHe.
Qed.

Lemma lit_ok_none : forall ds a b, lit_ok None ds a b -> forall d, lit_ok d ds a b.
Proof.
  intros ds a b [H1 H2] d. split; auto. destruct (snd a); auto.
  destruct H2 as [H2|[H2|H2]]; auto.
Qed.

Theorem distribute_lits : forall e d,
  Forall2 (lit_ok d (dd_descrs e)) (lits e) (lits (fst (distribute e d))).
Proof.
  assert (Hlist : forall cs, Forall (fun e => forall d,
                     Forall2 (lit_ok d (dd_descrs e)) (lits e) (lits (fst (distribute e d)))) cs ->
                  forall d, Forall2 (lit_ok d (flat_map dd_descrs cs)) (flat_map lits cs)
                                    (flat_map lits (fst (dist_list cs d)))).
  { intros cs H. induction H as [|c cs Hc H IH]; intros d; simpl; [constructor|].
    specialize (Hc d). pose proof (distribute_pending c d) as Hp.
    destruct (distribute c d) as [c' d1]. simpl in Hc, Hp.
    specialize (IH d1). destruct (dist_list cs d1) as [r' d2]. simpl in *.
    apply Forall2_app.
    - eapply Forall2_mono; [|exact Hc]. intros a b Hab.
      eapply lit_ok_mono; [|exact Hab]. intros x Hx. apply in_app_iff. auto.
    - eapply Forall2_mono; [|exact IH]. intros a b Hab.
      eapply lit_ok_mono with (ds := flat_map dd_descrs cs); [intros x Hx; apply in_app_iff; auto|].
      destruct Hp as [-> | ->]; [exact Hab|apply lit_ok_none; exact Hab]. }
  induction e using expr_ind'; intros d0.
  - simpl. destruct d as [x|]; simpl.
    + constructor; [split; reflexivity|constructor].
    + destruct d0 as [x|]; simpl.
      * constructor; [|constructor]. split; simpl; auto.
      * constructor; [|constructor]. split; simpl; auto.
  - simpl. constructor.
  - simpl. constructor.
  - rewrite distribute_Sequence. specialize (Hlist cs H d0).
    destruct (dist_list cs d0) as [cs' d']. simpl in *. exact Hlist.
  - simpl.
    induction H as [|c cs Hc H IH]; simpl; [constructor|]. apply Forall2_app.
    + eapply Forall2_mono; [|exact (Hc d0)]. intros a b Hab.
      eapply lit_ok_mono; [|exact Hab]. intros x Hx. apply in_app_iff. auto.
    + eapply Forall2_mono; [|exact IH]. intros a b Hab.
      eapply lit_ok_mono; [|exact Hab]. intros x Hx. apply in_app_iff. auto.
  - simpl. specialize (IHe d0). destruct (distribute e d0). exact IHe.
  - simpl. specialize (IHe d0). destruct (distribute e d0). exact IHe.
  - (* DistDescr: the child is distributed with the node's own description pending *)
    simpl. specialize (IHe (Some d)).
    eapply Forall2_mono; [|exact IHe]. intros a b [H1 H2]. split; auto.
    destruct (snd a); auto. destruct H2 as [H2|[H2|[x [H2 H3]]]]; auto.
    + right. right. exists d. split; [exact H2|left; reflexivity].
    + right. right. exists x. split; [exact H2|right; exact H3].
  - rewrite distribute_Fallback. specialize (Hlist cs H d0).
    destruct (dist_list cs d0) as [cs' d']. simpl in *. exact Hlist.
  - simpl. specialize (IHe d0). destruct (distribute e d0). exact IHe.
Qed.

(** at the top ([distribute_descriptions]: nothing pending) *)
Corollary distribute_descriptions_lits : forall e,
  Forall2 (lit_ok None (dd_descrs e)) (lits e) (lits (distribute_descriptions e)).
Proof. intros e. apply distribute_lits. Qed.
