(** C04, zsh: the WHOLE emitted script ([Model/EmitZsh.script]) is read back by the specification-side
    reader.  Same construction as Proofs/BashScript.v, over the generic machinery of Proofs/ScriptGen.v:
    the skeleton is cut into line-aligned units (templates of gen/TplZsh.v, the leading newline of a
    template moved to the piece in front of it), every line is closed (computed), deep (indented deeper
    than any data statement) or one of the few lines that carry the command name; the data sections
    are read by Proofs/ZshCodec.v. *)
From Coq Require Import DecimalString.
From CG Require Import Base.Prelude Model.Ast Model.Dfa Model.Tpl Model.Quote Model.Tables Model.EmitBash Model.EmitData
     Model.EmitZsh Spec.ShellDQ Spec.ScriptRead Proofs.QuoteRT Proofs.BashCodec Proofs.BashScript Proofs.ScriptGen
     Proofs.ZshCodec.
From CGgen Require Import Consts TplZsh.
Open Scope N_scope.
Open Scope list_scope.

Notation envZ := EmitZsh.env_cmd.
Notation line_semZ := (line_semG Zsh).
Notation scansZ := (scansE Zsh).
Notation unit_scansZ := (unit_scans_envG Zsh).

Lemma zdeep x : stmt_of Zsh (append "     " x) = None.
Proof. reflexivity. Qed.
Lemma zblank rest : stmt_of Zsh (append nl rest) = None.
Proof. reflexivity. Qed.

Ltac closed_lineZ :=
  apply (closed_render_semG Zsh); [reflexivity | vm_compute; reflexivity | intro; vm_compute; reflexivity | vm_compute; exact I].
Ltac deep_lineZ Hnl :=
  apply (deep_render_semG Zsh "     " zdeep);
  [ reflexivity
  | unfold seg_no_nl, EmitZsh.env_cmd; cbn [forallb assoc String.eqb Ascii.eqb Bool.eqb]; rewrite ?Hnl, ?no_nl_sN; reflexivity ].

Ltac unit_openZ :=
  unfold unit_scans_envG; intros k rest;
  rewrite render_region by (vm_compute; reflexivity);
  match goal with |- context [render_lines ?E ?R] =>
    replace (List.length (region_lines R)) with (List.length (render_lines E R)) by apply map_length
  end.
Ltac unit_linesZ :=
  unfold render_lines;
  match goal with |- context [region_lines ?R] => region_list R end;
  cbn [map].
Ltac unit_closeZ :=
  match goal with |- _ = _ ++ ?T => generalize T; intro end; vm_compute; reflexivity.
Ltac rest_linesZ Hnl := repeat (eapply Forall2_cons; [first [closed_lineZ | deep_lineZ Hnl]|]).
Ltac unit_tacZ Hnl first_lines :=
  unit_openZ; erewrite (scan_lines_semG Zsh);
  [ | unit_linesZ; first_lines; rest_linesZ Hnl; apply Forall2_nil ];
  unit_closeZ.

(** ** the lines that carry the command name at statement indentation *)
Lemma zheader_reads cmd suf :
  name_ok cmd -> forallb is_name_char (list_ascii_of_string suf) = true -> no_nl suf = true ->
  no_nl (append "_" (append cmd (append suf " () {"))) = true
  /\ forall rest, zsh_stmt (append (append "_" (append cmd (append suf " () {"))) (append nl rest))
                  = Some (SFunc (append "_" (append cmd suf)), rest).
Proof.
  intros Hc Hsuf Hnl. split.
  - cbn [append no_nl]. rewrite !no_nl_app, (name_ok_no_nl _ Hc), Hnl. reflexivity.
  - intros rest. change (stmt_of Zsh) with zsh_stmt. unfold zsh_stmt, bz_stmt. rewrite !append_assoc.
    do 5 (rewrite alt_skip by reflexivity).
    apply alt_take. erewrite pbind_lit' by reflexivity.
    assert (N1 : name (cmd ++ suf ++ " () {" ++ nl ++ rest)%string = Some (append cmd suf, (" () {" ++ nl ++ rest)%string)).
    { unfold name. rewrite <- append_assoc.
      assert (T : forallb is_name_char (list_ascii_of_string (cmd ++ suf)) = true).
      { destruct Hc as [_ Hc]. apply name_chars_app; assumption. }
      change (" () {" ++ nl ++ rest)%string with (String " " ("() {" ++ nl ++ rest))%string.
      rewrite (take_name_app _ " "%char _ T eq_refl).
      destruct Hc as [Hne _]. destruct cmd; [congruence | reflexivity]. }
    rewrite (pbind_some _ _ _ _ _ N1). erewrite pbind_lit' by reflexivity.
    rewrite (pbind_some _ _ _ _ _ (eol_nl rest)). reflexivity.
Qed.

Lemma zheader_sem cmd suf :
  name_ok cmd -> forallb is_name_char (list_ascii_of_string suf) = true -> no_nl suf = true ->
  strip "_cmd_" suf = None ->
  line_semZ cmd (append "_" (append cmd (append suf " () {"))) (Some (SFunc (append "_" (append cmd suf)))).
Proof.
  intros Hc Hsuf Hnl Hs. destruct (zheader_reads cmd suf Hc Hsuf Hnl) as [H1 H2].
  split; [exact H1|]. split; [exact H2|]. apply is_cmd_fn_suffix. exact Hs.
Qed.

Lemma zheader_main_sem cmd :
  name_ok cmd -> line_semZ cmd (append "_" (append cmd " () {")) (Some (SFunc (append "_" cmd))).
Proof.
  intros Hc. pose proof (zheader_sem cmd EmptyString Hc eq_refl eq_refl eq_refl) as H.
  cbn [append] in H. rewrite QuoteRT.append_nil_r in H. exact H.
Qed.

(** #compdef <cmd> *)
Lemma zcompdef_sem cmd :
  name_ok cmd -> line_semZ cmd (append "#compdef " (append cmd EmptyString)) (Some (SRegister [cmd])).
Proof.
  intros [Hne Hc]. pose proof (name_ok_no_nl cmd (conj Hne Hc)) as Hnl. rewrite QuoteRT.append_nil_r.
  split; [|split; [|exact I]].
  - nonl Hnl Hnl.
  - intros rest. change (stmt_of Zsh) with zsh_stmt. unfold zsh_stmt, bz_stmt. rewrite !append_assoc.
    do 9 (rewrite alt_skip by reflexivity).
    rewrite pbind_lit.
    change (cmd ++ nl ++ rest)%string with (cmd ++ String nl_char rest)%string.
    rewrite (pbind_some _ _ _ _ _ (name_read cmd nl_char _ Hne Hc eq_refl)).
    change (String nl_char rest) with (nl ++ rest)%string.
    rewrite (pbind_some _ _ _ _ _ (eol_nl rest)). reflexivity.
Qed.

(** [    compdef _<cmd> <cmd>] *)
Lemma zregister_sem cmd :
  name_ok cmd ->
  line_semZ cmd (append "    compdef _" (append cmd (append " " (append cmd EmptyString))))
            (Some (SRegister [append "_" cmd; cmd])).
Proof.
  intros [Hne Hc]. pose proof (name_ok_no_nl cmd (conj Hne Hc)) as Hnl. rewrite QuoteRT.append_nil_r.
  split; [|split; [|exact I]].
  - nonl Hnl Hnl.
  - intros rest. change (stmt_of Zsh) with zsh_stmt. unfold zsh_stmt, bz_stmt. rewrite !append_assoc.
    do 8 (rewrite alt_skip by reflexivity). apply alt_take.
    change ("    compdef _" ++ cmd ++ " " ++ cmd ++ nl ++ rest)%string
      with ("    compdef " ++ ("_" ++ cmd) ++ String " " (cmd ++ nl ++ rest))%string.
    rewrite pbind_lit.
    assert (H1 : forallb is_name_char (list_ascii_of_string ("_" ++ cmd)%string) = true) by (cbn; exact Hc).
    rewrite (pbind_some _ _ _ _ _ (name_read ("_" ++ cmd)%string " "%char _ ltac:(discriminate) H1 eq_refl)).
    erewrite pbind_lit' by reflexivity.
    change (cmd ++ nl ++ rest)%string with (cmd ++ String nl_char rest)%string.
    rewrite (pbind_some _ _ _ _ _ (name_read cmd nl_char _ Hne Hc eq_refl)).
    change (String nl_char rest) with (nl ++ rest)%string.
    rewrite (pbind_some _ _ _ _ _ (eol_nl rest)). reflexivity.
Qed.

(** [    _<cmd>]: the direct call in the last lines of the script is no data statement *)
Lemma zelse_sem cmd : name_ok cmd -> line_semZ cmd (append "    _" (append cmd EmptyString)) None.
Proof.
  intros [Hne Hc]. pose proof (name_ok_no_nl cmd (conj Hne Hc)) as Hnl. rewrite QuoteRT.append_nil_r.
  split; [|split; [|exact I]].
  - nonl Hnl Hnl.
  - intros rest. change (stmt_of Zsh) with zsh_stmt. unfold zsh_stmt, bz_stmt. rewrite !append_assoc.
    assert (H1 : forallb is_name_char (list_ascii_of_string ("_" ++ cmd)%string) = true) by (cbn; exact Hc).
    do 3 (rewrite alt_skip by reflexivity).
    rewrite alt_skip.
    2:{ change ("    _" ++ cmd ++ nl ++ rest)%string with ("    " ++ ("_" ++ cmd) ++ String nl_char rest)%string.
        rewrite pbind_lit.
        rewrite (pbind_some _ _ _ _ _ (name_read ("_" ++ cmd)%string nl_char _ ltac:(discriminate) H1 eq_refl)).
        reflexivity. }
    rewrite alt_skip.
    2:{ change ("    _" ++ cmd ++ nl ++ rest)%string with ("    _" ++ cmd ++ String nl_char rest)%string.
        rewrite pbind_lit.
        rewrite (pbind_some _ _ _ _ _ (name_read cmd nl_char _ Hne Hc eq_refl)).
        reflexivity. }
    reflexivity.
Qed.

(** [    _<cmd><suffix> "$@"]: the call that ends a wrapper *)
Lemma zcall_sem cmd suf :
  name_ok cmd -> forallb is_name_char (list_ascii_of_string suf) = true -> no_nl suf = true ->
  line_semZ cmd (append "    _" (append cmd (append suf (append " ""$@""" EmptyString))))
            (Some (SCall (append "_" (append cmd suf)))).
Proof.
  intros [Hne Hc] Hsuf Hsnl. pose proof (name_ok_no_nl cmd (conj Hne Hc)) as Hnl. rewrite QuoteRT.append_nil_r.
  assert (Hv : forallb is_name_char (list_ascii_of_string (cmd ++ suf)%string) = true) by (apply name_chars_app; assumption).
  assert (Hvne : (cmd ++ suf)%string <> EmptyString) by (destruct cmd; [congruence | discriminate]).
  split; [|split; [|exact I]].
  - nonl Hnl Hsnl.
  - intros rest. change (stmt_of Zsh) with zsh_stmt. unfold zsh_stmt, bz_stmt. rewrite !append_assoc.
    set (R := ("""$@""" ++ nl ++ rest)%string).
    assert (E4 : ("    _" ++ cmd ++ suf ++ " ""$@""" ++ nl ++ rest)%string
                 = ("    " ++ ("_" ++ cmd ++ suf) ++ String " " R)%string)
      by (unfold R; rewrite !append_assoc; reflexivity).
    assert (E5 : ("    _" ++ cmd ++ suf ++ " ""$@""" ++ nl ++ rest)%string
                 = ("    _" ++ (cmd ++ suf) ++ String " " R)%string)
      by (unfold R; rewrite !append_assoc; reflexivity).
    do 3 (rewrite alt_skip by reflexivity).
    rewrite alt_skip.
    2:{ rewrite E4. rewrite pbind_lit.
        assert (H1 : forallb is_name_char (list_ascii_of_string ("_" ++ cmd ++ suf)%string) = true) by (cbn; exact Hv).
        rewrite (pbind_some _ _ _ _ _ (name_read ("_" ++ cmd ++ suf)%string " "%char _ ltac:(discriminate) H1 eq_refl)).
        reflexivity. }
    apply alt_take. rewrite E5. rewrite pbind_lit.
    rewrite (pbind_some _ _ _ _ _ (name_read (cmd ++ suf)%string " "%char _ Hvne Hv eq_refl)).
    erewrite pbind_lit' by reflexivity. unfold R. cbv beta.
    match goal with |- context [line ?X] =>
      replace (line X) with ("$@""", rest) by (symmetry; apply (line_app "$@""" rest eq_refl))
    end.
    try rewrite append_assoc. reflexivity.
Qed.

(** [    declare state=N] as it comes out of the template *)
Lemma zscalar_sem cmd var n :
  In var scalar_vars ->
  line_semZ cmd (append "    declare " (append var (append "=" (append (sN n) EmptyString)))) (Some (SScalar var n)).
Proof.
  intros Hvar. rewrite QuoteRT.append_nil_r. split; [|split; [|exact I]].
  - cbv [In scalar_vars] in Hvar. destruct Hvar as [<- | [<- | [<- | []]]]; nonl no_nl_sN no_nl_sN.
  - intros rest. pose proof (zsh_scalar_stmt var n rest Hvar) as H. unfold zscalar_line in H.
    rewrite !append_assoc in H. rewrite !append_assoc. exact H.
Qed.

Lemma zhash_sem cmd x : no_nl x = true -> line_semZ cmd (append "# " x) None.
Proof. intros H. split; [exact H|]. split; [|exact I]. intros rest. reflexivity. Qed.

Lemma zclose_sem cmd : line_semZ cmd "}" (Some SEnd).
Proof. split; [reflexivity|]. split; [intros rest; reflexivity | exact I]. Qed.

(** ** units *)
Ltac special_line L :=
  eapply Forall2_cons; [cbn [render assoc String.eqb Ascii.eqb Bool.eqb EmitZsh.env_cmd]; apply L|].

Section Units.
Variable command : string.
Hypothesis Hc : name_ok command.
Let Hnl := name_ok_no_nl _ Hc.

Definition Z_s0 := write_subword_fn_0 ++ seg_nl.
Definition Z_s10 := write_subword_fn_10 ++ write_subword_fn_11.

Lemma Z_s0_scans : unit_scansZ command (envZ command) Z_s0 [SFunc (append "_" (append command "_subword"))].
Proof. unit_tacZ Hnl ltac:(eapply Forall2_cons; [apply (zheader_sem command "_subword" Hc); reflexivity|]). Qed.
Lemma Z_s1_scans :
  unit_scansZ command (envZ command) (sh_nl write_subword_fn_1)
    [SScalar "subword_state" 1; SScalar "char_index" 0; SScalar "matched" 0].
Proof. unit_tacZ Hnl idtac. Qed.
Lemma Z_s2_scans : unit_scansZ command (envZ command) (sh_nl write_subword_fn_2) [].
Proof. unit_tacZ Hnl idtac. Qed.
Lemma Z_s3_scans : unit_scansZ command (envZ command) (sh_nl write_subword_fn_3) [].
Proof. unit_tacZ Hnl idtac. Qed.
Lemma Z_s4_scans : unit_scansZ command (envZ command) (sh_nl write_subword_fn_4) [].
Proof. unit_tacZ Hnl idtac. Qed.
Lemma Z_s5_scans : unit_scansZ command (envZ command) (sh_nl write_subword_fn_5) [].
Proof. unit_tacZ Hnl idtac. Qed.
Lemma Z_s6_scans : unit_scansZ command (envZ command) (sh_nl write_subword_fn_6) [].
Proof. unit_tacZ Hnl idtac. Qed.
Lemma Z_s7_scans : unit_scansZ command (envZ command) (sh_nl write_subword_fn_7) [].
Proof. unit_tacZ Hnl idtac. Qed.
Lemma Z_s8_scans : unit_scansZ command (envZ command) (sh_nl write_subword_fn_8) [].
Proof. unit_tacZ Hnl idtac. Qed.
Lemma Z_s9_scans : unit_scansZ command (envZ command) (sh_nl write_subword_fn_9) [].
Proof. unit_tacZ Hnl idtac. Qed.
Lemma Z_s10_scans : unit_scansZ command (envZ command) (sh_nl Z_s10) [].
Proof. unit_tacZ Hnl idtac. Qed.
Lemma Z_s12_scans : unit_scansZ command (envZ command) (sh_nl write_subword_fn_12) [SEnd].
Proof. unit_tacZ Hnl idtac. Qed.

(** the completion function *)
Definition Z_m0 := write_completion_script_0 ++ seg_nl.
Definition Z_hook := write_compadd_hook_fn_0 ++ seg_nl.
Definition Z_m2 := write_completion_script_2 ++ seg_nl.
Definition Z_m9 := write_completion_script_9 ++ seg_nl.
Definition Z_m10 := write_completion_script_10 ++ seg_nl.
Definition Z_m13 := write_completion_script_13 ++ seg_nl.

Lemma Z_m0_scans : unit_scansZ command (envZ command) Z_m0 [SRegister [command]].
Proof. unit_tacZ Hnl ltac:(special_line (zcompdef_sem command Hc)). Qed.
Lemma Z_hook_scans : unit_scansZ command [] Z_hook [SLits "matches" []; SEnd].
Proof. unit_tacZ Hnl idtac. Qed.
Lemma Z_m2_scans : unit_scansZ command (envZ command) Z_m2 [SFunc (append "_" command)].
Proof. unit_tacZ Hnl ltac:(special_line (zheader_main_sem command Hc)). Qed.

Definition zenv_state (start : N) : list (string * string) := ("starting_state", sN start) :: envZ command.

Lemma Z_m5_scans start :
  unit_scansZ command (zenv_state start) write_completion_script_5 [SScalar "state" start; SScalar "word_index" 2].
Proof.
  unit_tacZ Hnl ltac:(eapply Forall2_cons; [closed_lineZ|];
                      eapply Forall2_cons;
                      [unfold zenv_state; cbn [render assoc String.eqb Ascii.eqb Bool.eqb EmitZsh.env_cmd];
                       apply (zscalar_sem command "state" start); cbv; auto|]).
Qed.
Lemma Z_m6_scans : unit_scansZ command (envZ command) write_completion_script_6 [].
Proof. unit_tacZ Hnl idtac. Qed.
Lemma Z_m7_scans : unit_scansZ command (envZ command) write_completion_script_7 [].
Proof. unit_tacZ Hnl idtac. Qed.
Lemma Z_m8_scans : unit_scansZ command (envZ command) write_completion_script_8 [].
Proof. unit_tacZ Hnl idtac. Qed.
Lemma Z_m9_scans : unit_scansZ command (envZ command) Z_m9 [].
Proof. unit_tacZ Hnl idtac. Qed.
Lemma Z_m10_scans : unit_scansZ command (envZ command) Z_m10 [].
Proof. unit_tacZ Hnl idtac. Qed.
Lemma Z_m13_scans : unit_scansZ command (envZ command) Z_m13 [].
Proof. unit_tacZ Hnl idtac. Qed.
Lemma Z_m14_scans : unit_scansZ command (envZ command) (sh_nl write_completion_script_14) [].
Proof. unit_tacZ Hnl idtac. Qed.
Lemma Z_m15_scans : unit_scansZ command (envZ command) (sh_nl write_completion_script_15) [].
Proof. unit_tacZ Hnl idtac. Qed.
Lemma Z_m16_scans : unit_scansZ command (envZ command) (sh_nl write_completion_script_16) [].
Proof. unit_tacZ Hnl idtac. Qed.
Lemma Z_m17_scans : unit_scansZ command (envZ command) (sh_nl write_completion_script_17) [].
Proof. unit_tacZ Hnl idtac. Qed.
Lemma Z_m18_scans : unit_scansZ command (envZ command) (sh_nl write_completion_script_18) [].
Proof. unit_tacZ Hnl idtac. Qed.
Lemma Z_m19_scans : unit_scansZ command (envZ command) (sh_nl write_completion_script_19) [].
Proof. unit_tacZ Hnl idtac. Qed.
Lemma Z_m20_scans : unit_scansZ command (envZ command) (sh_nl write_completion_script_20) [].
Proof. unit_tacZ Hnl idtac. Qed.
Lemma Z_m21_scans : unit_scansZ command (envZ command) (sh_nl write_completion_script_21) [].
Proof. unit_tacZ Hnl idtac. Qed.
Lemma Z_m22_scans : unit_scansZ command (envZ command) (drop_nl write_completion_script_22) [SEnd].
Proof. unit_tacZ Hnl idtac. Qed.
Lemma Z_m23_scans :
  unit_scansZ command (envZ command) write_completion_script_23 [SRegister [append "_" command; command]].
Proof.
  unit_openZ. erewrite (scan_lines_semG Zsh).
  2:{ unit_linesZ. rest_linesZ Hnl. special_line (zregister_sem command Hc).
      rest_linesZ Hnl. special_line (zelse_sem command Hc). rest_linesZ Hnl. apply Forall2_nil. }
  unit_closeZ.
Qed.
End Units.

(** ** data sections as scanned pieces *)
Lemma zlits_scans cmd p lits : pfx p -> scansZ cmd (Z.write_literals p lits) (zlits_stmts p lits).
Proof. intros Hp. rewrite zwrite_literals_lines. apply reads_scansG, zreads_lits. exact Hp. Qed.
Lemma zmatch_scans cmd p t : pfx p -> scansZ cmd (Z.write_match_transitions p t) (zmatch_stmts p t).
Proof. intros Hp. rewrite zwrite_match_lines. apply reads_scansG, zreads_match. exact Hp. Qed.
Lemma zcompletion_scans cmd p t : pfx p -> scansZ cmd (Z.write_completion_tables p t) (zcompletion_stmts p t).
Proof. intros Hp. rewrite zwrite_completion_lines. apply reads_scansG, zreads_completion. exact Hp. Qed.

(** ** wrapper and shape functions of within-word automata *)
Lemma ztpl_wrapper_header command id :
  fmtln write_subword_wrapper_fn_0 [("command", command); ("id", sN id)]
  = append (append "_" (append command (append (append "_subword_" (sN id)) " () {"))) nl.
Proof. tpl_norm. Qed.
Lemma ztpl_shape_wrapper_header command id :
  fmtln write_subword_shape_wrapper_fn_0 [("command", command); ("id", sN id)]
  = append (append "_" (append command (append (append "_subword_" (sN id)) " () {"))) nl.
Proof. tpl_norm. Qed.
Lemma ztpl_shape_header command sid :
  fmtln write_subword_shape_fn_0 [("command", command); ("shape_id", sN sid)]
  = append (append "_" (append command (append (append "_subword_shape_" (sN sid)) " () {"))) nl.
Proof. tpl_norm. Qed.
Lemma ztpl_wrapper_call command :
  fmtln write_subword_wrapper_fn_1 [("command", command)]
  = append (append "    _" (append command (append "_subword" (append " ""$@""" EmptyString)))) nl.
Proof. tpl_norm. Qed.
Lemma ztpl_shape_call command :
  fmtln write_subword_shape_fn_1 [("command", command)]
  = append (append "    _" (append command (append "_subword" (append " ""$@""" EmptyString)))) nl.
Proof. tpl_norm. Qed.
Lemma ztpl_shape_wrapper_call command sid :
  fmtln write_subword_shape_wrapper_fn_1 [("command", command); ("shape_id", sN sid)]
  = append (append "    _" (append command (append (append "_subword_shape_" (sN sid)) (append " ""$@""" EmptyString)))) nl.
Proof. tpl_norm. Qed.
Lemma ztpl_close_wrapper : fmtln write_subword_wrapper_fn_2 [] = append "}" nl.
Proof. tpl_norm. Qed.
Lemma ztpl_close_shape : fmtln write_subword_shape_fn_2 [] = append "}" nl.
Proof. tpl_norm. Qed.
Lemma ztpl_close_shape_wrapper : fmtln write_subword_shape_wrapper_fn_2 [] = append "}" nl.
Proof. tpl_norm. Qed.

Definition zwrapper_stmts (command : string) (id : N) (t : tables) : list stmt :=
  [SFunc (fn_name command (append "_subword_" (sN id)))]
  ++ zlits_stmts "subword_" (t_literals t) ++ zmatch_stmts "subword_" t ++ zcompletion_stmts "subword_" t
  ++ [SCall (fn_name command "_subword")] ++ [SEnd].

Definition zshape_fn_stmts (command : string) (sid : N) (t : tables) : list stmt :=
  [SFunc (fn_name command (append "_subword_shape_" (sN sid)))]
  ++ zmatch_stmts "subword_" t ++ zcompletion_stmts "subword_" t ++ [SCall (fn_name command "_subword")] ++ [SEnd].

Definition zshape_wrapper_stmts (command : string) (id sid : N) (t : tables) : list stmt :=
  [SFunc (fn_name command (append "_subword_" (sN id)))] ++ zlits_stmts "subword_" (t_literals t)
  ++ [SCall (fn_name command (append "_subword_shape_" (sN sid)))] ++ [SEnd].

Lemma pfx_sub : pfx "subword_". Proof. right. reflexivity. Qed.
Lemma pfx_nil : pfx EmptyString. Proof. left. reflexivity. Qed.

Section Wrappers.
Variable command : string.
Hypothesis Hc : name_ok command.

Lemma zheader_scans suf :
  forallb is_name_char (list_ascii_of_string suf) = true -> no_nl suf = true -> strip "_cmd_" suf = None ->
  scansZ command (append (append "_" (append command (append suf " () {"))) nl) [SFunc (fn_name command suf)].
Proof. intros H1 H2 H3. apply (scansG_line Zsh command _ _ (zheader_sem command suf Hc H1 H2 H3)). Qed.

Lemma zcall_scans suf :
  forallb is_name_char (list_ascii_of_string suf) = true -> no_nl suf = true ->
  scansZ command (append (append "    _" (append command (append suf (append " ""$@""" EmptyString)))) nl)
         [SCall (fn_name command suf)].
Proof. intros H1 H2. apply (scansG_line Zsh command _ _ (zcall_sem command suf Hc H1 H2)). Qed.

Lemma zclose_scans : scansZ command (append "}" nl) [SEnd].
Proof. apply (scansG_line Zsh command _ _ (zclose_sem command)). Qed.

Lemma zblank_scans : scansZ command nl [].
Proof. apply (blank_scansG Zsh zblank). Qed.

Lemma zwrapper_scans id t :
  scansZ command (append (Z.wrapper command id t) nl) (zwrapper_stmts command id t).
Proof.
  destruct (sub_suffix_ok "_subword_" id eq_refl eq_refl) as [S1 S2].
  unfold Z.wrapper, zwrapper_stmts. cbn [sconcat].
  rewrite ztpl_wrapper_header, ztpl_wrapper_call, ztpl_close_wrapper.
  set (A := (("_" ++ command ++ ("_subword_" ++ sN id) ++ " () {") ++ nl)%string).
  set (F := (("    _" ++ command ++ "_subword" ++ " ""$@""" ++ "") ++ nl)%string).
  set (G := ("}" ++ nl)%string).
  rewrite !append_assoc. cbn [append].
  apply scansE_app; [apply (zheader_scans _ S1 S2 eq_refl)|].
  apply scansE_app; [apply zlits_scans, pfx_sub|].
  apply scansE_app; [apply zmatch_scans, pfx_sub|].
  apply scansE_app; [apply zcompletion_scans, pfx_sub|].
  apply scansE_app; [apply (zcall_scans "_subword" eq_refl eq_refl)|].
  rewrite <- (app_nil_r [SEnd]).
  apply scansE_app; [apply zclose_scans | apply zblank_scans].
Qed.

Lemma zshape_fn_scans sid t :
  scansZ command (append (Z.shape_fn command sid t) nl) (zshape_fn_stmts command sid t).
Proof.
  destruct (sub_suffix_ok "_subword_shape_" sid eq_refl eq_refl) as [S1 S2].
  unfold Z.shape_fn, zshape_fn_stmts. cbn [sconcat].
  rewrite ztpl_shape_header, ztpl_shape_call, ztpl_close_shape.
  set (A := (("_" ++ command ++ ("_subword_shape_" ++ sN sid) ++ " () {") ++ nl)%string).
  set (F := (("    _" ++ command ++ "_subword" ++ " ""$@""" ++ "") ++ nl)%string).
  set (G := ("}" ++ nl)%string).
  rewrite !append_assoc. cbn [append].
  apply scansE_app; [apply (zheader_scans _ S1 S2 eq_refl)|].
  apply scansE_app; [apply zmatch_scans, pfx_sub|].
  apply scansE_app; [apply zcompletion_scans, pfx_sub|].
  apply scansE_app; [apply (zcall_scans "_subword" eq_refl eq_refl)|].
  rewrite <- (app_nil_r [SEnd]).
  apply scansE_app; [apply zclose_scans | apply zblank_scans].
Qed.

Lemma zshape_wrapper_scans id sid t :
  scansZ command (append (Z.shape_wrapper command id sid t) nl) (zshape_wrapper_stmts command id sid t).
Proof.
  destruct (sub_suffix_ok "_subword_" id eq_refl eq_refl) as [S1 S2].
  destruct (sub_suffix_ok "_subword_shape_" sid eq_refl eq_refl) as [T1 T2].
  unfold Z.shape_wrapper, zshape_wrapper_stmts. cbn [sconcat].
  rewrite ztpl_shape_wrapper_header, ztpl_shape_wrapper_call, ztpl_close_shape_wrapper.
  set (A := (("_" ++ command ++ ("_subword_" ++ sN id) ++ " () {") ++ nl)%string).
  set (F := (("    _" ++ command ++ ("_subword_shape_" ++ sN sid) ++ " ""$@""" ++ "") ++ nl)%string).
  set (G := ("}" ++ nl)%string).
  rewrite !append_assoc. cbn [append].
  apply scansE_app; [apply (zheader_scans _ S1 S2 eq_refl)|].
  apply scansE_app; [apply zlits_scans, pfx_sub|].
  apply scansE_app; [apply (zcall_scans _ T1 T2)|].
  rewrite <- (app_nil_r [SEnd]).
  apply scansE_app; [apply zclose_scans | apply zblank_scans].
Qed.
End Wrappers.

(** ** the functions of external commands *)
Definition zcmd_fns_stmts (command : string) (ics : list (N * string)) : list stmt :=
  flat_map (fun ic => [SFunc (fn_name command (append "_cmd_" (sN (fst ic)))); SBody (snd ic); SEnd]) ics.

Lemma ztpl_cmd_fn command id body :
  fmt write_completion_script_1 (("id", sN id) :: ("cmd", body) :: envZ command)
  = cmd_fn_textG Zsh (append "_" (append command (append (append "_cmd_" (sN id)) " () {"))) body.
Proof. unfold cmd_fn_textG. tpl_norm. Qed.

Lemma zcmd_fns_scans command (Hc : name_ok command) ics :
  Forall (fun ic => body_okG Zsh (snd ic)) ics ->
  scansZ command
    (sconcat (map (fun ic : N * string => fmt write_completion_script_1 (("id", sN (fst ic)) :: ("cmd", snd ic) :: envZ command)) ics))
    (zcmd_fns_stmts command ics).
Proof.
  induction 1 as [|ic ics Hb _ IH]; [apply scansE_nil|].
  cbn [map sconcat zcmd_fns_stmts flat_map]. rewrite ztpl_cmd_fn.
  apply scansE_app; [|exact IH].
  assert (Hsuf : forallb is_name_char (list_ascii_of_string ("_cmd_" ++ sN (fst ic))%string) = true)
    by (apply (name_chars_app "_cmd_"); [reflexivity | apply name_chars_sN]).
  assert (Hsnl : no_nl ("_cmd_" ++ sN (fst ic))%string = true) by (rewrite no_nl_app, no_nl_sN; reflexivity).
  destruct (zheader_reads command ("_cmd_" ++ sN (fst ic))%string Hc Hsuf Hsnl) as [_ Hrd].
  apply (cmd_fn_scansG Zsh "     " zdeep zblank command); [discriminate | exact Hrd | apply is_cmd_fn_true | exact Hb].
Qed.

(** ** the within-word matcher *)
Definition zsub_fn_stmts (command : string) : list stmt :=
  [SFunc (fn_name command "_subword"); SScalar "subword_state" 1; SScalar "char_index" 0; SScalar "matched" 0; SEnd].

Lemma zsub_fn_text command nc ncp ns :
  write_subword_fn command nc ncp ns
  = (render (envZ command) Z_s0
     ++ render (envZ command) (sh_nl write_subword_fn_1)
     ++ (if ncp then render (envZ command) (sh_nl write_subword_fn_2) else EmptyString)
     ++ (if nc then render (envZ command) (sh_nl write_subword_fn_3) else EmptyString)
     ++ (if ns then render (envZ command) (sh_nl write_subword_fn_4) else EmptyString)
     ++ render (envZ command) (sh_nl write_subword_fn_5)
     ++ render (envZ command) (sh_nl write_subword_fn_6)
     ++ (if ncp then render (envZ command) (sh_nl write_subword_fn_7) else EmptyString)
     ++ render (envZ command) (sh_nl write_subword_fn_8)
     ++ (if nc then render (envZ command) (sh_nl write_subword_fn_9) else EmptyString)
     ++ (if ncp then render (envZ command) (sh_nl Z_s10) else EmptyString)
     ++ render (envZ command) (sh_nl write_subword_fn_12) ++ EmptyString)%string.
Proof.
  unfold write_subword_fn, fmt. cbn [sconcat].
  replace (if ncp then (render (envZ command) write_subword_fn_10 ++ render (envZ command) write_subword_fn_11)%string else EmptyString)
    with (if ncp then render (envZ command) Z_s10 else EmptyString)
    by (unfold Z_s10; rewrite render_app; reflexivity).
  rewrite (shift1 _ write_subword_fn_12) by reflexivity.
  rewrite (shift_if _ Z_s10) by reflexivity.
  rewrite (shift_if _ write_subword_fn_9) by reflexivity.
  rewrite (shift1 _ write_subword_fn_8) by reflexivity.
  rewrite (shift_if _ write_subword_fn_7) by reflexivity.
  rewrite (shift1 _ write_subword_fn_6) by reflexivity.
  rewrite (shift1 _ write_subword_fn_5) by reflexivity.
  rewrite (shift_if _ write_subword_fn_4) by reflexivity.
  rewrite (shift_if _ write_subword_fn_3) by reflexivity.
  rewrite (shift_if _ write_subword_fn_2) by reflexivity.
  rewrite (shift1 _ write_subword_fn_1) by reflexivity.
  rewrite render_snoc_nl. reflexivity.
Qed.

Ltac unitZ1 L := refine (unit_scansG Zsh _ _ _ _ _ L); vm_compute; reflexivity.
Ltac unitZ L command Hc := first [unitZ1 (L command Hc) | unitZ1 (L command)].

Lemma zsub_fn_scans command (Hc : name_ok command) nc ncp ns :
  scansZ command (write_subword_fn command nc ncp ns) (zsub_fn_stmts command).
Proof.
  rewrite zsub_fn_text.
  replace (zsub_fn_stmts command)
    with ([SFunc (fn_name command "_subword")] ++ [SScalar "subword_state" 1; SScalar "char_index" 0; SScalar "matched" 0]
          ++ (if ncp then [] else []) ++ (if nc then [] else []) ++ (if ns then [] else []) ++ [] ++ []
          ++ (if ncp then [] else []) ++ [] ++ (if nc then [] else []) ++ (if ncp then [] else []) ++ [SEnd] ++ [])
    by (destruct nc, ncp, ns; reflexivity).
  apply scansE_app; [unitZ Z_s0_scans command Hc|].
  apply scansE_app; [unitZ Z_s1_scans command Hc|].
  apply scansE_app; [apply scansE_if; unitZ Z_s2_scans command Hc|].
  apply scansE_app; [apply scansE_if; unitZ Z_s3_scans command Hc|].
  apply scansE_app; [apply scansE_if; unitZ Z_s4_scans command Hc|].
  apply scansE_app; [unitZ Z_s5_scans command Hc|].
  apply scansE_app; [unitZ Z_s6_scans command Hc|].
  apply scansE_app; [apply scansE_if; unitZ Z_s7_scans command Hc|].
  apply scansE_app; [unitZ Z_s8_scans command Hc|].
  apply scansE_app; [apply scansE_if; unitZ Z_s9_scans command Hc|].
  apply scansE_app; [apply scansE_if; unitZ Z_s10_scans command Hc|].
  apply scansE_app; [unitZ Z_s12_scans command Hc | apply scansE_nil].
Qed.

(** ** the whole script *)
Definition zgroup_stmts (command : string) : alltables -> N -> list N -> res (list stmt) :=
  group_stmtsG (zwrapper_stmts command) (zshape_fn_stmts command) (zshape_wrapper_stmts command).

Definition zsubtrans_stmts (rows : list (N * list (N * N))) : list stmt :=
  SAssoc "subword_transitions" [] :: row_stmts "subword_transitions" (zoff_rows rows).

Definition zscript_stmts (command : string) (start : N) (nd : needs) (a : alltables) (groups : list (list N))
  : res (list stmt) :=
  let main := a_main a in
  do gs <- (if n_subwords nd then
              do l <- omap (fun ig : N * list N => zgroup_stmts command a (fst ig) (snd ig)) (number_from 0 groups);
              Ok (List.concat l)
            else Ok []);
  do rows <- (if n_subwords nd then resolve_rows a else Ok []);
  Ok ([SRegister [command]] ++ zcmd_fns_stmts command (number_from 0 (a_commands a)) ++ gs
      ++ (if n_top_compadd nd || n_sub_compadd nd then [SLits "matches" []; SEnd] else [])
      ++ (if n_subwords nd then zsub_fn_stmts command else [])
      ++ [SFunc (append "_" command)] ++ zlits_stmts EmptyString (t_literals main) ++ zmatch_stmts EmptyString main
      ++ (if n_subwords nd then zsubtrans_stmts rows else [])
      ++ [SScalar "state" (start + Z.st); SScalar "word_index" 2]
      ++ zcompletion_stmts EmptyString main
      ++ (if n_subwords nd then zlevel_stmts "subword_transitions_level_" (a_csub a) else [])
      ++ [SEnd] ++ [SRegister [append "_" command; command]]).

Lemma fmtln_unit t env : fmtln t env = render env (t ++ seg_nl).
Proof. unfold fmtln. rewrite render_app. cbn [render seg_nl]. rewrite QuoteRT.append_nil_r. reflexivity. Qed.

Lemma zsubrows_scans cmd rows :
  scansZ cmd
    (append (fmtln write_completion_script_3 [])
            (sconcat (map (fun row : N * list (N * N) =>
                             fmtln write_completion_script_4
                               [("0", sN (fst row + Z.st)); ("state_transitions", join " " (map Z.zkv (snd row)))]) rows)))
    (zsubtrans_stmts rows).
Proof.
  rewrite ztpl_subdecl.
  replace (sconcat (map (fun row : N * list (N * N) =>
                           fmtln write_completion_script_4
                             [("0", sN (fst row + Z.st)); ("state_transitions", join " " (map Z.zkv (snd row)))]) rows))
    with (sconcat (row_lines "subword_transitions" (zoff_rows rows))).
  - change (zdecl_line "subword_transitions" ++ sconcat (row_lines "subword_transitions" (zoff_rows rows)))%string
      with (sconcat (zdecl_line "subword_transitions" :: row_lines "subword_transitions" (zoff_rows rows))).
    apply reads_scansG. constructor; [apply zreads_decl; cbv; auto 12 | apply zreads_rows; cbv; auto 12].
  - unfold row_lines, zoff_rows. rewrite map_map. apply sconcat_map_fmtln. intros [s row].
    rewrite ztpl_subrow. unfold row_line, zoff_row. cbn [fst snd]. rewrite map_map. reflexivity.
Qed.

Lemma zsublevels_scans cmd (ls : list (list (N * list N))) :
  scansZ cmd
    (sconcat (map (fun kl : N * list (N * list N) =>
                     fmtln write_completion_script_12
                       [("level", sN (fst kl));
                        ("initializer",
                         join " " (map (fun r : N * list N => fmt write_completion_script_11
                                                   [("from_state_zsh", sN (fst r + Z.st)); ("0", join " " (map sN (snd r)))])
                                       (snd kl)))])
                  (number_from 0 ls)))
    (zlevel_stmts "subword_transitions_level_" ls).
Proof.
  replace (sconcat _) with (sconcat (zlevel_lines "subword_transitions_level_" ls)).
  - apply reads_scansG. apply zreads_levels. cbv; auto 12.
  - unfold zlevel_lines. apply sconcat_map_fmtln. intros [k rows]. cbn [fst snd].
    rewrite ztpl_sublevel. unfold zlevel_line, zoff_level. rewrite map_map.
    assert (E : map (fun r : N * list N => fmt write_completion_script_11
                                             [("from_state_zsh", sN (fst r + Z.st)); ("0", join " " (map sN (snd r)))]) rows
                = map (fun x : N * list N => kcell (fst x + Z.st, snd x)) rows)
      by (apply map_ext; intros r; rewrite ztpl_subcell; reflexivity).
    rewrite E. reflexivity.
Qed.

Lemma zsig_scans cmd sig : no_nl sig = true -> scansZ cmd (append "# " (append sig EmitBash.nl)) [].
Proof.
  intros H. rewrite <- append_assoc. apply (scansG_line Zsh cmd (append "# " sig) None). apply zhash_sem. exact H.
Qed.

Theorem zsh_script_read command sig start nd a groups s :
  name_ok command -> no_nl sig = true ->
  Forall (fun c => body_okG Zsh c) (a_commands a) ->
  EmitZsh.script command sig start nd a groups = Ok s ->
  exists sts, zscript_stmts command start nd a groups = Ok sts /\ read_stmts Zsh command s = sts.
Proof.
  intros Hc Hsig Hbodies H. unfold EmitZsh.script in H.
  apply obind_ok' in H. destruct H as [groups_part [Hgroups H]].
  apply obind_ok' in H. destruct H as [rows [Hrows H]].
  assert (G : exists gs, (if n_subwords nd then
                            do l <- omap (fun ig : N * list N => zgroup_stmts command a (fst ig) (snd ig)) (number_from 0 groups);
                            Ok (List.concat l)
                          else Ok []) = Ok gs /\ scansZ command groups_part gs).
  { destruct (n_subwords nd).
    - apply obind_ok' in Hgroups. destruct Hgroups as [texts [Ht Hs]].
      destruct (groups_scansG Zsh command _ _ _ _ _ _ (fun _ => True)
                  (fun id t _ => zwrapper_scans command Hc id t) (zshape_fn_scans command Hc)
                  (fun id sid t _ => zshape_wrapper_scans command Hc id sid t) a _ _ (fun _ _ _ => I) Ht)
        as [stss [Hss Hn]].
      unfold zgroup_stmts. rewrite Hss. cbn [obind]. eexists. split; [reflexivity|].
      assert (E : sconcat texts = groups_part) by congruence. rewrite <- E. exact Hn.
    - assert (E : EmptyString = groups_part) by congruence. rewrite <- E.
      exists []. split; [reflexivity | apply scansE_nil]. }
  destruct G as [gs [Hgs Hgn]].
  unfold zscript_stmts. rewrite Hgs. cbn [obind]. rewrite Hrows. cbn [obind]. eexists. split; [reflexivity|].
  match type of H with Ok ?X = Ok _ => assert (E : X = s) by congruence end.
  rewrite <- E. clear E H Hgroups Hgs.
  apply scansE_read.
  cbn [sconcat]. unfold fmt. rewrite !fmtln_unit.
  (* the newline of every template that starts with one moves to the piece in front of it *)
  rewrite (render_starts_nl (envZ command) write_completion_script_22) by reflexivity.
  rewrite (append_assoc nl).
  rewrite (shift_if2 _ write_completion_script_20 write_completion_script_21) by reflexivity.
  rewrite (shift1 _ write_completion_script_19) by reflexivity.
  rewrite (shift_if _ write_completion_script_18) by reflexivity.
  rewrite (shift_if _ write_completion_script_17) by reflexivity.
  rewrite (shift_if _ write_completion_script_16) by reflexivity.
  rewrite (shift1 _ write_completion_script_15) by reflexivity.
  rewrite (shift_if _ write_completion_script_14) by reflexivity.
  rewrite (render_snoc_nl _ write_completion_script_13).
  rewrite (QuoteRT.append_nil_r (render (envZ command) write_completion_script_23)).
  apply scansE_app; [unitZ Z_m0_scans command Hc|].
  apply scansE_app0; [apply (zsig_scans command sig Hsig)|].
  apply scansE_app0; [apply (zblank_scans command)|].
  apply scansE_app.
  { apply (zcmd_fns_scans command Hc). clear -Hbodies. revert Hbodies. generalize 0. generalize (a_commands a).
    induction l as [|c l IH]; intros n0 Hb; cbn [number_from]; constructor; inversion Hb; subst; [assumption | apply IH; assumption]. }
  apply scansE_app; [exact Hgn|].
  apply scansE_app; [apply scansE_if; unitZ1 (Z_hook_scans command)|].
  apply scansE_app; [apply scansE_if; apply (zsub_fn_scans command Hc)|].
  apply scansE_app; [unitZ Z_m2_scans command Hc|].
  apply scansE_app; [apply zlits_scans, pfx_nil|].
  apply scansE_app; [apply zmatch_scans, pfx_nil|].
  apply scansE_app; [apply scansE_if; apply zsubrows_scans|].
  apply scansE_app; [unitZ1 (Z_m5_scans command (start + Z.st))|].
  apply scansE_app0; [apply scansE_if0; unitZ Z_m6_scans command Hc|].
  apply scansE_app0; [apply scansE_if0; unitZ Z_m7_scans command Hc|].
  apply scansE_app0; [apply scansE_if0; unitZ Z_m8_scans command Hc|].
  apply scansE_app0; [apply scansE_if0; unitZ Z_m9_scans command Hc|].
  apply scansE_app0; [unitZ Z_m10_scans command Hc|].
  apply scansE_app; [apply zcompletion_scans, pfx_nil|].
  apply scansE_app; [apply scansE_if; apply zsublevels_scans|].
  apply scansE_app0; [unitZ Z_m13_scans command Hc|].
  apply scansE_app0; [apply scansE_if0; unitZ Z_m14_scans command Hc|].
  apply scansE_app0; [unitZ Z_m15_scans command Hc|].
  apply scansE_app0; [apply scansE_if0; unitZ Z_m16_scans command Hc|].
  apply scansE_app0; [apply scansE_if0; unitZ Z_m17_scans command Hc|].
  apply scansE_app0; [apply scansE_if0; unitZ Z_m18_scans command Hc|].
  apply scansE_app0; [unitZ Z_m19_scans command Hc|].
  apply scansE_app0; [destruct (n_top_compadd nd); [unitZ Z_m20_scans command Hc | unitZ Z_m21_scans command Hc]|].
  apply scansE_app; [unitZ Z_m22_scans command Hc|].
  unitZ Z_m23_scans command Hc.
Qed.

(** ** C07 on the whole script: the literal list and every description of the completion function read
    back to the texts of the tables *)
Lemma zsh_script_constants command sig start nd a groups s :
  name_ok command -> no_nl sig = true ->
  Forall (fun c => body_okG Zsh c) (a_commands a) ->
  EmitZsh.script command sig start nd a groups = Ok s ->
  In (SLits "literals" (map (fun l : N * string * string => snd (fst l)) (t_literals (a_main a)))) (read_stmts Zsh command s)
  /\ forall k d, In (k, d) (number_from 0 (descr_set (t_literals (a_main a)))) ->
                 In (SStr "descriptions" k d) (read_stmts Zsh command s).
Proof.
  intros Hc Hsig Hb H. destruct (zsh_script_read _ _ _ _ _ _ _ Hc Hsig Hb H) as [sts [Hs ->]].
  unfold zscript_stmts in Hs.
  apply obind_ok' in Hs. destruct Hs as [gs [_ Hs]]. apply obind_ok' in Hs. destruct Hs as [rows [_ Hs]].
  assert (E : forall X Y, Ok X = Ok Y :> res (list stmt) -> X = Y) by (intros X Y HH; congruence).
  apply E in Hs. subst sts. clear E.
  assert (Hin : forall x, In x (zlits_stmts EmptyString (t_literals (a_main a))) -> In x
            ([SRegister [command]] ++ zcmd_fns_stmts command (number_from 0 (a_commands a)) ++ gs ++
             (if n_top_compadd nd || n_sub_compadd nd then [SLits "matches" []; SEnd] else []) ++
             (if n_subwords nd then zsub_fn_stmts command else []) ++
             [SFunc ("_" ++ command)%string] ++ zlits_stmts EmptyString (t_literals (a_main a)) ++
             zmatch_stmts EmptyString (a_main a) ++ (if n_subwords nd then zsubtrans_stmts rows else []) ++
             [SScalar "state" (start + Z.st); SScalar "word_index" 2] ++ zcompletion_stmts EmptyString (a_main a) ++
             (if n_subwords nd then zlevel_stmts "subword_transitions_level_" (a_csub a) else []) ++
             [SEnd] ++ [SRegister [("_" ++ command)%string; command]])).
  { intros x Hx. do 6 (apply in_or_app; right). apply in_or_app. left. exact Hx. }
  split.
  - apply Hin. left. reflexivity.
  - intros k d Hkd. apply Hin. right. right. apply in_or_app. left.
    apply (in_map (fun id : N * string => SStr "descriptions" (fst id) (snd id)) _ (k, d) Hkd).
Qed.
