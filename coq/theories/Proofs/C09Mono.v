(** C09, second half, at the level of the specification: every candidate the [|] variant of a grammar offers is
    also offered by the [||] grammar unless a candidate of a strictly earlier level extends the typed prefix.

    [undercut e en ws p] lists (executably) the candidates of [e] that an earlier level undercuts, on the two tiers
    of [Spec.Meaning]: among the items expected as whole words ([state_cands], the levels of the [||] branches) and,
    inside a within-word expression, among its continuations ([wcands], the levels of the pieces). *)
From CG Require Import Base.Prelude Model.Ast Model.Check Spec.Rx Spec.Meaning Spec.Undercut
     Proofs.RxFacts Proofs.MeaningFacts Proofs.MeaningLevels.

(** *** lowest *)
Lemma has_lower_false l cs : has_lower l cs = false -> forall l' c', In (l', c') cs -> l <= l'.
Proof.
  intros H l' c' Hin. destruct (N.ltb l' l) eqn:E; [|apply N.ltb_ge in E; exact E].
  assert (has_lower l cs = true) as K.
  { unfold has_lower. apply existsb_exists. exists (l', c'). split; [exact Hin|exact E]. }
  congruence.
Qed.

Lemma has_lower_true l cs : has_lower l cs = true -> exists l' c', In (l', c') cs /\ l' < l.
Proof.
  unfold has_lower. intros H. apply existsb_exists in H as [[l' c'] [Hin E]]. cbn [fst] in E.
  apply N.ltb_lt in E. now exists l', c'.
Qed.

Lemma lowest_or_lower cs l c : In (l, c) cs -> In c (lowest cs) \/ has_lower l cs = true.
Proof.
  intros Hin. destruct (has_lower l cs) eqn:E; [now right|left].
  apply (lowest_offers cs l c Hin). now apply has_lower_false.
Qed.

(** *** candidate texts do not depend on levels and descriptions *)
Definition item_raw (en : env) (a : leaf) (p : string) : list string :=
  match a with
  | LLit t _ _ => if String.prefix p (append t " ") then [append t " "] else []
  | LCmd c _ => filter (String.prefix p) (candidates en c)
  | LAny => []
  | LSub x _ => filter (fun o => negb (String.eqb o p)) (map snd (wcands en x p))
  end.

Lemma map_snd_filter {A B} (f : B -> bool) (l : list (A * B)) :
  map snd (filter (fun c => f (snd c)) l) = filter f (map snd l).
Proof. induction l as [|x l IH]; [reflexivity|]. cbn. destruct (f (snd x)); cbn; now rewrite IH. Qed.

Lemma wcands_erase en x p : map snd (wcands en (rmap erase_w x) p) = map snd (wcands en x p).
Proof.
  unfold wcands, wsplits_of. rewrite wsplits_erase, flat_map_map, !map_flat_map.
  apply flat_map_ext'. intros [[e' d] r]. unfold erase_split. cbn [fst snd].
  rewrite rmap_lf, flat_map_map, !map_flat_map.
  apply flat_map_ext'. intros [a k]. cbn [fst snd].
  destruct a as [t dd lv|c lv|]; cbn [erase_w]; [|rewrite !map_map; reflexivity|reflexivity].
  destruct (String.prefix r t); reflexivity.
Qed.

Lemma item_raw_erase en a p : item_raw en (erase_l a) p = item_raw en a p.
Proof. destruct a; cbn [erase_l item_raw]; try reflexivity. now rewrite wcands_erase. Qed.

Lemma proper_wcands_raw en x p l c :
  In (l, c) (proper_wcands en x p) -> In c (filter (fun o => negb (String.eqb o p)) (map snd (wcands en x p))).
Proof.
  unfold proper_wcands. intros H. rewrite <- (map_snd_filter (fun o => negb (String.eqb o p))).
  apply in_map_iff. exists (l, c). split; [reflexivity|exact H].
Qed.

Lemma raw_proper_wcands en x p c :
  In c (filter (fun o => negb (String.eqb o p)) (map snd (wcands en x p))) -> exists l, In (l, c) (proper_wcands en x p).
Proof.
  rewrite <- (map_snd_filter (fun o => negb (String.eqb o p))). intros H.
  apply in_map_iff in H as ([l c'] & E & H). cbn [snd] in E. subst c'. now exists l.
Qed.

Lemma item_cands_raw en a p l c : In (l, c) (item_cands en a p) -> In c (item_raw en a p).
Proof.
  destruct a as [t d lv|cm lv| |x lv]; cbn [item_cands item_raw]; intros H.
  - destruct (String.prefix p (append t " ")); [|destruct H]. destruct H as [H|[]]. injection H as _ <-. now left.
  - apply in_map_iff in H as (o & E & Ho). now injection E as _ <-.
  - destruct H.
  - apply in_map_iff in H as (o & E & Ho). injection E as _ <-.
    apply wproper_incl in Ho as (l0 & Ho & Hne). apply filter_In. split.
    + apply in_map_iff. exists (l0, o). split; [reflexivity|exact Ho].
    + apply negb_true_iff. now apply String.eqb_neq.
Qed.

(** *** the candidates of an item: offered, or undercut *)
Lemma raw_offered_or_undercut en s p a k c0 :
  In (a, k) (moves s) -> In c0 (item_raw en a p) ->
  In c0 (lowest (state_cands en s p)) \/ In c0 (undercut_item en s p a).
Proof.
  intros Hmv Hraw.
  assert (Top : forall l, In (l, c0) (item_cands en a p) ->
                          In c0 (lowest (state_cands en s p)) \/ has_lower l (state_cands en s p) = true).
  { intros l Hl. apply lowest_or_lower. unfold state_cands. apply in_flat_map. exists (a, k). split; [exact Hmv|exact Hl]. }
  destruct a as [t d lv|cm lv| |x lv]; cbn [item_raw] in Hraw.
  - destruct (String.prefix p (append t " ")) eqn:E; [|destruct Hraw]. destruct Hraw as [<-|[]].
    assert (Hl : In (lv, append t " ") (item_cands en (LLit t d lv) p)) by (cbn [item_cands]; rewrite E; now left).
    destruct (Top lv Hl) as [H|H]; [now left|right].
    unfold undercut_item. apply in_map_iff. exists (lv, append t " "). split; [reflexivity|].
    apply filter_In. split; [exact Hl|exact H].
  - assert (Hl : In (lv, c0) (item_cands en (LCmd cm lv) p)).
    { cbn [item_cands]. apply in_map_iff. exists c0. split; [reflexivity|exact Hraw]. }
    destruct (Top lv Hl) as [H|H]; [now left|right].
    unfold undercut_item. apply in_map_iff. exists (lv, c0). split; [reflexivity|].
    apply filter_In. split; [exact Hl|exact H].
  - destruct Hraw.
  - destruct (raw_proper_wcands en x p c0 Hraw) as [lw Hw].
    destruct (lowest_or_lower _ lw c0 Hw) as [Hlow|Hlow].
    + assert (Hl : In (lv, c0) (item_cands en (LSub x lv) p)).
      { cbn [item_cands]. apply in_map_iff. exists c0. split; [reflexivity|exact Hlow]. }
      destruct (Top lv Hl) as [H|H]; [now left|right].
      unfold undercut_item. apply in_map_iff. exists (lw, c0). split; [reflexivity|].
      apply filter_In. split; [exact Hw|]. cbn [fst]. rewrite H. apply orb_true_r.
    + right. unfold undercut_item. apply in_map_iff. exists (lw, c0). split; [reflexivity|].
      apply filter_In. split; [exact Hw|]. cbn [fst]. now rewrite Hlow.
Qed.

Section Bar.
  Variables (en : env) (e : expr) (ws : list string) (p : string).
  Let s := run en (start (propagate e 0)) ws.
  Let s' := run en (start (propagate (bar_of_barbar e) 0)) ws.

  Lemma bar_item a' : In a' (map fst (moves s')) -> exists a, In a (map fst (moves s)) /\ erase_l a = erase_l a'.
  Proof.
    intros H. apply (expected_bar_of_barbar en e ws (erase_l a')). exists a'. split; [exact H|reflexivity].
  Qed.

  Lemma item_bar a : In a (map fst (moves s)) -> exists a', In a' (map fst (moves s')) /\ erase_l a' = erase_l a.
  Proof.
    intros H. apply (expected_bar_of_barbar en e ws (erase_l a)). exists a. split; [exact H|reflexivity].
  Qed.

  Theorem bar_raw_monotone c0 :
    In c0 (lowest (state_cands en s' p)) ->
    In c0 (lowest (state_cands en s p)) \/ In c0 (flat_map (undercut_item en s p) (map fst (moves s))).
  Proof.
    intros H. apply lowest_incl in H. apply in_map_iff in H as ([l0 c1] & E & H). cbn [snd] in E. subst c1.
    unfold state_cands in H. apply in_flat_map in H as ([a' k'] & Hmv' & Hc). cbn [fst] in Hc.
    apply item_cands_raw in Hc.
    destruct (bar_item a') as (a & Ha & Ee).
    { apply in_map_iff. exists (a', k'). split; [reflexivity|exact Hmv']. }
    assert (Hraw : In c0 (item_raw en a p)).
    { rewrite <- item_raw_erase, Ee, item_raw_erase. exact Hc. }
    pose proof Ha as Ha0. apply in_map_iff in Ha as ([a1 k] & E1 & Hmv). cbn [fst] in E1. subst a1.
    destruct (raw_offered_or_undercut en s p a k c0 Hmv Hraw) as [Hl|Hu]; [now left|right].
    apply in_flat_map. exists a. split; [exact Ha0|exact Hu].
  Qed.

  (** the typed word itself (a value or piece typed in full) is allowed in both or in neither *)
  Definition ident_item (a : leaf) : bool := match a with LSub x _ => widentical en x p | _ => false end.

  Lemma ident_item_erase a : ident_item (erase_l a) = ident_item a.
  Proof.
    destruct a; cbn [erase_l ident_item]; try reflexivity.
    unfold widentical.
    rewrite <- (existsb_map (fun o => String.eqb o p) snd (wcands en (rmap erase_w w) p)).
    rewrite <- (existsb_map (fun o => String.eqb o p) snd (wcands en w p)).
    now rewrite wcands_erase.
  Qed.

  Lemma state_identical_items st : state_identical en st p = existsb ident_item (map fst (moves st)).
  Proof. unfold state_identical. rewrite existsb_map. reflexivity. Qed.

  Lemma state_identical_bar : state_identical en s' p = state_identical en s p.
  Proof.
    rewrite !state_identical_items.
    destruct (existsb ident_item (map fst (moves s'))) eqn:E1; destruct (existsb ident_item (map fst (moves s))) eqn:E2;
      try reflexivity; exfalso.
    - apply existsb_exists in E1 as (a' & Ha' & Hi). destruct (bar_item a' Ha') as (a & Ha & Ee).
      assert (existsb ident_item (map fst (moves s)) = true) as K.
      { apply existsb_exists. exists a. split; [exact Ha|]. now rewrite <- ident_item_erase, Ee, ident_item_erase. }
      congruence.
    - apply existsb_exists in E2 as (a & Ha & Hi). destruct (item_bar a Ha) as (a' & Ha' & Ee).
      assert (existsb ident_item (map fst (moves s')) = true) as K.
      { apply existsb_exists. exists a'. split; [exact Ha'|]. now rewrite <- ident_item_erase, Ee, ident_item_erase. }
      congruence.
  Qed.

  Theorem complete_bar_monotone :
    match complete (propagate (bar_of_barbar e) 0) en ws p, complete (propagate e 0) en ws p with
    | None, None => True
    | Some (req', al'), Some (req, al) =>
      (forall c, In c req' -> In c req \/ In c (undercut (propagate e 0) en ws p))
      /\ (forall c, In c al' -> In c al \/ In c (undercut (propagate e 0) en ws p))
    | _, _ => False
    end.
  Proof.
    pose proof (matched_bar_of_barbar en e ws) as Hm. unfold matched in Hm.
    unfold complete, undercut. fold s s' in Hm |- *.
    destruct s' as [|k0' r0'] eqn:Es'; destruct s as [|k0 r0] eqn:Es; try discriminate; [exact I|].
    rewrite <- Es, <- Es'.
    assert (Req : forall c, In c (map (strip (e_wordbreaks en) p) (lowest (state_cands en s' p))) ->
                            In c (map (strip (e_wordbreaks en) p) (lowest (state_cands en s p)))
                            \/ In c (map (strip (e_wordbreaks en) p) (flat_map (undercut_item en s p) (map fst (moves s))))).
    { intros c Hc. apply in_map_iff in Hc as (c0 & <- & Hc0).
      destruct (bar_raw_monotone c0 Hc0) as [H|H]; [left|right]; now apply in_map. }
    split; [exact Req|].
    intros c Hc. rewrite map_app in Hc. apply in_app_or in Hc as [Hc|Hc].
    - destruct (Req c Hc) as [H|H]; [left|now right]. rewrite map_app. apply in_or_app. now left.
    - left. rewrite map_app. apply in_or_app. right. rewrite <- state_identical_bar. exact Hc.
  Qed.

  Theorem complete_bar_none :
    complete (propagate (bar_of_barbar e) 0) en ws p = None <-> complete (propagate e 0) en ws p = None.
  Proof.
    pose proof complete_bar_monotone as H.
    destruct (complete (propagate (bar_of_barbar e) 0) en ws p) as [[r' a']|];
      destruct (complete (propagate e 0) en ws p) as [[r a]|]; try contradiction; split; intros; try discriminate; reflexivity.
  Qed.
End Bar.

(** *** what membership in [undercut] means: a candidate of a strictly earlier level extends the typed word *)
Theorem undercut_meaning e en ws p c :
  In c (undercut e en ws p) ->
  let s := run en (start e) ws in
  exists a c0,
    In a (map fst (moves s)) /\ c = strip (e_wordbreaks en) p c0 /\ In c0 (item_raw en a p) /\
    ((exists l l' c', In (l, c0) (item_cands en a p) /\ In (l', c') (state_cands en s p) /\ l' < l
                      /\ String.prefix p c' = true)
     \/ (exists x l l' c', a = LSub x l /\ In (l', c') (state_cands en s p) /\ l' < l /\ String.prefix p c' = true)
     \/ (exists x l lw lw' c', a = LSub x l /\ In (lw, c0) (proper_wcands en x p) /\ In (lw', c') (proper_wcands en x p)
                               /\ lw' < lw /\ String.prefix p c' = true)).
Proof.
  intros H s. unfold undercut in H. fold s in H.
  apply in_map_iff in H as (c0 & <- & H). apply in_flat_map in H as (a & Ha & Hu).
  exists a, c0. split; [exact Ha|split; [reflexivity|]].
  destruct a as [t d lv|cm lv| |x lv]; unfold undercut_item in Hu.
  - apply in_map_iff in Hu as ([l c1] & E & Hf). cbn [snd] in E. subst c1.
    apply filter_In in Hf as [Hc Hl]. cbn [fst] in Hl. apply has_lower_true in Hl as (l' & c' & Hin & Hlt).
    split; [eapply item_cands_raw; eauto|]. left. exists l, l', c'. repeat split; try assumption.
    eapply state_cands_prefix; eauto.
  - apply in_map_iff in Hu as ([l c1] & E & Hf). cbn [snd] in E. subst c1.
    apply filter_In in Hf as [Hc Hl]. cbn [fst] in Hl. apply has_lower_true in Hl as (l' & c' & Hin & Hlt).
    split; [eapply item_cands_raw; eauto|]. left. exists l, l', c'. repeat split; try assumption.
    eapply state_cands_prefix; eauto.
  - apply in_map_iff in Hu as ([l c1] & E & Hf). apply filter_In in Hf as [[] _].
  - apply in_map_iff in Hu as ([lw c1] & E & Hf). cbn [snd] in E. subst c1.
    apply filter_In in Hf as [Hw Hl]. cbn [fst] in Hl.
    split; [cbn [item_raw]; eapply proper_wcands_raw; eauto|].
    apply orb_true_iff in Hl as [Hl|Hl].
    + right. right. apply has_lower_true in Hl as (lw' & c' & Hin & Hlt).
      exists x, lv, lw, lw', c'. repeat split; try assumption.
      unfold proper_wcands in Hin. apply filter_In in Hin as [Hin _]. eapply wcands_prefix; eauto.
    + right. left. apply has_lower_true in Hl as (l' & c' & Hin & Hlt).
      exists x, lv, l', c'. repeat split; try assumption. eapply state_cands_prefix; eauto.
Qed.
