(** Glushkov facts behind the "unbounded item must be last" check: in the tables of a builder
    tree every position is accessible from [firstpos]; a position outside [lastpos] has a
    follower; and "no marked position has a follower inside the tree" is a syntactic property. *)
From CG Require Import Base.Prelude Model.Ast Model.Regex Proofs.RxLang Proofs.Glushkov Proofs.Useful.

(** * From [firstpos] a chain leads to every position *)
Definition reached (t : rx) (p : N) : Prop :=
  exists a r, In a (firstpos t) /\ chain (followpos t) a r /\ last r a = p.

Definition reached_goal (t : rx) : Prop :=
  shape t -> ors_nonempty t = true -> forall p, In p (positions t) -> reached t p.

Lemma reached_cat cs :
  Forall reached_goal cs -> Forall shape cs -> pairwise_disjoint (map positions cs) ->
  forallb ors_nonempty cs = true ->
  forall p, In p (positions (XCat cs)) -> reached (XCat cs) p.
Proof.
  intros IH. induction IH as [|c cs Hc _ IHcs]; intros Hs Hd Ho p Hp.
  - simpl in Hp. contradiction.
  - inversion Hs as [|? ? Hsc Hscs]; subst. simpl in Hd. destruct Hd as [Hd1 Hd2].
    cbn [forallb] in Ho. apply andb_true_iff in Ho. destruct Ho as [Ho1 Ho2].
    rewrite positions_cat_cons in Hp. apply in_app_iff in Hp. destruct Hp as [Hp|Hp].
    + destruct (Hc Hsc Ho1 p Hp) as (a & r & Ha & C & Hl). exists a, r. split; [|split; [|exact Hl]].
      * apply firstpos_cat_cons. auto.
      * eapply chain_mono; [|exact C]. intros x y H. apply followpos_cat_cons. auto.
    + destruct (IHcs Hscs Hd2 Ho2 p Hp) as (a & r & Ha & C & Hl).
      assert (C' : chain (followpos (XCat (c :: cs))) a r).
      { eapply chain_mono; [|exact C]. intros x y H. apply followpos_cat_cons. auto. }
      destruct (nullable c) eqn:Hn.
      * exists a, r. split; [apply firstpos_cat_cons; auto|]. split; [exact C'|exact Hl].
      * destruct (lastpos_nonempty c Hsc Ho1 Hn) as [b Hb].
        destruct (Hc Hsc Ho1 b (last_pos _ _ Hb)) as (a0 & r0 & Ha0 & C0 & Hl0).
        exists a0, (r0 ++ a :: r). split; [apply firstpos_cat_cons; auto|]. split.
        -- apply chain_app; [|rewrite Hl0|exact C'].
           ++ eapply chain_mono; [|exact C0]. intros x y H. apply followpos_cat_cons. auto.
           ++ apply followpos_cat_cons. right. right. apply in_pprod. auto.
        -- rewrite last_app_cons. exact Hl.
Qed.

Lemma reached_or cs :
  Forall reached_goal cs -> Forall shape cs -> forallb ors_nonempty cs = true ->
  forall p, In p (positions (XOr cs)) -> reached (XOr cs) p.
Proof.
  intros IH. induction IH as [|c cs Hc _ IHcs]; intros Hs Ho p Hp.
  - simpl in Hp. contradiction.
  - inversion Hs as [|? ? Hsc Hscs]; subst.
    cbn [forallb] in Ho. apply andb_true_iff in Ho. destruct Ho as [Ho1 Ho2].
    rewrite positions_or_cons in Hp. apply in_app_iff in Hp. destruct Hp as [Hp|Hp].
    + destruct (Hc Hsc Ho1 p Hp) as (a & r & Ha & C & Hl). exists a, r. split; [|split; [|exact Hl]].
      * apply firstpos_or_cons. auto.
      * eapply chain_mono; [|exact C]. intros x y H. apply followpos_or_cons. auto.
    + destruct (IHcs Hscs Ho2 p Hp) as (a & r & Ha & C & Hl). exists a, r. split; [|split; [|exact Hl]].
      * apply firstpos_or_cons. auto.
      * eapply chain_mono; [|exact C]. intros x y H. apply followpos_or_cons. auto.
Qed.

Lemma reached_many c :
  (forall p, In p (positions c) -> reached c p) ->
  forall p, In p (positions (XCat [c; XStar c])) -> reached (XCat [c; XStar c]) p.
Proof.
  intros Hc p Hp.
  assert (Hp' : In p (positions c)).
  { cbn [positions flat_map] in Hp. rewrite app_nil_r in Hp. apply in_app_iff in Hp. tauto. }
  destruct (Hc p Hp') as (a & r & Ha & C & Hl). exists a, r. split; [|split; [|exact Hl]].
  - apply firstpos_many. exact Ha.
  - eapply chain_mono; [|exact C]. intros x y H. apply followpos_many. auto.
Qed.

Theorem reached_first t :
  shape t -> ors_nonempty t = true -> forall p, In p (positions t) -> reached t p.
Proof.
  change (reached_goal t).
  induction t as [|k q|cs IH|cs IH|c IH] using rx_ind'; intros Hs Ho p Hp.
  - simpl in Hp. contradiction.
  - simpl in Hp. destruct Hp as [E|[]]. subst. exists p, []. simpl. auto.
  - inversion Hs as [| |cs' Hf Hd| |c Hc]; subst.
    + apply reached_cat; assumption.
    + apply reached_many; [|exact Hp]. inversion IH as [|? ? IHc _]; subst.
      apply IHc; [exact Hc|]. cbn [ors_nonempty forallb] in Ho.
      apply andb_true_iff in Ho. tauto.
  - inversion Hs; subst. apply reached_or; try assumption.
    cbn [ors_nonempty] in Ho. destruct cs; [discriminate|exact Ho].
  - inversion Hs.
Qed.

(** the root: every position, and the end marker, is accessible *)
Theorem reached_root t e :
  shape t -> ors_nonempty t = true ->
  forall p, In p (positions t) -> reached (with_end t e) p.
Proof.
  intros Hs Ho p Hp. destruct (reached_first t Hs Ho p Hp) as (a & r & Ha & C & Hl).
  exists a, r. split; [apply firstpos_with_end; auto|]. split; [|exact Hl].
  eapply chain_mono; [|exact C]. intros x y H. apply followpos_with_end. auto.
Qed.

(** * A position outside [lastpos] has a follower; a tree with positions has a first one *)
Lemma follower_or_last t :
  shape t -> ors_nonempty t = true ->
  forall p, In p (positions t) -> In p (lastpos t) \/ exists q, In (p, q) (followpos t).
Proof.
  intros Hs Ho p Hp. destruct (reach_last t Hs Ho p Hp) as (r & C & Hl).
  destruct r as [|q r]; [left; exact Hl|]. right. exists q. cbn [chain] in C. destruct C as [C _]. exact C.
Qed.

Lemma firstpos_of_positions t :
  shape t -> ors_nonempty t = true -> forall p, In p (positions t) -> exists a, In a (firstpos t).
Proof. intros Hs Ho p Hp. destruct (reached_first t Hs Ho p Hp) as (a & _ & Ha & _). eauto. Qed.

(** * Marked positions without followers *)
Section Marked.
  Variable M : N -> Prop.

  (** no marked position has a follower in the tables of [t] *)
  Definition nofollow (t : rx) : Prop := forall p q, In (p, q) (followpos t) -> ~ M p.
  Definition unmarked (t : rx) : Prop := forall p, In p (positions t) -> ~ M p.

  Lemma nofollow_with_end t e : ~ In e (positions t) ->
    (nofollow t <-> forall p q, In (p, q) (followpos (with_end t e)) -> M p -> q = e).
  Proof.
    intro He. unfold nofollow. split.
    - intros H p q Hpq Hm. apply followpos_with_end in Hpq. destruct Hpq as [Hpq|[_ Hq]]; [|exact Hq].
      exfalso. exact (H p q Hpq Hm).
    - intros H p q Hpq Hm.
      assert (Hq : q = e) by (apply (H p q); [apply followpos_with_end; auto|exact Hm]).
      subst q. apply follow_pos in Hpq. tauto.
  Qed.

  Lemma unmarked_nofollow t : unmarked t -> nofollow t.
  Proof. intros H p q Hpq. apply H. apply follow_pos in Hpq. tauto. Qed.

  (** alternatives: every branch *)
  Lemma nofollow_or cs : nofollow (XOr cs) <-> Forall nofollow cs.
  Proof.
    induction cs as [|c cs IH].
    - split; [constructor|]. intros _ p q H. destruct H.
    - split.
      + intro H. constructor.
        * intros p q Hpq. apply (H p q). apply followpos_or_cons. auto.
        * apply IH. intros p q Hpq. apply (H p q). apply followpos_or_cons. auto.
      + intro H. inversion H as [|? ? Hc Hcs]; subst. intros p q Hpq. apply followpos_or_cons in Hpq.
        destruct Hpq as [Hpq|Hpq]; [exact (Hc p q Hpq)|]. apply IH in Hcs. exact (Hcs p q Hpq).
  Qed.

  (** repetition: nothing marked inside *)
  Lemma nofollow_many c :
    shape c -> ors_nonempty c = true ->
    (nofollow (XCat [c; XStar c]) <-> unmarked c).
  Proof.
    intros Hs Ho. split.
    - intros H p Hp Hm. destruct (follower_or_last c Hs Ho p Hp) as [Hl|[q Hq]].
      + destruct (firstpos_of_positions c Hs Ho p Hp) as [a Ha].
        apply (H p a); [apply followpos_many; auto|exact Hm].
      + apply (H p q); [apply followpos_many; auto|exact Hm].
    - intro H. apply unmarked_nofollow. intros p Hp. apply H.
      cbn [positions flat_map] in Hp. rewrite app_nil_r in Hp. apply in_app_iff in Hp. tauto.
  Qed.

  (** sequence: only the last factor may contain marked positions *)
  Fixpoint seq_ok (cs : list rx) : Prop :=
    match cs with
    | [] => True
    | [c] => nofollow c
    | c :: r => unmarked c /\ seq_ok r
    end.

  Lemma nofollow_cat cs :
    Forall shape cs -> pairwise_disjoint (map positions cs) -> forallb ors_nonempty cs = true ->
    Forall (fun c => positions c <> []) cs ->
    (nofollow (XCat cs) <-> seq_ok cs).
  Proof.
    induction cs as [|c cs IH]; intros Hs Hd Ho Hne.
    - split; [intros _; exact I|]. intros _ p q H. destruct H.
    - inversion Hs as [|? ? Hsc Hscs]; subst. inversion Hne as [|? ? Hnc Hncs]; subst.
      cbn [forallb] in Ho. apply andb_true_iff in Ho. destruct Ho as [Ho1 Ho2].
      simpl in Hd. destruct Hd as [Hd1 Hd2].
      specialize (IH Hscs Hd2 Ho2 Hncs).
      destruct cs as [|c2 cs'].
      + cbn [seq_ok]. split.
        * intros H p q Hpq. apply (H p q). apply followpos_cat_cons. auto.
        * intros H p q Hpq. apply followpos_cat_cons in Hpq. destruct Hpq as [Hpq|[Hpq|Hpq]].
          -- exact (H p q Hpq).
          -- destruct Hpq.
          -- apply in_pprod in Hpq. destruct Hpq as [_ Hq]. destruct Hq.
      + change (seq_ok (c :: c2 :: cs')) with (unmarked c /\ seq_ok (c2 :: cs')). split.
        * intro H. split.
          -- intros p Hp Hm. destruct (follower_or_last c Hsc Ho1 p Hp) as [Hl|[q Hq]].
             ++ inversion Hncs as [|? ? Hn2 _]; subst.
                destruct (positions c2) as [|x xs] eqn:E; [congruence|].
                assert (Hx : In x (positions (XCat (c2 :: cs')))).
                { rewrite positions_cat_cons, E. left. reflexivity. }
                assert (Hst : shape (XCat (c2 :: cs'))) by (constructor; assumption).
                destruct (firstpos_of_positions _ Hst Ho2 x Hx) as [a Ha].
                apply (H p a); [|exact Hm]. apply followpos_cat_cons. right. right. apply in_pprod. auto.
             ++ apply (H p q); [apply followpos_cat_cons; auto|exact Hm].
          -- apply IH. intros p q Hpq. apply (H p q). apply followpos_cat_cons. auto.
        * intros [Hu Hr] p q Hpq. apply followpos_cat_cons in Hpq. destruct Hpq as [Hpq|[Hpq|Hpq]].
          -- apply Hu. apply follow_pos in Hpq. tauto.
          -- apply IH in Hr. exact (Hr p q Hpq).
          -- apply in_pprod in Hpq. destruct Hpq as [Hp _]. apply Hu. apply last_pos. exact Hp.
  Qed.
End Marked.
