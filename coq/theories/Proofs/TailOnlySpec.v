(** What the walk of [check_tail_only] (Model/Regex.v, after the repair of finding N2) decides:
    it accepts a within-word regex iff no position reachable from the first positions through the
    follow table is an unbounded item ([RNonterm]) whose follow set contains anything else than
    the end marker. *)
From CG Require Import Base.Prelude Model.Ast Model.Regex.
From CG Require Import Proofs.FromExpr Proofs.RegexFuel Proofs.RegexNoPanic Proofs.DiagSpans Proofs.PipelineSpans.

Section Walk.
  Variable r : regex.
  Variable fw : list (N * list N).

  Definition is_star (p : N) : Prop := exists n l sp, nthN (r_inputs r) p = Some (RNonterm n l sp).
  Definition only_end (s : list N) : Prop := forall q, In q s -> q = r_end r.
  Definition bad (p : N) : Prop :=
    p <> r_end r /\ is_star p /\ exists s, assocN p fw = Some s /\ ~ only_end s.

  Inductive reach_from (S : list N) : N -> Prop :=
  | rf_start p : In p S -> reach_from S p
  | rf_step p s q : reach_from S p -> p <> r_end r -> assocN p fw = Some s -> In q s -> reach_from S q.

  Lemma omap_nil {A B} (h : A -> rres B) l : omap h l = Ok [] -> l = [].
  Proof.
    destruct l as [|x l]; [reflexivity|]. cbn [omap]. destruct (h x); cbn [obind]; try discriminate.
    destruct (omap h l); discriminate.
  Qed.

  Lemma filter_nil_all {A} (p : A -> bool) l : filter p l = [] -> forall x, In x l -> p x = false.
  Proof.
    induction l as [|y l IH]; intros H x Hx; [destruct Hx|]. cbn in H. destruct (p y) eqn:E; [discriminate|].
    destruct Hx as [Hx|Hx]; [subst; exact E|apply IH; assumption].
  Qed.

  Lemma inputs_of_nil s : inputs_of r s = Ok [] -> only_end s.
  Proof.
    unfold inputs_of. intro H. apply omap_nil in H. intros q Hq.
    pose proof (filter_nil_all _ _ H q Hq) as Hf. apply negb_false_iff in Hf. apply N.eqb_eq in Hf. exact Hf.
  Qed.

  Lemma only_end_inputs s : only_end s -> inputs_of r s = Ok [].
  Proof.
    intro H. unfold inputs_of.
    assert (Hn : filter (fun p => negb (p =? r_end r)) s = []).
    { induction s as [|q s IH]; [reflexivity|]. cbn. rewrite (H q (or_introl eq_refl)), N.eqb_refl. cbn.
      apply IH. intros x Hx. apply H. right. exact Hx. }
    rewrite Hn. reflexivity.
  Qed.

  Lemma first_clash_some x inputs : first_clash (Some x) inputs = None -> inputs = [].
  Proof. destruct inputs; [reflexivity|discriminate]. Qed.

  Lemma each_t_skip rec pp ps visited :
    (forall p, In p ps -> In p visited) -> each_t r rec fw pp ps visited = Ok visited.
  Proof.
    induction ps as [|p rest IH]; intro H; cbn [each_t]; [reflexivity|].
    assert (Hm : memN p visited = true) by (apply memN_In'; apply H; left; reflexivity).
    rewrite Hm. apply IH. intros q Hq. apply H. right. exact Hq.
  Qed.

  (** a call made right after an unbounded item: nothing but the end may follow *)
  Lemma tail_only_leaf f S x visited v' :
    In (r_end r) visited -> tail_only r fw f S (Some x) visited = Ok v' -> only_end S /\ v' = visited.
  Proof.
    intros Hend H. destruct f as [|f]; [discriminate|]. rewrite tail_only_S in H.
    destruct (inputs_of r S) as [inputs| | |] eqn:Ei; cbn [obind] in H; try discriminate.
    destruct (first_clash (Some x) inputs) eqn:Ec; [discriminate|].
    apply first_clash_some in Ec. subst inputs. pose proof (inputs_of_nil _ Ei) as Ho.
    split; [exact Ho|]. rewrite each_t_skip in H; [inversion H; reflexivity|].
    intros p Hp. rewrite (Ho p Hp). exact Hend.
  Qed.

  Lemma tail_only_leaf_err f S x visited e :
    tail_only r fw f S (Some x) visited = Err e -> In (r_end r) visited -> ~ only_end S.
  Proof.
    intros H Hend Ho. destruct f as [|f]; [discriminate|]. rewrite tail_only_S in H.
    rewrite (only_end_inputs _ Ho) in H. cbn [obind first_clash] in H.
    rewrite each_t_skip in H; [discriminate|]. intros p Hp. rewrite (Ho p Hp). exact Hend.
  Qed.

  Definition done (v' : list N) (u : N) : Prop :=
    ~ bad u /\ forall s q, assocN u fw = Some s -> In q s -> In q v' \/ assocN q fw = None.

  Lemma done_mono v1 v' u : incl v1 v' -> done v1 u -> done v' u.
  Proof.
    intros Hi [A B]. split; [exact A|]. intros s q Hs Hq. destruct (B s q Hs Hq) as [H|H]; auto.
  Qed.

  Definition ok_post (S visited v' : list N) : Prop :=
    incl visited v' /\ (forall p, In p S -> In p v' \/ assocN p fw = None)
    /\ (forall u, In u v' -> ~ In u visited -> done v' u).

  Lemma star_input p inp : input_at r p = Ok inp -> is_star_subword inp = Ok false -> ~ is_star p.
  Proof.
    unfold input_at. intros Hi Hs (n & l & sp & Hn). rewrite Hn in Hi. inversion Hi; subst. discriminate.
  Qed.

  Lemma tail_only_ok f : forall S visited v',
    In (r_end r) visited -> tail_only r fw f S None visited = Ok v' -> ok_post S visited v'.
  Proof.
    induction f as [|f IHf]; intros S visited v' Hend H; [discriminate|].
    rewrite tail_only_S in H.
    destruct (inputs_of r S) as [inputs| | |]; cbn [obind first_clash] in H; try discriminate.
    clear inputs. revert visited v' Hend H. induction S as [|p rest IHps]; intros visited v' Hend H.
    - cbn in H. inversion H; subst. split; [apply incl_refl|]. split; [intros p []|]. intros u Hu Hn. contradiction.
    - cbn [each_t] in H. destruct (memN p visited) eqn:Hm.
      + apply memN_In' in Hm. destruct (IHps _ _ Hend H) as (A & B & C). split; [exact A|]. split; [|exact C].
        intros q [Hq|Hq]; [subst; left; apply A; exact Hm|apply B; exact Hq].
      + destruct (assocN p fw) as [follow|] eqn:Ha.
        2:{ destruct (IHps _ _ Hend H) as (A & B & C). split; [exact A|]. split; [|exact C].
            intros q [Hq|Hq]; [subst; right; exact Ha|apply B; exact Hq]. }
        destruct (input_at r p) as [inp| | |] eqn:Hia; cbn [obind] in H; try discriminate.
        destruct (is_star_subword inp) as [st| | |] eqn:Hst; cbn [obind] in H; try discriminate.
        destruct (tail_only r fw f follow (opt_or None (if st then Some inp else None)) (p :: visited))
          as [v1| | |] eqn:Hrec; cbn [obind] in H; try discriminate.
        assert (Hpne : p <> r_end r).
        { intro Heq. subst p. apply memN_In' in Hend. congruence. }
        assert (Hend' : In (r_end r) (p :: visited)) by (right; exact Hend).
        assert (Hpost1 : incl (p :: visited) v1 /\ done v1 p /\
                         (forall u, In u v1 -> ~ In u (p :: visited) -> done v1 u)).
        { destruct st; cbn [opt_or] in Hrec.
          - destruct (tail_only_leaf _ _ _ _ _ Hend' Hrec) as [Ho ->].
            split; [apply incl_refl|]. split.
            + split; [intros (_ & _ & s & Hs & Hno); rewrite Ha in Hs; inversion Hs; subst; contradiction|].
              intros s q Hs Hq. rewrite Ha in Hs. inversion Hs; subst s. left. right. rewrite (Ho q Hq). exact Hend.
            + intros u Hu Hn. contradiction.
          - destruct (IHf _ _ _ Hend' Hrec) as (A1 & B1 & C1).
            split; [exact A1|]. split; [|exact C1]. split.
            + intros (_ & Hs & _). eapply star_input; eauto.
            + intros s q Hs Hq. rewrite Ha in Hs. inversion Hs; subst s. apply B1. exact Hq. }
        destruct Hpost1 as (A1 & Dp & C1).
        assert (Hend1 : In (r_end r) v1) by (apply A1; right; exact Hend).
        destruct (IHps _ _ Hend1 H) as (A & B & C).
        assert (Hinc : incl visited v') by (intros u Hu; apply A; apply A1; right; exact Hu).
        split; [exact Hinc|]. split.
        * intros q [Hq|Hq]; [subst; left; apply A; apply A1; left; reflexivity|apply B; exact Hq].
        * intros u Hu Hn. destruct (in_dec N.eq_dec u v1) as [Hu1|Hu1]; [|apply C; assumption].
          destruct (N.eq_dec u p) as [->|Hne]; [exact (done_mono v1 v' p A Dp)|].
          apply (done_mono v1 v' u A). apply C1; [exact Hu1|]. intros [Hx|Hx]; [congruence|contradiction].
  Qed.

  Lemma reach_from_mono S S' p : incl S S' -> reach_from S p -> reach_from S' p.
  Proof. intros Hi H. induction H; [apply rf_start; auto|eapply rf_step; eauto]. Qed.

  Lemma reach_from_follow S p s q :
    In p S -> p <> r_end r -> assocN p fw = Some s -> reach_from s q -> reach_from S q.
  Proof.
    intros Hp Hne Hs H. induction H as [q Hq|a s' b Ha IH Hane Has Hb].
    - eapply rf_step; [apply rf_start; exact Hp|exact Hne|exact Hs|exact Hq].
    - eapply rf_step; eauto.
  Qed.

  Lemma tail_only_err f : forall S visited e,
    In (r_end r) visited -> tail_only r fw f S None visited = Err e ->
    exists u, reach_from S u /\ bad u.
  Proof.
    induction f as [|f IHf]; intros S visited e Hend H; [discriminate|].
    rewrite tail_only_S in H.
    destruct (inputs_of r S) as [inputs| | |] eqn:Ei; cbn [obind first_clash] in H; try discriminate.
    2:{ destruct (inputs_of_no_err _ _ _ Ei). }
    clear Ei inputs.
    assert (Hloop : forall ps visited, incl ps S -> In (r_end r) visited ->
               each_t r (tail_only r fw f) fw None ps visited = Err e -> exists u, reach_from S u /\ bad u).
    { clear H visited Hend. induction ps as [|p rest IHps]; intros visited Hps Hend H; [discriminate|].
      assert (Hrest : incl rest S) by (intros x Hx; apply Hps; right; exact Hx).
      cbn [each_t] in H. destruct (memN p visited) eqn:Hm; [eapply IHps; eauto|].
      destruct (assocN p fw) as [follow|] eqn:Ha; [|eapply IHps; eauto].
      assert (Hpne : p <> r_end r).
      { intro Heq. subst p. apply memN_In' in Hend. congruence. }
      assert (Hend' : In (r_end r) (p :: visited)) by (right; exact Hend).
      unfold input_at in H at 1. destruct (nthN (r_inputs r) p) as [inp|] eqn:Hn; cbn [obind] in H; [|discriminate].
      destruct (is_star_subword inp) as [st|e1| |] eqn:Hst; cbn [obind] in H; try discriminate.
      2:{ destruct inp; discriminate. }
      destruct (tail_only r fw f follow (opt_or None (if st then Some inp else None)) (p :: visited))
        as [v1|e1| |] eqn:Hrec; cbn [obind] in H; try discriminate.
      - assert (Hend1 : In (r_end r) v1).
        { destruct st; cbn [opt_or] in Hrec.
          - destruct (tail_only_leaf _ _ _ _ _ Hend' Hrec) as [_ ->]. right. exact Hend.
          - destruct (tail_only_ok _ _ _ _ Hend' Hrec) as (A1 & _). apply A1. right. exact Hend. }
        eapply IHps; eauto.
      - inversion H; subst e1. destruct st; cbn [opt_or] in Hrec.
        + exists p. split; [apply rf_start; apply Hps; left; reflexivity|].
          split; [exact Hpne|]. split.
          * destruct inp; try discriminate. do 3 eexists. exact Hn.
          * exists follow. split; [exact Ha|]. eapply tail_only_leaf_err; [exact Hrec|exact Hend'].
        + destruct (IHf _ _ _ Hend' Hrec) as [u [Hu Hb]]. exists u. split; [|exact Hb].
          eapply reach_from_follow; [apply Hps; left; reflexivity|exact Hpne|exact Ha|exact Hu]. }
    eapply Hloop; [apply incl_refl|exact Hend|exact H].
  Qed.
End Walk.

(** *** [check_tail_only] *)
Definition reachable_pos (r : regex) : N -> Prop := reach_from r (regex_follow r) (regex_first r).
Definition bad_pos (r : regex) : N -> Prop := bad r (regex_follow r).

Theorem check_tail_only_accepts r :
  check_tail_only r = Ok tt -> forall p, reachable_pos r p -> ~ bad_pos r p.
Proof.
  unfold check_tail_only. intro H.
  destruct (tail_only r (regex_follow r) (regex_fuel r) (regex_first r) None [r_end r]) as [v'| | |] eqn:E;
    cbn [obind] in H; try discriminate.
  assert (He : In (r_end r) [r_end r]) by (left; reflexivity).
  destruct (tail_only_ok r (regex_follow r) _ _ _ _ He E) as (A & B & C).
  assert (Hinv : forall p, reachable_pos r p -> In p v' \/ assocN p (regex_follow r) = None).
  { induction 1 as [p Hp|p s q Hr IH Hne Hs Hq]; [apply B; exact Hp|].
    destruct IH as [IH|IH]; [|congruence].
    destruct (C p IH) as [_ D]; [intros [Hx|[]]; congruence|]. eapply D; eauto. }
  intros p Hp Hb. destruct (Hinv p Hp) as [Hin|Hno].
  - destruct Hb as (Hne & Hb). destruct (C p Hin) as [D _]; [intros [Hx|[]]; congruence|].
    apply D. split; [exact Hne|exact Hb].
  - destruct Hb as (_ & _ & s & Hs & _). unfold bad_pos in *. congruence.
Qed.

Theorem check_tail_only_rejects r e :
  check_tail_only r = Err e -> exists p, reachable_pos r p /\ bad_pos r p.
Proof.
  unfold check_tail_only. intro H.
  destruct (tail_only r (regex_follow r) (regex_fuel r) (regex_first r) None [r_end r]) as [v'|e'| |] eqn:E;
    cbn [obind] in H; try discriminate.
  inversion H; subst e'. eapply tail_only_err; [|exact E]. left. reflexivity.
Qed.

(** for the regex of a word (in range, without nested words) the walk is total *)
Theorem check_tail_only_decides r :
  pool_ok r ->
  (check_tail_only r = Ok tt <-> forall p, reachable_pos r p -> ~ bad_pos r p).
Proof.
  intro Hp. split; [apply check_tail_only_accepts|]. intro H.
  pose proof (check_tail_only_np r Hp) as Hnp. pose proof (check_tail_only_fuel r) as Hf.
  destruct (check_tail_only r) as [[]|e|m|] eqn:E; [reflexivity| | |].
  - exfalso. destruct (check_tail_only_rejects r e E) as [p [Hr Hb]]. exact (H p Hr Hb).
  - exfalso. exact (Hnp m eq_refl).
  - exfalso. exact (Hf eq_refl).
Qed.
