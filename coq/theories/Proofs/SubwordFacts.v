(** The within-word matcher of Model/BashSem.v on glob-free text.

    1. On glob-free literals and a glob-free typed word both literal loops ([Pinned], [Fixed]) are the pure string
       functions [lit_pure_pinned] / [lit_loop_str] (no pattern matching left).
    2. With the literal array in decreasing length (what dfa.rs produces), the repaired loop
       - consumes a fully typed value [v] exactly (the first enabled literal equal to [v] wins, whatever longer or
         shorter literals exist and wherever else they are allowed);
       - stops in front of a partially typed value when completing.
    3. [__complgen_match] is an exact prefix filter on printable text. *)
From CG Require Import Base.Prelude Model.Dfa Model.Glob Model.BashSem Proofs.GlobFacts.

(** *** 1. the loops without glob *)
Fixpoint lit_pure_pinned (lits : list (N * string)) (st : list (N * N)) (sub : string) : step :=
  match lits with
  | [] => SNone
  | (lid, lit) :: r =>
    match (if String.eqb lit sub then assocN lid st else None) with
    | Some to => SCont to (String.length lit)
    | None =>
      if String.prefix sub lit then SBreak
      else match (if String.prefix lit sub then assocN lid st else None) with
           | Some to => SCont to (String.length lit)
           | None => lit_pure_pinned r st sub
           end
    end
  end.

Definition all_plain (lits : list (N * string)) : Prop := forall id l, In (id, l) lits -> plain l = true.

Lemma all_plain_tail x lits : all_plain (x :: lits) -> all_plain lits.
Proof. intros H id l Hin. apply (H id l). now right. Qed.

Lemma globm_exact lit s : plain lit = true -> globm lit s = Ok (String.eqb lit s).
Proof. intros H. unfold globm. now rewrite (glob_plain_exact true lit s H). Qed.

Lemma globm_prefix p s : plain p = true -> globm (p ++ "*") s = Ok (String.prefix p s).
Proof. intros H. unfold globm. now rewrite (glob_plain_prefix true p s H). Qed.

Lemma lit_loop_fixed_plain complete st sub : forall lits,
    all_plain lits -> plain sub = true ->
    lit_loop_fixed complete lits st sub = Ok (lit_loop_str complete lits st sub).
Proof.
  induction lits as [|[lid lit] r IH]; intros Hl Hs; [reflexivity|].
  cbn [lit_loop_fixed lit_loop_str].
  assert (Hp : plain lit = true) by (apply (Hl lid lit); now left).
  specialize (IH (all_plain_tail _ _ Hl) Hs).
  destruct (assocN lid st) as [to|]; [|exact IH].
  rewrite (globm_exact lit sub Hp). cbn [obind].
  destruct (String.eqb lit sub); [reflexivity|].
  destruct complete.
  - rewrite (globm_prefix sub lit Hs). cbn [obind andb].
    destruct (String.prefix sub lit); [reflexivity|].
    rewrite (globm_prefix lit sub Hp). cbn [obind].
    destruct (String.prefix lit sub); [reflexivity|exact IH].
  - cbn [obind andb].
    rewrite (globm_prefix lit sub Hp). cbn [obind].
    destruct (String.prefix lit sub); [reflexivity|exact IH].
Qed.

(** both repaired loops are the string loop: [Repaired] always (quoted operands), [Fixed] on glob-free text *)
Definition strdom (v : variant) (lits : list (N * string)) (word : string) : Prop :=
  v = Repaired \/ (all_plain lits /\ plain word = true).

Lemma lit_loop_nonpinned v complete st sub lits :
  v <> Pinned -> (v = Repaired \/ (all_plain lits /\ plain sub = true)) ->
  lit_loop v complete lits st sub = Ok (lit_loop_str complete lits st sub).
Proof.
  intros Hv Hd. destruct v; [congruence| |reflexivity].
  destruct Hd as [Hd|[Hl Hs]]; [discriminate|]. now apply lit_loop_fixed_plain.
Qed.

Lemma lit_loop_pinned_plain st sub : forall lits,
    all_plain lits -> plain sub = true ->
    lit_loop_pinned lits st sub = Ok (lit_pure_pinned lits st sub).
Proof.
  induction lits as [|[lid lit] r IH]; intros Hl Hs; [reflexivity|].
  cbn [lit_loop_pinned lit_pure_pinned].
  assert (Hp : plain lit = true) by (apply (Hl lid lit); now left).
  specialize (IH (all_plain_tail _ _ Hl) Hs).
  rewrite (globm_exact lit sub Hp). cbn [obind].
  destruct (if String.eqb lit sub then assocN lid st else None); [reflexivity|].
  rewrite (globm_prefix sub lit Hs). cbn [obind].
  destruct (String.prefix sub lit); [reflexivity|].
  rewrite (globm_prefix lit sub Hp). cbn [obind].
  destruct (if String.prefix lit sub then assocN lid st else None); [reflexivity|exact IH].
Qed.

(** *** string facts *)
Lemma prefix_length p s : String.prefix p s = true -> (String.length p <= String.length s)%nat.
Proof.
  revert s. induction p as [|c p IH]; intros s H; cbn [String.length]; [lia|].
  destruct s as [|d s]; cbn [String.prefix] in H; [discriminate|].
  destruct (ascii_dec c d); [|discriminate]. specialize (IH s H). cbn [String.length]. lia.
Qed.

Lemma prefix_same_length p s :
  String.prefix p s = true -> String.length p = String.length s -> p = s.
Proof.
  revert s. induction p as [|c p IH]; intros s H L.
  - destruct s; [reflexivity|discriminate].
  - destruct s as [|d s]; cbn [String.prefix] in H; [discriminate|].
    destruct (ascii_dec c d); [|discriminate]. subst d. f_equal. apply IH; [exact H|].
    cbn [String.length] in L. lia.
Qed.

Lemma prefix_refl s : String.prefix s s = true.
Proof. induction s as [|c s IH]; cbn; [reflexivity|]. destruct (ascii_dec c c); [exact IH|congruence]. Qed.

Lemma eqb_false_neq a b : String.eqb a b = false <-> a <> b.
Proof. apply String.eqb_neq. Qed.

(** *** 2. decreasing length *)
(** every later literal is at most as long *)
Fixpoint sorted_desc (lits : list (N * string)) : Prop :=
  match lits with
  | [] => True
  | (_, l) :: r => (forall id l', In (id, l') r -> (String.length l' <= String.length l)%nat) /\ sorted_desc r
  end.

(** the first literal with text [v] that has a transition in [st] *)
Fixpoint first_enabled (lits : list (N * string)) (st : list (N * N)) (v : string) : option N :=
  match lits with
  | [] => None
  | (lid, lit) :: r =>
    if String.eqb lit v then
      match assocN lid st with Some to => Some to | None => first_enabled r st v end
    else first_enabled r st v
  end.

(** matching: a fully typed value is consumed as that value *)
Lemma fixed_consumes_value st v : forall lits to,
    sorted_desc lits ->
    first_enabled lits st v = Some to ->
    lit_loop_str false lits st v = SCont to (String.length v).
Proof.
  induction lits as [|[lid lit] r IH]; intros to Hs Hf; [discriminate|].
  cbn [lit_loop_str first_enabled] in *.
  destruct Hs as [Hlen Hs].
  destruct (assocN lid st) as [to'|] eqn:Ea.
  - destruct (String.eqb lit v) eqn:E.
    + apply String.eqb_eq in E. subst lit. injection Hf as <-. reflexivity.
    + cbn [andb].
      destruct (String.prefix lit v) eqn:Ep.
      * (* a shorter enabled literal in front of v: impossible, v comes later and is at most as long *)
        exfalso.
        assert (exists id, In (id, v) r) as [id Hin].
        { clear - Hf. induction r as [|[i l] r IH]; cbn [first_enabled] in Hf; [discriminate|].
          destruct (String.eqb l v) eqn:E.
          - apply String.eqb_eq in E. subst l. exists i. now left.
          - destruct (IH Hf) as [id H]. exists id. now right. }
        pose proof (Hlen id v Hin) as L1.
        pose proof (prefix_length _ _ Ep) as L2.
        assert (lit = v) by (apply prefix_same_length; [exact Ep|lia]).
        apply eqb_false_neq in E. contradiction.
      * apply IH; assumption.
  - destruct (String.eqb lit v); apply IH; assumption.
Qed.

(** completing: in front of a partially typed value the loop stops *)
Lemma fixed_stops_at_partial st p : forall lits,
    sorted_desc lits ->
    (exists id v to, In (id, v) lits /\ assocN id st = Some to /\ String.prefix p v = true /\ p <> v) ->
    lit_loop_str true lits st p = SBreak.
Proof.
  induction lits as [|[lid lit] r IH]; intros Hs (id & v & to & Hin & Ha & Hp & Hne); [contradiction|].
  cbn [lit_loop_str].
  destruct Hs as [Hlen Hs].
  assert (Lv : (String.length p < String.length v)%nat).
  { pose proof (prefix_length _ _ Hp).
    destruct (Nat.eq_dec (String.length p) (String.length v)) as [E|E]; [|lia].
    exfalso. apply Hne. now apply prefix_same_length. }
  destruct Hin as [Hin|Hin].
  - injection Hin as -> ->. rewrite Ha.
    destruct (String.eqb v p) eqn:E.
    + apply String.eqb_eq in E. congruence.
    + rewrite Hp. reflexivity.
  - pose proof (Hlen id v Hin) as L1.
    destruct (assocN lid st) as [to'|] eqn:Ea.
    + destruct (String.eqb lit p) eqn:E.
      * apply String.eqb_eq in E. subst lit. lia.
      * cbn [andb]. destruct (String.prefix p lit); [reflexivity|].
        destruct (String.prefix lit p) eqn:Ep.
        -- pose proof (prefix_length _ _ Ep). lia.
        -- apply IH; [exact Hs|]. exists id, v, to. tauto.
    + apply IH; [exact Hs|]. exists id, v, to. tauto.
Qed.

(** the pinned loop outside the known finding: when NO literal of the array (enabled or not) properly extends the
    typed value, the pinned loop consumes it too *)
Lemma pinned_consumes_value st v : forall lits to,
    sorted_desc lits ->
    first_enabled lits st v = Some to ->
    (forall id l, In (id, l) lits -> String.prefix v l = true -> l = v /\ assocN id st <> None) ->
    lit_pure_pinned lits st v = SCont to (String.length v).
Proof.
  induction lits as [|[lid lit] r IH]; intros to Hs Hf Hk; [discriminate|].
  cbn [lit_pure_pinned first_enabled] in *.
  destruct Hs as [Hlen Hs].
  assert (Hk' : forall id l, In (id, l) r -> String.prefix v l = true -> l = v /\ assocN id st <> None)
    by (intros id l Hin; apply (Hk id l); now right).
  destruct (String.eqb lit v) eqn:E.
  - apply String.eqb_eq in E. subst lit.
    destruct (Hk lid v (or_introl eq_refl) (prefix_refl v)) as [_ Hen].
    destruct (assocN lid st) as [to'|]; [|congruence]. injection Hf as <-. reflexivity.
  - destruct (String.prefix v lit) eqn:E2.
    { destruct (Hk lid lit (or_introl eq_refl) E2) as [-> _]. rewrite String.eqb_refl in E. discriminate. }
    destruct (String.prefix lit v) eqn:Ep.
    + destruct (assocN lid st) as [to'|] eqn:Ea.
      * exfalso.
        assert (exists id, In (id, v) r) as [id Hin].
        { clear - Hf. induction r as [|[i l] r IH]; cbn [first_enabled] in Hf; [discriminate|].
          destruct (String.eqb l v) eqn:E.
          - apply String.eqb_eq in E. subst l. exists i. now left.
          - destruct (IH Hf) as [id H]. exists id. now right. }
        pose proof (Hlen id v Hin) as L1.
        pose proof (prefix_length _ _ Ep) as L2.
        assert (lit = v) by (apply prefix_same_length; [exact Ep|lia]).
        apply eqb_false_neq in E. contradiction.
      * now apply IH.
    + now apply IH.
Qed.

(** ... and inside the known finding it refuses: a literal in front of [v] in the array that [v] is a proper prefix
    of makes the pinned loop stop, whether that literal is expected at this point or not *)
Lemma pinned_refuses_shorter_value st v : forall lits,
    sorted_desc lits ->
    (exists id l, In (id, l) lits /\ String.prefix v l = true /\ l <> v) ->
    lit_pure_pinned lits st v = SBreak.
Proof.
  induction lits as [|[lid lit] r IH]; intros Hs (id & l & Hin & Hp & Hne); [contradiction|].
  assert (Lv : (String.length v < String.length l)%nat).
  { pose proof (prefix_length _ _ Hp).
    destruct (Nat.eq_dec (String.length v) (String.length l)) as [E|E]; [|lia].
    exfalso. apply Hne. symmetry. now apply prefix_same_length. }
  cbn [lit_pure_pinned]. destruct Hs as [Hlen Hs].
  destruct Hin as [Hin|Hin].
  - injection Hin as -> ->.
    destruct (String.eqb l v) eqn:E; [apply String.eqb_eq in E; congruence|].
    now rewrite Hp.
  - pose proof (Hlen id l Hin) as L1.
    destruct (String.eqb lit v) eqn:E; [apply String.eqb_eq in E; subst lit; lia|].
    destruct (String.prefix v lit); [reflexivity|].
    destruct (String.prefix lit v) eqn:Ep; [pose proof (prefix_length _ _ Ep); lia|].
    apply IH; [exact Hs|]. exists id, l. tauto.
Qed.

(** a single enabled piece is consumed (the literal prefix of the word) *)
Lemma fixed_consumes_piece complete st sub : forall lits lid lit to,
    (forall id l t, In (id, l) lits -> assocN id st = Some t -> id = lid /\ l = lit) ->
    In (lid, lit) lits ->
    assocN lid st = Some to ->
    String.prefix lit sub = true ->
    lit_loop_str complete lits st sub = SCont to (String.length lit).
Proof.
  induction lits as [|[i l] r IH]; intros lid lit to Hu Hin Ha Hp; [contradiction|].
  cbn [lit_loop_str].
  destruct (assocN i st) as [t|] eqn:Ea.
  - destruct (Hu i l t (or_introl eq_refl) Ea) as [-> ->].
    rewrite Ha in Ea. injection Ea as <-.
    destruct (String.eqb lit sub) eqn:E; [reflexivity|].
    destruct (complete && String.prefix sub lit) eqn:E2.
    + apply andb_true_iff in E2 as [_ E2].
      pose proof (prefix_length _ _ E2). pose proof (prefix_length _ _ Hp).
      assert (lit = sub) by (apply prefix_same_length; [exact Hp|lia]).
      apply eqb_false_neq in E. contradiction.
    + rewrite Hp. reflexivity.
  - destruct Hin as [Hin|Hin].
    + injection Hin as -> ->. congruence.
    + apply (IH lid lit to); try assumption.
      intros id l0 t Hin0 Ha0. apply (Hu id l0 t); [now right|exact Ha0].
Qed.

(** *** 3. __complgen_match *)
Lemma filterM_ok {A} (f : A -> M bool) (g : A -> bool) l :
  (forall x, In x l -> f x = Ok (g x)) -> filterM f l = Ok (filter g l).
Proof.
  induction l as [|x r IH]; intros H; [reflexivity|].
  cbn [filterM filter]. rewrite (H x (or_introl eq_refl)). cbn [obind].
  rewrite IH by (intros y Hy; apply H; now right). cbn [obind].
  destruct (g x); reflexivity.
Qed.

Lemma printf_q_printable p : printable_str p = true -> p <> EmptyString -> printf_q p = Some (q_chars None p).
Proof.
  intros H Hne. unfold printf_q. destruct p; [congruence|]. now rewrite H.
Qed.

Theorem match_fn_prefix_filter e p cands :
  e_ignore_case e = false -> printable_str p = true ->
  match_fn e p cands = Ok (filter (String.prefix p) cands).
Proof.
  intros Hi Hp. unfold match_fn. destruct p as [|c p].
  - f_equal. clear. induction cands as [|x r IH]; [reflexivity|].
    cbn [filter]. replace (String.prefix "" x) with true by (destruct x; reflexivity). f_equal. exact IH.
  - rewrite Hi.
    assert (Hne : String c p <> EmptyString) by discriminate.
    rewrite (printf_q_printable _ Hp Hne).
    apply filterM_ok. intros line _.
    unfold globm. rewrite (glob_printf_q_prefix (String c p) _ line (printf_q_printable _ Hp Hne) Hne).
    reflexivity.
Qed.
