(** "The first fallback level that offers anything" is "the lowest level that has a candidate". *)
From CG Require Import Base.Prelude Spec.Meaning Proofs.MeaningFacts.

Fixpoint first_nonempty (offered : nat -> list string) (n : nat) (L : nat) : list string :=
  match n with
  | O => []
  | S n' => match offered L with [] => first_nonempty offered n' (S L) | m => m end
  end.

Lemma first_nonempty_spec offered : forall n L o,
  In o (first_nonempty offered n L) <->
  exists j, (L <= j < L + n)%nat /\ In o (offered j) /\ forall i, (L <= i < j)%nat -> offered i = [].
Proof.
  induction n as [| n IH]; intros L o; cbn [first_nonempty].
  - split; [intros [] | intros [j [Hj _]]; lia].
  - destruct (offered L) as [| m ms] eqn:E.
    + rewrite IH. split.
      * intros [j [Hj [Hin Hfirst]]]. exists j. split; [lia | split; [exact Hin |]].
        intros i Hi. destruct (Nat.eq_dec i L) as [-> | Ne]; [exact E | apply Hfirst; lia].
      * intros [j [Hj [Hin Hfirst]]]. assert (j <> L) by (intro; subst; rewrite E in Hin; destruct Hin).
        exists j. split; [lia | split; [exact Hin | intros i Hi; apply Hfirst; lia]].
    + split.
      * intro Hin. exists L. split; [lia | split; [rewrite E; exact Hin | intros i Hi; lia]].
      * intros [j [Hj [Hin Hfirst]]]. destruct (Nat.eq_dec j L) as [-> | Ne]; [rewrite E in Hin; exact Hin |].
        rewrite (Hfirst L) in E by lia. discriminate.
Qed.

Theorem first_nonempty_lowest (offered : nat -> list string) (cs : list (N * string)) (n : nat) :
  (forall L o, In o (offered L) <-> In (N.of_nat L, o) cs) ->
  (forall l o, In (l, o) cs -> (N.to_nat l < n)%nat) ->
  forall o, In o (first_nonempty offered n 0) <-> In o (lowest cs).
Proof.
  intros Hoff Hrange o. rewrite first_nonempty_spec, lowest_spec. split.
  - intros [j [Hj [Hin Hfirst]]]. exists (N.of_nat j). split; [apply Hoff; exact Hin |].
    intros l' c' Hc'. destruct (N.lt_ge_cases l' (N.of_nat j)) as [Hlt | Hge]; [exfalso | exact Hge].
    assert (Hc2 : In c' (offered (N.to_nat l'))) by (apply Hoff; rewrite N2Nat.id; exact Hc').
    rewrite (Hfirst (N.to_nat l')) in Hc2 by lia. destruct Hc2.
  - intros [l [Hin Hmin]]. exists (N.to_nat l). pose proof (Hrange l o Hin) as Hr.
    split; [lia | split; [apply Hoff; rewrite N2Nat.id; exact Hin |]].
    intros i Hi. destruct (offered i) as [| m ms] eqn:E; [reflexivity | exfalso].
    assert (Hm : In (N.of_nat i, m) cs) by (apply Hoff; rewrite E; left; reflexivity).
    specialize (Hmin _ _ Hm). lia.
Qed.
