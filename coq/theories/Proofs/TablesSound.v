(** L-tables: what [get_lookup_tables] puts into the tables is exactly the labelled transition
    relation and the per-level candidate relation of the automaton (C04). *)
From CG Require Import Base.Prelude Model.Ast Model.Dfa Model.Tables.
Open Scope N_scope.
Open Scope list_scope.

(** ** outcome plumbing *)
Lemma obind_ok {E A B} (x : outcome E A) (f : A -> outcome E B) b :
  obind x f = Ok b -> exists a, x = Ok a /\ f a = Ok b.
Proof. destruct x; cbn; intros H; try discriminate. eauto. Qed.

Lemma omap_ok_in {E A B} (f : A -> outcome E B) l ys :
  omap f l = Ok ys -> forall y, In y ys <-> exists x, In x l /\ f x = Ok y.
Proof.
  revert ys. induction l as [|a l IH]; cbn; intros ys H y.
  - inversion H; subst. split; [intros [] | intros [x [[] _]]].
  - apply obind_ok in H. destruct H as [b [Hb H]]. apply obind_ok in H. destruct H as [bs [Hbs H]].
    inversion H; subst. cbn. rewrite (IH bs Hbs y). split.
    + intros [->|[x [Hx Hf]]]; [exists a; auto | exists x; auto].
    + intros [x [[->|Hx] Hf]]; [left; congruence | right; eauto].
Qed.

Lemma omap_ok_length {E A B} (f : A -> outcome E B) l ys : omap f l = Ok ys -> List.length ys = List.length l.
Proof.
  revert ys. induction l as [|a l IH]; cbn; intros ys H.
  - inversion H. reflexivity.
  - apply obind_ok in H. destruct H as [b [Hb H]]. apply obind_ok in H. destruct H as [bs [Hbs H]].
    inversion H; subst. cbn. f_equal. apply IH. exact Hbs.
Qed.

(** ** increasing sets and maps, by membership (no sortedness invariant is needed) *)
Lemma insertN_in x y l : In x (insertN y l) <-> x = y \/ In x l.
Proof.
  induction l as [|z r IH]; cbn.
  - intuition congruence.
  - destruct (N.ltb y z) eqn:E1; cbn; [intuition congruence|].
    destruct (N.eqb y z) eqn:E2; cbn.
    + apply N.eqb_eq in E2. subst. intuition congruence.
    + rewrite IH. intuition congruence.
Qed.

Lemma push_in x y l : In x (push y l) <-> x = y \/ In x l.
Proof. unfold push. rewrite in_app_iff. cbn. intuition congruence. Qed.

Lemma setN_in x l : In x (setN l) <-> In x l.
Proof.
  unfold setN. assert (G : forall acc, In x (fold_left (fun a y => insertN y a) l acc) <-> In x l \/ In x acc).
  { induction l as [|y r IH]; cbn; intros acc; [tauto|]. rewrite IH, insertN_in. intuition. }
  rewrite G. cbn. tauto.
Qed.

Definition mem2 (m : list (N * list N)) (s id : N) : Prop := exists ids, In (s, ids) m /\ In id ids.

Lemma bt_update_mem2 (add : N -> list N -> list N) :
  (forall x y l, In x (add y l) <-> x = y \/ In x l) ->
  forall s0 id0 m s id,
    mem2 (bt_update s0 (fun old => add id0 (match old with Some l => l | None => [] end)) m) s id
    <-> mem2 m s id \/ (s = s0 /\ id = id0).
Proof.
  intros Hadd s0 id0 m s id. unfold mem2. induction m as [|[k' v'] r IH]; cbn.
  - split.
    + intros [ids [[H|[]] Hi]]. inversion H; subst. apply Hadd in Hi. cbn in Hi. intuition.
    + intros [[ids [[] _]]|[-> ->]]. eexists; split; [left; reflexivity|]. apply Hadd. auto.
  - destruct (N.ltb s0 k') eqn:E1.
    + split.
      * intros [ids [[H|H] Hi]].
        -- inversion H; subst. apply Hadd in Hi. cbn in Hi. intuition.
        -- left. exists ids. auto.
      * intros [[ids [H Hi]]|[-> ->]].
        -- exists ids. split; [right; exact H | exact Hi].
        -- eexists; split; [left; reflexivity|]. apply Hadd. auto.
    + destruct (N.eqb s0 k') eqn:E2.
      * apply N.eqb_eq in E2. subst k'. split.
        -- intros [ids [[H|H] Hi]].
           ++ inversion H; subst. apply Hadd in Hi. destruct Hi as [->|Hi]; [auto|].
              left. exists v'. split; [left; reflexivity | exact Hi].
           ++ left. exists ids. split; [right; exact H | exact Hi].
        -- intros [[ids [[H|H] Hi]]|[-> ->]].
           ++ inversion H; subst. eexists; split; [left; reflexivity|]. apply Hadd. auto.
           ++ exists ids. split; [right; exact H | exact Hi].
           ++ eexists; split; [left; reflexivity|]. apply Hadd. auto.
      * split.
        -- intros [ids [[H|H] Hi]].
           ++ left. exists ids. split; [left; exact H | exact Hi].
           ++ destruct (proj1 IH (ex_intro _ ids (conj H Hi))) as [[ids' [H' Hi']]|Heq].
              ** left. exists ids'. split; [right; exact H' | exact Hi'].
              ** right. exact Heq.
        -- intros [[ids [[H|H] Hi]]|Heq].
           ++ exists ids. split; [left; exact H | exact Hi].
           ++ destruct (proj2 IH (or_introl (ex_intro _ ids (conj H Hi)))) as [ids' [H' Hi']].
              exists ids'. split; [right; exact H' | exact Hi'].
           ++ destruct (proj2 IH (or_intror Heq)) as [ids' [H' Hi']].
              exists ids'. split; [right; exact H' | exact Hi'].
Qed.

(** [bt_insert] / [bt_of_list] *)
Lemma bt_insert_in {V} k v (m : list (N * V)) k0 v0 :
  In (k0, v0) (bt_insert k v m) -> (k0, v0) = (k, v) \/ In (k0, v0) m.
Proof.
  unfold bt_insert. induction m as [|[k' v'] r IH]; cbn.
  - intros [H|[]]. left. congruence.
  - destruct (N.ltb k k'); cbn; [intros [H|H]; [left; congruence | right; exact H]|].
    destruct (N.eqb k k'); cbn.
    + intros [H|H]; [left; congruence | right; right; exact H].
    + intros [H|H]; [right; left; exact H|]. destruct (IH H); auto.
Qed.

Lemma bt_insert_same {V} k v (m : list (N * V)) : In (k, v) (bt_insert k v m).
Proof.
  unfold bt_insert. induction m as [|[k' v'] r IH]; cbn; [auto|].
  destruct (N.ltb k k'); cbn; [auto|]. destruct (N.eqb k k'); cbn; auto.
Qed.

Lemma bt_insert_other {V} k v (m : list (N * V)) k0 v0 :
  k0 <> k -> In (k0, v0) m -> In (k0, v0) (bt_insert k v m).
Proof.
  unfold bt_insert. intros Hne. induction m as [|[k' v'] r IH]; cbn; [tauto|].
  destruct (N.ltb k k'); cbn; [tauto|]. destruct (N.eqb k k') eqn:E; cbn.
  - apply N.eqb_eq in E. subst. intros [H|H]; [inversion H; subst; congruence | auto].
  - intros [H|H]; auto.
Qed.

Lemma bt_of_list_in {V} (l : list (N * V)) k v : In (k, v) (bt_of_list l) -> In (k, v) l.
Proof.
  unfold bt_of_list.
  assert (G : forall acc, In (k, v) (fold_left (fun a kv => bt_insert (fst kv) (snd kv) a) l acc) -> In (k, v) l \/ In (k, v) acc).
  { induction l as [|[k' v'] r IH]; cbn; intros acc H; [auto|].
    destruct (IH _ H) as [H1|H1]; [auto|]. apply bt_insert_in in H1. destruct H1 as [H1|H1]; [left; left; congruence | auto]. }
  intros H. destruct (G [] H) as [H1|[]]. exact H1.
Qed.

Lemma bt_of_list_complete {V} (l : list (N * V)) k v :
  NoDup (map fst l) -> In (k, v) l -> In (k, v) (bt_of_list l).
Proof.
  unfold bt_of_list.
  assert (Keep : forall r acc, ~ In k (map fst r) -> In (k, v) acc ->
                   In (k, v) (fold_left (fun a kv => bt_insert (fst kv) (snd kv) a) r acc)).
  { induction r as [|[k' v'] r IH]; cbn; intros acc Hn Hin; [exact Hin|].
    apply IH; [tauto|]. apply bt_insert_other; [intros ->; tauto | exact Hin]. }
  assert (G : forall acc, NoDup (map fst l) -> In (k, v) l ->
                In (k, v) (fold_left (fun a kv => bt_insert (fst kv) (snd kv) a) l acc)).
  { induction l as [|[k' v'] r IH]; cbn; intros acc Hnd Hin; [tauto|].
    inversion Hnd; subst. destruct Hin as [Hin|Hin].
    - inversion Hin; subst. apply Keep; [assumption | apply bt_insert_same].
    - apply IH; assumption. }
  apply G.
Qed.

Lemma bt_of_list_nonempty {V} (l : list (N * V)) : l <> [] -> bt_of_list l <> [].
Proof.
  destruct l as [|[k v] r]; [congruence|]. intros _ H.
  assert (G : forall (r : list (N * V)) acc, acc <> [] -> fold_left (fun a kv => bt_insert (fst kv) (snd kv) a) r acc <> []).
  { induction r0 as [|[k' v'] r0 IH]; cbn; intros acc Ha; [exact Ha|]. apply IH.
    intros E. pose proof (bt_insert_same k' v' acc) as HI. rewrite E in HI. exact HI. }
  unfold bt_of_list in H. cbn in H. revert H. apply G. cbn. discriminate.
Qed.

(** ** well-formed automata (what the IndexMaps and the intern pool guarantee) *)
Definition dfa_wf (d : dfa) : Prop :=
  NoDup (map fst (d_trans d))
  /\ forall s tos, In (s, tos) (d_trans d) ->
       NoDup (map fst tos) /\ forall i t, In (i, t) tos -> exists x, nthN (d_inputs d) i = Some x.

Lemma assocN_in {V} k (l : list (N * V)) v : assocN k l = Some v -> In (k, v) l.
Proof.
  induction l as [|[k' v'] r IH]; cbn; [discriminate|]. destruct (N.eqb k k') eqn:E.
  - apply N.eqb_eq in E. intros H. inversion H; subst. auto.
  - auto.
Qed.

Lemma in_assocN {V} k (l : list (N * V)) v : NoDup (map fst l) -> In (k, v) l -> assocN k l = Some v.
Proof.
  induction l as [|[k' v'] r IH]; cbn; [tauto|]. intros Hnd [H|H].
  - inversion H; subst. rewrite N.eqb_refl. reflexivity.
  - inversion Hnd; subst. destruct (N.eqb k k') eqn:E.
    + apply N.eqb_eq in E. subst. exfalso. apply H2. apply in_map_iff. exists (k', v). auto.
    + auto.
Qed.

Lemma iter_transitions_in d s i t :
  In (s, i, t) (iter_transitions d) <-> exists tos, In (s, tos) (d_trans d) /\ In (i, t) tos.
Proof.
  unfold iter_transitions. rewrite in_flat_map. split.
  - intros [[s' tos] [H1 H2]]. cbn in H2. apply in_map_iff in H2. destruct H2 as [[i' t'] [E H2]].
    cbn in E. inversion E; subst. eauto.
  - intros [tos [H1 H2]]. exists (s, tos). split; [exact H1|]. cbn. apply in_map_iff. exists (i, t). auto.
Qed.

Lemma transitions_from_iter d s i t :
  dfa_wf d -> (In (i, t) (transitions_from d s) <-> In (s, i, t) (iter_transitions d)).
Proof.
  intros [Hnd _]. rewrite iter_transitions_in. unfold transitions_from. split.
  - destruct (assocN s (d_trans d)) as [tos|] eqn:E; [|intros []].
    intros H. exists tos. split; [apply assocN_in; exact E | exact H].
  - intros [tos [H1 H2]]. rewrite (in_assocN _ _ _ Hnd H1). exact H2.
Qed.

(** the automaton's step function (Dfa.step) in terms of membership *)
Lemma step_in d s i t : dfa_wf d -> (step d s i = Some t <-> In (i, t) (transitions_from d s)).
Proof.
  intros [Hnd Hrows]. unfold step, transitions_from.
  destruct (assocN s (d_trans d)) as [tos|] eqn:E; [|split; [discriminate | intros []]].
  apply assocN_in in E. destruct (Hrows _ _ E) as [Hnd2 _]. split.
  - apply assocN_in.
  - apply in_assocN. exact Hnd2.
Qed.

(** ** literal ids *)
Lemma number_from_in {A} (l : list A) n i x :
  In (i, x) (number_from n l) <-> n <= i /\ nth_error l (N.to_nat (i - n)) = Some x.
Proof.
  revert n. induction l as [|y r IH]; cbn; intros n.
  - split; [intros [] | intros [_ H]]. destruct (N.to_nat (i - n)); discriminate.
  - rewrite IH. split.
    + intros [H|[H1 H2]].
      * inversion H; subst. split; [lia|]. replace (i - i) with 0 by lia. reflexivity.
      * split; [lia|]. replace (N.to_nat (i - n)) with (S (N.to_nat (i - (n + 1)))) by lia. exact H2.
    + intros [H1 H2]. destruct (N.eq_dec i n) as [->|Hne].
      * left. replace (n - n) with 0 in H2 by lia. cbn in H2. congruence.
      * right. split; [lia|]. replace (N.to_nat (i - n)) with (S (N.to_nat (i - (n + 1)))) in H2 by lia. exact H2.
Qed.

Definition lit_at (ord : list (string * string)) (start id : N) (t ds : string) : Prop :=
  start <= id /\ nth_error ord (N.to_nat (id - start)) = Some (t, ds).

Lemma all_literals_in ord start id t ds :
  In (id, t, ds) (all_literals ord start) <-> lit_at ord start id t ds.
Proof.
  unfold all_literals, lit_at. rewrite in_map_iff. split.
  - intros [[i [t' d']] [E H]]. cbn in E. inversion E; subst. apply number_from_in in H. exact H.
  - intros H. exists (id, (t, ds)). split; [reflexivity|]. apply number_from_in. exact H.
Qed.

(** [lit_id] finds the LAST entry; with pairwise distinct (text, description) pairs that is the
    only one. *)
Definition lit_step (t ds : string) (acc : option N) (e : N * string * string) : option N :=
  match e with (i, t', d') => if String.eqb t t' && String.eqb ds d' then Some i else acc end.

Lemma lit_fold_some t ds lits acc id :
  fold_left (lit_step t ds) lits acc = Some id -> In (id, t, ds) lits \/ acc = Some id.
Proof.
  revert acc. induction lits as [|[[i t'] d'] r IH]; cbn; intros acc H; [auto|].
  destruct (IH _ H) as [H1|H1]; [auto|].
  destruct (String.eqb t t' && String.eqb ds d') eqn:E.
  - apply andb_prop in E. destruct E as [E1 E2]. apply String.eqb_eq in E1, E2. subst.
    inversion H1; subst. auto.
  - auto.
Qed.

Lemma lit_fold_keep t ds lits acc a :
  acc = Some a -> exists j, fold_left (lit_step t ds) lits acc = Some j.
Proof.
  revert acc a. induction lits as [|[[i t'] d'] r IH]; cbn; intros acc a Ha; [eauto|].
  destruct (String.eqb t t' && String.eqb ds d'); [apply (IH _ i); reflexivity | apply (IH _ a); exact Ha].
Qed.

Lemma lit_fold_found t ds lits acc id :
  In (id, t, ds) lits -> exists j, fold_left (lit_step t ds) lits acc = Some j.
Proof.
  revert acc. induction lits as [|[[i t'] d'] r IH]; cbn; intros acc Hin; [tauto|].
  destruct Hin as [Hin|Hin].
  - inversion Hin; subst. rewrite !String.eqb_refl. cbn. apply (lit_fold_keep _ _ _ _ id). reflexivity.
  - apply IH. exact Hin.
Qed.

Lemma lit_id_spec lits t ds id :
  (forall i1 i2, In (i1, t, ds) lits -> In (i2, t, ds) lits -> i1 = i2) ->
  (lit_id lits t ds = Some id <-> In (id, t, ds) lits).
Proof.
  intros Huniq. change (lit_id lits t ds) with (fold_left (lit_step t ds) lits None). split.
  - intros H. destruct (lit_fold_some _ _ _ _ _ H) as [H1|H1]; [exact H1 | discriminate].
  - intros Hin. destruct (lit_fold_found t ds lits None id Hin) as [j Hf]. rewrite Hf. f_equal.
    destruct (lit_fold_some _ _ _ _ _ Hf) as [Hj|Hj]; [|discriminate]. apply (Huniq j id); assumption.
Qed.

(** ** match tables *)
Definition keys_of (sel : inp -> option (res N)) (tr : list (inp * N)) : list (N * N) :=
  flat_map (fun xt => match sel (fst xt) with Some (Ok k) => [(k, snd xt)] | _ => [] end) tr.

Lemma keys_of_concat sel tr kvs :
  omap (fun xt : inp * N => match sel (fst xt) with
                            | Some r => do k <- r; Ok [(k, snd xt)]
                            | None => Ok []
                            end) tr = Ok kvs ->
  List.concat kvs = keys_of sel tr.
Proof.
  revert kvs. induction tr as [|xt tr IH]; cbn; intros kvs H.
  - inversion H. reflexivity.
  - apply obind_ok in H. destruct H as [b [Hb H]]. apply obind_ok in H. destruct H as [bs [Hbs H]].
    inversion H; subst. cbn. rewrite (IH _ Hbs). f_equal.
    destruct (sel (fst xt)) as [[k| | |]|]; cbn in Hb; try discriminate; inversion Hb; reflexivity.
Qed.

Lemma keys_of_in sel tr k to :
  In (k, to) (keys_of sel tr) <-> exists x, In (x, to) tr /\ sel x = Some (Ok k).
Proof.
  unfold keys_of. rewrite in_flat_map. split.
  - intros [[x t] [H1 H2]]. cbn in H2. destruct (sel x) as [[k'| | |]|] eqn:E; cbn in H2; try tauto.
    destruct H2 as [H2|[]]. inversion H2; subst. eauto.
  - intros [x [H1 H2]]. exists (x, to). split; [exact H1|]. cbn. rewrite H2. cbn. auto.
Qed.

Lemma rtrans_from_in d s tr x to :
  rtrans_from d s = Ok tr ->
  (In (x, to) tr <-> exists i, In (i, to) (transitions_from d s) /\ nthN (d_inputs d) i = Some x).
Proof.
  intros H. unfold rtrans_from in H. rewrite (omap_ok_in _ _ _ H). split.
  - intros [[i t] [Hin Hf]]. cbn in Hf. apply obind_ok in Hf. destruct Hf as [y [Hy Hf]].
    inversion Hf; subst. unfold get_input in Hy. destruct (nthN (d_inputs d) i) eqn:E; [|discriminate].
    inversion Hy; subst. eauto.
  - intros [i [Hin Hn]]. exists (i, to). split; [exact Hin|]. cbn. unfold get_input. rewrite Hn. reflexivity.
Qed.

Lemma omap_ok_total {E A B} (f : A -> outcome E B) l ys :
  omap f l = Ok ys -> forall x, In x l -> exists y, f x = Ok y /\ In y ys.
Proof.
  revert ys. induction l as [|a l IH]; cbn; intros ys H x Hx; [tauto|].
  apply obind_ok in H. destruct H as [b [Hb H]]. apply obind_ok in H. destruct H as [bs [Hbs H]].
  inversion H; subst. destruct Hx as [->|Hx].
  - exists b. cbn. auto.
  - destruct (IH _ Hbs _ Hx) as [y [Hy Hin]]. exists y. cbn. auto.
Qed.

Definition row_of (d : dfa) (sel : inp -> option (res N)) (s : N) : res (N * list (N * N)) :=
  do tr <- rtrans_from d s;
  do kvs <- omap (fun xt : inp * N => match sel (fst xt) with
                                     | Some r => do k <- r; Ok [(k, snd xt)]
                                     | None => Ok []
                                     end) tr;
  Ok (s, bt_of_list (List.concat kvs)).

Lemma row_of_ok d sel s y :
  row_of d sel s = Ok y -> exists tr, rtrans_from d s = Ok tr /\ y = (s, bt_of_list (keys_of sel tr)).
Proof.
  unfold row_of. intros H. apply obind_ok in H. destruct H as [tr [Htr H]].
  apply obind_ok in H. destruct H as [kvs [Hkvs H]]. inversion H; subst.
  rewrite (keys_of_concat _ _ _ Hkvs). eauto.
Qed.

(** what [match_table] returns, row by row *)
Lemma match_table_rows d states sel tbl :
  match_table d states sel = Ok tbl ->
  forall s row, In (s, row) tbl <->
    In s states /\ row <> [] /\ exists tr, rtrans_from d s = Ok tr /\ row = bt_of_list (keys_of sel tr).
Proof.
  intros H s row. unfold match_table in H. apply obind_ok in H. destruct H as [rows [Hrows H]].
  change (omap (row_of d sel) states = Ok rows) in Hrows.
  inversion H; subst. rewrite filter_In. split.
  - intros [Hin Hne]. apply (omap_ok_in _ _ _ Hrows) in Hin. destruct Hin as [s' [Hs Hf]].
    apply row_of_ok in Hf. destruct Hf as [tr [Htr E]]. inversion E; subst. split; [exact Hs|]. split.
    + cbn in Hne. destruct (bt_of_list (keys_of sel tr)); [discriminate | discriminate].
    + eauto.
  - intros [Hs [Hne [tr [Htr ->]]]].
    destruct (omap_ok_total _ _ _ Hrows _ Hs) as [y [Hy Hin]].
    apply row_of_ok in Hy. destruct Hy as [tr' [Htr' ->]]. rewrite Htr in Htr'. inversion Htr'; subst tr'.
    split; [exact Hin|]. cbn. destruct (bt_of_list (keys_of sel tr)); [congruence | reflexivity].
Qed.

Lemma has_transition_state d s i to : In (i, to) (transitions_from d s) -> In s (get_all_states d).
Proof.
  unfold transitions_from. destruct (assocN s (d_trans d)) as [tos|] eqn:E; [|intros []].
  intros H. apply assocN_in in E. unfold get_all_states. apply insertN_in. right. apply setN_in.
  apply in_flat_map. exists (s, i, to). split; [|cbn; auto].
  apply iter_transitions_in. eauto.
Qed.

(** Soundness: every entry of a match table is a transition of the automaton on an input that
    [sel] maps to that key. *)
Lemma match_table_sound d sel tbl :
  match_table d (get_all_states d) sel = Ok tbl ->
  forall s row k to, In (s, row) tbl -> In (k, to) row ->
    exists i x, In (i, to) (transitions_from d s) /\ nthN (d_inputs d) i = Some x /\ sel x = Some (Ok k).
Proof.
  intros H s row k to Hrow Hin. apply (match_table_rows _ _ _ _ H) in Hrow.
  destruct Hrow as [_ [_ [tr [Htr ->]]]]. apply bt_of_list_in in Hin. apply keys_of_in in Hin.
  destruct Hin as [x [Hx Hsel]]. apply (rtrans_from_in _ _ _ _ _ Htr) in Hx. destruct Hx as [i [Hi Hn]].
  eauto.
Qed.

(** no two transitions from [s] get the same key (false exactly for the known finding "one
    literal text under two fallback levels in the same state") *)
Definition keys_unique (d : dfa) (sel : inp -> option (res N)) (s : N) : Prop :=
  forall tr, rtrans_from d s = Ok tr -> NoDup (map fst (keys_of sel tr)).

Lemma match_table_complete d sel tbl :
  match_table d (get_all_states d) sel = Ok tbl ->
  forall s i x k to, In (i, to) (transitions_from d s) -> nthN (d_inputs d) i = Some x -> sel x = Some (Ok k) ->
    keys_unique d sel s ->
    exists row, In (s, row) tbl /\ In (k, to) row.
Proof.
  intros H s i x k to Hi Hn Hsel Huniq.
  pose proof (has_transition_state _ _ _ _ Hi) as Hs.
  unfold match_table in H. apply obind_ok in H. destruct H as [rows [Hrows H]].
  change (omap (row_of d sel) (get_all_states d) = Ok rows) in Hrows.
  destruct (omap_ok_total _ _ _ Hrows _ Hs) as [y [Hy Hin]].
  apply row_of_ok in Hy. destruct Hy as [tr [Htr ->]].
  assert (Hk : In (k, to) (keys_of sel tr)).
  { apply keys_of_in. exists x. split; [|exact Hsel]. apply (rtrans_from_in _ _ _ _ _ Htr). eauto. }
  exists (bt_of_list (keys_of sel tr)). split.
  - inversion H; subst. apply filter_In. split; [exact Hin|]. cbn.
    pose proof (bt_of_list_complete _ _ _ (Huniq _ Htr) Hk) as Hc.
    destruct (bt_of_list (keys_of sel tr)); [destruct Hc | reflexivity].
  - apply bt_of_list_complete; [apply Huniq; exact Htr | exact Hk].
Qed.

(** ** completion tables *)
Definition mem3 (L : list (list (N * list N))) (k s id : N) : Prop :=
  exists row, nth_error L (N.to_nat k) = Some row /\ mem2 row s id.

Lemma update_nth_spec {A} n (f : A -> A) l l' :
  update_nth n f l = Some l' ->
  List.length l' = List.length l
  /\ (exists old, nth_error l n = Some old /\ nth_error l' n = Some (f old))
  /\ forall m, m <> n -> nth_error l' m = nth_error l m.
Proof.
  revert n l'. induction l as [|x r IH]; intros n l' H; [destruct n; discriminate|].
  destruct n as [|n]; cbn in H.
  - inversion H; subst. cbn. split; [reflexivity|]. split; [eauto|]. intros [|m] Hm; [congruence | reflexivity].
  - destruct (update_nth n f r) as [r'|] eqn:E; [|discriminate]. inversion H; subst.
    destruct (IH _ _ E) as [Hl [[old [Ho Hn]] Hoth]]. cbn. split; [congruence|]. split; [eauto|].
    intros [|m] Hm; [reflexivity|]. cbn. apply Hoth. congruence.
Qed.

Definition comp_step (sel : inp -> option (N * res N)) (add : N -> list N -> list N)
           (acc : res (list (list (N * list N)))) (fxt : N * inp * N) : res (list (list (N * list N))) :=
  do levels <- acc;
  match fxt with (f, x, _) =>
    match sel x with
    | None => Ok levels
    | Some (lvl, rid) =>
        do id <- rid;
        match update_nth (N.to_nat lvl)
                (bt_update f (fun old => add id (match old with Some l => l | None => [] end))) levels with
        | Some l' => Ok l'
        | None => Panic "completion table: fallback level out of bounds"
        end
    end
  end.

Lemma comp_fold_not_ok sel add rt acc :
  (forall L, acc <> Ok L) -> forall L, fold_left (comp_step sel add) rt acc <> Ok L.
Proof.
  revert acc. induction rt as [|fxt rt IH]; cbn; intros acc H; [exact H|].
  apply IH. intros L. destruct acc; cbn; try discriminate. exfalso. apply (H a). reflexivity.
Qed.

Lemma comp_fold_spec sel add :
  (forall x y l, In x (add y l) <-> x = y \/ In x l) ->
  forall rt L0 L,
    fold_left (comp_step sel add) rt (Ok L0) = Ok L ->
    List.length L = List.length L0
    /\ forall k s id, mem3 L k s id <->
         mem3 L0 k s id \/ exists x to, In (s, x, to) rt /\ sel x = Some (k, Ok id).
Proof.
  intros Hadd. induction rt as [|[[f x] t] rt IH]; cbn [fold_left]; intros L0 L H.
  - inversion H; subst. split; [reflexivity|]. intros k s id. split; [auto|].
    intros [H1|[x [to [[] _]]]]. exact H1.
  - destruct (comp_step sel add (Ok L0) (f, x, t)) as [L1| | |] eqn:E;
      try (exfalso; revert H; apply comp_fold_not_ok; intros L'; discriminate).
    destruct (IH _ _ H) as [Hlen Hmem]. cbn in E.
    destruct (sel x) as [[lvl rid]|] eqn:Hsel.
    + destruct rid as [id0| | |]; cbn in E; try discriminate.
      destruct (update_nth (N.to_nat lvl) _ L0) as [L1'|] eqn:Eu; [|discriminate]. inversion E; subst L1'.
      destruct (update_nth_spec _ _ _ _ Eu) as [Hl1 [[old [Hold Hnew]] Hoth]].
      split; [congruence|]. intros k s id. rewrite Hmem.
      assert (M : mem3 L1 k s id <-> mem3 L0 k s id \/ (k = lvl /\ s = f /\ id = id0)).
      { unfold mem3. destruct (N.eq_dec k lvl) as [->|Hne].
        - rewrite Hnew, Hold. split.
          + intros [row [Hr Hm]]. inversion Hr; subst. apply (bt_update_mem2 add Hadd) in Hm.
            destruct Hm as [Hm|[-> ->]]; [left; eauto | right; auto].
          + intros [[row [Hr Hm]]|[_ [-> ->]]].
            * inversion Hr; subst. eexists; split; [reflexivity|]. apply (bt_update_mem2 add Hadd). auto.
            * eexists; split; [reflexivity|]. apply (bt_update_mem2 add Hadd). auto.
        - rewrite (Hoth (N.to_nat k)) by (intros E2; apply Hne; apply N2Nat.inj; exact E2).
          split; [auto|]. intros [H1|[-> _]]; [exact H1 | congruence]. }
      rewrite M. split.
      * intros [[H1|[-> [-> ->]]]|[x' [to [Hin Hs]]]].
        -- auto.
        -- right. exists x, t. split; [left; reflexivity | exact Hsel].
        -- right. exists x', to. split; [right; exact Hin | exact Hs].
      * intros [H1|[x' [to [[Hin|Hin] Hs]]]].
        -- auto.
        -- inversion Hin; subst. rewrite Hsel in Hs. inversion Hs; subst. left. right. auto.
        -- right. eauto.
    + inversion E; subst L1. split; [exact Hlen|]. intros k s id. rewrite Hmem. split.
      * intros [H1|[x' [to [Hin Hs]]]]; [auto | right; exists x', to; split; [right; exact Hin | exact Hs]].
      * intros [H1|[x' [to [[Hin|Hin] Hs]]]]; [auto | | right; eauto].
        inversion Hin; subst. rewrite Hsel in Hs. discriminate.
Qed.

Lemma mem3_empty n k s id : ~ mem3 (repeat [] n) k s id.
Proof.
  intros [row [Hr [ids [Hin _]]]]. apply nth_error_In in Hr. apply repeat_spec in Hr. subst. destruct Hin.
Qed.

Lemma completion_table_spec rt maxlevel sel add L :
  (forall x y l, In x (add y l) <-> x = y \/ In x l) ->
  completion_table rt maxlevel sel add = Ok L ->
  List.length L = (N.to_nat maxlevel + 1)%nat
  /\ forall k s id, mem3 L k s id <-> exists x to, In (s, x, to) rt /\ sel x = Some (k, Ok id).
Proof.
  intros Hadd H. change (fold_left (comp_step sel add) rt (Ok (repeat [] (N.to_nat maxlevel + 1))) = Ok L) in H.
  destruct (comp_fold_spec sel add Hadd _ _ _ H) as [Hlen Hmem]. split.
  - rewrite Hlen. apply repeat_length.
  - intros k s id. rewrite Hmem. split; [intros [H1|H1]; [exfalso; eapply mem3_empty; exact H1 | exact H1] | auto].
Qed.

Lemma rtrans_in d rt s x to :
  rtrans d = Ok rt ->
  (In (s, x, to) rt <-> exists i, In (s, i, to) (iter_transitions d) /\ nthN (d_inputs d) i = Some x).
Proof.
  intros H. unfold rtrans in H. rewrite (omap_ok_in _ _ _ H). split.
  - intros [[[f i] t] [Hin Hf]]. apply obind_ok in Hf. destruct Hf as [y [Hy Hf]]. inversion Hf; subst.
    unfold get_input in Hy. destruct (nthN (d_inputs d) i) eqn:E; [|discriminate]. inversion Hy; subst. eauto.
  - intros [i [Hin Hn]]. exists (s, i, to). split; [exact Hin|]. unfold get_input. rewrite Hn. reflexivity.
Qed.

(** ** [get_lookup_tables], field by field *)
Definition lit_sel (lits : list (N * string * string)) (x : inp) : option (res N) :=
  match x with ILit t ds _ => Some (lit_id_or_panic lits t ds) | _ => None end.
Definition cmd_sel (cmds : list string) (x : inp) : option (res N) :=
  match x with ICmd c _ => Some (cmd_id_or_panic cmds c) | _ => None end.
Definition compadd_sel (cmds : list string) (x : inp) : option (res N) :=
  match x with ICompadd c _ => Some (cmd_id_or_panic cmds c) | _ => None end.
Definition lit_csel (lits : list (N * string * string)) (x : inp) : option (N * res N) :=
  match x with ILit t ds l => Some (l, lit_id_or_panic lits t ds) | _ => None end.
Definition cmd_csel (cmds : list string) (x : inp) : option (N * res N) :=
  match x with ICmd c l => Some (l, cmd_id_or_panic cmds c) | _ => None end.
Definition compadd_csel (cmds : list string) (x : inp) : option (N * res N) :=
  match x with ICompadd c l => Some (l, cmd_id_or_panic cmds c) | _ => None end.

Lemma opt_when_ok {A} b (r : res A) o :
  opt_when b r = Ok o -> (b = true /\ exists x, r = Ok x /\ o = Some x) \/ (b = false /\ o = None).
Proof.
  destruct b; cbn; intros H.
  - apply obind_ok in H. destruct H as [x [Hx H]]. inversion H; subst. left. eauto.
  - inversion H. auto.
Qed.

Record glt_facts (d : dfa) (cmds : list string) (start : N) (nc ncp ns : bool)
       (ord : list (string * string)) (t : tables) (rt : list (N * inp * N)) : Prop := {
  gf_rt : rtrans d = Ok rt;
  gf_lits : t_literals t = all_literals ord start;
  gf_mlit : match_table d (get_all_states d) (lit_sel (all_literals ord start)) = Ok (t_mlit t);
  gf_mcmd : (nc = true /\ exists m, match_table d (get_all_states d) (cmd_sel cmds) = Ok m /\ t_mcmd t = Some m)
            \/ (nc = false /\ t_mcmd t = None);
  gf_mcompadd : (ncp = true /\ exists m, match_table d (get_all_states d) (compadd_sel cmds) = Ok m /\ t_mcompadd t = Some m)
            \/ (ncp = false /\ t_mcompadd t = None);
  gf_mstar : t_mstar t = if ns then Some (star_transitions rt) else None;
  gf_maxlevel : t_maxlevel t = match get_max_fallback_level rt with Some m => m | None => start end;
  gf_clit : completion_table rt (t_maxlevel t) (lit_csel (all_literals ord start)) insertN = Ok (t_clit t);
  gf_ccmd : (nc = true /\ exists m, completion_table rt (t_maxlevel t) (cmd_csel cmds) insertN = Ok m /\ t_ccmd t = Some m)
            \/ (nc = false /\ t_ccmd t = None);
  gf_ccompadd : (ncp = true /\ exists m, completion_table rt (t_maxlevel t) (compadd_csel cmds) push = Ok m /\ t_ccompadd t = Some m)
            \/ (ncp = false /\ t_ccompadd t = None)
}.

Lemma glt_inv d cmds start nc ncp ns ord t :
  get_lookup_tables d cmds start nc ncp ns ord = Ok t -> exists rt, glt_facts d cmds start nc ncp ns ord t rt.
Proof.
  unfold get_lookup_tables. intros H.
  apply obind_ok in H. destruct H as [mlit [Hmlit H]].
  apply obind_ok in H. destruct H as [mcmd [Hmcmd H]].
  apply obind_ok in H. destruct H as [mcompadd [Hmcompadd H]].
  apply obind_ok in H. destruct H as [rt [Hrt H]].
  apply obind_ok in H. destruct H as [clit [Hclit H]].
  apply obind_ok in H. destruct H as [ccmd [Hccmd H]].
  apply obind_ok in H. destruct H as [ccompadd [Hccompadd H]].
  inversion H; subst; clear H. exists rt.
  apply opt_when_ok in Hmcmd, Hmcompadd, Hccmd, Hccompadd.
  constructor; cbn; try assumption; try reflexivity.
Qed.

(** a transition of the automaton on input [x] *)
Definition trans_on (d : dfa) (s : N) (x : inp) (to : N) : Prop :=
  exists i, step d s i = Some to /\ nthN (d_inputs d) i = Some x.

Lemma trans_on_from d s x to :
  dfa_wf d -> (trans_on d s x to <-> exists i, In (i, to) (transitions_from d s) /\ nthN (d_inputs d) i = Some x).
Proof.
  intros Hwf. unfold trans_on. split; intros [i [H1 H2]]; exists i; split; auto; apply (step_in _ _ _ _ Hwf); exact H1.
Qed.

Lemma trans_on_rt d rt s x to :
  dfa_wf d -> rtrans d = Ok rt -> (In (s, x, to) rt <-> trans_on d s x to).
Proof.
  intros Hwf Hrt. rewrite (rtrans_in _ _ _ _ _ Hrt), (trans_on_from _ _ _ _ Hwf).
  split; intros [i [H1 H2]]; exists i; split; auto; apply (transitions_from_iter _ _ _ _ Hwf); exact H1.
Qed.

Definition tbl_has (tbl : list (N * list (N * N))) (s k to : N) : Prop :=
  exists row, In (s, row) tbl /\ In (k, to) row.

(** literal ids and labels *)
Lemma lit_ids_unique ord start t ds i1 i2 :
  NoDup ord -> In (i1, t, ds) (all_literals ord start) -> In (i2, t, ds) (all_literals ord start) -> i1 = i2.
Proof.
  intros Hnd H1 H2. apply all_literals_in in H1, H2. destruct H1 as [L1 N1], H2 as [L2 N2].
  assert (E : N.to_nat (i1 - start) = N.to_nat (i2 - start)).
  { apply (proj1 (NoDup_nth_error ord) Hnd); [apply nth_error_Some; congruence | congruence]. }
  lia.
Qed.

Lemma lit_id_at ord start t dso l :
  NoDup ord ->
  (lit_id_or_panic (all_literals ord start) t dso = Ok l <-> lit_at ord start l t (unwrap_descr dso)).
Proof.
  intros Hnd. unfold lit_id_or_panic. rewrite <- all_literals_in.
  rewrite <- (lit_id_spec (all_literals ord start) t (unwrap_descr dso) l)
    by (intros i1 i2; apply lit_ids_unique; exact Hnd).
  destruct (lit_id (all_literals ord start) t (unwrap_descr dso)); split; intros H; inversion H; reflexivity.
Qed.

Lemma cmd_id_at cmds c k : cmd_id_or_panic cmds c = Ok k <-> index_of c cmds = Some k.
Proof. unfold cmd_id_or_panic. destruct (index_of c cmds); split; intros H; inversion H; reflexivity. Qed.

Section Tables.
Variables (d : dfa) (cmds : list string) (start : N) (nc ncp ns : bool) (ord : list (string * string)) (t : tables).
Hypothesis Hwf : dfa_wf d.
Hypothesis Hord : NoDup ord.
Hypothesis Hglt : get_lookup_tables d cmds start nc ncp ns ord = Ok t.

(** match, literal: every entry is a literal transition of the automaton ... *)
Theorem mlit_sound s l to :
  tbl_has (t_mlit t) s l to ->
  exists text dso lvl, trans_on d s (ILit text dso lvl) to /\ lit_at ord start l text (unwrap_descr dso).
Proof.
  destruct (glt_inv _ _ _ _ _ _ _ _ Hglt) as [rt F]. intros [row [Hrow Hin]].
  destruct (match_table_sound _ _ _ (gf_mlit _ _ _ _ _ _ _ _ _ F) _ _ _ _ Hrow Hin) as [i [x [Hi [Hn Hsel]]]].
  destruct x; cbn in Hsel; try discriminate. inversion Hsel as [Hid]. apply (lit_id_at _ _ _ _ _ Hord) in Hid.
  exists text, descr, level. split; [|exact Hid]. apply (trans_on_from _ _ _ _ Hwf). eauto.
Qed.

(** ... and every literal transition is an entry, unless two transitions from the same state
    carry the same literal id (known finding: one text under two fallback levels). *)
Theorem mlit_complete s text dso lvl to l :
  trans_on d s (ILit text dso lvl) to -> lit_at ord start l text (unwrap_descr dso) ->
  keys_unique d (lit_sel (all_literals ord start)) s ->
  tbl_has (t_mlit t) s l to.
Proof.
  destruct (glt_inv _ _ _ _ _ _ _ _ Hglt) as [rt F]. intros Htr Hl Hu.
  apply (trans_on_from _ _ _ _ Hwf) in Htr. destruct Htr as [i [Hi Hn]].
  apply (match_table_complete _ _ _ (gf_mlit _ _ _ _ _ _ _ _ _ F) s i _ l to Hi Hn); [|exact Hu].
  cbn. f_equal. apply (lit_id_at _ _ _ _ _ Hord). exact Hl.
Qed.

Theorem mcmd_sound m s c to :
  t_mcmd t = Some m -> tbl_has m s c to ->
  exists cmd lvl, trans_on d s (ICmd cmd lvl) to /\ index_of cmd cmds = Some c.
Proof.
  destruct (glt_inv _ _ _ _ _ _ _ _ Hglt) as [rt F]. intros Hm [row [Hrow Hin]].
  destruct (gf_mcmd _ _ _ _ _ _ _ _ _ F) as [[_ [m' [Hm' E]]]|[_ E]]; rewrite E in Hm; inversion Hm; subst m'.
  destruct (match_table_sound _ _ _ Hm' _ _ _ _ Hrow Hin) as [i [x [Hi [Hn Hsel]]]].
  destruct x; cbn in Hsel; try discriminate. inversion Hsel as [Hid]. apply cmd_id_at in Hid.
  exists cmd, level. split; [|exact Hid]. apply (trans_on_from _ _ _ _ Hwf). eauto.
Qed.

Theorem mcmd_complete m s cmd lvl to c :
  t_mcmd t = Some m -> trans_on d s (ICmd cmd lvl) to -> index_of cmd cmds = Some c ->
  keys_unique d (cmd_sel cmds) s -> tbl_has m s c to.
Proof.
  destruct (glt_inv _ _ _ _ _ _ _ _ Hglt) as [rt F]. intros Hm Htr Hc Hu.
  destruct (gf_mcmd _ _ _ _ _ _ _ _ _ F) as [[_ [m' [Hm' E]]]|[_ E]]; rewrite E in Hm; inversion Hm; subst m'.
  apply (trans_on_from _ _ _ _ Hwf) in Htr. destruct Htr as [i [Hi Hn]].
  apply (match_table_complete _ _ _ Hm' s i _ c to Hi Hn); [|exact Hu].
  cbn. f_equal. apply cmd_id_at. exact Hc.
Qed.

Theorem mcompadd_sound m s c to :
  t_mcompadd t = Some m -> tbl_has m s c to ->
  exists cmd lvl, trans_on d s (ICompadd cmd lvl) to /\ index_of cmd cmds = Some c.
Proof.
  destruct (glt_inv _ _ _ _ _ _ _ _ Hglt) as [rt F]. intros Hm [row [Hrow Hin]].
  destruct (gf_mcompadd _ _ _ _ _ _ _ _ _ F) as [[_ [m' [Hm' E]]]|[_ E]]; rewrite E in Hm; inversion Hm; subst m'.
  destruct (match_table_sound _ _ _ Hm' _ _ _ _ Hrow Hin) as [i [x [Hi [Hn Hsel]]]].
  destruct x; cbn in Hsel; try discriminate. inversion Hsel as [Hid]. apply cmd_id_at in Hid.
  exists cmd, level. split; [|exact Hid]. apply (trans_on_from _ _ _ _ Hwf). eauto.
Qed.

Theorem mcompadd_complete m s cmd lvl to c :
  t_mcompadd t = Some m -> trans_on d s (ICompadd cmd lvl) to -> index_of cmd cmds = Some c ->
  keys_unique d (compadd_sel cmds) s -> tbl_has m s c to.
Proof.
  destruct (glt_inv _ _ _ _ _ _ _ _ Hglt) as [rt F]. intros Hm Htr Hc Hu.
  destruct (gf_mcompadd _ _ _ _ _ _ _ _ _ F) as [[_ [m' [Hm' E]]]|[_ E]]; rewrite E in Hm; inversion Hm; subst m'.
  apply (trans_on_from _ _ _ _ Hwf) in Htr. destruct Htr as [i [Hi Hn]].
  apply (match_table_complete _ _ _ Hm' s i _ c to Hi Hn); [|exact Hu].
  cbn. f_equal. apply cmd_id_at. exact Hc.
Qed.

(** match, any word *)
Theorem mstar_exact l s to :
  t_mstar t = Some l -> (In (s, to) l <-> trans_on d s IStar to).
Proof.
  destruct (glt_inv _ _ _ _ _ _ _ _ Hglt) as [rt F]. intros Hl.
  rewrite (gf_mstar _ _ _ _ _ _ _ _ _ F) in Hl. destruct ns; [|discriminate]. inversion Hl; subst l.
  rewrite <- (trans_on_rt _ _ _ _ _ Hwf (gf_rt _ _ _ _ _ _ _ _ _ F)).
  unfold star_transitions. rewrite in_flat_map. split.
  - intros [[[f x] t'] [Hin H]]. destruct x; cbn in H; try tauto. destruct H as [H|[]]. inversion H; subst. exact Hin.
  - intros Hin. exists (s, IStar, to). split; [exact Hin | cbn; auto].
Qed.

(** completion: the literal ids listed for (level, state) are exactly the literal inputs of that
    level leaving that state -- for every valid literal order, no side condition *)
Theorem clit_exact k s l :
  mem3 (t_clit t) k s l <->
  exists text dso to, trans_on d s (ILit text dso k) to /\ lit_at ord start l text (unwrap_descr dso).
Proof.
  destruct (glt_inv _ _ _ _ _ _ _ _ Hglt) as [rt F].
  destruct (completion_table_spec _ _ _ _ _ insertN_in (gf_clit _ _ _ _ _ _ _ _ _ F)) as [_ Hm].
  rewrite Hm. split.
  - intros [x [to [Hin Hsel]]]. destruct x; cbn in Hsel; try discriminate. inversion Hsel; subst.
    exists text, descr, to. split; [apply (trans_on_rt _ _ _ _ _ Hwf (gf_rt _ _ _ _ _ _ _ _ _ F)); exact Hin|].
    apply (lit_id_at _ _ _ _ _ Hord). assumption.
  - intros [text [dso [to [Htr Hl]]]]. exists (ILit text dso k), to. split.
    + apply (trans_on_rt _ _ _ _ _ Hwf (gf_rt _ _ _ _ _ _ _ _ _ F)). exact Htr.
    + cbn. f_equal. f_equal. apply (lit_id_at _ _ _ _ _ Hord). exact Hl.
Qed.

Theorem clit_levels : List.length (t_clit t) = (N.to_nat (t_maxlevel t) + 1)%nat.
Proof.
  destruct (glt_inv _ _ _ _ _ _ _ _ Hglt) as [rt F].
  apply (completion_table_spec _ _ _ _ _ insertN_in (gf_clit _ _ _ _ _ _ _ _ _ F)).
Qed.

Theorem ccmd_exact m k s c :
  t_ccmd t = Some m ->
  (mem3 m k s c <-> exists cmd to, trans_on d s (ICmd cmd k) to /\ index_of cmd cmds = Some c).
Proof.
  destruct (glt_inv _ _ _ _ _ _ _ _ Hglt) as [rt F]. intros Hm.
  destruct (gf_ccmd _ _ _ _ _ _ _ _ _ F) as [[_ [m' [Hm' E]]]|[_ E]]; rewrite E in Hm; inversion Hm; subst m'.
  destruct (completion_table_spec _ _ _ _ _ insertN_in Hm') as [_ Hmem]. rewrite Hmem. split.
  - intros [x [to [Hin Hsel]]]. destruct x; cbn in Hsel; try discriminate. inversion Hsel; subst.
    exists cmd, to. split; [apply (trans_on_rt _ _ _ _ _ Hwf (gf_rt _ _ _ _ _ _ _ _ _ F)); exact Hin|].
    apply cmd_id_at. assumption.
  - intros [cmd [to [Htr Hc]]]. exists (ICmd cmd k), to. split.
    + apply (trans_on_rt _ _ _ _ _ Hwf (gf_rt _ _ _ _ _ _ _ _ _ F)). exact Htr.
    + cbn. f_equal. f_equal. apply cmd_id_at. exact Hc.
Qed.

Theorem ccompadd_exact m k s c :
  t_ccompadd t = Some m ->
  (mem3 m k s c <-> exists cmd to, trans_on d s (ICompadd cmd k) to /\ index_of cmd cmds = Some c).
Proof.
  destruct (glt_inv _ _ _ _ _ _ _ _ Hglt) as [rt F]. intros Hm.
  destruct (gf_ccompadd _ _ _ _ _ _ _ _ _ F) as [[_ [m' [Hm' E]]]|[_ E]]; rewrite E in Hm; inversion Hm; subst m'.
  destruct (completion_table_spec _ _ _ _ _ push_in Hm') as [_ Hmem]. rewrite Hmem. split.
  - intros [x [to [Hin Hsel]]]. destruct x; cbn in Hsel; try discriminate. inversion Hsel; subst.
    exists cmd, to. split; [apply (trans_on_rt _ _ _ _ _ Hwf (gf_rt _ _ _ _ _ _ _ _ _ F)); exact Hin|].
    apply cmd_id_at. assumption.
  - intros [cmd [to [Htr Hc]]]. exists (ICompadd cmd k), to. split.
    + apply (trans_on_rt _ _ _ _ _ Hwf (gf_rt _ _ _ _ _ _ _ _ _ F)). exact Htr.
    + cbn. f_equal. f_equal. apply cmd_id_at. exact Hc.
Qed.

(** the literal list: ids are consecutive from the shell's array base, in the given order *)
Theorem literals_exact l text ds :
  In (l, text, ds) (t_literals t) <-> lit_at ord start l text ds.
Proof.
  destruct (glt_inv _ _ _ _ _ _ _ _ Hglt) as [rt F]. rewrite (gf_lits _ _ _ _ _ _ _ _ _ F). apply all_literals_in.
Qed.
End Tables.

(** ** shape sharing *)
Lemma list_eqb_eq {A} (eqb : A -> A -> bool) :
  (forall x y, eqb x y = true -> x = y) -> forall a b, list_eqb eqb a b = true -> a = b.
Proof.
  intros H. induction a as [|x r IH]; destruct b as [|y r']; cbn; intros E; try discriminate; [reflexivity|].
  apply andb_prop in E. destruct E as [E1 E2]. f_equal; [apply H; exact E1 | apply IH; exact E2].
Qed.

Lemma option_eqb_eq {A} (eqb : A -> A -> bool) :
  (forall x y, eqb x y = true -> x = y) -> forall a b, option_eqb eqb a b = true -> a = b.
Proof. intros H [x|] [y|]; cbn; intros E; try discriminate; [f_equal; apply H; exact E | reflexivity]. Qed.

Lemma pairN_eqb_eq (p q : N * N) : N.eqb (fst p) (fst q) && N.eqb (snd p) (snd q) = true -> p = q.
Proof.
  destruct p, q; cbn. intros E. apply andb_prop in E. destruct E as [E1 E2].
  apply N.eqb_eq in E1, E2. congruence.
Qed.

Lemma nested_eqb_eq a b : nested_eqb a b = true -> a = b.
Proof.
  apply list_eqb_eq. intros [s r] [s' r']; cbn. intros E. apply andb_prop in E. destruct E as [E1 E2].
  apply N.eqb_eq in E1. apply (list_eqb_eq _ pairN_eqb_eq) in E2. congruence.
Qed.

Lemma levels_eqb_eq a b : levels_eqb a b = true -> a = b.
Proof.
  apply list_eqb_eq. apply list_eqb_eq. intros [s r] [s' r']; cbn. intros E. apply andb_prop in E.
  destruct E as [E1 E2]. apply N.eqb_eq in E1. apply (list_eqb_eq _ (fun x y => proj1 (N.eqb_eq x y))) in E2. congruence.
Qed.

(** two within-word automata put into one shape group have identical tables, literal texts
    excepted *)
Theorem isomorphic_sound a b :
  isomorphic_to a b = true ->
  t_mlit a = t_mlit b /\ t_mcmd a = t_mcmd b /\ t_mcompadd a = t_mcompadd b /\ t_mstar a = t_mstar b
  /\ t_maxlevel a = t_maxlevel b /\ t_clit a = t_clit b /\ t_ccmd a = t_ccmd b /\ t_ccompadd a = t_ccompadd b.
Proof.
  unfold isomorphic_to. intros E.
  apply andb_prop in E. destruct E as [E G8].
  apply andb_prop in E. destruct E as [E G7]. apply andb_prop in E. destruct E as [E G6].
  apply andb_prop in E. destruct E as [E G5]. apply andb_prop in E. destruct E as [E G4].
  apply andb_prop in E. destruct E as [E G3]. apply andb_prop in E. destruct E as [G1 G2].
  apply nested_eqb_eq in G1. apply (option_eqb_eq _ nested_eqb_eq) in G2, G3.
  apply (option_eqb_eq _ (list_eqb_eq _ pairN_eqb_eq)) in G4. apply N.eqb_eq in G5.
  apply levels_eqb_eq in G6. apply (option_eqb_eq _ levels_eqb_eq) in G7, G8.
  repeat split; assumption.
Qed.

(** the shared table set IS the member's own: only the literal list differs *)
Corollary isomorphic_sound_full a b :
  isomorphic_to a b = true ->
  b = mktables (t_literals b) (t_mlit a) (t_mcmd a) (t_mcompadd a) (t_mstar a) (t_maxlevel a)
               (t_clit a) (t_ccmd a) (t_ccompadd a).
Proof.
  intros E. destruct (isomorphic_sound _ _ E) as [H1 [H2 [H3 [H4 [H5 [H6 [H7 H8]]]]]]].
  destruct a, b; cbn in *. congruence.
Qed.

(** ** the tables around the main automaton *)
Definition sub_csel (ids : list (N * N)) (x : inp) : option (N * res N) :=
  match x with ISub s l => Some (l, sub_id_or_panic ids s) | _ => None end.

Record all_facts (sh : shell) (c : cdfa) (om : list (string * string)) (os : list (N * list (string * string)))
       (nd : needs) (a : alltables) (rt : list (N * inp * N)) : Prop := {
  af_needs : get_needs c = Ok nd;
  af_cmds : get_commands c = Ok (a_commands a);
  af_rt : rtrans (c_main c) = Ok rt;
  af_states : a_states a = get_all_states (c_main c);
  af_main : get_lookup_tables (c_main c) (a_commands a) (array_start sh) (n_top_cmd nd)
              (compadd_switch sh (n_top_compadd nd)) (n_top_star nd) om = Ok (a_main a);
  af_subtrans : subword_transitions (c_main c) (get_all_states (c_main c)) = Ok (a_subtrans a);
  af_csub : completion_table rt (t_maxlevel (a_main a)) (sub_csel (get_subwords rt (array_start sh))) push = Ok (a_csub a);
  af_subs : omap (fun pi : N * N =>
      do sd <- lookup_sub c (fst pi);
      let ord := match assocN (fst pi) os with Some o => o | None => [] end in
      do t <- get_lookup_tables sd (a_commands a) (array_start sh) (n_sub_cmd nd)
                (compadd_switch sh (n_sub_compadd nd)) (n_sub_star nd) ord;
      Ok (fst pi, snd pi, t)) (get_subwords rt (array_start sh)) = Ok (a_subwords a);
  af_subacc : omap (fun pi : N * N =>
      do sd <- lookup_sub c (fst pi);
      Ok (snd pi, map (fun s => s + array_start sh) (d_accepting sd))) (get_subwords rt (array_start sh))
      = Ok (a_subaccepting a)
}.

Lemma all_tables_inv sh c om os nd a :
  all_tables sh c om os = Ok (nd, a) -> exists rt, all_facts sh c om os nd a rt.
Proof.
  unfold all_tables. intros H.
  apply obind_ok in H. destruct H as [nd' [Hnd H]].
  apply obind_ok in H. destruct H as [cmds [Hcmds H]].
  apply obind_ok in H. destruct H as [rt [Hrt H]].
  apply obind_ok in H. destruct H as [main [Hmain H]].
  apply obind_ok in H. destruct H as [subtrans [Hst H]].
  apply obind_ok in H. destruct H as [csub [Hcsub H]].
  apply obind_ok in H. destruct H as [subs [Hsubs H]].
  apply obind_ok in H. destruct H as [subacc [Hsubacc H]].
  inversion H; subst; clear H. exists rt. constructor; cbn; try assumption; reflexivity.
Qed.

Section All.
Variables (sh : shell) (c : cdfa) (om : list (string * string)) (os : list (N * list (string * string)))
          (nd : needs) (a : alltables).
Hypothesis Hwf : dfa_wf (c_main c).
Hypothesis Hall : all_tables sh c om os = Ok (nd, a).

(** match, within-word: state -> (pool index of the within-word automaton, next state) *)
Theorem subtrans_exact s pi to :
  (exists row, In (s, row) (a_subtrans a) /\ In (pi, to) row) <-> exists lvl, trans_on (c_main c) s (ISub pi lvl) to.
Proof.
  destruct (all_tables_inv _ _ _ _ _ _ Hall) as [rt F]. pose proof (af_subtrans _ _ _ _ _ _ _ F) as H.
  unfold subword_transitions in H. apply obind_ok in H. destruct H as [rows [Hrows H]]. injection H as Ha.
  split.
  - intros [row [Hrow Hin]]. rewrite <- Ha in Hrow. apply filter_In in Hrow. destruct Hrow as [Hrow _].
    apply (omap_ok_in _ _ _ Hrows) in Hrow. destruct Hrow as [s' [Hs Hf]].
    apply obind_ok in Hf. destruct Hf as [tr [Htr Hf]]. inversion Hf; subst.
    apply in_flat_map in Hin. destruct Hin as [[x t'] [Hx Hin]]. cbn in Hin.
    destruct x; cbn in Hin; try tauto. destruct Hin as [Hin|[]]. inversion Hin; subst.
    apply (rtrans_from_in _ _ _ _ _ Htr) in Hx. exists level. apply (trans_on_from _ _ _ _ Hwf). exact Hx.
  - intros [lvl Htr]. apply (trans_on_from _ _ _ _ Hwf) in Htr. destruct Htr as [i [Hi Hn]].
    pose proof (has_transition_state _ _ _ _ Hi) as Hs.
    destruct (omap_ok_total _ _ _ Hrows _ Hs) as [y [Hy Hin]].
    apply obind_ok in Hy. destruct Hy as [tr [Htr Hy]]. inversion Hy; subst y; clear Hy.
    assert (Hrow : In (pi, to) (flat_map (fun xt : inp * N => match fst xt with ISub sd _ => [(sd, snd xt)] | _ => [] end) tr)).
    { apply in_flat_map. exists (ISub pi lvl, to). split; [|cbn; auto].
      apply (rtrans_from_in _ _ _ _ _ Htr). eauto. }
    eexists. split; [|exact Hrow]. rewrite <- Ha. apply filter_In. split; [exact Hin|]. cbn.
    destruct (flat_map _ tr); [destruct Hrow | reflexivity].
Qed.

(** completion, within-word: the script ids listed for (level, state) *)
Theorem csub_exact k s id :
  mem3 (a_csub a) k s id <->
  exists rt pi to, rtrans (c_main c) = Ok rt /\ trans_on (c_main c) s (ISub pi k) to
                   /\ assocN pi (get_subwords rt (array_start sh)) = Some id.
Proof.
  destruct (all_tables_inv _ _ _ _ _ _ Hall) as [rt F].
  destruct (completion_table_spec _ _ _ _ _ push_in (af_csub _ _ _ _ _ _ _ F)) as [_ Hm]. rewrite Hm. split.
  - intros [x [to [Hin Hsel]]]. destruct x; cbn in Hsel; try discriminate. inversion Hsel as [[Hl Hid]]; subst.
    exists rt, sub, to. split; [exact (af_rt _ _ _ _ _ _ _ F)|]. split.
    + apply (trans_on_rt _ _ _ _ _ Hwf (af_rt _ _ _ _ _ _ _ F)). exact Hin.
    + unfold sub_id_or_panic in Hid. destruct (assocN sub _); inversion Hid; reflexivity.
  - intros [rt' [pi [to [Hrt [Htr Hid]]]]]. rewrite (af_rt _ _ _ _ _ _ _ F) in Hrt. inversion Hrt; subst rt'.
    exists (ISub pi k), to. split.
    + apply (trans_on_rt _ _ _ _ _ Hwf (af_rt _ _ _ _ _ _ _ F)). exact Htr.
    + cbn. unfold sub_id_or_panic. rewrite Hid. reflexivity.
Qed.

(** one table set per within-word automaton met on a transition, computed from THAT automaton *)
Theorem subwords_exact pi id t :
  In (pi, id, t) (a_subwords a) <->
  exists rt sd, rtrans (c_main c) = Ok rt /\ In (pi, id) (get_subwords rt (array_start sh))
    /\ nthN (c_subs c) pi = Some sd
    /\ get_lookup_tables sd (a_commands a) (array_start sh) (n_sub_cmd nd) (compadd_switch sh (n_sub_compadd nd))
         (n_sub_star nd) (match assocN pi os with Some o => o | None => [] end) = Ok t.
Proof.
  destruct (all_tables_inv _ _ _ _ _ _ Hall) as [rt F].
  rewrite (omap_ok_in _ _ _ (af_subs _ _ _ _ _ _ _ F)). split.
  - intros [[pi' id'] [Hin Hf]]. cbn in Hf. apply obind_ok in Hf. destruct Hf as [sd [Hsd Hf]].
    apply obind_ok in Hf. destruct Hf as [t' [Ht Hf]]. inversion Hf; subst.
    exists rt, sd. split; [exact (af_rt _ _ _ _ _ _ _ F)|]. split; [exact Hin|]. split; [|exact Ht].
    unfold lookup_sub in Hsd. destruct (nthN (c_subs c) pi); inversion Hsd; reflexivity.
  - intros [rt' [sd [Hrt [Hin [Hsd Ht]]]]]. rewrite (af_rt _ _ _ _ _ _ _ F) in Hrt. inversion Hrt; subst rt'.
    exists (pi, id). split; [exact Hin|]. cbn. unfold lookup_sub. rewrite Hsd. cbn. rewrite Ht. reflexivity.
Qed.

(** bash: the accepting states printed for a within-word automaton are those of THAT automaton *)
Theorem subaccepting_exact id accs :
  In (id, accs) (a_subaccepting a) <->
  exists rt pi sd, rtrans (c_main c) = Ok rt /\ In (pi, id) (get_subwords rt (array_start sh))
    /\ nthN (c_subs c) pi = Some sd /\ accs = map (fun s => s + array_start sh) (d_accepting sd).
Proof.
  destruct (all_tables_inv _ _ _ _ _ _ Hall) as [rt F].
  rewrite (omap_ok_in _ _ _ (af_subacc _ _ _ _ _ _ _ F)). split.
  - intros [[pi' id'] [Hin Hf]]. cbn in Hf. apply obind_ok in Hf. destruct Hf as [sd [Hsd Hf]].
    inversion Hf; subst. exists rt, pi', sd. split; [exact (af_rt _ _ _ _ _ _ _ F)|]. split; [exact Hin|]. split; [|reflexivity].
    unfold lookup_sub in Hsd. destruct (nthN (c_subs c) pi'); inversion Hsd; reflexivity.
  - intros [rt' [pi [sd [Hrt [Hin [Hsd ->]]]]]]. rewrite (af_rt _ _ _ _ _ _ _ F) in Hrt. inversion Hrt; subst rt'.
    exists (pi, id). split; [exact Hin|]. cbn. unfold lookup_sub. rewrite Hsd. reflexivity.
Qed.
End All.

Lemma NoDup_app_single {A} (l : list A) x : NoDup l -> ~ In x l -> NoDup (l ++ [x]).
Proof.
  induction l as [|y r IH]; cbn; intros Hnd Hn; [constructor; [tauto | constructor]|].
  inversion Hnd; subst. constructor.
  - rewrite in_app_iff. cbn. intuition congruence.
  - apply IH; tauto.
Qed.

(** script ids of within-word automata: consecutive from the array base, one per automaton *)
Lemma get_subwords_ids rt first :
  map snd (get_subwords rt first) = map (fun k => first + N.of_nat k) (seq 0 (List.length (get_subwords rt first)))
  /\ NoDup (map fst (get_subwords rt first)).
Proof.
  unfold get_subwords.
  set (F := fun (acc : list (N * N)) (fxt : N * inp * N) =>
              match fxt with
              | (_, ISub s _, _) => if existsb (fun p => N.eqb (fst p) s) acc then acc else acc ++ [(s, first + lenN acc)]
              | _ => acc
              end).
  assert (G : forall rt acc,
             (map snd acc = map (fun k => first + N.of_nat k) (seq 0 (List.length acc)) /\ NoDup (map fst acc)) ->
             let r := fold_left F rt acc in
             map snd r = map (fun k => first + N.of_nat k) (seq 0 (List.length r)) /\ NoDup (map fst r)).
  { induction rt0 as [|[[f x] t] rt0 IH]; cbn; intros acc Hacc; [exact Hacc|].
    apply IH. destruct x; cbn; try exact Hacc.
    destruct (existsb (fun p => N.eqb (fst p) sub) acc) eqn:E; [exact Hacc|].
    destruct Hacc as [H1 H2]. split.
    - rewrite map_app, app_length, H1. cbn. rewrite Nat.add_1_r, seq_S, map_app. cbn. reflexivity.
    - rewrite map_app. cbn. apply NoDup_app_single; [exact H2|].
      intros Hin. apply in_map_iff in Hin. destruct Hin as [[p q] [Hp Hin]]. cbn in Hp. subst p.
      assert (existsb (fun p => N.eqb (fst p) sub) acc = true).
      { apply existsb_exists. exists (sub, q). split; [exact Hin | cbn; apply N.eqb_refl]. }
      congruence. }
  apply (G rt []). cbn. split; [reflexivity | constructor].
Qed.

(** ** a valid literal order gives an id to every literal input of the automaton *)
Lemma opair_eqb_eq a b : opair_eqb a b = true <-> a = b.
Proof.
  destruct a as [t [d|]], b as [t' [d'|]]; unfold opair_eqb; cbn; split; intros H.
  - apply andb_prop in H. destruct H as [H1 H2]. apply String.eqb_eq in H1, H2. congruence.
  - inversion H; subst. rewrite !String.eqb_refl. reflexivity.
  - apply andb_prop in H. destruct H; discriminate.
  - discriminate.
  - apply andb_prop in H. destruct H; discriminate.
  - discriminate.
  - apply andb_prop in H. destruct H as [H1 _]. apply String.eqb_eq in H1. congruence.
  - inversion H; subst. rewrite String.eqb_refl. reflexivity.
Qed.

Lemma literal_pairs_in d t ds lvl : In (ILit t ds lvl) (d_inputs d) -> In (t, ds) (literal_pairs d).
Proof.
  unfold literal_pairs.
  set (F := fun (acc : list (string * option string)) (i : inp) =>
              match i with
              | ILit t ds _ => if existsb (opair_eqb (t, ds)) acc then acc else acc ++ [(t, ds)]
              | _ => acc
              end).
  assert (Mono : forall l acc p, In p acc -> In p (fold_left F l acc)).
  { induction l as [|x l IH]; cbn; intros acc p Hp; [exact Hp|]. apply IH.
    destruct x; cbn; try exact Hp. destruct (existsb _ acc); [exact Hp | apply in_or_app; auto]. }
  assert (G : forall l acc, In (ILit t ds lvl) l -> In (t, ds) (fold_left F l acc)).
  { induction l as [|x l IH]; cbn; intros acc Hin; [tauto|]. destruct Hin as [->|Hin]; [|apply IH; exact Hin].
    apply Mono. cbn. destruct (existsb (opair_eqb (t, ds)) acc) eqn:E.
    - apply existsb_exists in E. destruct E as [p [Hp E]]. apply opair_eqb_eq in E. subst. exact Hp.
    - apply in_or_app. right. cbn. auto. }
  apply G.
Qed.

Lemma pair_eqb_eq a b : pair_eqb a b = true <-> a = b.
Proof.
  destruct a, b; unfold pair_eqb; cbn. rewrite andb_true_iff, !String.eqb_eq. split; [intros []; congruence | intros H; inversion H; auto].
Qed.

Lemma count_pair_pos x l : In x l <-> (0 < count_pair x l)%nat.
Proof.
  unfold count_pair. induction l as [|y r IH]; cbn; [split; [tauto | lia]|].
  destruct (pair_eqb x y) eqn:E; cbn.
  - apply pair_eqb_eq in E. subst. split; [lia | auto].
  - rewrite <- IH. split; [intros [->|H]; [|exact H] | auto].
    assert (pair_eqb x x = true) by (apply pair_eqb_eq; reflexivity). congruence.
Qed.

Theorem valid_order_covers d ord start i text dso lvl :
  valid_literal_order d ord = true -> nthN (d_inputs d) i = Some (ILit text dso lvl) ->
  exists l, lit_at ord start l text (unwrap_descr dso).
Proof.
  unfold valid_literal_order. intros H Hn. apply andb_prop in H. destruct H as [H _].
  apply andb_prop in H. destruct H as [_ H]. rewrite forallb_forall in H.
  assert (Hin : In (text, unwrap_descr dso) (map (fun p => (fst p, unwrap_descr (snd p))) (literal_pairs d))).
  { apply in_map_iff. exists (text, dso). split; [reflexivity|]. apply (literal_pairs_in d text dso lvl).
    unfold nthN in Hn. apply nth_error_In in Hn. exact Hn. }
  assert (Ho : In (text, unwrap_descr dso) ord).
  { apply count_pair_pos. specialize (H _ (in_or_app _ _ _ (or_intror Hin))). apply Nat.eqb_eq in H. rewrite H.
    apply count_pair_pos. exact Hin. }
  apply In_nth_error in Ho. destruct Ho as [n Hn']. exists (start + N.of_nat n). unfold lit_at. split; [lia|].
  replace (N.to_nat (start + N.of_nat n - start)) with n by lia. exact Hn'.
Qed.
