(** The converse inclusion of the round trip, for arbitrary input and either lexer configuration:
    every grammar the parser model returns satisfies [stmt_img], and [wf_stmt = stmt_img && stmt_nohash];
    so the parser's image is exactly the printable grammars, plus those with a literal starting
    with [#]. *)
From CG Require Import Base.Prelude Model.Ast Model.Lexer Model.Parser Spec.Printer Spec.Spans Spec.Shape Spec.Image
  Proofs.LexBase Proofs.LexBlanks Proofs.LexTerminal Proofs.LexTokens Proofs.LexCommand
  Proofs.SpanSound Proofs.ParseShape Proofs.TrimFacts.
From CGgen Require Import Consts.

(** *** what the lexers return *)

Lemma lex1_chars : forall rb re n s p t r q, (String.length s <= n)%nat ->
    lex1 rb re s p = Some (t, (r, q)) -> all_chars lit_char_ok t = true.
Proof.
  induction n; intros s p t r q Hn H.
  - destruct s; [|cbn in Hn; lia]. cbn in H. inversion H; subst. reflexivity.
  - destruct s as [|c s1]; [cbn in H; inversion H; subst; reflexivity|].
    cbn [lex1] in H. cbn [String.length] in Hn.
    destruct (is_regular c) eqn:R.
    { destruct (lex1 rb re s1 (adv_char c p)) as [[t1 [r1 q1]]|] eqn:E; cbn [lcons] in H; [|discriminate].
      inversion H; subst. apply IHn in E; [|lia]. cbn [append all_chars]. unfold lit_char_ok at 1. rewrite R, E. reflexivity. }
    destruct (Ascii.eqb c BACKSLASH).
    { destruct s1 as [|d s2]; [discriminate|]. destruct (is_escapable d) eqn:Ed; [|discriminate].
      destruct (lex1 rb re s2 _) as [[t1 [r1 q1]]|] eqn:E; cbn [lcons] in H; [|discriminate].
      inversion H; subst. apply IHn in E; [|cbn [String.length] in Hn; lia].
      cbn [append all_chars]. unfold lit_char_ok at 1. rewrite Ed, E, orb_true_r. reflexivity. }
    destruct (Ascii.eqb c DOT) eqn:D.
    { destruct (starts_with "..." (String c s1)).
      - inversion H; subst. reflexivity.
      - destruct (lex1 rb re s1 (adv_char c p)) as [[t1 [r1 q1]]|] eqn:E; cbn [lcons] in H; [|discriminate].
        inversion H; subst. apply IHn in E; [|lia]. cbn [append all_chars]. unfold lit_char_ok at 1.
        apply eqb_eq_a in D. subst c. rewrite escapable_dot, E, orb_true_r. reflexivity. }
    inversion H; subst. reflexivity.
Qed.

Lemma terminal_img : forall c i t i', terminal c i = Ok (t, i') -> lit_img t = true.
Proof.
  intros [rb re] [s p] t i' H. unfold terminal in H. cbn [reset_after_backslash reset_after_escaped] in H.
  rewrite terminal_spec in H. destruct (lex1 rb re s p) as [[t0 [r q]]|] eqn:E; [|discriminate].
  pose proof (lex1_chars _ _ _ _ _ _ _ _ (Nat.le_refl _) E) as C.
  destruct t0; [discriminate|]. inversion H; subst. unfold lit_img. rewrite C. reflexivity.
Qed.

Lemma take_while1_inv : forall p s q a i', take_while1 p (mkin s q) = Ok (a, i') ->
    nonempty a = true /\ all_chars p a = true /\ s = append a (rest i')
    /\ hd_in (fun c => negb (p c)) (rest i') = true.
Proof.
  intros p s q a i' H. unfold take_while1, take_while in H. cbn [rest at_] in H.
  destruct (span_while p s) as [x y] eqn:E. destruct x; [discriminate|]. inversion H; subst. cbn [rest].
  repeat split; [eapply span_while_all; eauto|eapply span_while_app; eauto|eapply span_while_stop; eauto].
Qed.

Lemma char_p_inv : forall ch s q i', char_p ch (mkin s q) = Ok (tt, i') -> s = String ch (rest i').
Proof.
  intros ch s q i' H. unfold char_p in H. cbn [rest at_] in H. destruct s as [|d r]; [discriminate|].
  destruct (Ascii.eqb d ch) eqn:E; [|discriminate]. apply eqb_eq_a in E. inversion H; subst. reflexivity.
Qed.

Lemma nonterm_inv : forall i nm sp i', nonterm i = Ok ((nm, sp), i') ->
    wf_nt nm = true /\ rest i = String LT (append nm (String GT (rest i'))).
Proof.
  intros [s q] nm sp i' H. unfold nonterm in H. dobind H. dobind H. dobind H. inversion H; subst.
  destruct u, u0. destruct i as [s1 q1], i0 as [s2 q2].
  apply char_p_inv in E. apply take_while1_inv in E0 as (N & A & S1 & _). apply char_p_inv in E1.
  cbn [rest] in *. subst. split; auto. unfold wf_nt. destruct nm; [cbn in N; discriminate N|]. cbn [is_empty negb andb]. exact A.
Qed.

Lemma nonterm_img : forall i nm sp i', nonterm i = Ok ((nm, sp), i') -> wf_nt nm = true.
Proof. intros. eapply nonterm_inv; eauto. Qed.

Lemma command_img : forall i x i', triple_bracket_command i = Ok (x, i') -> wf_cmd x = true.
Proof.
  intros i x i' H. unfold triple_bracket_command in H. dobind H. dobind H. dobind H. inversion H; subst.
  unfold take_until in E0. destruct (split_until "}}}" (rest i0)) as [[a b]|] eqn:Sp; [|discriminate].
  inversion E0; subst. unfold wf_cmd.
  destruct (trim_fixed s) as [F1 F2]. rewrite F1, F2, !String.eqb_refl.
  assert (Hne : "}}}" <> EmptyString) by discriminate.
  change RBRACE3 with "}}}". rewrite (has_sub_trim _ _ (split_until_nosub "}}}" _ _ _ Hne Sp)). reflexivity.
Qed.

Lemma all_chars_both_inv : forall n,
    all_chars (fun c => negb (Ascii.eqb c GT) && negb (Ascii.eqb c AT)) n = true ->
    all_chars (fun c => negb (Ascii.eqb c GT)) n = true /\ all_chars (fun c => negb (Ascii.eqb c AT)) n = true.
Proof.
  induction n; cbn [all_chars]; intros H; auto.
  apply andb_true_iff in H as [H1 H2]. apply andb_true_iff in H1 as [A B]. destruct (IHn H2). rewrite A, B. auto.
Qed.

Lemma wf_nt_intro : forall n, nonempty n = true -> all_chars (fun c => negb (Ascii.eqb c GT)) n = true -> wf_nt n = true.
Proof. intros [|c n] N A; [cbn in N; discriminate N|]. unfold wf_nt. cbn [is_empty negb andb]. exact A. Qed.

Lemma nonterm_def_img : forall i nm nsp sh j, nonterm_def i = Ok ((nm, nsp, sh), j) ->
    match sh with
    | Some (s, _) => wf_nt nm = true /\ all_chars (fun c => negb (Ascii.eqb c AT)) nm = true /\ wf_nt s = true
    | None => wf_nt nm = true /\ spec_like nm = false
    end.
Proof.
  intros [s0 q0] nm nsp sh j ND. unfold nonterm_def in ND.
  destruct (nonterm_specialization (mkin s0 q0)) as [[[[[nm' nsp'] sh'] ssp'] j']|u| |] eqn:Sp; try discriminate ND.
  - inversion ND; subst. unfold nonterm_specialization in Sp.
    dobind Sp. dobind Sp. dobind Sp. dobind Sp. dobind Sp. inversion Sp; subst.
    destruct i as [s1 q1], i0 as [s2 q2], i1 as [s3 q3], i2 as [s4 q4].
    apply take_while1_inv in E0 as (N1 & A1 & _). apply take_while1_inv in E2 as (N2 & A2 & _).
    destruct (all_chars_both_inv _ A1) as [G1 G2]. repeat split; auto; apply wf_nt_intro; auto.
  - destruct (nonterm (mkin s0 q0)) as [[[nm' nsp'] j']| | |] eqn:N; try discriminate ND. inversion ND; subst.
    destruct (nonterm_inv _ _ _ _ N) as [W R]. split; auto. cbn [rest] in R.
    destruct (spec_like nm) eqn:SL; auto. exfalso.
    unfold spec_like in SL.
    destruct (span_while (fun c => negb (Ascii.eqb c AT)) nm) as [a b] eqn:E.
    pose proof (span_while_app _ _ _ _ E) as En. pose proof (span_while_all _ _ _ _ E) as Ea.
    pose proof (span_while_stop _ _ _ _ E) as Es.
    apply andb_true_iff in SL as [Na Nb]. destruct b as [|x sh]; [discriminate|].
    cbn [hd_in] in Es. apply negb_true_iff in Es. apply negb_false_iff in Es. apply eqb_eq_a in Es. subst x.
    unfold wf_nt in W. apply andb_true_iff in W as [_ W]. subst nm. rewrite all_chars_app in W.
    apply andb_true_iff in W as [Wa Wb]. cbn [all_chars] in Wb. apply andb_true_iff in Wb as [_ Wsh].
    assert (X := nonterm_specialization_printed a sh (rest j) q0).
    rewrite R in Sp. rewrite app_assoc_s in Sp. cbn [append] in Sp. cbv zeta in X. rewrite X in Sp; [discriminate| | |].
    + apply wf_nt_intro; auto. destruct a; [discriminate|reflexivity].
    + exact Ea.
    + apply wf_nt_intro; auto. destruct sh; [discriminate|reflexivity].
Qed.

Theorem parse_image : forall c s g, parse_with c s = Ok g -> forallb stmt_img g = true.
Proof.
  intros c s g H. apply forallb_forall. apply Forall_forall.
  apply (parse_Forall c (fun st => stmt_img st = true)) with (s := s); auto.
  intros n i st i' Hs.
  destruct (statement_cases c lit_img wf_nt wf_cmd (terminal_img c) nonterm_img command_img n i st i' Hs) as [Se Sn].
  destruct st as [name nsp e|name nsp sh rhs]; cbn [stmt_img stmt_expr] in *.
  - destruct Sn as [j Sn]. rewrite (terminal_img _ _ _ _ Sn). exact Se.
  - destruct Sn as [j Sn]. pose proof (nonterm_def_img _ _ _ _ _ Sn) as Nd.
    destruct sh as [[sn ssp]|].
    + destruct Nd as (A & B & C). rewrite A, B, C. exact Se.
    + destruct Nd as (A & B). rewrite A, B. exact Se.
Qed.

(** *** [wf] = image and no literal starting with [#] *)

Lemma wf_lit_split : forall t, wf_lit t = lit_img t && no_hash t.
Proof.
  intros [|c t]; [reflexivity|]. unfold wf_lit, lit_img, no_hash. cbn [nonempty andb].
  destruct (negb (Ascii.eqb c HASH)); cbn [andb]; [rewrite andb_true_r|rewrite andb_false_r]; reflexivity.
Qed.

Lemma forallb_split : forall (f g h : expr -> bool) cs,
    Forall (fun x => f x = g x && h x) cs -> forallb f cs = forallb g cs && forallb h cs.
Proof.
  induction 1; cbn [forallb]; auto. rewrite H, IHForall.
  destruct (g x), (h x), (forallb g l), (forallb h l); reflexivity.
Qed.

Definition SplitQ (e : expr) : Prop :=
  (forall w, wfb w e = imgb w e && nohash e)
  /\ match e with Sequence fs _ => Forall (fun x => forall w, wfb w x = imgb w x && nohash x) fs | _ => True end.

Lemma Forall_SplitQ : forall cs, Forall SplitQ cs -> Forall (fun x => forall w, wfb w x = imgb w x && nohash x) cs.
Proof. induction 1; constructor; auto. destruct H; auto. Qed.

Lemma wfb_split_all : forall e, SplitQ e.
Proof.
  unfold SplitQ, imgb.
  induction e using expr_ind'; (split; [intros w; cbn [wfb gshapeb nohash]|try (cbn iota; constructor)]).
  - rewrite wf_lit_split. destruct (lit_img t), (no_hash t), (N.eqb l 0); reflexivity.
  - rewrite andb_true_r. reflexivity.
  - rewrite andb_true_r. reflexivity.
  - apply Forall_SplitQ in H.
    rewrite (forallb_split (wfb w) (gshapeb lit_img wf_nt wf_cmd w) nohash cs)
      by (eapply Forall_impl; [|exact H]; cbn beta; intros a Ha; apply Ha).
    rewrite andb_assoc. reflexivity.
  - apply Forall_SplitQ; auto.
  - apply Forall_SplitQ in H.
    rewrite (forallb_split (wfb w) (gshapeb lit_img wf_nt wf_cmd w) nohash cs)
      by (eapply Forall_impl; [|exact H]; cbn beta; intros a Ha; apply Ha).
    rewrite andb_assoc. reflexivity.
  - apply IHe.
  - apply IHe.
  - apply IHe.
  - apply Forall_SplitQ in H.
    rewrite (forallb_split (wfb w) (gshapeb lit_img wf_nt wf_cmd w) nohash cs)
      by (eapply Forall_impl; [|exact H]; cbn beta; intros a Ha; apply Ha).
    rewrite andb_assoc. reflexivity.
  - destruct IHe as [_ IHfs]. destruct e; cbn [nohash]; try (rewrite !andb_false_r; reflexivity).
    rewrite (forallb_split (wfb true) (gshapeb lit_img wf_nt wf_cmd true) nohash children)
      by (eapply Forall_impl; [|exact IHfs]; cbn beta; intros a Ha; apply Ha).
    destruct (negb w), (N.eqb l 0), (Nat.leb 2 (List.length children)),
      (forallb (gshapeb lit_img wf_nt wf_cmd true) children), (forallb nohash children); reflexivity.
Qed.

Theorem wf_stmt_split : forall st, wf_stmt st = stmt_img st && stmt_nohash st.
Proof.
  intros [name nsp e|name nsp [[sh ssp]|] rhs]; cbn [wf_stmt stmt_img stmt_nohash];
    rewrite (proj1 (wfb_split_all _) false).
  - rewrite wf_lit_split.
    destruct (lit_img name), (no_hash name), (imgb false e), (nohash e); reflexivity.
  - rewrite !andb_assoc. reflexivity.
  - rewrite !andb_assoc. reflexivity.
Qed.

(** every parsed grammar without a literal starting with [#] is printable *)
Theorem parse_image_wf : forall c s g, parse_with c s = Ok g -> forallb stmt_nohash g = true -> wf g.
Proof.
  intros c s g H N. apply parse_image in H. unfold wf. rewrite forallb_forall in *. intros st Hst.
  rewrite wf_stmt_split, (H st Hst), (N st Hst). reflexivity.
Qed.
