(** The words of the validated tree against the words of the specification's expansion. *)
From CG Require Import Base.Prelude Model.Ast Model.Check Spec.Choice Spec.Mistakes.
From CG Require Import Proofs.CheckChoice Proofs.CheckMistakes Proofs.CheckLemmas Proofs.CheckWarnings.
From CG Require Import Proofs.CheckCycle Proofs.CheckTotal Proofs.CheckFront Proofs.CheckCycleSpec.
From CG Require Import Proofs.CheckSpans Proofs.CheckResolve Proofs.CheckOrder Proofs.CheckUndefined.
From CG Require Import Proofs.CheckSpacesSpec.
From CG Require Import Proofs.PhExpr Proofs.PhSkel.

Local Open Scope list_scope.

Section Corr.
  Variable builtins : shell -> list (string * string).
  Variable g : grammar.
  Variable sh : shell.
  Variable us : list (string * user_spec).
  Variable fs : list (string * (string * span)).
  Variable plain : list string.
  Variable T : list (string * expr).

  Notation mt' := (mt builtins sh us fs plain).
  Notation mts' := (mts builtins sh us fs plain).
  Definition isP : expr -> bool := is_placeholder builtins g sh.

  Hypothesis mt_ref : forall d n l s rhs,
      plain_chosen g sh n = Some rhs -> mt' d (NontermRef n l s) = NontermRef n l s.
  Hypothesis T_eqn : forall n rhs,
      plain_chosen g sh n = Some rhs -> assoc n T = Some (resolve T (mt' None rhs)).
  Hypothesis ref_none : forall d n l s,
      plain_chosen g sh n = None ->
      (mt' d (NontermRef n l s) = NontermRef n l s /\ assoc n T = None /\ isP (NontermRef n l s) = true)
      \/ (exists c z, mt' d (NontermRef n l s) = Command c z l s /\ isP (NontermRef n l s) = false).

  Definition complete (K : nat) (e : expr) : Prop :=
    forall y, In y (all_refs (expand g sh K e)) -> plain_chosen g sh y = None.

  Definition P (K : nat) (e : expr) (d : option string) : Prop :=
    skw isref (resolve T (mt' d e)) = skw isP (expand g sh K e) /\
    wsk isref (resolve T (mt' d e)) = wsk isP (expand g sh K e).

  Lemma complete_child K (cs : list expr) (mk : list expr -> expr) :
    (forall l, all_refs (mk l) = flat_map all_refs l) ->
    expand g sh K (mk cs) = mk (map (expand g sh K) cs) ->
    complete K (mk cs) -> forall c, In c cs -> complete K c.
  Proof.
    intros Hr He Hc c Hin y Hy. apply Hc. rewrite He, Hr. apply in_flat_map.
    exists (expand g sh K c). split; [apply in_map; exact Hin|exact Hy].
  Qed.

  Lemma corr_seq K cs :
    Forall (fun c => forall d, complete K c -> P K c d) cs -> (forall c, In c cs -> complete K c) ->
    forall d,
      map (skw isref) (map (resolve T) (mts' d cs)) = map (skw isP) (map (expand g sh K) cs) /\
      map (skw isref) (flat_map words_of (map (resolve T) (mts' d cs)))
      = map (skw isP) (flat_map words_of (map (expand g sh K) cs)).
  Proof.
    induction 1 as [|c r Hc _ IH]; intros Hall d; [split; reflexivity|].
    rewrite mts_cons. cbn [map flat_map]. rewrite !map_app.
    destruct (Hc d (Hall c (or_introl eq_refl))) as [A B].
    destruct (IH (fun x Hx => Hall x (or_intror Hx)) (snd (distribute c d))) as [A' B'].
    unfold wsk in B. rewrite A, A', B, B'. split; reflexivity.
  Qed.

  Lemma corr_alt K cs d :
    Forall (fun c => forall d, complete K c -> P K c d) cs -> (forall c, In c cs -> complete K c) ->
      map (skw isref) (map (resolve T) (map (mt' d) cs)) = map (skw isP) (map (expand g sh K) cs) /\
      map (skw isref) (flat_map words_of (map (resolve T) (map (mt' d) cs)))
      = map (skw isP) (flat_map words_of (map (expand g sh K) cs)).
  Proof.
    induction 1 as [|c r Hc _ IH]; intros Hall; [split; reflexivity|].
    cbn [map flat_map]. rewrite !map_app.
    destruct (Hc d (Hall c (or_introl eq_refl))) as [A B].
    destruct (IH (fun x Hx => Hall x (or_intror Hx))) as [A' B'].
    unfold wsk in B. rewrite A, A', B, B'. split; reflexivity.
  Qed.

  Lemma corr_gen K
        (IHk : forall K', K = S K' -> forall e d, complete K' e -> P K' e d) :
    forall e d, complete K e -> P K e d.
  Proof.
    induction e using expr_ind'; intros d0 Hc.
    - destruct (mt_term builtins sh us fs plain d0 t d l sp) as [d' Hd]. unfold P. rewrite Hd.
      rewrite expand_leaf by exact I. split; reflexivity.
    - assert (Hnone : plain_chosen g sh n = None -> expand g sh K (NontermRef n l sp) = NontermRef n l sp ->
                      P K (NontermRef n l sp) d0).
      { intros Hn He. unfold P. rewrite He.
        destruct (ref_none d0 n l sp Hn) as [(Hm & Ha & Hp)|(c & z & Hm & Hp)]; rewrite Hm.
        - cbn [resolve]. rewrite Ha. unfold wsk. cbn [skw words_of map isref]. rewrite Hp. split; reflexivity.
        - cbn [resolve]. unfold wsk. cbn [skw words_of map]. rewrite Hp. split; reflexivity. }
      destruct K as [|K'].
      + apply Hnone; [|reflexivity]. apply Hc. rewrite expand_ref. left. reflexivity.
      + destruct (plain_chosen g sh n) as [rhs|] eqn:E.
        * unfold P. rewrite expand_ref, E, (mt_ref d0 n l sp rhs E). cbn [resolve]. rewrite (T_eqn n rhs E).
          apply (IHk K' eq_refl rhs None). intros y Hy. apply Hc. rewrite expand_ref, E. exact Hy.
        * apply Hnone; [reflexivity|]. rewrite expand_ref, E. reflexivity.
    - unfold P. rewrite expand_leaf by exact I. split; reflexivity.
    - unfold P. rewrite mt_seq, expand_seq. unfold wsk. cbn [resolve skw words_of].
      destruct (corr_seq K cs H
                  (complete_child K cs (fun l => Sequence l sp) (fun l => eq_refl) (expand_seq g sh K cs sp) Hc) d0)
        as [A B].
      rewrite A, B. split; reflexivity.
    - unfold P. rewrite mt_alt, expand_alt. unfold wsk. cbn [resolve skw words_of].
      destruct (corr_alt K cs d0 H
                  (complete_child K cs (fun l => Alternative l sp) (fun l => eq_refl) (expand_alt g sh K cs sp) Hc))
        as [A B].
      rewrite A, B. split; reflexivity.
    - unfold P. rewrite mt_opt, expand_opt. unfold wsk. cbn [resolve skw words_of].
      assert (Hce : complete K e) by (intros y Hy; apply Hc; rewrite expand_opt; exact Hy).
      destruct (IHe d0 Hce) as [A B]. unfold wsk in B. rewrite A, B. split; reflexivity.
    - unfold P. rewrite mt_many, expand_many. unfold wsk. cbn [resolve skw words_of].
      assert (Hce : complete K e) by (intros y Hy; apply Hc; rewrite expand_many; exact Hy).
      destruct (IHe d0 Hce) as [A B]. unfold wsk in B. rewrite A, B. split; reflexivity.
    - unfold P. rewrite mt_dd, expand_dd. unfold wsk. cbn [skw words_of].
      assert (Hce : complete K e) by (intros y Hy; apply Hc; rewrite expand_dd; exact Hy).
      exact (IHe (Some d) Hce).
    - unfold P. rewrite mt_fb, expand_fb. unfold wsk. cbn [resolve skw words_of].
      destruct (corr_seq K cs H
                  (complete_child K cs (fun l => Fallback l sp) (fun l => eq_refl) (expand_fb g sh K cs sp) Hc) d0)
        as [A B].
      rewrite A, B. split; reflexivity.
    - unfold P. rewrite mt_sub, expand_sub. unfold wsk. cbn [resolve skw words_of map].
      assert (Hce : complete K e) by (intros y Hy; apply Hc; rewrite expand_sub; exact Hy).
      destruct (IHe d0 Hce) as [A _]. rewrite A. split; reflexivity.
  Qed.

  Theorem corr K : forall e d, complete K e -> P K e d.
  Proof.
    induction K as [|K IH]; apply corr_gen; intros K' HK; [discriminate|].
    inversion HK; subst. exact IH.
  Qed.
End Corr.

(** * The expansion of the specification is complete on an acyclic grammar *)
Section Fuel.
  Variable g : grammar.
  Variable sh : shell.

  Lemma rpath_incl c e l y :
    (forall x, In x (all_refs c) -> In x (all_refs e)) -> rpath g sh c l y -> rpath g sh e l y.
  Proof.
    intros Hi H. inversion H; subst.
    - apply rp_here. apply Hi. assumption.
    - eapply rp_step; [apply Hi; eassumption|eassumption|assumption].
  Qed.

  Definition Q (K : nat) (e : expr) : Prop :=
    forall y, In y (all_refs (expand g sh K e)) ->
              plain_chosen g sh y = None \/ exists l, List.length l = K /\ rpath g sh e l y.

  Lemma Q_children K cs (mk : list expr -> expr) :
    (forall l, all_refs (mk l) = flat_map all_refs l) ->
    expand g sh K (mk cs) = mk (map (expand g sh K) cs) ->
    Forall (Q K) cs -> Q K (mk cs).
  Proof.
    intros Hr He HF y Hy. rewrite He, Hr in Hy. apply in_flat_map in Hy. destruct Hy as [x [Hx Hy]].
    apply in_map_iff in Hx. destruct Hx as [c [<- Hc]]. rewrite Forall_forall in HF.
    destruct (HF c Hc y Hy) as [Hn|[l [Hl Hp]]]; [left; exact Hn|right]. exists l. split; [exact Hl|].
    eapply rpath_incl; [|exact Hp]. intros x Hx. rewrite Hr. apply in_flat_map. exists c. split; assumption.
  Qed.

  Lemma Q_same K c e :
    (forall x, In x (all_refs c) -> In x (all_refs e)) -> Q K c ->
    forall y, In y (all_refs (expand g sh K c)) ->
              plain_chosen g sh y = None \/ exists l, List.length l = K /\ rpath g sh e l y.
  Proof.
    intros Hi Hq y Hy. destruct (Hq y Hy) as [Hn|[l [Hl Hp]]]; [left; exact Hn|right].
    exists l. split; [exact Hl|]. eapply rpath_incl; eassumption.
  Qed.

  Lemma expand_refs_gen K (IHk : forall K', K = S K' -> forall e, Q K' e) : forall e, Q K e.
  Proof.
    induction e using expr_ind'.
    - intros y Hy. rewrite expand_leaf in Hy by exact I. destruct Hy.
    - intros y Hy. rewrite expand_ref in Hy. destruct K as [|K'].
      + right. exists []. split; [reflexivity|apply rp_here; exact Hy].
      + destruct (plain_chosen g sh n) as [rhs|] eqn:E.
        * destruct (IHk K' eq_refl rhs y Hy) as [Hn|[l0 [Hl Hp]]]; [left; exact Hn|right].
          exists (n :: l0). split; [cbn; rewrite Hl; reflexivity|].
          eapply rp_step; [left; reflexivity|exact E|exact Hp].
        * destruct Hy as [Hy|[]]. subst y. left. exact E.
    - intros y Hy. rewrite expand_leaf in Hy by exact I. destruct Hy.
    - apply (Q_children K cs (fun l => Sequence l sp)); [reflexivity|apply expand_seq|exact H].
    - apply (Q_children K cs (fun l => Alternative l sp)); [reflexivity|apply expand_alt|exact H].
    - intros y Hy. rewrite expand_opt in Hy. apply (Q_same K e (Optional e sp) (fun x Hx => Hx) IHe y Hy).
    - intros y Hy. rewrite expand_many in Hy. apply (Q_same K e (Many1 e sp) (fun x Hx => Hx) IHe y Hy).
    - intros y Hy. rewrite expand_dd in Hy. apply (Q_same K e (DistDescr e d sp) (fun x Hx => Hx) IHe y Hy).
    - apply (Q_children K cs (fun l => Fallback l sp)); [reflexivity|apply expand_fb|exact H].
    - intros y Hy. rewrite expand_sub in Hy. apply (Q_same K e (Subword e l sp) (fun x Hx => Hx) IHe y Hy).
  Qed.

  Lemma expand_refs K : forall e, Q K e.
  Proof.
    induction K as [|K IH]; apply expand_refs_gen; intros K' HK; [discriminate|].
    inversion HK; subst. exact IH.
  Qed.

  Variable rank : string -> nat.
  Hypothesis Hrank : forall a b, depends g sh a b = true -> (rank b < rank a)%nat.

  Theorem complete_fuel e : complete g sh (fuel_of g) e.
  Proof.
    intros y Hy. destruct (expand_refs (fuel_of g) e y Hy) as [Hn|[l [Hl Hp]]]; [exact Hn|].
    exfalso. pose proof (rpath_short g sh rank Hrank e l y Hp) as Hs. unfold fuel_of in Hl. lia.
  Qed.

  (** operands everywhere, also after expansion *)
  Hypothesis Hops : forall n rhs, plain_chosen g sh n = Some rhs -> ops_nonempty rhs = true.

  Lemma expand_ops_gen K (IHk : forall K', K = S K' -> forall e, ops_nonempty e = true -> ops_nonempty (expand g sh K' e) = true) :
    forall e, ops_nonempty e = true -> ops_nonempty (expand g sh K e) = true.
  Proof.
    assert (Hl : forall cs, Forall (fun e => ops_nonempty e = true -> ops_nonempty (expand g sh K e) = true) cs ->
                  match cs with [] => false | _ => forallb ops_nonempty cs end = true ->
                  match map (expand g sh K) cs with [] => false | _ => forallb ops_nonempty (map (expand g sh K) cs) end = true).
    { intros cs HF H. destruct cs as [|c r]; [discriminate|]. cbn [map].
      change (expand g sh K c :: map (expand g sh K) r) with (map (expand g sh K) (c :: r)).
      rewrite CheckTree.forallb_map. rewrite forallb_forall in *. rewrite Forall_forall in HF. intros x Hx.
      apply HF; [exact Hx|apply H; exact Hx]. }
    induction e using expr_ind'; intro Ho.
    - rewrite expand_leaf by exact I. exact Ho.
    - rewrite expand_ref. destruct K as [|K']; [reflexivity|].
      destruct (plain_chosen g sh n) as [rhs|] eqn:E; [|reflexivity].
      apply (IHk K' eq_refl). eapply Hops. exact E.
    - rewrite expand_leaf by exact I. exact Ho.
    - rewrite expand_seq. cbn [ops_nonempty] in *. apply Hl; assumption.
    - rewrite expand_alt. cbn [ops_nonempty] in *. apply Hl; assumption.
    - rewrite expand_opt. cbn [ops_nonempty] in *. apply IHe. exact Ho.
    - rewrite expand_many. cbn [ops_nonempty] in *. apply IHe. exact Ho.
    - rewrite expand_dd. cbn [ops_nonempty] in *. apply IHe. exact Ho.
    - rewrite expand_fb. cbn [ops_nonempty] in *. apply Hl; assumption.
    - rewrite expand_sub. cbn [ops_nonempty] in *. apply IHe. exact Ho.
  Qed.

  Lemma expand_ops K : forall e, ops_nonempty e = true -> ops_nonempty (expand g sh K e) = true.
  Proof.
    induction K as [|K IH]; apply expand_ops_gen; intros K' HK; [discriminate|].
    inversion HK; subst. exact IH.
  Qed.
End Fuel.

Lemma words_ops e : ops_nonempty e = true -> forall w, In w (words_of e) -> ops_nonempty w = true.
Proof.
  assert (Hl : forall cs, Forall (fun e => ops_nonempty e = true -> forall w, In w (words_of e) -> ops_nonempty w = true) cs ->
                match cs with [] => false | _ => forallb ops_nonempty cs end = true ->
                forall w, In w (flat_map words_of cs) -> ops_nonempty w = true).
  { intros cs HF H w Hw. apply in_flat_map in Hw. destruct Hw as [c [Hc Hw]]. rewrite Forall_forall in HF.
    apply (HF c Hc); [|exact Hw]. destruct cs; [destruct Hc|]. rewrite forallb_forall in H. apply H. exact Hc. }
  induction e using expr_ind'; cbn [ops_nonempty words_of]; intros Ho w Hw; try (destruct Hw; fail);
    try (eapply Hl; eassumption); try (eapply IHe; eassumption).
  destruct Hw as [<-|[]]. exact Ho.
Qed.

(** * On an accepted grammar *)
Definition grammar_ops_nonempty (g : grammar) : bool :=
  forallb (fun s => match s with
                    | CallVariant _ _ e => ops_nonempty e
                    | NontermDef _ _ _ rhs => ops_nonempty rhs
                    end) g.

Lemma existsb_flat_map {A B} (p : B -> bool) (h : A -> list B) l :
  existsb p (flat_map h l) = existsb (fun x => existsb p (h x)) l.
Proof. induction l as [|x l IH]; cbn; [reflexivity|]. rewrite existsb_app, IH. reflexivity. Qed.

Section Accepted.
  Variable builtins : shell -> list (string * string).
  Variable g : grammar.
  Variable sh : shell.
  Variable defs0 : list defn.
  Variable us : list (string * user_spec).
  Variable fs : list (string * (string * span)).
  Hypothesis Hcollect : collect_plain_defs (all_defs g) [] = Ok defs0.
  Hypothesis Hspecs : get_specializations g sh = Ok (us, fs).
  Variable ord : list string.

  Let defs1 := defs1_of defs0.
  Let spec := spec_of builtins sh us fs defs1.
  Let defs2 := defs2_of spec defs1.
  Let t0 := table0_of defs2.
  Hypothesis Hord : resolution_order defs2 = Ok ord.
  Let T := resolve_in_order ord t0.
  Let plain := map d_name defs1.
  Let K := fuel_of g.

  Lemma a_ref_none d n l s :
    plain_chosen g sh n = None ->
    (mt builtins sh us fs plain d (NontermRef n l s) = NontermRef n l s /\ assoc n T = None
     /\ isP builtins g sh (NontermRef n l s) = true)
    \/ (exists c z, mt builtins sh us fs plain d (NontermRef n l s) = Command c z l s
                    /\ isP builtins g sh (NontermRef n l s) = false).
  Proof.
    intro H. unfold mt. cbn [distribute fst specialize]. unfold plain, defs1.
    rewrite (specialize_ref_choose builtins g sh defs0 us fs Hcollect Hspecs). unfold choose_ref.
    unfold isP, is_placeholder, Choice.spec. unfold plain_chosen in H.
    destruct (shell_definition g sh n) as [rhs|] eqn:Es.
    - assert (Hcmd : is_command rhs = true).
      { apply shell_definition_some_in in Es. destruct Es as (nsp & shn & shsp & Hin & _).
        pose proof Hspecs as Hs. unfold get_specializations in Hs.
        destruct (get_user_specs sh (all_defs g) []) as [us'| | |] eqn:Hus; cbn in Hs; try discriminate.
        eapply get_user_specs_commands; [exact Hus|]. apply in_all_defs. exact Hin. }
      destruct rhs; try discriminate. right. eauto.
    - rewrite H. destruct (assoc n (builtins sh)) as [c|] eqn:Eb; [right; eauto|].
      left. split; [reflexivity|]. split; [|reflexivity].
      apply assoc_None_notin. unfold T. rewrite resolve_in_order_keys.
      unfold t0, defs2, spec, defs1. rewrite (t0_names builtins g sh defs0 us fs Hcollect).
      rewrite plain_names_pd. intro Hx. apply Hx. exact H.
  Qed.

  Lemma a_rank : exists rank : string -> nat, forall a b, depends g sh a b = true -> (rank b < rank a)%nat.
  Proof.
    pose proof Hord as Ho. apply resolution_order_ok in Ho. destruct Ho as ([rank Hr] & _ & _).
    exists rank. intros a b Hd. apply Hr.
    apply (model_graph_depends builtins g sh defs0 us fs Hcollect Hspecs). exact Hd.
  Qed.

  Theorem words_agree e d :
    wsk isref (propagate (collapse (resolve T (mt builtins sh us fs plain d e))) 0)
    = wsk (isP builtins g sh) (expand g sh K e).
  Proof.
    rewrite wsk_final. destruct a_rank as [rank Hrank].
    apply (corr builtins g sh us fs plain T
                (c_mt_ref builtins g sh defs0 us fs Hcollect Hspecs)
                (c_T_eqn builtins g sh defs0 us fs Hcollect ord Hord)
                a_ref_none K e d).
    apply (complete_fuel g sh rank Hrank).
  Qed.

  Lemma words_expr0 :
    existsb (fun s => negb (s_phl s)) (wsk (isP builtins g sh) (expand g sh K (expr0_of g)))
    = placeholder_not_last builtins g sh.
  Proof.
    unfold placeholder_not_last. fold K. rewrite call_exprs_variants. unfold expr0_of, wsk.
    assert (Hw : forall e, existsb (fun s => negb (s_phl s)) (map (skw (isP builtins g sh)) (words_of (expand g sh K e)))
                           = existsb (fun w => negb (ph_last (is_placeholder builtins g sh) w)) (words_of (expand g sh K e))).
    { intro e. rewrite existsb_map'. apply existsb_ext_Forall. apply Forall_forall. intros w _.
      rewrite ph_last_sk. reflexivity. }
    assert (Halt : forall es sp,
               existsb (fun s => negb (s_phl s))
                       (map (skw (isP builtins g sh)) (words_of (expand g sh K (Alternative es sp))))
               = existsb (fun e => existsb (fun w => negb (ph_last (is_placeholder builtins g sh) w))
                                           (words_of (expand g sh K e))) es).
    { intros es sp. rewrite Hw, expand_alt. cbn [words_of]. rewrite existsb_flat_map.
      rewrite existsb_map'. reflexivity. }
    destruct (map snd (call_variants g)) as [|e [|e2 r]].
    - apply Halt.
    - rewrite Hw. cbn [existsb]. rewrite orb_false_r. reflexivity.
    - apply Halt.
  Qed.
End Accepted.
