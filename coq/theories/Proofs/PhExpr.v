(** The regex of a word (no nested words) and the placeholder predicate of Spec/Mistakes.v:
    [check_tail_only] accepts the regex iff every [NontermRef] of the word is the last item
    ([ph_last]). *)
From CG Require Import Base.Prelude Model.Ast Model.Regex Spec.Mistakes.
From CG Require Import Proofs.RxLang Proofs.Glushkov Proofs.Useful Proofs.FromExpr Proofs.TreeFacts.
From CG Require Import Proofs.PhFollow.

Definition isref (e : expr) : bool := match e with NontermRef _ _ _ => true | _ => false end.

(** no operator without operands *)
Fixpoint ops_nonempty (e : expr) : bool :=
  match e with
  | Terminal _ _ _ _ | NontermRef _ _ _ | Command _ _ _ _ => true
  | Sequence cs _ | Alternative cs _ | Fallback cs _ =>
      match cs with [] => false | _ => forallb ops_nonempty cs end
  | Optional c _ | Many1 c _ | DistDescr c _ _ | Subword c _ _ => ops_nonempty c
  end.

Definition starI (I : list rinput) (p : N) : Prop := exists n l sp, nthN I p = Some (RNonterm n l sp).

Fixpoint seq_b (cs : list expr) : bool :=
  match cs with
  | [] => true
  | [c] => ph_last isref c
  | c :: r => negb (contains_ph isref c) && seq_b r
  end.

Lemma ph_last_seq cs sp : ph_last isref (Sequence cs sp) = seq_b cs.
Proof. reflexivity. Qed.

Definition rel (I : list rinput) (c : expr) (t : rx) : Prop :=
  (unmarked (starI I) t <-> contains_ph isref c = false) /\
  (nofollow (starI I) t <-> ph_last isref c = true).

Definition PhG (e : expr) : Prop :=
  forall s pl id t s' pl',
    do_from_expr e s pl = Ok (id, t, s', pl') -> subword_free e = true -> ops_nonempty e = true ->
    prefix (b_inputs s) (b_inputs s') /\ shape t /\ ors_nonempty t = true /\
    in_range (lenN (b_inputs s)) (lenN (b_inputs s')) (positions t) /\ positions t <> [] /\
    forall I, prefix (b_inputs s') I -> rel I e t.

Lemma unmarked_cat M ts : unmarked M (XCat ts) <-> Forall (unmarked M) ts.
Proof.
  unfold unmarked. cbn [positions]. rewrite Forall_forall. split.
  - intros H t Ht p Hp. apply H. apply in_flat_map. eauto.
  - intros H p Hp. apply in_flat_map in Hp. destruct Hp as [t [Ht Hp]]. eapply H; eauto.
Qed.

Lemma unmarked_or M ts : unmarked M (XOr ts) <-> Forall (unmarked M) ts.
Proof. apply (unmarked_cat M ts). Qed.

Lemma children_unmarked I cs ts :
  Forall2 (rel I) cs ts -> (Forall (unmarked (starI I)) ts <-> existsb (contains_ph isref) cs = false).
Proof.
  induction 1 as [|c t cs ts [Hu _] _ IH]; cbn [existsb]; [split; [reflexivity|constructor]|].
  rewrite orb_false_iff, <- IH, <- Hu. split.
  - intro H. inversion H; subst. tauto.
  - intros [H1 H2]. constructor; assumption.
Qed.

Lemma children_seq I cs ts :
  Forall2 (rel I) cs ts -> (seq_ok (starI I) ts <-> seq_b cs = true).
Proof.
  induction 1 as [|c t cs ts [Hu Hn] HF IH]; [cbn; tauto|].
  destruct HF as [|c2 t2 cs' ts' Hr2 HF'].
  - cbn [seq_ok seq_b]. exact Hn.
  - change (seq_ok (starI I) (t :: t2 :: ts')) with (unmarked (starI I) t /\ seq_ok (starI I) (t2 :: ts')).
    change (seq_b (c :: c2 :: cs')) with (negb (contains_ph isref c) && seq_b (c2 :: cs')).
    rewrite andb_true_iff, negb_true_iff, <- Hu, <- IH. reflexivity.
Qed.

Lemma children_or I cs ts :
  Forall2 (rel I) cs ts -> (Forall (nofollow (starI I)) ts <-> forallb (ph_last isref) cs = true).
Proof.
  induction 1 as [|c t cs ts [_ Hn] _ IH]; cbn [forallb]; [split; [reflexivity|constructor]|].
  rewrite andb_true_iff, <- IH, <- Hn. split.
  - intro H. inversion H; subst. tauto.
  - intros [H1 H2]. constructor; assumption.
Qed.

Lemma children_PhG cs : Forall PhG cs ->
  forall s pl ids ts s' pl',
    do_children do_from_expr cs s pl = Ok (ids, ts, s', pl') ->
    forallb subword_free cs = true -> forallb ops_nonempty cs = true ->
    prefix (b_inputs s) (b_inputs s') /\ Forall shape ts /\ pairwise_disjoint (map positions ts) /\
    forallb ors_nonempty ts = true /\
    in_range (lenN (b_inputs s)) (lenN (b_inputs s')) (flat_map positions ts) /\
    Forall (fun t => positions t <> []) ts /\
    forall I, prefix (b_inputs s') I -> Forall2 (rel I) cs ts.
Proof.
  intros HF. induction HF as [|c cs Hc HF IH]; intros s pl ids ts s' pl' E Hf Ho.
  - simpl in E. inversion E; subst. split; [apply prefix_refl|]. repeat split; try constructor; try (exfalso; assumption).
  - simpl in E.
    destruct (do_from_expr c s pl) as [[[[id t] s1] pl1]| | |] eqn:E1; simpl in E; try discriminate.
    destruct (do_children do_from_expr cs s1 pl1) as [[[[ids2 ts2] s2] pl2]| | |] eqn:E2;
      simpl in E; try discriminate.
    inversion E; subst.
    cbn [forallb] in Hf, Ho. apply andb_true_iff in Hf. apply andb_true_iff in Ho.
    destruct Hf as [Hf1 Hf2]. destruct Ho as [Ho1 Ho2].
    destruct (IH _ _ _ _ _ _ E2 Hf2 Ho2) as (Pi2 & Sh2 & Dj2 & Or2 & Rg2 & Ne2 & L2).
    destruct (Hc _ _ _ _ _ _ E1 Hf1 Ho1) as (Pi1 & Sh1 & Or1 & Rg1 & Ne1 & L1).
    pose proof (prefix_lenN _ _ Pi1) as Le1. pose proof (prefix_lenN _ _ Pi2) as Le2.
    split; [eapply prefix_trans; eauto|]. split; [constructor; auto|]. split; [|split; [|split; [|split]]].
    + simpl. split; auto. apply Forall_forall. intros m Hm. apply in_map_iff in Hm.
      destruct Hm as [t' [<- Ht']]. intros x Hx Hy. specialize (Rg1 x Hx).
      assert (Hy' : In x (flat_map positions ts2)) by (apply in_flat_map; eauto).
      specialize (Rg2 x Hy'). lia.
    + cbn [forallb]. rewrite Or1, Or2. reflexivity.
    + intros p Hp. simpl in Hp. apply in_app_iff in Hp. destruct Hp as [Hp|Hp].
      * specialize (Rg1 p Hp). lia.
      * specialize (Rg2 p Hp). lia.
    + constructor; assumption.
    + intros I HI. constructor; [|apply L2; exact HI]. apply L1. eapply prefix_trans; eauto.
Qed.

Lemma leaf_PhG x k e :
  k <> KEnd ->
  (forall s pl, do_from_expr e s pl =
                Ok (lenN (b_nodes s), XPos k (lenN (b_inputs s)),
                    mkbst (b_nodes s ++ [match k with KTerm => NTerm (lenN (b_inputs s)) | KNonterm => NNonterm (lenN (b_inputs s))
                                                   | KCmd => NCmd (lenN (b_inputs s)) | KSub => NSub (lenN (b_inputs s))
                                                   | KEnd => NEnd (lenN (b_inputs s)) end])
                          (b_inputs s ++ [x]), pl)) ->
  contains_ph isref e = (match x with RNonterm _ _ _ => true | _ => false end) ->
  ph_last isref e = true ->
  PhG e.
Proof.
  intros Hk Hd Hc Hp s pl id t s' pl' E _ _. rewrite Hd in E. inversion E; subst. cbn [b_inputs].
  split; [apply prefix_snoc|]. split; [constructor; exact Hk|]. split; [reflexivity|]. split.
  { intros p [<-|[]]. rewrite lenN_snoc. lia. }
  split; [discriminate|]. intros I HI. split.
  - unfold unmarked. cbn [positions]. rewrite Hc. split.
    + intro H. destruct x; try reflexivity. exfalso. apply (H (lenN (b_inputs s))); [left; reflexivity|].
      do 3 eexists. eapply nthN_prefix_mid; eauto.
    + intros Hx p [<-|[]] (n & l & sp & Hn). rewrite (nthN_prefix_mid _ _ _ HI) in Hn. inversion Hn; subst.
      discriminate.
  - rewrite Hp. split; [reflexivity|]. intros _ p q H. destruct H.
Qed.

Theorem do_from_expr_PhG : forall e, PhG e.
Proof.
  induction e using expr_ind'.
  - eapply (leaf_PhG (RLit t d l sp) KTerm); [discriminate| |reflexivity|reflexivity]. intros; reflexivity.
  - eapply (leaf_PhG (RNonterm n l sp) KNonterm); [discriminate| |reflexivity|reflexivity]. intros; reflexivity.
  - eapply (leaf_PhG (RCmd c z l sp) KCmd); [discriminate| |reflexivity|reflexivity]. intros; reflexivity.
  - (* Sequence *)
    intros s pl id t s' pl' E Hf Ho. cbn [do_from_expr] in E. cbn [subword_free ops_nonempty] in Hf, Ho.
    destruct cs as [|c0 cs0]; [discriminate|]. set (cs := c0 :: cs0) in *.
    destruct (do_children do_from_expr cs s pl) as [[[[ids ts] s1] pl1]| | |] eqn:E1; cbn [obind] in E; try discriminate.
    unfold Regex.alloc in E. inversion E; subst. cbn [b_inputs].
    destruct (children_PhG cs H _ _ _ _ _ _ E1 Hf Ho) as (Pi & Sh & Dj & Or & Rg & Ne & L).
    split; [exact Pi|]. split; [constructor; assumption|]. split; [exact Or|]. split; [exact Rg|]. split.
    { subst cs. cbn [do_children] in E1.
      destruct (do_from_expr c0 s pl) as [[[[i0 t0] s0] p0]| | |]; cbn [obind] in E1; try discriminate.
      destruct (do_children do_from_expr cs0 s0 p0) as [[[[i1 t1] s2] p1]| | |]; cbn [obind] in E1; try discriminate.
      inversion E1; subst. inversion Ne; subst. cbn [positions flat_map]. destruct (positions t0); [congruence|discriminate]. }
    intros I HI. specialize (L I HI). split.
    + rewrite unmarked_cat, (children_unmarked I cs ts L). reflexivity.
    + rewrite (nofollow_cat (starI I) ts Sh Dj Or Ne), (children_seq I cs ts L), ph_last_seq. reflexivity.
  - (* Alternative *)
    intros s pl id t s' pl' E Hf Ho. cbn [do_from_expr] in E. cbn [subword_free ops_nonempty] in Hf, Ho.
    destruct cs as [|c0 cs0]; [discriminate|]. set (cs := c0 :: cs0) in *.
    destruct (do_children do_from_expr cs s pl) as [[[[ids ts] s1] pl1]| | |] eqn:E1; cbn [obind] in E; try discriminate.
    unfold Regex.alloc in E. inversion E; subst. cbn [b_inputs].
    destruct (children_PhG cs H _ _ _ _ _ _ E1 Hf Ho) as (Pi & Sh & Dj & Or & Rg & Ne & L).
    assert (Hts : ts <> []).
    { subst cs. cbn [do_children] in E1.
      destruct (do_from_expr c0 s pl) as [[[[i0 t0] s0] p0]| | |]; cbn [obind] in E1; try discriminate.
      destruct (do_children do_from_expr cs0 s0 p0) as [[[[i1 t1] s2] p1]| | |]; cbn [obind] in E1; try discriminate.
      inversion E1; subst. discriminate. }
    split; [exact Pi|]. split; [constructor; assumption|]. split.
    { cbn [ors_nonempty]. destruct ts; [congruence|exact Or]. }
    split; [exact Rg|]. split.
    { destruct ts as [|t0 ts0]; [congruence|]. inversion Ne; subst. cbn [positions flat_map].
      destruct (positions t0); [congruence|discriminate]. }
    intros I HI. specialize (L I HI). split.
    + rewrite unmarked_or, (children_unmarked I cs ts L). reflexivity.
    + rewrite nofollow_or, (children_or I cs ts L). reflexivity.
  - (* Optional *)
    intros s pl id t s' pl' E Hf Ho. cbn [do_from_expr] in E. cbn [subword_free ops_nonempty] in Hf, Ho.
    destruct (do_from_expr e s pl) as [[[[cid ct] s1] pl1]| | |] eqn:E1; cbn [obind] in E; try discriminate.
    unfold Regex.alloc in E. inversion E; subst. cbn [b_inputs].
    destruct (IHe _ _ _ _ _ _ E1 Hf Ho) as (Pi & Sh & Or & Rg & Ne & L).
    split; [exact Pi|]. split.
    { constructor; [repeat constructor; assumption|]. cbn. repeat split; auto. constructor; [|constructor].
      intros x _ []. }
    split; [cbn [ors_nonempty forallb]; rewrite Or; reflexivity|]. split.
    { intros p Hp. cbn [positions flat_map] in Hp. rewrite app_nil_r in Hp. apply Rg. exact Hp. }
    split; [cbn [positions flat_map]; rewrite app_nil_r; exact Ne|].
    intros I HI. destruct (L I HI) as [Lu Ln]. split.
    + rewrite <- Lu. unfold unmarked. cbn [positions flat_map]. rewrite app_nil_r. reflexivity.
    + cbn [ph_last]. rewrite <- Ln, nofollow_or. split.
      * intro H0. inversion H0; subst. assumption.
      * intro H0. constructor; [exact H0|]. constructor; [|constructor]. intros p q Hx. destruct Hx.
  - (* Many1 *)
    intros s pl id t s' pl' E Hf Ho. cbn [do_from_expr] in E. cbn [subword_free ops_nonempty] in Hf, Ho.
    destruct (do_from_expr e s pl) as [[[[cid ct] s1] pl1]| | |] eqn:E1; cbn [obind] in E; try discriminate.
    unfold Regex.alloc in E. inversion E; subst. cbn [b_inputs].
    destruct (IHe _ _ _ _ _ _ E1 Hf Ho) as (Pi & Sh & Or & Rg & Ne & L).
    split; [exact Pi|]. split; [constructor; exact Sh|]. split.
    { cbn [ors_nonempty forallb]. rewrite Or. reflexivity. }
    split.
    { intros p Hp. cbn [positions flat_map] in Hp. rewrite app_nil_r in Hp. apply in_app_iff in Hp.
      apply Rg. tauto. }
    split.
    { cbn [positions flat_map]. destruct (positions ct); [congruence|discriminate]. }
    intros I HI. destruct (L I HI) as [Lu Ln]. split.
    + rewrite <- Lu. unfold unmarked. cbn [positions flat_map]. rewrite app_nil_r. split.
      * intros H0 p Hp. apply H0. apply in_or_app. left. exact Hp.
      * intros H0 p Hp. apply in_app_iff in Hp. apply H0. tauto.
    + cbn [ph_last]. rewrite negb_true_iff, <- Lu. apply nofollow_many; assumption.
  - (* DistDescr *)
    intros s pl id t s' pl' E. discriminate.
  - (* Fallback *)
    intros s pl id t s' pl' E Hf Ho. cbn [do_from_expr] in E. cbn [subword_free ops_nonempty] in Hf, Ho.
    destruct cs as [|c0 cs0]; [discriminate|]. set (cs := c0 :: cs0) in *.
    destruct (do_children do_from_expr cs s pl) as [[[[ids ts] s1] pl1]| | |] eqn:E1; cbn [obind] in E; try discriminate.
    unfold Regex.alloc in E. inversion E; subst. cbn [b_inputs].
    destruct (children_PhG cs H _ _ _ _ _ _ E1 Hf Ho) as (Pi & Sh & Dj & Or & Rg & Ne & L).
    assert (Hts : ts <> []).
    { subst cs. cbn [do_children] in E1.
      destruct (do_from_expr c0 s pl) as [[[[i0 t0] s0] p0]| | |]; cbn [obind] in E1; try discriminate.
      destruct (do_children do_from_expr cs0 s0 p0) as [[[[i1 t1] s2] p1]| | |]; cbn [obind] in E1; try discriminate.
      inversion E1; subst. discriminate. }
    split; [exact Pi|]. split; [constructor; assumption|]. split.
    { cbn [ors_nonempty]. destruct ts; [congruence|exact Or]. }
    split; [exact Rg|]. split.
    { destruct ts as [|t0 ts0]; [congruence|]. inversion Ne; subst. cbn [positions flat_map].
      destruct (positions t0); [congruence|discriminate]. }
    intros I HI. specialize (L I HI). split.
    + rewrite unmarked_or, (children_unmarked I cs ts L). reflexivity.
    + rewrite nofollow_or, (children_or I cs ts L). reflexivity.
  - (* Subword *)
    intros s pl id t s' pl' E Hf. discriminate.
Qed.
