(** C15, end to end: what main.rs prints as warnings for an accepted text ([Diag.warning_messages])
    is the rendering of the three sets of Spec/Warnings.v computed on the parsed grammar -- every
    name once, at a span where that name occurs -- and the automata do not depend on the
    definitions the "unused" warnings are about. *)
From CG Require Import Base.Prelude Model.Ast Model.Lexer Model.Parser Model.Check Model.Regex.
From CG Require Import Model.Dfa Model.Driver Model.Diag Spec.Printer Spec.Choice Spec.Mistakes Spec.Warnings.
From CG Require Import Proofs.GrammarRound Proofs.CheckProvenance Proofs.CheckWarnings Proofs.CheckUndefined.
From CG Require Import Proofs.CheckOrder Proofs.CheckSpans Proofs.PipelineSpans Proofs.PipelineLayout.
From CG Require Import Proofs.PipelineMistakes.
From Coq Require Import Permutation.

(** *** the sort of the spans *)
Lemma insert_span_perm x l : Permutation (insert_span x l) (x :: l).
Proof.
  induction l as [|y r IH]; cbn [insert_span]; [apply Permutation_refl|].
  destruct (span_leb x y); [apply Permutation_refl|].
  eapply Permutation_trans; [apply perm_skip; exact IH|apply perm_swap].
Qed.

Lemma sort_spans_perm l : Permutation (sort_spans l) l.
Proof.
  induction l as [|x r IH]; cbn; [constructor|].
  eapply Permutation_trans; [apply insert_span_perm|apply perm_skip; exact IH].
Qed.

Lemma wmsgs_spans label l : map m_span (wmsgs label l) = sort_spans l.
Proof. unfold wmsgs. rewrite map_map. cbn. apply map_id. Qed.

(** [renders label names msgs]: one warning message with this label per name, each located at a
    span paired with its name in [located] *)
Definition renders (label : string) (names : list string) (located : list (string * span))
           (msgs : list message) : Prop :=
  NoDup (map fst located)
  /\ (forall y, In y (map fst located) <-> In y names)
  /\ Permutation (map m_span msgs) (map snd located)
  /\ Forall (fun m => m_warning m = true /\ m_label m = label /\ m_what m = "" /\ m_help m = None) msgs.

Lemma wmsgs_renders label names located :
  NoDup (map fst located) -> (forall y, In y (map fst located) <-> In y names) ->
  renders label names located (wmsgs label (map snd located)).
Proof.
  intros Hn Hs. repeat split; auto; try apply Hs.
  - rewrite wmsgs_spans. apply sort_spans_perm.
  - unfold wmsgs. apply Forall_forall. intros m Hm. apply in_map_iff in Hm. destruct Hm as [sp [<- _]]. auto.
Qed.

Lemma NoDup_map_filter {A} (p : string * A -> bool) (l : list (string * A)) :
  NoDup (map fst l) -> NoDup (map fst (filter p l)).
Proof.
  induction l as [|x r IH]; cbn; [auto|]. intro H. inversion H; subst.
  destruct (p x); cbn; [constructor|]; auto.
  intro Hin. apply H2. apply in_map_iff in Hin. destruct Hin as [y [Hy Hf]]. apply filter_In in Hf.
  apply in_map_iff. exists y. tauto.
Qed.

Section Warnings.
  Variable builtins : shell -> list (string * string).

  Definition reported_undefined (v : valid_grammar) : list (string * span) :=
    filter (fun p => negb (String.eqb (fst p) "_")) (v_undefined v).

  Theorem warning_messages_spec g sh v :
    from_grammar builtins g sh = Ok v ->
    exists mu mn ms,
      warning_messages v = mu ++ mn ++ ms
      /\ renders "Undefined" (undefined_reported builtins g sh) (reported_undefined v) mu
      /\ renders "Unused" (unused_plain g) (v_unused v) mn
      /\ renders "Unused specialization" (unused_for_shell g sh) (v_unused_specs v) ms
      /\ (forall n sp, In (n, sp) (reported_undefined v) -> In (n, sp) (grammar_refs g))
      /\ (forall n sp, In (n, sp) (v_unused v) -> exists rhs, In (NontermDef n sp None rhs) g)
      /\ (forall n sp, In (n, sp) (v_unused_specs v) ->
                       exists shn shsp rhs, In (NontermDef n sp (Some (shn, shsp)) rhs) g /\ is_shell shn sh = true).
  Proof.
    intro H.
    destruct (undefined_exact builtins g sh v H) as [Hu Hun].
    destruct (unused_plain_exact builtins g sh v H) as (Hp & Hpn & Hpp).
    destruct (unused_for_shell_exact builtins g sh v H) as (Hs & Hsn & Hsp).
    destruct (warnings_provenance builtins g sh v H) as (Hup & _ & _).
    exists (wmsgs "Undefined" (map snd (reported_undefined v))),
           (wmsgs "Unused" (map snd (v_unused v))),
           (wmsgs "Unused specialization" (map snd (v_unused_specs v))).
    split; [reflexivity|]. split; [|split; [|split; [|split; [|split]]]].
    - apply wmsgs_renders.
      + unfold reported_undefined. apply NoDup_map_filter. exact Hun.
      + intro y. unfold reported_undefined, undefined_reported. rewrite filter_In, in_map_iff. split.
        * intros [[n sp] [Hy Hin]]. cbn in Hy. subst n. apply filter_In in Hin. destruct Hin as [Hin Hne].
          cbn in Hne. split; [|exact Hne]. apply Hu. apply in_map_iff. exists (y, sp). auto.
        * intros [Hin Hne]. apply Hu in Hin. apply in_map_iff in Hin. destruct Hin as [[n sp] [Hy Hin]].
          cbn in Hy. subst n. exists (y, sp). split; [reflexivity|]. apply filter_In. auto.
    - apply wmsgs_renders; [exact Hpn|]. intro y. rewrite Hp. reflexivity.
    - apply wmsgs_renders; [exact Hsn|]. intro y. rewrite Hs. reflexivity.
    - intros n sp Hin. apply filter_In in Hin. apply Hup. tauto.
    - exact Hpp.
    - exact Hsp.
  Qed.

  (** *** the automata do not depend on the unused definitions *)
  Variable pick : nat -> list (list N) -> nat.
  Variable fuel : nat.

  Theorem unused_removed_same_cdfa text g sh v c :
    parse text = Ok g -> compile pick fuel builtins text sh = Ok (v, c) ->
    exists v', after_parse pick fuel builtins (remove_unused g) sh = Ok (v', c)
               /\ v_command v' = v_command v /\ v_expr v' = v_expr v.
  Proof.
    intros P H. rewrite (compile_after_parse pick fuel builtins _ _ sh P) in H. unfold after_parse in *.
    destruct (from_grammar builtins g sh) as [v0| | |] eqn:E; cbn [lift obind] in H; try discriminate.
    destruct (compile_valid pick fuel v0) as [c0| | |] eqn:Ec; cbn [obind] in H; try discriminate.
    inversion H; subst v0 c0.
    destruct (remove_unused_harmless builtins g sh v E) as (v' & Hv' & Hc & He).
    exists v'. rewrite Hv'. cbn [lift obind]. rewrite (compile_valid_expr pick fuel v' v He), Ec. cbn. auto.
  Qed.

  Lemma compile_ok_inv text sh v c :
    compile pick fuel builtins text sh = Ok (v, c) ->
    exists g, parse text = Ok g /\ from_grammar builtins g sh = Ok v /\ compile_valid pick fuel v = Ok c.
  Proof.
    unfold compile. destruct (parse text) as [g| | |]; cbn [obind]; try discriminate.
    destruct (from_grammar builtins g sh) as [v0| | |] eqn:E; cbn [lift obind]; try discriminate.
    destruct (compile_valid pick fuel v0) as [c0| | |] eqn:Ec; cbn [obind]; try discriminate.
    intro H. inversion H; subst. exists g. auto.
  Qed.

  Lemma wf_remove_unused g : wf g -> wf (remove_unused g).
  Proof.
    unfold wf, remove_unused. intro H. rewrite forallb_forall in *. intros s Hs. apply filter_In in Hs.
    apply H. tauto.
  Qed.

  Theorem unused_removed_same_cdfa_text g l l' sh v c :
    wf g -> compile pick fuel builtins (text g l) sh = Ok (v, c) ->
    exists v', compile pick fuel builtins (text (remove_unused g) l') sh = Ok (v', c)
               /\ v_command v' = v_command v.
  Proof.
    intros W H. pose proof (text_bridge pick fuel builtins g l sh W) as B. rewrite H in B.
    unfold after_parse in B.
    destruct (from_grammar builtins g sh) as [v0| | |] eqn:E; cbn [lift obind layout_rel] in B; try contradiction.
    destruct (compile_valid pick fuel v0) as [c0| | |] eqn:Ec; cbn [obind layout_rel] in B; try contradiction.
    destruct B as (Hc & _ & <-).
    destruct (remove_unused_harmless builtins g sh v0 E) as (v' & Hv' & Hc' & He).
    destruct (checker_ok_lifts pick fuel builtins (remove_unused g) l' sh v' c (wf_remove_unused g W) Hv')
      as (v'' & Hv'' & Hc'' & _).
    { rewrite (compile_valid_expr pick fuel v' v0 He). exact Ec. }
    exists v''. split; [exact Hv''|]. congruence.
  Qed.
End Warnings.
