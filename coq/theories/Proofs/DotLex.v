(** C16, lexical level: the DOT lexer of [Spec.DotRead] run on the lines [Model.Dot] prints.
    - [lsteps]: the state machine run on a piece of text; composition over concatenation;
    - identifiers, tabs, fixed punctuation;
    - the quoted-string codec: [qdecode] is what a body between quotes decodes to; the escaping the
      code should use ([escape_dot]) decodes to the text with its backslashes doubled, which the label
      renderer turns back into the text;
    - one lemma per kind of line: its text lexes to its tokens, from and to the state between tokens. *)
From CG Require Import Base.Prelude Spec.DotRead Model.Dot.
Local Open Scope string_scope.

(** ** Running the state machine on a piece of text *)
Fixpoint lsteps (st : lstate) (s : string) : option (lstate * list tok) :=
  match s with
  | EmptyString => Some (st, [])
  | String c r =>
      match lstep st c with
      | Some (st', ts) =>
          match lsteps st' r with
          | Some (st'', ts') => Some (st'', (ts ++ ts')%list)
          | None => None
          end
      | None => None
      end
  end.

Lemma lsteps_cat st a b st1 t1 st2 t2 :
  lsteps st a = Some (st1, t1) -> lsteps st1 b = Some (st2, t2) ->
  lsteps st (a ++ b) = Some (st2, (t1 ++ t2)%list).
Proof.
  revert st st1 t1. induction a as [|c a IH]; intros st st1 t1 Ha Hb; cbn in *.
  - injection Ha as <- <-. exact Hb.
  - destruct (lstep st c) as [[st' ts]|]; [|discriminate].
    destruct (lsteps st' a) as [[st'' ts']|] eqn:E; [|discriminate].
    injection Ha as <- <-. rewrite (IH _ _ _ E Hb). now rewrite app_assoc.
Qed.

Lemma lex_from_lsteps st s st' ts fin :
  lsteps st s = Some (st', ts) -> lfinish st' = Some fin -> lex_from st s = Some (ts ++ fin)%list.
Proof.
  revert st st' ts. induction s as [|c s IH]; intros st st' ts H F; cbn in *.
  - injection H as <- <-. now rewrite F.
  - destruct (lstep st c) as [[st1 t1]|]; [|discriminate].
    destruct (lsteps st1 s) as [[st2 t2]|] eqn:E; [|discriminate].
    injection H as <- <-. rewrite (IH _ _ _ E F). now rewrite app_assoc.
Qed.

(** ** Character classes *)
Fixpoint all_chars (p : ascii -> bool) (s : string) : bool :=
  match s with EmptyString => true | String c r => p c && all_chars p r end.

Definition ident_ok (s : string) : bool :=
  match s with EmptyString => false | String c r => is_idstart c && all_chars is_idchar r end.

Lemma all_chars_app p a b : all_chars p (a ++ b) = all_chars p a && all_chars p b.
Proof. induction a as [|c a IH]; cbn; [reflexivity|]. now rewrite IH, andb_assoc. Qed.

Lemma step0_idstart c : is_idstart c = true -> step0 c = Some (LIdent (String c ""), []).
Proof.
  destruct c as [b0 b1 b2 b3 b4 b5 b6 b7].
  destruct b0, b1, b2, b3, b4, b5, b6, b7; vm_compute; intro H; try reflexivity; discriminate H.
Qed.

Lemma snoc_app acc c s : snoc acc c ++ s = acc ++ String c s.
Proof. unfold snoc. induction acc as [|a acc IH]; cbn; [reflexivity|]. now rewrite IH. Qed.

Lemma app_empty_r (s : string) : s ++ "" = s.
Proof. induction s as [|c s IH]; cbn; [reflexivity|]. now rewrite IH. Qed.

Lemma sapp_assoc (a b c : string) : (a ++ b) ++ c = a ++ (b ++ c).
Proof. induction a as [|x a IH]; cbn; [reflexivity|]. now rewrite IH. Qed.

Lemma lsteps_idchars s : forall acc,
  all_chars is_idchar s = true -> lsteps (LIdent acc) s = Some (LIdent (acc ++ s), []).
Proof.
  induction s as [|c s IH]; intros acc H; cbn in *.
  - now rewrite app_empty_r.
  - apply andb_true_iff in H as [Hc Hs]. rewrite Hc. rewrite (IH _ Hs). now rewrite snoc_app.
Qed.

Lemma lsteps_ident s : ident_ok s = true -> lsteps L0 s = Some (LIdent s, []).
Proof.
  destruct s as [|c s]; cbn; [discriminate|]. intro H. apply andb_true_iff in H as [Hc Hs].
  rewrite (step0_idstart _ Hc). now rewrite (lsteps_idchars s (String c "") Hs).
Qed.

Lemma lsteps_tabs n : lsteps L0 (tabs n) = Some (L0, []).
Proof. induction n as [|n IH]; cbn; [reflexivity|]. cbn in IH. now rewrite IH. Qed.

(** ** The quoted-string codec *)

(** what the text between two double quotes decodes to; [pend]: a backslash is pending.  [None]: the
    text contains a closing quote, or ends with a pending backslash. *)
Fixpoint qdecode (pend : bool) (s : string) : option string :=
  match s with
  | EmptyString => if pend then None else Some ""
  | String c r =>
      if pend then
        if Ascii.eqb c c_dq then option_map (String c_dq) (qdecode false r)
        else if Ascii.eqb c c_bs then option_map (fun x => String c_bs (String c_bs x)) (qdecode false r)
        else if Ascii.eqb c c_nl then qdecode false r
        else option_map (fun x => String c_bs (String c x)) (qdecode false r)
      else
        if Ascii.eqb c c_dq then None
        else if Ascii.eqb c c_bs then qdecode true r
        else option_map (String c) (qdecode false r)
  end.

Lemma lsteps_quoted s : forall pend acc v,
  qdecode pend s = Some v ->
  lsteps (if pend then LQB acc else LQ acc) s = Some (LQ (acc ++ v), []).
Proof.
  induction s as [|c s IH]; intros pend acc v H.
  - destruct pend; cbn in *; [discriminate|]. injection H as <-. now rewrite app_empty_r.
  - destruct pend; cbn [qdecode] in H; cbn [lsteps lstep].
    + destruct (Ascii.eqb c c_dq).
      { destruct (qdecode false s) as [w|] eqn:E; [|discriminate]. injection H as <-.
        rewrite (IH false _ _ E). now rewrite snoc_app. }
      destruct (Ascii.eqb c c_bs).
      { destruct (qdecode false s) as [w|] eqn:E; [|discriminate]. injection H as <-.
        rewrite (IH false _ _ E). now rewrite !snoc_app. }
      destruct (Ascii.eqb c c_nl).
      { now rewrite (IH false _ _ H). }
      destruct (qdecode false s) as [w|] eqn:E; [|discriminate]. injection H as <-.
      rewrite (IH false _ _ E). now rewrite !snoc_app.
    + destruct (Ascii.eqb c c_dq); [discriminate|].
      destruct (Ascii.eqb c c_bs).
      { now rewrite (IH true _ _ H). }
      destruct (qdecode false s) as [w|] eqn:E; [|discriminate]. injection H as <-.
      rewrite (IH false _ _ E). now rewrite snoc_app.
Qed.

(** a quoted string: opening quote, body, closing quote *)
Lemma lsteps_dq_body body v :
  qdecode false body = Some v -> lsteps L0 (dq ++ body ++ dq) = Some (L0, [TQ v]).
Proof.
  intro H.
  apply (lsteps_cat L0 dq (body ++ dq) (LQ "") [] L0 [TQ v]); [reflexivity|].
  apply (lsteps_cat (LQ "") body dq (LQ v) [] L0 [TQ v]); [|reflexivity].
  exact (lsteps_quoted body false "" v H).
Qed.

(** *** the escaping the code should use *)
Definition esc1 (c : ascii) : string :=
  if Ascii.eqb c c_bs then bs ++ bs else if Ascii.eqb c c_dq then bs ++ dq else String c "".

Fixpoint esc_all (s : string) : string :=
  match s with EmptyString => "" | String c r => esc1 c ++ esc_all r end.

Lemma replace_char_app c by_ a b :
  replace_char c by_ (a ++ b) = replace_char c by_ a ++ replace_char c by_ b.
Proof.
  induction a as [|x a IH]; cbn; [reflexivity|].
  destruct (Ascii.eqb x c); rewrite IH; [now rewrite sapp_assoc|reflexivity].
Qed.

Lemma escape_dot_chars s : escape_dot s = esc_all s.
Proof.
  unfold escape_dot, escape_quotes, escape_backslashes.
  induction s as [|c s IH]; [reflexivity|]. cbn [replace_char esc_all].
  unfold esc1. change c_bs with "\"%char. change c_dq with """"%char.
  destruct (Ascii.eqb c "\"%char) eqn:Eb.
  - rewrite replace_char_app, IH. reflexivity.
  - cbn [replace_char]. destruct (Ascii.eqb c """"%char); now rewrite IH.
Qed.

(** the text with every backslash doubled: what the DOT string holds after the lexer *)
Fixpoint double_bs (s : string) : string :=
  match s with
  | EmptyString => ""
  | String c r => if Ascii.eqb c c_bs then String c_bs (String c_bs (double_bs r)) else String c (double_bs r)
  end.

Lemma qdecode_esc_all s : qdecode false (esc_all s) = Some (double_bs s).
Proof.
  induction s as [|c s IH]; [reflexivity|]. cbn [esc_all double_bs]. unfold esc1.
  destruct (Ascii.eqb c c_bs) eqn:Eb.
  - change (bs ++ bs ++ esc_all s) with (String c_bs (String c_bs (esc_all s))).
    change ((bs ++ bs) ++ esc_all s) with (String c_bs (String c_bs (esc_all s))).
    cbn [qdecode]. change (Ascii.eqb c_bs c_dq) with false. change (Ascii.eqb c_bs c_bs) with true.
    cbn match. now rewrite IH.
  - destruct (Ascii.eqb c c_dq) eqn:Eq.
    + change ((bs ++ dq) ++ esc_all s) with (String c_bs (String c_dq (esc_all s))).
      cbn [qdecode]. change (Ascii.eqb c_bs c_dq) with false. change (Ascii.eqb c_bs c_bs) with true.
      change (Ascii.eqb c_dq c_dq) with true. cbn match. rewrite IH. cbn.
      apply Ascii.eqb_eq in Eq. now subst c.
    + change (String c "" ++ esc_all s) with (String c (esc_all s)).
      cbn [qdecode]. rewrite Eq, Eb. now rewrite IH.
Qed.

Lemma qdecode_escape_dot s : qdecode false (escape_dot s) = Some (double_bs s).
Proof. rewrite escape_dot_chars. apply qdecode_esc_all. Qed.

Lemma render_double_bs s : render_label (double_bs s) = s.
Proof.
  induction s as [|c s IH]; [reflexivity|]. cbn [double_bs].
  destruct (Ascii.eqb c c_bs) eqn:Eb.
  - apply Ascii.eqb_eq in Eb. subst c. cbn [render_label].
    change (Ascii.eqb c_bs c_bs) with true. cbn match.
    change (Ascii.eqb c_bs "n"%char) with false. change (Ascii.eqb c_bs "l"%char) with false.
    change (Ascii.eqb c_bs "r"%char) with false. change (Ascii.eqb c_bs "N"%char) with false.
    change (Ascii.eqb c_bs "G"%char) with false. change (Ascii.eqb c_bs "E"%char) with false.
    change (Ascii.eqb c_bs "T"%char) with false. change (Ascii.eqb c_bs "H"%char) with false.
    change (Ascii.eqb c_bs "L"%char) with false. cbn. now rewrite IH.
  - cbn [render_label]. rewrite Eb. now rewrite IH.
Qed.

(** a text without backslashes renders as itself, and its quotes are all that needs escaping *)
Lemma double_bs_none s : contains_char c_bs s = false -> double_bs s = s.
Proof.
  induction s as [|c s IH]; [reflexivity|]. cbn [contains_char double_bs].
  destruct (Ascii.eqb c c_bs); [discriminate|]. intro H. now rewrite IH.
Qed.

Lemma render_plain s : contains_char c_bs s = false -> render_label s = s.
Proof. intro H. rewrite <- (double_bs_none s H) at 1. apply render_double_bs. Qed.

Lemma escape_backslashes_none s : contains_char c_bs s = false -> escape_backslashes s = s.
Proof.
  unfold escape_backslashes. change "\"%char with c_bs.
  induction s as [|c s IH]; [reflexivity|]. cbn [contains_char replace_char].
  destruct (Ascii.eqb c c_bs); [discriminate|]. intro H. now rewrite IH.
Qed.

Lemma escape_quotes_is_dot s : contains_char c_bs s = false -> escape_quotes s = escape_dot s.
Proof. intro H. unfold escape_dot. now rewrite escape_backslashes_none. Qed.

(** The codec leaf: what [make_dot_string_constant] writes is read back, up to label rendering,
    as the text itself, whatever follows. *)
Lemma read_quoted_from_ok body : forall pend acc v rest,
  qdecode pend body = Some v ->
  read_quoted_from (if pend then LQB acc else LQ acc) (body ++ dq ++ rest) = Some (acc ++ v, rest).
Proof.
  induction body as [|c s IH]; intros pend acc v rest H.
  - destruct pend; cbn in H; [discriminate|]. injection H as <-. cbn. now rewrite app_empty_r.
  - destruct pend; cbn [qdecode] in H.
    + cbn [append read_quoted_from lstep].
      destruct (Ascii.eqb c c_dq).
      { destruct (qdecode false s) as [w|] eqn:E; [|discriminate]. injection H as <-.
        rewrite (IH false _ _ rest E). now rewrite snoc_app. }
      destruct (Ascii.eqb c c_bs).
      { destruct (qdecode false s) as [w|] eqn:E; [|discriminate]. injection H as <-.
        rewrite (IH false _ _ rest E). now rewrite !snoc_app. }
      destruct (Ascii.eqb c c_nl).
      { now rewrite (IH false _ _ rest H). }
      destruct (qdecode false s) as [w|] eqn:E; [|discriminate]. injection H as <-.
      rewrite (IH false _ _ rest E). now rewrite !snoc_app.
    + cbn [append read_quoted_from lstep].
      destruct (Ascii.eqb c c_dq); [discriminate|].
      destruct (Ascii.eqb c c_bs).
      { now rewrite (IH true _ _ rest H). }
      destruct (qdecode false s) as [w|] eqn:E; [|discriminate]. injection H as <-.
      rewrite (IH false _ _ rest E). now rewrite snoc_app.
Qed.

Lemma label_codec s rest :
  read_quoted (dq ++ escape_dot s ++ dq ++ rest) = Some (double_bs s, rest)
  /\ render_label (double_bs s) = s.
Proof.
  split; [|apply render_double_bs].
  change (dq ++ escape_dot s ++ dq ++ rest) with (String c_dq (escape_dot s ++ dq ++ rest)).
  cbn [read_quoted]. change (Ascii.eqb c_dq c_dq) with true. cbn match.
  exact (read_quoted_from_ok (escape_dot s) false "" (double_bs s) rest (qdecode_escape_dot s)).
Qed.

(** ** Lines *)
Definition id_ok (s : string) : Prop := ident_ok s = true /\ keyword_of s = None.

Definition body_ok (b : string) : Prop := qdecode false b <> None.

Definition qdec (b : string) : string :=
  match qdecode false b with Some v => v | None => "" end.

Definition line_ok (l : line) : Prop :=
  match l with
  | LBlank => True
  | LNodeDefault sh => id_ok sh
  | LNode i b => id_ok i /\ body_ok b
  | LEdge a b => id_ok a /\ id_ok b
  | LEdgeQ a b k body => id_ok a /\ id_ok b /\ id_ok k /\ body_ok body
  | LAssign k v => id_ok k /\ id_ok v
  | LAssignQ k body => id_ok k /\ body_ok body
  end.

Definition line_toks (l : line) : list tok :=
  match l with
  | LBlank => []
  | LNodeDefault sh => [TId "node"; TLS; TId "shape"; TEq; TId sh; TRS; TSemi]
  | LNode i b => [TId i; TLS; TId "label"; TEq; TQ (qdec b); TRS; TSemi]
  | LEdge a b => [TId a; TArrow; TId b; TSemi]
  | LEdgeQ a b k body => [TId a; TArrow; TId b; TLS; TId k; TEq; TQ (qdec body); TRS; TSemi]
  | LAssign k v => [TId k; TEq; TId v; TSemi]
  | LAssignQ k body => [TId k; TEq; TQ (qdec body); TSemi]
  end.

Lemma body_ok_qdec b : body_ok b -> qdecode false b = Some (qdec b).
Proof. unfold body_ok, qdec. destruct (qdecode false b); [reflexivity|intro H; now elim H]. Qed.

(** an identifier followed by a fixed piece of text that starts with a non-identifier character *)
Lemma lsteps_ident_then i c rest st2 t2 :
  ident_ok i = true -> is_idchar c = false ->
  lsteps (LIdent i) (String c rest) = Some (st2, t2) ->
  lsteps L0 (i ++ String c rest) = Some (st2, t2).
Proof.
  intros Hi Hc H. rewrite (lsteps_cat L0 i (String c rest) (LIdent i) [] st2 t2 (lsteps_ident i Hi) H).
  reflexivity.
Qed.

Local Ltac ident_step H :=
  eapply lsteps_ident_then; [exact H|reflexivity|].

Lemma lex_line_body (l : line) : line_ok l ->
  match l with LBlank => True | _ => lsteps L0 (render_line l ++ nl) = Some (L0, line_toks l) end.
Proof.
  destruct l as [|sh|i b|a b|a b k body|k v|k body]; cbn [line_ok render_line line_toks]; intro H.
  - exact I.
  - destruct H as [Hi _].
    replace (("node [shape=" ++ sh ++ "];") ++ nl) with ("node [shape=" ++ (sh ++ String "]"%char (";" ++ nl)))
      by (rewrite !sapp_assoc; reflexivity).
    eapply (lsteps_cat L0 "node [shape=" _ L0 [TId "node"; TLS; TId "shape"; TEq]); [reflexivity|].
    ident_step Hi. reflexivity.
  - destruct H as [[Hi _] Hb].
    replace ((i ++ "[label=" ++ dq ++ b ++ dq ++ "];") ++ nl)
      with (i ++ String "["%char ("label=" ++ (dq ++ b ++ dq) ++ ("];" ++ nl)))
      by (rewrite !sapp_assoc; reflexivity).
    ident_step Hi.
    eapply (lsteps_cat (LIdent i) (String "["%char "label=") _ L0 [TId i; TLS; TId "label"; TEq]); [reflexivity|].
    eapply (lsteps_cat L0 (dq ++ b ++ dq) _ L0 [TQ (qdec b)]);
      [apply lsteps_dq_body, body_ok_qdec, Hb|reflexivity].
  - destruct H as [[Ha _] [Hb _]].
    replace ((a ++ " -> " ++ b ++ ";") ++ nl) with (a ++ String " "%char ("-> " ++ (b ++ String ";"%char nl)))
      by (rewrite !sapp_assoc; reflexivity).
    ident_step Ha.
    eapply (lsteps_cat (LIdent a) (String " "%char "-> ") _ L0 [TId a; TArrow]); [reflexivity|].
    ident_step Hb. reflexivity.
  - destruct H as [[Ha _] [[Hb _] [[Hk _] Hq]]].
    replace ((a ++ " -> " ++ b ++ " [" ++ k ++ "=" ++ dq ++ body ++ dq ++ "];") ++ nl)
      with (a ++ String " "%char ("-> " ++ (b ++ String " "%char ("[" ++ (k ++ String "="%char ((dq ++ body ++ dq) ++ ("];" ++ nl)))))))
      by (rewrite !sapp_assoc; reflexivity).
    ident_step Ha.
    eapply (lsteps_cat (LIdent a) (String " "%char "-> ") _ L0 [TId a; TArrow]); [reflexivity|].
    ident_step Hb.
    eapply (lsteps_cat (LIdent b) (String " "%char "[") _ L0 [TId b; TLS]); [reflexivity|].
    ident_step Hk.
    eapply (lsteps_cat (LIdent k) (String "="%char "") _ L0 [TId k; TEq]); [reflexivity|].
    eapply (lsteps_cat L0 (dq ++ body ++ dq) _ L0 [TQ (qdec body)]);
      [apply lsteps_dq_body, body_ok_qdec, Hq|reflexivity].
  - destruct H as [[Hk _] [Hv _]].
    replace ((k ++ "=" ++ v ++ ";") ++ nl) with (k ++ String "="%char (v ++ String ";"%char nl))
      by (rewrite !sapp_assoc; reflexivity).
    ident_step Hk.
    eapply (lsteps_cat (LIdent k) (String "="%char "") _ L0 [TId k; TEq]); [reflexivity|].
    ident_step Hv. reflexivity.
  - destruct H as [[Hk _] Hq].
    replace ((k ++ "=" ++ dq ++ body ++ dq ++ ";") ++ nl)
      with (k ++ String "="%char ((dq ++ body ++ dq) ++ (";" ++ nl)))
      by (rewrite !sapp_assoc; reflexivity).
    ident_step Hk.
    eapply (lsteps_cat (LIdent k) (String "="%char "") _ L0 [TId k; TEq]); [reflexivity|].
    eapply (lsteps_cat L0 (dq ++ body ++ dq) _ L0 [TQ (qdec body)]);
      [apply lsteps_dq_body, body_ok_qdec, Hq|reflexivity].
Qed.
