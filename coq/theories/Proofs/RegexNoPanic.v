(** Panic-freedom of [check_ambiguities] (Model/Regex.v) on the regexes [from_expr] builds from a
    validated tree ([flat_subwords]: no composite word inside a composite word).

    The three [Panic] sites of the walk are
    - [input_at] ([inputs[pos]]): every position the walk looks up is a position of the tree other
      than the end marker, hence an index into the inputs ([okset]);
    - [check_each_sub] ([RegexInternPool::lookup]): every [RSub rid] input was interned, and the pool
      only grows ([subs_in]);
    - [is_star_subword] ([unreachable!()] on a [Subword] input): only run on pool regexes, whose
      inputs contain no [RSub] because the tree is [flat_subwords] ([pure_inputs]). *)
From CG Require Import Base.Prelude Model.Ast Model.Regex Spec.Lang.
From CG Require Import Proofs.RxLang Proofs.Glushkov Proofs.SubsetStmt Proofs.SubsetConstr.
From CG Require Import Proofs.LangDen Proofs.LangJudge Proofs.FromExpr Proofs.C02Lang.
From CG Require Import Proofs.TreeFacts Proofs.RegexFuel.

(** *** [Panic]-freedom composes *)

Definition np {E A} (x : outcome E A) : Prop := forall site, x <> Panic site.

Lemma np_ok {E A} (a : A) : np (@Ok E A a).
Proof. intros site; discriminate. Qed.

Lemma obind_np {E A B} (x : outcome E A) (f : A -> outcome E B) :
  np x -> (forall a, x = Ok a -> np (f a)) -> np (obind x f).
Proof.
  intros Hx Hf site. destruct x as [a|e|s|]; cbn; try discriminate.
  - apply Hf; reflexivity.
  - exfalso. exact (Hx s eq_refl).
Qed.

Lemma omap_ok {E A B} (f : A -> outcome E B) (P : B -> Prop) (l : list A) :
  (forall a, In a l -> exists b, f a = Ok b /\ P b) ->
  exists bs, omap f l = Ok bs /\ Forall P bs.
Proof.
  induction l as [|a l IH]; intros H; cbn [omap].
  - exists []. split; [reflexivity|constructor].
  - destruct (H a (or_introl eq_refl)) as [b [Hb Pb]].
    destruct IH as [bs [Hbs Pbs]]; [intros a' Ha'; apply H; right; exact Ha'|].
    rewrite Hb, Hbs. cbn [obind]. exists (b :: bs). split; [reflexivity|constructor; assumption].
Qed.

(** *** The invariants *)

Definition no_sub (i : rinput) : Prop :=
  match i with RSub _ _ _ => False | _ => True end.

(** no within-word input *)
Definition pure_inputs (l : list rinput) : Prop := Forall no_sub l.

Lemma pure_inputs_spec : forall l,
  pure_inputs l <-> forall rid lv sp, ~ In (RSub rid lv sp) l.
Proof.
  intros l. unfold pure_inputs. rewrite Forall_forall. split.
  - intros H rid lv sp Hin. exact (H _ Hin).
  - intros H i Hin. destruct i; cbn; auto. exact (H _ _ _ Hin).
Qed.

(** [regex_good] (Proofs/WfTrim.v) without the clauses the walk does not need *)
Definition regex_ranged (r : regex) : Prop :=
  exists t, r_tree r = with_end t (r_end r) /\
            in_range 0 (r_end r) (positions t) /\ r_end r = lenN (r_inputs r).

Definition pool_ok (rr : regex) : Prop := regex_ranged rr /\ pure_inputs (r_inputs rr).

(** every within-word input names a regex of the pool *)
Definition subs_in (pl : pool) (l : list rinput) : Prop :=
  forall rid lv sp, In (RSub rid lv sp) l -> exists rr, nthN pl rid = Some rr.

Lemma subs_in_mono : forall pl pl' l, prefix pl pl' -> subs_in pl l -> subs_in pl' l.
Proof.
  intros pl pl' l HP H rid lv sp Hin. destruct (H rid lv sp Hin) as [rr Hrr].
  exists rr. eapply prefix_nthN; eauto.
Qed.

Lemma subs_in_snoc_nosub : forall pl l x, no_sub x -> subs_in pl l -> subs_in pl (l ++ [x]).
Proof.
  intros pl l x Hx H rid lv sp Hin. apply in_app_iff in Hin. destruct Hin as [Hin|[Heq|[]]].
  - eapply H; eauto.
  - subst x. destruct Hx.
Qed.

Lemma pure_snoc : forall l x, no_sub x -> pure_inputs l -> pure_inputs (l ++ [x]).
Proof.
  intros l x Hx H. apply Forall_app. split; [exact H|]. constructor; [exact Hx|constructor].
Qed.

(** *** What [do_from_expr] establishes *)

(** a tree without composite words interns nothing and pushes no within-word input *)
Lemma do_from_expr_pure : forall e s pl id t s' pl',
  subword_free e = true -> do_from_expr e s pl = Ok (id, t, s', pl') ->
  pl' = pl /\ (pure_inputs (b_inputs s) -> pure_inputs (b_inputs s')).
Proof.
  assert (Hch : forall cs, Forall (fun e => forall s pl id t s' pl',
                   subword_free e = true -> do_from_expr e s pl = Ok (id, t, s', pl') ->
                   pl' = pl /\ (pure_inputs (b_inputs s) -> pure_inputs (b_inputs s'))) cs ->
                forall s pl ids ts s' pl',
                  forallb subword_free cs = true ->
                  do_children do_from_expr cs s pl = Ok (ids, ts, s', pl') ->
                  pl' = pl /\ (pure_inputs (b_inputs s) -> pure_inputs (b_inputs s'))).
  { intros cs HF. induction HF as [|c cs Hc HF IH]; intros s pl ids ts s' pl' Ha E; simpl in E.
    - inversion E; subst. auto.
    - simpl in Ha. apply andb_true_iff in Ha. destruct Ha as [Ha1 Ha2].
      destruct (do_from_expr c s pl) as [[[[id t] s1] pl1]| | |] eqn:E1; simpl in E; try discriminate.
      destruct (do_children do_from_expr cs s1 pl1) as [[[[ids2 ts2] s2] pl2]| | |] eqn:E2;
        simpl in E; try discriminate.
      inversion E; subst.
      destruct (Hc _ _ _ _ _ _ Ha1 E1) as [-> H1].
      destruct (IH _ _ _ _ _ _ Ha2 E2) as [-> H2]. auto. }
  induction e using expr_ind'; intros s pl id tt s' pl' Ha E; simpl in E.
  - inversion E; subst. split; [reflexivity|]. simpl. intros Hp. apply pure_snoc; [exact I|exact Hp].
  - inversion E; subst. split; [reflexivity|]. simpl. intros Hp. apply pure_snoc; [exact I|exact Hp].
  - inversion E; subst. split; [reflexivity|]. simpl. intros Hp. apply pure_snoc; [exact I|exact Hp].
  - destruct (do_children do_from_expr cs s pl) as [[[[ids ts] s1] pl1]| | |] eqn:E1;
      simpl in E; try discriminate. inversion E; subst. simpl in Ha.
    exact (Hch cs H _ _ _ _ _ _ Ha E1).
  - destruct (do_children do_from_expr cs s pl) as [[[[ids ts] s1] pl1]| | |] eqn:E1;
      simpl in E; try discriminate. inversion E; subst. simpl in Ha.
    exact (Hch cs H _ _ _ _ _ _ Ha E1).
  - destruct (do_from_expr e s pl) as [[[[cid ct] s1] pl1]| | |] eqn:E1; simpl in E; try discriminate.
    inversion E; subst. simpl in Ha. exact (IHe _ _ _ _ _ _ Ha E1).
  - destruct (do_from_expr e s pl) as [[[[cid ct] s1] pl1]| | |] eqn:E1; simpl in E; try discriminate.
    inversion E; subst. simpl in Ha. exact (IHe _ _ _ _ _ _ Ha E1).
  - discriminate.
  - destruct (do_children do_from_expr cs s pl) as [[[[ids ts] s1] pl1]| | |] eqn:E1;
      simpl in E; try discriminate. inversion E; subst. simpl in Ha.
    exact (Hch cs H _ _ _ _ _ _ Ha E1).
  - simpl in Ha. discriminate.
Qed.

(** the regex [from_expr] finishes has its positions inside its inputs *)
Lemma finish_ranged : forall c pl cid ct cs pl1,
  do_from_expr c empty_bst pl = Ok (cid, ct, cs, pl1) -> regex_ranged (finish_regex cid ct cs).
Proof.
  intros c pl cid ct cs pl1 E.
  destruct (do_from_expr_good witem wleaf wR pl1 (wleaf_case pl1) c _ _ _ _ _ _ E (prefix_refl _))
    as [_ [_ [_ [Rg _]]]].
  destruct (finish_regex_fields cid ct cs) as [Hi [He Ht]].
  exists ct. rewrite Ht, He, Hi. split; [reflexivity|]. split; [exact Rg|reflexivity].
Qed.

(** only [pool_ok] regexes enter the pool, and every [RSub] input pushed names one of them *)
Lemma do_from_expr_pool : forall e s pl id t s' pl',
  flat_subwords e = true -> do_from_expr e s pl = Ok (id, t, s', pl') ->
  Forall pool_ok pl -> subs_in pl (b_inputs s) ->
  Forall pool_ok pl' /\ subs_in pl' (b_inputs s').
Proof.
  assert (Hch : forall cs, Forall (fun e => forall s pl id t s' pl',
                   flat_subwords e = true -> do_from_expr e s pl = Ok (id, t, s', pl') ->
                   Forall pool_ok pl -> subs_in pl (b_inputs s) ->
                   Forall pool_ok pl' /\ subs_in pl' (b_inputs s')) cs ->
                forall s pl ids ts s' pl',
                  forallb flat_subwords cs = true ->
                  do_children do_from_expr cs s pl = Ok (ids, ts, s', pl') ->
                  Forall pool_ok pl -> subs_in pl (b_inputs s) ->
                  Forall pool_ok pl' /\ subs_in pl' (b_inputs s')).
  { intros cs HF. induction HF as [|c cs Hc HF IH]; intros s pl ids ts s' pl' Ha E Hp Hs; simpl in E.
    - inversion E; subst. auto.
    - simpl in Ha. apply andb_true_iff in Ha. destruct Ha as [Ha1 Ha2].
      destruct (do_from_expr c s pl) as [[[[id t] s1] pl1]| | |] eqn:E1; simpl in E; try discriminate.
      destruct (do_children do_from_expr cs s1 pl1) as [[[[ids2 ts2] s2] pl2]| | |] eqn:E2;
        simpl in E; try discriminate.
      inversion E; subst.
      destruct (Hc _ _ _ _ _ _ Ha1 E1 Hp Hs) as [Hp1 Hs1].
      exact (IH _ _ _ _ _ _ Ha2 E2 Hp1 Hs1). }
  induction e using expr_ind'; intros s pl id tt s' pl' Ha E Hp Hs; simpl in E.
  - inversion E; subst. split; [exact Hp|]. simpl. apply subs_in_snoc_nosub; [exact I|exact Hs].
  - inversion E; subst. split; [exact Hp|]. simpl. apply subs_in_snoc_nosub; [exact I|exact Hs].
  - inversion E; subst. split; [exact Hp|]. simpl. apply subs_in_snoc_nosub; [exact I|exact Hs].
  - destruct (do_children do_from_expr cs s pl) as [[[[ids ts] s1] pl1]| | |] eqn:E1;
      simpl in E; try discriminate. inversion E; subst. simpl in Ha.
    exact (Hch cs H _ _ _ _ _ _ Ha E1 Hp Hs).
  - destruct (do_children do_from_expr cs s pl) as [[[[ids ts] s1] pl1]| | |] eqn:E1;
      simpl in E; try discriminate. inversion E; subst. simpl in Ha.
    exact (Hch cs H _ _ _ _ _ _ Ha E1 Hp Hs).
  - destruct (do_from_expr e s pl) as [[[[cid ct] s1] pl1]| | |] eqn:E1; simpl in E; try discriminate.
    inversion E; subst. simpl in Ha. exact (IHe _ _ _ _ _ _ Ha E1 Hp Hs).
  - destruct (do_from_expr e s pl) as [[[[cid ct] s1] pl1]| | |] eqn:E1; simpl in E; try discriminate.
    inversion E; subst. simpl in Ha. exact (IHe _ _ _ _ _ _ Ha E1 Hp Hs).
  - discriminate.
  - destruct (do_children do_from_expr cs s pl) as [[[[ids ts] s1] pl1]| | |] eqn:E1;
      simpl in E; try discriminate. inversion E; subst. simpl in Ha.
    exact (Hch cs H _ _ _ _ _ _ Ha E1 Hp Hs).
  - (* Subword *)
    clear IHe. simpl in Ha.
    destruct (do_from_expr e empty_bst pl) as [[[[cid ct] cs] pl1]| | |] eqn:E1;
      simpl in E; try discriminate.
    destruct (pool_intern (finish_regex cid ct cs) pl1) as [rid pl2] eqn:Ei.
    inversion E; subst. simpl.
    destruct (do_from_expr_pure _ _ _ _ _ _ _ Ha E1) as [-> Hpure].
    pose proof (finish_ranged _ _ _ _ _ _ E1) as Hrg.
    assert (Hok : pool_ok (finish_regex cid ct cs)).
    { split; [exact Hrg|]. destruct (finish_regex_fields cid ct cs) as [Hi _]. rewrite Hi.
      apply Hpure. constructor. }
    destruct (pool_intern_spec _ _ _ _ Ei) as [Hpre Hnth].
    split.
    + unfold pool_intern in Ei. destruct (pool_find (finish_regex cid ct cs) pl 0).
      * inversion Ei; subst. exact Hp.
      * inversion Ei; subst. apply Forall_app. split; [exact Hp|]. constructor; [exact Hok|constructor].
    + intros rid' lv sp' Hin. apply in_app_iff in Hin. destruct Hin as [Hin|[Heq|[]]].
      * exact (subs_in_mono _ _ _ Hpre Hs _ _ _ Hin).
      * inversion Heq; subst. eauto.
Qed.

(** *** Position sets the walks may look up *)

(** every position is the end marker or an index into the inputs *)
Definition okset (r : regex) (S : list N) : Prop :=
  forall p, In p S -> p = r_end r \/ exists i, nthN (r_inputs r) p = Some i.

Definition fw_ok (r : regex) (fw : list (N * list N)) : Prop :=
  forall p s, assocN p fw = Some s -> okset r s.

Lemma positions_with_end : forall t e x,
  In x (positions (with_end t e)) -> In x (positions t) \/ x = e.
Proof.
  intros t e x H. unfold with_end in H. simpl in H. apply in_app_iff in H.
  destruct H as [H|[H|[]]]; auto.
Qed.

Lemma nthN_lt_some : forall {A} (l : list A) p, p < lenN l -> exists x, nthN l p = Some x.
Proof.
  intros A l p Hlt. unfold nthN. destruct (nth_error l (N.to_nat p)) eqn:En; eauto.
  apply nth_error_None in En. unfold lenN in Hlt. lia.
Qed.

Lemma ranged_pos : forall r t,
  r_tree r = with_end t (r_end r) -> in_range 0 (r_end r) (positions t) ->
  r_end r = lenN (r_inputs r) ->
  forall p, In p (positions (r_tree r)) -> p = r_end r \/ exists i, nthN (r_inputs r) p = Some i.
Proof.
  intros r t Ht Hrg Hend p Hp. rewrite Ht in Hp. apply positions_with_end in Hp.
  destruct Hp as [Hp|Hp]; [right|left; exact Hp].
  specialize (Hrg p Hp). apply nthN_lt_some. rewrite <- Hend. lia.
Qed.

Lemma ranged_first : forall r, regex_ranged r -> okset r (regex_first r).
Proof.
  intros r [t [Ht [Hrg Hend]]] p Hp. unfold regex_first in Hp. apply first_pos in Hp.
  eapply ranged_pos; eauto.
Qed.

Lemma ranged_follow : forall r, regex_ranged r -> fw_ok r (regex_follow r).
Proof.
  intros r [t [Ht [Hrg Hend]]] p s Ha q Hq.
  assert (Hin : In (p, q) (followpos (r_tree r))).
  { apply follow_table_tin. exists s. split; [exact Ha|exact Hq]. }
  apply follow_pos in Hin. destruct Hin as [_ Hin]. eapply ranged_pos; eauto.
Qed.

(** *** The pieces of the walks *)

Lemma inputs_of_ok : forall r S, okset r S ->
  exists inputs, inputs_of r S = Ok inputs /\ Forall (fun i => In i (r_inputs r)) inputs.
Proof.
  intros r S HS. unfold inputs_of. apply omap_ok. intros p Hp.
  apply filter_In in Hp. destruct Hp as [Hp Hne].
  destruct (HS p Hp) as [->|[i Hi]].
  - rewrite N.eqb_refl in Hne. discriminate.
  - exists i. unfold input_at. rewrite Hi. split; [reflexivity|].
    unfold nthN in Hi. eapply nth_error_In; eauto.
Qed.

Lemma pure_sub : forall l m, pure_inputs l -> Forall (fun i => In i l) m -> pure_inputs m.
Proof.
  intros l m Hl Hm. unfold pure_inputs in *. rewrite Forall_forall in *.
  intros i Hi. apply Hl. apply Hm. exact Hi.
Qed.

(** *** [tail_only] on a regex without within-word inputs *)

Section TailOnlyNP.
  Variable r : regex.
  Variable fw : list (N * list N).
  Hypothesis Hpure : pure_inputs (r_inputs r).
  Hypothesis Hfw : fw_ok r fw.

  (** [r_end] is always visited, so the walk only indexes the inputs at positions in range *)
  Lemma tail_only_np_gen : forall fuel S pp visited,
    okset r S -> In (r_end r) visited ->
    np (tail_only r fw fuel S pp visited) /\
    (forall v', tail_only r fw fuel S pp visited = Ok v' -> In (r_end r) v').
  Proof.
    induction fuel as [|f IHf]; intros S pp visited HS Hend; [split; [intros site; discriminate|discriminate]|].
    cbn [tail_only].
    destruct (inputs_of_ok r S HS) as [inputs [Hin Hsub]]. rewrite Hin. cbn [obind].
    destruct (first_clash pp inputs); [split; [intros site; discriminate|discriminate]|].
    clear Hin.
    match goal with |- np (?F S visited) /\ _ =>
      assert (Hloop : forall ps visited, (forall p, In p ps -> In p S) -> In (r_end r) visited ->
                np (F ps visited) /\ (forall v', F ps visited = Ok v' -> In (r_end r) v'));
      [|apply Hloop; auto] end.
    clear visited Hend. intros ps.
    induction ps as [|p rest IHps]; intros visited Hps Hend.
    - cbn. split; [apply np_ok|]. intros v' H. inversion H; subst. exact Hend.
    - cbn -[memN assocN tail_only].
      assert (Hrest : forall q, In q rest -> In q S) by (intros q Hq; apply Hps; right; exact Hq).
      destruct (memN p visited) eqn:Hm; [apply IHps; assumption|].
      destruct (assocN p fw) as [follow|] eqn:Ha; [|apply IHps; assumption].
      assert (Hne : p <> r_end r).
      { intro Heq. subst p. assert (memN (r_end r) visited = true).
        { unfold memN. apply existsb_exists. exists (r_end r). split; [exact Hend|apply N.eqb_refl]. }
        congruence. }
      destruct (HS p (Hps p (or_introl eq_refl))) as [Heq|[i Hi]]; [contradiction|].
      assert (Hia : input_at r p = Ok i) by (unfold input_at; rewrite Hi; reflexivity).
      rewrite Hia. cbn [obind].
      assert (Hpi : no_sub i).
      { unfold pure_inputs in Hpure. rewrite Forall_forall in Hpure. apply Hpure.
        unfold nthN in Hi. eapply nth_error_In; eauto. }
      assert (Hst : exists st, is_star_subword i = Ok st).
      { destruct i; cbn; try (eexists; reflexivity). destruct Hpi. }
      destruct Hst as [st Hst]. rewrite Hst. cbn [obind].
      destruct (IHf follow (opt_or pp (if st then Some i else None)) (p :: visited) (Hfw _ _ Ha)
                    (or_intror Hend)) as [Hnp Hev].
      destruct (tail_only r fw f follow (opt_or pp (if st then Some i else None)) (p :: visited))
        as [v1|e|m|] eqn:Hrec; cbn [obind].
      + apply IHps; [exact Hrest|]. apply Hev. reflexivity.
      + split; [intros site; discriminate|discriminate].
      + exfalso. exact (Hnp m eq_refl).
      + split; [intros site; discriminate|discriminate].
  Qed.

  Lemma tail_only_np : forall fuel S pp visited,
    okset r S -> In (r_end r) visited -> np (tail_only r fw fuel S pp visited).
  Proof. intros. apply tail_only_np_gen; assumption. Qed.
End TailOnlyNP.

Theorem check_tail_only_np : forall rr, pool_ok rr -> np (check_tail_only rr).
Proof.
  intros rr [Hrg Hpure]. unfold check_tail_only.
  apply obind_np; [|intros; apply np_ok].
  apply tail_only_np; [exact Hpure|apply ranged_follow; exact Hrg|apply ranged_first; exact Hrg|left; reflexivity].
Qed.

(** *** [check_subwords] on the main regex *)

Lemma sub_ids_of_In : forall inputs rid,
  In rid (sub_ids_of inputs) -> exists lv sp, In (RSub rid lv sp) inputs.
Proof.
  intros inputs rid H. unfold sub_ids_of in H. apply in_flat_map in H.
  destruct H as [i [Hi Hrid]]. destruct i; cbn in Hrid; try contradiction.
  destruct Hrid as [<-|[]]. eauto.
Qed.

Section CheckSubwordsNP.
  Variable r : regex.
  Variable fw : list (N * list N).
  Variable pl : pool.
  Hypothesis Hfw : fw_ok r fw.
  Hypothesis Hpool : Forall pool_ok pl.
  Hypothesis Hsubs : subs_in pl (r_inputs r).

  Lemma check_each_sub_np : forall ids checked,
    (forall rid, In rid ids -> exists rr, nthN pl rid = Some rr) ->
    np (check_each_sub pl ids checked).
  Proof.
    induction ids as [|rid rest IH]; intros checked Hids; cbn [check_each_sub]; [apply np_ok|].
    destruct (Hids rid (or_introl eq_refl)) as [rr Hrr]. rewrite Hrr.
    apply obind_np.
    - apply check_tail_only_np. rewrite Forall_forall in Hpool. apply Hpool.
      unfold nthN in Hrr. eapply nth_error_In; eauto.
    - intros _ _. apply IH. intros rid' Hin. apply Hids. right; exact Hin.
  Qed.

  Lemma check_subwords_np : forall fuel S visited checked,
    okset r S -> np (check_subwords r fw pl fuel S visited checked).
  Proof.
    induction fuel as [|f IHf]; intros S visited checked HS; [intros site; discriminate|].
    cbn [check_subwords].
    destruct (inputs_of_ok r S HS) as [inputs [Hin Hsub]]. rewrite Hin. cbn [obind]. cbv zeta.
    apply obind_np.
    { apply check_each_sub_np. intros rid Hrid. apply filter_In in Hrid. destruct Hrid as [Hrid _].
      apply sub_ids_of_In in Hrid. destruct Hrid as [lv [sp Hi]].
      rewrite Forall_forall in Hsub. exact (Hsubs _ _ _ (Hsub _ Hi)). }
    intros checked1 _. clear Hin HS.
    generalize S. intros ps. generalize checked1 as ck.
    revert visited. induction ps as [|p rest IHps]; intros visited ck.
    - cbn. apply np_ok.
    - cbn -[memN assocN check_subwords fst snd].
      destruct (memN p visited); [apply IHps|].
      destruct (assocN p fw) as [follow|] eqn:Ha; [|apply IHps].
      apply obind_np; [apply IHf; exact (Hfw _ _ Ha)|].
      intros vc _. apply IHps.
  Qed.
End CheckSubwordsNP.

(** *** The theorems *)

Theorem check_ambiguities_np : forall r pl,
  regex_ranged r -> Forall pool_ok pl -> subs_in pl (r_inputs r) ->
  np (check_ambiguities r pl).
Proof.
  intros r pl Hrg Hpool Hsubs. unfold check_ambiguities.
  apply obind_np; [|intros; apply np_ok].
  apply check_subwords_np; auto; [apply ranged_follow|apply ranged_first]; exact Hrg.
Qed.

Lemma from_expr_invariants : forall e r pl,
  flat_subwords e = true -> from_expr e [] = Ok (r, pl) ->
  regex_ranged r /\ Forall pool_ok pl /\ subs_in pl (r_inputs r).
Proof.
  intros e r pl Hf E. unfold from_expr in E.
  destruct (do_from_expr e empty_bst []) as [[[[id t] s] pl1]| | |] eqn:E1; simpl in E; try discriminate.
  inversion E; subst.
  split; [eapply finish_ranged; eauto|].
  destruct (finish_regex_fields id t s) as [Hi _]. rewrite Hi.
  apply (do_from_expr_pool _ _ _ _ _ _ _ Hf E1); [constructor|].
  intros rid lv sp [].
Qed.

Theorem check_ambiguities_no_panic : forall e r pl,
  flat_subwords e = true -> from_expr e [] = Ok (r, pl) ->
  forall site, check_ambiguities r pl <> Panic site.
Proof.
  intros e r pl Hf E.
  destruct (from_expr_invariants e r pl Hf E) as [Hrg [Hpool Hsubs]].
  apply check_ambiguities_np; assumption.
Qed.

Corollary check_ambiguities_result : forall e r pl,
  flat_subwords e = true -> from_expr e [] = Ok (r, pl) ->
  check_ambiguities r pl = Ok tt \/
  exists a b, check_ambiguities r pl = Err (UnboundedMatchable a b).
Proof.
  intros e r pl Hf E.
  pose proof (check_ambiguities_no_panic e r pl Hf E) as Hnp.
  pose proof (check_ambiguities_fuel r pl) as Hnf.
  destruct (check_ambiguities r pl) as [[]|[a b]|site|].
  - left; reflexivity.
  - right. exists a, b. reflexivity.
  - exfalso. exact (Hnp site eq_refl).
  - exfalso. exact (Hnf eq_refl).
Qed.

Print Assumptions check_tail_only_np.
Print Assumptions check_ambiguities_no_panic.
Print Assumptions check_ambiguities_result.
