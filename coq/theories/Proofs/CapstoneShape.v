(** The validated tree of a PARSED text, compiled for a shell other than zsh, has the shape the C01
    theorem asks for ([SubBridge.sub_tree]): no distributive description left, no word inside a
    word, and no completion-side (zsh [compadd]) command.  The first two are [check_tree]; the
    third: the parser only builds commands with the flag off, and [specialize] sets it only for
    zsh. *)
From CG Require Import Base.Prelude Model.Ast Model.Parser Model.Check Spec.Shape Spec.Image.
From CG Require Import Proofs.CheckChoice Proofs.CheckLemmas Proofs.CheckSpans Proofs.CheckTotal Proofs.CheckProvenance
  Proofs.TreeFacts Proofs.CheckTree Proofs.LangBridge Proofs.SubBridge.
From CG Require Props.C05b.

Fixpoint cmd_zs (e : expr) : list bool :=
  match e with
  | Terminal _ _ _ _ | NontermRef _ _ _ => []
  | Command _ z _ _ => [z]
  | Subword c _ _ | Optional c _ | Many1 c _ | DistDescr c _ _ => cmd_zs c
  | Sequence cs _ | Alternative cs _ | Fallback cs _ => flat_map cmd_zs cs
  end.

Definition zfree (e : expr) : Prop := forall z, In z (cmd_zs e) -> z = false.

Lemma distribute_zs e : forall d, cmd_zs (fst (distribute e d)) = cmd_zs e.
Proof.
  assert (Hl : forall cs, Forall (fun e => forall d, cmd_zs (fst (distribute e d)) = cmd_zs e) cs ->
                          forall d, flat_map cmd_zs (fst (distribute_list cs d)) = flat_map cmd_zs cs).
  { induction 1 as [|x l Hx _ IH]; intro d; cbn; [reflexivity|].
    pose proof (Hx d) as H1. destruct (distribute x d) as [c' d1].
    pose proof (IH d1) as H3. destruct (distribute_list l d1) as [r' d2]. cbn in *.
    rewrite H1, H3. reflexivity. }
  induction e using expr_ind'; intro d0.
  - cbn. destruct d; [reflexivity|]. destruct d0; reflexivity.
  - reflexivity.
  - reflexivity.
  - rewrite distribute_seq. specialize (Hl cs H d0). destruct (distribute_list cs d0). exact Hl.
  - cbn [distribute fst cmd_zs]. rewrite flat_map_map.
    apply flat_map_ext_Forall; eapply Forall_impl; try exact H; intros a Ha; apply Ha.
  - cbn [distribute]. specialize (IHe d0). destruct (distribute e d0). exact IHe.
  - cbn [distribute]. specialize (IHe d0). destruct (distribute e d0). exact IHe.
  - cbn [distribute fst cmd_zs]. apply IHe.
  - rewrite distribute_fb. specialize (Hl cs H d0). destruct (distribute_list cs d0). exact Hl.
  - cbn [distribute]. specialize (IHe d0). destruct (distribute e d0). exact IHe.
Qed.

Lemma flatten_zs e : cmd_zs (flatten e) = cmd_zs e.
Proof.
  induction e using expr_ind'; cbn [flatten cmd_zs]; try reflexivity; try assumption;
    rewrite flat_map_map; apply flat_map_ext_Forall; exact H.
Qed.

Lemma collapse_zs e : cmd_zs (collapse e) = cmd_zs e.
Proof.
  induction e using expr_ind'; cbn [collapse cmd_zs]; try reflexivity; try assumption;
    try (rewrite flat_map_map; apply flat_map_ext_Forall; exact H).
  apply flatten_zs.
Qed.

Lemma propagate_zs e : forall lvl, cmd_zs (propagate e lvl) = cmd_zs e.
Proof.
  induction e using expr_ind'; intro lvl; try reflexivity; try (cbn [propagate cmd_zs]; apply IHe).
  - cbn [propagate cmd_zs]. rewrite flat_map_map. apply flat_map_ext_Forall.
    eapply Forall_impl; [|exact H]. intros a Ha. apply Ha.
  - cbn [propagate cmd_zs]. rewrite flat_map_map. apply flat_map_ext_Forall.
    eapply Forall_impl; [|exact H]. intros a Ha. apply Ha.
  - rewrite propagate_fb. cbn [cmd_zs]. generalize 0 as i.
    induction H as [|x l Hx _ IH]; intro i; cbn; [reflexivity|]. rewrite Hx, IH. reflexivity.
Qed.

Lemma zfree_list cs : (forall z, In z (flat_map cmd_zs cs) -> z = false) <-> Forall zfree cs.
Proof.
  unfold zfree. induction cs as [|x r IH]; cbn [flat_map]; split; intro H.
  - constructor.
  - intros c [].
  - constructor; [intros c Hc; apply H; apply in_or_app; auto|]. apply IH. intros c Hc. apply H. apply in_or_app; auto.
  - inversion H as [|? ? Hx Hr]; subst. intros c Hc. apply in_app_or in Hc. destruct Hc as [Hc|Hc]; [auto|].
    exact (proj2 IH Hr c Hc).
Qed.

Lemma map_zfree (h : expr -> expr) cs :
  Forall (fun c => zfree c -> zfree (h c)) cs -> Forall zfree cs -> Forall zfree (map h cs).
Proof. induction 1; intro Hf; [constructor|]. inversion Hf; subst. cbn. constructor; auto. Qed.

Lemma specialize_zfree sh us bi fs plain e :
  shell_eqb sh Zsh = false -> zfree e -> zfree (specialize sh us bi fs plain e).
Proof.
  intro Hsh. induction e using expr_ind'; intro Hw; cbn [specialize]; try exact Hw; try (apply IHe; exact Hw).
  - unfold specialize_ref, is_zsh. rewrite Hsh. destruct (assoc n us); [intros z [<-|[]]; reflexivity|].
    destruct (assoc n fs) as [[c s]|]; [intros z [<-|[]]; reflexivity|].
    destruct (mem_str n plain); [exact Hw|]. destruct (assoc n bi); [intros z [<-|[]]; reflexivity|exact Hw].
  - unfold zfree in *. cbn [cmd_zs] in *. apply zfree_list. apply map_zfree; [exact H|]. apply zfree_list. exact Hw.
  - unfold zfree in *. cbn [cmd_zs] in *. apply zfree_list. apply map_zfree; [exact H|]. apply zfree_list. exact Hw.
  - unfold zfree in *. cbn [cmd_zs] in *. apply zfree_list. apply map_zfree; [exact H|]. apply zfree_list. exact Hw.
Qed.

Lemma resolve_zfree t e : (forall n rhs, assoc n t = Some rhs -> zfree rhs) -> zfree e -> zfree (resolve t e).
Proof.
  intro Ht. induction e using expr_ind'; intro Hw; cbn [resolve]; try exact Hw; try (apply IHe; exact Hw).
  - destruct (assoc n t) eqn:E; [eapply Ht; eauto|exact Hw].
  - unfold zfree in *. cbn [cmd_zs] in *. apply zfree_list. apply map_zfree; [exact H|]. apply zfree_list. exact Hw.
  - unfold zfree in *. cbn [cmd_zs] in *. apply zfree_list. apply map_zfree; [exact H|]. apply zfree_list. exact Hw.
  - unfold zfree in *. cbn [cmd_zs] in *. apply zfree_list. apply map_zfree; [exact H|]. apply zfree_list. exact Hw.
Qed.

Lemma resolve_in_order_zfree ord : forall t,
  (forall n rhs, assoc n t = Some rhs -> zfree rhs) ->
  forall n rhs, assoc n (resolve_in_order ord t) = Some rhs -> zfree rhs.
Proof.
  induction ord as [|n r IH]; intros t Ht; cbn [resolve_in_order]; [exact Ht|].
  destruct (assoc n t) as [rhs|] eqn:E; [|apply IH; exact Ht].
  apply IH. intros m rhs' Hm. rewrite assoc_update_def in Hm.
  destruct (String.eqb m n); [|eapply Ht; eauto].
  destruct (assoc m t); [|discriminate]. inversion Hm; subst.
  apply resolve_zfree; [exact Ht|eapply Ht; eauto].
Qed.

Definition grammar_zfree (g : grammar) : Prop := forall s, In s g -> zfree (stmt_expr s).

Theorem from_grammar_zfree builtins g sh v :
  shell_eqb sh Zsh = false -> grammar_zfree g -> from_grammar builtins g sh = Ok v -> zfree (v_expr v).
Proof.
  intros Hsh Hg H. apply from_grammar_ok in H. rename H into A.
  rewrite (a_v _ _ _ _ A). cbn [v_expr]. unfold a_expr5.
  intros z Hz. rewrite propagate_zs, collapse_zs in Hz. revert z Hz.
  change (zfree (resolve (a_table _ _ _ _ A) (a_expr2 _ _ _ _ A))).
  pose proof (a_collect _ _ _ _ A) as Hcol.
  assert (Hspec : forall e, zfree e -> zfree (a_spec _ _ _ _ A (distribute_descriptions e))).
  { intros e He. unfold a_spec, spec_of. apply specialize_zfree; [exact Hsh|].
    intros z Hz. unfold distribute_descriptions in Hz. rewrite distribute_zs in Hz. apply He. exact Hz. }
  assert (H0 : zfree (expr0_of g)).
  { assert (Hall : forall e, In e (map snd (call_variants g)) -> zfree e).
    { intros e He. apply in_map_iff in He. destruct He as [[[n sp] e'] [Heq Hin]].
      cbn in Heq. subst e'. unfold call_variants in Hin. apply in_flat_map in Hin.
      destruct Hin as [s [Hs Hin]]. destruct s; [|destruct Hin]. destruct Hin as [Hin|[]].
      inversion Hin; subst. apply (Hg _ Hs). }
    unfold expr0_of. destruct (map snd (call_variants g)) as [|e [|e' r]] eqn:E.
    - intros z [].
    - apply Hall. left. reflexivity.
    - intros z Hz. cbn [cmd_zs] in Hz. apply in_flat_map in Hz. destruct Hz as [x [Hx Hz]]. eapply Hall; eauto. }
  apply resolve_zfree.
  - apply resolve_in_order_zfree. intros n rhs Hn. apply assoc_In in Hn. unfold table0_of in Hn. apply in_map_iff in Hn.
    destruct Hn as [d2 [Heq Hin]]. inversion Heq; subst.
    destruct (defs2_in builtins g sh _ (a_us _ _ _ _ A) (a_fs _ _ _ _ A) Hcol d2 Hin) as [rhs0 [Hgi Hr]]. rewrite Hr.
    apply Hspec. apply (Hg _ Hgi).
  - unfold a_expr2, a_expr1. apply Hspec. exact H0.
Qed.

(** the parser only builds commands with the completion-side flag off *)
Lemma gshapeb_zfree lit nt cmd e : forall w, gshapeb lit nt cmd w e = true -> zfree e.
Proof.
  induction e using expr_ind'; intros w Hs; cbn [gshapeb] in Hs.
  - intros z [].
  - intros z [].
  - apply andb_prop in Hs. destruct Hs as [Hs _]. apply andb_prop in Hs. destruct Hs as [_ Hz].
    intros z0 [<-|[]]. destruct z; [discriminate|reflexivity].
  - apply andb_prop in Hs. destruct Hs as [_ Hs]. rewrite forallb_forall in Hs. rewrite Forall_forall in H.
    intros z Hz. cbn [cmd_zs] in Hz. apply in_flat_map in Hz. destruct Hz as [x [Hx Hz]]. exact (H x Hx w (Hs x Hx) z Hz).
  - apply andb_prop in Hs. destruct Hs as [_ Hs]. rewrite forallb_forall in Hs. rewrite Forall_forall in H.
    intros z Hz. cbn [cmd_zs] in Hz. apply in_flat_map in Hz. destruct Hz as [x [Hx Hz]]. exact (H x Hx w (Hs x Hx) z Hz).
  - exact (IHe w Hs).
  - exact (IHe w Hs).
  - exact (IHe w Hs).
  - apply andb_prop in Hs. destruct Hs as [_ Hs]. rewrite forallb_forall in Hs. rewrite Forall_forall in H.
    intros z Hz. cbn [cmd_zs] in Hz. apply in_flat_map in Hz. destruct Hz as [x [Hx Hz]]. exact (H x Hx w (Hs x Hx) z Hz).
  - apply andb_prop in Hs. destruct Hs as [_ Hs]. destruct e; try discriminate.
    apply (IHe true). cbn [gshapeb]. exact Hs.
Qed.

Lemma parse_zfree text g : parse text = Ok g -> grammar_zfree g.
Proof.
  intros H s Hs. pose proof (Props.C05b.C05_image_partial text g H) as Hi. rewrite forallb_forall in Hi.
  specialize (Hi s Hs). destruct s as [n sp e|n sp [[shn shsp]|] rhs]; cbn [stmt_img stmt_expr] in *.
  - apply andb_prop in Hi. destruct Hi as [_ Hi]. eapply gshapeb_zfree. exact Hi.
  - repeat (apply andb_prop in Hi; destruct Hi as [Hi ?]). eapply gshapeb_zfree. eassumption.
  - repeat (apply andb_prop in Hi; destruct Hi as [Hi ?]). eapply gshapeb_zfree. eassumption.
Qed.

(** the three facts together give the shape *)
Lemma toplevel_of e : dd_free e = true -> subword_free e = true -> zfree e -> toplevel_tree e = true.
Proof.
  induction e using expr_ind'; cbn [dd_free subword_free toplevel_tree]; intros Hd Hs Hz; try reflexivity; try discriminate;
    try (apply IHe; assumption).
  - rewrite (Hz z (or_introl eq_refl)). reflexivity.
  - rewrite forallb_forall in *. rewrite Forall_forall in H. intros x Hx. apply (H x Hx (Hd x Hx) (Hs x Hx)).
    intros z Hz0. apply Hz. cbn [cmd_zs]. apply in_flat_map. eauto.
  - rewrite forallb_forall in *. rewrite Forall_forall in H. intros x Hx. apply (H x Hx (Hd x Hx) (Hs x Hx)).
    intros z Hz0. apply Hz. cbn [cmd_zs]. apply in_flat_map. eauto.
  - rewrite forallb_forall in *. rewrite Forall_forall in H. intros x Hx. apply (H x Hx (Hd x Hx) (Hs x Hx)).
    intros z Hz0. apply Hz. cbn [cmd_zs]. apply in_flat_map. eauto.
Qed.

Lemma sub_tree_of e : dd_free e = true -> flat_subwords e = true -> zfree e -> sub_tree e = true.
Proof.
  induction e using expr_ind'; cbn [dd_free flat_subwords sub_tree]; intros Hd Hs Hz; try reflexivity; try discriminate;
    try (apply IHe; assumption).
  - rewrite (Hz z (or_introl eq_refl)). reflexivity.
  - rewrite forallb_forall in *. rewrite Forall_forall in H. intros x Hx. apply (H x Hx (Hd x Hx) (Hs x Hx)).
    intros z Hz0. apply Hz. cbn [cmd_zs]. apply in_flat_map. eauto.
  - rewrite forallb_forall in *. rewrite Forall_forall in H. intros x Hx. apply (H x Hx (Hd x Hx) (Hs x Hx)).
    intros z Hz0. apply Hz. cbn [cmd_zs]. apply in_flat_map. eauto.
  - rewrite forallb_forall in *. rewrite Forall_forall in H. intros x Hx. apply (H x Hx (Hd x Hx) (Hs x Hx)).
    intros z Hz0. apply Hz. cbn [cmd_zs]. apply in_flat_map. eauto.
  - apply toplevel_of; assumption.
Qed.

Theorem parsed_sub_tree builtins text g sh v :
  parse text = Ok g -> shell_eqb sh Zsh = false -> from_grammar builtins g sh = Ok v -> sub_tree (v_expr v) = true.
Proof.
  intros Hg Hsh Hv. destruct (check_tree builtins g sh v Hv) as [Hdd [Hflat _]].
  apply sub_tree_of; [exact Hdd|exact Hflat|].
  apply (from_grammar_zfree builtins g sh v Hsh (parse_zfree text g Hg) Hv).
Qed.
