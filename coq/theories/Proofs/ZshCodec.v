(** C04, zsh: every printer of a data statement in [Model/EmitData.Z] is read back by the statement
    reader of [Spec/ScriptRead.v] (zsh: [declare] keywords, one-based states and literal ids,
    descriptions as C07 string constants, the compadd tables). *)
From Coq Require Import DecimalString DecimalN DecimalPos DecimalFacts.
From CG Require Import Base.Prelude Model.Ast Model.Dfa Model.Tpl Model.Quote Model.Tables Model.EmitBash Model.EmitData
     Spec.ShellDQ Spec.ScriptRead Proofs.QuoteRT Proofs.BashCodec Proofs.BashScript Proofs.ScriptGen.
From CGgen Require Import Consts TplZsh.
Open Scope N_scope.
Open Scope list_scope.

(** ** lists of string constants, for every shell: [P] is the class of texts the shell's constant
    reads back for (C07) *)
Section DqList.
Variable sh : shell.
Variable P : string -> Prop.
Hypothesis RT : forall s rest, P s -> safe sh rest = true -> read sh (append (make_string_constant sh s) rest) = Some (s, rest).
Variable sep : string.
Hypothesis sep_ne : sep <> EmptyString.
Hypothesis sep_safe : forall x, safe sh (append sep x) = true.

Lemma dq_listG texts r :
  Forall P texts -> safe sh r = true -> dq sh r = None -> strip sep r = None ->
  sep_by (dq sh) sep (append (join sep (map (make_string_constant sh) texts)) r) = Some (texts, r).
Proof.
  intros Hadm Hsafe Hstop Hstrip. unfold sep_by.
  destruct texts as [|a l]; cbn [map].
  - Transparent join. cbn [join append]. Opaque join. rewrite Hstop. reflexivity.
  - inversion Hadm as [|? ? Ha Hl]; subst.
    rewrite (join_cons (make_string_constant sh) sep a l). rewrite append_assoc.
    assert (Hs1 : safe sh (sconcat (map (fun a0 => append sep (make_string_constant sh a0)) l) ++ r)%string = true).
    { destruct l; cbn [map sconcat]; [exact Hsafe | rewrite !append_assoc; apply sep_safe]. }
    unfold dq at 1. rewrite (RT a _ Ha Hs1).
    assert (Go : forall l fuel, Forall P l -> (List.length l <= fuel)%nat ->
               sep_by_go fuel (dq sh) sep (sconcat (map (fun a => append sep (make_string_constant sh a)) l) ++ r)%string = (l, r)).
    { clear - RT Hsafe Hstrip sep_safe. induction l as [|b l IH]; intros fuel Hl Hf.
      - cbn [map sconcat append]. destruct fuel; [reflexivity|]. cbn [sep_by_go]. rewrite Hstrip. reflexivity.
      - destruct fuel as [|fuel]; [cbn in Hf; lia|]. inversion Hl as [|? ? Hb Hl']; subst.
        cbn [map sconcat]. rewrite !append_assoc. cbn [sep_by_go]. rewrite strip_app.
        assert (Hs : safe sh (sconcat (map (fun a0 => append sep (make_string_constant sh a0)) l) ++ r)%string = true).
        { destruct l; cbn [map sconcat]; [exact Hsafe | rewrite !append_assoc; apply sep_safe]. }
        unfold dq at 1. rewrite (RT b _ Hb Hs). rewrite IH by (try assumption; cbn in Hf; lia). reflexivity. }
    rewrite Go; [reflexivity | assumption |].
    apply length_sconcat_ge. exact sep_ne.
Qed.
End DqList.

Definition zst := Z.st.

Lemma zsh_rt s rest : True -> safe Zsh rest = true -> read Zsh (append (make_string_constant Zsh s) rest) = Some (s, rest).
Proof. intros _ H. apply quote_roundtrip; [apply admissible_zsh | exact H]. Qed.

Lemma all_true {A} (l : list A) : Forall (fun _ => True) l.
Proof. induction l; constructor; auto. Qed.

Lemma zsh_dq_list texts r :
  starts_with ")"%char r ->
  sep_by (dq Zsh) " " (append (join " " (map (make_string_constant Zsh) texts)) r) = Some (texts, r).
Proof.
  intros [r' ->]. apply (dq_listG Zsh (fun _ => True) zsh_rt " "); try reflexivity; [discriminate | apply all_true].
Qed.

(** ** variables *)
Ltac each_var_go H tac :=
  lazymatch type of H with
  | _ \/ _ => destruct H as [<- | H]; [tac | each_var_go H tac]
  | False => destruct H
  end.
Definition row_vars : list string :=
  ["literal_transitions"; "command_transitions"; "compadd_transitions"; "subword_literal_transitions";
   "subword_command_transitions"; "subword_compadd_transitions"; "subword_transitions"].
Definition pair_vars : list string :=
  ["star_transitions"; "subword_star_transitions"; "descr_id_from_literal_id"; "subword_descr_id_from_literal_id"].
Definition level_vars : list string :=
  ["literal_transitions_level_"; "commands_level_"; "compadd_commands_level_"; "subword_literal_transitions_level_";
   "subword_commands_level_"; "subword_compadd_commands_level_"; "subword_transitions_level_"].
Definition scalar_vars : list string := ["max_fallback_level"; "subword_max_fallback_level"; "state"].
Definition decl_vars : list string := row_vars ++ ["descriptions"; "subword_descriptions"].
Definition lits_vars : list string := ["literals"; "subword_literals"].
Definition descr_vars : list string := ["descriptions"; "subword_descriptions"].

Ltac each_var H tac :=
  cbv [In row_vars pair_vars level_vars scalar_vars decl_vars lits_vars descr_vars app] in H; each_var_go H tac.

(** X[s]="([k]=v ...)" *)
Lemma zsh_row_stmt var s row rest :
  In var row_vars -> zsh_stmt (append (row_line var s row) rest) = Some (SRow var s row, rest).
Proof.
  intros Hvar. unfold row_line. rewrite !append_assoc. unfold zsh_stmt, bz_stmt.
  each_var Hvar ltac:(
    rewrite alt_skip by (rewrite pbind_lit; apply pbind_none; reflexivity);
    rewrite alt_skip by (rewrite pbind_lit; apply pbind_none; reflexivity);
    rewrite alt_skip by (rewrite pbind_lit; apply pbind_none; reflexivity);
    apply alt_take; rewrite pbind_lit;
    erewrite pbind_some by name_concrete;
    erewrite pbind_lit' by reflexivity;
    erewrite pbind_some by (apply nat10_sN; reflexivity);
    erewrite pbind_lit' by reflexivity; change (is_descr_var _) with false; cbv iota;
    apply alt_take; erewrite pbind_lit' by reflexivity;
    erewrite pbind_some by (apply kv_list; eexists; reflexivity);
    erewrite pbind_lit' by reflexivity; rewrite (pbind_some _ _ _ _ _ (eol_nl rest)); reflexivity).
Qed.

(** declare -A X=([k]=v ...) *)
Definition zpairs_line (var : string) (l : list (N * N)) : string :=
  append "    declare -A " (append var (append "=(" (append (join " " (map kv l)) (append ")" nl)))).

Lemma zname_eq var r :
  In var (pair_vars ++ scalar_vars ++ lits_vars) -> name (append var (String "=" r)) = Some (var, String "=" r).
Proof. intros Hvar. cbv [app] in Hvar. each_var Hvar ltac:(name_concrete). Qed.

Lemma zsh_pairs_stmt var l rest :
  In var pair_vars ->
  zsh_stmt (append (zpairs_line var l) rest) = Some (SAssoc var (map (fun p => (fst p, [snd p])) l), rest).
Proof.
  intros Hvar. unfold zpairs_line. rewrite !append_assoc. unfold zsh_stmt, bz_stmt.
  rewrite alt_skip by (erewrite pbind_lit' by reflexivity; apply pbind_none; reflexivity).
  apply alt_take.
  erewrite pbind_lit' by reflexivity. erewrite pbind_lit' by reflexivity.
  change ("=(" ++ join " " (map kv l) ++ ")" ++ nl ++ rest)%string
    with (String "=" ("(" ++ join " " (map kv l) ++ ")" ++ nl ++ rest))%string.
  rewrite (pbind_some _ _ _ _ _ (zname_eq var _ ltac:(apply in_or_app; left; exact Hvar))).
  rewrite alt_skip by reflexivity.
  destruct l as [|p l].
  - apply alt_take. Transparent join. reflexivity. Opaque join.
  - rewrite alt_skip.
    2:{ apply pbind_none. unfold lit. Transparent join. destruct l; cbn [map join append strip];
        unfold kv; cbn [append strip Ascii.eqb Bool.eqb]; reflexivity. }
    Opaque join.
    rewrite alt_skip.
    2:{ erewrite pbind_lit' by reflexivity. unfold pbind, sep_by.
        match goal with |- context [br_cell ?X] => assert (E : br_cell X = None) end.
        { Transparent join. destruct l as [|q l]; cbn [map join]; [|rewrite append_assoc]; apply br_cell_on_kv. }
        Opaque join. rewrite E. unfold lit.
        Transparent join. destruct l; cbn [map join append strip]; unfold kv; cbn [append strip Ascii.eqb Bool.eqb]; reflexivity. }
    Opaque join.
    erewrite pbind_lit' by reflexivity. erewrite pbind_some by (apply kv_list; eexists; reflexivity).
    erewrite pbind_lit' by reflexivity. rewrite (pbind_some _ _ _ _ _ (eol_nl rest)). reflexivity.
Qed.

(** declare -A X_level_K=([s]="l l" ...) *)
Definition zlevel_line (var : string) (k : N) (rows : list (N * list N)) : string :=
  append "    declare -A " (append var (append (sN k) (append "=(" (append (join " " (map kcell rows)) (append ")" nl))))).

Lemma zname_level var k r :
  In var level_vars -> name (append var (append (sN k) (String "=" r))) = Some (append var (sN k), String "=" r).
Proof.
  intros Hvar. unfold name.
  assert (T : take_while is_name_char (append var (append (sN k) (String "=" r))) = (append var (sN k), String "=" r)).
  { each_var Hvar ltac:(cbn [append take_while is_name_char];
      repeat (change (negb _) with true; cbn iota);
      rewrite (take_name_sN k "="%char r eq_refl); reflexivity). }
  rewrite T. each_var Hvar ltac:(reflexivity).
Qed.

Lemma zsh_level_stmt var k rows rest :
  In var level_vars -> zsh_stmt (append (zlevel_line var k rows) rest) = Some (SAssoc (append var (sN k)) rows, rest).
Proof.
  intros Hvar. unfold zlevel_line. rewrite !append_assoc. unfold zsh_stmt, bz_stmt.
  rewrite alt_skip by (erewrite pbind_lit' by reflexivity; apply pbind_none; reflexivity).
  apply alt_take.
  erewrite pbind_lit' by reflexivity. erewrite pbind_lit' by reflexivity.
  change ("=(" ++ join " " (map kcell rows) ++ ")" ++ nl ++ rest)%string
    with (String "=" ("(" ++ join " " (map kcell rows) ++ ")" ++ nl ++ rest))%string.
  rewrite (pbind_some _ _ _ _ _ (zname_level var k _ Hvar)).
  rewrite alt_skip by reflexivity.
  destruct rows as [|p rows].
  - apply alt_take. Transparent join. reflexivity. Opaque join.
  - rewrite alt_skip.
    2:{ apply pbind_none. unfold lit. Transparent join. destruct rows; cbn [map join append strip];
        unfold kcell; cbn [append strip Ascii.eqb Bool.eqb]; reflexivity. }
    Opaque join.
    apply alt_take.
    erewrite pbind_lit' by reflexivity. erewrite pbind_some by (apply kcell_list; eexists; reflexivity).
    erewrite pbind_lit' by reflexivity. rewrite (pbind_some _ _ _ _ _ (eol_nl rest)). reflexivity.
Qed.

(** declare VAR=N *)
Definition zscalar_line (var : string) (n : N) : string :=
  append "    declare " (append var (append "=" (append (sN n) nl))).

Lemma zsh_scalar_stmt var n rest :
  In var scalar_vars -> zsh_stmt (append (zscalar_line var n) rest) = Some (SScalar var n, rest).
Proof.
  intros Hvar. unfold zscalar_line. rewrite !append_assoc. unfold zsh_stmt, bz_stmt.
  each_var Hvar ltac:(
    rewrite alt_skip by (erewrite pbind_lit' by reflexivity; apply pbind_none; reflexivity);
    rewrite alt_skip by (erewrite pbind_lit' by reflexivity; apply pbind_none; reflexivity);
    apply alt_take;
    erewrite pbind_lit' by reflexivity; erewrite pbind_lit' by reflexivity;
    erewrite pbind_some by name_concrete;
    erewrite pbind_lit' by reflexivity;
    erewrite pbind_some by (apply nat10_sN; reflexivity);
    rewrite (pbind_some _ _ _ _ _ (eol_nl rest)); reflexivity).
Qed.

(** declare -A VAR=() *)
Lemma zsh_decl_stmt var rest :
  In var decl_vars ->
  zsh_stmt (append "    declare -A " (append var (append "=()" (append nl rest)))) = Some (SAssoc var [], rest).
Proof. intros Hvar. each_var Hvar ltac:(reflexivity). Qed.

(** declare -a literals=("a" "b" ...) *)
Definition zliterals_line (var : string) (texts : list string) : string :=
  append "    declare -a " (append var (append "=(" (append (join " " (map (make_string_constant Zsh) texts)) (append ")" nl)))).

Lemma zsh_literals_stmt var texts rest :
  In var lits_vars -> zsh_stmt (append (zliterals_line var texts) rest) = Some (SLits var texts, rest).
Proof.
  intros Hvar. unfold zliterals_line. rewrite !append_assoc. unfold zsh_stmt, bz_stmt.
  apply alt_take.
  erewrite pbind_lit' by reflexivity. erewrite pbind_lit' by reflexivity.
  each_var Hvar ltac:(
    erewrite pbind_some by name_concrete;
    erewrite pbind_lit' by reflexivity;
    erewrite pbind_some by (apply zsh_dq_list; eexists; reflexivity);
    erewrite pbind_lit' by reflexivity; rewrite (pbind_some _ _ _ _ _ (eol_nl rest)); reflexivity).
Qed.

(** descriptions[K]="..." *)
Definition zdescr_line (var : string) (k : N) (d : string) : string :=
  append "    " (append var (append "[" (append (sN k) (append "]=" (append (make_string_constant Zsh d) nl))))).

Lemma zsh_descr_stmt var k d rest :
  In var descr_vars -> zsh_stmt (append (zdescr_line var k d) rest) = Some (SStr var k d, rest).
Proof.
  intros Hvar. unfold zdescr_line. rewrite !append_assoc. unfold zsh_stmt, bz_stmt.
  each_var Hvar ltac:(
    rewrite alt_skip by (rewrite pbind_lit; apply pbind_none; reflexivity);
    rewrite alt_skip by (rewrite pbind_lit; apply pbind_none; reflexivity);
    rewrite alt_skip by (rewrite pbind_lit; apply pbind_none; reflexivity);
    apply alt_take; rewrite pbind_lit;
    erewrite pbind_some by name_concrete;
    erewrite pbind_lit' by reflexivity;
    erewrite pbind_some by (apply nat10_sN; reflexivity);
    erewrite pbind_lit' by reflexivity; change (is_descr_var _) with true; cbv iota;
    unfold dq; erewrite pbind_some by (apply quote_roundtrip; [apply admissible_zsh | reflexivity]);
    rewrite (pbind_some _ _ _ _ _ (eol_nl rest)); reflexivity).
Qed.

(** ** from the printers of [EmitData.Z] to lines, from lines to statements *)
Definition pfx (p : string) : Prop := p = EmptyString \/ p = "subword_".

Definition zoff_row (row : N * list (N * N)) : N * list (N * N) :=
  (fst row + Z.st, map (fun q => (fst q, snd q + Z.st)) (snd row)).
Definition zoff_rows (m : list (N * list (N * N))) := map zoff_row m.
Definition zoff_pairs (l : list (N * N)) : list (N * N) := map (fun q => (fst q + Z.st, snd q + Z.st)) l.
Definition zoff_level (rows : list (N * list N)) : list (N * list N) := map (fun r => (fst r + Z.st, snd r)) rows.

Definition zdecl_line (var : string) : string := append "    declare -A " (append var (append "=()" nl)).

Notation readsZ := (reads_asG Zsh).

Lemma zreads_rows var m : In var row_vars -> Forall2 readsZ (row_lines var m) (row_stmts var m).
Proof.
  intros Hvar. apply Forall2_map_. intros [s row]. split; [apply line_nonempty|]. split; [exact I|].
  intros rest. apply zsh_row_stmt. exact Hvar.
Qed.

Lemma zreads_decl var : In var decl_vars -> readsZ (zdecl_line var) (SAssoc var []).
Proof.
  intros Hvar. split; [discriminate|]. split; [exact I|]. intros rest. unfold zdecl_line. rewrite !append_assoc.
  apply zsh_decl_stmt. exact Hvar.
Qed.

Lemma zreads_pairs var l : In var pair_vars -> readsZ (zpairs_line var l) (SAssoc var (map (fun p => (fst p, [snd p])) l)).
Proof. intros Hvar. split; [discriminate|]. split; [exact I|]. intros rest. apply zsh_pairs_stmt. exact Hvar. Qed.

Lemma zreads_scalar var n : In var scalar_vars -> readsZ (zscalar_line var n) (SScalar var n).
Proof. intros Hvar. split; [discriminate|]. split; [exact I|]. intros rest. apply zsh_scalar_stmt. exact Hvar. Qed.

Definition zlevel_lines var (levels : list (list (N * list N))) :=
  map (fun kl : N * list (N * list N) => zlevel_line var (fst kl) (zoff_level (snd kl))) (number_from 0 levels).
Definition zlevel_stmts var (levels : list (list (N * list N))) :=
  map (fun kl : N * list (N * list N) => SAssoc (append var (sN (fst kl))) (zoff_level (snd kl))) (number_from 0 levels).

Lemma zreads_levels var levels : In var level_vars -> Forall2 readsZ (zlevel_lines var levels) (zlevel_stmts var levels).
Proof.
  intros Hvar. apply Forall2_map_. intros [k rows]. split; [discriminate|]. split; [exact I|].
  intros rest. apply zsh_level_stmt. exact Hvar.
Qed.

(** *** match tables *)
Definition zmatch_lines (p : string) (t : tables) : list string :=
  zdecl_line (append p "literal_transitions") :: row_lines (append p "literal_transitions") (zoff_rows (t_mlit t))
  ++ (match t_mcmd t with
      | Some m => zdecl_line (append p "command_transitions") :: row_lines (append p "command_transitions") (zoff_rows m)
      | None => []
      end)
  ++ (match t_mcompadd t with
      | Some m => zdecl_line (append p "compadd_transitions") :: row_lines (append p "compadd_transitions") (zoff_rows m)
      | None => []
      end)
  ++ (match t_mstar t with Some l => [zpairs_line (append p "star_transitions") (zoff_pairs l)] | None => [] end).

Definition zmatch_stmts (p : string) (t : tables) : list stmt :=
  SAssoc (append p "literal_transitions") [] :: row_stmts (append p "literal_transitions") (zoff_rows (t_mlit t))
  ++ (match t_mcmd t with
      | Some m => SAssoc (append p "command_transitions") [] :: row_stmts (append p "command_transitions") (zoff_rows m)
      | None => []
      end)
  ++ (match t_mcompadd t with
      | Some m => SAssoc (append p "compadd_transitions") [] :: row_stmts (append p "compadd_transitions") (zoff_rows m)
      | None => []
      end)
  ++ (match t_mstar t with
      | Some l => [SAssoc (append p "star_transitions") (map (fun q => (fst q, [snd q])) (zoff_pairs l))]
      | None => []
      end).

Ltac in_vars Hp := destruct Hp as [-> | ->]; cbn; auto 12.

Lemma zreads_match p t : pfx p -> Forall2 readsZ (zmatch_lines p t) (zmatch_stmts p t).
Proof.
  intros Hp. unfold zmatch_lines, zmatch_stmts. constructor; [apply zreads_decl; in_vars Hp|].
  apply Forall2_app_; [apply zreads_rows; in_vars Hp|]. apply Forall2_app_; [|apply Forall2_app_].
  - destruct (t_mcmd t) as [m|]; [|constructor]. constructor; [apply zreads_decl; in_vars Hp | apply zreads_rows; in_vars Hp].
  - destruct (t_mcompadd t) as [m|]; [|constructor]. constructor; [apply zreads_decl; in_vars Hp | apply zreads_rows; in_vars Hp].
  - destruct (t_mstar t) as [l|]; [|constructor]. constructor; [|constructor]. apply zreads_pairs. in_vars Hp.
Qed.

Lemma zkv_kv q : Z.zkv q = kv (fst q, snd q + Z.st).
Proof. reflexivity. Qed.

Lemma zrows_lines tpl var p m :
  (forall a b, fmtln tpl [("prefix", p); ("0", a); ("transitions", b)]
               = ("    " ++ var ++ "[" ++ a ++ "]=""(" ++ b ++ ")""" ++ nl)%string) ->
  Z.rows tpl p m = sconcat (row_lines var (zoff_rows m)).
Proof.
  intros H. unfold Z.rows, row_lines, zoff_rows. rewrite map_map. apply sconcat_map_fmtln. intros [s row].
  rewrite H. unfold row_line, zoff_row. cbn [fst snd]. rewrite map_map.
  rewrite (map_ext _ _ zkv_kv). reflexivity.
Qed.

Lemma ztpl_decl_lit p : fmtln write_match_transitions_0 [("prefix", p)] = zdecl_line (append p "literal_transitions").
Proof. tpl_eq. Qed.
Lemma ztpl_decl_cmd p : fmtln write_match_transitions_2 [("prefix", p)] = zdecl_line (append p "command_transitions").
Proof. tpl_eq. Qed.
Lemma ztpl_decl_compadd p : fmtln write_match_transitions_4 [("prefix", p)] = zdecl_line (append p "compadd_transitions").
Proof. tpl_eq. Qed.
Lemma ztpl_row_lit p a b :
  fmtln write_match_transitions_1 [("prefix", p); ("0", a); ("transitions", b)]
  = ("    " ++ (p ++ "literal_transitions") ++ "[" ++ a ++ "]=""(" ++ b ++ ")""" ++ nl)%string.
Proof. tpl_eq. Qed.
Lemma ztpl_row_cmd p a b :
  fmtln write_match_transitions_3 [("prefix", p); ("0", a); ("transitions", b)]
  = ("    " ++ (p ++ "command_transitions") ++ "[" ++ a ++ "]=""(" ++ b ++ ")""" ++ nl)%string.
Proof. tpl_eq. Qed.
Lemma ztpl_row_compadd p a b :
  fmtln write_match_transitions_5 [("prefix", p); ("0", a); ("transitions", b)]
  = ("    " ++ (p ++ "compadd_transitions") ++ "[" ++ a ++ "]=""(" ++ b ++ ")""" ++ nl)%string.
Proof. tpl_eq. Qed.
Lemma ztpl_star p b :
  fmtln write_match_transitions_6 [("prefix", p); ("transitions", b)]
  = ("    declare -A " ++ (p ++ "star_transitions") ++ "=(" ++ b ++ ")" ++ nl)%string.
Proof. tpl_eq. Qed.

Lemma zwrite_match_lines p t : Z.write_match_transitions p t = sconcat (zmatch_lines p t).
Proof.
  unfold Z.write_match_transitions, zmatch_lines. cbn [sconcat]. rewrite ztpl_decl_lit. f_equal.
  rewrite sconcat_app. f_equal; [apply zrows_lines; intros; apply ztpl_row_lit|].
  rewrite sconcat_app. f_equal; [|rewrite sconcat_app; f_equal].
  - destruct (t_mcmd t) as [m|]; [|reflexivity]. cbn [sconcat]. rewrite ztpl_decl_cmd. f_equal.
    apply zrows_lines. intros. apply ztpl_row_cmd.
  - destruct (t_mcompadd t) as [m|]; [|reflexivity]. cbn [sconcat]. rewrite ztpl_decl_compadd. f_equal.
    apply zrows_lines. intros. apply ztpl_row_compadd.
  - destruct (t_mstar t) as [l|]; [|reflexivity]. cbn [sconcat]. f_equal. rewrite ztpl_star.
    unfold zpairs_line, zoff_pairs. rewrite map_map. reflexivity.
Qed.

(** *** completion tables *)
Definition zcompletion_lines (p : string) (t : tables) : list string :=
  zlevel_lines (append p "literal_transitions_level_") (t_clit t)
  ++ (match t_ccmd t with Some m => zlevel_lines (append p "commands_level_") m | None => [] end)
  ++ (match t_ccompadd t with Some m => zlevel_lines (append p "compadd_commands_level_") m | None => [] end)
  ++ [zscalar_line (append p "max_fallback_level") (t_maxlevel t)].

Definition zcompletion_stmts (p : string) (t : tables) : list stmt :=
  zlevel_stmts (append p "literal_transitions_level_") (t_clit t)
  ++ (match t_ccmd t with Some m => zlevel_stmts (append p "commands_level_") m | None => [] end)
  ++ (match t_ccompadd t with Some m => zlevel_stmts (append p "compadd_commands_level_") m | None => [] end)
  ++ [SScalar (append p "max_fallback_level") (t_maxlevel t)].

Lemma zreads_completion p t : pfx p -> Forall2 readsZ (zcompletion_lines p t) (zcompletion_stmts p t).
Proof.
  intros Hp. unfold zcompletion_lines, zcompletion_stmts.
  apply Forall2_app_; [apply zreads_levels; in_vars Hp|]. apply Forall2_app_; [|apply Forall2_app_].
  - destruct (t_ccmd t); [apply zreads_levels; in_vars Hp | constructor].
  - destruct (t_ccompadd t); [apply zreads_levels; in_vars Hp | constructor].
  - constructor; [|constructor]. apply zreads_scalar. in_vars Hp.
Qed.

Lemma zlevels_lines cell line var p ls :
  (forall a b, fmt cell [("from_state_zsh", a); ("0", b)] = ("[" ++ a ++ "]=" ++ """" ++ b ++ """")%string) ->
  (forall a b, fmtln line [("prefix", p); ("level", a); ("initializer", b)]
               = ("    declare -A " ++ var ++ a ++ "=(" ++ b ++ ")" ++ nl)%string) ->
  Z.levels cell line p ls = sconcat (zlevel_lines var ls).
Proof.
  intros Hc Hl. unfold Z.levels, zlevel_lines. apply sconcat_map_fmtln. intros [k rows]. cbn [fst snd].
  rewrite Hl. unfold zlevel_line, zoff_level. rewrite map_map. rewrite (map_ext _ (fun x : N * list N => kcell (fst x + Z.st, snd x))); [reflexivity|].
  intros r. rewrite Hc. reflexivity.
Qed.

Lemma ztpl_cell0 a b : fmt write_completion_tables_0 [("from_state_zsh", a); ("0", b)] = ("[" ++ a ++ "]=" ++ """" ++ b ++ """")%string.
Proof. tpl_eq. Qed.
Lemma ztpl_cell2 a b : fmt write_completion_tables_2 [("from_state_zsh", a); ("0", b)] = ("[" ++ a ++ "]=" ++ """" ++ b ++ """")%string.
Proof. tpl_eq. Qed.
Lemma ztpl_cell4 a b : fmt write_completion_tables_4 [("from_state_zsh", a); ("0", b)] = ("[" ++ a ++ "]=" ++ """" ++ b ++ """")%string.
Proof. tpl_eq. Qed.
Lemma ztpl_level1 p a b :
  fmtln write_completion_tables_1 [("prefix", p); ("level", a); ("initializer", b)]
  = ("    declare -A " ++ (p ++ "literal_transitions_level_") ++ a ++ "=(" ++ b ++ ")" ++ nl)%string.
Proof. tpl_eq. Qed.
Lemma ztpl_level3 p a b :
  fmtln write_completion_tables_3 [("prefix", p); ("level", a); ("initializer", b)]
  = ("    declare -A " ++ (p ++ "commands_level_") ++ a ++ "=(" ++ b ++ ")" ++ nl)%string.
Proof. tpl_eq. Qed.
Lemma ztpl_level5 p a b :
  fmtln write_completion_tables_5 [("prefix", p); ("level", a); ("initializer", b)]
  = ("    declare -A " ++ (p ++ "compadd_commands_level_") ++ a ++ "=(" ++ b ++ ")" ++ nl)%string.
Proof. tpl_eq. Qed.
Lemma ztpl_max p a :
  fmtln write_completion_tables_6 [("prefix", p); ("0", a)] = ("    declare " ++ (p ++ "max_fallback_level") ++ "=" ++ a ++ nl)%string.
Proof. tpl_eq. Qed.

Lemma zwrite_completion_lines p t : Z.write_completion_tables p t = sconcat (zcompletion_lines p t).
Proof.
  unfold Z.write_completion_tables, zcompletion_lines. cbn [sconcat]. rewrite !sconcat_app.
  f_equal; [apply zlevels_lines; intros; [apply ztpl_cell0 | apply ztpl_level1]|].
  f_equal; [destruct (t_ccmd t); [apply zlevels_lines; intros; [apply ztpl_cell2 | apply ztpl_level3] | reflexivity]|].
  f_equal; [destruct (t_ccompadd t); [apply zlevels_lines; intros; [apply ztpl_cell4 | apply ztpl_level5] | reflexivity]|].
  cbn [sconcat]. f_equal. apply ztpl_max.
Qed.

(** *** the literal list, the descriptions and the map from literal ids to description ids *)
Definition zdescr_pairs (lits : list (N * string * string)) : list (N * N) :=
  let ds := descr_set lits in
  flat_map (fun l => match index_of (snd l) ds with Some d => [(fst (fst l), d)] | None => [] end) lits.

Definition zlits_lines (p : string) (lits : list (N * string * string)) : list string :=
  zliterals_line (append p "literals") (map (fun l => snd (fst l)) lits)
  :: zdecl_line (append p "descriptions")
  :: map (fun id : N * string => zdescr_line (append p "descriptions") (fst id) (snd id)) (number_from 0 (descr_set lits))
  ++ [zpairs_line (append p "descr_id_from_literal_id") (zdescr_pairs lits)].

Definition zlits_stmts (p : string) (lits : list (N * string * string)) : list stmt :=
  SLits (append p "literals") (map (fun l => snd (fst l)) lits)
  :: SAssoc (append p "descriptions") []
  :: map (fun id : N * string => SStr (append p "descriptions") (fst id) (snd id)) (number_from 0 (descr_set lits))
  ++ [SAssoc (append p "descr_id_from_literal_id") (map (fun q => (fst q, [snd q])) (zdescr_pairs lits))].

Lemma zreads_lits p lits : pfx p -> Forall2 readsZ (zlits_lines p lits) (zlits_stmts p lits).
Proof.
  intros Hp. unfold zlits_lines, zlits_stmts. constructor; [|constructor; [apply zreads_decl; in_vars Hp|]].
  - split; [discriminate|]. split; [exact I|]. intros rest. apply zsh_literals_stmt. in_vars Hp.
  - apply Forall2_app_.
    + apply Forall2_map_. intros [k d]. split; [discriminate|]. split; [exact I|]. intros rest.
      apply zsh_descr_stmt. in_vars Hp.
    + constructor; [|constructor]. apply zreads_pairs. in_vars Hp.
Qed.

Lemma ztpl_literals p a :
  fmtln write_literals_0 [("prefix", p); ("literals", a)] = ("    declare -a " ++ (p ++ "literals") ++ "=(" ++ a ++ ")" ++ nl)%string.
Proof. tpl_eq. Qed.
Lemma ztpl_descr_decl p : fmtln write_literals_1 [("prefix", p)] = zdecl_line (append p "descriptions").
Proof. tpl_eq. Qed.
Lemma ztpl_descr p a b :
  fmtln write_literals_2 [("prefix", p); ("id", a); ("0", b)] = ("    " ++ (p ++ "descriptions") ++ "[" ++ a ++ "]=" ++ b ++ nl)%string.
Proof. tpl_eq. Qed.
Lemma ztpl_descr_ids p a :
  fmtln write_literals_3 [("prefix", p); ("initializer", a)]
  = ("    declare -A " ++ (p ++ "descr_id_from_literal_id") ++ "=(" ++ a ++ ")" ++ nl)%string.
Proof. tpl_eq. Qed.

Lemma map_flat_map {A B C} (f : B -> C) (g : A -> list B) l : map f (flat_map g l) = flat_map (fun x => map f (g x)) l.
Proof. induction l; cbn; [reflexivity | rewrite map_app, IHl; reflexivity]. Qed.

Lemma zwrite_literals_lines p lits : Z.write_literals p lits = sconcat (zlits_lines p lits).
Proof.
  unfold Z.write_literals, zlits_lines. cbn [sconcat]. rewrite ztpl_literals, ztpl_descr_decl.
  unfold zliterals_line. rewrite map_map. unfold Z.msc. f_equal. f_equal.
  rewrite sconcat_app. f_equal.
  - apply sconcat_map_fmtln. intros [k d]. cbn [fst snd]. rewrite ztpl_descr. reflexivity.
  - cbn [sconcat]. f_equal. rewrite ztpl_descr_ids. unfold zpairs_line, zdescr_pairs. rewrite map_flat_map.
    erewrite flat_map_ext; [reflexivity|]. intros l. cbv beta. destruct (index_of (snd l) (descr_set lits)); reflexivity.
Qed.

(** *** within-word transitions and candidates of the completion function *)
Lemma ztpl_subdecl : fmtln write_completion_script_3 [] = zdecl_line "subword_transitions".
Proof. tpl_eq. Qed.
Lemma ztpl_subrow a b :
  fmtln write_completion_script_4 [("0", a); ("state_transitions", b)]
  = ("    " ++ "subword_transitions" ++ "[" ++ a ++ "]=""(" ++ b ++ ")""" ++ nl)%string.
Proof. tpl_eq. Qed.
Lemma ztpl_subcell a b : fmt write_completion_script_11 [("from_state_zsh", a); ("0", b)] = ("[" ++ a ++ "]=" ++ """" ++ b ++ """")%string.
Proof. tpl_eq. Qed.
Lemma ztpl_sublevel a b :
  fmtln write_completion_script_12 [("level", a); ("initializer", b)]
  = ("    declare -A " ++ "subword_transitions_level_" ++ a ++ "=(" ++ b ++ ")" ++ nl)%string.
Proof. tpl_eq. Qed.
