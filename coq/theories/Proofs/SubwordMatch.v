(** Layer (c), script side, part 1: the matching half of [_<cmd>_subword] of /repo HEAD
    ([BashSem.sw_loop Repaired] with [complete = false]) on within-word tables that only have
    literal transitions whose texts, state by state, are non-empty and prefix-free: it follows the
    unique tokenisation of the word along the table and answers "matched" exactly when the word
    is used up in an accepting state. *)
From CG Require Import Base.Prelude Model.Dfa Model.Glob Model.BashSem.
From CG Require Import Proofs.TablesSound Proofs.TableLookup Proofs.StripFacts Proofs.MeaningFacts Proofs.WordTokens.

Lemma prefix_refl s : String.prefix s s = true.
Proof. induction s as [| c s IH]; [reflexivity |]. cbn [String.prefix]. destruct (Ascii.ascii_dec c c); [exact IH | contradiction]. Qed.

Lemma prefix_trans a : forall b c, String.prefix a b = true -> String.prefix b c = true -> String.prefix a c = true.
Proof.
  induction a as [| x a IH]; intros b c H1 H2; [destruct c; reflexivity |].
  destruct b as [| y b]; cbn [String.prefix] in H1; [discriminate |].
  destruct (Ascii.ascii_dec x y) as [-> | Ne]; [| discriminate].
  destruct c as [| z c]; cbn [String.prefix] in H2 |- *; [discriminate |].
  destruct (Ascii.ascii_dec y z) as [-> | Ne]; [| discriminate]. eapply IH; eassumption.
Qed.

(** two prefixes of the same text are comparable *)
Lemma prefixes_comparable a : forall b s, String.prefix a s = true -> String.prefix b s = true ->
                                          String.prefix a b = true \/ String.prefix b a = true.
Proof.
  induction a as [| x a IH]; intros b s H1 H2; [left; destruct b; reflexivity |].
  destruct b as [| y b]; [right; reflexivity |].
  destruct s as [| z s]; cbn [String.prefix] in H1, H2; [discriminate |].
  destruct (Ascii.ascii_dec x z) as [-> | Ne]; [| discriminate].
  destruct (Ascii.ascii_dec y z) as [-> | Ne]; [| discriminate].
  cbn [String.prefix]. destruct (Ascii.ascii_dec z z); [| contradiction]. eapply IH; eassumption.
Qed.

Lemma gsdrop_add n : forall m s, Glob.sdrop (n + m) s = Glob.sdrop m (Glob.sdrop n s).
Proof.
  induction n as [| n IH]; intros m s; [reflexivity |]. destruct s as [| c s]; cbn [Nat.add Glob.sdrop].
  - destruct m; reflexivity.
  - apply IH.
Qed.

Lemma gsdrop_app s : forall r, Glob.sdrop (String.length s) (append s r) = r.
Proof. induction s as [| c s IH]; intro r; cbn; [reflexivity | apply IH]. Qed.

Lemma gsdrop_nil_iff n s : (String.length s <= n)%nat -> Glob.sdrop n s = EmptyString.
Proof.
  revert s. induction n as [| n IH]; intros s H; destruct s as [| c s]; cbn in *; try reflexivity; try lia. apply IH. lia.
Qed.

Lemma memN_In' x l : memN x l = true <-> In x l.
Proof.
  unfold memN. rewrite existsb_exists. split.
  - intros [y [H E]]. apply N.eqb_eq in E. subst. exact H.
  - intro H. exists x. split; [exact H | apply N.eqb_refl].
Qed.

Section SwMatch.
  Variables (a : alltables) (benv : BashSem.env) (Tw : tables) (acc : list N).

  (** literal texts enabled in a state, with their targets *)
  Definition enabled (s : N) : list (string * N) :=
    match assocN s (t_mlit Tw) with
    | None => []
    | Some st => flat_map (fun il => match assocN (fst il) st with Some to => [(snd il, to)] | None => [] end)
                          (indexed_from 0 (literal_texts Tw))
    end.

  Hypothesis Hnocmd : forall ct s, t_mcmd Tw = Some ct -> assocN s ct = None.
  Hypothesis Hnostar : forall stars s, t_mstar Tw = Some stars -> has_key s stars = false.
  Hypothesis Hne : forall s lit to, In (lit, to) (enabled s) -> lit <> EmptyString.
  Hypothesis Hpf : forall s l1 t1 l2 t2, In (l1, t1) (enabled s) -> In (l2, t2) (enabled s) ->
                                         String.prefix l1 l2 = true -> l1 = l2 /\ t1 = t2.

  (** tokenisation along the table *)
  Inductive tok_run : N -> string -> N -> Prop :=
  | tok_nil s : tok_run s EmptyString s
  | tok_cons s lit to rest s' : In (lit, to) (enabled s) -> tok_run to rest s' -> tok_run s (append lit rest) s'.

  Lemma lit_loop_str_cont lits st sub to n :
    lit_loop_str false lits st sub = SCont to n ->
    exists lid lit, In (lid, lit) lits /\ assocN lid st = Some to /\ String.prefix lit sub = true /\ n = String.length lit.
  Proof.
    induction lits as [| [lid lit] r IH]; cbn [lit_loop_str]; intro H; [discriminate |].
    destruct (assocN lid st) as [t0 |] eqn:Ea.
    - destruct (String.eqb lit sub) eqn:E1.
      + inversion H; subst. apply String.eqb_eq in E1. subst sub. exists lid, lit.
        split; [left; reflexivity | split; [exact Ea | split; [apply prefix_refl | reflexivity]]].
      + cbn [andb] in H. destruct (String.prefix lit sub) eqn:E2.
        * inversion H; subst. exists lid, lit. split; [left; reflexivity | split; [exact Ea | split; [exact E2 | reflexivity]]].
        * destruct (IH H) as [l' [t' [Hin Hr]]]. exists l', t'. split; [right; exact Hin | exact Hr].
    - destruct (IH H) as [l' [t' [Hin Hr]]]. exists l', t'. split; [right; exact Hin | exact Hr].
  Qed.

  Lemma lit_loop_str_none lits st sub :
    lit_loop_str false lits st sub = SNone ->
    forall lid lit to, In (lid, lit) lits -> assocN lid st = Some to -> String.prefix lit sub = false.
  Proof.
    induction lits as [| [lid0 lit0] r IH]; cbn [lit_loop_str]; intros H lid lit to Hin Ha; [destruct Hin |].
    destruct (assocN lid0 st) as [t0 |] eqn:Ea0.
    - destruct (String.eqb lit0 sub) eqn:E1; [discriminate |]. cbn [andb] in H.
      destruct (String.prefix lit0 sub) eqn:E2; [discriminate |].
      destruct Hin as [E | Hin]; [inversion E; subst; exact E2 | eapply IH; eassumption].
    - destruct Hin as [E | Hin]; [inversion E; subst; congruence | eapply IH; eassumption].
  Qed.

  Lemma lit_loop_str_nobreak lits st sub : lit_loop_str false lits st sub <> SBreak.
  Proof.
    induction lits as [| [lid lit] r IH]; cbn [lit_loop_str]; [discriminate |].
    destruct (assocN lid st); [| exact IH].
    destruct (String.eqb lit sub); [discriminate |]. cbn [andb]. destruct (String.prefix lit sub); [discriminate | exact IH].
  Qed.

  Lemma enabled_in s st lit to :
    assocN s (t_mlit Tw) = Some st ->
    (In (lit, to) (enabled s) <-> exists lid, In (lid, lit) (indexed_from 0 (literal_texts Tw)) /\ assocN lid st = Some to).
  Proof.
    intro Es. unfold enabled. rewrite Es, in_flat_map. split.
    - intros [[lid l0] [Hin H]]. cbn [fst snd] in H. destruct (assocN lid st) as [t0 |] eqn:Ea; [| destruct H].
      destruct H as [E | []]. inversion E; subst. exists lid. split; assumption.
    - intros [lid [Hin Ha]]. exists (lid, lit). split; [exact Hin |]. cbn [fst snd]. rewrite Ha. left; reflexivity.
  Qed.

  Lemma tok_run_nil_gen s w s' : tok_run s w s' -> w = EmptyString -> s' = s.
  Proof.
    intros H Ew. destruct H as [s | s lit to rest s' Hin Hr]; [reflexivity |].
    exfalso. destruct lit; [apply (Hne s EmptyString to Hin); reflexivity | discriminate].
  Qed.

  Lemma tok_run_nil_inv s s' : tok_run s EmptyString s' -> s' = s.
  Proof. intro H. eapply tok_run_nil_gen; [exact H | reflexivity]. Qed.

  Lemma tok_run_first_gen s sub s' : tok_run s sub s' ->
    forall lit to rest, In (lit, to) (enabled s) -> sub = append lit rest -> tok_run to rest s'.
  Proof.
    intros H lit to rest Hin E. destruct H as [s | s lit2 to2 rest2 s' Hin2 Hr].
    - exfalso. destruct lit; [apply (Hne s EmptyString to Hin); reflexivity | discriminate].
    - assert (P1 : String.prefix lit (append lit2 rest2) = true) by (rewrite E; apply prefix_app_l).
      assert (P2 : String.prefix lit2 (append lit2 rest2) = true) by apply prefix_app_l.
      destruct (prefixes_comparable lit lit2 _ P1 P2) as [Hp | Hp].
      + destruct (Hpf s lit to lit2 to2 Hin Hin2 Hp) as [-> ->].
        assert (rest2 = rest).
        { apply (f_equal (Glob.sdrop (String.length lit2))) in E. rewrite !gsdrop_app in E. exact E. }
        subst. exact Hr.
      + destruct (Hpf s lit2 to2 lit to Hin2 Hin Hp) as [-> ->].
        assert (rest2 = rest).
        { apply (f_equal (Glob.sdrop (String.length lit))) in E. rewrite !gsdrop_app in E. exact E. }
        subst. exact Hr.
  Qed.

  (** the first piece of a tokenisation is determined *)
  Lemma tok_run_first s lit to rest sub s' :
    In (lit, to) (enabled s) -> sub = append lit rest ->
    (tok_run s sub s' <-> tok_run to rest s').
  Proof.
    intros Hin E. split; [intro H; eapply tok_run_first_gen; eassumption |].
    intro H. subst sub. econstructor; eassumption.
  Qed.

  Theorem sw_matches_tables word log : forall fuel state ci,
      (String.length word - ci < fuel)%nat ->
      exists b st' ci',
        sw_loop fuel Repaired false a benv Tw acc word state ci log = Ok (b, st', ci', log)
        /\ (b = true <-> exists s', tok_run state (Glob.sdrop ci word) s' /\ In s' acc).
  Proof.
    induction fuel as [| f IH]; intros state ci Hf; [lia |].
    cbn [sw_loop quirky orb]. destruct (Nat.leb (String.length word) ci) eqn:El.
    - apply Nat.leb_le in El. exists (memN state acc), state, ci. split; [reflexivity |].
      rewrite (gsdrop_nil_iff ci word El). rewrite memN_In'. split.
      + intro H. exists state. split; [constructor | exact H].
      + intros [s' [Hr Hin]]. apply tok_run_nil_inv in Hr. subst. exact Hin.
    - apply Nat.leb_gt in El.
      assert (Hsf : star_first Repaired false Tw state = false).
      { unfold star_first. cbn [quirky negb andb]. destruct (t_mstar Tw) as [stars |] eqn:E0; [apply (Hnostar stars state eq_refl) | reflexivity]. }
      rewrite Hsf. set (sub := Glob.sdrop ci word).
      destruct (assocN state (t_mlit Tw)) as [st |] eqn:Es.
      + cbn [lit_loop obind]. destruct (lit_loop_str false (indexed_from 0 (literal_texts Tw)) st sub) as [to adv | |] eqn:Ell.
        * apply lit_loop_str_cont in Ell. destruct Ell as [lid [lit [Hin [Ha [Hp ->]]]]].
          assert (Hen : In (lit, to) (enabled state)) by (apply (enabled_in state st lit to Es); eauto).
          assert (Hlit : lit <> EmptyString) by (apply (Hne state lit to Hen)).
          apply prefix_split in Hp. rewrite <- gsdrop_eq in Hp. fold sub in Hp.
          assert (Hlen : String.length sub = (String.length word - ci)%nat) by (unfold sub; apply length_sdrop).
          assert (Hll : (0 < String.length lit <= String.length word - ci)%nat).
          { rewrite <- Hlen, Hp, length_append'. destruct lit; [contradiction | cbn; lia]. }
          destruct (IH to (ci + String.length lit)%nat) as [b [st' [ci' [E Hb]]]]; [lia |].
          exists b, st', ci'. split; [exact E |]. rewrite Hb.
          rewrite gsdrop_add. fold sub.
          split; intros [s' [Hr Hacc]]; exists s'; (split; [| exact Hacc]).
          -- apply (tok_run_first state lit to _ sub s' Hen Hp). exact Hr.
          -- apply (tok_run_first state lit to _ sub s' Hen Hp) in Hr. exact Hr.
        * exfalso. eapply lit_loop_str_nobreak. exact Ell.
        * assert (Hlen : String.length sub = (String.length word - ci)%nat) by (unfold sub; apply length_sdrop).
          assert (Hgen : forall s0 w0 s1, tok_run s0 w0 s1 -> s0 = state -> w0 = sub -> False).
          { intros s0 w0 s1 Hr0 Es0 Ew0. destruct Hr0 as [s0 | s0 lit to rest s1 Hin Hr'].
            - rewrite <- Ew0 in Hlen. cbn in Hlen. lia.
            - subst s0. apply (enabled_in state st lit to Es) in Hin. destruct Hin as [lid [Hin Ha]].
              pose proof (lit_loop_str_none _ _ _ Ell lid lit to Hin Ha) as Hn.
              rewrite <- Ew0, prefix_app_l in Hn. discriminate. }
          destruct (t_mcmd Tw) as [ct |] eqn:Ect; [rewrite (Hnocmd ct state eq_refl) |]; cbn [obind];
            (destruct (t_mstar Tw) as [stars |] eqn:Est; [rewrite (Hnostar stars state eq_refl) |]);
            (exists false, state, ci; split; [reflexivity | split; [discriminate | intros [s' [Hr _]]; exfalso; exact (Hgen _ _ _ Hr eq_refl eq_refl)]]).
      + cbn [obind].
        assert (Hlen : String.length sub = (String.length word - ci)%nat) by (unfold sub; apply length_sdrop).
        assert (Hgen : forall s0 w0 s1, tok_run s0 w0 s1 -> s0 = state -> w0 = sub -> False).
        { intros s0 w0 s1 Hr0 Es0 Ew0. destruct Hr0 as [s0 | s0 lit to rest s1 Hin Hr'].
          - rewrite <- Ew0 in Hlen. cbn in Hlen. lia.
          - subst s0. unfold enabled in Hin. rewrite Es in Hin. destruct Hin. }
        destruct (t_mcmd Tw) as [ct |] eqn:Ect; [rewrite (Hnocmd ct state eq_refl) |]; cbn [obind];
          (destruct (t_mstar Tw) as [stars |] eqn:Est; [rewrite (Hnostar stars state eq_refl) |]);
          (exists false, state, ci; split; [reflexivity | split; [discriminate | intros [s' [Hr _]]; exfalso; exact (Hgen _ _ _ Hr eq_refl eq_refl)]]).
  Qed.
End SwMatch.
