(** The shape of the parser's image, for arbitrary input and either lexer configuration:
    [parse_with c s = Ok g -> forallb stmt_shape g = true]; in particular every [|] and [||] of a
    parsed grammar has an operand ([grammar_alts_nonempty], the hypothesis of the C02/C03 totality
    theorems). *)
From CG Require Import Base.Prelude Model.Ast Model.Lexer Model.Parser Spec.Printer Spec.Spans Spec.Shape
  Proofs.LexBase Proofs.SpanSound Proofs.TreeFacts.
From CGgen Require Import Consts.

Lemma forallb_map_pres : forall (p q : expr -> bool) (f : expr -> expr) cs,
    Forall (fun x => p x = true -> q (f x) = true) cs -> forallb p cs = true -> forallb q (map f cs) = true.
Proof.
  induction 1; cbn; intros; auto. apply andb_true_iff in H1 as [A B]. rewrite H, IHForall; auto.
Qed.

Definition FlatQ (e : expr) : Prop :=
  (forall w, shapeb w e = true -> shapeb true (flatten_expr e) = true)
  /\ match e with
     | Sequence fs _ => Forall (fun x => forall w, shapeb w x = true -> shapeb true (flatten_expr x) = true) fs
     | _ => True
     end.

Lemma Forall_FlatQ : forall cs, Forall FlatQ cs ->
    Forall (fun x => forall w, shapeb w x = true -> shapeb true (flatten_expr x) = true) cs.
Proof. induction 1; constructor; auto. destruct H; auto. Qed.

Lemma flatten_shape_all : forall e, FlatQ e.
Proof.
  induction e using expr_ind'; (split; [intros w W; cbn [flatten_expr shapeb] in *|try (cbn iota; constructor)]); auto.
  - apply Forall_FlatQ in H. apply andb_true_iff in W as [L F]. rewrite map_length, L. cbn [andb].
    eapply forallb_map_pres; [|exact F]. eapply Forall_impl; [|exact H]. cbn beta. intros a Ha. apply Ha.
  - apply Forall_FlatQ; auto.
  - apply Forall_FlatQ in H. apply andb_true_iff in W as [L F]. rewrite map_length, L. cbn [andb].
    eapply forallb_map_pres; [|exact F]. eapply Forall_impl; [|exact H]. cbn beta. intros a Ha. apply Ha.
  - destruct IHe as [IH _]. eapply IH; eauto.
  - destruct IHe as [IH _]. eapply IH; eauto.
  - destruct IHe as [IH _]. eapply IH; eauto.
  - apply Forall_FlatQ in H. apply andb_true_iff in W as [L F]. rewrite map_length, L. cbn [andb].
    eapply forallb_map_pres; [|exact F]. eapply Forall_impl; [|exact H]. cbn beta. intros a Ha. apply Ha.
  - destruct IHe as [_ IHfs]. apply andb_true_iff in W as [W W3]. destruct e; try discriminate.
    apply andb_true_iff in W3 as [L F]. cbn [flatten_expr shapeb]. rewrite map_length, L. cbn [andb].
    eapply forallb_map_pres; [|exact F]. eapply Forall_impl; [|exact IHfs]. cbn beta. intros a Ha. apply Ha.
Qed.

Lemma flatten_shape : forall w e, shapeb w e = true -> shapeb true (flatten_expr e) = true.
Proof. intros w e. apply (flatten_shape_all e). Qed.

Lemma shape_alts : forall e w, shapeb w e = true -> alts_nonempty e = true.
Proof.
  induction e using expr_ind'; intros w W; cbn [shapeb alts_nonempty] in *; auto.
  - apply andb_true_iff in W as [_ F]. rewrite forallb_forall in *. rewrite Forall_forall in H. intros x Hx. eapply H; eauto.
  - apply andb_true_iff in W as [L F]. destruct cs; [discriminate|].
    rewrite forallb_forall in *. rewrite Forall_forall in H. intros x Hx. eapply H; eauto.
  - eapply IHe; eauto.
  - eapply IHe; eauto.
  - eapply IHe; eauto.
  - apply andb_true_iff in W as [L F]. destruct cs; [discriminate|].
    rewrite forallb_forall in *. rewrite Forall_forall in H. intros x Hx. eapply H; eauto.
  - apply andb_true_iff in W as [_ W3]. destruct e; try discriminate.
    apply andb_true_iff in W3 as [L F]. eapply (IHe true). cbn [shapeb]. rewrite L, F. reflexivity.
Qed.

Section Shape.
  Variable c : cfg.

  Definition ShapeP (p : input -> pres expr) : Prop :=
    forall i e i', p i = Ok (e, i') -> shapeb false e = true.

  Lemma terminal_nonempty : forall i t i', terminal c i = Ok (t, i') -> nonempty t = true.
  Proof.
    intros i t i' H. unfold terminal, terminal_with in H. dobind H. destruct s; [discriminate|].
    inversion H; subst. reflexivity.
  Qed.

  Lemma take_while1_nonempty : forall p i a i', take_while1 p i = Ok (a, i') -> nonempty a = true.
  Proof.
    intros p i a i' H. unfold take_while1 in H. destruct (take_while p i) as [x j].
    destruct x; [discriminate|]. inversion H; subst. reflexivity.
  Qed.

  Lemma nonterm_nonempty : forall i nm sp i', nonterm i = Ok ((nm, sp), i') -> nonempty nm = true.
  Proof.
    intros i nm sp i' H. unfold nonterm in H. dobind H. dobind H. dobind H. inversion H; subst.
    eapply take_while1_nonempty; eauto.
  Qed.

  Lemma shape_terminal : ShapeP (terminal_opt_description_expr c).
  Proof.
    intros i e i' H. unfold terminal_opt_description_expr in H. dobind H. dobind H. inversion H; subst.
    cbn [shapeb]. rewrite (terminal_nonempty _ _ _ E). reflexivity.
  Qed.

  Lemma shape_nonterm : ShapeP nonterm_expr.
  Proof.
    intros i e i' H. unfold nonterm_expr in H. dobind H. inversion H; subst. destruct p as [nm sp].
    cbn [shapeb fst]. rewrite (nonterm_nonempty _ _ _ _ E). reflexivity.
  Qed.

  Lemma shape_command : ShapeP command_expr.
  Proof. intros i e i' H. unfold command_expr in H. dobind H. inversion H; subst. reflexivity. Qed.

  Lemma shape_optional : forall ex, ShapeP ex -> ShapeP (optional_expr ex).
  Proof.
    intros ex G i e i' H. unfold optional_expr in H. dobind H. dobind H. dobind H. dobind H. dobind H.
    inversion H; subst. cbn [shapeb]. eapply G; eauto.
  Qed.

  Lemma shape_paren : forall ex, ShapeP ex -> ShapeP (parenthesized_expr ex).
  Proof.
    intros ex G i e i' H. unfold parenthesized_expr in H. dobind H. dobind H. dobind H. dobind H. dobind H.
    inversion H; subst. eapply G; eauto.
  Qed.

  Lemma shape_unary : forall ex, ShapeP ex -> ShapeP (unary_expr c ex).
  Proof.
    intros ex G i e i' H. unfold unary_expr in H. dobind H.
    assert (X : shapeb false e0 = true).
    { destruct (nonterm_expr i) as [[a j]| | |] eqn:N; try discriminate E.
      { inversion E; subst. eapply shape_nonterm; eauto. }
      destruct (optional_expr ex i) as [[a j]| | |] eqn:O; try discriminate E.
      { inversion E; subst. eapply shape_optional; eauto. }
      destruct (parenthesized_expr ex i) as [[a j]| | |] eqn:Pa; try discriminate E.
      { inversion E; subst. eapply shape_paren; eauto. }
      destruct (command_expr i) as [[a j]| | |] eqn:C; try discriminate E.
      { inversion E; subst. eapply shape_command; eauto. }
      eapply shape_terminal; eauto. }
    destruct (many1_tag i0) as [[u j]| | |]; try discriminate H; inversion H; subst; auto.
  Qed.

  Lemma shape_loop : forall step, ShapeP step ->
      forall k i l i', loop_p k step i = Ok (l, i') -> forallb (shapeb false) l = true.
  Proof.
    intros step G. induction k; intros i l i' H; [discriminate|]. cbn [loop_p] in H.
    destruct (step i) as [[a i1]| | |] eqn:E; try discriminate H.
    - dobind H. inversion H; subst. cbn [forallb]. rewrite (G _ _ _ E), (IHk _ _ _ E0). reflexivity.
    - inversion H; subst. reflexivity.
  Qed.

  Lemma shape_subword : forall k u, ShapeP u -> ShapeP (subword_sequence_expr k u).
  Proof.
    intros k u G i e i' H. unfold subword_sequence_expr in H. dobind H. dobind H.
    pose proof (G _ _ _ E) as S1. pose proof (shape_loop u G _ _ _ _ E0) as S2.
    destruct l as [|m more]; inversion H; subst; auto.
    cbn [shapeb negb andb N.eqb]. cbn [map List.length Nat.leb forallb].
    cbn [forallb] in S2. apply andb_true_iff in S2 as [Sm Smore].
    rewrite (flatten_shape _ _ S1), (flatten_shape _ _ Sm). cbn [andb].
    eapply forallb_map_pres; [|exact Smore]. apply Forall_forall. intros x _. apply flatten_shape.
  Qed.

  Lemma shape_item : forall k u, ShapeP u -> ShapeP (subword_sequence_expr_opt_description k u).
  Proof.
    intros k u G i e i' H. unfold subword_sequence_expr_opt_description in H. dobind H. dobind H.
    pose proof (shape_subword k u G _ _ _ E) as S1. destruct o; inversion H; subst; auto.
  Qed.

  Lemma shape_nary : forall (mk : list expr -> span -> expr) k first step,
      (forall cs sp, shapeb false (mk cs sp) = Nat.leb 2 (List.length cs) && forallb (shapeb false) cs) ->
      ShapeP first -> ShapeP step ->
      ShapeP (fun i => do (lft, after) <- first i;
                       do (more, after) <- loop_p k step after;
                       match more with
                       | [] => Ok (lft, after)
                       | _ => Ok (mk (lft :: more) (from_range i after), after)
                       end).
  Proof.
    intros mk k first step Hmk G1 G2 i e i' H. cbv beta in H. dobind H. dobind H.
    pose proof (G1 _ _ _ E) as S1. pose proof (shape_loop step G2 _ _ _ _ E0) as S2.
    destruct l as [|m more]; inversion H; subst; auto.
    rewrite Hmk. cbn [List.length Nat.leb forallb andb]. rewrite S1. exact S2.
  Qed.

  Lemma shape_sequence : forall k item, ShapeP item -> ShapeP (sequence_expr k item).
  Proof.
    intros k item G. unfold sequence_expr.
    apply (shape_nary Sequence k item (fun j => do (_, j1) <- multiblanks1 j; item j1)); auto.
    intros i e i' H. dobind H. eapply G; eauto.
  Qed.

  Lemma shape_alternative : forall k sq, ShapeP sq -> ShapeP (alternative_expr k sq).
  Proof.
    intros k sq G. unfold alternative_expr.
    apply (shape_nary Alternative k sq (do_alternative_expr sq)); auto.
    intros i e i' H. unfold do_alternative_expr in H. dobind H. dobind H. dobind H. eapply G; eauto.
  Qed.

  Lemma shape_fallback : forall k al, ShapeP al -> ShapeP (fallback_expr k al).
  Proof.
    intros k al G. unfold fallback_expr.
    apply (shape_nary Fallback k al (do_fallback_expr al)); auto.
    intros i e i' H. unfold do_fallback_expr in H. dobind H. dobind H. dobind H. eapply G; eauto.
  Qed.

  Theorem shape_expr : forall n, ShapeP (expr_p c n).
  Proof.
    induction n; [intros i e i' H; discriminate|]. cbn [expr_p].
    apply shape_fallback, shape_alternative, shape_sequence, shape_item, shape_unary. exact IHn.
  Qed.

  Lemma shape_statement : forall n i st i',
      statement_p c (expr_p c n) i = Ok (st, i') -> stmt_shape st = true.
  Proof.
    intros n i st i' H. unfold statement_p in H. dobind H. dobind H. inversion H; subst.
    destruct (call_variant c (expr_p c n) i) as [[a j]| | |] eqn:C; try discriminate E.
    - inversion E; subst. unfold call_variant in C. dobind C. dobind C. dobind C. dobind C. dobind C.
      inversion C; subst. cbn [stmt_shape].
      match goal with X : terminal c _ = Ok _ |- _ => rewrite (terminal_nonempty _ _ _ X) end.
      match goal with X : expr_p c n _ = Ok _ |- _ => rewrite (shape_expr n _ _ _ X) end. reflexivity.
    - unfold nonterm_def_statement in E. dobind E. dobind E. dobind E. dobind E. dobind E. dobind E. dobind E.
      destruct p as [[nm nsp] sh]. inversion E; subst. cbn [stmt_shape].
      match goal with X : expr_p c n _ = Ok _ |- _ => rewrite (shape_expr n _ _ _ X) end.
      match goal with X : nonterm_def _ = Ok _ |- _ => rename X into ND end.
      unfold nonterm_def in ND.
      destruct (nonterm_specialization i) as [[[[[nm' nsp'] sh'] ssp'] j]| | |] eqn:Sp; try discriminate ND.
      + inversion ND; subst. unfold nonterm_specialization in Sp.
        dobind Sp. dobind Sp. dobind Sp. dobind Sp. dobind Sp. inversion Sp; subst.
        repeat match goal with X : take_while1 _ _ = Ok _ |- _ => rewrite (take_while1_nonempty _ _ _ _ X); clear X end.
        reflexivity.
      + destruct (nonterm i) as [[[nm' nsp'] j]| | |] eqn:N; try discriminate ND. inversion ND; subst.
        rewrite (nonterm_nonempty _ _ _ _ N). reflexivity.
  Qed.

  Lemma shape_many0 : forall n k i l i',
      many0_p k (statement_p c (expr_p c n)) i = Ok (l, i') -> forallb stmt_shape l = true.
  Proof.
    intros n. induction k; intros i l i' H; [discriminate|]. cbn [many0_p] in H.
    destruct (statement_p c (expr_p c n) i) as [[st i1]| | |] eqn:E; try discriminate H.
    - destruct (Nat.eqb _ _); [discriminate|].
      destruct (many0_p k _ i1) as [[l2 i2]| | |] eqn:M; try discriminate H. inversion H; subst.
      cbn [forallb]. rewrite (shape_statement _ _ _ _ E), (IHk _ _ _ M). reflexivity.
    - inversion H; subst. reflexivity.
  Qed.

  Theorem parse_shape : forall s g, parse_with c s = Ok g -> forallb stmt_shape g = true.
  Proof.
    intros s g H. unfold parse_with, grammar_p in H.
    destruct (multiblanks0 (start s)) as [[u i1]| | |]; try discriminate H.
    destruct (many0_p _ _ i1) as [[l i2]| | |] eqn:M; try discriminate H.
    destruct (multiblanks0 i2) as [[u2 i3]| | |]; try discriminate H.
    destruct (rest i3); [|discriminate]. inversion H; subst. eapply shape_many0; eauto.
  Qed.

  (** in the form the regex/automaton totality theorems ask for *)
  Theorem parse_alts_nonempty : forall s g, parse_with c s = Ok g -> grammar_alts_nonempty g = true.
  Proof.
    intros s g H. apply parse_shape in H. unfold grammar_alts_nonempty.
    rewrite forallb_forall in *. intros st Hst. specialize (H st Hst).
    destruct st as [nm nsp e|nm nsp sh rhs]; cbn [stmt_shape] in H.
    - apply andb_true_iff in H as [_ H]. eapply shape_alts; eauto.
    - apply andb_true_iff in H as [_ H]. eapply shape_alts; eauto.
  Qed.
End Shape.
