(** The shape of the parser's image, for arbitrary input and either lexer configuration:
    [parse_with c s = Ok g -> forallb stmt_shape g = true]; in particular every [|] and [||] of a
    parsed grammar has an operand ([grammar_alts_nonempty], the hypothesis of the C02/C03 totality
    theorems). *)
From CG Require Import Base.Prelude Model.Ast Model.Lexer Model.Parser Spec.Printer Spec.Spans Spec.Shape
  Proofs.LexBase Proofs.SpanSound Proofs.TreeFacts.
From CGgen Require Import Consts.

Lemma forallb_map_pres : forall (p q : expr -> bool) (f : expr -> expr) cs,
    Forall (fun x => p x = true -> q (f x) = true) cs -> forallb p cs = true -> forallb q (map f cs) = true.
Proof.
  induction 1; cbn; intros; auto. apply andb_true_iff in H1 as [A B]. rewrite H, IHForall; auto.
Qed.

Section Flat.
  Variables lit nt cmd : string -> bool.

Definition FlatQ (e : expr) : Prop :=
  (forall w, gshapeb lit nt cmd w e = true -> gshapeb lit nt cmd true (flatten_expr e) = true)
  /\ match e with
     | Sequence fs _ => Forall (fun x => forall w, gshapeb lit nt cmd w x = true -> gshapeb lit nt cmd true (flatten_expr x) = true) fs
     | _ => True
     end.

Lemma Forall_FlatQ : forall cs, Forall FlatQ cs ->
    Forall (fun x => forall w, gshapeb lit nt cmd w x = true -> gshapeb lit nt cmd true (flatten_expr x) = true) cs.
Proof. induction 1; constructor; auto. destruct H; auto. Qed.

Lemma flatten_shape_all : forall e, FlatQ e.
Proof.
  induction e using expr_ind'; (split; [intros w W; cbn [flatten_expr gshapeb] in *|try (cbn iota; constructor)]); auto.
  - apply Forall_FlatQ in H. apply andb_true_iff in W as [L F]. rewrite map_length, L. cbn [andb].
    eapply forallb_map_pres; [|exact F]. eapply Forall_impl; [|exact H]. cbn beta. intros a Ha. apply Ha.
  - apply Forall_FlatQ; auto.
  - apply Forall_FlatQ in H. apply andb_true_iff in W as [L F]. rewrite map_length, L. cbn [andb].
    eapply forallb_map_pres; [|exact F]. eapply Forall_impl; [|exact H]. cbn beta. intros a Ha. apply Ha.
  - destruct IHe as [IH _]. eapply IH; eauto.
  - destruct IHe as [IH _]. eapply IH; eauto.
  - destruct IHe as [IH _]. eapply IH; eauto.
  - apply Forall_FlatQ in H. apply andb_true_iff in W as [L F]. rewrite map_length, L. cbn [andb].
    eapply forallb_map_pres; [|exact F]. eapply Forall_impl; [|exact H]. cbn beta. intros a Ha. apply Ha.
  - destruct IHe as [_ IHfs]. apply andb_true_iff in W as [W W3]. destruct e; try discriminate.
    apply andb_true_iff in W3 as [L F]. cbn [flatten_expr gshapeb]. rewrite map_length, L. cbn [andb].
    eapply forallb_map_pres; [|exact F]. eapply Forall_impl; [|exact IHfs]. cbn beta. intros a Ha. apply Ha.
Qed.

Lemma flatten_shape : forall w e, gshapeb lit nt cmd w e = true -> gshapeb lit nt cmd true (flatten_expr e) = true.
Proof. intros w e. apply (flatten_shape_all e). Qed.

End Flat.

Lemma shape_alts : forall e w, shapeb w e = true -> alts_nonempty e = true.
Proof.
  unfold shapeb. induction e using expr_ind'; intros w W; cbn [gshapeb alts_nonempty] in *; auto.
  - apply andb_true_iff in W as [_ F]. rewrite forallb_forall in *. rewrite Forall_forall in H. intros x Hx. eapply H; eauto.
  - apply andb_true_iff in W as [L F]. destruct cs; [discriminate|].
    rewrite forallb_forall in *. rewrite Forall_forall in H. intros x Hx. eapply H; eauto.
  - eapply IHe; eauto.
  - eapply IHe; eauto.
  - eapply IHe; eauto.
  - apply andb_true_iff in W as [L F]. destruct cs; [discriminate|].
    rewrite forallb_forall in *. rewrite Forall_forall in H. intros x Hx. eapply H; eauto.
  - apply andb_true_iff in W as [_ W3]. destruct e; try discriminate.
    apply andb_true_iff in W3 as [L F]. eapply (IHe true). cbn [gshapeb]. rewrite L, F. reflexivity.
Qed.

Section Shape.
  Variable c : cfg.
  Variables lit nt cmd : string -> bool.
  Hypothesis Hlit : forall i t i', terminal c i = Ok (t, i') -> lit t = true.
  Hypothesis Hnt : forall i nm sp i', nonterm i = Ok ((nm, sp), i') -> nt nm = true.
  Hypothesis Hcmd : forall i x i', triple_bracket_command i = Ok (x, i') -> cmd x = true.

  Let G := gshapeb lit nt cmd.

  Definition ShapeP (p : input -> pres expr) : Prop :=
    forall i e i', p i = Ok (e, i') -> G false e = true.

  Lemma shape_terminal : ShapeP (terminal_opt_description_expr c).
  Proof.
    intros i e i' H. unfold terminal_opt_description_expr in H. dobind H. dobind H. inversion H; subst.
    unfold G. cbn [gshapeb]. rewrite (Hlit _ _ _ E). reflexivity.
  Qed.

  Lemma shape_nonterm : ShapeP nonterm_expr.
  Proof.
    intros i e i' H. unfold nonterm_expr in H. dobind H. inversion H; subst. destruct p as [nm sp].
    unfold G. cbn [gshapeb fst]. rewrite (Hnt _ _ _ _ E). reflexivity.
  Qed.

  Lemma shape_command : ShapeP command_expr.
  Proof.
    intros i e i' H. unfold command_expr in H. dobind H. inversion H; subst.
    unfold G. cbn [gshapeb]. rewrite (Hcmd _ _ _ E). reflexivity.
  Qed.

  Lemma shape_optional : forall ex, ShapeP ex -> ShapeP (optional_expr ex).
  Proof.
    intros ex Gx i e i' H. unfold optional_expr in H. dobind H. dobind H. dobind H. dobind H. dobind H.
    inversion H; subst. unfold G. cbn [gshapeb]. eapply Gx; eauto.
  Qed.

  Lemma shape_paren : forall ex, ShapeP ex -> ShapeP (parenthesized_expr ex).
  Proof.
    intros ex Gx i e i' H. unfold parenthesized_expr in H. dobind H. dobind H. dobind H. dobind H. dobind H.
    inversion H; subst. eapply Gx; eauto.
  Qed.

  Lemma shape_unary : forall ex, ShapeP ex -> ShapeP (unary_expr c ex).
  Proof.
    intros ex Gx i e i' H. unfold unary_expr in H. dobind H.
    assert (X : G false e0 = true).
    { destruct (nonterm_expr i) as [[a j]| | |] eqn:N; try discriminate E.
      { inversion E; subst. eapply shape_nonterm; eauto. }
      destruct (optional_expr ex i) as [[a j]| | |] eqn:O; try discriminate E.
      { inversion E; subst. eapply shape_optional; eauto. }
      destruct (parenthesized_expr ex i) as [[a j]| | |] eqn:Pa; try discriminate E.
      { inversion E; subst. eapply shape_paren; eauto. }
      destruct (command_expr i) as [[a j]| | |] eqn:C; try discriminate E.
      { inversion E; subst. eapply shape_command; eauto. }
      eapply shape_terminal; eauto. }
    destruct (many1_tag i0) as [[u j]| | |]; try discriminate H; inversion H; subst; auto.
  Qed.

  Lemma shape_loop : forall step, ShapeP step ->
      forall k i l i', loop_p k step i = Ok (l, i') -> forallb (G false) l = true.
  Proof.
    intros step Gs. induction k; intros i l i' H; [discriminate|]. cbn [loop_p] in H.
    destruct (step i) as [[a i1]| | |] eqn:E; try discriminate H.
    - dobind H. inversion H; subst. cbn [forallb]. rewrite (Gs _ _ _ E), (IHk _ _ _ E0). reflexivity.
    - inversion H; subst. reflexivity.
  Qed.

  Lemma shape_subword : forall k u, ShapeP u -> ShapeP (subword_sequence_expr k u).
  Proof.
    intros k u Gu i e i' H. unfold subword_sequence_expr in H. dobind H. dobind H.
    pose proof (Gu _ _ _ E) as S1. pose proof (shape_loop u Gu _ _ _ _ E0) as S2.
    destruct l as [|m more]; inversion H; subst; auto.
    unfold G in *. cbn [gshapeb negb andb N.eqb]. cbn [map List.length Nat.leb forallb].
    cbn [forallb] in S2. apply andb_true_iff in S2 as [Sm Smore].
    rewrite (flatten_shape _ _ _ _ _ S1), (flatten_shape _ _ _ _ _ Sm). cbn [andb].
    eapply forallb_map_pres; [|exact Smore]. apply Forall_forall. intros x _. apply flatten_shape.
  Qed.

  Lemma shape_item : forall k u, ShapeP u -> ShapeP (subword_sequence_expr_opt_description k u).
  Proof.
    intros k u Gu i e i' H. unfold subword_sequence_expr_opt_description in H. dobind H. dobind H.
    pose proof (shape_subword k u Gu _ _ _ E) as S1. destruct o; inversion H; subst; auto.
  Qed.

  Lemma shape_nary : forall (mk : list expr -> span -> expr) k first step,
      (forall cs sp, G false (mk cs sp) = Nat.leb 2 (List.length cs) && forallb (G false) cs) ->
      ShapeP first -> ShapeP step ->
      ShapeP (fun i => do (lft, after) <- first i;
                       do (more, after) <- loop_p k step after;
                       match more with
                       | [] => Ok (lft, after)
                       | _ => Ok (mk (lft :: more) (from_range i after), after)
                       end).
  Proof.
    intros mk k first step Hmk G1 G2 i e i' H. cbv beta in H. dobind H. dobind H.
    pose proof (G1 _ _ _ E) as S1. pose proof (shape_loop step G2 _ _ _ _ E0) as S2.
    destruct l as [|m more]; inversion H; subst; auto.
    rewrite Hmk. cbn [List.length Nat.leb forallb andb]. rewrite S1. exact S2.
  Qed.

  Lemma shape_sequence : forall k item, ShapeP item -> ShapeP (sequence_expr k item).
  Proof.
    intros k item Gi. unfold sequence_expr.
    apply (shape_nary Sequence k item (fun j => do (_, j1) <- multiblanks1 j; item j1)); auto.
    intros i e i' H. dobind H. eapply Gi; eauto.
  Qed.

  Lemma shape_alternative : forall k sq, ShapeP sq -> ShapeP (alternative_expr k sq).
  Proof.
    intros k sq Gq. unfold alternative_expr.
    apply (shape_nary Alternative k sq (do_alternative_expr sq)); auto.
    intros i e i' H. unfold do_alternative_expr in H. dobind H. dobind H. dobind H. eapply Gq; eauto.
  Qed.

  Lemma shape_fallback : forall k al, ShapeP al -> ShapeP (fallback_expr k al).
  Proof.
    intros k al Ga. unfold fallback_expr.
    apply (shape_nary Fallback k al (do_fallback_expr al)); auto.
    intros i e i' H. unfold do_fallback_expr in H. dobind H. dobind H. dobind H. eapply Ga; eauto.
  Qed.

  Theorem shape_expr : forall n, ShapeP (expr_p c n).
  Proof.
    induction n; [intros i e i' H; discriminate|]. cbn [expr_p].
    apply shape_fallback, shape_alternative, shape_sequence, shape_item, shape_unary. exact IHn.
  Qed.

  (** statements: the expression of every statement has the shape *)
  Definition stmt_expr (st : statement) : expr :=
    match st with CallVariant _ _ e => e | NontermDef _ _ _ rhs => rhs end.

  Lemma statement_cases : forall n i st i',
      statement_p c (expr_p c n) i = Ok (st, i') ->
      G false (stmt_expr st) = true /\
      match st with
      | CallVariant name _ _ => exists j, terminal c i = Ok (name, j)
      | NontermDef name nsp sh _ => exists j, nonterm_def i = Ok ((name, nsp, sh), j)
      end.
  Proof.
    intros n i st i' H. unfold statement_p in H. dobind H. dobind H. inversion H; subst.
    destruct (call_variant c (expr_p c n) i) as [[a j]| | |] eqn:C; try discriminate E.
    - inversion E; subst. unfold call_variant in C. dobind C. dobind C. dobind C. dobind C. dobind C.
      inversion C; subst. cbn [stmt_expr]. split; [|eauto].
      match goal with X : expr_p c n _ = Ok _ |- _ => exact (shape_expr n _ _ _ X) end.
    - unfold nonterm_def_statement in E. dobind E. dobind E. dobind E. dobind E. dobind E. dobind E. dobind E.
      destruct p as [[nm nsp] sh]. inversion E; subst. cbn [stmt_expr]. split; [|eauto].
      match goal with X : expr_p c n _ = Ok _ |- _ => exact (shape_expr n _ _ _ X) end.
  Qed.

  Lemma many0_Forall : forall (Q : statement -> Prop) n,
      (forall i st i', statement_p c (expr_p c n) i = Ok (st, i') -> Q st) ->
      forall k i l i', many0_p k (statement_p c (expr_p c n)) i = Ok (l, i') -> Forall Q l.
  Proof.
    intros Q n HQ. induction k; intros i l i' H; [discriminate|]. cbn [many0_p] in H.
    destruct (statement_p c (expr_p c n) i) as [[st i1]| | |] eqn:E; try discriminate H.
    - destruct (Nat.eqb _ _); [discriminate|].
      destruct (many0_p k _ i1) as [[l2 i2]| | |] eqn:M; try discriminate H. inversion H; subst.
      constructor; eauto.
    - inversion H; subst. constructor.
  Qed.

  Lemma parse_Forall : forall (Q : statement -> Prop),
      (forall n i st i', statement_p c (expr_p c n) i = Ok (st, i') -> Q st) ->
      forall s g, parse_with c s = Ok g -> Forall Q g.
  Proof.
    intros Q HQ s g H. unfold parse_with, grammar_p in H.
    destruct (multiblanks0 (start s)) as [[u i1]| | |]; try discriminate H.
    destruct (many0_p _ _ i1) as [[l i2]| | |] eqn:M; try discriminate H.
    destruct (multiblanks0 i2) as [[u2 i3]| | |]; try discriminate H.
    destruct (rest i3); [|discriminate]. inversion H; subst. eapply many0_Forall; eauto.
  Qed.
End Shape.

(** *** The plain shape *)

Lemma terminal_nonempty : forall c i t i', terminal c i = Ok (t, i') -> nonempty t = true.
Proof.
  intros c i t i' H. unfold terminal, terminal_with in H. dobind H. destruct s; [discriminate|].
  inversion H; subst. reflexivity.
Qed.

Lemma take_while1_nonempty : forall p i a i', take_while1 p i = Ok (a, i') -> nonempty a = true.
Proof.
  intros p i a i' H. unfold take_while1 in H. destruct (take_while p i) as [x j].
  destruct x; [discriminate|]. inversion H; subst. reflexivity.
Qed.

Lemma nonterm_nonempty : forall i nm sp i', nonterm i = Ok ((nm, sp), i') -> nonempty nm = true.
Proof.
  intros i nm sp i' H. unfold nonterm in H. dobind H. dobind H. dobind H. inversion H; subst.
  eapply take_while1_nonempty; eauto.
Qed.

Lemma nonterm_def_nonempty : forall i nm nsp sh j, nonterm_def i = Ok ((nm, nsp, sh), j) ->
    nonempty nm = true /\ match sh with Some (s, _) => nonempty s = true | None => True end.
Proof.
  intros i nm nsp sh j ND. unfold nonterm_def in ND.
  destruct (nonterm_specialization i) as [[[[[nm' nsp'] sh'] ssp'] j']| | |] eqn:Sp; try discriminate ND.
  - inversion ND; subst. unfold nonterm_specialization in Sp.
    dobind Sp. dobind Sp. dobind Sp. dobind Sp. dobind Sp. inversion Sp; subst.
    split; eapply take_while1_nonempty; eauto.
  - destruct (nonterm i) as [[[nm' nsp'] j']| | |] eqn:N; try discriminate ND. inversion ND; subst.
    split; auto. eapply nonterm_nonempty; eauto.
Qed.

Theorem parse_shape : forall c s g, parse_with c s = Ok g -> forallb stmt_shape g = true.
Proof.
  intros c s g H. apply forallb_forall. apply Forall_forall.
  apply (parse_Forall c (fun st => stmt_shape st = true)) with (s := s); auto.
  intros n i st i' Hs.
  destruct (statement_cases c nonempty nonempty (fun _ => true) (terminal_nonempty c) nonterm_nonempty
              (fun _ _ _ _ => eq_refl) n i st i' Hs) as [Se Sn].
  destruct st as [name nsp e|name nsp sh rhs]; cbn [stmt_shape stmt_expr] in *.
  - destruct Sn as [j Sn]. rewrite (terminal_nonempty _ _ _ _ Sn). exact Se.
  - destruct Sn as [j Sn]. destruct (nonterm_def_nonempty _ _ _ _ _ Sn) as [N1 N2]. rewrite N1.
    destruct sh as [[sn ssp]|]; [rewrite N2|]; exact Se.
Qed.

(** in the form the regex/automaton totality theorems ask for *)
Theorem parse_alts_nonempty : forall c s g, parse_with c s = Ok g -> grammar_alts_nonempty g = true.
Proof.
  intros c s g H. apply parse_shape in H. unfold grammar_alts_nonempty.
  rewrite forallb_forall in *. intros st Hst. specialize (H st Hst).
  destruct st as [nm nsp e|nm nsp sh rhs]; cbn [stmt_shape] in H.
  - apply andb_true_iff in H as [_ H]. eapply shape_alts; eauto.
  - apply andb_true_iff in H as [_ H]. eapply shape_alts; eauto.
Qed.
