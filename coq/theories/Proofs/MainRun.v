(** [Model/Main.v] ([run]: the complgen command as a trace of effects) against [Driver.compile]:
    [run_with_case] lists the shapes a run can have -- each with the verdict of [Driver.compile]
    it corresponds to -- and shows there is no other (no [Panic], no [OutOfFuel]) under
    [fuel_covers].  The theorems of [Props/C06c.v] and [Props/C15c.v] are case analyses on it. *)
From CG Require Import Base.Prelude Model.Ast Model.Lexer Model.Parser Model.Check Model.Regex.
From CG Require Import Model.Dfa Model.Subset Model.Minimize Model.Ambiguity Model.Driver Model.Diag.
From CG Require Import Model.Compiler Model.Main.
From CG Require Import Proofs.TreeFacts Proofs.CheckTree Proofs.CheckErrNonempty.
From CG Require Import Proofs.PipelineTotal Proofs.CompilerTotal Proofs.DiagPipeline.
From CG Require Props.C05b Props.C06.
Open Scope list_scope.

(** *** Reading a trace *)

Definition exit_code (t : trace) : option N :=
  match rev t with Exit c :: _ => Some c | _ => None end.

Definition is_exit (e : effect) : bool := match e with Exit _ => true | _ => false end.

Definition is_script_write (e : effect) : bool :=
  match e with Write _ (KScript _) => true | _ => false end.

(** a warning of the three warning loops *)
Definition is_warning (e : effect) : bool :=
  match e with Stderr (SLocated m _) => m_warning m | _ => false end.

(** a diagnostic: anything on stderr that is not a warning *)
Definition is_diag (e : effect) : bool :=
  match e with
  | Stderr (SLocated m _) => negb (m_warning m)
  | Stderr (SZshName _) => false
  | Stderr _ => true
  | _ => false
  end.

Definition strip_warnings (t : trace) : trace := filter (fun e => negb (is_warning e)) t.

Definition warnings_of (t : trace) : list message :=
  flat_map (fun e => match e with
                     | Stderr (SLocated m _) => if m_warning m then [m] else []
                     | _ => []
                     end) t.

Lemma exit_code_last pre c : exit_code (pre ++ [Exit c]) = Some c.
Proof. unfold exit_code. rewrite rev_unit. reflexivity. Qed.

(** *** Rendering a list of messages *)

Definition renders (path source : string) (m : message) : Prop :=
  exists r, render path source (m_span m) = Ok r.

Definition rendered_as (path source : string) (m : message) (e : effect) : Prop :=
  exists r, render path source (m_span m) = Ok r /\ e = Stderr (SLocated m r).

Lemma render_all_ok path source ms :
  Forall (renders path source) ms ->
  exists t, render_all path source ms = Ok t /\ Forall2 (rendered_as path source) ms t.
Proof.
  induction 1 as [|m ms [r Hr] _ [t [Ht F]]]; cbn [render_all].
  - exists []. split; [reflexivity|constructor].
  - rewrite Hr, Ht. cbn [obind]. eexists. split; [reflexivity|]. constructor; [|exact F].
    exists r. auto.
Qed.

Lemma render_all_inv path source ms : forall t,
  render_all path source ms = Ok t -> Forall2 (rendered_as path source) ms t.
Proof.
  induction ms as [|m ms IH]; intros t H; cbn [render_all] in H.
  - inversion H. constructor.
  - destruct (render path source (m_span m)) as [r|x| |] eqn:Hr; try discriminate.
    destruct (render_all path source ms) as [tl|x| |]; cbn [obind] in H; try discriminate.
    inversion H; subst t. constructor; [exists r; auto|apply IH; reflexivity].
Qed.

Lemma Forall2_nil_r {A B} (R : A -> B -> Prop) l : Forall2 R l [] -> l = [].
Proof. intro H. inversion H. reflexivity. Qed.

Lemma rendered_filter path source (p : effect -> bool) ms t :
  Forall2 (rendered_as path source) ms t ->
  (forall m r, In m ms -> p (Stderr (SLocated m r)) = false) -> filter p t = [].
Proof.
  induction 1 as [|m e ms t [r [_ ->]] _ IH]; intro Hp; [reflexivity|].
  cbn [filter]. rewrite (Hp m r (or_introl eq_refl)). apply IH. intros m' r' Hi. apply Hp. right. exact Hi.
Qed.

Lemma rendered_filter_all path source (p : effect -> bool) ms t :
  Forall2 (rendered_as path source) ms t ->
  (forall m r, In m ms -> p (Stderr (SLocated m r)) = true) -> filter p t = t.
Proof.
  induction 1 as [|m e ms t [r [_ ->]] _ IH]; intro Hp; [reflexivity|].
  cbn [filter]. rewrite (Hp m r (or_introl eq_refl)). f_equal. apply IH. intros m' r' Hi. apply Hp. right. exact Hi.
Qed.

Lemma rendered_warnings_of path source ms t :
  Forall2 (rendered_as path source) ms t ->
  warnings_of t = filter m_warning ms.
Proof.
  induction 1 as [|m e ms t [r [_ ->]] _ IH]; [reflexivity|].
  cbn [warnings_of flat_map filter]. fold (warnings_of t). rewrite IH.
  destruct (m_warning m); reflexivity.
Qed.

(** *** Which messages are warnings *)

Lemma error_messages_not_warning e m : In m (error_messages e) -> m_warning m = false.
Proof.
  assert (M : forall (f : span -> message) l, (forall sp, m_warning (f sp) = false) -> In m (map f l) -> m_warning m = false).
  { intros f l Hf Hi. apply in_map_iff in Hi. destruct Hi as [x [<- _]]. apply Hf. }
  destruct e as [sp|ce|re|se|ae]; cbn [error_messages In].
  - intros [<-|[]]. reflexivity.
  - destruct ce; cbn [In]; try tauto;
      try (intros [<-|[]]; reflexivity); try (intros [<-|[<-|[]]]; reflexivity);
      try (apply M; reflexivity).
    intros [<-|[<-|H]]; try reflexivity. revert H. apply M. reflexivity.
  - destruct re. intros [<-|[<-|[]]]; reflexivity.
  - intros [].
  - intros [].
Qed.

Lemma warning_messages_warning v m : In m (warning_messages v) -> m_warning m = true.
Proof.
  unfold warning_messages, wmsgs. rewrite !in_app_iff, !in_map_iff.
  intros [[x [<- _]]|[[x [<- _]]|[x [<- _]]]]; reflexivity.
Qed.

Lemma filter_all_true {A} (p : A -> bool) l : (forall x, In x l -> p x = true) -> filter p l = l.
Proof.
  induction l as [|x l IH]; intro H; [reflexivity|]. cbn. rewrite (H x (or_introl eq_refl)).
  f_equal. apply IH. intros y Hy. apply H. right. exact Hy.
Qed.

(** *** [handle_error] *)

Section Diag.
  Variables upath text : string.

  (** what [handle_error] prints for [e] (before [exit(1)]) *)
  Definition diag_trace (command : string) (e : derror) (f : trace) : Prop :=
    match e with
    | DCheck MissingCallVariants => f = [Stderr (SPlain MISSING_CALL_VARIANTS)]
    | DAmb ae => f = [Stderr (SAmbiguity ae command)]
    | DSubset _ => False
    | _ => Forall2 (rendered_as upath text) (error_messages e) f /\ f <> []
    end.

  Lemma fail_with_ok command e :
    Forall (renders upath text) (error_messages e) ->
    (forall x, e <> DSubset x) ->
    (forall ce, e = DCheck ce -> err_nonempty ce) ->
    exists f, fail_with upath text command e = Ok (f ++ [Exit 1]) /\ diag_trace command e f.
  Proof.
    intros Hr Hs Hne.
    assert (G : (exists f, render_all upath text (error_messages e) = Ok f
                           /\ Forall2 (rendered_as upath text) (error_messages e) f)) by (apply render_all_ok; exact Hr).
    destruct G as [f [Hf F2]].
    assert (NE : error_messages e <> [] -> f <> []).
    { intros Hn Hf0. subst f. apply Forall2_nil_r in F2. contradiction. }
    destruct e as [sp|ce|re|se|ae].
    - exists f. cbn [fail_with diag_trace]. rewrite Hf. cbn [obind]. split; [reflexivity|]. split; [exact F2|].
      apply NE. cbn. discriminate.
    - specialize (Hne ce eq_refl).
      destruct ce; cbn [fail_with diag_trace];
        try (exists f; rewrite Hf; cbn [obind]; split; [reflexivity|]; split; [exact F2|]; apply NE; cbn; try discriminate).
      + exists [Stderr (SPlain MISSING_CALL_VARIANTS)]. split; [reflexivity|reflexivity].
      + cbn in Hne. intro E. apply map_eq_nil in E. contradiction.
      + cbn in Hne. intro E. apply map_eq_nil in E. contradiction.
    - destruct re. exists f. cbn [fail_with diag_trace]. rewrite Hf. cbn [obind]. split; [reflexivity|].
      split; [exact F2|]. apply NE. cbn. discriminate.
    - exfalso. eapply Hs. reflexivity.
    - exists [Stderr (SAmbiguity ae command)]. cbn [fail_with diag_trace]. split; [reflexivity|reflexivity].
  Qed.

  Lemma diag_trace_props command e f :
    diag_trace command e f ->
    filter is_diag f = f /\ filter is_exit f = [] /\ filter is_script_write f = []
    /\ warnings_of f = [] /\ exists pre m, f = pre ++ [Stderr m] /\ is_diag (Stderr m) = true.
  Proof.
    assert (Last : forall t : trace, t <> [] -> Forall (fun e => exists m, e = Stderr m /\ is_diag e = true) t ->
                                     exists pre m, t = pre ++ [Stderr m] /\ is_diag (Stderr m) = true).
    { intros t Hn Ha. destruct (exists_last Hn) as [pre [x ->]]. apply Forall_app in Ha. destruct Ha as [_ Ha].
      inversion Ha as [|? ? [m [-> Hd]] _]. exists pre, m. auto. }
    assert (Loc : Forall2 (rendered_as upath text) (error_messages e) f /\ f <> [] ->
                  filter is_diag f = f /\ filter is_exit f = [] /\ filter is_script_write f = []
                  /\ warnings_of f = [] /\ exists pre m, f = pre ++ [Stderr m] /\ is_diag (Stderr m) = true).
    { intros [F2 Hn]. split; [|split; [|split; [|split]]].
      - eapply rendered_filter_all; [exact F2|]. intros m r Hi. cbn. rewrite (error_messages_not_warning e m Hi). reflexivity.
      - eapply rendered_filter; [exact F2|]. reflexivity.
      - eapply rendered_filter; [exact F2|]. reflexivity.
      - rewrite (rendered_warnings_of _ _ _ _ F2). clear F2.
        assert (H : forall m, In m (error_messages e) -> m_warning m = false) by apply error_messages_not_warning.
        induction (error_messages e) as [|m l IH]; [reflexivity|]. cbn. rewrite (H m (or_introl eq_refl)).
        apply IH. intros m' Hm'. apply H. right. exact Hm'.
      - apply Last; [exact Hn|]. clear Hn.
        assert (H : forall m, In m (error_messages e) -> m_warning m = false) by apply error_messages_not_warning.
        induction F2 as [|m x l t [r [_ ->]] _ IH]; constructor.
        + eexists. split; [reflexivity|]. cbn. rewrite (H m (or_introl eq_refl)). reflexivity.
        + apply IH. intros m' Hm'. apply H. right. exact Hm'. }
    destruct e as [sp|ce|re|se|ae]; cbn [diag_trace]; try exact Loc.
    - destruct ce; try exact Loc. intros ->. repeat split; try reflexivity. exists [], (SPlain MISSING_CALL_VARIANTS). split; reflexivity.
    - intros [].
    - intros ->. repeat split; try reflexivity. exists [], (SAmbiguity ae command). split; reflexivity.
  Qed.
End Diag.

(** *** The stages of [Driver.compile], as [main.rs] interleaves them with effects *)

Section Stages.
  Variable pick : nat -> list (list N) -> nat.
  Variable fuel : nat.
  Variable builtins : shell -> list (string * string).

  Definition staged_valid (v : valid_grammar) : dres cdfa :=
    match from_valid_expr (v_expr v) with
    | Ok (r, pl) =>
        match stage_raw pick fuel r pl with
        | Ok (raw, subs) =>
            match minimize raw with
            | Ok m =>
                match check_ambiguity_best_effort m with
                | Ok _ => Ok (mkcdfa m subs)
                | Err ae => Err (DAmb ae)
                | Panic s => Panic s
                | OutOfFuel => OutOfFuel
                end
            | Err _ => Panic "minimize: impossible error"
            | Panic s => Panic s
            | OutOfFuel => OutOfFuel
            end
        | Err e => Err e
        | Panic s => Panic s
        | OutOfFuel => OutOfFuel
        end
    | Err re => Err (DRegex re)
    | Panic s => Panic s
    | OutOfFuel => OutOfFuel
    end.

  Lemma compile_valid_unfold v : compile_valid pick fuel v = staged_valid v.
  Proof.
    unfold compile_valid, staged_valid, stage_raw.
    destruct (from_valid_expr (v_expr v)) as [[r pl]|re| |]; cbn [lift obind]; try reflexivity.
    destruct (compile_subs pick fuel (r_inputs r) pl [] []) as [[submap subs]|x| |]; cbn [obind]; try reflexivity.
    destruct (dfa_from_regex pick fuel submap r) as [raw|x| |]; cbn [lift obind fst snd]; try reflexivity.
    destruct (minimize (fst raw)) as [m|x| |]; cbn [lift_noerr obind]; try reflexivity.
    destruct (check_ambiguity_best_effort m) as [u|x| |]; cbn [lift obind]; reflexivity.
  Qed.

  Lemma compile_after_check text sh g v :
    parse text = Ok g -> from_grammar builtins g sh = Ok v ->
    compile pick fuel builtins text sh = (do c <- staged_valid v; Ok (v, c)).
  Proof.
    intros Hg Hv. unfold compile. rewrite Hg. cbn [obind]. rewrite Hv. cbn [lift obind].
    rewrite compile_valid_unfold. reflexivity.
  Qed.

  Lemma stage_raw_err r pl e : stage_raw pick fuel r pl = Err e ->
    (exists x, e = DSubset x) \/ (exists x, e = DAmb x).
  Proof.
    unfold stage_raw. intro H.
    destruct (compile_subs pick fuel (r_inputs r) pl [] []) as [[submap subs]|x| |] eqn:Cs; cbn [obind] in H; try discriminate.
    2:{ inversion H; subst. eapply compile_subs_err; eauto. }
    destruct (dfa_from_regex pick fuel submap r) as [raw|x| |]; cbn [lift obind] in H; try discriminate.
    inversion H; eauto.
  Qed.
End Stages.

(** *** The shapes of a run *)

Section Cases.
  Variable builtins : shell -> list (string * string).
  Variable o : oracles.
  Variable version : string.
  Variable wm : valid_grammar -> list message.

  Notation pick := (pick_table (o_pops o)).
  Notation fuel := (o_fuel o).

  Lemma script_content_total sh v c :
    alts_nonempty (v_expr v) = true -> compile_valid pick fuel v = Ok c ->
    (exists k, script_content o sh v c = Ok k) \/ script_content o sh v c = Err BadOracle.
  Proof.
    intros Ha Hc. destruct sh; cbn [script_content]; try (left; eexists; reflexivity).
    destruct (emit_bash_total o pick fuel v c Ha Hc) as [[s ->]| ->]; [left; eexists; reflexivity|right; reflexivity].
  Qed.

  Inductive run_case (a : cli_args) (input : option string) : rres trace -> Prop :=
  | rc_version : a_version a = true -> run_case a input (Ok ([Stdout version] ++ [Exit 0]))
  | rc_nousage : a_version a = false -> a_usage a = None ->
      run_case a input (Ok ([Stderr SMissingUsage] ++ [Exit 1]))
  | rc_noinput upath : a_version a = false -> a_usage a = Some upath -> input = None ->
      run_case a input (Ok ([Stderr (SCannotRead upath)] ++ [Exit 1]))
  | rc_parse upath text sp f :
      a_version a = false -> a_usage a = Some upath -> input = Some text ->
      parse text = Err sp -> (forall sh, compile pick fuel builtins text sh = Err (DParse sp)) ->
      diag_trace upath text "dummy" (DParse sp) f ->
      run_case a input (Ok (f ++ [Exit 1]))
  | rc_shell upath text g :
      a_version a = false -> a_usage a = Some upath -> input = Some text ->
      parse text = Ok g -> select_shell a = None ->
      run_case a input (Ok ([Stderr SExactlyOne] ++ [Exit 1]))
  | rc_check upath text g sh path ce f :
      a_version a = false -> a_usage a = Some upath -> input = Some text ->
      parse text = Ok g -> select_shell a = Some (sh, path) ->
      from_grammar builtins g sh = Err ce -> compile pick fuel builtins text sh = Err (DCheck ce) ->
      diag_trace upath text "dummy" (DCheck ce) f ->
      run_case a input (Ok (f ++ [Exit 1]))
  | rc_regex upath text g sh path v re f :
      a_version a = false -> a_usage a = Some upath -> input = Some text ->
      parse text = Ok g -> select_shell a = Some (sh, path) ->
      from_grammar builtins g sh = Ok v -> from_valid_expr (v_expr v) = Err re ->
      compile pick fuel builtins text sh = Err (DRegex re) ->
      diag_trace upath text (v_command v) (DRegex re) f ->
      run_case a input (Ok (f ++ [Exit 1]))
  | rc_raw upath text g sh path v rp ae ws :
      a_version a = false -> a_usage a = Some upath -> input = Some text ->
      parse text = Ok g -> select_shell a = Some (sh, path) ->
      from_grammar builtins g sh = Ok v -> from_valid_expr (v_expr v) = Ok rp ->
      compile pick fuel builtins text sh = Err (DAmb ae) ->
      Forall2 (rendered_as upath text) (wm v) ws ->
      run_case a input (Ok ((ws ++ opt_write (a_regex a) KRegexDot ++ [Stderr (SAmbiguity ae (v_command v))]) ++ [Exit 1]))
  | rc_amb upath text g sh path v rp ae ws :
      a_version a = false -> a_usage a = Some upath -> input = Some text ->
      parse text = Ok g -> select_shell a = Some (sh, path) ->
      from_grammar builtins g sh = Ok v -> from_valid_expr (v_expr v) = Ok rp ->
      compile pick fuel builtins text sh = Err (DAmb ae) ->
      Forall2 (rendered_as upath text) (wm v) ws ->
      run_case a input (Ok ((ws ++ (opt_write (a_regex a) KRegexDot ++ opt_write (a_dfa a) KDfaDot)
                                ++ [Stderr (SAmbiguity ae (v_command v))]) ++ [Exit 1]))
  | rc_ok upath text g sh path v rp c k ws :
      a_version a = false -> a_usage a = Some upath -> input = Some text ->
      parse text = Ok g -> select_shell a = Some (sh, path) ->
      from_grammar builtins g sh = Ok v -> from_valid_expr (v_expr v) = Ok rp ->
      compile pick fuel builtins text sh = Ok (v, c) ->
      script_content o sh v c = Ok k ->
      Forall2 (rendered_as upath text) (wm v) ws ->
      run_case a input (Ok ((ws ++ (opt_write (a_regex a) KRegexDot ++ opt_write (a_dfa a) KDfaDot)
                                ++ [Write (dest_of path) (KScript k)] ++ zsh_warning sh path (v_command v)) ++ [Exit 0]))
  | rc_bad upath text g sh path v c :
      a_version a = false -> a_usage a = Some upath -> input = Some text ->
      parse text = Ok g -> select_shell a = Some (sh, path) ->
      from_grammar builtins g sh = Ok v ->
      compile pick fuel builtins text sh = Ok (v, c) ->
      script_content o sh v c = Err BadOracle ->
      run_case a input (Err BadOracle).

  (** the warnings that [wm] selects can be rendered (true of [warning_messages], [DiagPipeline]) *)
  Definition wm_renders (upath text : string) : Prop :=
    forall g sh v, parse text = Ok g -> from_grammar builtins g sh = Ok v -> Forall (renders upath text) (wm v).

  Ltac dead T := exfalso; cbn in T; destruct T as [[? T]|[? T]]; discriminate T.
  Ltac finish C :=
    eapply eq_ind; [eapply C; eauto|cbn [fail_with obind]; f_equal; rewrite <- ?app_assoc; reflexivity].

  Theorem run_with_case a input :
    (forall text sh path, input = Some text -> select_shell a = Some (sh, path) -> fuel_covers fuel builtins text sh) ->
    (forall upath text, a_usage a = Some upath -> input = Some text -> wm_renders upath text) ->
    run_case a input (run_with builtins o version wm a input).
  Proof.
    intros Hfuel Hwm. unfold run_with.
    destruct (a_version a) eqn:Hver; [apply rc_version; assumption|].
    destruct (a_usage a) as [upath|] eqn:Hu; [|apply rc_nousage; assumption].
    destruct input as [text|]; [|eapply rc_noinput; eauto].
    specialize (Hwm upath text eq_refl eq_refl).
    destruct (Props.C05b.parse_total text) as [[g Hg]|[sp Hsp]].
    2:{ rewrite Hsp.
        assert (Hc : forall sh, compile pick fuel builtins text sh = Err (DParse sp)).
        { intro sh. unfold compile. rewrite Hsp. reflexivity. }
        destruct (fail_with_ok upath text "dummy" (DParse sp)) as [f [Hf Hd]].
        - exact (render_errors_total pick fuel builtins upath text Bash _ (Hc Bash)).
        - discriminate.
        - discriminate.
        - rewrite Hf. eapply rc_parse; eauto. }
    rewrite Hg.
    destruct (select_shell a) as [[sh path]|] eqn:Hs; [|eapply rc_shell; eauto].
    specialize (Hfuel text sh path eq_refl eq_refl).
    destruct (Props.C06.C06_checker_total builtins g sh) as [[v Hv]|[ce Hce]].
    2:{ rewrite Hce.
        assert (Hc : compile pick fuel builtins text sh = Err (DCheck ce)).
        { unfold compile. rewrite Hg. cbn [obind]. rewrite Hce. reflexivity. }
        destruct (fail_with_ok upath text "dummy" (DCheck ce)) as [f [Hf Hd]].
        - exact (render_errors_total pick fuel builtins upath text sh _ Hc).
        - discriminate.
        - intros ce' E. inversion E; subst ce'. exact (from_grammar_err_nonempty builtins g sh ce Hce).
        - rewrite Hf. eapply rc_check; eauto. }
    rewrite Hv.
    pose proof (compile_total pick fuel builtins text sh Hfuel) as T.
    pose proof (compile_error_kinds pick fuel builtins text sh) as K.
    pose proof (compile_after_check pick fuel builtins text sh g v Hg Hv) as Hc.
    pose proof (compile_valid_unfold pick fuel v) as Hcv.
    rewrite Hc in T. unfold staged_valid in T, Hc, Hcv.
    destruct (from_valid_expr (v_expr v)) as [[r pl]|re| |] eqn:Hr; try (dead T).
    2:{ cbn [obind] in Hc.
        destruct (fail_with_ok upath text (v_command v) (DRegex re)) as [f [Hf Hd]].
        - exact (render_errors_total pick fuel builtins upath text sh _ Hc).
        - discriminate.
        - discriminate.
        - rewrite Hf. eapply rc_regex; eauto. }
    unfold after_regex.
    destruct (render_all_ok upath text (wm v) (Hwm g sh v Hg Hv)) as [ws [Hws F2]].
    rewrite Hws. cbn [obind]. unfold after_warnings.
    destruct (stage_raw pick fuel r pl) as [[raw subs]|e| |] eqn:Hraw; try (dead T).
    2:{ cbn [obind] in Hc.
        assert (exists ae, e = DAmb ae) as [ae ->].
        { destruct (stage_raw_err _ _ _ _ _ Hraw) as [[x ->]|[x ->]]; [|eauto].
          destruct (K _ Hfuel Hc) as [[? E]|[[? E]|[[? [? E]]|[? E]]]]; discriminate E. }
        finish rc_raw. }
    destruct (minimize raw) as [m|x| |] eqn:Hm; try (dead T).
    destruct (check_ambiguity_best_effort m) as [u|ae| |] eqn:Ha; try (dead T).
    2:{ cbn [obind] in Hc. finish rc_amb. }
    cbn [obind] in Hc.
    assert (Halts : alts_nonempty (v_expr v) = true).
    { destruct (check_tree builtins g sh v Hv) as [_ [_ [_ H]]]. apply H.
      exact (Props.C05b.parse_alts_nonempty text g Hg). }
    destruct (script_content_total sh v (mkcdfa m subs) Halts Hcv) as [[k Hk]|Hk]; rewrite Hk; cbn [obind].
    - finish rc_ok.
    - eapply rc_bad; eauto.
  Qed.
End Cases.

(** *** The dependence of a run on the warnings *)

Section Warnings.
  Variable builtins : shell -> list (string * string).
  Variable o : oracles.
  Variable version : string.

  (** either the run does not reach the warning loops, or it is: the warnings, then a
      continuation that does not depend on them *)
  Lemma run_with_wm a input :
    (exists x, forall wm, run_with builtins o version wm a input = x) \/
    (exists upath text v rest, forall wm,
        run_with builtins o version wm a input
        = (do ws <- render_all upath text (wm v); do r <- rest; Ok (ws ++ r))).
  Proof.
    unfold run_with.
    destruct (a_version a); [left; eexists; reflexivity|].
    destruct (a_usage a) as [upath|]; [|left; eexists; reflexivity].
    destruct input as [text|]; [|left; eexists; reflexivity].
    destruct (parse text) as [g|sp| |]; try (left; eexists; reflexivity).
    destruct (select_shell a) as [[sh path]|]; [|left; eexists; reflexivity].
    destruct (from_grammar builtins g sh) as [v|ce| |]; try (left; eexists; reflexivity).
    destruct (from_valid_expr (v_expr v)) as [[r pl]|re| |]; try (left; eexists; reflexivity).
    right. exists upath, text, v, (after_warnings o a upath text sh path v r pl).
    intro wm. reflexivity.
  Qed.
End Warnings.
