(** C01, layer (c): grammars whose leaves are literals and within-word expressions made of
    literals.

    [BashSem.run_from Repaired] (the interpreter of the /repo HEAD script, directly -- within-word
    functions included) on the tables computed from the compiled automaton agrees with
    [Spec.Meaning.complete] on the validated tree.  The walk maintains [SubSim.rsim]; a word that
    is not an expected literal is handed to the within-word functions of the state, each of which
    decides [Spec.Meaning.waccepts] of the leaf it stands for ([WordSim.subword_matches_meaning]);
    completion collects, fallback level by fallback level, the literals of the level and what the
    within-word functions of the level offer, which is [Spec.Meaning.wproper]
    ([WordSim.subword_complete_meaning]). *)
From CG Require Import Base.Prelude Model.Ast Model.Dfa Model.Tables Model.Glob Model.BashSem.
From CG Require Import Spec.Lang Spec.Rx Spec.Meaning Spec.Domain Spec.DfaEquiv.
From CG Require Import Proofs.RxFacts Proofs.MeaningFacts Proofs.MeaningLevels Proofs.TreeFacts Proofs.DomainFacts.
From CG Require Import Proofs.TablesSound Proofs.TablesKeys Proofs.TableLookup Proofs.LangBridge Proofs.DfaMeaning
     Proofs.SimGen Proofs.SubBridge Proofs.SubSim Proofs.SubLang Proofs.SubCompiled Proofs.SubTables Proofs.SubTreeFacts
     Proofs.WordTokens Proofs.SubwordMatch Proofs.SubwordComplete Proofs.WordSim Proofs.LevelsFacts
     Proofs.BashMeaningLit Proofs.BashMeaningTop Proofs.SubwordFacts.

(** within-word automata with the same language under the same level are not alternatives at a
    state: their transitions lead to the same state *)
Definition subs_deterministic (c : cdfa) : Prop :=
  forall s k k' l t t', trans_on (c_main c) s (ISub k l) t -> trans_on (c_main c) s (ISub k' l) t' ->
    (forall v, Lang.waccepts (sub_dfa c k) v <-> Lang.waccepts (sub_dfa c k') v) -> t = t'.

(** the literal orders handed to the emitter for the within-word automata are valid *)
Definition sub_orders_ok (c : cdfa) (os : list (N * list (string * string))) : Prop :=
  forall pi sd, nthN (c_subs c) pi = Some sd ->
    NoDup (match assocN pi os with Some o => o | None => [] end)
    /\ valid_literal_order sd (match assocN pi os with Some o => o | None => [] end) = true.

(** *** bash's associative arrays, without assuming distinct keys *)
Lemma replace_val_in {V} k (v : V) l x : In x (replace_val k v l) -> x = (k, v) \/ In x l.
Proof.
  induction l as [| [k' v'] r IH]; cbn [replace_val]; intro H; [destruct H |].
  destruct (N.eqb k k').
  - destruct H as [H | H]; [left; symmetry; exact H | right; right; exact H].
  - destruct H as [H | H]; [right; left; exact H |]. destruct (IH H) as [E | E]; [left; exact E | right; right; exact E].
Qed.

Lemma replace_val_keys {V} k (v : V) l : map fst (replace_val k v l) = map fst l.
Proof.
  induction l as [| [k' v'] r IH]; cbn [replace_val]; [reflexivity |].
  destruct (N.eqb k k') eqn:E; cbn [map fst]; [apply N.eqb_eq in E; subst; reflexivity | rewrite IH; reflexivity].
Qed.

Lemma assoc_of_sub {V} (l : list (N * V)) x : In x (assoc_of l) -> In x l.
Proof.
  unfold assoc_of.
  assert (G : forall (l : list (N * V)) acc, In x (fold_left (fun acc kv => match assocN (fst kv) acc with
                                                      | Some _ => replace_val (fst kv) (snd kv) acc
                                                      | None => bucket_insert (fst kv) (snd kv) acc
                                                      end) l acc) -> In x acc \/ In x l).
  { induction l0 as [| [k v] l0 IH]; intros acc H; cbn [fold_left] in H; [left; exact H |]. cbn [fst snd] in H.
    destruct (IH _ H) as [H1 | H1]; [| right; right; exact H1].
    destruct (assocN k acc).
    - apply replace_val_in in H1. destruct H1 as [E | H1]; [right; left; symmetry; exact E | left; exact H1].
    - apply bucket_insert_in in H1. destruct H1 as [E | H1]; [right; left; symmetry; exact E | left; exact H1]. }
  intro H. destruct (G l [] H) as [[] | H1]. exact H1.
Qed.

Lemma assoc_of_keys {V} (l : list (N * V)) k : In k (map fst l) -> In k (map fst (assoc_of l)).
Proof.
  unfold assoc_of.
  assert (G : forall (l : list (N * V)) acc, In k (map fst acc) \/ In k (map fst l) ->
              In k (map fst (fold_left (fun acc kv => match assocN (fst kv) acc with
                                                      | Some _ => replace_val (fst kv) (snd kv) acc
                                                      | None => bucket_insert (fst kv) (snd kv) acc
                                                      end) l acc))).
  { induction l0 as [| [k0 v0] l0 IH]; intros acc H; cbn [fold_left]; [destruct H as [H | []]; exact H |]. cbn [fst snd].
    apply IH. destruct H as [H | [H | H]]; [| | right; exact H].
    - left. destruct (assocN k0 acc); [rewrite replace_val_keys; exact H |].
      apply in_map_iff in H. destruct H as [[k1 v1] [E H]]. apply in_map_iff. exists (k1, v1). split; [exact E | apply bucket_insert_in; right; exact H].
    - cbn [fst] in H. subst k0. left. destruct (assocN k acc) eqn:Ea.
      + rewrite replace_val_keys. apply assocN_in in Ea. apply in_map_iff. exists (k, v). split; [reflexivity | exact Ea].
      + apply in_map_iff. exists (k, v0). split; [reflexivity | apply bucket_insert_in; left; reflexivity]. }
  intro H. apply G. right; exact H.
Qed.

(** *** the loops over the within-word functions of a state *)
Section SubLoops.
  Variables (a : alltables) (benv : BashSem.env).

  Lemma top_sub_loop_spec w : forall L log,
    (forall sid to, In (sid, to) L -> exists T b, subword_tables (a_subwords a) sid = Some T
        /\ forall log', subword_matches Repaired a benv T (BashSem.sub_accepting a sid) w log' = Ok (b, log')) ->
    exists r, top_sub_loop Repaired a benv L w log = Ok (r, log)
      /\ match r with
         | Some to => exists sid T, In (sid, to) L /\ subword_tables (a_subwords a) sid = Some T
                                    /\ forall log', subword_matches Repaired a benv T (BashSem.sub_accepting a sid) w log' = Ok (true, log')
         | None => forall sid to, In (sid, to) L -> exists T, subword_tables (a_subwords a) sid = Some T
                                    /\ forall log', subword_matches Repaired a benv T (BashSem.sub_accepting a sid) w log' = Ok (false, log')
         end.
  Proof.
    induction L as [| [sid to] L IH]; intros log H; cbn [top_sub_loop].
    - exists None. split; [reflexivity | intros sid to []].
    - destruct (H sid to (or_introl eq_refl)) as [T [b [HT Hm]]]. rewrite HT, (Hm log). cbn [obind].
      destruct b.
      + exists (Some to). split; [reflexivity |]. exists sid, T. split; [left; reflexivity | split; assumption].
      + destruct (IH log) as [r [Hr Hspec]]; [intros sid' to' Hin; apply (H sid' to'); right; exact Hin |].
        exists r. split; [exact Hr |]. destruct r as [to' |].
        * destruct Hspec as [sid' [T' [Hin Hrest]]]. exists sid', T'. split; [right; exact Hin | exact Hrest].
        * intros sid' to' [E | Hin]; [inversion E; subst; exists T; split; assumption | apply (Hspec sid' to' Hin)].
  Qed.

  Lemma top_subs_level_spec p : forall sids matches log,
    (forall sid, In sid sids -> exists T reply, subword_tables (a_subwords a) sid = Some T
        /\ forall log', subword_complete Repaired a benv T p log' = Ok (reply, log')) ->
    exists adds, top_subs_level Repaired a benv sids p matches log = Ok (matches ++ adds, log)
      /\ forall o, In o adds <-> exists sid T reply, In sid sids /\ subword_tables (a_subwords a) sid = Some T
                                   /\ (forall log', subword_complete Repaired a benv T p log' = Ok (reply, log')) /\ In o reply.
  Proof.
    induction sids as [| sid sids IH]; intros matches log H; cbn [top_subs_level].
    - exists []. rewrite app_nil_r. split; [reflexivity |]. intro o. split; [intros [] | intros [sid [T [reply [[] _]]]]].
    - destruct (H sid (or_introl eq_refl)) as [T [reply [HT Hc]]]. rewrite HT, (Hc log). cbn [obind].
      destruct (IH (matches ++ reply) log) as [adds [Hr Hspec]]; [intros sid' Hin; apply (H sid'); right; exact Hin |].
      exists (reply ++ adds). rewrite app_assoc. split; [exact Hr |].
      intro o. rewrite in_app_iff, Hspec. split.
      + intros [Hin | [sid' [T' [reply' [Hin Hrest]]]]].
        * exists sid, T, reply. split; [left; reflexivity | split; [exact HT | split; [exact Hc | exact Hin]]].
        * exists sid', T', reply'. split; [right; exact Hin | exact Hrest].
      + intros [sid' [T' [reply' [[E | Hin] [HT' [Hc' Ho]]]]]].
        * subst sid'. rewrite HT in HT'. inversion HT'; subst T'. pose proof (Hc []) as E1. rewrite (Hc' []) in E1. inversion E1; subst reply'.
          left; exact Ho.
        * right. exists sid', T', reply'. split; [exact Hin | split; [exact HT' | split; [exact Hc' | exact Ho]]].
  Qed.
End SubLoops.

Lemma waccepts_lang_eq en x0 x1 w :
  lit_word x0 -> lit_word x1 -> (forall v, wlangI x0 v <-> wlangI x1 v) -> waccepts en x0 w = waccepts en x1 w.
Proof.
  intros L0 L1 H.
  assert (E : waccepts en x0 w = true <-> waccepts en x1 w = true).
  { rewrite (waccepts_tokens en x0 w L0), (waccepts_tokens en x1 w L1).
    split; intros [ls [Hd Hw]]; exists ls; (split; [apply (wlangI_denotes _ _ H ls); exact Hd | exact Hw]). }
  destruct (waccepts en x0 w), (waccepts en x1 w); try reflexivity; [symmetry; apply E; reflexivity | apply E; reflexivity].
Qed.

Lemma Forall2_in_r {A B} (R : A -> B -> Prop) l l' y : Forall2 R l l' -> In y l' -> exists x, In x l /\ R x y.
Proof.
  induction 1 as [| x0 y0 l l' Hr _ IH]; intro Hin; [destruct Hin |].
  destruct Hin as [<- | Hin]; [exists x0; split; [left; reflexivity | exact Hr] |].
  destruct (IH Hin) as [x [Hx Hxy]]. exists x. split; [right; exact Hx | exact Hxy].
Qed.

Lemma Forall2_in_l {A B} (R : A -> B -> Prop) l l' x : Forall2 R l l' -> In x l -> exists y, In y l' /\ R x y.
Proof.
  induction 1 as [| x0 y0 l l' Hr _ IH]; intro Hin; [destruct Hin |].
  destruct Hin as [<- | Hin]; [exists y0; split; [left; reflexivity | exact Hr] |].
  destruct (IH Hin) as [y [Hy Hxy]]. exists y. split; [right; exact Hy | exact Hxy].
Qed.

Section Sub.
  Variables (c : cdfa) (e : expr) (om : list (string * string)) (os : list (N * list (string * string)))
            (nd : needs) (a : alltables).
  Variables (benv : BashSem.env) (en : Meaning.env) (p : string).
  Hypothesis Hsub : subw_tree e = true.
  Hypothesis Hne : alts_nonempty e = true.
  Hypothesis HL : forall w, accepts_items c w <-> Lang.denotes e w.
  Hypothesis Hwf : dfa_wf (c_main c).
  Hypothesis Hinp : NoDup (d_inputs (c_main c)).
  Hypothesis Htrim : trim (c_main c).
  Hypothesis Hall : all_tables Bash c om os = Ok (nd, a).
  Hypothesis Hord : NoDup om.
  Hypothesis Hvalid : valid_literal_order (c_main c) om = true.
  Hypothesis Hdom : C01_domain e = true.
  Hypothesis Hsubs : forall k l, In (ISub k l) (d_inputs (c_main c)) ->
                                 exists sd, nth_error (c_subs c) (N.to_nat k) = Some sd /\ sub_ok sd.
  Hypothesis Hcanon : subs_deterministic c.
  Hypothesis Hsords : sub_orders_ok c os.
  Hypothesis Hic : e_ignore_case benv = false.
  Hypothesis Hpr : printable_str p = true.
  Hypothesis Hstrip : forall ms, (forall m, In m ms -> String.prefix p m = true) ->
                                 strip_reply benv p ms = Ok (map (Meaning.strip (Meaning.e_wordbreaks en) p) ms).

  Notation d := (c_main c).
  Notation T := (a_main a).

  Lemma Hglt' : get_lookup_tables d (a_commands a) 0 (n_top_cmd nd) false (n_top_star nd) om = Ok T.
  Proof. destruct (all_tables_inv _ _ _ _ _ _ Hall) as [rt F]. exact (af_main _ _ _ _ _ _ _ F). Qed.

  Lemma lrel_det' : forall s a0 x x' t t', lrel c a0 x -> lrel c a0 x' -> trans_on d s x t -> trans_on d s x' t' -> t = t'.
  Proof.
    intros s a0 x x' t t' H1 H2 T1 T2. destruct (plain_leaf a0) eqn:Hp.
    - apply (lrel_plain c a0 x Hp) in H1. apply (lrel_plain c a0 x' Hp) in H2. subst x x'.
      destruct T1 as [i [Hs1 Hn1]]. destruct T2 as [j [Hs2 Hn2]].
      rewrite (nthN_inj d Hinp i j _ Hn1 Hn2) in Hs1. rewrite Hs1 in Hs2. inversion Hs2. reflexivity.
    - destruct a0 as [| | | x0 l]; cbn in Hp; try discriminate.
      apply lrel_sub in H1. apply lrel_sub in H2. destruct H1 as [k [-> E1]]. destruct H2 as [k' [-> E2]].
      apply (Hcanon s k k' l t t' T1 T2). intro v. rewrite E1, E2. reflexivity.
  Qed.

  Record rel (s : N) (S : state) : Prop := {
    rel_sim : rsim c s S;
    rel_z : forall k, In k S -> zero_free k = true;
    rel_leaves : forall k, In k S -> forall a0, In a0 (leaves k) -> In a0 (leaves (tr e));
    rel_reach : reach same_item (start e) S;
    rel_co : coreachable d s
  }.

  Lemma rel_start : rel (d_start d) (start e).
  Proof.
    constructor.
    - apply rsim_start; [apply subw_sub_tree; exact Hsub | exact HL].
    - intros k [<- | []]. apply zero_free_tr_sub; assumption.
    - intros k [<- | []] a0 Ha. exact Ha.
    - apply reach_here. intro k. reflexivity.
    - destruct Htrim as [_ Hco]. apply Hco. unfold states. apply nodup_In. left; reflexivity.
  Qed.

  Lemma targets_co' s i t : Dfa.step d s i = Some t -> coreachable d t.
  Proof. intro H. destruct Htrim as [_ Hco]. apply Hco. apply (step_in_states d s i t H). Qed.

  Lemma rel_nonempty s S : rel s S -> S <> [].
  Proof.
    intros R E. destruct (rel_co _ _ R) as [w Hw].
    destruct (accepted_has_inputs d Hwf w s Hw) as [xs [Hd _]].
    apply (proj1 (rel_sim _ _ R)) in Hd. destruct Hd as [k [_ [Hk _]]]. rewrite E in Hk. destruct Hk.
  Qed.

  (** what is known about an item expected at a related point *)
  Lemma move_facts s S a0 k : rel s S -> In (a0, k) (moves S) ->
    sl_leaf a0 /\ In a0 (leaves (tr e)) /\ zero_free k = true /\ (forall b, In b (leaves k) -> In b (leaves (tr e))).
  Proof.
    intros R Hin. apply moves_In in Hin. destruct Hin as [r [Hr Hlf]].
    destruct (lf_leaves r a0 k Hlf) as [Ha Hk].
    assert (Hl : In a0 (leaves (tr e))) by (apply (rel_leaves _ _ R r Hr); exact Ha).
    split; [apply (subw_tree_leaves e Hsub Hne a0 Hl) | split; [exact Hl | split]].
    - eapply zero_free_lf; [apply (rel_z _ _ R r Hr) | exact Hlf].
    - intros b Hb. apply (rel_leaves _ _ R r Hr). apply Hk. exact Hb.
  Qed.

  (** a within-word leaf of the tree: its pieces are non-empty literals, in the decided domain *)
  Lemma sub_word_facts x0 l : In (LSub x0 l) (leaves (tr e)) -> lit_word x0 /\ zero_free x0 = true /\ word_in_domain x0.
  Proof.
    intro Hl. destruct (subw_tree_leaves e Hsub Hne _ Hl) as [Hlits Hz].
    assert (Hd : word_in_domain x0).
    { destruct (C01_domain_sound e Hdom) as [Hw _]. apply Hw. unfold subwords_of. apply in_flat_map.
      exists (LSub x0 l). split; [exact Hl | left; reflexivity]. }
    split; [| split; assumption].
    intros b Hb. destruct (Hlits b Hb) as [t [d0 [l0 ->]]]. exists t, d0, l0. split; [reflexivity |].
    destruct Hd as [Hnonempty _]. apply Hnonempty. unfold wlit_texts. apply in_flat_map. exists (WLit t d0 l0). split; [exact Hb | left; reflexivity].
  Qed.

  (** *** transitions and items *)
  Lemma trans_item s S x t : rel s S -> trans_on d s x t -> exists a0 k, In (a0, k) (moves S) /\ lrel c a0 x.
  Proof. intros R Htr. apply (rsim_trans c Hwf s S x t (rel_sim _ _ R)); [intros i t'; apply targets_co' | exact Htr]. Qed.

  Lemma item_trans s S a0 k : rel s S -> In (a0, k) (moves S) -> exists x t, lrel c a0 x /\ trans_on d s x t.
  Proof. intros R Hin. apply (rsim_item c s S a0 k (rel_sim _ _ R) (rel_z _ _ R) Hin). Qed.

  Lemma trans_lit_item s S w dso l t : rel s S -> trans_on d s (ILit w dso l) t -> exists k, In (LLit w dso l, k) (moves S).
  Proof.
    intros R Htr. destruct (trans_item s S _ t R Htr) as [a0 [k [Hin Hl]]].
    destruct (move_facts s S a0 k R Hin) as [Hs _]. destruct a0 as [t0 d0 l0 | | | x0 l0]; cbn in Hs; try contradiction.
    apply (lrel_plain c (LLit t0 d0 l0) _ eq_refl) in Hl. cbn in Hl. inversion Hl; subst. exists k. exact Hin.
  Qed.

  Lemma item_lit_trans s S w dso l k : rel s S -> In (LLit w dso l, k) (moves S) -> exists t, trans_on d s (ILit w dso l) t.
  Proof.
    intros R Hin. destruct (item_trans s S _ k R Hin) as [x [t [Hl Htr]]].
    apply (lrel_plain c (LLit w dso l) _ eq_refl) in Hl. cbn in Hl. subst x. exists t. exact Htr.
  Qed.

  Lemma trans_sub_item s S pi l t : rel s S -> trans_on d s (ISub pi l) t ->
    exists x0 k, In (LSub x0 l, k) (moves S) /\ lrel c (LSub x0 l) (ISub pi l).
  Proof.
    intros R Htr. destruct (trans_item s S _ t R Htr) as [a0 [k [Hin Hl]]].
    destruct (move_facts s S a0 k R Hin) as [Hs _]. destruct a0 as [t0 d0 l0 | | | x0 l0]; cbn in Hs; try contradiction.
    pose proof Hl as Hl'. apply lrel_sub in Hl'. destruct Hl' as [k' [E _]]. inversion E; subst. exists x0, k. split; assumption.
  Qed.

  Lemma item_sub_trans s S x0 l k : rel s S -> In (LSub x0 l, k) (moves S) ->
    exists pi t, lrel c (LSub x0 l) (ISub pi l) /\ trans_on d s (ISub pi l) t.
  Proof.
    intros R Hin. destruct (item_trans s S _ k R Hin) as [x [t [Hl Htr]]].
    pose proof Hl as Hl'. apply lrel_sub in Hl'. destruct Hl' as [pi [-> _]]. exists pi, t. split; assumption.
  Qed.

  Lemma same_label s S w d1 l1 k1 d2 l2 k2 :
    rel s S -> In (LLit w d1 l1, k1) (moves S) -> In (LLit w d2 l2, k2) (moves S) -> d1 = d2 /\ l1 = l2.
  Proof.
    intros R H1 H2. destruct (C01_domain_sound e Hdom) as [_ Hp].
    destruct (Hp S (rel_reach _ _ R)) as [P1 _]. apply (P1 w d1 l1 d2 l2 k1 k2); assumption.
  Qed.

  (** *** the within-word function of a transition decides the leaf it stands for *)
  Lemma sub_match s S pi l t x0 k0 :
    rel s S -> trans_on d s (ISub pi l) t -> In (LSub x0 l, k0) (moves S) -> lrel c (LSub x0 l) (ISub pi l) ->
    exists id Tw,
      script_id (a_subwords a) pi = Some id
      /\ subword_tables (a_subwords a) id = Some Tw
      /\ (forall pi', script_id (a_subwords a) pi' = Some id -> pi' = pi)
      /\ (forall rt, rtrans d = Ok rt -> assocN pi (get_subwords rt 0) = Some id)
      /\ (forall w log, subword_matches Repaired a benv Tw (BashSem.sub_accepting a id) w log = Ok (waccepts en x0 w, log))
      /\ (exists reply, (forall log, subword_complete Repaired a benv Tw p log = Ok (reply, log))
                        /\ forall o, In o reply <-> In o (wproper en x0 p)).
  Proof.
    intros R Htr Hin Hl.
    destruct (sub_entry c om os nd a Hwf Hall s pi l t Htr) as [id [sd [Tw [Hid [HT [Hsd [Hglt [Hacc [Hinj Hids]]]]]]]]].
    exists id, Tw. split; [exact Hid | split; [exact HT | split; [exact Hinj | split; [exact Hids |]]]].
    assert (Hinput : In (ISub pi l) (d_inputs d)).
    { destruct Htr as [i [_ Hn]]. unfold nthN in Hn. eapply nth_error_In. exact Hn. }
    destruct (Hsubs pi l Hinput) as [sd' [Hsd' Hok]].
    assert (sd' = sd) by (unfold nthN in Hsd; rewrite Hsd' in Hsd; inversion Hsd; reflexivity). subst sd'.
    assert (Esub : sub_dfa c pi = sd) by (unfold sub_dfa; apply nth_error_nth; exact Hsd').
    apply lrel_sub in Hl. destruct Hl as [pi' [E Hlang]]. inversion E; subst pi'. rewrite Esub in Hlang.
    destruct (move_facts s S _ k0 R Hin) as [_ [Hleaf _]].
    destruct (sub_word_facts x0 l Hleaf) as [Hlw [Hz Hwd]].
    destruct (Hsords pi sd Hsd) as [Hordw Hvalidw].
    pose proof (sub_gsim sd x0 (so_plain sd Hok) Hlang) as Hsim0.
    rewrite Hacc. split.
    - intros w log.
      apply (subword_matches_meaning sd (a_commands a) (n_sub_cmd nd) false (n_sub_star nd) _ Tw x0
               (so_wf sd Hok) (so_inputs sd Hok) (so_trim sd Hok) Hglt Hordw Hvalidw Hsim0 Hlw Hz Hwd a benv en w log (so_start sd Hok)).
    - apply (subword_complete_meaning sd (a_commands a) (n_sub_cmd nd) false (n_sub_star nd) _ Tw x0
               (so_wf sd Hok) (so_inputs sd Hok) (so_trim sd Hok) Hglt Hordw Hvalidw Hsim0 Hlw Hz Hwd a benv en p (so_start sd Hok) Hic Hpr).
  Qed.

  (** *** reading one word *)
  Lemma step_when_lit S w : lit_expected (moves S) w ->
    forall k, In k (step en S w) <-> exists d0 l0, In (LLit w d0 l0, k) (moves S).
  Proof.
    intros Hle k. rewrite step_spec. split.
    - intros [a0 [Hin Hc]]. destruct a0 as [t0 d0 l0 | cm l0 | | x0 l0]; cbn [chosen] in Hc.
      + subst t0. eauto.
      + destruct Hc as [_ Hn]. contradiction.
      + destruct Hc as [Hn _]. contradiction.
      + destruct Hc as [_ Hn]. contradiction.
    - intros [d0 [l0 Hin]]. exists (LLit w d0 l0). split; [exact Hin | reflexivity].
  Qed.

  (** the bookkeeping part of [rel] after reading a word *)
  Lemma rel_after s S w i t x :
    rel s S -> ambiguous_step en S w = false -> step en S w <> [] ->
    Dfa.step d s i = Some t -> nthN (d_inputs d) i = Some x ->
    (forall k, In k (step en S w) <-> exists a0, In (a0, k) (mvs S) /\ lrel c a0 x) ->
    rel t (step en S w).
  Proof.
    intros R Hamb Hne' Hs Hn HS'. constructor.
    - apply (rsim_step c lrel_det' s S i t x (step en S w) (rel_sim _ _ R) Hs Hn HS').
    - intros k Hk. apply HS' in Hk. destruct Hk as [a0 [Hin _]]. apply (move_facts s S a0 k R Hin).
    - intros k Hk. apply HS' in Hk. destruct Hk as [a0 [Hin _]]. apply (move_facts s S a0 k R Hin).
    - destruct (step_istep en S w Hamb Hne') as [a' [Ha' Hi]].
      eapply reach_next; [apply (rel_reach _ _ R) | exact Ha' | exact Hi].
    - apply (targets_co' s i t Hs).
  Qed.

  Lemma ambiguous_step_when_lit S w : lit_expected (moves S) w -> ambiguous_step en S w = false.
  Proof.
    intro Hle. unfold ambiguous_step. destruct (lit_next w (moves S)) eqn:E; [| reflexivity].
    exfalso. apply (proj1 (lit_next_nil w (moves S)) E). exact Hle.
  Qed.

  Lemma rel_trans_lit s S w dso lvl t :
    rel s S -> trans_on d s (ILit w dso lvl) t -> rel t (step en S w) /\ step en S w <> [].
  Proof.
    intros R Htr. destruct (trans_lit_item s S w dso lvl t R Htr) as [k0 Hin0].
    assert (Hle : lit_expected (moves S) w) by (exists dso, lvl, k0; exact Hin0).
    assert (Hk0 : In k0 (step en S w)) by (apply (step_when_lit S w Hle); eauto).
    assert (Hne' : step en S w <> []) by (intro E0; rewrite E0 in Hk0; destruct Hk0).
    split; [| exact Hne']. destruct Htr as [i [Hs Hn]].
    apply (rel_after s S w i t (ILit w dso lvl) R (ambiguous_step_when_lit S w Hle) Hne' Hs Hn).
    intro k. rewrite (step_when_lit S w Hle). split.
    - intros [d' [l' Hin]]. exists (LLit w d' l'). split; [exact Hin |].
      destruct (same_label s S w d' l' k dso lvl k0 R Hin Hin0) as [-> ->]. apply (lrel_plain c (LLit w dso lvl) _ eq_refl). reflexivity.
    - intros [a' [Hin Ha]]. destruct (move_facts s S a' k R Hin) as [Hsl _].
      destruct a' as [t0 d0 l0 | | | x0 l0]; cbn in Hsl; try contradiction.
      apply (lrel_plain c (LLit t0 d0 l0) _ eq_refl) in Ha. cbn in Ha. inversion Ha; subst. eauto.
  Qed.

  (** the literal part of the walk *)
  Lemma walk_lit s S w : rel s S ->
    match lit_lookup T s w with
    | Some t => rel t (step en S w) /\ step en S w <> []
    | None => ~ lit_expected (moves S) w
    end.
  Proof.
    intro R. destruct (lit_lookup T s w) as [t |] eqn:El.
    - destruct (lit_lookup_sound d (a_commands a) _ _ _ om T Hwf Hord Hglt' s w t El) as [dso [lvl Htr]].
      apply (rel_trans_lit s S w dso lvl t R Htr).
    - intros [d' [l' [k Hin]]]. destruct (item_lit_trans s S w d' l' k R Hin) as [t Htr].
      destruct (lit_lookup_complete d (a_commands a) _ _ _ om T Hwf Hord Hglt' s w d' l' t Hvalid Htr) as [to' E].
      rewrite El in E. discriminate.
  Qed.

  (** at most one within-word leaf accepts a word that is read without ambiguity *)
  Lemma accepting_unique S w a1 k1 a2 k2 :
    ~ lit_expected (moves S) w -> ambiguous_step en S w = false ->
    In (a1, k1) (moves S) -> mid_accepts en a1 w = true -> In (a2, k2) (moves S) -> mid_accepts en a2 w = true -> a1 = a2.
  Proof.
    intros Hnl Hamb H1 A1 H2 A2. unfold ambiguous_step in Hamb.
    rewrite (proj2 (lit_next_nil w (moves S)) Hnl) in Hamb.
    set (l := map fst (filter (fun ak => mid_accepts en (fst ak) w) (moves S))) in Hamb.
    assert (I1 : In a1 l) by (apply in_map_iff; exists (a1, k1); split; [reflexivity | apply filter_In; split; assumption]).
    assert (I2 : In a2 l) by (apply in_map_iff; exists (a2, k2); split; [reflexivity | apply filter_In; split; assumption]).
    destruct (dedup_leaf_rep l a1 I1) as [b1 [J1 E1]]. destruct (dedup_leaf_rep l a2 I2) as [b2 [J2 E2]]. subst b1 b2.
    destruct (dedup_leaf l) as [| y [| z r]]; [destruct J1 | | discriminate].
    destruct J1 as [<- | []]. destruct J2 as [<- | []]. reflexivity.
  Qed.

  Lemma sub_step s S w pi lvl to x0 k0 :
    rel s S -> ~ lit_expected (moves S) w -> ambiguous_step en S w = false ->
    trans_on d s (ISub pi lvl) to -> In (LSub x0 lvl, k0) (moves S) -> lrel c (LSub x0 lvl) (ISub pi lvl) ->
    waccepts en x0 w = true ->
    rel to (step en S w) /\ step en S w <> [].
  Proof.
    intros R Hnl Hamb Htr Hin0 Hl0 Hacc.
    assert (Hstep : forall k, In k (step en S w) <-> In (LSub x0 lvl, k) (moves S)).
    { intro k. rewrite step_spec. split.
      - intros [a0 [Hin Hc]]. destruct (move_facts s S a0 k R Hin) as [Hsl _].
        destruct a0 as [t0 d0 l0 | | | x1 l1]; cbn in Hsl; try contradiction; cbn [chosen] in Hc.
        + exfalso. apply Hnl. subst t0. exists d0, l0, k. exact Hin.
        + destruct Hc as [Hc _]. rewrite (accepting_unique S w _ _ _ _ Hnl Hamb Hin0 Hacc Hin Hc). exact Hin.
      - intro Hin. exists (LSub x0 lvl). split; [exact Hin |]. cbn [chosen mid_accepts]. split; [exact Hacc | exact Hnl]. }
    assert (Hk0 : In k0 (step en S w)) by (apply Hstep; exact Hin0).
    assert (Hne' : step en S w <> []) by (intro E0; rewrite E0 in Hk0; destruct Hk0).
    split; [| exact Hne']. pose proof Htr as [i [Hs Hn]].
    apply (rel_after s S w i to (ISub pi lvl) R Hamb Hne' Hs Hn).
    intro k. rewrite Hstep. split.
    - intro Hin. exists (LSub x0 lvl). split; [exact Hin | exact Hl0].
    - intros [a' [Hin Ha]]. destruct (move_facts s S a' k R Hin) as [Hsl [Hleaf _]].
      destruct a' as [t0 d0 l0 | | | x1 l1]; cbn in Hsl; try contradiction.
      pose proof Ha as Ha'. apply lrel_sub in Ha'. destruct Ha' as [pi' [E E1]]. inversion E; subst pi' l1.
        pose proof Hl0 as Hl0'. apply lrel_sub in Hl0'. destruct Hl0' as [pi' [E' E0]]. inversion E'; subst pi'.
        destruct (move_facts s S _ k0 R Hin0) as [_ [Hleaf0 _]].
        destruct (sub_word_facts x0 lvl Hleaf0) as [Hlw0 _]. destruct (sub_word_facts x1 lvl Hleaf) as [Hlw1 _].
        assert (Hacc1 : waccepts en x1 w = true).
        { rewrite <- (waccepts_lang_eq en x0 x1 w Hlw0 Hlw1); [exact Hacc |]. intro v. rewrite <- E0, E1. reflexivity. }
        rewrite (accepting_unique S w _ _ _ _ Hnl Hamb Hin0 Hacc Hin Hacc1). exact Hin.
  Qed.

  (** *** nothing but literals and within-word items leaves a related state *)
  Lemma trans_class s S x t : rel s S -> trans_on d s x t -> (exists w dso l, x = ILit w dso l) \/ (exists pi l, x = ISub pi l).
  Proof.
    intros R Htr. destruct (trans_item s S x t R Htr) as [a0 [k [Hin Hl]]].
    destruct (move_facts s S a0 k R Hin) as [Hsl _].
    destruct a0 as [t0 d0 l0 | | | x1 l1]; cbn in Hsl; try contradiction.
    - apply (lrel_plain c (LLit t0 d0 l0) _ eq_refl) in Hl. cbn in Hl. left. eauto.
    - apply lrel_sub in Hl. destruct Hl as [pi [-> _]]. right. eauto.
  Qed.

  Lemma mcmd_none s S ct : rel s S -> t_mcmd T = Some ct -> assocN s ct = None.
  Proof.
    intros R Hct. destruct (assocN s ct) as [row |] eqn:Ea; [exfalso | reflexivity].
    apply assocN_in in Ea. destruct (glt_inv _ _ _ _ _ _ _ _ Hglt') as [rt F].
    destruct (gf_mcmd _ _ _ _ _ _ _ _ _ F) as [[_ [m [Hm Em]]] | [_ Em]]; rewrite Em in Hct; [| discriminate]. inversion Hct; subst m.
    destruct (proj1 (match_table_rows _ _ _ _ Hm s row) Ea) as [_ [Hrow _]].
    destruct row as [| [cid to] row']; [apply Hrow; reflexivity |].
    assert (Hh : tbl_has ct s cid to) by (exists ((cid, to) :: row'); split; [exact Ea | left; reflexivity]).
    destruct (mcmd_sound d (a_commands a) 0 _ _ _ om T Hwf Hglt' ct s cid to Em Hh) as [cm [l [Htr _]]].
    destruct (trans_class s S _ to R Htr) as [[w' [d' [l' E]]] | [pi [l' E]]]; discriminate.
  Qed.

  Lemma mstar_none s S : rel s S -> (match t_mstar T with Some stars => assocN s stars | None => None end) = None.
  Proof.
    intro R. destruct (t_mstar T) as [stars |] eqn:Est; [| reflexivity].
    destruct (assocN s stars) as [to |] eqn:Ea; [exfalso | reflexivity].
    apply assocN_in in Ea. apply (mstar_exact d (a_commands a) 0 _ _ _ om T Hwf Hglt' stars s to Est) in Ea.
    destruct (trans_class s S _ to R Ea) as [[w' [d' [l' E]]] | [pi [l' E]]]; discriminate.
  Qed.

  (** *** the within-word part of the walk *)
  Lemma row_entry s S row pi to : rel s S -> assocN s (a_subtrans a) = Some row -> In (pi, to) row ->
    exists lvl x0 k0, trans_on d s (ISub pi lvl) to /\ In (LSub x0 lvl, k0) (moves S) /\ lrel c (LSub x0 lvl) (ISub pi lvl).
  Proof.
    intros R Hrow Hin. apply (subtrans_row c om os nd a Hwf Hall s row Hrow pi to) in Hin. destruct Hin as [lvl Htr].
    destruct (trans_sub_item s S pi lvl to R Htr) as [x0 [k0 [Hmv Hl]]]. exists lvl, x0, k0. split; [exact Htr | split; assumption].
  Qed.

  Lemma step_nil_intro S w : (forall k, ~ In k (step en S w)) -> step en S w = [].
  Proof. intro H. destruct (step en S w) as [| k r]; [reflexivity | exfalso; apply (H k); left; reflexivity]. Qed.

  Lemma walk_sub s S w log : rel s S -> ~ lit_expected (moves S) w -> ambiguous_step en S w = false ->
    exists r, (match assocN s (a_subtrans a) with
               | Some row => do srow <- sub_row (a_subwords a) row; top_sub_loop Repaired a benv (assoc_of srow) w log
               | None => Ok (None, log)
               end) = Ok (r, log)
              /\ match r with
                 | Some to => rel to (step en S w) /\ step en S w <> []
                 | None => step en S w = []
                 end.
  Proof.
    intros R Hnl Hamb. destruct (assocN s (a_subtrans a)) as [row |] eqn:Erow.
    - destruct (sub_row_spec (a_subwords a) row) as [srow [Hsrow Hf]].
      { intros pi to Hin. destruct (row_entry s S row pi to R Erow Hin) as [lvl [x0 [k0 [Htr [Hmv Hl]]]]].
        destruct (sub_match s S pi lvl to x0 k0 R Htr Hmv Hl) as [id [Tw [Hid _]]]. exists id. exact Hid. }
      rewrite Hsrow. cbn [obind].
      assert (Hentry : forall sid to, In (sid, to) (assoc_of srow) ->
                 exists pi lvl x0 k0 Tw, trans_on d s (ISub pi lvl) to /\ In (LSub x0 lvl, k0) (moves S) /\ lrel c (LSub x0 lvl) (ISub pi lvl)
                   /\ subword_tables (a_subwords a) sid = Some Tw
                   /\ forall log', subword_matches Repaired a benv Tw (BashSem.sub_accepting a sid) w log' = Ok (waccepts en x0 w, log')).
      { intros sid to Hin. apply assoc_of_sub in Hin. destruct (Forall2_in_r _ _ _ _ Hf Hin) as [[pi to'] [Hrow [Eto Hsid]]].
        cbn [fst snd] in Eto, Hsid. subst to'.
        destruct (row_entry s S row pi to R Erow Hrow) as [lvl [x0 [k0 [Htr [Hmv Hl]]]]].
        destruct (sub_match s S pi lvl to x0 k0 R Htr Hmv Hl) as [id [Tw [Hid [HT [_ [_ [Hm _]]]]]]].
        rewrite Hsid in Hid. inversion Hid; subst id. exists pi, lvl, x0, k0, Tw. split; [exact Htr | split; [exact Hmv | split; [exact Hl | split; [exact HT | intro log'; apply Hm]]]]. }
      destruct (top_sub_loop_spec a benv w (assoc_of srow) log) as [r [Hr Hspec]].
      { intros sid to Hin. destruct (Hentry sid to Hin) as [pi [lvl [x0 [k0 [Tw [_ [_ [_ [HT Hm]]]]]]]]]. exists Tw, (waccepts en x0 w). split; assumption. }
      exists r. split; [exact Hr |]. destruct r as [to |].
      + destruct Hspec as [sid [Tw' [Hin [HT' Hm']]]].
        destruct (Hentry sid to Hin) as [pi [lvl [x0 [k0 [Tw [Htr [Hmv [Hl [HT Hm]]]]]]]]].
        rewrite HT in HT'. inversion HT'; subst Tw'.
        assert (Hacc : waccepts en x0 w = true).
        { pose proof (Hm []) as E1. rewrite (Hm' []) in E1. inversion E1. reflexivity. }
        apply (sub_step s S w pi lvl to x0 k0 R Hnl Hamb Htr Hmv Hl Hacc).
      + apply step_nil_intro. intros k Hk. apply step_spec in Hk. destruct Hk as [a0 [Hin Hc]].
        destruct (move_facts s S a0 k R Hin) as [Hsl _].
        destruct a0 as [t0 d0 l0 | | | x0 l0]; cbn in Hsl; try contradiction; cbn [chosen] in Hc.
        * apply Hnl. subst t0. exists d0, l0, k. exact Hin.
        * destruct Hc as [Hacc _]. cbn [mid_accepts] in Hacc.
          destruct (item_sub_trans s S x0 l0 k R Hin) as [pi [t [Hl Htr]]].
          assert (Hrow : In (pi, t) row) by (apply (subtrans_row c om os nd a Hwf Hall s row Erow pi t); eauto).
          destruct (Forall2_in_l _ _ _ _ Hf Hrow) as [[sid t'] [Hsrow' [Et Hsid]]]. cbn [fst snd] in Et, Hsid. subst t'.
          assert (Hkey : In sid (map fst (assoc_of srow))).
          { apply assoc_of_keys. apply in_map_iff. exists (sid, t). split; [reflexivity | exact Hsrow']. }
          apply in_map_iff in Hkey. destruct Hkey as [[sid' to'] [E Hin']]. cbn [fst] in E. subst sid'.
          destruct (Hspec sid to' Hin') as [Tw' [HT' Hm']].
          destruct (sub_match s S pi l0 t x0 k R Htr Hin Hl) as [id [Tw [Hid [HT [_ [_ [Hm _]]]]]]].
          rewrite Hsid in Hid. inversion Hid; subst id. rewrite HT in HT'. inversion HT'; subst Tw'.
          pose proof (Hm w []) as E1. rewrite (Hm' []) in E1. rewrite Hacc in E1. discriminate.
    - exists None. split; [reflexivity |]. apply step_nil_intro. intros k Hk. apply step_spec in Hk. destruct Hk as [a0 [Hin Hc]].
      destruct (move_facts s S a0 k R Hin) as [Hsl _].
      destruct a0 as [t0 d0 l0 | | | x0 l0]; cbn in Hsl; try contradiction; cbn [chosen] in Hc.
      + apply Hnl. subst t0. exists d0, l0, k. exact Hin.
      + destruct (item_sub_trans s S x0 l0 k R Hin) as [pi [t [_ Htr]]].
        apply (subtrans_none c om os nd a Hwf Hall s pi l0 t Erow Htr).
  Qed.

  (** *** the walk over the complete words *)
  Theorem walk_words : forall ws s S log, rel s S -> ambiguous_run en S ws = false ->
    match run en S ws with
    | [] => walk Repaired a benv s ws log = Ok (None, log)
    | _ :: _ => exists t, walk Repaired a benv s ws log = Ok (Some t, log) /\ rel t (run en S ws)
    end.
  Proof.
    induction ws as [| w rest IH]; intros s S log R Hamb.
    - cbn [run fold_left walk]. destruct S as [| k0 S0] eqn:ES; [exfalso; apply (rel_nonempty s [] R); reflexivity |].
      exists s. split; [reflexivity | exact R].
    - cbn [ambiguous_run] in Hamb. apply orb_false_iff in Hamb. destruct Hamb as [Hamb1 Hamb2].
      change (run en S (w :: rest)) with (run en (step en S w) rest).
      cbn [walk]. fold (lit_lookup T s w). pose proof (walk_lit s S w R) as Hlit.
      destruct (lit_lookup T s w) as [to |].
      + destruct Hlit as [R1 _]. apply (IH to _ log R1 Hamb2).
      + destruct (walk_sub s S w log R Hlit Hamb1) as [r [Hr Hspec]]. rewrite Hr. cbn [obind].
        destruct r as [to |].
        * destruct Hspec as [R1 _]. apply (IH to _ log R1 Hamb2).
        * rewrite Hspec. rewrite run_nil.
          destruct (t_mcmd T) as [ct |] eqn:Ect; [rewrite (mcmd_none s S ct R Ect) |]; cbn [obind];
            rewrite (mstar_none s S R); reflexivity.
  Qed.

  (** *** completion *)
  Definition lit_offered (s : N) (L : nat) : list string :=
    filter (String.prefix p) (map (fun id => append (literal_at T id) " ") (level_row (t_clit T) L s)).

  Lemma lit_offered_spec s S L o : rel s S ->
    (In o (lit_offered s L) <-> exists t d0 k, In (LLit t d0 (N.of_nat L), k) (moves S) /\ o = append t " " /\ String.prefix p o = true).
  Proof.
    intro R. unfold lit_offered. rewrite filter_In, in_map_iff. split.
    - intros [[id [<- Hid]] Hp]. rewrite <- (Nat2N.id L) in Hid.
      apply (level_row_lit d (a_commands a) _ _ _ om T Hwf Hord Hglt') in Hid. destruct Hid as [text [dso [to [Htr Hl]]]].
      rewrite (literal_at_lit d (a_commands a) _ _ _ om T Hglt' id text _ Hl) in *.
      destruct (trans_lit_item s S text dso _ to R Htr) as [k Hin]. exists text, dso, k. split; [exact Hin | split; [reflexivity | exact Hp]].
    - intros [t [d0 [k [Hin [-> Hp]]]]]. destruct (item_lit_trans s S t d0 _ k R Hin) as [to Htr].
      pose proof Htr as [i [_ Hn]]. destruct (valid_order_covers d om 0 i t d0 _ Hvalid Hn) as [id Hl].
      split; [| exact Hp]. exists id. split; [rewrite (literal_at_lit d (a_commands a) _ _ _ om T Hglt' id t _ Hl); reflexivity |].
      rewrite <- (Nat2N.id L). apply (level_row_lit d (a_commands a) _ _ _ om T Hwf Hord Hglt'). eauto.
  Qed.

  Lemma csub_keys : Forall (fun lv : list (N * list N) => NoDup (map fst lv)) (a_csub a).
  Proof. destruct (all_tables_inv _ _ _ _ _ _ Hall) as [rt F]. eapply completion_table_keys. apply (af_csub _ _ _ _ _ _ _ F). Qed.

  Lemma csub_row s L sid :
    In sid (level_row (a_csub a) L s) <->
    exists rt pi to, rtrans d = Ok rt /\ trans_on d s (ISub pi (N.of_nat L)) to /\ assocN pi (get_subwords rt 0) = Some sid.
  Proof.
    rewrite <- (csub_exact Bash c om os nd a Hwf Hall (N.of_nat L) s sid).
    rewrite (mem3_level_row (a_csub a) (N.of_nat L) s sid csub_keys). rewrite Nat2N.id. unfold level_row. reflexivity.
  Qed.

  Lemma sub_adds s S L matches log : rel s S ->
    exists adds, top_subs_level Repaired a benv (level_row (a_csub a) L s) p matches log = Ok (matches ++ adds, log)
      /\ forall o, In o adds <-> exists x0 k0, In (LSub x0 (N.of_nat L), k0) (moves S) /\ In o (wproper en x0 p).
  Proof.
    intro R.
    assert (Hsid : forall sid, In sid (level_row (a_csub a) L s) ->
               exists x0 k0 Tw reply, In (LSub x0 (N.of_nat L), k0) (moves S) /\ subword_tables (a_subwords a) sid = Some Tw
                 /\ (forall log', subword_complete Repaired a benv Tw p log' = Ok (reply, log'))
                 /\ forall o, In o reply <-> In o (wproper en x0 p)).
    { intros sid Hin. apply csub_row in Hin. destruct Hin as [rt [pi [to [Hrt [Htr Hid]]]]].
      destruct (trans_sub_item s S pi _ to R Htr) as [x0 [k0 [Hmv Hl]]].
      destruct (sub_match s S pi _ to x0 k0 R Htr Hmv Hl) as [id [Tw [_ [HT [_ [Hids [_ [reply [Hc Hspec]]]]]]]]].
      rewrite (Hids rt Hrt) in Hid. inversion Hid; subst id.
      exists x0, k0, Tw, reply. split; [exact Hmv | split; [exact HT | split; [exact Hc | exact Hspec]]]. }
    destruct (top_subs_level_spec a benv p (level_row (a_csub a) L s) matches log) as [adds [Hr Hspec]].
    { intros sid Hin. destruct (Hsid sid Hin) as [x0 [k0 [Tw [reply [_ [HT [Hc _]]]]]]]. exists Tw, reply. split; assumption. }
    exists adds. split; [exact Hr |]. intro o. rewrite Hspec. split.
    - intros [sid [Tw' [reply' [Hin [HT' [Hc' Ho]]]]]].
      destruct (Hsid sid Hin) as [x0 [k0 [Tw [reply [Hmv [HT [Hc Hsp]]]]]]].
      rewrite HT in HT'. inversion HT'; subst Tw'. pose proof (Hc []) as E1. rewrite (Hc' []) in E1. inversion E1; subst reply'.
      exists x0, k0. split; [exact Hmv | apply Hsp; exact Ho].
    - intros [x0 [k0 [Hmv Ho]]].
      destruct (item_sub_trans s S x0 _ k0 R Hmv) as [pi [t [Hl Htr]]].
      destruct (sub_match s S pi _ t x0 k0 R Htr Hmv Hl) as [id [Tw [_ [HT [_ [Hids [_ [reply [Hc Hsp]]]]]]]]].
      destruct (all_tables_inv _ _ _ _ _ _ Hall) as [rt F]. pose proof (af_rt _ _ _ _ _ _ _ F) as Hrt.
      exists id, Tw, reply. split; [| split; [exact HT | split; [exact Hc | apply Hsp; exact Ho]]].
      apply csub_row. exists rt, pi, t. split; [exact Hrt | split; [exact Htr | apply (Hids rt Hrt)]].
  Qed.

  Lemma ccmd_none s S cc L : rel s S -> t_ccmd T = Some cc -> level_row cc L s = [].
  Proof.
    intros R Hcc. destruct (level_row cc L s) as [| id r] eqn:E; [reflexivity | exfalso].
    destruct (glt_inv _ _ _ _ _ _ _ _ Hglt') as [rt F].
    assert (K : Forall (fun lv : list (N * list N) => NoDup (map fst lv)) cc).
    { destruct (gf_ccmd _ _ _ _ _ _ _ _ _ F) as [[_ [m [Hm Em]]] | [_ Em]]; rewrite Em in Hcc; [| discriminate].
      inversion Hcc; subst m. eapply completion_table_keys. exact Hm. }
    assert (M : mem3 cc (N.of_nat L) s id).
    { apply (mem3_level_row cc (N.of_nat L) s id K). rewrite Nat2N.id. unfold level_row in E. rewrite E. left; reflexivity. }
    apply (ccmd_exact d (a_commands a) 0 _ _ _ om T Hwf Hglt' cc (N.of_nat L) s id Hcc) in M.
    destruct M as [cm [to [Htr _]]].
    destruct (trans_class s S _ to R Htr) as [[w' [d' [l' Eq]]] | [pi [l' Eq]]]; discriminate.
  Qed.

  Lemma match_or_nil l : (match l with [] => Ok [] | _ => match_fn benv p l end) = Ok (filter (String.prefix p) l).
  Proof. destruct l as [| x l]; [reflexivity |]. apply (match_fn_prefix_filter benv p _ Hic Hpr). Qed.

  (** the candidates of the specification, level by level *)
  Lemma level_cands_spec S l o :
    In (l, o) (state_cands en S p) <->
    (exists t d0 k, In (LLit t d0 l, k) (moves S) /\ o = append t " " /\ String.prefix p o = true)
    \/ (exists x0 k0, In (LSub x0 l, k0) (moves S) /\ In o (wproper en x0 p))
    \/ (exists cm k0, In (LCmd cm l, k0) (moves S) /\ In o (filter (String.prefix p) (candidates en cm))).
  Proof.
    unfold state_cands. rewrite in_flat_map. split.
    - intros [[a0 k] [Hin H]]. cbn [fst] in H. destruct a0 as [t0 d0 l0 | cm l0 | | x0 l0]; cbn [item_cands] in H.
      + destruct (String.prefix p (append t0 " ")) eqn:Ep; [| destruct H]. destruct H as [E | []]. inversion E; subst.
        left. exists t0, d0, k. split; [exact Hin | split; [reflexivity | exact Ep]].
      + apply in_map_iff in H. destruct H as [o' [E Ho]]. inversion E; subst. right; right. exists cm, k. split; assumption.
      + destruct H.
      + apply in_map_iff in H. destruct H as [o' [E Ho]]. inversion E; subst. right; left. exists x0, k. split; assumption.
    - intros [[t [d0 [k [Hin [-> Hp]]]]] | [[x0 [k0 [Hin Ho]]] | [cm [k0 [Hin Ho]]]]].
      + exists (LLit t d0 l, k). split; [exact Hin |]. cbn [fst item_cands]. rewrite Hp. left; reflexivity.
      + exists (LSub x0 l, k0). split; [exact Hin |]. cbn [fst item_cands]. apply in_map_iff. exists o. split; [reflexivity | exact Ho].
      + exists (LCmd cm l, k0). split; [exact Hin |]. cbn [fst item_cands]. apply in_map_iff. exists o. split; [reflexivity | exact Ho].
  Qed.

  Lemma no_cmd_item s S cm l k : rel s S -> ~ In (LCmd cm l, k) (moves S).
  Proof. intros R Hin. destruct (move_facts s S _ k R Hin) as [Hsl _]. exact Hsl. Qed.

  (** one level of the script's completion loop *)
  Lemma level_body s S L log : rel s S ->
    exists m3, top_subs_level Repaired a benv (level_row (a_csub a) L s) p ([] ++ lit_offered s L) log = Ok (m3, log)
      /\ forall o, In o m3 <-> In (N.of_nat L, o) (state_cands en S p).
  Proof.
    intro R. destruct (sub_adds s S L ([] ++ lit_offered s L) log R) as [adds [Hr Hspec]].
    exists (([] ++ lit_offered s L) ++ adds). split; [exact Hr |].
    intro o. cbn [List.app]. rewrite in_app_iff, (lit_offered_spec s S L o R), Hspec, level_cands_spec. split.
    - intros [H | H]; [left; exact H | right; left; exact H].
    - intros [H | [H | [cm [k0 [Hin _]]]]]; [left; exact H | right; exact H | exfalso; apply (no_cmd_item s S cm _ k0 R Hin)].
  Qed.

  Lemma top_levels_spec s S : rel s S -> forall n L cands log,
    exists reply, top_levels n L Repaired a benv s p cands [] log = Ok (reply, log)
      /\ ((exists j m, (L <= j < L + n)%nat /\ m <> [] /\ (forall o, In o m <-> In (N.of_nat j, o) (state_cands en S p))
                        /\ (forall i o, (L <= i < j)%nat -> ~ In (N.of_nat i, o) (state_cands en S p))
                        /\ reply = map (Meaning.strip (Meaning.e_wordbreaks en) p) m)
          \/ ((forall i o, (L <= i < L + n)%nat -> ~ In (N.of_nat i, o) (state_cands en S p)) /\ reply = [])).
  Proof.
    intro R. induction n as [| n IH]; intros L cands log.
    - exists []. split; [reflexivity |]. right. split; [intros i o Hi; lia | reflexivity].
    - cbn [top_levels quirky]. cbn [List.app]. rewrite match_or_nil. cbn [obind]. fold (lit_offered s L).
      destruct (level_body s S L log R) as [m3 [Hr Hspec]]. cbn [List.app] in Hr. rewrite Hr. cbn [obind].
      match goal with |- context [obind ?X _] =>
        assert (Hcc : X = Ok (map (fun id => append (literal_at T id) " ") (level_row (t_clit T) L s), m3, log))
          by (destruct (t_ccmd T) as [cc |] eqn:Ecc; [rewrite (ccmd_none s S cc L R Ecc); reflexivity | reflexivity]);
        rewrite Hcc
      end. cbn [obind].
      destruct m3 as [| o0 m3'] eqn:Em.
      + destruct (IH (Datatypes.S L) (map (fun id => append (literal_at T id) " ") (level_row (t_clit T) L s)) log) as [reply [Hrep Hcase]].
        exists reply. split; [exact Hrep |]. destruct Hcase as [[j [m [Hj [Hm [Hin [Hfirst Hreply]]]]]] | [Hnone Hreply]].
        * left. exists j, m. split; [lia | split; [exact Hm | split; [exact Hin | split; [| exact Hreply]]]].
          intros i o Hi Hc. destruct (Nat.eq_dec i L) as [-> | Ne]; [apply Hspec in Hc; destruct Hc | apply (Hfirst i o); [lia | exact Hc]].
        * right. split; [| exact Hreply]. intros i o Hi Hc.
          destruct (Nat.eq_dec i L) as [-> | Ne]; [apply Hspec in Hc; destruct Hc | apply (Hnone i o); [lia | exact Hc]].
      + rewrite <- Em in *.
        assert (Hpre : forall m, In m m3 -> String.prefix p m = true).
        { intros m Hm. apply Hspec in Hm. apply (state_cands_prefix en S p _ m Hm). }
        rewrite (Hstrip m3 Hpre). cbn [obind]. eexists. split; [reflexivity |].
        left. exists L, m3. split; [lia | split; [rewrite Em; discriminate | split; [exact Hspec | split; [intros i o Hi; lia | reflexivity]]]].
  Qed.

  Lemma cand_level_range s S l o : rel s S -> In (l, o) (state_cands en S p) -> (N.to_nat l < Datatypes.S (N.to_nat (t_maxlevel T)))%nat.
  Proof.
    intros R Hin. apply level_cands_spec in Hin. destruct Hin as [[t [d0 [k [Hmv _]]]] | [[x0 [k0 [Hmv _]]] | [cm [k0 [Hmv _]]]]].
    - destruct (item_lit_trans s S t d0 l k R Hmv) as [to Htr].
      apply (level_in_range d (a_commands a) _ _ _ om T Hwf Hord Hglt' l s t d0 to Hvalid Htr).
    - destruct (item_sub_trans s S x0 l k0 R Hmv) as [pi [t [Hl Htr]]].
      destruct (sub_match s S pi l t x0 k0 R Htr Hmv Hl) as [id [Tw [_ [_ [_ [Hids _]]]]]].
      destruct (all_tables_inv _ _ _ _ _ _ Hall) as [rt F]. pose proof (af_rt _ _ _ _ _ _ _ F) as Hrt.
      assert (M : mem3 (a_csub a) l s id).
      { apply (csub_exact Bash c om os nd a Hwf Hall l s id). exists rt, pi, t. split; [exact Hrt | split; [exact Htr | apply (Hids rt Hrt)]]. }
      destruct M as [row [Hrow _]].
      destruct (completion_table_spec _ _ _ _ _ push_in (af_csub _ _ _ _ _ _ _ F)) as [Hlen _].
      assert (N.to_nat l < List.length (a_csub a))%nat by (apply nth_error_Some; rewrite Hrow; discriminate). lia.
    - exfalso. apply (no_cmd_item s S cm l k0 R Hmv).
  Qed.

  Theorem levels_lowest_sub s S log : rel s S ->
    exists reply, top_levels (Datatypes.S (N.to_nat (t_maxlevel T))) 0 Repaired a benv s p [] [] log = Ok (reply, log)
      /\ forall x, In x reply <-> In x (map (Meaning.strip (Meaning.e_wordbreaks en) p) (lowest (state_cands en S p))).
  Proof.
    intro R. destruct (top_levels_spec s S R (Datatypes.S (N.to_nat (t_maxlevel T))) 0%nat [] log) as [reply [Hr Hcase]].
    exists reply. split; [exact Hr |]. intro x.
    destruct Hcase as [[j [m [Hj [Hm [Hin [Hfirst ->]]]]]] | [Hnone ->]].
    - rewrite !in_map_iff. split; intros [o [Eo Ho]]; exists o; (split; [exact Eo |]).
      + apply lowest_spec. exists (N.of_nat j). split; [apply Hin; exact Ho |].
        intros l' c' Hc'. destruct (N.lt_ge_cases l' (N.of_nat j)) as [Hlt | Hge]; [exfalso | exact Hge].
        apply (Hfirst (N.to_nat l') c'); [lia | rewrite N2Nat.id; exact Hc'].
      + apply lowest_spec in Ho. destruct Ho as [l [Hc Hmin]].
        destruct m as [| o0 m']; [contradiction |].
        assert (H0 : In (N.of_nat j, o0) (state_cands en S p)) by (apply Hin; left; reflexivity).
        pose proof (Hmin _ _ H0) as Hle.
        destruct (N.eq_dec l (N.of_nat j)) as [-> | Ne]; [apply Hin; exact Hc | exfalso].
        apply (Hfirst (N.to_nat l) o); [lia | rewrite N2Nat.id; exact Hc].
    - split; [intros [] |]. intro H. apply in_map_iff in H. destruct H as [o [_ Ho]].
      apply lowest_spec in Ho. destruct Ho as [l [Hc _]].
      pose proof (cand_level_range s S l o R Hc) as Hrange.
      apply (Hnone (N.to_nat l) o); [lia | rewrite N2Nat.id; exact Hc].
  Qed.

  (** *** the whole run *)
  Theorem run_meaning_sub ws :
    ambiguous_run en (start e) ws = false ->
    match complete e en ws p with
    | None => run_from Repaired (d_start d) a benv ws p = Ok (mkresult 1 [] [])
    | Some (req, al) =>
        exists reply, run_from Repaired (d_start d) a benv ws p = Ok (mkresult 0 reply [])
                      /\ (forall x, In x reply <-> In x req) /\ incl req al
    end.
  Proof.
    intro Hamb. pose proof (walk_words ws (d_start d) (start e) [] rel_start Hamb) as Hw.
    unfold complete, run_from. destruct (run en (start e) ws) as [| k0 r0] eqn:Erun.
    - rewrite Hw. cbn [obind]. reflexivity.
    - destruct Hw as [t [Hwalk R]]. rewrite Hwalk. cbn [obind].
      destruct (levels_lowest_sub t _ [] R) as [reply [Hr Hspec]]. rewrite Hr. cbn [obind rev List.app].
      exists reply. split; [reflexivity | split; [exact Hspec |]].
      intros x Hx. apply in_map_iff in Hx. destruct Hx as [o [Eo Ho]]. apply in_map_iff. exists o. split; [exact Eo | apply in_or_app; left; exact Ho].
  Qed.
End Sub.
