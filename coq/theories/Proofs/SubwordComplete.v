(** Layer (c), script side, part 2: the completing half of [_<cmd>_subword] of /repo HEAD on
    within-word tables that only have literal transitions whose texts, state by state, are
    non-empty and prefix-free.  [sw_loop] with [complete = true] consumes literals greedily
    ([greedy]) and stops where no literal of the state is a prefix of what is left; [sw_levels]
    then offers, from the first fallback level that has any, the consumed text followed by the
    literals of that level that extend what is left. *)
From CG Require Import Base.Prelude Model.Dfa Model.Glob Model.BashSem.
From CG Require Import Proofs.TablesSound Proofs.TableLookup Proofs.StripFacts Proofs.MeaningFacts Proofs.WordTokens
     Proofs.SubwordMatch Proofs.SubwordFacts Proofs.LevelsFacts.

Lemma prefix_antisym a : forall b, String.prefix a b = true -> String.prefix b a = true -> a = b.
Proof.
  induction a as [| x a IH]; intros [| y b] H1 H2; cbn [String.prefix] in *; try discriminate; [reflexivity |].
  destruct (Ascii.ascii_dec x y) as [-> | Ne]; [| discriminate]. f_equal.
  destruct (Ascii.ascii_dec y y); [| contradiction]. apply IH; assumption.
Qed.

Section SwComplete.
  Variables (a : alltables) (benv : BashSem.env) (Tw : tables).
  Hypothesis Hnocmd : forall ct s, t_mcmd Tw = Some ct -> assocN s ct = None.
  Hypothesis Hnostar : forall stars s, t_mstar Tw = Some stars -> has_key s stars = false.
  Hypothesis Hne : forall s lit to, In (lit, to) (enabled Tw s) -> lit <> EmptyString.
  Hypothesis Hpf : forall s l1 t1 l2 t2, In (l1, t1) (enabled Tw s) -> In (l2, t2) (enabled Tw s) ->
                                         String.prefix l1 l2 = true -> l1 = l2 /\ t1 = t2.

  (** consume literals as long as one of them begins what is left *)
  Inductive greedy : N -> string -> N -> string -> Prop :=
  | greedy_stop s w : (forall lit to, In (lit, to) (enabled Tw s) -> String.prefix lit w = false) -> greedy s w s w
  | greedy_cons s lit to rest s' cp : In (lit, to) (enabled Tw s) -> greedy to rest s' cp -> greedy s (append lit rest) s' cp.

  Lemma lit_loop_true_cont lits st sub to n :
    lit_loop_str true lits st sub = SCont to n ->
    exists lid lit, In (lid, lit) lits /\ assocN lid st = Some to /\ String.prefix lit sub = true /\ n = String.length lit.
  Proof.
    induction lits as [| [lid lit] r IH]; cbn [lit_loop_str]; intro H; [discriminate |].
    destruct (assocN lid st) as [t0 |] eqn:Ea.
    - destruct (String.eqb lit sub) eqn:E1.
      + inversion H; subst. apply String.eqb_eq in E1. subst sub. exists lid, lit.
        split; [left; reflexivity | split; [exact Ea | split; [apply prefix_refl | reflexivity]]].
      + cbn [andb] in H. destruct (String.prefix sub lit); [discriminate |]. destruct (String.prefix lit sub) eqn:E2.
        * inversion H; subst. exists lid, lit. split; [left; reflexivity | split; [exact Ea | split; [exact E2 | reflexivity]]].
        * destruct (IH H) as [l' [t' [Hin Hr]]]. exists l', t'. split; [right; exact Hin | exact Hr].
    - destruct (IH H) as [l' [t' [Hin Hr]]]. exists l', t'. split; [right; exact Hin | exact Hr].
  Qed.

  Lemma lit_loop_true_none lits st sub :
    lit_loop_str true lits st sub = SNone ->
    forall lid lit to, In (lid, lit) lits -> assocN lid st = Some to -> String.prefix lit sub = false.
  Proof.
    induction lits as [| [lid0 lit0] r IH]; cbn [lit_loop_str]; intros H lid lit to Hin Ha; [destruct Hin |].
    destruct (assocN lid0 st) as [t0 |] eqn:Ea0.
    - destruct (String.eqb lit0 sub) eqn:E1; [discriminate |]. cbn [andb] in H.
      destruct (String.prefix sub lit0); [discriminate |].
      destruct (String.prefix lit0 sub) eqn:E2; [discriminate |].
      destruct Hin as [E | Hin]; [inversion E; subst; exact E2 | eapply IH; eassumption].
    - destruct Hin as [E | Hin]; [inversion E; subst; congruence | eapply IH; eassumption].
  Qed.

  Lemma lit_loop_true_break lits st sub :
    lit_loop_str true lits st sub = SBreak ->
    exists lid lit to, In (lid, lit) lits /\ assocN lid st = Some to /\ String.prefix sub lit = true /\ lit <> sub.
  Proof.
    induction lits as [| [lid0 lit0] r IH]; cbn [lit_loop_str]; intro H; [discriminate |].
    destruct (assocN lid0 st) as [t0 |] eqn:Ea0.
    - destruct (String.eqb lit0 sub) eqn:E1; [discriminate |]. cbn [andb] in H.
      destruct (String.prefix sub lit0) eqn:E3.
      + exists lid0, lit0, t0. split; [left; reflexivity | split; [exact Ea0 | split; [exact E3 |]]].
        intro E. subst. rewrite String.eqb_refl in E1. discriminate.
      + destruct (String.prefix lit0 sub); [discriminate |].
        destruct (IH H) as [l' [t' [to' [Hin Hr]]]]. exists l', t', to'. split; [right; exact Hin | exact Hr].
    - destruct (IH H) as [l' [t' [to' [Hin Hr]]]]. exists l', t', to'. split; [right; exact Hin | exact Hr].
  Qed.

  Theorem sw_complete_tables word acc : forall fuel state ci,
      (String.length word - ci < fuel)%nat ->
      exists b st' ci',
        (forall log, sw_loop fuel Repaired true a benv Tw acc word state ci log = Ok (b, st', ci', log))
        /\ (ci <= ci')%nat
        /\ greedy state (Glob.sdrop ci word) st' (Glob.sdrop ci' word).
  Proof.
    induction fuel as [| f IH]; intros state ci Hf; [lia |].
    cbn [sw_loop quirky orb]. destruct (Nat.leb (String.length word) ci) eqn:El.
    - apply Nat.leb_le in El. exists true, state, ci. split; [intro log; reflexivity | split; [lia |]].
      apply greedy_stop. rewrite (gsdrop_nil_iff ci word El). intros lit to Hin.
      destruct lit; [exfalso; apply (Hne state EmptyString to Hin); reflexivity | reflexivity].
    - apply Nat.leb_gt in El. set (sub := Glob.sdrop ci word).
      assert (Hstopped : (forall lit to, In (lit, to) (enabled Tw state) -> String.prefix lit sub = false) ->
                         exists b st' ci', (forall log : list invocation, (Ok (false, state, ci, log) : M (bool * N * nat * list invocation)) = Ok (b, st', ci', log)) /\ (ci <= ci')%nat
                                           /\ greedy state sub st' (Glob.sdrop ci' word)).
      { intro Hs. exists false, state, ci. split; [intro log; reflexivity | split; [lia | apply greedy_stop; exact Hs]]. }
      destruct (assocN state (t_mlit Tw)) as [st |] eqn:Es.
      + cbn [lit_loop obind]. destruct (lit_loop_str true (indexed_from 0 (literal_texts Tw)) st sub) as [to adv | |] eqn:Ell.
        * apply lit_loop_true_cont in Ell. destruct Ell as [lid [lit [Hin [Ha [Hp ->]]]]].
          assert (Hen : In (lit, to) (enabled Tw state)) by (apply (enabled_in Tw state st lit to Es); eauto).
          assert (Hlit : lit <> EmptyString) by (apply (Hne state lit to Hen)).
          apply prefix_split in Hp. rewrite <- gsdrop_eq in Hp. fold sub in Hp.
          assert (Hlen : String.length sub = (String.length word - ci)%nat) by (unfold sub; apply length_sdrop).
          assert (Hll : (0 < String.length lit <= String.length word - ci)%nat).
          { rewrite <- Hlen, Hp, length_append'. destruct lit; [contradiction | cbn; lia]. }
          destruct (IH to (ci + String.length lit)%nat) as [b [st' [ci' [E [Hci Hg]]]]]; [lia |].
          exists b, st', ci'. split; [exact E | split; [lia |]].
          rewrite gsdrop_add in Hg. fold sub in Hg. rewrite Hp. eapply greedy_cons; [exact Hen |].
          rewrite Hp in Hg. rewrite gsdrop_app in Hg. exact Hg.
        * apply lit_loop_true_break in Ell. destruct Ell as [lid [lit [to [Hin [Ha [Hp Hne']]]]]].
          assert (Hen : In (lit, to) (enabled Tw state)) by (apply (enabled_in Tw state st lit to Es); eauto).
          apply Hstopped. intros lit' to' Hen'. destruct (String.prefix lit' sub) eqn:E'; [exfalso | reflexivity].
          destruct (Hpf state lit' to' lit to Hen' Hen (prefix_trans _ _ _ E' Hp)) as [-> _].
          apply Hne'. apply prefix_antisym; assumption.
        * assert (Hs : forall lit to, In (lit, to) (enabled Tw state) -> String.prefix lit sub = false).
          { intros lit to Hen. apply (enabled_in Tw state st lit to Es) in Hen. destruct Hen as [lid [Hin Ha]].
            apply (lit_loop_true_none _ _ _ Ell lid lit to Hin Ha). }
          destruct (t_mcmd Tw) as [ct |] eqn:Ect; [rewrite (Hnocmd ct state eq_refl) |]; cbn [obind];
            (destruct (t_mstar Tw) as [stars |] eqn:Est; [rewrite (Hnostar stars state eq_refl) |]); apply Hstopped; exact Hs.
      + cbn [obind].
        assert (Hs : forall lit to, In (lit, to) (enabled Tw state) -> String.prefix lit sub = false).
        { intros lit to Hen. unfold enabled in Hen. rewrite Es in Hen. destruct Hen. }
        destruct (t_mcmd Tw) as [ct |] eqn:Ect; [rewrite (Hnocmd ct state eq_refl) |]; cbn [obind];
          (destruct (t_mstar Tw) as [stars |] eqn:Est; [rewrite (Hnostar stars state eq_refl) |]); apply Hstopped; exact Hs.
  Qed.

  (** *** the levels *)
  Hypothesis Hic : e_ignore_case benv = false.
  Hypothesis Hnoccmd : forall cc L s, t_ccmd Tw = Some cc -> level_row cc L s = [].

  Definition sw_offered (state : N) (mp cp : string) (L : nat) : list string :=
    filter (String.prefix (append mp cp)) (map (fun id => append mp (literal_at Tw id)) (level_row (t_clit Tw) L state)).

  Theorem sw_levels_tables state mp cp log : printable_str (append mp cp) = true ->
    forall n L sc, sw_levels n L Repaired a benv Tw state mp cp sc [] log = Ok (first_nonempty (sw_offered state mp cp) n L, log).
  Proof.
    intro Hp. induction n as [| n IH]; intros L sc; cbn [sw_levels first_nonempty quirky]; [reflexivity |].
    cbn [List.app]. rewrite (match_fn_prefix_filter benv _ _ Hic Hp). cbn [obind List.app]. fold (sw_offered state mp cp L).
    destruct (t_ccmd Tw) as [cc |] eqn:Ecc.
    - rewrite (Hnoccmd cc L state eq_refl). cbn [sw_cmds_level obind].
      destruct (sw_offered state mp cp L) as [| m ms]; [apply IH | reflexivity].
    - cbn [obind]. destruct (sw_offered state mp cp L) as [| m ms]; [apply IH | reflexivity].
  Qed.

  (** the completing half as a whole *)
  Theorem subword_complete_tables word : printable_str word = true ->
    exists st' cp mp,
      (forall log, subword_complete Repaired a benv Tw word log
                   = Ok (first_nonempty (sw_offered st' mp cp) (S (N.to_nat (t_maxlevel Tw))) 0, log))
      /\ word = append mp cp /\ greedy 0 word st' cp.
  Proof.
    intro Hp. unfold subword_complete, subword_complete_from.
    destruct (sw_complete_tables word [] (sw_fuel Tw word) 0 0%nat) as [b [st' [ci' [E [_ Hg]]]]]; [unfold sw_fuel; lia |].
    cbn [Glob.sdrop] in Hg.
    exists st', (Glob.sdrop ci' word), (stake ci' word).
    assert (Ew : word = append (stake ci' word) (Glob.sdrop ci' word)) by (symmetry; apply stake_sdrop).
    split; [| split; [exact Ew | exact Hg]].
    intro log. rewrite (E log). cbn [obind]. apply sw_levels_tables. rewrite <- Ew. exact Hp.
  Qed.
End SwComplete.
