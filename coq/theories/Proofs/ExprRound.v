(** Expression round trip, part 4: the parser model applied to the printed text of a printable
    tree returns the located tree -- at every precedence level, for every layout. *)
From CG Require Import Base.Prelude Model.Ast Model.Lexer Model.Parser Spec.Printer
  Proofs.LexBase Proofs.LexBlanks Proofs.LexTerminal Proofs.LexTokens Proofs.LexCommand
  Proofs.ExprDefs Proofs.ExprLift Proofs.ExprFirst Proofs.ExprShape.
From CGgen Require Import Consts.

Lemma paren_text_app : forall g1 g2 B r,
    append (paren_text g1 g2 B) r
    = String LPAREN (append (gap_text g1) (append B (append (gap_text (post_gap g2)) (String RPAREN r)))).
Proof. intros. unfold paren_text. cbn [append]. rewrite !app_assoc_s. cbn [append]. reflexivity. Qed.

Lemma first_ok_hd : forall t r, first_ok t r -> hd_in (fun ch => negb (blank_start ch)) (append t r) = true.
Proof.
  intros t r (ch & s & E & U1 & _). subst. cbn [append hd_in]. destruct (ustart_facts ch U1) as (B & _).
  rewrite B. reflexivity.
Qed.

Section Round.
  Variable c : cfg.

  Definition parses (n lv : nat) (t r : string) (p : pos) (res : expr * pos) : Prop :=
    P c n lv (mkin (append t r) p) = Ok (fst res, mkin r (snd res)).

  Definition Core (e : expr) : Prop :=
    forall lay ctx w p r n, (ctx <= 8)%nat -> wfb w e = true ->
      (String.length (append (body_txt lay ctx e) r) < n)%nat -> cstop ctx e r ->
      parses n (prec e) (body_txt lay ctx e) r p (body_loc c lay ctx e p).

  Definition M (e : expr) : Prop :=
    forall lay ctx w p r n, (ctx <= 8)%nat -> wfb w e = true ->
      (String.length (append (txt lay ctx e) r) < n)%nat -> mstop lay ctx e r ->
      parses n (lvl ctx) (txt lay ctx e) r p (loc c lay ctx e p).

  (** *** Atoms that are not brackets; parentheses *)

  Lemma atom_not_bracket : forall n s p,
      hd_in (fun ch => negb (bstart ch)) s = true ->
      Atom c n (mkin s p) = terminal_opt_description_expr c (mkin s p).
  Proof.
    intros n [|ch s] p H; unfold Atom, nonterm_expr, nonterm, optional_expr, parenthesized_expr, command_expr,
      triple_bracket_command, tag_p, char_p; cbn [rest at_].
    - reflexivity.
    - cbn [hd_in] in H. apply negb_true_iff in H. unfold bstart in H.
      apply orb_false_iff in H as [H H4]. apply orb_false_iff in H as [H H3]. apply orb_false_iff in H as [H1 H2].
      rewrite H1, H2, H3. cbn [obind fail]. unfold LBRACE3. cbn [strip_prefix]. change "{"%char with LBRACE.
      rewrite Ascii.eqb_sym, H4. reflexivity.
  Qed.

  Lemma paren_parse : forall m g1 g2 B r p e' pe,
      hd_in (fun ch => negb (blank_start ch)) (append B (append (gap_text (post_gap g2)) (String RPAREN r))) = true ->
      F c m (mkin (append B (append (gap_text (post_gap g2)) (String RPAREN r))) (paren_open g1 p))
      = Ok (e', mkin (append (gap_text (post_gap g2)) (String RPAREN r)) pe) ->
      Atom c (S m) (mkin (append (paren_text g1 g2 B) r) p) = Ok (e', mkin r (paren_close g2 pe)).
  Proof.
    intros m g1 g2 B r p e' pe Hh HF. rewrite paren_text_app.
    unfold Atom, nonterm_expr, nonterm, optional_expr, parenthesized_expr, char_p. cbn [rest at_].
    replace (Ascii.eqb LPAREN LT) with false by (vm_compute; reflexivity).
    replace (Ascii.eqb LPAREN LBRACK) with false by (vm_compute; reflexivity).
    rewrite (proj2 (eqb_eq_a LPAREN LPAREN) eq_refl). cbn [obind fail].
    rewrite multiblanks0_spec. cbn [obind]. rewrite skip_gap, skip_no_blank by assumption.
    rewrite expr_p_S. unfold paren_open in HF. rewrite HF. cbn [obind].
    rewrite multiblanks0_spec. cbn [obind]. rewrite skip_gap.
    rewrite skip_no_blank by (vm_compute; reflexivity). cbn [rest at_].
    rewrite (proj2 (eqb_eq_a RPAREN RPAREN) eq_refl). cbn [obind]. reflexivity.
  Qed.

  (** *** From the node itself to the node in its context *)

  Section Wrap.
    Variables (e : expr) (lay : layout) (ctx : nat) (w : bool).
    Hypothesis HC : Core e.
    Hypothesis Hctx : (ctx <= 8)%nat.
    Hypothesis HW : wfb w e = true.
    Let L := lay [].
    Let par := Nat.ltb (prec e) ctx.
    Let T0 := if par then paren_text (nl_gap L 2) (nl_gap L 3) (body_txt lay ctx e) else body_txt lay ctx e.
    Let R0 (p : pos) : expr * pos :=
      let pb := if par then paren_open (nl_gap L 2) p else p in
      let res := body_loc c lay ctx e pb in
      (fst res, if par then paren_close (nl_gap L 3) (snd res) else snd res).

    Lemma inner_first : forall j r,
        (j = 0%nat -> par = false -> cstop ctx e r) -> first_ok (wrap_text L j T0) r.
    Proof.
      intros [|j] r H; cbn [wrap_text]; [|apply first_paren].
      subst T0. destruct par eqn:Ep; [apply first_paren|].
      apply (first_body_any e lay ctx w r Hctx HW). apply H; reflexivity.
    Qed.

    Lemma inner_parse : forall p r n lv,
        (String.length (append T0 r) < n)%nat -> (lv <= 6)%nat -> (par = false -> (lv <= prec e)%nat) ->
        st lv r -> (par = false -> extra ctx e r) ->
        P c n lv (mkin (append T0 r) p) = Ok (fst (R0 p), mkin r (snd (R0 p))).
    Proof.
      intros p r n lv Hn Hlv Hlp Hst Hex. subst T0 R0. cbv zeta. destruct par eqn:Ep; cbn [fst snd].
      - (* parenthesised *)
        destruct n as [|m]; [lia|].
        apply (lift c (S m) 6 lv); auto.
        + cbn [P]. apply paren_parse.
          * apply first_ok_hd. apply (first_body_any e lay ctx w _ Hctx HW).
            split; [|apply st3_extra]; eapply st_mono; [|apply st0_rparen| |apply st0_rparen]; lia.
          * assert (HCo := HC lay ctx w (paren_open (nl_gap L 2) p)
                         (append (gap_text (post_gap (nl_gap L 3))) (String RPAREN r)) m Hctx HW).
            unfold parses in HCo.
            assert (Hlen : (String.length (append (body_txt lay ctx e)
                        (append (gap_text (post_gap (nl_gap L 3))) (String RPAREN r))) < m)%nat).
            { rewrite paren_text_app in Hn. cbn [String.length] in Hn. rewrite length_app_s in Hn. lia. }
            specialize (HCo Hlen).
            assert (Hcs : cstop ctx e (append (gap_text (post_gap (nl_gap L 3))) (String RPAREN r))).
            { split; [|apply st3_extra]; eapply st_mono; [|apply st0_rparen| |apply st0_rparen]; lia. }
            specialize (HCo Hcs).
            apply (lift c m (prec e) 0); auto; try lia.
            -- destruct e; cbn; lia.
            -- apply st0_rparen.
            -- cbn [rest]. rewrite length_app_s in Hlen. lia.
        + cbn [rest]. rewrite paren_text_app in Hn. cbn [String.length] in Hn.
          rewrite !length_app_s in Hn. cbn [String.length] in Hn. lia.
      - specialize (Hlp eq_refl). specialize (Hex eq_refl).
        apply (lift c n (prec e) lv); auto.
        + destruct e; cbn; lia.
        + apply (HC lay ctx w p r n Hctx HW Hn). split; auto. eapply st_mono; [|exact Hst]. lia.
        + cbn [rest]. rewrite length_app_s in Hn. lia.
    Qed.

    Lemma wrap_parse : forall j p r n lv,
        (String.length (append (wrap_text L j T0) r) < n)%nat -> (lv <= 6)%nat ->
        (j = 0%nat -> par = false -> (lv <= prec e)%nat) ->
        st lv r -> (j = 0%nat -> par = false -> extra ctx e r) ->
        P c n lv (mkin (append (wrap_text L j T0) r) p)
        = Ok (fst (R0 (wrap_open L j p)), mkin r (wrap_close L j (snd (R0 (wrap_open L j p))))).
    Proof.
      induction j as [|j IH]; intros p r n lv Hn Hlv Hlp Hst Hex.
      - cbn [wrap_text wrap_open wrap_close]. apply inner_parse; auto.
      - cbn [wrap_text wrap_open wrap_close]. cbn [wrap_text] in Hn.
        destruct n as [|m]; [lia|].
        apply (lift c (S m) 6 lv); auto.
        + cbn [P]. apply paren_parse.
          * apply first_ok_hd. apply inner_first. intros _ _.
            split; [|apply st3_extra]; eapply st_mono; [|apply st0_rparen| |apply st0_rparen]; lia.
          * apply (IH (paren_open (fst (nl_wrapgap L j)) p) (append (gap_text (post_gap (snd (nl_wrapgap L j)))) (String RPAREN r)) m 0%nat); try lia.
            -- rewrite paren_text_app in Hn. cbn [String.length] in Hn. rewrite length_app_s in Hn. lia.
            -- apply st0_rparen.
            -- intros _ _. apply st3_extra. eapply st_mono; [|apply st0_rparen]. lia.
        + cbn [rest]. rewrite paren_text_app in Hn. cbn [String.length] in Hn.
          rewrite !length_app_s in Hn. cbn [String.length] in Hn. lia.
    Qed.
  End Wrap.

  Theorem core_to_M : forall e, Core e -> M e.
  Proof.
    intros e HC lay ctx w p r n Hc W Hn [Mst Mx]. unfold parses. rewrite txt_eq in *. rewrite loc_eq. cbv zeta.
    pose proof (wrap_parse e lay ctx w HC Hc W (wraps (lay []) ctx) p r n (lvl ctx) Hn) as X.
    destruct (lvl_le ctx Hc) as [L1 L2].
    assert (Hb : wraps (lay []) ctx = 0%nat -> Nat.ltb (prec e) ctx = false -> bare lay ctx e = true).
    { intros A B. unfold bare. rewrite A, B. reflexivity. }
    specialize (X L2).
    assert (X1 : wraps (lay []) ctx = 0%nat -> Nat.ltb (prec e) ctx = false -> (lvl ctx <= prec e)%nat).
    { intros _ B. apply Nat.ltb_ge in B. lia. }
    specialize (X X1 Mst (fun A B => Mx (Hb A B))).
    rewrite X. cbv zeta.
    destruct (body_loc c lay ctx e _) as [e' pe]. reflexivity.
  Qed.
End Round.

(** *** The nodes themselves *)

Lemma not_bracket_of_first : forall s, hd_is ustart s = true -> hd_is tok_stop s = false ->
    hd_in (fun ch => negb (bstart ch)) s = true.
Proof.
  intros [|ch s] H1 H2; cbn [hd_is hd_in] in *; [discriminate|].
  destruct (bstart ch) eqn:B; auto. destruct (bstart_facts ch B) as [_ T]. rewrite T in H2. discriminate.
Qed.

Lemma from_range_pspan : forall s1 p1 s2 p2, from_range (mkin s1 p1) (mkin s2 p2) = pspan p1 p2.
Proof. reflexivity. Qed.

Section Cores.
  Variable c : cfg.

  Lemma core_terminal : forall t d l sp, Core c (Terminal t d l sp).
  Proof.
    intros t d l sp lay ctx w p r n Hc W Hn [Hst [Ex1 Ex2]]. unfold parses. cbn [prec P body_txt body_loc].
    cbn [wfb] in W. apply andb_true_iff in W as [Wl Wz]. apply N.eqb_eq in Wz. subst l.
    destruct d as [dd|].
    - rewrite !app_assoc_s.
      assert (LR : lit_rest (Nat.leb 6 ctx)
                 (append (gap_text (post_gap (nl_gap (lay []) 0))) (append (descr_text dd) r)))
        by apply lit_rest_descr.
      destruct (spelled_first (nl_esc (lay [])) (Nat.leb 6 ctx) t _ Wl LR) as (S1 & S2 & S3).
      rewrite atom_not_bracket by (apply not_bracket_of_first; assumption).
      unfold terminal_opt_description_expr. rewrite terminal_spelled by assumption. cbn [obind].
      rewrite opt_description_printed. cbn [obind fst snd]. rewrite from_range_pspan. reflexivity.
    - rewrite app_nil_r_s. specialize (Ex1 eq_refl). specialize (Ex2 eq_refl).
      destruct (spelled_first (nl_esc (lay [])) (Nat.leb 6 ctx) t _ Wl Ex2) as (S1 & S2 & S3).
      rewrite atom_not_bracket by (apply not_bracket_of_first; assumption).
      unfold terminal_opt_description_expr. rewrite terminal_spelled by assumption. cbn [obind].
      rewrite opt_description_none by (rewrite rest_skip_i; exact Ex1).
      cbn [obind fst snd]. rewrite from_range_pspan. reflexivity.
  Qed.

  Lemma core_nonterm : forall nm l sp, Core c (NontermRef nm l sp).
  Proof.
    intros nm l sp lay ctx w p r n Hc W Hn _. unfold parses. cbn [prec P body_txt body_loc].
    cbn [wfb] in W. apply andb_true_iff in W as [Wn Wz]. apply N.eqb_eq in Wz. subst l.
    cbn [append]. rewrite app_assoc_s. cbn [append].
    unfold Atom, nonterm_expr. rewrite nonterm_printed by assumption. cbn [obind fst snd].
    rewrite from_range_pspan. reflexivity.
  Qed.

  Lemma atom_lbrace : forall n s p,
      Atom c n (mkin (String LBRACE s) p)
      = (command_expr (mkin (String LBRACE s) p) <|> terminal_opt_description_expr c (mkin (String LBRACE s) p)).
  Proof.
    intros. unfold Atom, nonterm_expr, nonterm, optional_expr, parenthesized_expr, char_p. cbn [rest at_].
    replace (Ascii.eqb LBRACE LT) with false by (vm_compute; reflexivity).
    replace (Ascii.eqb LBRACE LBRACK) with false by (vm_compute; reflexivity).
    replace (Ascii.eqb LBRACE LPAREN) with false by (vm_compute; reflexivity).
    reflexivity.
  Qed.

  Lemma core_command : forall cm z l sp, Core c (Command cm z l sp).
  Proof.
    intros cm z l sp lay ctx w p r n Hc W Hn _. unfold parses. cbn [prec P body_txt body_loc].
    cbn [wfb] in W. apply andb_true_iff in W as [W Wz]. apply andb_true_iff in W as [Wc Wb].
    apply N.eqb_eq in Wz. subst l. apply negb_true_iff in Wb. subst z.
    rewrite !app_assoc_s.
    change (append LBRACE3 ?x) with (String LBRACE (String LBRACE (String LBRACE x))) at 1.
    rewrite atom_lbrace.
    change (String LBRACE (String LBRACE (String LBRACE ?x))) with (append LBRACE3 x).
    unfold command_expr. rewrite command_printed by assumption. cbn [obind fst snd].
    rewrite from_range_pspan. reflexivity.
  Qed.

  Lemma mstop_st0 : forall lay e r, st 0 r -> mstop lay 0 e r.
  Proof. intros. apply mstop_low; auto. Qed.

  Lemma core_optional : forall ch sp, M c ch -> Core c (Optional ch sp).
  Proof.
    intros ch sp HM lay ctx w p r n Hc W Hn _. unfold parses. cbn [prec P body_txt body_loc].
    cbn [wfb] in W.
    set (g0 := gap_text (nl_gap (lay []) 0)). set (g1 := gap_text (post_gap (nl_gap (lay []) 1))).
    cbn [append]. rewrite !app_assoc_s. cbn [append].
    set (rest1 := append g1 (String RBRACK r)).
    assert (S0 : st 0 rest1) by apply st0_rbrack.
    assert (Fo : first_ok (txt (sub lay 0) 0 ch) rest1)
      by (apply (first_ok_any ch (sub lay 0) 0%nat w); auto; [lia|apply mstop_st0; auto]).
    cbn [body_txt append] in Hn. rewrite !app_assoc_s in Hn. cbn [append String.length] in Hn.
    fold g0 g1 in Hn. rewrite length_app_s in Hn. fold rest1 in Hn.
    destruct n as [|m]; [lia|].
    unfold Atom, nonterm_expr, nonterm, optional_expr, char_p. cbn [rest at_].
    replace (Ascii.eqb LBRACK LT) with false by (vm_compute; reflexivity).
    rewrite (proj2 (eqb_eq_a LBRACK LBRACK) eq_refl). cbn [obind fail].
    rewrite multiblanks0_spec. cbn [obind]. unfold g0. rewrite skip_gap. fold g0.
    rewrite skip_no_blank by (apply first_ok_hd; exact Fo).
    rewrite expr_p_S.
    pose proof (HM (sub lay 0) 0%nat w (adv_str g0 (adv_char LBRACK p)) rest1 m (Nat.le_0_l _) W) as X.
    unfold parses in X. cbn [lvl Nat.eqb P] in X. rewrite X; [|lia|apply mstop_st0; auto].
    destruct (loc c (sub lay 0) 0 ch (adv_str g0 (adv_char LBRACK p))) as [ch' p2]. cbn [obind fst snd].
    rewrite multiblanks0_spec. cbn [obind]. unfold rest1, g1. rewrite skip_gap.
    rewrite skip_no_blank by (vm_compute; reflexivity). cbn [rest at_].
    rewrite (proj2 (eqb_eq_a RBRACK RBRACK) eq_refl). cbn [obind]. rewrite from_range_pspan. reflexivity.
  Qed.

  Lemma core_many1 : forall ch sp, M c ch -> Core c (Many1 ch sp).
  Proof.
    intros ch sp HM lay ctx w p r n Hc W Hn _. unfold parses. cbn [prec P body_txt body_loc].
    cbn [wfb] in W. rewrite !app_assoc_s.
    set (g0 := post_gap (nl_gap (lay []) 0)).
    cbn [body_txt] in Hn. rewrite !app_assoc_s in Hn. fold g0 in Hn.
    assert (MS : mstop (sub lay 0) 6 ch (append (gap_text g0) (append DOTS3 r))).
    { split; [repeat split; intros; cbn [lvl Nat.eqb] in *; lia|].
      intros _. destruct (many_rest (nl_gap (lay []) 0) r) as [Q1 Q2]. split; intros _; auto. }
    rewrite U_Atom.
    pose proof (HM (sub lay 0) 6%nat w p _ n ltac:(lia) W Hn MS) as X. unfold parses in X.
    cbn [lvl Nat.eqb P] in X. rewrite X.
    destruct (loc c (sub lay 0) 6 ch p) as [ch' p1]. cbn [obind fst snd].
    unfold many1_tag. rewrite multiblanks0_spec. cbn [obind]. unfold g0. rewrite skip_gap.
    rewrite skip_no_blank by (vm_compute; reflexivity).
    unfold tag_p. cbn [rest at_]. change DOTS3 with "...". rewrite strip_prefix_self. cbn [obind].
    rewrite from_range_pspan. reflexivity.
  Qed.

  Lemma core_dd : forall ch d sp, M c ch -> Core c (DistDescr ch d sp).
  Proof.
    intros ch d sp HM lay ctx w p r n Hc W Hn _. unfold parses. cbn [prec P body_txt body_loc].
    cbn [wfb] in W. rewrite !app_assoc_s.
    cbn [body_txt] in Hn. rewrite !app_assoc_s in Hn.
    set (cx := if open_end ch then 7%nat else 4%nat) in *.
    assert (Lv : lvl cx = 4%nat) by (subst cx; destruct (open_end ch); reflexivity).
    assert (Cx : (cx <= 8)%nat) by (subst cx; destruct (open_end ch); lia).
    assert (MS : mstop (sub lay 0) cx ch
                   (append (gap_text (post_gap (nl_gap (lay []) 0))) (append (descr_text d) r))).
    { split; [rewrite Lv; apply st4_descr|]. intros B. subst cx. destruct (open_end ch) eqn:O.
      - unfold bare in B. apply andb_true_iff in B as [B _]. apply negb_true_iff in B. apply Nat.ltb_ge in B.
        destruct ch; cbn [prec] in B; lia.
      - split; intros X; [rewrite O in X; discriminate|]. destruct ch; try discriminate. destruct descr; discriminate. }
    unfold I, subword_sequence_expr_opt_description. fold (SW c n).
    pose proof (HM (sub lay 0) cx w p _ n Cx W Hn MS) as X. unfold parses in X. rewrite Lv in X. cbn [P] in X.
    rewrite X. destruct (loc c (sub lay 0) cx ch p) as [ch' p1]. cbn [obind fst snd].
    rewrite opt_description_printed. cbn [obind]. rewrite from_range_pspan. reflexivity.
  Qed.
End Cores.

(** *** Lists of children *)

Section StepsList.
  Variables (f : nat -> expr -> string) (g : nat -> expr -> pos -> expr * pos) (sep : nat -> string).
  Variables (r : string) (n : nat).
  Variable stepf : input -> pres expr.
  Variable Good : expr -> Prop.
  Variable RestOk : string -> Prop.
  Variable Link : expr -> string -> Prop.
  Hypothesis Hprop : forall k x rest, Good x -> RestOk rest -> Link x rest ->
      RestOk (append (sep (S k)) (append (f (S k) x) rest)).
  Hypothesis Hstep : forall k x rest q, Good x -> RestOk rest -> Link x rest ->
      (String.length (append (sep (S k)) (append (f (S k) x) rest)) < n)%nat ->
      stepf (mkin (append (sep (S k)) (append (f (S k) x) rest)) q)
      = Ok (fst (g (S k) x (adv_str (sep (S k)) q)), mkin rest (snd (g (S k) x (adv_str (sep (S k)) q))))
      /\ (String.length rest < String.length (append (sep (S k)) (append (f (S k) x) rest)))%nat.

  Lemma steps_list : forall xs k q, Forall Good xs -> linked f sep r Link (S k) xs -> RestOk r ->
      (String.length (append (txt_list f sep (S k) xs) r) < n)%nat ->
      steps stepf (mkin (append (txt_list f sep (S k) xs) r) q)
            (fst (loc_list g (fun k q => adv_str (sep k) q) (S k) xs q))
            (mkin r (snd (loc_list g (fun k q => adv_str (sep k) q) (S k) xs q))).
  Proof.
    induction xs as [|x xs IH]; intros k q G L R Hn.
    - cbn. constructor.
    - inversion G as [|? ? Gx Gxs]; subst. cbn [linked] in L. destruct L as [L1 L2].
      cbn [txt_list loc_list]. cbn [txt_list] in Hn. rewrite !app_assoc_s in *.
      assert (Rt : RestOk (append (txt_list f sep (S (S k)) xs) r))
        by (apply (chain_rest f sep r Good RestOk Link Hprop); auto).
      destruct (Hstep k x _ q Gx Rt L1 Hn) as [E Len].
      destruct (g (S k) x (adv_str (sep (S k)) q)) as [x' q1] eqn:E1.
      specialize (IH (S k) q1 Gxs L2 R).
      destruct (loc_list g (fun k0 q0 => adv_str (sep k0) q0) (S (S k)) xs q1) as [rs q2] eqn:E2.
      cbn [fst snd] in *. econstructor; [exact E| exact Len |].
      apply IH. lia.
  Qed.
End StepsList.

Lemma loc_list_nonempty : forall g sepadv k x xs q, fst (loc_list g sepadv k (x :: xs) q) <> [].
Proof.
  intros. cbn [loc_list]. destruct (g k x _) as [x' q1]. destruct (loc_list g sepadv (S k) xs q1) as [rs q2].
  cbn. discriminate.
Qed.

Section Nary.
  Variable c : cfg.

  Definition GoodM (w : bool) (x : expr) : Prop := wfb w x = true /\ M c x.

  Lemma goodM_of : forall w cs, Forall (M c) cs -> forallb (wfb w) cs = true -> Forall (GoodM w) cs.
  Proof. intros. apply Forall_and; auto. apply forallb_Forall. exact H0. Qed.

  (** one round of the sequence loop *)
  Lemma seq_step : forall lay w n k x rr q,
      GoodM w x -> st 3 rr ->
      (String.length (append (seq_sep (lay []) (S k)) (append (txt (sub lay (S k)) 3 x) rr)) < n)%nat ->
      (do (_, j1) <- multiblanks1 (mkin (append (seq_sep (lay []) (S k)) (append (txt (sub lay (S k)) 3 x) rr)) q);
       I c n j1)
      = Ok (fst (loc c (sub lay (S k)) 3 x (adv_str (seq_sep (lay []) (S k)) q)),
            mkin rr (snd (loc c (sub lay (S k)) 3 x (adv_str (seq_sep (lay []) (S k)) q))))
      /\ (String.length rr < String.length (append (seq_sep (lay []) (S k)) (append (txt (sub lay (S k)) 3 x) rr)))%nat.
  Proof.
    intros lay w n k x rr q [Wx Mx] Sr Hn.
    assert (MS : mstop (sub lay (S k)) 3 x rr) by (apply mstop_low; auto).
    assert (Fo : first_ok (txt (sub lay (S k)) 3 x) rr) by (apply (first_ok_any x _ 3%nat w); auto; lia).
    split.
    - rewrite multiblanks1_spec. cbn [rest].
      pose proof (gap1_hd (fst (nl_sep (lay []) (S k))) (append (txt (sub lay (S k)) 3 x) rr)) as Hh.
      unfold seq_sep at 1.
      assert (Hb : hd_is blank_start (append (gap_text (gap1 (fst (nl_sep (lay []) (S k))))) (append (txt (sub lay (S k)) 3 x) rr)) = true).
      { destruct (append (gap_text (gap1 (fst (nl_sep (lay []) (S k))))) (append (txt (sub lay (S k)) 3 x) rr)) as [|a b];
          [discriminate|]. cbn [hd_is] in *. apply ws_start_facts in Hh. tauto. }
      rewrite Hb. cbn [obind]. unfold seq_sep. rewrite skip_gap.
      rewrite skip_no_blank by (apply first_ok_hd; exact Fo).
      rewrite length_app_s in Hn.
      apply (Mx (sub lay (S k)) 3%nat w _ rr n); auto; lia.
    - rewrite length_app_s. pose proof (first_ok_len _ _ Fo). lia.
  Qed.

  (** one round of the alternative / fallback loops *)
  Lemma bar_skip : forall g1 x q,
      skip (mkin (append (gap_text (post_gap g1)) (String BAR x)) q)
      = mkin (String BAR x) (adv_str (gap_text (post_gap g1)) q).
  Proof. intros. rewrite skip_gap. apply skip_no_blank. vm_compute. reflexivity. Qed.

  Lemma alt_step : forall lay w n k x rr q,
      GoodM w x -> st 2 rr ->
      (String.length (append (alt_sep (lay []) (S k)) (append (txt (sub lay (S k)) 2 x) rr)) < n)%nat ->
      do_alternative_expr (Sq c n) (mkin (append (alt_sep (lay []) (S k)) (append (txt (sub lay (S k)) 2 x) rr)) q)
      = Ok (fst (loc c (sub lay (S k)) 2 x (adv_str (alt_sep (lay []) (S k)) q)),
            mkin rr (snd (loc c (sub lay (S k)) 2 x (adv_str (alt_sep (lay []) (S k)) q))))
      /\ (String.length rr < String.length (append (alt_sep (lay []) (S k)) (append (txt (sub lay (S k)) 2 x) rr)))%nat.
  Proof.
    intros lay w n k x rr q [Wx Mx] Sr Hn.
    assert (MS : mstop (sub lay (S k)) 2 x rr) by (apply mstop_low; auto).
    assert (Fo : first_ok (txt (sub lay (S k)) 2 x) rr) by (apply (first_ok_any x _ 2%nat w); auto; lia).
    split.
    - unfold do_alternative_expr. rewrite multiblanks0_spec. cbn [obind].
      unfold alt_sep. rewrite !app_assoc_s. cbn [append]. rewrite bar_skip.
      unfold char_p. cbn [rest at_]. rewrite (proj2 (eqb_eq_a BAR BAR) eq_refl). cbn [obind].
      rewrite multiblanks0_spec. cbn [obind]. rewrite skip_gap.
      rewrite skip_no_blank by (apply first_ok_hd; exact Fo).
      rewrite !adv_str_app. cbn [adv_str].
      unfold alt_sep in Hn. rewrite !length_app_s in Hn.
      apply (Mx (sub lay (S k)) 2%nat w _ rr n); auto; try lia. rewrite length_app_s. lia.
    - rewrite !length_app_s. pose proof (first_ok_len _ _ Fo). rewrite length_app_s in H. lia.
  Qed.

  Lemma fb_step : forall lay w n k x rr q,
      GoodM w x -> st 1 rr ->
      (String.length (append (fb_sep (lay []) (S k)) (append (txt (sub lay (S k)) 1 x) rr)) < n)%nat ->
      do_fallback_expr (A c n) (mkin (append (fb_sep (lay []) (S k)) (append (txt (sub lay (S k)) 1 x) rr)) q)
      = Ok (fst (loc c (sub lay (S k)) 1 x (adv_str (fb_sep (lay []) (S k)) q)),
            mkin rr (snd (loc c (sub lay (S k)) 1 x (adv_str (fb_sep (lay []) (S k)) q))))
      /\ (String.length rr < String.length (append (fb_sep (lay []) (S k)) (append (txt (sub lay (S k)) 1 x) rr)))%nat.
  Proof.
    intros lay w n k x rr q [Wx Mx] Sr Hn.
    assert (MS : mstop (sub lay (S k)) 1 x rr) by (apply mstop_low; auto).
    assert (Fo : first_ok (txt (sub lay (S k)) 1 x) rr) by (apply (first_ok_any x _ 1%nat w); auto; lia).
    split.
    - unfold do_fallback_expr. rewrite multiblanks0_spec. cbn [obind].
      unfold fb_sep. rewrite !app_assoc_s. cbn [append]. rewrite bar_skip.
      unfold tag_p. cbn [rest at_ strip_prefix]. change "|"%char with BAR.
      rewrite (proj2 (eqb_eq_a BAR BAR) eq_refl). cbn [obind].
      rewrite multiblanks0_spec. cbn [obind]. rewrite skip_gap.
      rewrite skip_no_blank by (apply first_ok_hd; exact Fo).
      rewrite !adv_str_app. cbn [adv_str].
      unfold fb_sep in Hn. rewrite !length_app_s in Hn.
      apply (Mx (sub lay (S k)) 1%nat w _ rr n); auto; try lia. rewrite length_app_s. lia.
    - rewrite !length_app_s. pose proof (first_ok_len _ _ Fo). rewrite length_app_s in H. lia.
  Qed.

End Nary.

(** *** n-ary nodes *)

Section NaryCores.
  Variable c : cfg.

  Lemma goodM_first : forall w x, GoodM c w x -> wfb w x = true /\ FirstOk x.
  Proof. intros w x [W _]. split; auto. apply first_ok_any. Qed.

  Lemma seq_rest3 : forall lay w r xs k, Forall (GoodM c w) xs -> st 3 r ->
      st 3 (append (txt_list (fun k x => txt (sub lay k) 3 x) (seq_sep (lay [])) (S k) xs) r).
  Proof.
    intros. apply (chain_rest _ _ r (GoodM c w) (st 3) (fun _ _ => True)); auto; [|apply linked_trivial].
    intros k0 y rr [Wy My] Sr _. apply seq_sep_st3. apply (first_ok_any y _ 3%nat w); [lia|exact Wy|apply mstop_low; auto].
  Qed.

  Lemma alt_rest2 : forall lay w r xs k, Forall (GoodM c w) xs -> st 2 r ->
      st 2 (append (txt_list (fun k x => txt (sub lay k) 2 x) (alt_sep (lay [])) (S k) xs) r).
  Proof.
    intros. apply (chain_rest _ _ r (GoodM c w) (st 2) (fun _ _ => True)); auto; [|apply linked_trivial].
    intros k0 y rr [Wy My] Sr _. apply alt_sep_st2.
  Qed.

  Lemma fb_rest1 : forall lay w r xs k, Forall (GoodM c w) xs -> st 1 r ->
      st 1 (append (txt_list (fun k x => txt (sub lay k) 1 x) (fb_sep (lay [])) (S k) xs) r).
  Proof.
    intros. apply (chain_rest _ _ r (GoodM c w) (st 1) (fun _ _ => True)); auto; [|apply linked_trivial].
    intros k0 y rr [Wy My] Sr _. apply fb_sep_st1.
  Qed.

  Lemma core_seq : forall cs sp, Forall (M c) cs -> Core c (Sequence cs sp).
  Proof.
    intros cs sp HM lay ctx w p r n Hc W Hn [Hst _]. unfold parses. cbn [prec P body_txt body_loc].
    cbn [prec] in Hst. cbn [wfb] in W. apply andb_true_iff in W as [W1 W2]. apply Nat.leb_le in W1.
    pose proof (goodM_of c w cs HM W2) as G.
    destruct cs as [|x [|y ys]]; cbn [List.length] in W1; try lia.
    inversion G as [|? ? Gx Gxs]; subst. destruct Gx as [Wx Mx].
    set (f := fun k x => txt (sub lay k) 3 x) in *.
    set (g := fun k x q => loc c (sub lay k) 3 x q).
    set (xs := y :: ys) in *.
    cbn [body_txt] in Hn. fold f in Hn. cbn [txt_list append] in Hn |- *. rewrite app_assoc_s in Hn |- *.
    change (f 0%nat x) with (txt (sub lay 0) 3 x) in *.
    assert (S3 : st 3 r) by (eapply st_mono; [|exact Hst]; lia).
    assert (R1 : st 3 (append (txt_list f (seq_sep (lay [])) 1 xs) r)) by (apply (seq_rest3 lay w); auto).
    unfold Sq, sequence_expr. fold (I c n).
    pose proof (Mx (sub lay 0) 3%nat w p _ n ltac:(lia) Wx Hn (mstop_low _ 3 x _ ltac:(lia) R1)) as X.
    unfold parses in X. cbn [lvl Nat.eqb P] in X. rewrite X. clear X.
    cbn [loc_list]. fold g. change (g 0%nat x p) with (loc c (sub lay 0) 3 x p).
    destruct (loc c (sub lay 0) 3 x p) as [x' q1] eqn:E1. cbn [obind fst snd].
    assert (Hn1 : (String.length (append (txt_list f (seq_sep (lay [])) 1 xs) r) < n)%nat)
      by (rewrite length_app_s in Hn; lia).
    pose proof (steps_list f g (seq_sep (lay [])) r n
                  (fun j => do (_, j1) <- multiblanks1 j; I c n j1) (GoodM c w) (st 3) (fun _ _ => True)
                  ltac:(intros k0 y0 rr G0 Sr _; destruct G0 as [Wy0 My0]; apply seq_sep_st3;
                        apply (first_ok_any y0 _ 3%nat w); [lia|exact Wy0|apply mstop_low; auto])
                  ltac:(intros k0 y0 rr q0 G0 Sr _ Hl; apply (seq_step c lay w n k0 y0 rr q0 G0 Sr Hl))
                  xs 0%nat q1 Gxs (linked_trivial _ _ _ _ _) S3 Hn1) as St.
    rewrite (loop_p_steps _ _ _ _ _ St).
    2:{ apply seq_step_fails; cbn [rest]; apply Hst; lia. }
    2:{ cbn [rest]. exact Hn1. }
    pose proof (loc_list_nonempty g (fun k q => adv_str (seq_sep (lay []) k) q) 1 y ys q1) as Ne.
    fold xs in Ne.
    destruct (loc_list g (fun k q => adv_str (seq_sep (lay []) k) q) 1 xs q1) as [more q2].
    cbn [obind fst snd] in *. destruct more as [|m0 more]; [congruence|].
    rewrite from_range_pspan. reflexivity.
  Qed.

  Lemma core_alt : forall cs sp, Forall (M c) cs -> Core c (Alternative cs sp).
  Proof.
    intros cs sp HM lay ctx w p r n Hc W Hn [Hst _]. unfold parses. cbn [prec P body_txt body_loc].
    cbn [prec] in Hst. cbn [wfb] in W. apply andb_true_iff in W as [W1 W2]. apply Nat.leb_le in W1.
    pose proof (goodM_of c w cs HM W2) as G.
    destruct cs as [|x [|y ys]]; cbn [List.length] in W1; try lia.
    inversion G as [|? ? Gx Gxs]; subst. destruct Gx as [Wx Mx].
    set (f := fun k x => txt (sub lay k) 2 x) in *.
    set (g := fun k x q => loc c (sub lay k) 2 x q).
    set (xs := y :: ys) in *.
    cbn [body_txt] in Hn. fold f in Hn. cbn [txt_list append] in Hn |- *. rewrite app_assoc_s in Hn |- *.
    change (f 0%nat x) with (txt (sub lay 0) 2 x) in *.
    assert (S2 : st 2 r) by (eapply st_mono; [|exact Hst]; lia).
    assert (R1 : st 2 (append (txt_list f (alt_sep (lay [])) 1 xs) r)) by (apply (alt_rest2 lay w); auto).
    unfold A, alternative_expr. fold (Sq c n).
    pose proof (Mx (sub lay 0) 2%nat w p _ n ltac:(lia) Wx Hn (mstop_low _ 2 x _ ltac:(lia) R1)) as X.
    unfold parses in X. cbn [lvl Nat.eqb P] in X. rewrite X. clear X.
    cbn [loc_list]. fold g. change (g 0%nat x p) with (loc c (sub lay 0) 2 x p).
    destruct (loc c (sub lay 0) 2 x p) as [x' q1] eqn:E1. cbn [obind fst snd].
    assert (Hn1 : (String.length (append (txt_list f (alt_sep (lay [])) 1 xs) r) < n)%nat)
      by (rewrite length_app_s in Hn; lia).
    pose proof (steps_list f g (alt_sep (lay [])) r n
                  (do_alternative_expr (Sq c n)) (GoodM c w) (st 2) (fun _ _ => True)
                  ltac:(intros k0 y0 rr G0 Sr _; apply alt_sep_st2)
                  ltac:(intros k0 y0 rr q0 G0 Sr _ Hl; apply (alt_step c lay w n k0 y0 rr q0 G0 Sr Hl))
                  xs 0%nat q1 Gxs (linked_trivial _ _ _ _ _) S2 Hn1) as St.
    rewrite (loop_p_steps _ _ _ _ _ St).
    2:{ apply alt_step_fails; cbn [rest]; apply Hst; lia. }
    2:{ cbn [rest]. exact Hn1. }
    pose proof (loc_list_nonempty g (fun k q => adv_str (alt_sep (lay []) k) q) 1 y ys q1) as Ne.
    fold xs in Ne.
    destruct (loc_list g (fun k q => adv_str (alt_sep (lay []) k) q) 1 xs q1) as [more q2].
    cbn [obind fst snd] in *. destruct more as [|m0 more]; [congruence|].
    rewrite from_range_pspan. reflexivity.
  Qed.

  Lemma core_fb : forall cs sp, Forall (M c) cs -> Core c (Fallback cs sp).
  Proof.
    intros cs sp HM lay ctx w p r n Hc W Hn [Hst _]. unfold parses. cbn [prec P body_txt body_loc].
    cbn [prec] in Hst. cbn [wfb] in W. apply andb_true_iff in W as [W1 W2]. apply Nat.leb_le in W1.
    pose proof (goodM_of c w cs HM W2) as G.
    destruct cs as [|x [|y ys]]; cbn [List.length] in W1; try lia.
    inversion G as [|? ? Gx Gxs]; subst. destruct Gx as [Wx Mx].
    set (f := fun k x => txt (sub lay k) 1 x) in *.
    set (g := fun k x q => loc c (sub lay k) 1 x q).
    set (xs := y :: ys) in *.
    cbn [body_txt] in Hn. fold f in Hn. cbn [txt_list append] in Hn |- *. rewrite app_assoc_s in Hn |- *.
    change (f 0%nat x) with (txt (sub lay 0) 1 x) in *.
    assert (S1 : st 1 r) by (eapply st_mono; [|exact Hst]; lia).
    assert (R1 : st 1 (append (txt_list f (fb_sep (lay [])) 1 xs) r)) by (apply (fb_rest1 lay w); auto).
    unfold F, fallback_expr. fold (A c n).
    pose proof (Mx (sub lay 0) 1%nat w p _ n ltac:(lia) Wx Hn (mstop_low _ 1 x _ ltac:(lia) R1)) as X.
    unfold parses in X. cbn [lvl Nat.eqb P] in X. rewrite X. clear X.
    cbn [loc_list]. fold g. change (g 0%nat x p) with (loc c (sub lay 0) 1 x p).
    destruct (loc c (sub lay 0) 1 x p) as [x' q1] eqn:E1. cbn [obind fst snd].
    assert (Hn1 : (String.length (append (txt_list f (fb_sep (lay [])) 1 xs) r) < n)%nat)
      by (rewrite length_app_s in Hn; lia).
    pose proof (steps_list f g (fb_sep (lay [])) r n
                  (do_fallback_expr (A c n)) (GoodM c w) (st 1) (fun _ _ => True)
                  ltac:(intros k0 y0 rr G0 Sr _; apply fb_sep_st1)
                  ltac:(intros k0 y0 rr q0 G0 Sr _ Hl; apply (fb_step c lay w n k0 y0 rr q0 G0 Sr Hl))
                  xs 0%nat q1 Gxs (linked_trivial _ _ _ _ _) S1 Hn1) as St.
    rewrite (loop_p_steps _ _ _ _ _ St).
    2:{ apply fb_step_fails; cbn [rest]; apply Hst; lia. }
    2:{ cbn [rest]. exact Hn1. }
    pose proof (loc_list_nonempty g (fun k q => adv_str (fb_sep (lay []) k) q) 1 y ys q1) as Ne.
    fold xs in Ne.
    destruct (loc_list g (fun k q => adv_str (fb_sep (lay []) k) q) 1 xs q1) as [more q2].
    cbn [obind fst snd] in *. destruct more as [|m0 more]; [congruence|].
    rewrite from_range_pspan. reflexivity.
  Qed.

  Lemma flatten_loc_sub : forall (layk : nat -> layout) xs k prev q,
      forallb (wfb true) xs = true ->
      map flatten_expr (fst (loc_sub (fun k cx f q => loc c (layk k) cx f q) k prev xs q))
      = fst (loc_sub (fun k cx f q => loc c (layk k) cx f q) k prev xs q).
  Proof.
    induction xs as [|x xs IH]; intros k prev q W; [reflexivity|].
    cbn [forallb] in W. apply andb_true_iff in W as [Wx Wxs]. cbn [loc_sub].
    pose proof (flatten_loc c (layk k) (factor_ctx prev x) x q Wx) as Fx.
    destruct (loc c (layk k) (factor_ctx prev x) x q) as [x' q1].
    specialize (IH (S k) (factor_open (factor_ctx prev x) x) q1 Wxs).
    destruct (loc_sub _ (S k) (factor_open (factor_ctx prev x) x) xs q1) as [rs q2].
    cbn [fst map] in *. rewrite Fx, IH. reflexivity.
  Qed.

  Lemma loc_sub_length : forall (g : nat -> nat -> expr -> pos -> expr * pos) xs k prev q,
      List.length (fst (loc_sub g k prev xs q)) = List.length xs.
  Proof.
    induction xs as [|x xs IH]; intros; [reflexivity|]. cbn [loc_sub].
    destruct (g k (factor_ctx prev x) x q) as [x' q1].
    specialize (IH (S k) (factor_open (factor_ctx prev x) x) q1).
    destruct (loc_sub g (S k) (factor_open (factor_ctx prev x) x) xs q1) as [rs q2].
    cbn [fst List.length] in *. rewrite IH. reflexivity.
  Qed.

  Lemma steps_cons_inv : forall X (step : input -> pres X) i a l i2,
      steps step i (a :: l) i2 ->
      exists i1, step i = Ok (a, i1) /\ (String.length (rest i1) < String.length (rest i))%nat /\ steps step i1 l i2.
  Proof. intros X step i a l i2 H. inversion H; subst. eauto. Qed.

  Lemma steps_sub : forall (layk : nat -> layout) r n,
      c4 r -> c5 r ->
      forall xs k prev q,
        Forall (GoodM c true) xs ->
        (sub_last_open prev xs = true -> noq (skips r) = true) ->
        (String.length (append (txt_sub (fun k cx f => txt (layk k) cx f) k prev xs) r) < n)%nat ->
        steps (U c n) (mkin (append (txt_sub (fun k cx f => txt (layk k) cx f) k prev xs) r) q)
              (fst (loc_sub (fun k cx f q => loc c (layk k) cx f q) k prev xs q))
              (mkin r (snd (loc_sub (fun k cx f q => loc c (layk k) cx f q) k prev xs q))).
  Proof.
    intros layk r n R4 R5. induction xs as [|x xs IH]; intros k prev q G E Hn.
    - cbn. constructor.
    - inversion G as [|? ? [Wx Mx] Gxs]; subst. cbn [txt_sub loc_sub sub_last_open] in *.
      set (cx := factor_ctx prev x) in *. set (prev' := factor_open cx x) in *.
      rewrite app_assoc_s in *.
      assert (Gf : Forall (fun y => wfb true y = true /\ FirstOk y) xs).
      { eapply Forall_impl; [|exact Gxs]. intros y [Wy _]. split; auto. apply first_ok_any. }
      destruct (sub_rest layk r R4 R5 xs (S k) prev' Gf E) as (S5 & Lk & _). cbv zeta in *.
      set (T' := append (txt_sub (fun k0 cx0 f => txt (layk k0) cx0 f) (S k) prev' xs) r) in *.
      assert (MS : mstop (layk k) cx x T') by (apply factor_mstop; auto).
      assert (Cx : (cx <= 8)%nat) by (destruct (factor_ctx_cases prev x); subst cx; lia).
      assert (Lv : lvl cx = 5%nat) by (destruct (factor_ctx_cases prev x) as [X|X]; subst cx; rewrite X; reflexivity).
      assert (Fo : first_ok (txt (layk k) cx x) T') by (apply (first_ok_any x (layk k) cx true); auto).
      pose proof (Mx (layk k) cx true q T' n Cx Wx Hn MS) as X. unfold parses in X. rewrite Lv in X. cbn [P] in X.
      destruct (loc c (layk k) cx x q) as [x' q1] eqn:E1.
      specialize (IH (S k) prev' q1 Gxs E).
      destruct (loc_sub _ (S k) prev' xs q1) as [rs q2] eqn:E2.
      cbn [fst snd] in *. econstructor; [exact X| |].
      + cbn [rest]. pose proof (first_ok_len _ _ Fo). exact H.
      + apply IH. rewrite length_app_s in Hn. unfold T' in *. lia.
  Qed.

  Lemma core_sub : forall root l sp,
      match root with Sequence fs _ => Forall (M c) fs | _ => True end -> Core c (Subword root l sp).
  Proof.
    intros root l sp HM lay ctx w p r n Hc W Hn [Hst [Ex _]]. unfold parses. cbn [prec P].
    cbn [prec] in Hst. cbn [wfb] in W. apply andb_true_iff in W as [W W3]. apply andb_true_iff in W as [Ww Wl].
    apply N.eqb_eq in Wl. subst l.
    destruct root as [| | |fs s0| | | | | |]; try discriminate. cbn [body_txt body_loc] in *.
    apply andb_true_iff in W3 as [Wlen Wfs]. apply Nat.leb_le in Wlen.
    pose proof (goodM_of c true fs HM Wfs) as G.
    assert (R4 : c4 r) by (apply Hst; lia). assert (R5 : c5 r) by (apply Hst; lia).
    pose proof (steps_sub (fun k => sub (sub lay 0) k) r n R4 R5 fs 0%nat false p G
                  ltac:(intros O; apply Ex; cbn [open_end]; exact O) Hn) as St.
    cbv beta in St.
    pose proof (flatten_loc_sub (fun k => sub (sub lay 0) k) fs 0 false p Wfs) as Fl. cbv beta in Fl.
    destruct (loc_sub (fun k cx f q => loc c (sub (sub lay 0) k) cx f q) 0 false fs p) as [fs' q2] eqn:E.
    cbn [fst snd] in *.
    unfold SW, subword_sequence_expr. fold (U c n).
    pose proof (loc_sub_length (fun k cx f q => loc c (sub (sub lay 0) k) cx f q) fs 0 false p) as Len.
    rewrite E in Len. cbn [fst] in Len.
    destruct fs' as [|x' [|m0 more]]; cbn [List.length] in Len; try lia.
    destruct (steps_cons_inv _ _ _ _ _ _ St) as (i1 & Hx & Hlen & Hrest).
    rewrite Hx. cbn [obind].
    rewrite (loop_p_steps _ _ _ _ _ Hrest).
    2:{ apply unary_fails; cbn [rest]; exact R4. }
    2:{ cbn [rest] in *. lia. }
    cbn [obind].
    cbn [map] in Fl |- *. rewrite Fl. rewrite from_range_pspan. reflexivity.
  Qed.

  Definition MQ (e : expr) : Prop :=
    M c e /\ match e with Sequence fs _ => Forall (M c) fs | _ => True end.

  Lemma Forall_MQ : forall cs, Forall MQ cs -> Forall (M c) cs.
  Proof. induction 1; constructor; auto. destruct H; auto. Qed.

  Theorem all_M : forall e, MQ e.
  Proof.
    induction e using expr_ind'; (split; [apply core_to_M|try (cbn iota; constructor)]).
    - apply core_terminal.
    - apply core_nonterm.
    - apply core_command.
    - apply core_seq. apply Forall_MQ; auto.
    - apply Forall_MQ; auto.
    - apply core_alt. apply Forall_MQ; auto.
    - apply core_optional. apply IHe.
    - apply core_many1. apply IHe.
    - apply core_dd. apply IHe.
    - apply core_fb. apply Forall_MQ; auto.
    - apply core_sub. destruct IHe as [_ H]. exact H.
  Qed.

  (** The round trip for expressions: parsing the printed text at the level of its context gives
      the located tree and stops exactly at the end of the text. *)
  Theorem expr_roundtrip : forall e lay ctx w p r n,
      (ctx <= 8)%nat -> wfb w e = true ->
      (String.length (append (txt lay ctx e) r) < n)%nat -> mstop lay ctx e r ->
      P c n (lvl ctx) (mkin (append (txt lay ctx e) r) p)
      = Ok (fst (loc c lay ctx e p), mkin r (snd (loc c lay ctx e p))).
  Proof. intros e. apply (all_M e). Qed.
End NaryCores.
