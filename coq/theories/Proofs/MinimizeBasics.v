(** Elementary facts about the data structures of Model/Minimize.v: bitmaps as increasing lists,
    the intern pool, hash sets as lists, [ofold]/[omap]. *)
From CG Require Import Base.Prelude Model.Dfa Model.Minimize Spec.DfaEquiv Spec.MinimizeSpec.

(** *** membership *)
Lemma memN_iff x l : memN x l = true <-> In x l.
Proof.
  unfold memN. rewrite existsb_exists. split.
  - intros [y [H E]]. apply N.eqb_eq in E. subst. exact H.
  - intro H. exists x. split; [exact H|apply N.eqb_refl].
Qed.

Lemma memN_false x l : memN x l = false <-> ~ In x l.
Proof.
  split.
  - intros E H. apply memN_iff in H. congruence.
  - intro H. destruct (memN x l) eqn:E; [|reflexivity]. exfalso. apply H, memN_iff. exact E.
Qed.

Lemma memN_dec (x : N) (l : list N) : {In x l} + {~ In x l}.
Proof.
  destruct (memN x l) eqn:E; [left; apply memN_iff; exact E|right; apply memN_false; exact E].
Qed.

(** *** sorted lists *)
Lemma sortedNb_iff l : sortedNb l = true <-> sortedN l.
Proof.
  induction l as [|x r IH]; cbn [sortedNb sortedN]; [tauto|].
  rewrite andb_true_iff, forallb_forall, IH. split; intros [A B]; split; auto.
  - intros y Hy. apply N.ltb_lt. apply A. exact Hy.
  - intros y Hy. apply N.ltb_lt. apply A. exact Hy.
Qed.

Lemma sortedN_filter f l : sortedN l -> sortedN (filter f l).
Proof.
  induction l as [|x r IH]; cbn [filter sortedN]; [tauto|].
  intros [A B]. destruct (f x); cbn [sortedN]; auto.
  split; auto. intros y Hy. apply filter_In in Hy. apply A. tauto.
Qed.

Lemma sortedN_NoDup l : sortedN l -> NoDup l.
Proof.
  induction l as [|x r IH]; cbn [sortedN]; intros H; constructor.
  - intro Hx. destruct H as [A _]. specialize (A x Hx). lia.
  - apply IH. tauto.
Qed.

Lemma sortedN_ext a b : sortedN a -> sortedN b -> (forall x, In x a <-> In x b) -> a = b.
Proof.
  revert b. induction a as [|x r IH]; intros b Sa Sb E.
  - destruct b as [|y r']; [reflexivity|]. exfalso. apply (proj2 (E y)). left. reflexivity.
  - destruct b as [|y r']; [exfalso; apply (proj1 (E x)); left; reflexivity|].
    cbn [sortedN] in Sa, Sb. destruct Sa as [A Sa], Sb as [B Sb].
    assert (x = y).
    { destruct (proj1 (E x) (or_introl eq_refl)) as [H|H]; [auto|].
      destruct (proj2 (E y) (or_introl eq_refl)) as [H'|H']; [auto|].
      specialize (A _ H'). specialize (B _ H). lia. }
    subst y. f_equal. apply IH; auto.
    intro z. split; intro Hz.
    + destruct (proj1 (E z) (or_intror Hz)) as [H|H]; [|exact H]. subst z. specialize (A _ Hz). lia.
    + destruct (proj2 (E z) (or_intror Hz)) as [H|H]; [|exact H]. subst z. specialize (B _ Hz). lia.
Qed.

(** *** bitmaps *)
Lemma bm_insert_In x s y : In y (bm_insert x s) <-> y = x \/ In y s.
Proof.
  induction s as [|z r IH]; cbn [bm_insert].
  - cbn. intuition.
  - destruct (N.ltb_spec x z).
    + cbn [In]. intuition.
    + destruct (N.eqb_spec x z).
      * subst. cbn [In]. intuition.
      * cbn [In]. rewrite IH. intuition.
Qed.

Lemma bm_insert_sorted x s : sortedN s -> sortedN (bm_insert x s).
Proof.
  induction s as [|z r IH]; cbn [bm_insert sortedN].
  - intros _. split; [intros y []|exact I].
  - intros [A B]. destruct (N.ltb_spec x z).
    + cbn [sortedN]. split; [|split; assumption].
      intros y [Hy|Hy]; [subst; assumption|]. specialize (A _ Hy). lia.
    + destruct (N.eqb_spec x z); cbn [sortedN]; [split; assumption|].
      split; [|apply IH; assumption].
      intros y Hy. apply bm_insert_In in Hy. destruct Hy as [Hy|Hy]; [subst; lia|auto].
Qed.

Lemma bm_from_iter_gen l s y :
  In y (fold_left (fun s x => bm_insert x s) l s) <-> In y l \/ In y s.
Proof.
  revert s. induction l as [|x r IH]; intro s; cbn [fold_left].
  - cbn. tauto.
  - rewrite IH, bm_insert_In. cbn [In]. intuition.
Qed.

Lemma bm_from_iter_In l y : In y (bm_from_iter l) <-> In y l.
Proof. unfold bm_from_iter. rewrite bm_from_iter_gen. cbn. tauto. Qed.

Lemma bm_from_iter_sorted_gen l s :
  sortedN s -> sortedN (fold_left (fun s x => bm_insert x s) l s).
Proof.
  revert s. induction l as [|x r IH]; intros s H; cbn [fold_left]; [exact H|].
  apply IH. apply bm_insert_sorted. exact H.
Qed.

Lemma bm_from_iter_sorted l : sortedN (bm_from_iter l).
Proof. apply bm_from_iter_sorted_gen. exact I. Qed.

Lemma bm_inter_In a b y : In y (bm_inter a b) <-> In y a /\ In y b.
Proof. unfold bm_inter. rewrite filter_In, memN_iff. tauto. Qed.

Lemma bm_diff_In a b y : In y (bm_diff a b) <-> In y a /\ ~ In y b.
Proof.
  unfold bm_diff. rewrite filter_In, negb_true_iff, memN_false. tauto.
Qed.

Lemma bm_is_disjoint_true a b : bm_is_disjoint a b = true <-> (forall y, In y a -> ~ In y b).
Proof.
  unfold bm_is_disjoint. rewrite forallb_forall. split; intros H y Hy.
  - apply memN_false. apply negb_true_iff. apply H. exact Hy.
  - apply negb_true_iff. apply memN_false. apply H. exact Hy.
Qed.

Lemma bm_is_disjoint_false a b : bm_is_disjoint a b = false <-> exists y, In y a /\ In y b.
Proof.
  unfold bm_is_disjoint. split.
  - intro H. induction a as [|x r IH]; cbn [forallb] in H; [discriminate|].
    apply andb_false_iff in H. destruct H as [H|H].
    + apply negb_false_iff in H. apply memN_iff in H. exists x. split; [left; reflexivity|exact H].
    + destruct (IH H) as [y [A B]]. exists y. split; [right; exact A|exact B].
  - intros [y [A B]]. destruct (forallb _ a) eqn:E; [|reflexivity].
    rewrite forallb_forall in E. specialize (E y A). apply negb_true_iff, memN_false in E. contradiction.
Qed.

Lemma bm_min_spec s m : sortedN s -> bm_min s = Some m -> In m s /\ forall y, In y s -> m <= y.
Proof.
  destruct s as [|x r]; cbn; [discriminate|]. intros [A _] E. inversion E; subst.
  split; [left; reflexivity|]. intros y [Hy|Hy]; [subst; lia|]. specialize (A _ Hy). lia.
Qed.

Lemma bm_max_spec s m : sortedN s -> bm_max s = Some m -> In m s /\ forall y, In y s -> y <= m.
Proof.
  induction s as [|x r IH]; [discriminate|].
  destruct r as [|x' r'].
  - cbn. intros _ E. inversion E; subst. split; [left; reflexivity|]. intros y [Hy|[]]. subst. lia.
  - intros S E. change (bm_max (x' :: r') = Some m) in E.
    destruct S as [A S]. destruct (IH S E) as [I1 I2]. split; [right; exact I1|].
    intros y [Hy|Hy]; [|apply I2; exact Hy]. subst y. specialize (A m I1). lia.
Qed.

Lemma bm_min_some s : s <> [] -> exists m, bm_min s = Some m.
Proof. destruct s; [congruence|]. intros _. eexists. reflexivity. Qed.

Lemma bm_max_some s : s <> [] -> exists m, bm_max s = Some m.
Proof.
  induction s as [|x r IH]; [congruence|]. intros _.
  destruct r as [|y r']; [exists x; reflexivity|].
  destruct IH as [m Hm]; [congruence|]. exists m. exact Hm.
Qed.

Lemma bm_eqb_iff a b : bm_eqb a b = true <-> a = b.
Proof.
  revert b. induction a as [|x r IH]; intros [|y r']; cbn [bm_eqb]; try (split; congruence).
  rewrite andb_true_iff, N.eqb_eq, IH. split; [intros [-> ->]; reflexivity|intro E; inversion E; auto].
Qed.

(** *** hash sets *)
Lemma hs_insert_In x s y : In y (hs_insert x s) <-> y = x \/ In y s.
Proof.
  unfold hs_insert. destruct (memN x s) eqn:E.
  - apply memN_iff in E. split; [auto|]. intros [->|H]; assumption.
  - rewrite in_app_iff. cbn [In]. intuition.
Qed.

Lemma hs_remove_In x s y : In y (hs_remove x s) <-> y <> x /\ In y s.
Proof.
  unfold hs_remove. rewrite filter_In, negb_true_iff, N.eqb_neq. tauto.
Qed.

Lemma hs_insert_new x s : ~ In x s -> hs_insert x s = s ++ [x].
Proof. intro H. unfold hs_insert. apply memN_false in H. rewrite H. reflexivity. Qed.

Lemma NoDup_snoc {A} (l : list A) x : NoDup l -> ~ In x l -> NoDup (l ++ [x]).
Proof.
  induction l as [|y r IH]; cbn [app]; intros ND H.
  - constructor; [intros []|constructor].
  - inversion ND; subst. constructor.
    + rewrite in_app_iff. cbn [In]. intros [F|[F|[]]]; [contradiction|]. subst. apply H. left. reflexivity.
    + apply IH; [assumption|]. intro F. apply H. right. exact F.
Qed.

Lemma hs_insert_NoDup x s : NoDup s -> NoDup (hs_insert x s).
Proof.
  intro H. unfold hs_insert. destruct (memN x s) eqn:E; [exact H|].
  apply memN_false in E. apply NoDup_snoc; auto.
Qed.

Lemma hs_remove_NoDup x s : NoDup s -> NoDup (hs_remove x s).
Proof. intro H. unfold hs_remove. apply NoDup_filter. exact H. Qed.

(** *** the intern pool *)
Lemma pool_find_some set pool i j :
  pool_find set pool i = Some j -> exists k, j = i + N.of_nat k /\ nth_error pool k = Some set.
Proof.
  revert i. induction pool as [|s r IH]; intros i; cbn [pool_find]; [discriminate|].
  destruct (bm_eqb s set) eqn:E.
  - intro H. inversion H; subst. apply bm_eqb_iff in E. subst. exists 0%nat. split; [cbn; lia|reflexivity].
  - intro H. destruct (IH _ H) as [k [A B]]. exists (S k). split; [lia|exact B].
Qed.

Lemma pool_find_none set pool i : pool_find set pool i = None -> ~ In set pool.
Proof.
  revert i. induction pool as [|s r IH]; intros i; cbn [pool_find]; [auto|].
  destruct (bm_eqb s set) eqn:E; [discriminate|].
  intros H [F|F]; [subst; rewrite (proj2 (bm_eqb_iff set set) eq_refl) in E; discriminate|].
  exact (IH _ H F).
Qed.

Lemma nthN_app_l {A} (l l' : list A) i : i < lenN l -> nthN (l ++ l') i = nthN l i.
Proof.
  unfold nthN, lenN. intro H. apply nth_error_app1. lia.
Qed.

Lemma nthN_lenN {A} (l : list A) x : nthN (l ++ [x]) (lenN l) = Some x.
Proof.
  unfold nthN, lenN. rewrite Nat2N.id, nth_error_app2, Nat.sub_diag; [reflexivity|lia].
Qed.

Lemma nthN_some_lt {A} (l : list A) i x : nthN l i = Some x -> i < lenN l.
Proof.
  unfold nthN, lenN. intro H. assert (N.to_nat i < List.length l)%nat.
  { apply nth_error_Some. congruence. }
  lia.
Qed.

Lemma nthN_In {A} (l : list A) i x : nthN l i = Some x -> In x l.
Proof. unfold nthN. apply nth_error_In. Qed.

Lemma pool_intern_spec pool set pool' id :
  pool_intern pool set = (pool', id) ->
  pool_lookup pool' id = Some set
  /\ (exists ext, pool' = pool ++ ext)
  /\ (NoDup pool -> NoDup pool')
  /\ (forall j b, pool_lookup pool j = Some b -> pool_lookup pool' j = Some b).
Proof.
  unfold pool_intern, pool_lookup. destruct (pool_find set pool 0) as [j|] eqn:E; intro H; inversion H; subst.
  - apply pool_find_some in E. destruct E as [k [A B]]. subst.
    repeat split; auto.
    + unfold nthN. replace (N.to_nat (0 + N.of_nat k)) with k by lia. exact B.
    + exists []. rewrite app_nil_r. reflexivity.
  - apply pool_find_none in E. repeat split.
    + apply nthN_lenN.
    + exists [set]. reflexivity.
    + intro ND. apply NoDup_snoc; assumption.
    + intros j b Hj. rewrite nthN_app_l; [exact Hj|]. eapply nthN_some_lt; eauto.
Qed.
