(** C16, the --regex file: on a well-built arena ([rx_total_b], checked on every run on Rust's REGEX
    stage) the model of [Regex::to_dot] returns: no panic site is reached and the fuel suffices. *)
From CG Require Import Base.Prelude Model.Dfa Spec.DotRead Spec.DotSpec Model.Dot
     Proofs.DotStates Proofs.DotRegex.
Local Open Scope string_scope.

Lemma fold_children_ok F l :
  (forall c v, In c l -> exists rc, F c v = Ok rc) -> forall vis, exists res, fold_children F l vis = Ok res.
Proof.
  induction l as [|c rest IH]; intros H vis; cbn [fold_children]; [eexists; reflexivity|].
  destruct (H c vis (or_introl eq_refl)) as [a Ea]. rewrite Ea. cbn [obind].
  destruct (IH (fun c' v Hc' => H c' v (or_intror Hc')) (snd a)) as [b Eb]. rewrite Eb. cbn [obind]. eexists; reflexivity.
Qed.

Lemma rx_nodes_ok_nth pool r l : forall n0 k x,
  rx_nodes_ok pool r n0 l = true -> nth_error l k = Some x -> rx_node_ok pool r (n0 + N.of_nat k) x = true.
Proof.
  induction l as [|y rest IH]; intros n0 k x H E; [destruct k; discriminate|].
  cbn [rx_nodes_ok] in H. apply andb_true_iff in H as [H1 H2]. destruct k as [|k].
  - cbn in E. injection E as <-. now rewrite N.add_0_r.
  - cbn in E. specialize (IH _ _ _ H2 E). replace (n0 + N.of_nat (S k))%N with (n0 + 1 + N.of_nat k)%N by lia. exact IH.
Qed.

Definition nodes_ok (pool : rpool) (r : regex) : Prop :=
  forall m x, nthN (r_nodes r) m = Some x -> rx_node_ok pool r m x = true.

Lemma arena_nodes_ok pool r : rx_arena_ok pool r = true -> nodes_ok pool r /\ (r_root r < lenN (r_nodes r))%N.
Proof.
  unfold rx_arena_ok. intro H. apply andb_true_iff in H as [H1 H2]. apply N.ltb_lt in H1. split; [|exact H1].
  intros m x E. unfold nthN in E. pose proof (rx_nodes_ok_nth pool r _ 0 _ x H2 E) as H. now rewrite N.add_0_l, N2Nat.id in H.
Qed.

Lemma node_exists (r : regex) n : (n < lenN (r_nodes r))%N -> exists x, nthN (r_nodes r) n = Some x.
Proof.
  unfold lenN, nthN. intro H. destruct (nth_error (r_nodes r) (N.to_nat n)) as [x|] eqn:E; [now exists x|].
  apply nth_error_None in E. lia.
Qed.

Lemma nth_lt (r : regex) n x : nthN (r_nodes r) n = Some x -> (N.to_nat n < List.length (r_nodes r))%nat.
Proof. unfold nthN. intro E. apply nth_error_Some. congruence. Qed.

Ltac fold_go H :=
  match goal with
  | |- context [(fix go (l visited : list N) {struct l} : outcome unit (list item * list N) :=
                   match l with
                   | [] => Ok ([], visited)
                   | c :: rest => do a <- rx_items ?f ?v ?pool ?r c ?par ?p visited;
                                  do b <- go rest (snd a); Ok ((fst a ++ fst b)%list, snd b)
                   end) ?children ?vis] =>
      change (fix go (l visited : list N) {struct l} : outcome unit (list item * list N) :=
                match l with
                | [] => Ok ([], visited)
                | c :: rest => do a <- rx_items f v pool r c par p visited;
                               do b <- go rest (snd a); Ok ((fst a ++ fst b)%list, snd b)
                end)
        with (fold_children (fun c vv => rx_items f v pool r c par p vv))
  end.

(** a regex without within-word nodes: fuel above the node index suffices *)
Lemma rx_items_total_flat v pool sr : nodes_ok pool sr -> flat sr ->
  forall f n parent p vis, (N.to_nat n < f)%nat -> (n < lenN (r_nodes sr))%N ->
    exists res, rx_items f v pool sr n parent p vis = Ok res.
Proof.
  intros Hok Hflat. induction f as [|f IH]; intros n parent p vis Hf Hn; [lia|].
  cbn [rx_items]. destruct (node_exists sr n Hn) as [x Ex]. rewrite Ex. pose proof (Hok n x Ex) as Hx.
  destruct x as [|pos|pos|pos|pos|pos|children|children|c]; cbn [rx_node_ok] in Hx; try (eexists; reflexivity).
  - unfold rx_input. destruct (nthN (r_inputs sr) pos) as [[| | |]|]; try discriminate. cbn [obind]. eexists; reflexivity.
  - unfold rx_input. destruct (nthN (r_inputs sr) pos) as [[| | |]|]; try discriminate. cbn [obind]. eexists; reflexivity.
  - unfold rx_input. destruct (nthN (r_inputs sr) pos) as [[| | |]|]; try discriminate. cbn [obind]. eexists; reflexivity.
  - now elim (Hflat n pos).
  - fold_go Hx. rewrite forallb_forall in Hx.
    destruct (fold_children_ok (fun c vv => rx_items f v pool sr c (Some (node_id p n)) p vv) children) with (vis := vis) as [res Er].
    { intros c vv Hc. specialize (Hx c Hc). apply N.ltb_lt in Hx. apply IH; lia. }
    rewrite Er. cbn [obind]. eexists; reflexivity.
  - fold_go Hx. rewrite forallb_forall in Hx.
    destruct (fold_children_ok (fun c vv => rx_items f v pool sr c (Some (node_id p n)) p vv) children) with (vis := vis) as [res Er].
    { intros c vv Hc. specialize (Hx c Hc). apply N.ltb_lt in Hx. apply IH; lia. }
    rewrite Er. cbn [obind]. eexists; reflexivity.
Qed.

Definition pool_size (pool : rpool) : nat :=
  fold_right (fun p acc => List.length (r_nodes (snd p)) + acc)%nat 0%nat pool.

Lemma pool_size_ge pool rid sr : assocN rid pool = Some sr -> (List.length (r_nodes sr) <= pool_size pool)%nat.
Proof.
  induction pool as [|[k s] rest IH]; [discriminate|]. cbn [assocN pool_size fold_right snd].
  destruct (rid =? k)%N; [intro H; injection H as ->; lia|]. intro H. specialize (IH H). unfold pool_size in IH. lia.
Qed.

Lemma rx_items_total_main v pool r : nodes_ok pool r ->
  (forall rid sr, assocN rid pool = Some sr ->
                  nodes_ok pool sr /\ flat sr /\ (r_root sr < lenN (r_nodes sr))%N) ->
  forall f n parent p vis, (N.to_nat n + pool_size pool < f)%nat -> (n < lenN (r_nodes r))%N ->
    exists res, rx_items f v pool r n parent p vis = Ok res.
Proof.
  intros Hok Hpool. induction f as [|f IH]; intros n parent p vis Hf Hn; [lia|].
  cbn [rx_items]. destruct (node_exists r n Hn) as [x Ex]. rewrite Ex. pose proof (Hok n x Ex) as Hx.
  destruct x as [|pos|pos|pos|pos|pos|children|children|c]; cbn [rx_node_ok] in Hx; try (eexists; reflexivity).
  - unfold rx_input. destruct (nthN (r_inputs r) pos) as [[| | |]|]; try discriminate. cbn [obind]. eexists; reflexivity.
  - unfold rx_input. destruct (nthN (r_inputs r) pos) as [[| | |]|]; try discriminate. cbn [obind]. eexists; reflexivity.
  - unfold rx_input. destruct (nthN (r_inputs r) pos) as [[| | |]|]; try discriminate. cbn [obind]. eexists; reflexivity.
  - unfold rx_input. destruct (nthN (r_inputs r) pos) as [[| | |rid]|]; try discriminate. cbn [obind].
    destruct (assocN rid pool) as [sr|] eqn:Ep; [|discriminate].
    destruct (memN rid vis); [eexists; reflexivity|].
    destruct (Hpool rid sr Ep) as [A [B C]]. pose proof (pool_size_ge pool rid sr Ep) as Hsz.
    destruct (rx_items_total_flat v pool sr A B f (r_root sr) None (dec rid ++ "_") (rid :: vis)) as [[inner vis'] Er].
    + unfold lenN in C. lia.
    + exact C.
    + rewrite Er. cbn [obind]. eexists; reflexivity.
  - fold_go Hx. rewrite forallb_forall in Hx.
    destruct (fold_children_ok (fun c vv => rx_items f v pool r c (Some (node_id p n)) p vv) children) with (vis := vis) as [res Er].
    { intros c vv Hc. specialize (Hx c Hc). apply N.ltb_lt in Hx. apply IH; lia. }
    rewrite Er. cbn [obind]. eexists; reflexivity.
  - fold_go Hx. rewrite forallb_forall in Hx.
    destruct (fold_children_ok (fun c vv => rx_items f v pool r c (Some (node_id p n)) p vv) children) with (vis := vis) as [res Er].
    { intros c vv Hc. specialize (Hx c Hc). apply N.ltb_lt in Hx. apply IH; lia. }
    rewrite Er. cbn [obind]. eexists; reflexivity.
Qed.

Theorem of_regex_total v pool r : rx_total_b pool r = true -> exists text, of_regex_with v pool r = Ok text.
Proof.
  unfold rx_total_b. intro H. apply andb_true_iff in H as [H1 H2]. rewrite forallb_forall in H2.
  destruct (arena_nodes_ok pool r H1) as [Hok Hroot].
  assert (Hpool : forall rid sr, assocN rid pool = Some sr ->
                                 nodes_ok pool sr /\ flat sr /\ (r_root sr < lenN (r_nodes sr))%N).
  { intros rid sr E. apply assocN_In in E. specialize (H2 _ E). cbn [snd] in H2. apply andb_true_iff in H2 as [A B].
    destruct (arena_nodes_ok pool sr A) as [A1 A2]. split; [exact A1|]. split; [now apply rx_flat_b_sound|exact A2]. }
  unfold of_regex_with, regex_items.
  destruct (rx_items_total_main v pool r Hok Hpool (rx_fuel pool r) (r_root r) None "" []) as [res Er].
  - unfold rx_fuel. fold (pool_size pool). unfold lenN in Hroot. lia.
  - exact Hroot.
  - rewrite Er. cbn [obind]. eexists; reflexivity.
Qed.

(** the regex theorems without the "whenever it returns" *)
Theorem regex_dot_patched_total pool r :
  rx_total_b pool r = true -> rx_wf_b pool r = true ->
  exists text g, of_regex_with patched pool r = Ok text /\ read text = Some g
                 /\ regex_ok g (spec_pool pool) (spec_items r).
Proof.
  intros Ht Hwf. destruct (of_regex_total patched pool r Ht) as [text E].
  destruct (regex_dot_patched_b pool r text Hwf E) as [g [Hr Hok]]. now exists text, g.
Qed.

Theorem regex_dot_old_total pool r :
  rx_total_b pool r = true -> rx_wf_b pool r = true -> known_rx_all pool r = false ->
  exists text g, of_regex_with old pool r = Ok text /\ read text = Some g
                 /\ regex_ok g (spec_pool pool) (spec_items r).
Proof.
  intros Ht Hwf Hk. destruct (of_regex_total old pool r Ht) as [text E].
  destruct (regex_dot_old_b pool r text Hwf Hk E) as [g [Hr Hok]]. now exists text, g.
Qed.

(** the code as it is now: no exception *)
Theorem regex_dot_current_total pool r :
  rx_total_b pool r = true -> rx_wf_b pool r = true ->
  exists text g, of_regex pool r = Ok text /\ read text = Some g
                 /\ regex_ok g (spec_pool pool) (spec_items r).
Proof. intros Ht Hwf. rewrite of_regex_current. now apply regex_dot_patched_total. Qed.
