(** "|| behaves exactly like | when matching" at the level of the specification: which command
    lines [Spec.Meaning] matches does not depend on the || levels the leaves carry, hence not on
    whether the grammar was written with [||] or with [|].

    [erase] sets every level to 0 and drops every description (inside within-word expressions too).  [rel] relates a state
    with its erased image; [rel_step] shows that reading a word preserves the relation, because
    the rule [chosen] never looks at a level. *)
From CG Require Import Base.Prelude Model.Ast Model.Check Spec.Rx Spec.Meaning
     Proofs.RxFacts Proofs.MeaningFacts.

Definition erase_w (a : wleaf) : wleaf :=
  match a with
  | WLit t _ _ => WLit t None 0
  | WCmd c _ => WCmd c 0
  | WAny => WAny
  end.

Definition erase_l (a : leaf) : leaf :=
  match a with
  | LLit t _ _ => LLit t None 0
  | LCmd c _ => LCmd c 0
  | LAny => LAny
  | LSub x _ => LSub (rmap erase_w x) 0
  end.

Definition erase (r : rx leaf) : rx leaf := rmap erase_l r.

(** *** List helpers *)
Lemma flat_map_map {A B C} (f : B -> list C) (g : A -> B) l :
  flat_map f (map g l) = flat_map (fun x => f (g x)) l.
Proof. induction l as [| x l IH]; cbn; [reflexivity | rewrite IH; reflexivity]. Qed.

Lemma map_flat_map {A B C} (f : B -> C) (g : A -> list B) l :
  map f (flat_map g l) = flat_map (fun x => map f (g x)) l.
Proof. induction l as [| x l IH]; cbn; [reflexivity | rewrite map_app, IH; reflexivity]. Qed.

Lemma flat_map_ext' {A B} (f g : A -> list B) l :
  (forall x, f x = g x) -> flat_map f l = flat_map g l.
Proof. intro H. induction l as [| x l IH]; cbn; [reflexivity | rewrite H, IH; reflexivity]. Qed.

Lemma existsb_map {A B} (f : B -> bool) (g : A -> B) l :
  existsb f (map g l) = existsb (fun x => f (g x)) l.
Proof. induction l as [| x l IH]; cbn; [reflexivity | rewrite IH; reflexivity]. Qed.

(** *** Inside a word *)
Lemma wconsume_erase en a r : wconsume en (erase_w a) r = wconsume en a r.
Proof. destruct a; reflexivity. Qed.

Definition erase_split (s : rx wleaf * string * string) : rx wleaf * string * string :=
  (rmap erase_w (fst (fst s)), snd (fst s), snd s).

Lemma wsplits_erase en : forall fuel e d r,
    wsplits en fuel (rmap erase_w e) d r = map erase_split (wsplits en fuel e d r).
Proof.
  induction fuel as [| f IH]; intros e d r; cbn [wsplits map]; [reflexivity |].
  unfold erase_split at 1. cbn [fst snd]. f_equal.
  rewrite rmap_lf, flat_map_map, map_flat_map.
  apply flat_map_ext'. intros [a k]. cbn [fst snd].
  rewrite wconsume_erase, map_flat_map.
  apply flat_map_ext'. intros [t r']. cbn [fst snd]. apply IH.
Qed.

Lemma waccepts_erase en e w : waccepts en (rmap erase_w e) w = waccepts en e w.
Proof.
  unfold waccepts, wsplits_of. rewrite wsplits_erase, existsb_map.
  induction (wsplits en (String.length w) e EmptyString w) as [| [[e' d] r] l IH]; [reflexivity |].
  cbn [existsb]. rewrite IH. unfold erase_split. cbn [fst snd]. rewrite rmap_nullable. reflexivity.
Qed.

Lemma mid_accepts_erase en a w : mid_accepts en (erase_l a) w = mid_accepts en a w.
Proof. destruct a; cbn [erase_l mid_accepts]; try reflexivity. apply waccepts_erase. Qed.

(** *** States *)
Definition erase_move (ak : leaf * rx leaf) : leaf * rx leaf := (erase_l (fst ak), erase (snd ak)).

Lemma lf_erase r : lf (erase r) = map erase_move (lf r).
Proof. unfold erase. rewrite rmap_lf. reflexivity. Qed.

(** [s'] is the erased image of [s], as sets. *)
Definition rel (s s' : state) : Prop := forall k', In k' s' <-> exists k, In k s /\ erase k = k'.

Lemma rel_moves s s' : rel s s' ->
  forall ak', In ak' (moves s') <-> exists ak, In ak (moves s) /\ erase_move ak = ak'.
Proof.
  intros R [a' k']. rewrite moves_In. split.
  - intros [r' [Hr' Hlf]]. apply R in Hr'. destruct Hr' as [r [Hr <-]].
    rewrite lf_erase in Hlf. apply in_map_iff in Hlf. destruct Hlf as [ak [E Hin]].
    exists ak. split; [| assumption]. destruct ak as [a k]. apply moves_In. exists r. split; assumption.
  - intros [[a k] [Hin E]]. apply moves_In in Hin. destruct Hin as [r [Hr Hlf]].
    exists (erase r). split.
    + apply R. exists r. split; [assumption | reflexivity].
    + rewrite lf_erase. apply in_map_iff. exists (a, k). split; assumption.
Qed.

Lemma erase_l_lit a w d l : erase_l a = LLit w d l -> exists d0 l0, a = LLit w d0 l0.
Proof. destruct a; cbn; intro H; inversion H; subst. eauto. Qed.

Section Rel.
  Variable en : env.
  Variables s s' : state.
  Hypothesis R : rel s s'.

  Lemma lit_expected_erase w : lit_expected (moves s') w <-> lit_expected (moves s) w.
  Proof.
    split.
    - intros [d [l [k' Hin]]]. apply (rel_moves _ _ R) in Hin. destruct Hin as [[a k] [Hin E]].
      unfold erase_move in E. cbn [fst snd] in E. inversion E as [[Ea Ek]].
      apply erase_l_lit in Ea. destruct Ea as [d0 [l0 ->]]. exists d0, l0, k. assumption.
    - intros [d [l [k Hin]]]. exists None, 0, (erase k).
      apply (rel_moves _ _ R). exists (LLit w d l, k). split; [assumption | reflexivity].
  Qed.

  Lemma mid_expected_erase w : mid_expected en (moves s') w <-> mid_expected en (moves s) w.
  Proof.
    split.
    - intros [a' [k' [Hin Ha]]]. apply (rel_moves _ _ R) in Hin. destruct Hin as [[a k] [Hin E]].
      unfold erase_move in E. cbn [fst snd] in E. inversion E; subst.
      rewrite mid_accepts_erase in Ha. exists a, k. split; assumption.
    - intros [a [k [Hin Ha]]]. exists (erase_l a), (erase k). split.
      + apply (rel_moves _ _ R). exists (a, k). split; [assumption | reflexivity].
      + rewrite mid_accepts_erase. assumption.
  Qed.

  Lemma chosen_erase w a : chosen en (moves s') w (erase_l a) <-> chosen en (moves s) w a.
  Proof.
    destruct a; cbn [erase_l chosen].
    - reflexivity.
    - rewrite lit_expected_erase. reflexivity.
    - rewrite lit_expected_erase, mid_expected_erase. reflexivity.
    - change (mid_accepts en (LSub (rmap erase_w w0) 0) w) with (mid_accepts en (erase_l (LSub w0 lvl)) w).
      rewrite mid_accepts_erase, lit_expected_erase. reflexivity.
  Qed.

  Lemma rel_step w : rel (step en s w) (step en s' w).
  Proof.
    intro k'. rewrite step_spec. split.
    - intros [a' [Hin Hc]]. apply (rel_moves _ _ R) in Hin. destruct Hin as [[a k] [Hin E]].
      unfold erase_move in E. cbn [fst snd] in E. inversion E; subst.
      exists k. split; [| reflexivity]. apply step_spec. exists a. split; [assumption |].
      apply chosen_erase. assumption.
    - intros [k [Hin <-]]. apply step_spec in Hin. destruct Hin as [a [Hin Hc]].
      exists (erase_l a). split.
      + apply (rel_moves _ _ R). exists (a, k). split; [assumption | reflexivity].
      + apply chosen_erase. assumption.
  Qed.

  Lemma rel_nil : s = [] <-> s' = [].
  Proof.
    split; intro E.
    - destruct s' as [| k' r']; [reflexivity |]. exfalso.
      assert (H : In k' (k' :: r')) by (left; reflexivity).
      apply R in H. destruct H as [k [Hin _]]. rewrite E in Hin. destruct Hin.
    - destruct s as [| k r]; [reflexivity |]. exfalso.
      assert (H : In (erase k) s'). { apply R. exists k. split; [left; reflexivity | reflexivity]. }
      rewrite E in H. destruct H.
  Qed.
End Rel.

Lemma rel_run en : forall ws s s', rel s s' -> rel (run en s ws) (run en s' ws).
Proof.
  induction ws as [| w ws IH]; intros s s' R; [assumption |].
  cbn [run fold_left]. apply (IH (step en s w) (step en s' w)). apply rel_step. assumption.
Qed.

Lemma rel_start r : rel [r] [erase r].
Proof.
  intro k'. split.
  - intros [<- | []]. exists r. split; [left; reflexivity | reflexivity].
  - intros [k [[<- | []] <-]]. left; reflexivity.
Qed.

Definition matched_rx (en : env) (r : rx leaf) (ws : list string) : bool :=
  match run en [r] ws with [] => false | _ :: _ => true end.

(** Matching does not look at levels. *)
Theorem matched_rx_erase en r ws : matched_rx en (erase r) ws = matched_rx en r ws.
Proof.
  unfold matched_rx.
  pose proof (rel_run en ws _ _ (rel_start r)) as R. apply rel_nil in R.
  destruct (run en [r] ws) eqn:E1; destruct (run en [erase r] ws) eqn:E2; try reflexivity.
  - destruct R as [R _]. specialize (R eq_refl). discriminate.
  - destruct R as [_ R]. specialize (R eq_refl). discriminate.
Qed.

(** What may follow the words is the same up to levels. *)
Theorem expected_erase en r ws a' :
  In a' (map fst (moves (run en [erase r] ws)))
  <-> exists a, In a (map fst (moves (run en [r] ws))) /\ erase_l a = a'.
Proof.
  pose proof (rel_run en ws _ _ (rel_start r)) as R.
  rewrite in_map_iff. split.
  - intros [[a1 k1] [E Hin]]. cbn [fst] in E. subst a1.
    apply (rel_moves _ _ R) in Hin. destruct Hin as [[a k] [Hin E]].
    unfold erase_move in E. cbn [fst snd] in E. inversion E; subst.
    exists a. split; [| reflexivity]. apply in_map_iff. exists (a, k). split; [reflexivity | assumption].
  - intros [a [Hin <-]]. apply in_map_iff in Hin. destruct Hin as [[a1 k] [E Hin]]. cbn [fst] in E. subst a1.
    exists (erase_l a, erase k). split; [reflexivity |].
    apply (rel_moves _ _ R). exists (a, k). split; [assumption | reflexivity].
Qed.

(** *** From || to | on trees *)
Fixpoint bar_of_barbar (e : expr) : expr :=
  match e with
  | Terminal _ _ _ _ | NontermRef _ _ _ | Command _ _ _ _ => e
  | Sequence cs sp => Sequence (map bar_of_barbar cs) sp
  | Alternative cs sp => Alternative (map bar_of_barbar cs) sp
  | Fallback cs sp => Alternative (map bar_of_barbar cs) sp
  | Optional c sp => Optional (bar_of_barbar c) sp
  | Many1 c sp => Many1 (bar_of_barbar c) sp
  | DistDescr c d sp => DistDescr (bar_of_barbar c) d sp
  | Subword c l sp => Subword (bar_of_barbar c) l sp
  end.

Lemma tr_seq cs sp : tr (Sequence cs sp) = fold_right cat Eps (map tr cs).
Proof. cbn [tr]. induction cs as [| c r IH]; [reflexivity | cbn [map fold_right]; rewrite <- IH; reflexivity]. Qed.
Lemma tr_alt cs sp : tr (Alternative cs sp) = fold_right alt Zero (map tr cs).
Proof. cbn [tr]. induction cs as [| c r IH]; [reflexivity | cbn [map fold_right]; rewrite <- IH; reflexivity]. Qed.
Lemma tr_fb cs sp : tr (Fallback cs sp) = fold_right alt Zero (map tr cs).
Proof. cbn [tr]. induction cs as [| c r IH]; [reflexivity | cbn [map fold_right]; rewrite <- IH; reflexivity]. Qed.
Lemma trw_seq cs sp : trw (Sequence cs sp) = fold_right cat Eps (map trw cs).
Proof. cbn [trw]. induction cs as [| c r IH]; [reflexivity | cbn [map fold_right]; rewrite <- IH; reflexivity]. Qed.
Lemma trw_alt cs sp : trw (Alternative cs sp) = fold_right alt Zero (map trw cs).
Proof. cbn [trw]. induction cs as [| c r IH]; [reflexivity | cbn [map fold_right]; rewrite <- IH; reflexivity]. Qed.
Lemma trw_fb cs sp : trw (Fallback cs sp) = fold_right alt Zero (map trw cs).
Proof. cbn [trw]. induction cs as [| c r IH]; [reflexivity | cbn [map fold_right]; rewrite <- IH; reflexivity]. Qed.

Lemma Forall_map_eq {A B} (f g : A -> B) l : Forall (fun x => f x = g x) l -> map f l = map g l.
Proof. induction 1; cbn; [reflexivity | congruence]. Qed.

(** The translation does not distinguish [||] from [|]. *)
Lemma tr_bar e : tr (bar_of_barbar e) = tr e /\ trw (bar_of_barbar e) = trw e.
Proof.
  induction e using expr_ind'; cbn [bar_of_barbar]; try (split; reflexivity).
  - rewrite !tr_seq, !trw_seq, !map_map. split; f_equal; apply Forall_map_eq;
      (eapply Forall_impl; [| eassumption]); cbn; intros a [H1 H2]; assumption.
  - rewrite !tr_alt, !trw_alt, !map_map. split; f_equal; apply Forall_map_eq;
      (eapply Forall_impl; [| eassumption]); cbn; intros a [H1 H2]; assumption.
  - destruct IHe as [H1 H2]. cbn [tr trw]. rewrite H1, H2. split; reflexivity.
  - destruct IHe as [H1 H2]. cbn [tr trw]. rewrite H1, H2. split; reflexivity.
  - destruct IHe as [H1 H2]. cbn [tr trw]. split; assumption.
  - rewrite tr_alt, trw_alt, tr_fb, trw_fb, !map_map. split; f_equal; apply Forall_map_eq;
      (eapply Forall_impl; [| eassumption]); cbn; intros a [H1 H2]; assumption.
  - destruct IHe as [H1 H2]. cbn [tr trw]. rewrite H2. split; reflexivity.
Qed.

Definition erase_ww (r : rx wleaf) : rx wleaf := rmap erase_w r.

Lemma erase_fold_cat (l : list (rx leaf)) :
  erase (fold_right cat Eps l) = fold_right cat Eps (map erase l).
Proof. unfold erase. induction l as [| r l IH]; [reflexivity |]. cbn [fold_right map]. rewrite rmap_cat, IH. reflexivity. Qed.
Lemma erase_fold_alt (l : list (rx leaf)) :
  erase (fold_right alt Zero l) = fold_right alt Zero (map erase l).
Proof. unfold erase. induction l as [| r l IH]; [reflexivity |]. cbn [fold_right map]. rewrite rmap_alt, IH. reflexivity. Qed.
Lemma erase_ww_fold_cat (l : list (rx wleaf)) :
  erase_ww (fold_right cat Eps l) = fold_right cat Eps (map erase_ww l).
Proof. unfold erase_ww. induction l as [| r l IH]; [reflexivity |]. cbn [fold_right map]. rewrite rmap_cat, IH. reflexivity. Qed.
Lemma erase_ww_fold_alt (l : list (rx wleaf)) :
  erase_ww (fold_right alt Zero l) = fold_right alt Zero (map erase_ww l).
Proof. unfold erase_ww. induction l as [| r l IH]; [reflexivity |]. cbn [fold_right map]. rewrite rmap_alt, IH. reflexivity. Qed.

(** The children of a [Fallback] as [Check.propagate] relabels them. *)
Fixpoint prop_fb (i : N) (l : list expr) : list expr :=
  match l with
  | [] => []
  | c :: r => propagate c i :: prop_fb (N.succ i) r
  end.

Lemma propagate_fb cs sp lvl : propagate (Fallback cs sp) lvl = Fallback (prop_fb 0 cs) sp.
Proof. reflexivity. Qed.

(** Levels are the only thing [Check.propagate] changes. *)
Lemma erase_propagate e :
  (forall l, erase (tr (propagate e l)) = erase (tr e))
  /\ (forall l, erase_ww (trw (propagate e l)) = erase_ww (trw e)).
Proof.
  induction e using expr_ind'.
  - split; intro l0; reflexivity.
  - split; intro l0; reflexivity.
  - split; intro l0; reflexivity.
  - split; intro l0; cbn [propagate].
    + rewrite !tr_seq, !erase_fold_cat, !map_map. f_equal. apply Forall_map_eq.
      eapply Forall_impl; [| eassumption]. cbn. intros a [H1 H2]. apply H1.
    + rewrite !trw_seq, !erase_ww_fold_cat, !map_map. f_equal. apply Forall_map_eq.
      eapply Forall_impl; [| eassumption]. cbn. intros a [H1 H2]. apply H2.
  - split; intro l0; cbn [propagate].
    + rewrite !tr_alt, !erase_fold_alt, !map_map. f_equal. apply Forall_map_eq.
      eapply Forall_impl; [| eassumption]. cbn. intros a [H1 H2]. apply H1.
    + rewrite !trw_alt, !erase_ww_fold_alt, !map_map. f_equal. apply Forall_map_eq.
      eapply Forall_impl; [| eassumption]. cbn. intros a [H1 H2]. apply H2.
  - destruct IHe as [H1 H2]. split; intro l0; cbn [propagate tr trw erase erase_ww rmap].
    + f_equal. apply H1.
    + f_equal. apply H2.
  - destruct IHe as [H1 H2]. split; intro l0; cbn [propagate tr trw erase erase_ww rmap].
    + f_equal. apply H1.
    + f_equal. apply H2.
  - destruct IHe as [H1 H2]. split; intro l0; cbn [propagate tr trw]; [apply H1 | apply H2].
  - split; intro l0; rewrite propagate_fb.
    + rewrite !tr_fb, !erase_fold_alt, !map_map. f_equal.
      generalize 0 as i. induction H as [| c r Hc Hr IH]; intro i; [reflexivity |].
      cbn [prop_fb map]. f_equal; [apply Hc | apply IH].
    + rewrite !trw_fb, !erase_ww_fold_alt, !map_map. f_equal.
      generalize 0 as i. induction H as [| c r Hc Hr IH]; intro i; [reflexivity |].
      cbn [prop_fb map]. f_equal; [apply Hc | apply IH].
  - destruct IHe as [H1 H2]. split; intro l0; cbn [propagate tr trw].
    + cbn [erase rmap erase_l]. f_equal. f_equal. apply H2.
    + apply H2.
Qed.

Lemma matched_as_rx en e ws : matched en e ws = matched_rx en (tr e) ws.
Proof. reflexivity. Qed.

(** Replacing every [||] by [|] before the levels are assigned never changes which command
    lines are matched ... *)
Theorem matched_bar_of_barbar en e ws :
  matched en (propagate (bar_of_barbar e) 0) ws = matched en (propagate e 0) ws.
Proof.
  rewrite !matched_as_rx.
  rewrite <- (matched_rx_erase en (tr (propagate (bar_of_barbar e) 0))).
  rewrite <- (matched_rx_erase en (tr (propagate e 0))).
  destruct (erase_propagate (bar_of_barbar e)) as [H1 _].
  destruct (erase_propagate e) as [H2 _].
  rewrite H1, H2. destruct (tr_bar e) as [H3 _]. rewrite H3. reflexivity.
Qed.

(** ... nor, up to levels, what may follow them. *)
Theorem expected_bar_of_barbar en e ws a0 :
  (exists a, In a (map fst (moves (run en (start (propagate (bar_of_barbar e) 0)) ws))) /\ erase_l a = a0)
  <-> (exists a, In a (map fst (moves (run en (start (propagate e 0)) ws))) /\ erase_l a = a0).
Proof.
  unfold start. rewrite <- !expected_erase.
  destruct (erase_propagate (bar_of_barbar e)) as [H1 _].
  destruct (erase_propagate e) as [H2 _].
  rewrite H1, H2. destruct (tr_bar e) as [H3 _]. rewrite H3. reflexivity.
Qed.
